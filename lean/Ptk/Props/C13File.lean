/-
  C13 — lemmas about the FileHistory byte format (`Ptk.Model.C13`, part a), for an
  arbitrary codec satisfying `Codec.Good`.  The property theorems are in `Props/C13.lean`.
-/
import Ptk.Model.C13
namespace Ptk.C13
open Ptk.Py

/-- what the format needs from `str.encode` / `bytes.decode(errors="replace")` -/
structure Codec.Good (C : Codec) : Prop where
  /-- decoding an encoded text gives the text back -/
  dec_enc : ∀ t : Text, C.dec (C.encText t) = t
  /-- the line terminator is the single byte 0x0A -/
  enc_nl : C.enc '\n' = [10]
  /-- and that byte occurs in the encoding of no other character -/
  nl_free : ∀ c, c ≠ '\n' → 10 ∉ C.enc c

/-- timestamps never contain a newline -/
def TsOk (es : List (Text × Text)) : Prop := ∀ e ∈ es, '\n' ∉ e.1

/-! ### encText -/

theorem encText_append (C : Codec) (a b : Text) :
    C.encText (a ++ b) = C.encText a ++ C.encText b := by
  simp [Codec.encText, List.flatMap_append]

theorem encText_cons (C : Codec) (c : Char) (t : Text) :
    C.encText (c :: t) = C.enc c ++ C.encText t := by
  simp [Codec.encText, List.flatMap_cons]

theorem encText_nil (C : Codec) : C.encText [] = [] := rfl

theorem encText_nl {C : Codec} (h : C.Good) : C.encText ['\n'] = [10] := by
  simp [Codec.encText, h.enc_nl]

theorem nl_free_text {C : Codec} (h : C.Good) (t : Text) (ht : '\n' ∉ t) : 10 ∉ C.encText t := by
  induction t with
  | nil => simp [Codec.encText]
  | cons c t ih =>
    rw [encText_cons]
    simp only [List.mem_cons, not_or] at ht
    simp only [List.mem_append, not_or]
    exact ⟨h.nl_free c (fun e => ht.1 e.symm), ih ht.2⟩

/-! ### Python's `split("\n")` -/

theorem splitOn_ne_nil (c : Char) (t : Text) : splitOn c t ≠ [] := by
  induction t with
  | nil => simp [splitOn]
  | cons x xs ih =>
    unfold splitOn
    split
    · simp
    · split <;> simp

theorem splitOn_no_sep (c : Char) (t : Text) : ∀ l ∈ splitOn c t, c ∉ l := by
  induction t with
  | nil => simp [splitOn]
  | cons x xs ih =>
    unfold splitOn
    split
    · intro l hl
      simp only [List.mem_cons] at hl
      rcases hl with rfl | hl
      · simp
      · exact ih l hl
    · rename_i hne
      split
      · rename_i heq
        exact absurd heq (splitOn_ne_nil c xs)
      · rename_i l ls heq
        intro l' hl'
        simp only [List.mem_cons] at hl'
        rcases hl' with rfl | hl'
        · have := ih l (by simp [heq])
          simp only [List.mem_cons, not_or]
          exact ⟨fun e => hne e.symm, this⟩
        · exact ih l' (by simp [heq, hl'])

/-- the text lines `load` collects for an entry: every piece followed by "\n" -/
def linesOf (s : Text) : List Text := (splitOn '\n' s).map (· ++ ['\n'])

theorem linesOf_ne_nil (s : Text) : linesOf s ≠ [] := by
  simp [linesOf, splitOn_ne_nil]

/-- `"".join(lines)` of an entry's lines is the entry plus one trailing newline -/
theorem linesOf_flatten (s : Text) : (linesOf s).flatten = s ++ ['\n'] := by
  unfold linesOf
  induction s with
  | nil => simp [splitOn]
  | cons x xs ih =>
    unfold splitOn
    split
    · rename_i hx
      simp [ih, hx]
    · split
      · rename_i heq
        exact absurd heq (splitOn_ne_nil _ xs)
      · rename_i l ls heq
        rw [heq] at ih
        simp at ih ⊢
        exact ih

/-- `"".join(lines)[:-1]` gives the entry back -/
theorem linesOf_join (s : Text) : (linesOf s).flatten.dropLast = s := by
  rw [linesOf_flatten, List.dropLast_concat]

/-! ### line splitting -/

theorem splitLines_line (l : Bytes) (h : 10 ∉ l) (rest : Bytes) :
    splitLines (l ++ 10 :: rest) = (l ++ [10]) :: splitLines rest := by
  induction l with
  | nil => simp [splitLines]
  | cons b l ih =>
    simp only [List.mem_cons, not_or] at h
    have hb : b ≠ 10 := fun e => h.1 e.symm
    simp only [List.cons_append]
    rw [splitLines]
    simp only [hb, if_false]
    rw [ih h.2]

theorem splitLines_partial (l : Bytes) (h : 10 ∉ l) (hne : l ≠ []) : splitLines l = [l] := by
  induction l with
  | nil => exact absurd rfl hne
  | cons b l ih =>
    simp only [List.mem_cons, not_or] at h
    have hb : b ≠ 10 := fun e => h.1 e.symm
    rw [splitLines]
    simp only [hb, if_false]
    cases l with
    | nil => simp [splitLines]
    | cons c l' => rw [ih h.2 (by simp)]

/-! ### the load loop -/

theorem loadRun_nil (C : Codec) (st : LoadSt) : loadRun C st [] = st := by
  simp [loadRun, splitLines]

/-- a complete line is consumed by one `loadStep` -/
theorem loadRun_line (C : Codec) (st : LoadSt) (l : Bytes) (h : 10 ∉ l) (rest : Bytes) :
    loadRun C st (l ++ 10 :: rest) = loadRun C (loadStep C st (l ++ [10])) rest := by
  simp [loadRun, splitLines_line l h rest]

/-- the unterminated last line of a (torn) file -/
theorem loadRun_partial (C : Codec) (st : LoadSt) (l : Bytes) (h : 10 ∉ l) (hne : l ≠ []) :
    loadRun C st l = loadStep C st l := by
  simp [loadRun, splitLines_partial l h hne]

/-- a complete text line (no newline inside) followed by its terminator -/
theorem loadRun_textline {C : Codec} (hC : C.Good) (st : LoadSt) (t : Text) (ht : '\n' ∉ t)
    (rest : Bytes) :
    loadRun C st (C.encText (t ++ ['\n']) ++ rest)
      = loadRun C (loadStep C st (C.encText (t ++ ['\n']))) rest := by
  rw [encText_append, encText_nl hC, List.append_assoc]
  exact loadRun_line C st _ (nl_free_text hC t ht) rest

theorem add_nil_lines (S : List Text) : (LoadSt.mk S []).add = S := by
  simp [LoadSt.add]

theorem loadStep_plus {C : Codec} (hC : C.Good) (st : LoadSt) (l : Text) :
    loadStep C st (C.encText ('+' :: (l ++ ['\n']))) = { st with lines := st.lines ++ [l ++ ['\n']] } := by
  simp [loadStep, hC.dec_enc]

theorem loadStep_hash {C : Codec} (hC : C.Good) (st : LoadSt) (t : Text) :
    loadStep C st (C.encText ('#' :: t)) = ⟨st.add, []⟩ := by
  simp [loadStep, hC.dec_enc]

theorem loadStep_nl {C : Codec} (hC : C.Good) (st : LoadSt) :
    loadStep C st [10] = ⟨st.add, []⟩ := by
  have : C.dec [10] = ['\n'] := by rw [← encText_nl hC, hC.dec_enc]
  simp [loadStep, this]

/-- the `+` lines of one entry are collected into `lines` -/
theorem loadRun_plusLines {C : Codec} (hC : C.Good) (S : List Text) (ls : List Text)
    (hls : ∀ l ∈ ls, '\n' ∉ l) (L : List Text) (rest : Bytes) :
    loadRun C ⟨S, L⟩ (ls.flatMap (plusLine C) ++ rest)
      = loadRun C ⟨S, L ++ ls.map (· ++ ['\n'])⟩ rest := by
  induction ls generalizing L with
  | nil => simp
  | cons l ls ih =>
    have hl : '\n' ∉ '+' :: l := by
      simp only [List.mem_cons, not_or]
      exact ⟨by decide, hls l (by simp)⟩
    have := loadRun_textline hC ⟨S, L⟩ ('+' :: l) hl (ls.flatMap (plusLine C) ++ rest)
    simp only [List.cons_append] at this
    simp only [List.flatMap_cons, List.append_assoc]
    rw [show plusLine C l = C.encText ('+' :: (l ++ ['\n'])) from rfl, this, loadStep_plus hC]
    simp only
    rw [ih (fun l' hl' => hls l' (by simp [hl']))]
    simp

/-- the comment line of a record without its terminator: `# <timestamp>` -/
def hdrBody (C : Codec) (ts : Text) : Bytes := C.encText ('#' :: ' ' :: ts)

/-- the part of a record after its first byte (the `\n` of `"\n# …"`) -/
def recordTail (C : Codec) (ts s : Text) : Bytes :=
  hdrBody C ts ++ 10 :: (splitOn '\n' s).flatMap (plusLine C)

theorem record_eq {C : Codec} (hC : C.Good) (ts s : Text) :
    record C ts s = 10 :: recordTail C ts s := by
  simp [record, recordTail, hdrBody, header, encText_cons, hC.enc_nl, encText_append, encText_nil]

theorem hdrBody_nl_free {C : Codec} (hC : C.Good) (ts : Text) (hts : '\n' ∉ ts) :
    10 ∉ hdrBody C ts := by
  apply nl_free_text hC
  simp only [List.mem_cons, not_or]
  exact ⟨by decide, by decide, hts⟩

theorem loadStep_hdr {C : Codec} (hC : C.Good) (st : LoadSt) (ts : Text) :
    loadStep C st (hdrBody C ts ++ [10]) = ⟨st.add, []⟩ := by
  have : hdrBody C ts ++ [10] = C.encText ('#' :: (' ' :: ts ++ ['\n'])) := by
    simp [hdrBody, encText_append, encText_cons, hC.enc_nl, encText_nil]
  rw [this, loadStep_hash hC]

/-- after the comment line of a record the previous entry is closed and the new one collected -/
theorem loadRun_recordTail {C : Codec} (hC : C.Good) (st : LoadSt) (ts s : Text) (hts : '\n' ∉ ts)
    (rest : Bytes) :
    loadRun C st (recordTail C ts s ++ rest) = loadRun C ⟨st.add, linesOf s⟩ rest := by
  unfold recordTail
  rw [List.append_assoc, List.cons_append, loadRun_line C st _ (hdrBody_nl_free hC ts hts),
    loadStep_hdr hC, loadRun_plusLines hC _ _ (splitOn_no_sep '\n' s)]
  simp [linesOf]

theorem loadRun_record {C : Codec} (hC : C.Good) (st : LoadSt) (ts s : Text) (hts : '\n' ∉ ts)
    (rest : Bytes) :
    loadRun C st (record C ts s ++ rest) = loadRun C ⟨st.add, linesOf s⟩ rest := by
  rw [record_eq hC, List.cons_append]
  have := loadRun_line C st [] (by simp) (recordTail C ts s ++ rest)
  simp only [List.nil_append] at this
  rw [this, loadStep_nl hC, loadRun_recordTail hC _ ts s hts, add_nil_lines]

theorem add_linesOf (S : List Text) (s : Text) : (LoadSt.mk S (linesOf s)).add = S ++ [s] := by
  have : (linesOf s).isEmpty = false := by
    cases h : linesOf s with
    | nil => exact absurd h (linesOf_ne_nil s)
    | cons _ _ => rfl
  simp [LoadSt.add, this, linesOf_join]

/-- loading a sequence of complete records appends exactly their entries -/
theorem loadRun_stores {C : Codec} (hC : C.Good) (es : List (Text × Text)) (hts : TsOk es)
    (st : LoadSt) : (loadRun C st (stores C es)).add = st.add ++ es.map (·.2) := by
  induction es generalizing st with
  | nil => simp [stores, loadRun_nil]
  | cons e es ih =>
    obtain ⟨ts, s⟩ := e
    have h1 : '\n' ∉ ts := hts (ts, s) (by simp)
    have h2 : TsOk es := fun e he => hts e (by simp [he])
    simp only [stores]
    rw [loadRun_record hC st ts s h1, ih h2, add_linesOf]
    simp

theorem stores_append (C : Codec) (a b : List (Text × Text)) :
    stores C (a ++ b) = stores C a ++ stores C b := by
  induction a with
  | nil => simp [stores]
  | cons e a ih => obtain ⟨ts, s⟩ := e; simp [stores, ih]

/-! ### torn files -/

/-- whatever a state is, `add` yields its `strings` plus at most one more entry -/
theorem add_extra (S L : List Text) : ∃ x : List Text, x.length ≤ 1 ∧ (LoadSt.mk S L).add = S ++ x := by
  unfold LoadSt.add
  split
  · exact ⟨[], by simp, by simp⟩
  · exact ⟨[_], by simp, rfl⟩

/-- one more (arbitrarily decoded) line can only touch the entry under construction -/
theorem loadStep_extra (C : Codec) (S L : List Text) (q : Bytes) :
    ∃ x : List Text, x.length ≤ 1 ∧ (loadStep C ⟨S, L⟩ q).add = S ++ x := by
  unfold loadStep
  split
  · exact add_extra S _
  · simp only [add_nil_lines]
    exact add_extra S L

/-- an unterminated last line, then (possibly) further complete records: the torn line costs at
    most one damaged entry and the following records are framed correctly (every record starts
    with a newline byte, which terminates the torn line). -/
theorem loadRun_torn_then {C : Codec} (hC : C.Good) (S L : List Text) (q : Bytes) (hq : 10 ∉ q)
    (es' : List (Text × Text)) (hts : TsOk es') :
    ∃ x : List Text, x.length ≤ 1 ∧
      (loadRun C ⟨S, L⟩ (q ++ stores C es')).add = S ++ x ++ es'.map (·.2) := by
  by_cases hq0 : q = []
  · subst hq0
    obtain ⟨x, hx, hadd⟩ := add_extra S L
    refine ⟨x, hx, ?_⟩
    rw [List.nil_append, loadRun_stores hC es' hts, hadd]
  · cases es' with
    | nil =>
      obtain ⟨x, hx, hadd⟩ := loadStep_extra C S L q
      refine ⟨x, hx, ?_⟩
      simp only [stores, List.append_nil, List.map_nil]
      rw [loadRun_partial C _ q hq hq0, hadd]
    | cons e es' =>
      obtain ⟨ts, s⟩ := e
      have h1 : '\n' ∉ ts := hts (ts, s) (by simp)
      have h2 : TsOk es' := fun e he => hts e (by simp [he])
      obtain ⟨x, hx, hadd⟩ := loadStep_extra C S L (q ++ [10])
      refine ⟨x, hx, ?_⟩
      simp only [stores]
      rw [record_eq hC, List.cons_append, loadRun_line C _ q hq,
        loadRun_recordTail hC _ ts s h1, loadRun_stores hC es' h2, add_linesOf, hadd]
      simp

/-- a cut inside the `+` lines of a record -/
theorem loadRun_plus_cut {C : Codec} (hC : C.Good) (S : List Text) (ls : List Text)
    (hls : ∀ l ∈ ls, '\n' ∉ l) (L : List Text) (k : Nat)
    (es' : List (Text × Text)) (hts : TsOk es') :
    ∃ x : List Text, x.length ≤ 1 ∧
      (loadRun C ⟨S, L⟩ ((ls.flatMap (plusLine C)).take k ++ stores C es')).add
        = S ++ x ++ es'.map (·.2) := by
  induction ls generalizing L k with
  | nil =>
    simpa using loadRun_torn_then hC S L [] (by simp) es' hts
  | cons l ls ih =>
    have hl : '\n' ∉ '+' :: l := by
      simp only [List.mem_cons, not_or]
      exact ⟨by decide, hls l (by simp)⟩
    have hls' : ∀ l' ∈ ls, '\n' ∉ l' := fun l' hl' => hls l' (by simp [hl'])
    have hpl : plusLine C l = C.encText ('+' :: l) ++ [10] := by
      rw [show plusLine C l = C.encText (('+' :: l) ++ ['\n']) from rfl, encText_append,
        encText_nl hC]
    simp only [List.flatMap_cons]
    by_cases hk : (plusLine C l).length ≤ k
    · -- the whole line survives
      rw [List.take_append, List.take_of_length_le hk, List.append_assoc]
      have := loadRun_textline hC ⟨S, L⟩ ('+' :: l) hl
        ((ls.flatMap (plusLine C)).take (k - (plusLine C l).length) ++ stores C es')
      simp only [List.cons_append] at this
      rw [show plusLine C l = C.encText ('+' :: (l ++ ['\n'])) from rfl] at this ⊢
      rw [this, loadStep_plus hC]
      exact ih hls' _ _
    · -- the cut is inside this line
      have hk' : k ≤ (C.encText ('+' :: l)).length := by
        rw [hpl] at hk; simp at hk; omega
      have hlen : k ≤ (plusLine C l).length := by rw [hpl]; simp; omega
      rw [List.take_append_of_le_length hlen, hpl, List.take_append_of_le_length hk']
      apply loadRun_torn_then hC S L _ _ es' hts
      intro hmem
      exact nl_free_text hC _ hl (List.mem_of_mem_take hmem)

/-- a cut anywhere inside one record (`k` smaller than its length) -/
theorem loadRun_record_cut {C : Codec} (hC : C.Good) (st : LoadSt) (ts s : Text) (hts1 : '\n' ∉ ts)
    (k : Nat) (hk : k < (record C ts s).length) (es' : List (Text × Text)) (hts : TsOk es') :
    ∃ x : List Text, x.length ≤ 1 ∧
      (loadRun C st ((record C ts s).take k ++ stores C es')).add
        = st.add ++ x ++ es'.map (·.2) := by
  obtain ⟨S, L⟩ := st
  rw [record_eq hC] at hk ⊢
  cases k with
  | zero =>
    -- nothing of the record survived: the previous entry is still complete
    refine ⟨[], by simp, ?_⟩
    simp only [List.take_zero, List.nil_append, List.append_nil]
    exact loadRun_stores hC es' hts _
  | succ k =>
    simp only [List.take_succ_cons, List.cons_append]
    have h0 := loadRun_line C ⟨S, L⟩ [] (by simp) ((recordTail C ts s).take k ++ stores C es')
    simp only [List.nil_append] at h0
    rw [h0, loadStep_nl hC]
    -- now inside "# ts" or inside the + lines
    have hnl := hdrBody_nl_free hC ts hts1
    unfold recordTail
    by_cases hk2 : k ≤ (hdrBody C ts).length
    · rw [List.take_append_of_le_length hk2]
      apply loadRun_torn_then hC _ [] _ _ es' hts
      intro hmem
      exact hnl (List.mem_of_mem_take hmem)
    · have hk3 : (hdrBody C ts).length ≤ k := by omega
      obtain ⟨j, hj⟩ : ∃ j, k - (hdrBody C ts).length = j + 1 :=
        ⟨k - (hdrBody C ts).length - 1, by omega⟩
      rw [List.take_append, List.take_of_length_le hk3, hj, List.take_succ_cons,
        List.append_assoc, List.cons_append, loadRun_line C _ _ hnl, loadStep_hdr hC,
        add_nil_lines]
      exact loadRun_plus_cut hC _ _ (splitOn_no_sep '\n' s) [] j es' hts

theorem record_length_pos {C : Codec} (hC : C.Good) (ts s : Text) : 0 < (record C ts s).length := by
  rw [record_eq hC]; simp

/-- MAIN LEMMA: cut a file of complete records at byte `k`, then append further records.
    `j` = number of records that survived completely. -/
theorem loadRun_cut_then {C : Codec} (hC : C.Good) (es : List (Text × Text)) (hts : TsOk es)
    (es' : List (Text × Text)) (hts' : TsOk es') (k : Nat) (st : LoadSt) :
    ∃ (j : Nat) (x : List Text), j ≤ es.length ∧ x.length ≤ 1 ∧
      (stores C (es.take j)).length ≤ k ∧
      (j < es.length → k < (stores C (es.take (j + 1))).length) ∧
      (j = es.length → x = []) ∧
      (loadRun C st ((stores C es).take k ++ stores C es')).add
        = st.add ++ (es.take j).map (·.2) ++ x ++ es'.map (·.2) := by
  induction es generalizing st k with
  | nil =>
    refine ⟨0, [], by simp, by simp, by simp [stores], by simp, by simp, ?_⟩
    simp only [stores, List.take_nil, List.nil_append, List.map_nil, List.append_nil]
    exact loadRun_stores hC es' hts' st
  | cons e es ih =>
    obtain ⟨ts, s⟩ := e
    have h1 : '\n' ∉ ts := hts (ts, s) (by simp)
    have h2 : TsOk es := fun e he => hts e (by simp [he])
    simp only [stores]
    by_cases hk : (record C ts s).length ≤ k
    · obtain ⟨j, x, hj, hx, hlo, hhi, hfull, heq⟩ :=
        ih h2 (k - (record C ts s).length) ⟨st.add, linesOf s⟩
      refine ⟨j + 1, x, by simp; omega, hx, ?_, ?_, ?_, ?_⟩
      · simp only [List.take_succ_cons, stores, List.length_append]; omega
      · intro hlt
        have := hhi (by simpa using hlt)
        simp only [List.take_succ_cons, stores, List.length_append]; omega
      · intro hjl; exact hfull (by simpa using hjl)
      · rw [List.take_append, List.take_of_length_le hk, List.append_assoc,
          loadRun_record hC st ts s h1, heq, add_linesOf]
        simp
    · have hk' : k < (record C ts s).length := by omega
      obtain ⟨x, hx, heq⟩ := loadRun_record_cut hC st ts s h1 k hk' es' hts'
      refine ⟨0, x, by simp, hx, by simp [stores], ?_, by simp, ?_⟩
      · intro _; simp [stores]; omega
      · rw [List.take_append_of_le_length (by omega), heq]
        simp

/-! ### arbitrary bytes in front of complete records -/

theorem first_nl_split (g : Bytes) (h : 10 ∈ g) : ∃ l g', g = l ++ 10 :: g' ∧ 10 ∉ l := by
  induction g with
  | nil => simp at h
  | cons b g ih =>
    by_cases hb : b = 10
    · exact ⟨[], g, by simp [hb], by simp⟩
    · have : 10 ∈ g := by
        simp only [List.mem_cons] at h
        rcases h with h | h
        · exact absurd h.symm hb
        · exact h
      obtain ⟨l, g', hg, hl⟩ := ih this
      refine ⟨b :: l, g', by simp [hg], ?_⟩
      simp only [List.mem_cons, not_or]
      exact ⟨fun e => hb e.symm, hl⟩

/-- whatever bytes `g` a file starts with: after them the loop is in some state and inside some
    unterminated line `q` -/
theorem loadRun_garbage (C : Codec) (g : Bytes) : ∀ (st : LoadSt),
    ∃ (S L : List Text) (q : Bytes), 10 ∉ q ∧
      ∀ rest, loadRun C st (g ++ rest) = loadRun C ⟨S, L⟩ (q ++ rest) := by
  induction hn : g.length using Nat.strongRecOn generalizing g with
  | _ n ih =>
    intro st
    by_cases h : 10 ∈ g
    · obtain ⟨l, g', hg, hl⟩ := first_nl_split g h
      have hlen : g'.length < n := by rw [← hn, hg]; simp; omega
      obtain ⟨S, L, q, hq, hrun⟩ := ih g'.length hlen g' rfl (loadStep C st (l ++ [10]))
      refine ⟨S, L, q, hq, fun rest => ?_⟩
      rw [hg, List.append_assoc, List.cons_append, loadRun_line C st l hl, hrun]
    · exact ⟨st.strings, st.lines, g, h, fun _ => rfl⟩

/-- RECOVERY FROM ANYTHING: records appended after arbitrary file content are all read back -/
theorem loadRun_garbage_then {C : Codec} (hC : C.Good) (g : Bytes) (es' : List (Text × Text))
    (hts : TsOk es') (st : LoadSt) :
    ∃ junk : List Text, (loadRun C st (g ++ stores C es')).add = junk ++ es'.map (·.2) := by
  obtain ⟨S, L, q, hq, hrun⟩ := loadRun_garbage C g st
  obtain ⟨x, _, hx⟩ := loadRun_torn_then hC S L q hq es' hts
  exact ⟨S ++ x, by rw [hrun, hx]⟩

end Ptk.C13
