/-
  C19 — headline theorems of the second round, instantiated for the tables regenerated from /repo:
  `Style.from_dict` / `Priority`, style objects (`DynamicStyle`, `DummyStyle`, nested merges, the
  invalidation hash and the cache of a merged style), the application's style stack (a user rule
  beats a default rule), style transformations.  General statements and proofs: `C19Dict`, `C19Obj`,
  `C19Shadow`, `C19Transform`, `C19TrHash`.
-/
import Ptk.Gen.C19X
import Ptk.Props.C19
import Ptk.Props.C19Dict
import Ptk.Props.C19Obj
import Ptk.Props.C19Shadow
import Ptk.Props.C19Transform
import Ptk.Props.C19TrHash
namespace Ptk.C19
open Ptk.Py

abbrev GX : TrTables := Gen.C19X.trTables

/-! ## side conditions on the regenerated tables / runtime classes -/

/-- `parse_color` validates hex digits on this tree (fix 5e50570); if that is ever undone this fails -/
theorem gen_hexValidated : G.hexValidated = true := by decide +kernel
/-- the regex class `\s` of the interpreter contains no upper-case ASCII letter -/
theorem gen_noUpperSpace : NoUpperSpace grsp := by
  intro c h1 h2
  simp [grsp, Gen.reSpace, Gen.inRanges, Gen.reSpaceRanges]
  omega
theorem gen_oppInvolutive : OppInvolutive GX := by decide +kernel
theorem gen_oppNamesOk : OppNamesOk G GX := by decide +kernel
theorem gen_ansiRgbKeys : AnsiRgbKeys G := by decide +kernel
/-- every rule of the default UI style and of the default pygments style is accepted by `Style(...)` -/
theorem gen_defaults_compile :
    (compile G gsp grsp (Gen.C19X.uiSheets.flatten ++ Gen.C19X.pygRules)).toOption.isSome = true := by
  decide +kernel

/-! ## 5. `Style.from_dict` -/

/-- **C19-p.**  `Style.from_dict(d, Priority.MOST_PRECISE)` hands `Style(...)` THE stable sort of the
    dict's items by number of class-name elements; the compiled rule table is in non-decreasing
    precision, so among the rules selected at one class-name step the most precise one (for equal
    precision: the later dict key) is applied last and wins.  `DICT_KEY_ORDER`: the dict order. -/
theorem from_dict_order (items : List (Text × Text)) :
    (fromDictRules gsp true items).Perm items ∧
    ((fromDictRules gsp true items).Pairwise fun a b => precisionKey gsp a.1 ≤ precisionKey gsp b.1) ∧
    (∀ k, (fromDictRules gsp true items).filter (fun it => precisionKey gsp it.1 == k) =
      items.filter (fun it => precisionKey gsp it.1 == k)) ∧
    fromDictRules gsp false items = items ∧
    ∀ rules, compile G gsp grsp (fromDictRules gsp true items) = .ok rules →
      (rules.Pairwise fun a b => rulePrecision a ≤ rulePrecision b) ∧
      ∀ (p : Rule → Bool) (hne : rules.filter p ≠ []),
        ∀ r ∈ rules.filter p, rulePrecision r ≤ rulePrecision ((rules.filter p).getLast hne) := by
  obtain ⟨h1, h2, h3, _⟩ := fromDict_most_precise gsp items
  exact ⟨h1, h2, h3, rfl, fun rules hc =>
    ⟨fromDict_rules_sorted G gsp grsp gen_noUpperSpace items rules hc,
     fun p hne => most_precise_applied_last G gsp grsp gen_noUpperSpace items rules hc p hne⟩⟩

/-- non-vacuity: {'a.x b': …, 'a': …, 'b a': …, 'c': …} — 'a' and 'c' (1 element) first in dict order,
    then 'b a' (2), then 'a.x b' (3) -/
def sampleDict : List (Text × Text) :=
  [("a.x b".toList, "bold".toList), ("a".toList, "#ff0000".toList), ("b a".toList, "italic".toList),
   ("c".toList, "underline".toList)]
example : (fromDictRules gsp true sampleDict).map (·.1) =
    ["a".toList, "c".toList, "b a".toList, "a.x b".toList] := by decide +kernel
example : (compile G gsp grsp (fromDictRules gsp true sampleDict)).toOption.isSome = true := by decide +kernel

/-! ## 6. style objects -/

/-- **C19-q/r/s.**  For any style objects built from `Style`, `DummyStyle`, `DynamicStyle`, `merge_styles`:
    the rule list of a merge is the concatenation of the parts' rule lists; a query against it is
    the cascade over ONE sheet with these rules; equal `invalidation_hash()` implies equal rule
    lists; and, therefore, a `_MergedStyle` that caches its merged `Style` under that hash answers
    every query of every call sequence exactly like a freshly built sheet — also when its
    `DynamicStyle` parts return other styles from one call to the next. -/
theorem style_objects (env : Nat → List RawRule) :
    (∀ l : List (Option SObj), rulesOf (mergeStyles l) = ((l.filterMap id).map rulesOf).flatten) ∧
    (∀ ps s d, queryObj G gsp grsp (.merged ps) s d = cascade G gsp grsp ((ps.map rulesOf).flatten) s d) ∧
    (∀ o1 o2, IdOk env o1 → IdOk env o2 → hashOf o1 = hashOf o2 → rulesOf o1 = rulesOf o2) ∧
    (∀ calls : List MCall, (∀ c ∈ calls, IdOkList env c.ps) →
      runCalls G gsp grsp {} calls = calls.map fun c => queryObj G gsp grsp (.merged c.ps) c.s c.d) :=
  ⟨rulesOf_mergeStyles, queryObj_merged G gsp grsp, hash_determines_rules env,
   merged_cache_transparent G gsp grsp env⟩

/-- non-vacuity: one merged object `[sheet 0, DynamicStyle]`; the dynamic part returns sheet 1, then
    None, then sheet 1 again: three different answers' worth of rules, the hash follows, and the
    cached run gives exactly the uncached answers -/
def sh0 : SObj := .sheet 0 [("x".toList, "#ff0000".toList)]
def sh1 : SObj := .sheet 1 [("x".toList, "bold".toList)]
def sampleCalls : List MCall :=
  [⟨[sh0, .dyn sh1], "class:x".toList, G.defaultAttrs⟩, ⟨[sh0, .dynNone], "class:x".toList, G.defaultAttrs⟩,
   ⟨[sh0, .dynNone], "class:x".toList, G.defaultAttrs⟩, ⟨[sh0, .dyn sh1], "class:x".toList, G.defaultAttrs⟩]
example : (runCalls G gsp grsp {} sampleCalls).map (fun r => r.toOption.map (·.bold)) =
    [some (some true), some (some false), some (some false), some (some true)] := by decide +kernel
example : ∀ c ∈ sampleCalls, IdOkList (fun i => if i = 0 then rulesOf sh0 else rulesOf sh1) c.ps := by
  intro c hc
  simp only [sampleCalls, List.mem_cons, List.not_mem_nil, or_false] at hc
  rcases hc with rfl | rfl | rfl | rfl <;> simp [IdOkList, IdOk, sh0, sh1, rulesOf]

/-! ## 7. the application's style stack -/

/-- **C19-t/u (a user rule beats a default rule).**  The style an `Application` resolves against is ONE
    sheet: default UI rules, default pygments rules (when enabled), then the user's rules.  Any
    default rule that has the same class set as a user rule setting attribute `fld` can be deleted
    without changing the resolved `fld` of ANY style string: it never overrides that user rule. -/
theorem app_user_rule_beats_default (inc : Bool) (user : Option SObj) (D U : List Rule)
    (hD : compile G gsp grsp (Gen.C19X.uiSheets.flatten ++ if inc then Gen.C19X.pygRules else []) = .ok D)
    (hU : compile G gsp grsp (optRules user) = .ok U)
    (fld : Field) (drop : Rule → Bool)
    (hsh : ∀ r ∈ D, drop r = true →
      ∃ u ∈ U, (∀ x, x ∈ r.names ↔ x ∈ u.names) ∧ fld.isSet u.attrs = true)
    (s : Text) (d : Attrs) :
    queryObj G gsp grsp (appStyle Gen.C19X.uiSheets Gen.C19X.pygRules inc user) s d = runRules G gsp (D ++ U) s d ∧
    (getAttrs G gsp (D ++ U) s d).isSome = (getAttrs G gsp (D.filter (fun r => !drop r) ++ U) s d).isSome ∧
    ∀ a a', getAttrs G gsp (D ++ U) s d = some a →
      getAttrs G gsp (D.filter (fun r => !drop r) ++ U) s d = some a' → fld.same a a' := by
  refine ⟨?_, user_rule_shadows_default fld D U drop hsh G gsp s d⟩
  rw [queryObj_appStyle]
  unfold cascade
  rw [compile_append, hD, hU]
  rfl

/-- non-vacuity: the user rule ('search', 'bg:#000001') shadows the default rule for 'search' in bgcolor -/
def userSheet : List RawRule := [("search".toList, "bg:#000001".toList)]
example : (queryObj G gsp grsp (appStyle Gen.C19X.uiSheets Gen.C19X.pygRules true (some (.sheet 4 userSheet)))
      "class:search".toList G.defaultAttrs).toOption.map (·.bgcolor) = some (some "000001".toList) := by
  decide +kernel

/-! ## 8. style transformations -/

/-- **C19-v…z.**  For every tree of library transformations (float pipelines `F` arbitrary):
    merged = composition in list order; the six flags other than `reverse` are never touched;
    concrete attributes stay concrete; and when the float pipelines print six hex digits, valid
    colours stay valid — so whatever the cascade resolved still round-trips through the 24-bit
    escape code after the transformation. -/
theorem transformed_attrs_still_roundtrip (F : Flt) (hF : FltOk F) (t : Tr) (a a' : Attrs)
    (h : Tr.apply G GX F gsp t a = .ok a') (hp : PValid G a) :
    SameFlags a a' ∧ (Concrete a → Concrete a') ∧ PValid G a' ∧
    decodeEscape G gsp (escapeCode G gsp .d24 a') = some (canon G a') := by
  have hp' := transform_keeps_pvalid G GX F gsp gen_colorTablesOk hF gen_oppNamesOk gen_hexValidated t a a' h hp
  refine ⟨transform_keeps_flags G GX F gsp t a a' h, transform_keeps_concrete G GX F gsp t a a' h, hp', ?_⟩
  apply roundtrip_24bit
  constructor
  · cases hc : a'.color with
    | none => exact Or.inl rfl
    | some c => exact hp'.1 c hc
  · cases hc : a'.bgcolor with
    | none => exact Or.inl rfl
    | some c => exact hp'.2 c hc

/-- non-vacuity: swap + set-default + reverse on resolved attributes (ANSI colours: no float involved) -/
def sampleTr : Tr := .merged [.swap, .setDefault "ansired".toList "#abc".toList, .cond .reverse true]
def noFlt : Flt := { swap := fun _ => "000000".toList, adjust := fun _ _ _ => "000000".toList }
example : FltOk noFlt :=
  ⟨fun _ => (by decide : IsHex6 "000000".toList), fun _ _ _ => (by decide : IsHex6 "000000".toList)⟩
example : (Tr.apply G GX noFlt gsp sampleTr { G.defaultAttrs with color := some "ansiblue".toList }).toOption =
    some { G.defaultAttrs with color := some "ansibrightblue".toList, bgcolor := some "aabbcc".toList,
                               reverse := some true } := by decide +kernel

/-- `merge_style_transformations` is composition; `Reverse` twice and the ANSI part of `Swap` twice
    give the attributes back; equal `invalidation_hash()` ⇒ equal transformation -/
theorem transformation_algebra (F : Flt) :
    (∀ a b x, Tr.applyList G GX F gsp (a ++ b) x =
      match Tr.applyList G GX F gsp a x with
      | .error e => .error e
      | .ok y => Tr.applyList G GX F gsp b y) ∧
    (∀ a, Tr.apply G GX F gsp (.merged [.reverse, .reverse]) a = .ok { a with reverse := some (truthy a.reverse) }) ∧
    (∀ a, ExactColor GX a.color → ExactColor GX a.bgcolor → Tr.apply G GX F gsp (.merged [.swap, .swap]) a = .ok a) ∧
    (∀ t1 t2, Tr.hash t1 = Tr.hash t2 → ∀ a, Tr.apply G GX F gsp t1 a = Tr.apply G GX F gsp t2 a) :=
  ⟨applyList_append G GX F gsp, reverse_twice G GX F gsp,
   fun a h1 h2 => swap_twice_exact G GX F gsp gen_oppInvolutive a h1 h2, trHash_determines_apply G GX F gsp⟩

example : ExactColor GX (some "ansired".toList) ∧ ExactColor GX (some []) ∧ ExactColor GX none := by
  refine ⟨Or.inr (Or.inr (Or.inr ⟨_, rfl, by decide +kernel⟩)), Or.inr (Or.inl rfl), Or.inl rfl⟩

/-- **Finding (outside the property's statement; reported).**  `parse_color` hands out the colour
    'default' (e.g. for 'fg:default'), `SwapLightAndDark…` treats it as "no colour", but
    `AdjustBrightnessStyleTransformation` sends it to `int('de', 16) … int('ul', 16)` and raises
    ValueError.  Stated so that it stays true once the code skips 'default'. -/
theorem adjust_raises_on_default (F : Flt) : GX.adjustSkipsDefault = false →
    applyAdjust G GX F gsp 300 1000 { G.defaultAttrs with color := some "default".toList } = .error .value := by
  intro h
  have hc : colorToRgbOk G gsp "default".toList = false := by decide +kernel
  have hd : G.defaultAttrs.bgcolor = some [] := by decide +kernel
  unfold applyAdjust
  simp only [h, hd, Option.getD_some, hc]
  rfl

/-- … and on nothing else: for valid colours other than a foreground 'default' it never raises -/
theorem adjust_total_gen (F : Flt) (mn mx : Int) (hmn : 0 ≤ mn ∧ mn ≤ 1000) (hmx : 0 ≤ mx ∧ mx ≤ 1000)
    (a : Attrs) (hv : ValidColor G (a.color.getD []))
    (hd : GX.adjustSkipsDefault = true ∨ a.color.getD [] ≠ "default".toList) :
    ∃ a', applyAdjust G GX F gsp mn mx a = .ok a' :=
  adjust_total G GX F gsp gen_spOk gen_ansiRgbKeys mn mx hmn hmx a hv hd

example : ValidColor G ((some "ff0000".toList : Option Text).getD []) ∧
    (some "ff0000".toList : Option Text).getD [] ≠ "default".toList := by decide +kernel

end Ptk.C19
