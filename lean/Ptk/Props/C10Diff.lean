/-
  C10 part 3 — the write discipline of `_output_screen_diff` (renderer.py): screen content
  reaches the output object only as (a) `write(<text of one cell of the new screen>)` and
  (b) `write_raw(<a zero-width-escape entry of the new screen>)`.
-/
import Ptk.Props.C10Copy
import Ptk.Model.C10Diff
namespace Ptk.C10
open Ptk.Py

/-- `t` is the text of a cell of the screen (a stored cell or the default character) -/
def ScreenCell (scr : Screen) (t : CText) : Prop := t = scr.dflt.char ∨ ∃ pc ∈ scr.buf, t = pc.2.char

/-- the write discipline for one call on the output object -/
def EvOk (scr : Screen) : Ev → Prop
  | .cell t => ScreenCell scr t
  | .raw t => ∃ e ∈ scr.zwe, t = e.2
  | _ => True

def EvsOk (scr : Screen) (s : DS) : Prop := ∀ e ∈ s.evs, EvOk scr e

theorem bufFind_mem {b : Buf} {p : Pos} {c : Cell} (h : bufFind? b p = some c) : (p, c) ∈ b := by
  induction b with
  | nil => simp [bufFind?] at h
  | cons qc rest ih =>
    obtain ⟨q, c'⟩ := qc
    simp only [bufFind?] at h
    split at h
    · rename_i hq; cases h; simp [hq]
    · simp [ih h]

theorem bufGet_screenCell (scr : Screen) (p : Pos) : ScreenCell scr (bufGet scr.buf scr.dflt p).char := by
  unfold bufGet
  cases h : bufFind? scr.buf p with
  | none => exact Or.inl rfl
  | some c => exact Or.inr ⟨(p, c), bufFind_mem h, rfl⟩

section
variable {scr : Screen}

theorem emit_ok {s : DS} (h : EvsOk scr s) {e : Ev} (he : EvOk scr e) : EvsOk scr (s.emit e) := by
  intro e' he'
  simp only [DS.emit, List.mem_cons] at he'
  rcases he' with rfl | he'
  · exact he
  · exact h e' he'

theorem ite_ok {a b : DS} {c : Prop} [Decidable c] (ha : EvsOk scr a) (hb : EvsOk scr b) :
    EvsOk scr (if c then a else b) := by
  split
  · exact ha
  · exact hb

theorem setPos_ok {s : DS} (h : EvsOk scr s) (x y : Nat) : EvsOk scr (s.setPos x y) := h
theorem setLast_ok {s : DS} (h : EvsOk scr s) (l : Option Text) : EvsOk scr (s.setLast l) := h

theorem reset_ok {s : DS} (h : EvsOk scr s) : EvsOk scr (resetAttributes s) :=
  setLast_ok (emit_ok h (e := .resetAttrs) trivial) _

theorem moveCursor_ok (width : Nat) {s : DS} (h : EvsOk scr s) (nx ny : Nat) :
    EvsOk scr (moveCursor width s nx ny) := by
  unfold moveCursor
  split
  · exact setPos_ok (emit_ok (emit_ok (reset_ok h) (e := .nl _) trivial) (e := .fwd _) trivial) _ _
  · have h1 : EvsOk scr (if ny < s.y then s.emit (.up (s.y - ny)) else s) := by
      split
      · exact emit_ok h trivial
      · exact h
    generalize (if ny < s.y then s.emit (.up (s.y - ny)) else s) = s1 at h1
    simp only
    apply setPos_ok
    split
    · exact emit_ok (emit_ok h1 (e := .cr) trivial) (e := .fwd _) trivial
    · split
      · exact emit_ok h1 (e := .back _) trivial
      · split
        · exact emit_ok h1 (e := .fwd _) trivial
        · exact h1

theorem outputChar_ok (attrsOf : Text → Nat) {s : DS} (h : EvsOk scr s) {c : Cell}
    (hc : ScreenCell scr c.char) : EvsOk scr (outputChar attrsOf s c) := by
  unfold outputChar
  split
  · exact emit_ok h hc
  · simp only
    apply setLast_ok
    refine emit_ok (e := .cell c.char) ?_ hc
    exact ite_ok (emit_ok h trivial) h

theorem drawCell_ok (cfg : DiffCfg) (y c : Nat) (cw : Nat) {s : DS} (h : EvsOk scr s) (p : Pos) :
    EvsOk scr (drawCell cfg scr y c (bufGet scr.buf scr.dflt p) cw s) := by
  unfold drawCell
  simp only
  apply setPos_ok
  apply outputChar_ok _ _ (bufGet_screenCell scr _)
  have hm := moveCursor_ok (scr := scr) cfg.width h c y
  split
  · rename_i t ht
    exact emit_ok hm ⟨_, zweFind_mem ht, rfl⟩
  · exact hm

theorem colLoop_ok (cfg : DiffCfg) (prev : Screen) (y : Nat) (newMax : Int) (fuel c : Nat) {s : DS}
    (h : EvsOk scr s) : EvsOk scr (colLoop cfg scr prev y newMax fuel c s) := by
  induction fuel generalizing c s with
  | zero => exact h
  | succ fuel ih =>
    simp only [colLoop]
    split
    · apply ih
      split
      · exact drawCell_ok cfg y c _ h _
      · exact h
    · exact h

theorem rowStep_ok (cfg : DiffCfg) (prev : Screen) {s : DS} (h : EvsOk scr s) (y : Nat) :
    EvsOk scr (rowStep cfg scr prev s y) := by
  unfold rowStep
  simp only
  have h1 := colLoop_ok (scr := scr) cfg prev y
    (min ((cfg.width : Int) - 1) (maxColumnIndex cfg.hasStyle scr.buf scr.dflt y))
    ((min ((cfg.width : Int) - 1) (maxColumnIndex cfg.hasStyle scr.buf scr.dflt y)) + 1).toNat 0 h
  split
  · exact emit_ok (reset_ok (moveCursor_ok _ h1 _ _)) trivial
  · exact h1

theorem diffRows_ok (cfg : DiffCfg) (prev : Screen) {s : DS} (h : EvsOk scr s) :
    EvsOk scr (diffRows cfg scr prev s) := by
  unfold diffRows
  generalize List.range _ = rows
  induction rows generalizing s with
  | nil => exact h
  | cons y rest ih => exact ih (rowStep_ok cfg prev h y)

theorem diffHead_ok (cfg : DiffCfg) (d0 : Cell) (prev : Option Screen) {s : DS} (h : EvsOk scr s)
    (isDone fullScreen : Bool) (prevWidth : Nat) :
    EvsOk scr (diffHead cfg d0 prev s isDone fullScreen prevWidth).1 := by
  unfold diffHead
  simp only
  have h1 := emit_ok h (e := .hideCursor) trivial
  generalize (s.emit Ev.hideCursor) = s1 at h1
  have h2 : EvsOk scr (if prev.isNone then resetAttributes s1 else s1) := by
    split
    · exact reset_ok h1
    · exact h1
  generalize (if prev.isNone then resetAttributes s1 else s1) = s2 at h2
  have h3 : EvsOk scr (if prev.isNone || !fullScreen then s2.emit .disableWrap else s2) := by
    split
    · exact emit_ok h2 trivial
    · exact h2
  generalize (if prev.isNone || !fullScreen then s2.emit .disableWrap else s2) = s3 at h3
  split
  · exact emit_ok (reset_ok (moveCursor_ok _ h3 _ _)) trivial
  · exact h3

theorem diffTail_ok (cfg : DiffCfg) (prevScr : Screen) {s : DS} (h : EvsOk scr s)
    (isDone fullScreen : Bool) : EvsOk scr (diffTail cfg scr prevScr s isDone fullScreen) := by
  unfold diffTail
  simp only
  have h6 : EvsOk scr (if min scr.height cfg.height > prevScr.height
      then moveCursor cfg.width s 0 (min scr.height cfg.height - 1) else s) := by
    split
    · exact moveCursor_ok _ h _ _
    · exact h
  generalize (if min scr.height cfg.height > prevScr.height
      then moveCursor cfg.width s 0 (min scr.height cfg.height - 1) else s) = s6 at h6
  have h7 : EvsOk scr (if isDone = true then (moveCursor cfg.width s6 0 (min scr.height cfg.height)).emit .eraseDown
      else moveCursor cfg.width s6 scr.cursor.1 scr.cursor.2) := by
    split
    · exact emit_ok (moveCursor_ok _ h6 _ _) trivial
    · exact moveCursor_ok _ h6 _ _
  generalize (if isDone = true then (moveCursor cfg.width s6 0 (min scr.height cfg.height)).emit .eraseDown
      else moveCursor cfg.width s6 scr.cursor.1 scr.cursor.2) = s7 at h7
  have h8 : EvsOk scr (if (isDone || !fullScreen) = true then s7.emit .enableWrap else s7) := by
    split
    · exact emit_ok h7 trivial
    · exact h7
  generalize (if (isDone || !fullScreen) = true then s7.emit .enableWrap else s7) = s8 at h8
  split
  · exact emit_ok (reset_ok h8) trivial
  · exact reset_ok h8

end

/-- **Write discipline of `_output_screen_diff`.**  For every pair of screens, every cursor
    position, style state and flag combination: each `write` of screen content carries exactly
    the text of a cell of the new screen (the only other `write`s are the renderer's own `"\r"`
    and `"\r\n" * k`), and each `write_raw` of content carries exactly a zero-width-escape entry
    of the new screen; everything else is an emitter call. -/
theorem diff_writes_only_cells (cfg : DiffCfg) (d0 : Cell) (scr : Screen) (prev : Option Screen)
    (x0 y0 : Nat) (last : Option Text) (isDone fullScreen : Bool) (prevWidth : Nat) :
    EvsOk scr (diff cfg d0 scr prev x0 y0 last isDone fullScreen prevWidth) := by
  unfold diff
  simp only
  apply diffTail_ok
  apply diffRows_ok
  apply diffHead_ok
  intro e he; simp at he

end Ptk.C10
