/-
  C11 — scrolling arithmetic of the window model: `do_scroll` (incl. the integer model of the
  `int(min(.., window_size / 2, ..))` float arithmetic), `get_height_for_line` loop facts, the upward
  scans and both branches of `_scroll_when_linewrapping`.
-/
import Ptk.Model.C11
namespace Ptk.C11
open Ptk.Py

/-! ### `do_scroll` -/

theorem tdiv2 (ws : Int) (h : 0 ≤ ws) : Int.tdiv ws 2 = ws / 2 := by
  rw [Int.tdiv_eq_ediv_of_nonneg h]

theorem tdiv2_spec (x : Int) :
    (0 ≤ x → Int.tdiv x 2 = x / 2) ∧ (x < 0 → Int.tdiv x 2 = -((-x) / 2)) := by
  constructor
  · exact tdiv2 x
  · intro h
    have : x = -(-x) := by omega
    rw [this, Int.neg_tdiv, tdiv2 (-x) (by omega)]; simp

/-- `int(min(a, ws / 2, c))` computed in exact halves (`2a`, `ws`, `2c` are the doubled operands, so
    `ws / 2` is represented exactly, as it is in IEEE double for `|ws| < 2^53`) equals the integer
    model `min a (tdiv ws 2) c` used in `doScroll`: truncation toward zero is monotone and fixes
    integers. -/
theorem trunc_min_half (a ws c : Int) :
    Int.tdiv (min (2 * a) (min ws (2 * c))) 2 = min a (min (Int.tdiv ws 2) c) := by
  have h1 := tdiv2_spec (min (2 * a) (min ws (2 * c)))
  have h2 := tdiv2_spec ws
  generalize Int.tdiv (min (2 * a) (min ws (2 * c))) 2 = t1 at *
  generalize Int.tdiv ws 2 = t2 at *
  omega

/-- after `do_scroll` the cursor is inside `[scroll, scroll + window)`, for every previous scroll,
    every offsets, every `window ≥ 1`, every content size `> cursor` -/
theorem doScroll_visible (beyond : Bool) (cur a b cp ws cs : Int)
    (hws : 1 ≤ ws) (hcp : 0 ≤ cp) (hcs : cp < cs) (ha : 0 ≤ a) (hb : 0 ≤ b) :
    0 ≤ doScroll beyond cur a b cp ws cs ∧ doScroll beyond cur a b cp ws cs ≤ cp ∧
      cp < doScroll beyond cur a b cp ws cs + ws := by
  simp only [doScroll, tdiv2 ws (by omega)]
  repeat' split
  all_goals omega

/-- the applied end offset is kept: at least `min(offset_end, ws/2, content - 1 - cursor)` cells stay
    visible after the cursor; the start offset is kept whenever both offsets fit (`a + b < ws`) -/
theorem doScroll_offsets (beyond : Bool) (cur a b cp ws cs : Int)
    (hws : 1 ≤ ws) (hcp : 0 ≤ cp) (hcs : cp < cs) (ha : 0 ≤ a) (hb : 0 ≤ b) :
    let s := doScroll beyond cur a b cp ws cs
    cp + min (min b (ws / 2)) (cs - 1 - cp) < s + ws ∧
      (a + b < ws → s + min (min a (ws / 2)) cp ≤ cp) := by
  simp only [doScroll, tdiv2 ws (by omega)]
  repeat' split
  all_goals omega

/-! ### `get_height_for_line` -/

theorem heightLoop_ge (pw : Nat → Nat) (w : Nat) (hpw : ∀ k, pw k < w) (fuel tw h : Nat) :
    h ≤ heightLoop pw w fuel tw h := by
  induction fuel generalizing tw h with
  | zero => simp [heightLoop]
  | succ f ih =>
    unfold heightLoop
    split
    · rw [if_neg (by have := hpw h; omega)]
      have := ih (tw - w + pw h) (h + 1); omega
    · exact Nat.le_refl _

theorem heightLoop_le_w (pw : Nat → Nat) (w fuel tw h : Nat) (h1 : tw ≤ w) :
    heightLoop pw w fuel tw h = h := by
  cases fuel with
  | zero => rfl
  | succ f => unfold heightLoop; rw [if_neg (by omega)]

theorem heightLoop_gt_w (pw : Nat → Nat) (w f tw h : Nat) (hpw : ∀ k, pw k < w) (h1 : w < tw) :
    heightLoop pw w (f + 1) tw h = heightLoop pw w f (tw - w + pw h) (h + 1) := by
  rw [heightLoop, if_pos h1, if_neg (by have := hpw h; omega)]

/-- enough fuel is enough: the result does not depend on it -/
theorem heightLoop_fuel (pw : Nat → Nat) (w : Nat) (hpw : ∀ k, pw k < w) (f1 : Nat) :
    ∀ (f2 tw h : Nat), tw ≤ f1 → tw ≤ f2 → heightLoop pw w f1 tw h = heightLoop pw w f2 tw h := by
  induction f1 with
  | zero => intro f2 tw h h1 _; rw [heightLoop_le_w _ _ _ _ _ (by omega), heightLoop_le_w _ _ _ _ _ (by omega)]
  | succ f ih =>
    intro f2 tw h h1 h2
    by_cases hle : tw ≤ w
    · rw [heightLoop_le_w _ _ _ _ _ hle, heightLoop_le_w _ _ _ _ _ hle]
    · have hp := hpw h
      obtain ⟨g, rfl⟩ : ∃ g, f2 = g + 1 := ⟨f2 - 1, by omega⟩
      rw [heightLoop_gt_w _ _ _ _ _ hpw (by omega), heightLoop_gt_w _ _ _ _ _ hpw (by omega)]
      exact ih g _ _ (by omega) (by omega)

/-- more text never needs fewer rows -/
theorem heightLoop_mono (pw : Nat → Nat) (w : Nat) (hpw : ∀ k, pw k < w) (f : Nat) :
    ∀ (tw tw' h : Nat), tw ≤ tw' → tw' ≤ f → heightLoop pw w f tw h ≤ heightLoop pw w f tw' h := by
  induction f with
  | zero => intro tw tw' h h1 h2; rw [heightLoop_le_w _ _ _ _ _ (by omega), heightLoop_le_w _ _ _ _ _ (by omega)]; exact Nat.le_refl _
  | succ f ih =>
    intro tw tw' h h1 h2
    by_cases hle' : tw' ≤ w
    · rw [heightLoop_le_w _ _ _ _ _ hle', heightLoop_le_w _ _ _ _ _ (by omega)]; exact Nat.le_refl _
    · by_cases hle : tw ≤ w
      · rw [heightLoop_le_w _ _ _ _ _ hle]; exact heightLoop_ge _ _ hpw _ _ _
      · have hp := hpw h
        rw [heightLoop_gt_w _ _ _ _ _ hpw (by omega), heightLoop_gt_w _ _ _ _ _ hpw (by omega)]
        exact ih _ _ _ (by omega) (by omega)

/-- the fast path (no prefix, `divmod`) computes the same height as the loop with empty prefixes -/
theorem fast_eq_loop (w : Nat) (hw : 1 ≤ w) (f : Nat) :
    ∀ (tw : Nat), tw ≤ f →
      max 1 (if tw % w ≠ 0 then tw / w + 1 else tw / w) = heightLoop (fun _ => 0) w f tw 1 := by
  have key : ∀ (f tw h : Nat), tw ≤ f →
      heightLoop (fun _ => 0) w f tw h + 1 = h + max 1 (if tw % w ≠ 0 then tw / w + 1 else tw / w) := by
    intro f
    induction f with
    | zero =>
      intro tw h h1
      have : tw = 0 := by omega
      subst this; simp [heightLoop]
    | succ f ih =>
      intro tw h h1
      by_cases hle : tw ≤ w
      · rw [heightLoop_le_w _ _ _ _ _ hle]
        by_cases he : tw = w
        · subst he; simp [Nat.div_self hw]
        · have hlt : tw < w := by omega
          rw [Nat.div_eq_of_lt hlt, Nat.mod_eq_of_lt hlt]
          by_cases h0 : tw = 0
          · subst h0; simp
          · simp [h0]
      · rw [heightLoop_gt_w _ _ _ _ _ (fun _ => hw) (by omega)]
        simp only [Nat.add_zero]
        rw [ih (tw - w) (h + 1) (by omega)]
        have e1 : tw / w = (tw - w) / w + 1 := by
          have : tw = (tw - w) + w := by omega
          conv => lhs; rw [this]
          exact Nat.add_div_right _ hw
        have e2 : tw % w = (tw - w) % w := by
          have : tw = (tw - w) + w := by omega
          conv => lhs; rw [this]
          exact Nat.add_mod_right _ _
        rw [e1, e2]
        by_cases hc : (tw - w) % w = 0
        · have hd : w ≤ tw - w := Nat.le_of_dvd (by omega) (Nat.dvd_of_mod_eq_zero hc)
          have := Nat.div_pos hd hw
          simp [hc]; omega
        · simp [hc]; omega
  intro tw h1
  have := key f tw 1 h1
  omega


/-! ### `_scroll_when_linewrapping` -/

/-- `lh a + lh (a+1) + … + lh (a+n-1)` -/
def sumFrom (lh : Nat → Nat) : Nat → Nat → Nat
  | _, 0 => 0
  | a, n + 1 => lh a + sumFrom lh (a + 1) n

theorem sumFrom_succ_right (lh : Nat → Nat) (a n : Nat) :
    sumFrom lh a (n + 1) = sumFrom lh a n + lh (a + n) := by
  induction n generalizing a with
  | zero => simp [sumFrom]
  | succ n ih =>
    rw [sumFrom, ih (a + 1), sumFrom]
    have : a + 1 + n = a + (n + 1) := by omega
    rw [this]; omega

theorem sumFrom_add (lh : Nat → Nat) (a n m : Nat) :
    sumFrom lh a (n + m) = sumFrom lh a n + sumFrom lh (a + n) m := by
  induction m with
  | zero => simp [sumFrom]
  | succ m ih =>
    rw [← Nat.add_assoc, sumFrom_succ_right, ih, sumFrom_succ_right]
    have : a + n + m = a + (n + m) := by omega
    rw [this]; omega

theorem sumFrom_le (lh : Nat → Nat) (a n m : Nat) (h : n ≤ m) : sumFrom lh a n ≤ sumFrom lh a m := by
  obtain ⟨d, rfl⟩ : ∃ d, m = n + d := ⟨m - n, by omega⟩
  rw [sumFrom_add]; omega

/-- what the upward scan returns: the start value, or a line `j` below the start such that the
    lines `j .. k-1` (plus what was already counted) stay within the limit -/
theorem scanUp_spec (lh : Nat → Nat) (limit : Int) :
    ∀ (k used : Nat) (prev : Int),
      scanUp lh limit k used prev = prev ∨
        ∃ j, j < k ∧ scanUp lh limit k used prev = (j : Int) ∧ ((used + sumFrom lh j (k - j) : Nat) : Int) ≤ limit := by
  intro k
  induction k with
  | zero => intro used prev; left; rfl
  | succ k ih =>
    intro used prev
    rw [scanUp]
    split
    · left; rfl
    · rename_i hle
      right
      rcases ih (used + lh k) (k : Int) with h | ⟨j, hj, he, hs⟩
      · refine ⟨k, by omega, h, ?_⟩
        have : k + 1 - k = 1 := by omega
        rw [this]; simp only [sumFrom]; push_cast at hle ⊢; omega
      · refine ⟨j, by omega, he, ?_⟩
        have : k + 1 - j = (k - j) + 1 := by omega
        rw [this, sumFrom_succ_right]
        have : j + (k - j) = k := by omega
        rw [this]; push_cast at hs ⊢; omega

/-- over-tall cursor line: the window starts at the cursor line and the intra-line scroll keeps the
    row of the cursor cell (`text_before_height - 1`) inside the window — for every previous state -/
theorem scrollWrap_tall (lh : Nat → Nat) (tbh lc cy : Nat) (height top bottom : Int) (beyond : Bool)
    (s : Scroll) (hh : 1 ≤ height) (ht : 1 ≤ tbh) (htall : (lh cy : Int) > height - top) :
    let r := scrollWrap lh tbh lc cy height top bottom beyond s
    r.vs = cy ∧ r.hs = 0 ∧ 0 ≤ r.vs2 ∧ r.vs2 ≤ (tbh : Int) - 1 ∧ (tbh : Int) - 1 < r.vs2 + height := by
  simp only [scrollWrap, if_pos htall]
  refine ⟨trivial, trivial, ?_, ?_, ?_⟩ <;> omega

/-- cursor line fits: no intra-line scroll, the window starts at or above the cursor line and the
    lines from the window start through the whole cursor line fit in the window — for every
    previous state -/
theorem scrollWrap_fit (lh : Nat → Nat) (tbh lc cy : Nat) (height top bottom : Int) (beyond : Bool)
    (s : Scroll) (hcy : cy < lc) (ht : 0 ≤ top) (hb : 0 ≤ bottom)
    (hfit : ¬ (lh cy : Int) > height - top) :
    let r := scrollWrap lh tbh lc cy height top bottom beyond s
    r.hs = 0 ∧ r.vs2 = 0 ∧ ∃ v : Nat, r.vs = v ∧ v ≤ cy ∧ ((sumFrom lh v (cy + 1 - v) : Nat) : Int) ≤ height := by
  simp only [scrollWrap, if_neg hfit]
  refine ⟨trivial, trivial, ?_⟩
  -- "good" window starts
  let Good : Int → Prop := fun v => ∃ n : Nat, v = n ∧ n ≤ cy ∧ ((sumFrom lh n (cy + 1 - n) : Nat) : Int) ≤ height
  have hup : ∀ (v v' : Int), Good v → v ≤ v' → v' ≤ cy → Good v' := by
    intro v v' ⟨n, hn, hle, hs⟩ h1 h2
    refine ⟨v'.toNat, by omega, by omega, ?_⟩
    have hk : cy + 1 - n = (v'.toNat - n) + (cy + 1 - v'.toNat) := by omega
    rw [hk, sumFrom_add] at hs
    have : n + (v'.toNat - n) = v'.toNat := by omega
    rw [this] at hs
    push_cast at hs ⊢; omega
  have hcyG : Good cy := ⟨cy, rfl, Nat.le_refl _, by
    have : cy + 1 - cy = 1 := by omega
    rw [this]; simp only [sumFrom]; push_cast; omega⟩
  -- the three scans
  have hX : Good (scanUp lh top cy 0 cy) := by
    rcases scanUp_spec lh top cy 0 cy with h | ⟨j, hj, he, hs⟩
    · rw [h]; exact hcyG
    · rw [he]
      refine ⟨j, rfl, by omega, ?_⟩
      have : cy + 1 - j = (cy - j) + 1 := by omega
      rw [this, sumFrom_succ_right]
      have : j + (cy - j) = cy := by omega
      rw [this]; push_cast at hs ⊢; omega
  have hM : Good (scanUp lh (height - bottom) (cy + 1) 0 cy) := by
    rcases scanUp_spec lh (height - bottom) (cy + 1) 0 cy with h | ⟨j, hj, he, hs⟩
    · rw [h]; exact hcyG
    · rw [he]; exact ⟨j, rfl, by omega, by push_cast at hs ⊢; omega⟩
  have hT : scanUp lh height lc 0 ((lc : Int) - 1) ≤ cy → Good (scanUp lh height lc 0 ((lc : Int) - 1)) := by
    intro hle
    rcases scanUp_spec lh height lc 0 ((lc : Int) - 1) with h | ⟨j, hj, he, hs⟩
    · rw [h] at hle ⊢
      have : (lc : Int) - 1 = cy := by omega
      rw [this]; exact hcyG
    · rw [he] at hle ⊢
      refine ⟨j, rfl, by omega, ?_⟩
      have := sumFrom_le lh j (cy + 1 - j) (lc - j) (by omega)
      push_cast at hs ⊢; omega
  have hXle : scanUp lh top cy 0 cy ≤ cy := by obtain ⟨n, hn, hle, _⟩ := hX; omega
  have hMle : scanUp lh (height - bottom) (cy + 1) 0 cy ≤ cy := by obtain ⟨n, hn, hle, _⟩ := hM; omega
  generalize scanUp lh top cy 0 cy = X at *
  generalize scanUp lh (height - bottom) (cy + 1) 0 cy = M at *
  generalize scanUp lh height lc 0 ((lc : Int) - 1) = T at *
  -- min T M is good
  have hm : Good (min T M) := by
    by_cases h : T ≤ M
    · rw [Int.min_eq_left h]; exact hT (by omega)
    · rw [Int.min_eq_right (by omega)]; exact hM
  have hmX : Good (min (min T M) X) := by
    by_cases h : min T M ≤ X
    · rw [Int.min_eq_left h]; exact hm
    · rw [Int.min_eq_right (by omega)]; exact hX
  have h2 : Good (min (max s.vs (min T M)) X) := hup _ _ hmX (by omega) (by omega)
  have h3 : Good (if !beyond then min (min (max s.vs (min T M)) X) T else min (max s.vs (min T M)) X) := by
    cases beyond
    · simp only [Bool.not_false, if_true]
      by_cases h : min (max s.vs (min T M)) X ≤ T
      · rw [Int.min_eq_left h]; exact h2
      · rw [Int.min_eq_right (by omega)]; exact hT (by omega)
    · simpa using h2
  obtain ⟨n, hn, hle, hs⟩ := h3
  exact ⟨n, hn, hle, hs⟩

end Ptk.C11
