/-
C13 — `ThreadedHistory` around a `FileHistory` instance that already has a life of its own
(loaded inline before, written to through the wrapper or by other instances on the same file).

The loader thread must read the *storage*, not the wrapped object's `History` cache: the cache
only grows through the wrapped instance's own `append_string`, so anything stored through the
wrapper or by another instance is in the file but not in the cache.  (Round-7 seeded change
C13-m made the proxy return the cache of an already loaded wrapped instance.)
-/
import Ptk.Props.C13
namespace Ptk.C13
open Ptk.Py

/-- operations on several `FileHistory` instances on one file, some of them driven through
    `ThreadedHistory` wrappers -/
inductive WOp
  | append (i : Nat) (ts s : Text)      -- `inst i .append_string`
  | load (i : Nat)                      -- inline `inst i .load()`
  | wappend (i : Nat) (ts s : Text)     -- `ThreadedHistory(inst i).append_string`
  | wload (i : Nat)                     -- `ThreadedHistory(inst i).load()`, nothing concurrent

def FS.applyW (C : Codec) (fs : FS) : WOp → FS
  | .append i ts s => fs.append C i ts s
  | .load i => (fs.load C i).1
  | .wappend _ ts s => fs.wrapAppend C ts s
  | .wload i => (fs.wrapLoad C i).1

def FS.runW (C : Codec) (fs : FS) (ops : List WOp) : FS := ops.foldl (FS.applyW C) fs

/-- everything stored, by whichever route, in order -/
def appendedW : List WOp → List (Text × Text)
  | [] => []
  | .append _ ts s :: r => (ts, s) :: appendedW r
  | .wappend _ ts s :: r => (ts, s) :: appendedW r
  | .load _ :: r => appendedW r
  | .wload _ :: r => appendedW r

theorem file_of_wops (C : Codec) (fs : FS) (ops : List WOp) :
    (FS.runW C fs ops).file = fs.file ++ stores C (appendedW ops) := by
  induction ops generalizing fs with
  | nil => simp [FS.runW, appendedW, stores]
  | cons op ops ih =>
    simp only [FS.runW, List.foldl_cons] at ih ⊢
    rw [ih]
    cases op with
    | append i ts s => simp [FS.applyW, FS.append, appendedW, stores]
    | wappend i ts s => simp [FS.applyW, FS.wrapAppend, appendedW, stores]
    | load i =>
      simp only [FS.applyW, FS.load, appendedW]
      split <;> simp [FS.setInst]
    | wload i => simp [FS.applyW, FS.wrapLoad, appendedW]

/-- THREADED = INLINE, wrapped instance with a past: after any history of inline and wrapped
    appends and loads on any instances, a threaded load through a wrapper around *any* instance
    `i` - loaded before or not - yields every stored entry exactly once, newest first. -/
theorem wrapped_load_complete (ops : List WOp) (i : Nat) (hts : TsOk (appendedW ops)) :
    ((FS.runW utf8 FS.empty ops).wrapLoad utf8 i).2 = ((appendedW ops).map (·.2)).reverse := by
  simp only [FS.wrapLoad]
  rw [file_of_wops]
  simp only [FS.empty, List.nil_append]
  exact roundtrip _ hts

/-- ... which is what a fresh instance loading inline gets (`j` never used before). -/
theorem wrapped_load_eq_fresh_inline (fs : FS) (i j : Nat) (hj : (fs.insts j).loaded = false) :
    (fs.wrapLoad utf8 i).2 = (fs.load utf8 j).2 := by
  simp [FS.wrapLoad, FS.load, hj]

/-- the wrapped instance's own cache plays no part: two states that differ only in the
    instances' caches give the same threaded load -/
theorem wrapped_load_ignores_cache (fs : FS) (insts' : Nat → Inst) (i : Nat) :
    ((⟨fs.file, insts'⟩ : FS).wrapLoad utf8 i).2 = (fs.wrapLoad utf8 i).2 := rfl

/-- a threaded load leaves every instance (and the file) as it was -/
theorem wrapped_load_state (C : Codec) (fs : FS) (i : Nat) : (fs.wrapLoad C i).1 = fs := rfl

/-- the stale-cache reading is wrong: inline load of instance 0, then an append through the
    wrapper - the wrapped instance's cache misses the new entry, the threaded load has it. -/
example :
    let fs := FS.runW utf8 FS.empty
      [.append 0 "T".toList "a".toList, .load 0, .wappend 0 "U".toList "b".toList]
    (fs.wrapLoad utf8 0).2 = ["b".toList, "a".toList] ∧ (fs.insts 0).strs = ["a".toList]
      ∧ (fs.insts 0).loaded = true := by decide

/-- hypotheses of `wrapped_load_complete` are met by a history mixing all four operations -/
example : TsOk (appendedW [.append 0 "T".toList "a".toList, .load 0,
      .wappend 0 "U".toList "+\n".toList, .wload 1, .append 1 "V".toList "c".toList]) := by
  intro e he
  simp [appendedW] at he
  rcases he with rfl | rfl | rfl <;> decide

end Ptk.C13
