/-
  C04 — the invariant `Inv` of `Props/C04W.lean` holds in every reachable object table: it holds
  for the empty table and is preserved by creating objects, by add / remove on a registry, by
  retargeting a dynamic wrapper, by flipping conditions and by building new filters.  Together
  with `wrapper_reflects` this is: *lookups through merged, conditional, dynamic and global-only
  wrappers always reflect bindings added or removed since*, for all interleavings.
-/
import Ptk.Props.C04W
namespace Ptk.C04

/-! ### the specification functions only look below the object -/

theorem spec_local (ρ : Nat → Bool) (sk sk' : SkelMap) (m : Nat) (h : ∀ j, j < m → sk' j = sk j) :
    ∀ i, i < m → (∀ v, dcur ρ sk' i v = dcur ρ sk i v) ∧ (∀ v, Bnd sk' i v ↔ Bnd sk i v) := by
  intro i
  induction i using Nat.strongRecOn with
  | ind i ih =>
    intro hi
    have hs' := h i hi
    cases hs : sk i with
    | none =>
      rw [hs] at hs'
      exact ⟨fun v => by rw [dcur_none hs', dcur_none hs],
             fun v => ⟨fun hb => absurd hb (Bnd_none hs' v), fun hb => absurd hb (Bnd_none hs v)⟩⟩
    | some s =>
      rw [hs] at hs'
      cases s with
      | kb bs ver =>
        exact ⟨fun v => by rw [dcur_kb hs', dcur_kb hs], fun v => by rw [Bnd_kb hs', Bnd_kb hs]⟩
      | cond c flt =>
        by_cases hc : c < i
        · have := ih c hc (by omega)
          exact ⟨fun v => by rw [dcur_cond hs' hc, dcur_cond hs hc, this.1],
                 fun v => by rw [Bnd_cond hs' hc, Bnd_cond hs hc, this.2]⟩
        · exact ⟨fun v => by rw [dcur.eq_def, dcur.eq_def ρ sk]; simp [hs, hs', hc],
                 fun v => by rw [Bnd.eq_def, Bnd.eq_def sk]; simp [hs, hs', hc]⟩
      | glob c =>
        by_cases hc : c < i
        · have := ih c hc (by omega)
          exact ⟨fun v => by rw [dcur_glob hs' hc, dcur_glob hs hc, this.1],
                 fun v => by rw [Bnd_glob hs' hc, Bnd_glob hs hc, this.2]⟩
        · exact ⟨fun v => by rw [dcur.eq_def, dcur.eq_def ρ sk]; simp [hs, hs', hc],
                 fun v => by rw [Bnd.eq_def, Bnd.eq_def sk]; simp [hs, hs', hc]⟩
      | merged cs =>
        have e1 : (fun c x => if _h : c < i then dcur ρ sk' c x else none) =
            (fun c x => if _h : c < i then dcur ρ sk c x else none) := by
          funext c x
          by_cases hc : c < i
          · simp [hc, (ih c hc (by omega)).1]
          · simp [hc]
        have e2 : (fun c x => if _h : c < i then Bnd sk' c x else False) =
            (fun c x => if _h : c < i then Bnd sk c x else False) := by
          funext c x
          by_cases hc : c < i
          · simp [hc, (ih c hc (by omega)).2]
          · simp [hc]
        exact ⟨fun v => by rw [dcur_merged hs', dcur_merged hs, e1],
               fun v => by rw [Bnd_merged hs', Bnd_merged hs, e2]⟩
      | dyn t0 =>
        refine ⟨fun v => ?_, fun v => ?_⟩
        · rw [dcur_dyn hs', dcur_dyn hs]
          cases v with
          | dyn t v' =>
            simp only []
            by_cases ht : t = i
            · simp [ht]
            · by_cases hlt : t < i
              · simp [ht, hlt, (ih t hlt (by omega)).1]
              · simp [ht, hlt]
          | _ => rfl
        · rw [Bnd_dyn hs', Bnd_dyn hs]
          cases v with
          | dyn t v' =>
            simp only []
            by_cases ht : t = i
            · simp [ht]
            · by_cases hlt : t < i
              · simp [ht, hlt, (ih t hlt (by omega)).2]
              · simp [ht, hlt]
          | _ => rfl

/-! ### transferring the invariant of one entry to another skeleton -/

theorem ProxyOK.transfer {sk sk' : SkelMap} {i : Nat} {b2 : KB} {last : Ver} (h : ProxyOK sk i b2 last)
    (ht : Bnd sk i last → Bnd sk' i last ∧
      ∀ ρ content, dcur ρ sk' i last = some content → dcur ρ sk i last = some content) :
    ProxyOK sk' i b2 last := by
  rcases h.2 with ⟨e1, e2⟩ | hb
  · refine ⟨fun ρ content hd => ?_, Or.inl ⟨e1, e2⟩⟩
    rw [e1] at hd
    rw [e2, dcur_tup_nil ρ sk' i content hd]; rfl
  · obtain ⟨t1, t2⟩ := ht hb
    exact ⟨fun ρ content hd => h.1 ρ content (t2 ρ content hd), Or.inr t1⟩

theorem EntOK.transfer {h : Heap} {sk sk' : SkelMap} {i : Nat} {r : Reg} (ok : EntOK h sk i r)
    (ht : ∀ v, Bnd sk i v → Bnd sk' i v ∧
      ∀ ρ content, dcur ρ sk' i v = some content → dcur ρ sk i v = some content) :
    EntOK h sk' i r := by
  cases r with
  | kb k => exact ok
  | cond c flt b2 last => exact ⟨ok.1, ok.2.1, ok.2.2.1, ok.2.2.2.1, ok.2.2.2.2.transfer (ht last)⟩
  | merged cs b2 last => exact ⟨ok.1, ok.2.1, ok.2.2.1, ok.2.2.2.transfer (ht last)⟩
  | glob c b2 last => exact ⟨ok.1, ok.2.1, ok.2.2.1, ok.2.2.2.transfer (ht last)⟩
  | dyn t d => exact ok

/-! ### a registry changes: its version counter is bumped -/

/-- skeleton after replacing entry `k` -/
def skSet (sk : SkelMap) (k : Nat) (s : Skel) : SkelMap := fun j => if j = k then some s else sk j

theorem dcurList_some_transfer {f g : Nat → Ver → Option (List View)} {P : Nat → Ver → Prop} :
    ∀ (cs : List Nat) (vs : List Ver) (content : List View),
    (∀ c x y, P c x → g c x = some y → f c x = some y) →
    bndList P cs vs → dcurList g cs vs = some content → dcurList f cs vs = some content
  | [], [], content, _, _, h => h
  | [], _ :: _, _, _, hb, _ => by simp [bndList] at hb
  | _ :: _, [], _, _, hb, _ => by simp [bndList] at hb
  | c :: cs, v :: vs, content, hfg, hb, h => by
    simp only [bndList] at hb
    simp only [dcurList] at h ⊢
    cases h1 : g c v with
    | none => simp [h1] at h
    | some a =>
      cases h2 : dcurList g cs vs with
      | none => simp [h1, h2] at h
      | some b =>
        simp [h1, h2] at h
        rw [hfg c v a hb.1 h1, dcurList_some_transfer cs vs b hfg hb.2 h2]
        simpa using h

theorem bndList_mono {P Q : Nat → Ver → Prop} :
    ∀ (cs : List Nat) (vs : List Ver), (∀ c x, P c x → Q c x) → bndList P cs vs → bndList Q cs vs
  | [], [], _, h => h
  | [], _ :: _, _, h => by simp [bndList] at h
  | _ :: _, [], _, h => by simp [bndList] at h
  | c :: cs, v :: vs, hpq, h => by
    simp only [bndList] at h ⊢
    exact ⟨hpq c v h.1, bndList_mono cs vs hpq h.2⟩

/-- **version bump**: after registry `k` went from version `ver` to `ver + 1` (with whatever new
    binding list), every version value that was not from the future still is not, and if it names
    current content now, it named the same content before — in particular no stored version of
    anything built on `k` names current content any more. -/
theorem bump (ρ : Nat → Bool) (sk : SkelMap) (k : Nat) (bs bs' : List Binding) (ver : Nat)
    (hk : sk k = some (.kb bs ver)) :
    ∀ i v, Bnd sk i v → Bnd (skSet sk k (.kb bs' (ver + 1))) i v ∧
      ∀ content, dcur ρ (skSet sk k (.kb bs' (ver + 1))) i v = some content →
        dcur ρ sk i v = some content := by
  intro i
  induction i using Nat.strongRecOn with
  | ind i ih =>
    intro v hb
    by_cases hik : i = k
    · subst hik
      have hs' : skSet sk i (.kb bs' (ver + 1)) i = some (.kb bs' (ver + 1)) := by simp [skSet]
      rw [Bnd_kb hk] at hb
      rw [Bnd_kb hs', dcur_kb hs', dcur_kb hk]
      cases v with
      | num m =>
        simp only [] at hb ⊢
        refine ⟨by omega, fun content h => ?_⟩
        have : m ≠ ver + 1 := by omega
        simp [this] at h
      | _ => exact absurd hb (by simp)
    · have hs' : skSet sk k (.kb bs' (ver + 1)) i = sk i := by simp [skSet, hik]
      cases hs : sk i with
      | none => exact absurd hb (Bnd_none hs v)
      | some s =>
        rw [hs] at hs'
        cases s with
        | kb b0 v0 =>
          rw [Bnd_kb hs] at hb
          rw [Bnd_kb hs', dcur_kb hs', dcur_kb hs]
          exact ⟨hb, fun _ h => h⟩
        | cond c flt =>
          by_cases hc : c < i
          · rw [Bnd_cond hs hc] at hb
            obtain ⟨i1, i2⟩ := ih c hc v hb
            rw [Bnd_cond hs' hc, dcur_cond hs' hc, dcur_cond hs hc]
            refine ⟨i1, fun content h => ?_⟩
            cases hd : dcur ρ (skSet sk k (.kb bs' (ver + 1))) c v with
            | none => simp [hd] at h
            | some x => rw [hd] at h; rw [i2 x hd]; exact h
          · rw [Bnd.eq_def] at hb; simp [hs, hc] at hb
        | glob c =>
          by_cases hc : c < i
          · rw [Bnd_glob hs hc] at hb
            obtain ⟨i1, i2⟩ := ih c hc v hb
            rw [Bnd_glob hs' hc, dcur_glob hs' hc, dcur_glob hs hc]
            refine ⟨i1, fun content h => ?_⟩
            cases hd : dcur ρ (skSet sk k (.kb bs' (ver + 1))) c v with
            | none => simp [hd] at h
            | some x => rw [hd] at h; rw [i2 x hd]; exact h
          · rw [Bnd.eq_def] at hb; simp [hs, hc] at hb
        | merged cs =>
          rw [Bnd_merged hs] at hb
          rw [Bnd_merged hs', dcur_merged hs', dcur_merged hs]
          cases v with
          | tup vs =>
            simp only [] at hb ⊢
            constructor
            · apply bndList_mono cs vs _ hb
              intro c x hP
              by_cases hc : c < i
              · simp only [hc, dite_true] at hP ⊢
                exact (ih c hc x hP).1
              · simp [hc] at hP
            · intro content h
              apply dcurList_some_transfer cs vs content _ hb h
              intro c x y hP hg
              by_cases hc : c < i
              · simp only [hc, dite_true] at hP hg ⊢
                exact (ih c hc x hP).2 y hg
              · simp [hc] at hP
          | _ => exact absurd hb (by simp)
        | dyn t0 =>
          rw [Bnd_dyn hs] at hb
          rw [Bnd_dyn hs', dcur_dyn hs', dcur_dyn hs]
          cases v with
          | dyn t v' =>
            simp only [] at hb ⊢
            by_cases ht : t = i
            · simp only [ht, if_true] at hb ⊢
              exact ⟨hb, fun _ h => h⟩
            · by_cases hlt : t < i
              · simp only [ht, if_false, hlt, dite_true] at hb ⊢
                exact ih t hlt v' hb
              · simp [ht, hlt] at hb
          | _ => exact absurd hb (by simp)

/-- **retarget**: the content named by a version value, and whether it is from the future, do
    not depend on where the dynamic wrappers point at the moment -/
theorem retarget (ρ : Nat → Bool) (sk : SkelMap) (d : Nat) (t t' : Option Nat)
    (hd : sk d = some (.dyn t)) :
    ∀ i v, dcur ρ (skSet sk d (.dyn t')) i v = dcur ρ sk i v ∧
      (Bnd (skSet sk d (.dyn t')) i v ↔ Bnd sk i v) := by
  intro i
  induction i using Nat.strongRecOn with
  | ind i ih =>
    intro v
    have hdyn : ∀ (t0 t1 : Option Nat), sk i = some (.dyn t0) →
        skSet sk d (.dyn t') i = some (.dyn t1) →
        dcur ρ (skSet sk d (.dyn t')) i v = dcur ρ sk i v ∧
          (Bnd (skSet sk d (.dyn t')) i v ↔ Bnd sk i v) := by
      intro t0 t1 hs hs'
      rw [dcur_dyn hs', dcur_dyn hs, Bnd_dyn hs', Bnd_dyn hs]
      cases v with
      | dyn tt v' =>
        simp only []
        by_cases ht : tt = i
        · simp [ht]
        · by_cases hlt : tt < i
          · simp [ht, hlt, (ih tt hlt v').1, (ih tt hlt v').2]
          · simp [ht, hlt]
      | _ => simp
    by_cases hid : i = d
    · subst hid
      exact hdyn t t' hd (by simp [skSet])
    · have hs' : skSet sk d (.dyn t') i = sk i := by simp [skSet, hid]
      cases hs : sk i with
      | none =>
        rw [hs] at hs'
        exact ⟨by rw [dcur_none hs', dcur_none hs],
               ⟨fun hb => absurd hb (Bnd_none hs' v), fun hb => absurd hb (Bnd_none hs v)⟩⟩
      | some s =>
        rw [hs] at hs'
        cases s with
        | kb b0 v0 => exact ⟨by rw [dcur_kb hs', dcur_kb hs], by rw [Bnd_kb hs', Bnd_kb hs]⟩
        | cond c flt =>
          by_cases hc : c < i
          · exact ⟨by rw [dcur_cond hs' hc, dcur_cond hs hc, (ih c hc v).1],
                   by rw [Bnd_cond hs' hc, Bnd_cond hs hc, (ih c hc v).2]⟩
          · exact ⟨by rw [dcur.eq_def, dcur.eq_def ρ sk]; simp [hs, hs', hc],
                   by rw [Bnd.eq_def, Bnd.eq_def sk]; simp [hs, hs', hc]⟩
        | glob c =>
          by_cases hc : c < i
          · exact ⟨by rw [dcur_glob hs' hc, dcur_glob hs hc, (ih c hc v).1],
                   by rw [Bnd_glob hs' hc, Bnd_glob hs hc, (ih c hc v).2]⟩
          · exact ⟨by rw [dcur.eq_def, dcur.eq_def ρ sk]; simp [hs, hs', hc],
                   by rw [Bnd.eq_def, Bnd.eq_def sk]; simp [hs, hs', hc]⟩
        | merged cs =>
          have e1 : (fun c x => if _h : c < i then dcur ρ (skSet sk d (.dyn t')) c x else none) =
              (fun c x => if _h : c < i then dcur ρ sk c x else none) := by
            funext c x
            by_cases hc : c < i
            · simp [hc, (ih c hc x).1]
            · simp [hc]
          have e2 : (fun c x => if _h : c < i then Bnd (skSet sk d (.dyn t')) c x else False) =
              (fun c x => if _h : c < i then Bnd sk c x else False) := by
            funext c x
            by_cases hc : c < i
            · simp [hc, (ih c hc x).2]
            · simp [hc]
          exact ⟨by rw [dcur_merged hs', dcur_merged hs, e1],
                 by rw [Bnd_merged hs', Bnd_merged hs, e2]⟩
        | dyn t0 => exact hdyn t0 t0 hs hs'

/-! ### the invariant is preserved by every operation on the table -/

theorem skelOf_setReg' (w : W) (i : Nat) (r : Reg) (hlt : i < w.regs.length) :
    skelOf (setReg w i r) = skSet (skelOf w) i r.skel := by
  funext j
  unfold skelOf setReg skSet
  simp only [List.getElem?_set]
  by_cases hij : i = j
  · subst hij; simp [hlt]
  · have : ¬ j = i := fun h => hij h.symm
    simp [hij, this]

/-- replace entry `i` by one with a different skeleton, given that the other entries survive
    the change of skeleton -/
theorem Inv.replace {w : W} (inv : Inv w) (h' : Heap) (hh : HeapOK h')
    (hm : ∀ f, Known w.heap f → Known h' f) (i : Nat) (new : Reg) (hlt : i < w.regs.length)
    (hnew : EntOK h' (skSet (skelOf w) i new.skel) i new)
    (htr : ∀ j v, j ≠ i → Bnd (skelOf w) j v → Bnd (skSet (skelOf w) i new.skel) j v ∧
      ∀ ρ content, dcur ρ (skSet (skelOf w) i new.skel) j v = some content →
        dcur ρ (skelOf w) j v = some content) :
    Inv (setReg { w with heap := h' } i new) := by
  have hsk : skelOf (setReg { w with heap := h' } i new) = skSet (skelOf w) i new.skel :=
    skelOf_setReg' { w with heap := h' } i new hlt
  refine ⟨hh, ?_⟩
  intro j r hr
  rw [hsk]
  by_cases hij : i = j
  · subst hij
    rw [setReg_get_eq { w with heap := h' } i new hlt] at hr
    cases hr
    exact hnew
  · rw [setReg_get_ne { w with heap := h' } i j new hij] at hr
    exact ((inv.ent j r hr).mono hm).transfer (fun v => htr j v (fun h => hij h.symm))

/-- what the arguments of an operation must satisfy: filters are live objects of the heap,
    `is_global` arguments are the constants `True`/`False` -/
def ROpOK (h : Heap) : ROp → Prop
  | .add _ _ _ f _ g _ => Known h f.toF ∧ g.toF.isConst = true
  | .addB _ _ func f e g => Known h func.filter ∧ Known h f.toF ∧ Known h e.toF ∧ Known h func.eager ∧
      g.toF.isConst = true ∧ func.isGlobal.isConst = true
  | .removeH _ _ => True
  | .removeK _ _ => True
  | .target _ _ => True

theorem Known_const {h : Heap} {f : F} (hc : f.isConst = true) : Known h f := by
  cases f <;> simp [F.isConst] at hc
  · exact Or.inl rfl
  · exact Or.inr (Or.inl rfl)

theorem fOr_const (h : Heap) (a b : F) (ha : a.isConst = true) (hb : b.isConst = true) :
    (fOr h a b).1 = h ∧ (fOr h a b).2.isConst = true := by
  cases a <;> simp [F.isConst] at ha <;> cases b <;> simp [F.isConst] at hb <;> simp [fOr, F.isConst]

theorem Inv.kbChange {w : W} (inv : Inv w) (h' : Heap) (hh : HeapOK h')
    (hm : ∀ f, Known w.heap f → Known h' f) (r : Nat) (k : KB) (he : w.regs[r]? = some (.kb k))
    (bs' : List Binding) (hbs : BsOK h' bs') :
    Inv (setReg { w with heap := h' } r (.kb (KB.clearCache { k with bs := bs' }))) := by
  have hlt : r < w.regs.length := (List.getElem?_eq_some_iff.mp he).1
  apply inv.replace h' hh hm r _ hlt
  · exact ⟨KB.clearCache_ok _, hbs⟩
  · intro j v _ hb
    have hk : skelOf w r = some (.kb k.bs k.ver) := skelOf_of_get he
    have := bump (sk := skelOf w) (k := r) (bs := k.bs) (bs' := bs') (ver := k.ver)
    exact ⟨(this (fun _ => true) hk j v hb).1, fun ρ content hd => (this ρ hk j v hb).2 content hd⟩

theorem Inv.same {w : W} (inv : Inv w) (r : Nat) (e : Reg) (he : w.regs[r]? = some e) :
    Inv (setReg w r e) := by
  have := (inv.setEntry w.heap inv.heap (fun _ h => h) r e e he rfl (inv.ent r e he)).1
  exact this

/-- **add / remove / retarget keep the invariant** -/
theorem Inv.applyROp {w : W} (inv : Inv w) (op : ROp) (hop : ROpOK w.heap op) :
    Inv (applyROp w op).1 := by
  cases op with
  | add r keys hid f e g m =>
    simp only [Ptk.C04.applyROp]
    cases he : w.regs[r]? with
    | none => exact inv
    | some x =>
      cases x with
      | kb k =>
        simp only []
        split
        · exact inv
        · simp only [KB.add]
          split
          · exact (inv.same r _ he).setNextB _
          · have := inv.kbChange w.heap inv.heap (fun _ h => h) r k he
              (k.bs ++ [{ keys := keys, hid := hid, filter := f.toF, eager := e.toF, isGlobal := g.toF,
                          rim := m.toF, bid := w.nextB }])
              (by
                intro b hb
                rcases List.mem_append.mp hb with h1 | h1
                · exact (inv.ent r _ he).2 b h1
                · simp at h1; subst h1; exact ⟨hop.1, hop.2⟩)
            exact this.setNextB _
      | _ => exact inv
  | addB r keys func f e g =>
    simp only [Ptk.C04.applyROp]
    cases he : w.regs[r]? with
    | none => exact inv
    | some x =>
      cases x with
      | kb k =>
        simp only []
        split
        · exact inv
        · obtain ⟨k1, k2, k3, k4, k5, k6⟩ := hop
          simp only [KB.addBinding]
          split
          · exact (inv.same r _ he).setNextB _
          · obtain ⟨⟨o1, n1, m1⟩, _⟩ := fAnd_spec inv.heap func.filter f.toF k1 k2
            obtain ⟨⟨o2, n2, m2⟩, _⟩ := fOr_spec o1 e.toF func.eager (m1 _ k3) (m1 _ k4)
            obtain ⟨g1, g2⟩ := fOr_const (fOr (fAnd w.heap func.filter f.toF).1 e.toF func.eager).1
              g.toF func.isGlobal k5 k6
            have hm : ∀ x, Known w.heap x → Known (fOr (fOr (fAnd w.heap func.filter f.toF).1 e.toF
                func.eager).1 g.toF func.isGlobal).1 x := by
              intro x hx; rw [g1]; exact m2 _ (m1 _ hx)
            have hh : HeapOK (fOr (fOr (fAnd w.heap func.filter f.toF).1 e.toF
                func.eager).1 g.toF func.isGlobal).1 := by rw [g1]; exact o2
            have := inv.kbChange _ hh hm r k he
              (k.bs ++ [{ keys := keys, hid := func.hid, filter := (fAnd w.heap func.filter f.toF).2,
                          eager := (fOr (fAnd w.heap func.filter f.toF).1 e.toF func.eager).2,
                          isGlobal := (fOr (fOr (fAnd w.heap func.filter f.toF).1 e.toF
                            func.eager).1 g.toF func.isGlobal).2, rim := func.rim, bid := w.nextB }])
              (by
                intro b hb
                rcases List.mem_append.mp hb with h1 | h1
                · exact ⟨hm _ ((inv.ent r _ he).2 b h1).1, ((inv.ent r _ he).2 b h1).2⟩
                · simp at h1; subst h1
                  refine ⟨?_, g2⟩
                  show Known _ (fAnd w.heap func.filter f.toF).2
                  rw [g1]; exact m2 _ n1)
            exact this.setNextB _
      | _ => exact inv
  | removeH r hid =>
    simp only [Ptk.C04.applyROp]
    cases he : w.regs[r]? with
    | none => exact inv
    | some x =>
      cases x with
      | kb k =>
        simp only [KB.remove]
        split
        · next k' hk' =>
          split at hk'
          · cases hk'
            have hsub := (removeLoop_spec (fun b => b.hid == hid) k.bs).2.1
            exact inv.kbChange w.heap inv.heap (fun _ h => h) r k he _
              (fun b hb => (inv.ent r _ he).2 b (hsub.subset hb))
          · cases hk'
        · exact inv
      | _ => exact inv
  | removeK r keys =>
    simp only [Ptk.C04.applyROp]
    cases he : w.regs[r]? with
    | none => exact inv
    | some x =>
      cases x with
      | kb k =>
        simp only [KB.remove]
        split
        · next k' hk' =>
          split at hk'
          · cases hk'
            have hsub := (removeLoop_spec (fun b => listBeq b.keys keys) k.bs).2.1
            exact inv.kbChange w.heap inv.heap (fun _ h => h) r k he _
              (fun b hb => (inv.ent r _ he).2 b (hsub.subset hb))
          · cases hk'
        · exact inv
      | _ => exact inv
  | target d t =>
    simp only [Ptk.C04.applyROp]
    cases he : w.regs[d]? with
    | none => exact inv
    | some x =>
      cases x with
      | dyn t0 dummy =>
        have hlt : d < w.regs.length := (List.getElem?_eq_some_iff.mp he).1
        have ok := inv.ent d _ he
        have hk : skelOf w d = some (.dyn t0) := skelOf_of_get he
        have key : ∀ (t' : Option Nat), (∀ x, t' = some x → x < d) →
            Inv (setReg w d (.dyn t' dummy)) := by
          intro t' ht'
          apply inv.replace w.heap inv.heap (fun _ h => h) d _ hlt
          · exact ⟨ht', ok.2.1, ok.2.2.1, ok.2.2.2⟩
          · intro j v _ hb
            have := retarget (sk := skelOf w) (d := d) (t := t0) (t' := t')
            exact ⟨((this (fun _ => true) hk j v).2).mpr hb,
              fun ρ content hd => by rw [← (this ρ hk j v).1]; exact hd⟩
        cases t with
        | none => exact key none (fun x hx => by cases hx)
        | some t' =>
          simp only []
          split
          · next hlt' => exact key (some t') (fun x hx => by cases hx; exact hlt')
          · exact inv
      | _ => exact inv

/-! ### creating objects, flipping conditions, building filters -/

theorem skelOf_append_lt (w : W) (r : Reg) (j : Nat) (hj : j < w.regs.length) :
    skelOf { w with regs := w.regs ++ [r] } j = skelOf w j := by
  unfold skelOf
  simp [List.getElem?_append_left hj]

theorem Inv.append {w : W} (inv : Inv w) (r : Reg)
    (hnew : EntOK w.heap (skelOf { w with regs := w.regs ++ [r] }) w.regs.length r) :
    Inv { w with regs := w.regs ++ [r] } := by
  refine ⟨inv.heap, ?_⟩
  intro j e he
  by_cases hj : j < w.regs.length
  · have he' : w.regs[j]? = some e := by
      rw [List.getElem?_append_left hj] at he; exact he
    have ok := inv.ent j e he'
    have loc := spec_local (sk := skelOf w) (sk' := skelOf { w with regs := w.regs ++ [r] })
      (m := w.regs.length) (h := fun x hx => skelOf_append_lt w r x hx)
    apply ok.transfer
    intro v hb
    exact ⟨((loc (fun _ => true) j hj).2 v).mpr hb,
      fun ρ content hd => by rw [← (loc ρ j hj).1 v]; exact hd⟩
  · have hlen : j = w.regs.length := by
      have := (List.getElem?_eq_some_iff.mp he).1
      simp at this; omega
    subst hlen
    simp at he
    subst he
    exact hnew

theorem proxyOK_initial (sk : SkelMap) (i : Nat) : ProxyOK sk i {} (.tup []) :=
  ⟨fun ρ content hd => by rw [dcur_tup_nil ρ sk i content hd]; rfl, Or.inl ⟨rfl, rfl⟩⟩

theorem bsOK_nil (h : Heap) : BsOK h ([] : List Binding) := fun b hb => nomatch hb

def MkOK (h : Heap) : Mk → Prop
  | .cond _ f => Known h f.toF
  | _ => True

/-- **creating a registry or a wrapper keeps the invariant** -/
theorem Inv.mkReg {w w' : W} (inv : Inv w) (m : Mk) (hm : MkOK w.heap m) (h : mkReg w m = some w') :
    Inv w' := by
  cases m with
  | kb =>
    simp [Ptk.C04.mkReg] at h; subst h
    exact inv.append _ ⟨KBOK.fresh _ _, bsOK_nil _⟩
  | cond c f =>
    simp only [Ptk.C04.mkReg] at h
    split at h
    · next hc =>
      cases h
      exact inv.append _ ⟨hc, KBOK.fresh _ _, bsOK_nil _, hm, proxyOK_initial _ _⟩
    · cases h
  | merged cs =>
    simp only [Ptk.C04.mkReg] at h
    split at h
    · next hc =>
      cases h
      refine inv.append _ ⟨?_, KBOK.fresh _ _, bsOK_nil _, proxyOK_initial _ _⟩
      intro c hcm
      simpa using (List.all_eq_true.mp hc) c hcm
    · cases h
  | dyn t =>
    cases t with
    | none =>
      simp [Ptk.C04.mkReg] at h; subst h
      exact inv.append _ ⟨(fun x hx => nomatch hx), KBOK.fresh _ _, rfl, rfl⟩
    | some t =>
      simp only [Ptk.C04.mkReg] at h
      split at h
      · next hc =>
        cases h
        exact inv.append _ ⟨fun x hx => by cases hx; exact hc, KBOK.fresh _ _, rfl, rfl⟩
      · cases h
  | glob c =>
    simp only [Ptk.C04.mkReg] at h
    split at h
    · next hc =>
      cases h
      exact inv.append _ ⟨hc, KBOK.fresh _ _, bsOK_nil _, proxyOK_initial _ _⟩
    · cases h

theorem inv_empty : Inv {} :=
  ⟨heapOK_empty, fun i r h => by simp at h⟩

/-- flipping conditions does not touch the invariant (it does not mention the environment) -/
theorem Inv.setEnv {w : W} (inv : Inv w) (e : List Bool) : Inv { w with env := e } :=
  ⟨inv.heap, fun i r h => inv.ent i r h⟩

/-- building new filter objects (any of `Condition`, `&`, `|`, `~`) only grows the heap -/
theorem Inv.setHeap {w : W} (inv : Inv w) (h' : Heap) (hh : HeapOK h')
    (hm : ∀ f, Known w.heap f → Known h' f) : Inv { w with heap := h' } :=
  ⟨hh, fun i r h => (inv.ent i r h).mono hm⟩

/-! ### all interleavings -/

/-- the object tables reachable from the empty one by creating objects, add / remove /
    retarget, flipping conditions, building filters, and lookups through any object -/
inductive Reach : W → Prop where
  | init : Reach {}
  | mk {w w' : W} (m : Mk) : Reach w → MkOK w.heap m → mkReg w m = some w' → Reach w'
  | rop {w : W} (op : ROp) : Reach w → ROpOK w.heap op → Reach (applyROp w op).1
  | env {w : W} (e : List Bool) : Reach w → Reach { w with env := e }
  | heap {w : W} (h' : Heap) : Reach w → HeapOK h' → (∀ f, Known w.heap f → Known h' f) →
      Reach { w with heap := h' }
  | lookFor {w : W} (i : Nat) (ks : List Key) : Reach w → i < w.regs.length →
      Reach (w.fns.getFor w i ks).1
  | lookStart {w : W} (i : Nat) (ks : List Key) : Reach w → i < w.regs.length →
      Reach (w.fns.getStart w i ks).1
  | bindings {w : W} (i : Nat) : Reach w → i < w.regs.length → Reach (w.fns.bindings w i).1
  | version {w : W} (i : Nat) : Reach w → i < w.regs.length → Reach (w.fns.version w i).1

theorem Reach.inv {w : W} (h : Reach w) : Inv w := by
  induction h with
  | init => exact inv_empty
  | mk m _ hm hk ih => exact ih.mkReg m hm hk
  | rop op _ hop ih => exact ih.applyROp op hop
  | env e _ ih => exact ih.setEnv e
  | heap h' _ hh hm ih => exact ih.setHeap h' hh hm
  | lookFor i ks _ hi ih => exact (wrapper_reflects _ ih i hi ks).1.1
  | lookStart i ks _ hi ih => exact (wrapper_reflects _ ih i hi ks).2.1.1
  | bindings i _ hi ih => exact (wrapper_reflects _ ih i hi []).2.2.1.1
  | version i _ hi ih => exact (wrapper_reflects _ ih i hi []).2.2.2.1

/-- **Lookups through wrappers always reflect bindings added or removed since** — for every
    interleaving of object creation, add, remove, retargeting, condition flips, filter
    construction and earlier lookups (which fill the caches), and every object `i` of the
    table: the lookup through `i` equals the documented lookup on the bindings that are in
    the registries now, under every assignment of the conditions. -/
theorem wrappers_always_reflect {w : W} (h : Reach w) (i : Nat) (hi : i < w.regs.length)
    (ks : List Key) (ρ : Nat → Bool) :
    (w.fns.getFor w i ks).2.map (viewOf ρ) = matchForV (flatV ρ (skelOf w) i) ks ∧
    (w.fns.getStart w i ks).2.map (viewOf ρ) = matchStartingV (flatV ρ (skelOf w) i) ks ∧
    (w.fns.bindings w i).2.map (viewOf ρ) = flatV ρ (skelOf w) i :=
  have r := wrapper_reflects w h.inv i hi ks
  ⟨r.1.2.2 ρ, r.2.1.2.2 ρ, r.2.2.1.2.2 ρ⟩

/-! ### non-vacuity -/

/-- a registry, a conditional wrapper around it, a merge of both; a binding added, a lookup through
    the merge (fills the caches of both wrappers), the binding removed again -/
def exOps : List ROp :=
  [.add 0 [2] 7 (.b true) (.b false) (.b false) (.b true), .removeH 0 7]

def exW1 : W := { regs := [.kb {}, .cond 0 F.always {} (.tup []), .merged [1, 0] {} (.tup [])] }
def exW2 : W := (applyROp exW1 (exOps[0]!)).1
def exW3 : W := (exW2.fns.getFor exW2 2 [2]).1
def exW4 : W := (applyROp exW3 (exOps[1]!)).1

example : Reach exW4 := by
  have h0 : Reach exW1 := by
    have a := Reach.mk (w' := { regs := [.kb {}] }) .kb Reach.init trivial rfl
    have b := Reach.mk (w' := { regs := [.kb {}, .cond 0 F.always {} (.tup [])] })
      (.cond 0 (.b true)) a (Or.inl rfl) rfl
    exact Reach.mk (w' := exW1) (.merged [1, 0]) b trivial rfl
  have h2 : Reach exW2 := Reach.rop _ h0 ⟨Or.inl rfl, rfl⟩
  have h3 : Reach exW3 := Reach.lookFor 2 [2] h2 (by decide)
  exact Reach.rop _ h3 trivial

/-- the lookups through the merge see the binding twice while it is there and not at all after
    the removal, although both wrappers had cached it -/
example : ((exW2.fns.getFor exW2 2 [2]).2.map (·.hid)) = [7, 7] ∧
    ((exW4.fns.getFor exW4 2 [2]).2.map (·.hid)) = [] ∧
    ((exW3.fns.getFor exW3 2 [2]).2.map (·.hid)) = [7, 7] := by decide

end Ptk.C04
