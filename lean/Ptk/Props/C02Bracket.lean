/-
  C02 — fourth audited module: brackets.  The bracket that is reported is the first one that balances,
  and `None` / 0 is reported only when no bracket in the searched range balances.
-/
import Ptk.Props.C02Extra
namespace Ptk.C02
open Ptk.Py

/-! ## 16. brackets: the reported bracket is the *first* one that balances, `None` = none does -/

/-- when the walk finds nothing, the stack never reached 0 -/
theorem walk_none (inc dec : Char) (hne : inc ≠ dec) (st : Int) (hst : 1 ≤ st) (i : Nat) (seg : Text)
    (h : walk inc dec st i seg = none) :
    ∀ k, k < seg.length → 1 ≤ st + (seg.take (k + 1)).count inc - (seg.take (k + 1)).count dec := by
  induction seg generalizing st i with
  | nil => intro k hk; simp at hk
  | cons c cs ih =>
    simp only [walk] at h
    have hb : (inc == dec) = false := by simpa using hne
    have hb' : (dec == inc) = false := by simpa using (fun e => hne e.symm)
    by_cases hci : c = inc
    · simp only [hci, if_true] at h
      have hz : ¬ (st + 1 = 0) := by omega
      simp only [hz, if_false] at h
      have := ih (st + 1) (by omega) (i + 1) h
      intro k hk
      cases k with
      | zero =>
        simp only [List.take_succ_cons, List.take_zero, List.count_cons, hci, beq_self_eq_true, if_true]
        simp [hb]; omega
      | succ k =>
        have := this k (by simpa using hk)
        simp only [List.take_succ_cons, List.count_cons, hci, beq_self_eq_true, if_true, hb,
          Bool.false_eq_true, if_false, Nat.add_zero] at this ⊢
        omega
    · simp only [hci, if_false] at h
      by_cases hcd : c = dec
      · simp only [hcd, if_true] at h
        by_cases hz : st - 1 = 0
        · simp [hz] at h
        · simp only [hz, if_false] at h
          have := ih (st - 1) (by omega) (i + 1) h
          intro k hk
          cases k with
          | zero =>
            simp only [List.take_succ_cons, List.take_zero, List.count_cons, hcd, beq_self_eq_true, if_true, hb']
            simp; omega
          | succ k =>
            have := this k (by simpa using hk)
            simp only [List.take_succ_cons, List.count_cons, hcd, beq_self_eq_true, if_true, hb',
              Bool.false_eq_true, if_false, Nat.add_zero] at this ⊢
            omega
      · simp only [hcd, if_false] at h
        have hz : ¬ (st = 0) := by omega
        simp only [hz, if_false] at h
        have := ih st hst (i + 1) h
        have hb1 : (c == inc) = false := by simpa using hci
        have hb2 : (c == dec) = false := by simpa using hcd
        intro k hk
        cases k with
        | zero =>
          simp only [List.take_succ_cons, List.take_zero, List.count_cons, hb1, hb2]
          simp; omega
        | succ k =>
          have := this k (by simpa using hk)
          simp only [List.take_succ_cons, List.count_cons, hb1, hb2, Bool.false_eq_true, if_false,
            Nat.add_zero] at this ⊢
          exact this

/-- if every prefix `seg[:k+1]`, `k < N`, keeps the stack ≥ 1 (started at 1), then no `dec` among the
    first `N` elements closes a balanced prefix -/
theorem no_balance_of_depth (inc dec : Char) (hne : inc ≠ dec) (seg : Text) (N : Nat)
    (hd : ∀ k, k < N → (1 : Int) ≤ 1 + (seg.take (k + 1)).count inc - (seg.take (k + 1)).count dec)
    (k : Nat) (hk : k < N) (hc : seg[k]? = some dec) :
    (seg.take k).count inc ≠ (seg.take k).count dec := by
  have := hd k hk
  have hb : (dec == inc) = false := by simpa using (fun e => hne e.symm)
  have hlt : k < seg.length := by
    rcases Nat.lt_or_ge k seg.length with h | h
    · exact h
    · rw [List.getElem?_eq_none h] at hc; cases hc
  rw [List.take_succ_eq_append_getElem hlt] at this
  have hg : seg[k] = dec := by
    rw [List.getElem?_eq_getElem hlt] at hc; exact Option.some.inj hc
  simp only [List.count_append, hg, List.count_singleton, hb, beq_self_eq_true] at this
  simp at this
  omega

/-- **`find_enclosing_bracket_right` reports the first bracket that balances, and `None` only when
    none does**: no `right_ch` strictly between the cursor and the target (resp. anywhere in the
    searched range `cursor < p < min(len, end_pos)`) has a balanced text between the cursor and
    itself. -/
theorem enclosingRight_first (d : Doc) (l r : Char) (hne : l ≠ r) (endPos : Option Int) :
    (∀ m : Int, enclosingRight d l r endPos = some m →
        ∀ p : Nat, d.cur < p → (p : Int) < d.cur + m → d.text[p]? = some r →
          (interior d.text d.cur p).count l ≠ (interior d.text d.cur p).count r) ∧
    (enclosingRight d l r endPos = none →
        d.text[d.cur]? ≠ some r ∧
        ∀ p : Nat, d.cur < p → (p : Int) < endLimit d.text.length endPos → d.text[p]? = some r →
          (interior d.text d.cur p).count l ≠ (interior d.text d.cur p).count r) := by
  -- the scanned segment and its prefixes
  have hseg : ∀ (e k : Nat), d.cur + 1 + k ≤ e →
      ((d.text.take e).drop (d.cur + 1)).take k = interior d.text d.cur (d.cur + 1 + k) := by
    intro e k hk
    unfold interior
    rw [List.drop_take, List.take_take]
    congr 1; omega
  have hget : ∀ (e k : Nat), d.cur + 1 + k < e →
      ((d.text.take e).drop (d.cur + 1))[k]? = d.text[d.cur + 1 + k]? := by
    intro e k hk
    rw [List.getElem?_drop, List.getElem?_take]
    simp [hk]
  constructor
  · intro m h p hp1 hp2 hpr
    simp only [enclosingRight] at h
    split at h
    · cases h; omega
    · obtain ⟨j, hj, rfl⟩ := Option.map_eq_some_iff.mp h
      generalize he : (endLimit d.text.length endPos).toNat = e at hj
      obtain ⟨n, hn0, hn, _, hmin⟩ := walk_spec l r hne 1 (by omega) 0 _ j hj
      have hjn : j = n := by omega
      subst hjn
      have hlt : d.cur + 1 + j < e := by
        rcases Nat.lt_or_ge (d.cur + 1 + j) e with h | h
        · exact h
        · rw [List.getElem?_drop, List.getElem?_take] at hn
          simp only [Nat.not_lt.mpr h, if_false] at hn; cases hn
      have := no_balance_of_depth l r hne _ j hmin (p - d.cur - 1) (by omega)
        (by rw [hget e _ (by omega)]; have : d.cur + 1 + (p - d.cur - 1) = p := by omega
            rw [this]; exact hpr)
      rw [hseg e _ (by omega)] at this
      have e2 : d.cur + 1 + (p - d.cur - 1) = p := by omega
      rw [e2] at this; exact this
  · intro h
    simp only [enclosingRight] at h
    split at h
    · cases h
    · rename_i hcc
      rw [currentChar_eq] at hcc
      refine ⟨hcc, ?_⟩
      intro p hp1 hp2 hpr
      have hw : walk l r 1 0 ((d.text.take (endLimit d.text.length endPos).toNat).drop (d.cur + 1)) = none := by
        cases hh : walk l r 1 0 ((d.text.take (endLimit d.text.length endPos).toNat).drop (d.cur + 1)) with
        | none => rfl
        | some v => rw [hh] at h; cases h
      generalize he : (endLimit d.text.length endPos).toNat = e at hw
      have hpe : p < e := by omega
      have hplen : p < d.text.length := by
        rcases Nat.lt_or_ge p d.text.length with h | h
        · exact h
        · rw [List.getElem?_eq_none h] at hpr; cases hpr
      have hd := walk_none l r hne 1 (by omega) 0 _ hw
      have hlen : ((d.text.take e).drop (d.cur + 1)).length = min e d.text.length - (d.cur + 1) := by simp
      have := no_balance_of_depth l r hne _ _ hd (p - d.cur - 1) (by rw [hlen]; omega)
        (by rw [hget e _ (by omega)]; have : d.cur + 1 + (p - d.cur - 1) = p := by omega
            rw [this]; exact hpr)
      rw [hseg e _ (by omega)] at this
      have e2 : d.cur + 1 + (p - d.cur - 1) = p := by omega
      rw [e2] at this; exact this
example : enclosingRight ⟨['(', '(', ')', ')', ')'], 0⟩ '(' ')' none = some 3 ∧
    enclosingRight ⟨['a', '(', ')'], 0⟩ '(' ')' none = none := by decide

/-- **`find_enclosing_bracket_left` reports the first bracket (going left) that balances, and `None`
    only when none does** -/
theorem enclosingLeft_first (d : Doc) (hc : d.cur ≤ d.text.length) (l r : Char) (hne : l ≠ r)
    (startPos : Option Int) :
    (∀ m : Int, enclosingLeft d l r startPos = some m →
        ∀ p : Nat, (d.cur : Int) + m < p → p < d.cur → d.text[p]? = some l →
          (interior d.text p d.cur).count l ≠ (interior d.text p d.cur).count r) ∧
    (enclosingLeft d l r startPos = none →
        d.text[d.cur]? ≠ some l ∧
        ∀ p : Nat, startLimit startPos ≤ p → p < d.cur → d.text[p]? = some l →
          (interior d.text p d.cur).count l ≠ (interior d.text p d.cur).count r) := by
  have hne' : r ≠ l := fun e => hne e.symm
  -- the scanned segment `text[s:cur]` reversed, its elements and prefixes
  have hXlen : ∀ s, ((d.text.take d.cur).drop s).length = d.cur - s := by intro s; simp; omega
  have hget : ∀ (s k : Nat), k < d.cur - s →
      ((d.text.take d.cur).drop s).reverse[k]? = d.text[d.cur - 1 - k]? := by
    intro s k hk
    rw [List.getElem?_reverse (by rw [hXlen]; exact hk), hXlen, List.getElem?_drop, List.getElem?_take]
    have e1 : s + (d.cur - s - 1 - k) = d.cur - 1 - k := by omega
    have hlt : d.cur - 1 - k < d.cur := by omega
    rw [e1]; simp [hlt]
  have hseg : ∀ (s k : Nat), k < d.cur - s → ∀ ch : Char,
      ((((d.text.take d.cur).drop s).reverse).take k).count ch =
        (interior d.text (d.cur - 1 - k) d.cur).count ch := by
    intro s k hk ch
    rw [← List.count_reverse]
    congr 1
    unfold interior
    rw [List.take_reverse, List.reverse_reverse, hXlen, List.drop_drop, List.drop_take]
    have a : s + (d.cur - s - k) = d.cur - k := by omega
    have b : d.cur - 1 - k + 1 = d.cur - k := by omega
    have c : d.cur - (d.cur - 1 - k) - 1 = k := by omega
    have c' : d.cur - (d.cur - k) = k := by omega
    rw [a, b, c, c']
  -- from "the stack stays ≥ 1 on the first N elements" to the claim for a position p
  have fin : ∀ (s N : Nat), N ≤ d.cur - s →
      (∀ k, k < N → (1 : Int) ≤ 1 + ((((d.text.take d.cur).drop s).reverse).take (k + 1)).count r -
          ((((d.text.take d.cur).drop s).reverse).take (k + 1)).count l) →
      ∀ p : Nat, d.cur - N ≤ p → p < d.cur → d.text[p]? = some l →
        (interior d.text p d.cur).count l ≠ (interior d.text p d.cur).count r := by
    intro s N hN hd p hp1 hp2 hpl
    have hk : d.cur - 1 - p < N := by omega
    have := no_balance_of_depth r l hne' _ N hd (d.cur - 1 - p) hk
      (by rw [hget s _ (by omega)]; have : d.cur - 1 - (d.cur - 1 - p) = p := by omega
          rw [this]; exact hpl)
    rw [hseg s _ (by omega), hseg s _ (by omega)] at this
    have e2 : d.cur - 1 - (d.cur - 1 - p) = p := by omega
    rw [e2] at this
    exact fun e => this e.symm
  constructor
  · intro m h p hp1 hp2 hpl
    simp only [enclosingLeft] at h
    split at h
    · cases h; omega
    · obtain ⟨j, hj, rfl⟩ := Option.map_eq_some_iff.mp h
      generalize (startLimit startPos).toNat = s at hj
      obtain ⟨n, hn0, hn, _, hmin⟩ := walk_spec r l hne' 1 (by omega) 0 _ j hj
      have hjn : j = n := by omega
      subst hjn
      have hjX : j < d.cur - s := by
        rcases Nat.lt_or_ge j (d.cur - s) with h | h
        · exact h
        · rw [List.getElem?_eq_none (by simp; omega)] at hn; cases hn
      exact fin s j (by omega) hmin p (by omega) hp2 hpl
  · intro h
    simp only [enclosingLeft] at h
    split at h
    · cases h
    · rename_i hcc
      rw [currentChar_eq] at hcc
      refine ⟨hcc, ?_⟩
      intro p hp1 hp2 hpl
      have hw : walk r l 1 0 ((d.text.take d.cur).drop (startLimit startPos).toNat).reverse = none := by
        cases hh : walk r l 1 0 ((d.text.take d.cur).drop (startLimit startPos).toNat).reverse with
        | none => rfl
        | some v => rw [hh] at h; cases h
      generalize he : (startLimit startPos).toNat = s at hw
      have hd := walk_none r l hne' 1 (by omega) 0 _ hw
      rw [List.length_reverse, hXlen] at hd
      exact fin s (d.cur - s) (Nat.le_refl _) hd p (by omega) hp2 hpl
example : enclosingLeft ⟨['(', '(', '(', ')', ')'], 4⟩ '(' ')' none = some (-3) ∧
    enclosingLeft ⟨['(', ')', 'a'], 2⟩ '(' ')' none = none := by decide

/-- `find_matching_bracket_position` dispatches on the character under the cursor: an opening
    bracket looks right for its partner, a closing bracket looks left, anything else gives 0 -/
theorem matchingBracket_dispatch (d : Doc) (startPos endPos : Option Int) :
    (∀ p ∈ bracketPairs,
      (currentChar d = some p.1 →
        matchingBracket d startPos endPos = (enclosingRight d p.1 p.2 endPos).getD 0) ∧
      (currentChar d = some p.2 →
        matchingBracket d startPos endPos = (enclosingLeft d p.1 p.2 startPos).getD 0)) ∧
    ((∀ p ∈ bracketPairs, currentChar d ≠ some p.1 ∧ currentChar d ≠ some p.2) →
      matchingBracket d startPos endPos = 0) := by
  constructor
  · intro p hp
    simp only [bracketPairs, List.mem_cons, List.not_mem_nil, or_false] at hp
    rcases hp with rfl | rfl | rfl | rfl <;> constructor <;> intro h <;>
      simp [matchingBracket, matchingGo, bracketPairs, h]
  · intro h
    have h1 := h ('(', ')') (by decide)
    have h2 := h ('[', ']') (by decide)
    have h3 := h ('{', '}') (by decide)
    have h4 := h ('<', '>') (by decide)
    simp [matchingBracket, matchingGo, bracketPairs, h1.1, h1.2, h2.1, h2.2, h3.1, h3.2, h4.1, h4.2]

/-- **`find_matching_bracket_position` goes to the partner that balances**: from an opening bracket
    a non-zero result is the first closing bracket to the right whose interior is balanced, and the
    result is 0 only when no closing bracket before `end_pos` balances; symmetrically from a closing
    bracket. -/
theorem matchingBracket_first (d : Doc) (hc : d.cur ≤ d.text.length) (startPos endPos : Option Int) :
    ∀ p ∈ bracketPairs,
      (d.text[d.cur]? = some p.1 →
        ∀ q : Nat, d.cur < q → d.text[q]? = some p.2 →
          ((q : Int) < d.cur + matchingBracket d startPos endPos ∨
           (matchingBracket d startPos endPos = 0 ∧ (q : Int) < endLimit d.text.length endPos)) →
          (interior d.text d.cur q).count p.1 ≠ (interior d.text d.cur q).count p.2) ∧
      (d.text[d.cur]? = some p.2 →
        ∀ q : Nat, q < d.cur → d.text[q]? = some p.1 →
          ((d.cur : Int) + matchingBracket d startPos endPos < q ∨
           (matchingBracket d startPos endPos = 0 ∧ startLimit startPos ≤ q)) →
          (interior d.text q d.cur).count p.1 ≠ (interior d.text q d.cur).count p.2) := by
  intro p hp
  obtain ⟨hd1, hd2⟩ := (matchingBracket_dispatch d startPos endPos).1 p hp
  have hpne := bracketPairs_ne p hp
  constructor
  · intro hcur q hq1 hq2 hq3
    rw [← currentChar_eq] at hcur
    rw [hd1 hcur] at hq3
    obtain ⟨f1, f2⟩ := enclosingRight_first d p.1 p.2 hpne endPos
    cases he : enclosingRight d p.1 p.2 endPos with
    | none =>
      rw [he] at hq3
      simp only [Option.getD_none] at hq3
      rcases hq3 with h | ⟨_, h⟩
      · omega
      · exact (f2 he).2 q hq1 h hq2
    | some m =>
      rw [he] at hq3
      simp only [Option.getD_some] at hq3
      rcases hq3 with h | ⟨h0, _⟩
      · exact f1 m he q hq1 h hq2
      · -- `some 0` would need the closing bracket under the cursor
        subst h0
        simp only [enclosingRight] at he
        split at he
        · rename_i hcc; rw [hcur] at hcc; exact absurd (Option.some.inj hcc) hpne
        · obtain ⟨j, _, hj⟩ := Option.map_eq_some_iff.mp he; omega
  · intro hcur q hq1 hq2 hq3
    rw [← currentChar_eq] at hcur
    rw [hd2 hcur] at hq3
    obtain ⟨f1, f2⟩ := enclosingLeft_first d hc p.1 p.2 hpne startPos
    cases he : enclosingLeft d p.1 p.2 startPos with
    | none =>
      rw [he] at hq3
      simp only [Option.getD_none] at hq3
      rcases hq3 with h | ⟨_, h⟩
      · omega
      · exact (f2 he).2 q h hq1 hq2
    | some m =>
      rw [he] at hq3
      simp only [Option.getD_some] at hq3
      rcases hq3 with h | ⟨h0, _⟩
      · exact f1 m he q h hq1 hq2
      · subst h0
        simp only [enclosingLeft] at he
        split at he
        · rename_i hcc; rw [hcur] at hcc; exact absurd (Option.some.inj hcc).symm hpne
        · obtain ⟨j, _, hj⟩ := Option.map_eq_some_iff.mp he; omega
example : matchingBracket ⟨['(', '(', ')', ')', ')'], 0⟩ none none = 3 ∧
    matchingBracket ⟨['(', '(', ')'], 0⟩ none none = 0 := by decide
end Ptk.C02
