/-
  Cross-model agreement, Output side, pair (2), part 2: the loops of `_output_screen_diff`
  (src/prompt_toolkit/renderer.py) and the whole function, C06 (Model/C06.lean) vs C10
  (Model/C10Diff.lean), on top of the translation and the helper theorems of `AgreeOutDiff`.

  All statements are in accumulator form: `Steps sty code s s' o` = "the C10 state `s'` is the C10 state
  `s` plus exactly the calls of the C06 result `o` (in the common vocabulary `OCall`), at `o`'s position
  and last style".  `diff_agree` is the closed form for the whole function.
-/
import Ptk.Props.AgreeOutDiff
namespace Ptk.AgreeOut.Diff
open Ptk.Py

variable {sty : Nat → Text} {code : C06.Attrs → Nat}

theorem Steps.setPos {s s' : C10.DS} {o : C06.Out} (h : Steps sty code s s' o) (x y : Nat) :
    Steps sty code s (s'.setPos x y) ⟨o.cmds, ⟨x, y⟩, o.last⟩ :=
  ⟨h.tr, rfl, rfl, h.last⟩

theorem Steps.emit {s s' : C10.DS} {o : C06.Out} (h : Steps sty code s s' o) (ev : C10.Ev) (c : C06.Cmd)
    (hc : evTo ev = cmdTo code c) : Steps sty code s (s'.emit ev) ⟨o.cmds ++ [c], o.pos, o.last⟩ :=
  ⟨by simp [h.tr, hc], h.x, h.y, h.last⟩

theorem Steps.congr {s s' : C10.DS} {o o' : C06.Out} (h : Steps sty code s s' o) (e : o = o') :
    Steps sty code s s' o' := e ▸ h

/-- `if c in zero_width_escapes_row: write_raw(zero_width_escapes_row[c])` -/
theorem zwe_agree (z10 : C10.Zwe) (z6 : List (Nat × Nat × Text)) (y c : Nat)
    (hz : C10.zweFind? z10 ((y : Int), (c : Int)) = (C06.zweAt z6 y c).map toN)
    (s : C10.DS) (pos : C06.Point) (last : Option Nat) (h : StRel sty s pos last) :
    Steps sty code s
      (match C10.zweFind? z10 ((y : Int), (c : Int)) with
        | some t => s.emit (.raw t)
        | none => s)
      ⟨C06.zweCmds z6 y c, pos, last⟩ := by
  rw [hz]; unfold C06.zweCmds
  cases C06.zweAt z6 y c with
  | none => exact Steps.refl sty code h
  | some t => exact (Steps.refl sty code h).emit _ _ rfl

/-- the `if new_char.char != old_char.char or new_char.style != old_char.style` test -/
theorem differs_agree (ok : TrOk sty code) (a b : C06.Cell) :
    (decide ((cellTo sty a).char ≠ (cellTo sty b).char) || decide ((cellTo sty a).style ≠ (cellTo sty b).style)) = true
      ↔ (a.txt ≠ b.txt ∨ a.style ≠ b.style) := by
  have h1 : toN a.txt = toN b.txt ↔ a.txt = b.txt := toN_inj
  have h2 : sty a.style = sty b.style ↔ a.style = b.style := ⟨ok.styInj _ _, fun h => by rw [h]⟩
  simp [cellTo, h1, h2]

/-- the body of the `if`: `move_cursor`, zero-width escape, `output_char`, advance -/
theorem drawCell_agree (ok : TrOk sty code) (e : C06.Env) (cfg : C10.DiffCfg) (hc : CfgRel sty code e cfg)
    (s6 : C06.Screen) (s10 : C10.Screen) (y c : Nat)
    (hz : C10.zweFind? s10.zwe ((y : Int), (c : Int)) = (C06.zweAt s6.zwe y c).map toN)
    (nc : C06.Cell) (cw : Nat) (s : C10.DS) (pos : C06.Point) (last : Option Nat)
    (h : StRel sty s pos last) :
    Steps sty code s (C10.drawCell cfg s10 y c (cellTo sty nc) cw s)
      ⟨(C06.moveCursor e.w pos last ⟨c, y⟩).1 ++ (C06.zweCmds s6.zwe y c ++
          (C06.outputChar e (C06.moveCursor e.w pos last ⟨c, y⟩).2 nc).1),
       ⟨c + cw, y⟩, (C06.outputChar e (C06.moveCursor e.w pos last ⟨c, y⟩).2 nc).2⟩ := by
  unfold C10.drawCell
  have h1 := moveCursor_agree sty code cfg.width s pos last h c y
  rw [hc.hw] at h1
  have h2 := zwe_agree (sty := sty) (code := code) s10.zwe s6.zwe y c hz _ _ _ h1.rel
  rw [hz] at h2 ⊢
  simp only [hc.hw]
  cases hq : C06.zweAt s6.zwe y c with
  | none =>
    rw [hq] at h2
    simp only [Option.map_none] at h2 ⊢
    have h3 := outputChar_agree ok e cfg.attrsOf hc.hA _ _ _ h2.rel nc
    have h123 := (h1.trans sty code h2).trans sty code h3
    refine ⟨?_, ?_, ?_, ?_⟩
    · simpa using h123.tr
    · simp [C10.DS.setPos, h3.x]
    · simp [C10.DS.setPos, h3.y]
    · simpa [C10.DS.setPos] using h123.last
  | some t =>
    rw [hq] at h2
    simp only [Option.map_some] at h2 ⊢
    have h3 := outputChar_agree ok e cfg.attrsOf hc.hA _ _ _ h2.rel nc
    have h123 := (h1.trans sty code h2).trans sty code h3
    refine ⟨?_, ?_, ?_, ?_⟩
    · simpa using h123.tr
    · simp [C10.DS.setPos, h3.x]
    · simp [C10.DS.setPos, h3.y]
    · simpa [C10.DS.setPos] using h123.last


/-- the cells and zero-width escapes of row `y` agree (what the column loop reads) -/
structure RowRel (sty : Nat → Text) (s6 : C06.Screen) (s10 : C10.Screen) (y : Nat) : Prop where
  cells : ∀ x : Nat, C10.bufGet s10.buf s10.dflt ((y : Int), (x : Int)) = cellTo sty (C06.cellAt (s6.row y) x)
  zwe : ∀ x : Nat, C10.zweFind? s10.zwe ((y : Int), (x : Int)) = (C06.zweAt s6.zwe y x).map toN

theorem ScreenRel.row {hasStyle rawOf} {s6 : C06.Screen} {s10 : C10.Screen}
    (h : ScreenRel sty hasStyle rawOf s6 s10) (y : Nat) : RowRel sty s6 s10 y :=
  ⟨h.cells y, h.zwe y⟩

/-- `renderer.py::_output_screen_diff`, the `while c <= new_max_line_len` loop:
    `C10.colLoop` (bound `c ≤ newMax : Int`) vs `C06.colLoop` (bound `c < n : Nat`, `n = newMax + 1`). -/
theorem colLoop_agree (ok : TrOk sty code) (e : C06.Env) (cfg : C10.DiffCfg) (hc : CfgRel sty code e cfg)
    (s6 prev6 : C06.Screen) (s10 prev10 : C10.Screen) (y : Nat)
    (hs : RowRel sty s6 s10 y) (hp : RowRel sty prev6 prev10 y)
    (newMax : Int) (n : Nat) (hn : newMax + 1 = (n : Int)) :
    ∀ (fuel c : Nat) (s : C10.DS) (pos : C06.Point) (last : Option Nat), StRel sty s pos last →
      Steps sty code s (C10.colLoop cfg s10 prev10 y newMax fuel c s)
        (C06.colLoop e s6 y (s6.row y) (prev6.row y) n fuel c pos last) := by
  intro fuel
  induction fuel with
  | zero => intro c s pos last h; exact Steps.refl sty code h
  | succ fuel ih =>
    intro c s pos last h
    unfold C10.colLoop C06.colLoop
    by_cases hcn : c < n
    · have hcm : (c : Int) ≤ newMax := by omega
      rw [if_pos hcm, if_pos hcn]
      simp only [hs.cells, hp.cells]
      have hw : (cellTo sty (C06.cellAt (s6.row y) c)).width = (C06.cellAt (s6.row y) c).width := rfl
      rw [hw]
      by_cases hd : (C06.cellAt (s6.row y) c).txt ≠ (C06.cellAt (prev6.row y) c).txt ∨
          (C06.cellAt (s6.row y) c).style ≠ (C06.cellAt (prev6.row y) c).style
      · rw [if_pos ((differs_agree ok _ _).mpr hd), if_pos hd]
        have h1 := drawCell_agree ok e cfg hc s6 s10 y c (hs.zwe c) (C06.cellAt (s6.row y) c)
          (if (C06.cellAt (s6.row y) c).width = 0 then 1 else (C06.cellAt (s6.row y) c).width) s pos last h
        have h2 := ih (c + if (C06.cellAt (s6.row y) c).width = 0 then 1 else (C06.cellAt (s6.row y) c).width)
          _ _ _ h1.rel
        refine (h1.trans sty code h2).congr ?_
        simp
      · rw [if_neg (mt (differs_agree ok _ _).mp hd), if_neg hd]
        exact ih _ _ _ _ h
    · have hcm : ¬ (c : Int) ≤ newMax := by omega
      rw [if_neg hcm, if_neg hcn]
      exact Steps.refl sty code h


/-- `min(width - 1, get_max_column_index(row))` (an `Int` in C10) and `C06.lineLen` (`+ 1`, a `Nat`) -/
theorem lineLen_agree {e : C06.Env} {cfg : C10.DiffCfg} (hc : CfgRel sty code e cfg)
    {s6 : C06.Screen} {s10 : C10.Screen} (hs : ScreenRel sty cfg.hasStyle e.rawOf s6 s10) (y : Nat) :
    min ((cfg.width : Int) - 1) (C10.maxColumnIndex cfg.hasStyle s10.buf s10.dflt (y : Int)) + 1 =
      ((C06.lineLen e (s6.row y) : Nat) : Int) := by
  rw [hs.maxCol, hc.hw]
  unfold C06.lineLen
  omega

/-- `renderer.py::_output_screen_diff`, body of `for y in range(row_count)`:
    `C10.rowStep` vs `C06.rowStep`. -/
theorem rowStep_agree (ok : TrOk sty code) (e : C06.Env) (cfg : C10.DiffCfg) (hc : CfgRel sty code e cfg)
    (s6 prev6 : C06.Screen) (s10 prev10 : C10.Screen)
    (hs : ScreenRel sty cfg.hasStyle e.rawOf s6 s10) (hp : ScreenRel sty cfg.hasStyle e.rawOf prev6 prev10)
    (y : Nat) (s : C10.DS) (pos : C06.Point) (last : Option Nat) (h : StRel sty s pos last) :
    Steps sty code s (C10.rowStep cfg s10 prev10 s y) (C06.rowStep e s6 prev6 y pos last) := by
  unfold C10.rowStep C06.rowStep
  dsimp only
  have hn := lineLen_agree (code := code) hc hs y
  have hpn := lineLen_agree (code := code) hc hp y
  generalize min ((cfg.width : Int) - 1) (C10.maxColumnIndex cfg.hasStyle s10.buf s10.dflt (y : Int)) = newMax at hn ⊢
  generalize min ((cfg.width : Int) - 1) (C10.maxColumnIndex cfg.hasStyle prev10.buf prev10.dflt (y : Int)) = prevMax at hpn ⊢
  generalize C06.lineLen e (s6.row y) = n at hn ⊢
  generalize C06.lineLen e (prev6.row y) = pn at hpn ⊢
  have hf : (newMax + 1).toNat = n := by omega
  simp only [hf]
  have h1 := colLoop_agree ok e cfg hc s6 prev6 s10 prev10 y (hs.row y) (hp.row y) newMax n hn n 0 s pos last h
  by_cases hlt : n < pn
  · have hlt' : newMax < prevMax := by omega
    rw [if_pos hlt', if_pos hlt]
    have h2 := moveCursor_agree sty code cfg.width _ _ _ h1.rel n y
    rw [hc.hw] at h2
    have h3 := resetAttributes_agree sty code (C10.moveCursor e.w (C10.colLoop cfg s10 prev10 y newMax n 0 s) n y)
    have h4 := ((h1.trans sty code h2).trans sty code h3).emit .eraseEol .eraseEol rfl
    rw [hc.hw]
    refine h4.congr ?_
    simp [h2.x, h2.y]
  · have hlt' : ¬ newMax < prevMax := by omega
    rw [if_neg hlt', if_neg hlt]
    exact h1


/-- `renderer.py::_output_screen_diff`, `for y in range(row_count)` from row `y0` on:
    `foldl` over `List.range' y0 k` (C10) vs the recursion `C06.rowLoop`. -/
theorem rowLoop_agree' (ok : TrOk sty code) (e : C06.Env) (cfg : C10.DiffCfg) (hc : CfgRel sty code e cfg)
    (s6 prev6 : C06.Screen) (s10 prev10 : C10.Screen)
    (hs : ScreenRel sty cfg.hasStyle e.rawOf s6 s10) (hp : ScreenRel sty cfg.hasStyle e.rawOf prev6 prev10) :
    ∀ (k y0 : Nat) (s : C10.DS) (pos : C06.Point) (last : Option Nat), StRel sty s pos last →
      Steps sty code s ((List.range' y0 k).foldl (C10.rowStep cfg s10 prev10) s)
        (C06.rowLoop e s6 prev6 k y0 pos last) := by
  intro k
  induction k with
  | zero => intro y0 s pos last h; exact Steps.refl sty code h
  | succ k ih =>
    intro y0 s pos last h
    rw [List.range'_succ, List.foldl_cons]
    unfold C06.rowLoop
    have h1 := rowStep_agree ok e cfg hc s6 prev6 s10 prev10 hs hp y0 s pos last h
    have h2 := ih (y0 + 1) _ _ _ h1.rel
    exact h1.trans sty code h2

/-- `renderer.py::_output_screen_diff`, the row loop: `C10.diffRows` vs `C06.rowLoop … rowCount 0`. -/
theorem diffRows_agree (ok : TrOk sty code) (e : C06.Env) (cfg : C10.DiffCfg) (hc : CfgRel sty code e cfg)
    (s6 prev6 : C06.Screen) (s10 prev10 : C10.Screen)
    (hs : ScreenRel sty cfg.hasStyle e.rawOf s6 s10) (hp : ScreenRel sty cfg.hasStyle e.rawOf prev6 prev10)
    (s : C10.DS) (pos : C06.Point) (last : Option Nat) (h : StRel sty s pos last) :
    Steps sty code s (C10.diffRows cfg s10 prev10 s)
      (C06.rowLoop e s6 prev6 (min (max s6.height prev6.height) e.h) 0 pos last) := by
  unfold C10.diffRows
  rw [List.range_eq_range', hs.height, hp.height, hc.hh]
  exact rowLoop_agree' ok e cfg hc s6 prev6 s10 prev10 hs hp _ 0 s pos last h

@[simp] theorem trace_resetAttributes (s : C10.DS) :
    trace (C10.resetAttributes s) = trace s ++ [OCall.resetAttrs] := by
  simp [C10.resetAttributes, evTo]
@[simp] theorem resetAttributes_x (s : C10.DS) : (C10.resetAttributes s).x = s.x := rfl
@[simp] theorem resetAttributes_y (s : C10.DS) : (C10.resetAttributes s).y = s.y := rfl
@[simp] theorem resetAttributes_last (s : C10.DS) : (C10.resetAttributes s).last = none := rfl
@[simp] theorem emit_x (s : C10.DS) (e : C10.Ev) : (s.emit e).x = s.x := rfl
@[simp] theorem emit_y (s : C10.DS) (e : C10.Ev) : (s.emit e).y = s.y := rfl
@[simp] theorem emit_last (s : C10.DS) (e : C10.Ev) : (s.emit e).last = s.last := rfl

/-- translation of the optional previous screen -/
def PrevRel (sty : Nat → Text) (hasStyle : Text → Bool) (rawOf : Nat → C06.Attrs) :
    Option C06.Screen → Option C10.Screen → Prop
  | none, none => True
  | some a, some b => ScreenRel sty hasStyle rawOf a b
  | _, _ => False

/-- `renderer.py::_output_screen_diff`, everything before the row loop: `C10.diffHead` vs `C06.preamble`
    (calls, position, last style and the screen diffed against). -/
theorem diffHead_agree (e : C06.Env) (cfg : C10.DiffCfg) (hc : CfgRel sty code e cfg)
    (prev6 : Option C06.Screen) (prev10 : Option C10.Screen)
    (hp : PrevRel sty cfg.hasStyle e.rawOf prev6 prev10)
    (s : C10.DS) (pos : C06.Point) (last : Option Nat) (h : StRel sty s pos last)
    (isDone : Bool) (prevWidth : Nat) :
    Steps sty code s (C10.diffHead cfg (cellTo sty C06.Cell.dflt) prev10 s isDone e.fullScreen prevWidth).1
        (C06.preamble e pos prev6 last isDone prevWidth).1 ∧
      ScreenRel sty cfg.hasStyle e.rawOf (C06.preamble e pos prev6 last isDone prevWidth).2
        (C10.diffHead cfg (cellTo sty C06.Cell.dflt) prev10 s isDone e.fullScreen prevWidth).2 := by
  unfold C10.diffHead C06.preamble
  dsimp only
  rw [hc.hw]
  cases prev6 with
  | none =>
    cases prev10 with
    | some b => exact absurd hp (by simp [PrevRel])
    | none =>
      have hrel : StRel sty ((C10.resetAttributes (s.emit .hideCursor)).emit .disableWrap) pos none :=
        ⟨h.x, h.y, rfl⟩
      have hm := moveCursor_agree sty code e.w _ pos none hrel 0 0
      simp only [Option.isNone_none, Bool.true_or, Bool.or_true, if_true]
      refine ⟨⟨?_, ?_, ?_, ?_⟩, screenRel_empty sty _ _⟩
      · simp [hm.tr, evTo, cmdTo]
      · simp [hm.x]
      · simp [hm.y]
      · simp
  | some a =>
    cases prev10 with
    | none => exact absurd hp (by simp [PrevRel])
    | some b =>
      have hp' : ScreenRel sty cfg.hasStyle e.rawOf a b := hp
      have key : ∀ (s2 : C10.DS) (c2 : List C06.Cmd), Steps sty code s s2 ⟨[.hideCursor] ++ c2, pos, last⟩ →
          Steps sty code s
            (if (isDone || false || decide (prevWidth ≠ e.w)) = true then
              ((C10.resetAttributes (C10.moveCursor e.w s2 0 0)).emit .eraseDown,
                C10.emptyScreen (cellTo sty C06.Cell.dflt))
             else (s2, b)).1
            (if (isDone || false || prevWidth != e.w) = true then
              ((⟨[.hideCursor] ++ ([] ++ (c2 ++ ((C06.moveCursor e.w pos last ⟨0, 0⟩).1 ++ [.resetAttrs, .eraseDown]))),
                  ⟨0, 0⟩, none⟩ : C06.Out), C06.Screen.empty)
             else (⟨[.hideCursor] ++ ([] ++ c2), pos, last⟩, a)).1 ∧
          ScreenRel sty cfg.hasStyle e.rawOf
            (if (isDone || false || prevWidth != e.w) = true then
              ((⟨[.hideCursor] ++ ([] ++ (c2 ++ ((C06.moveCursor e.w pos last ⟨0, 0⟩).1 ++ [.resetAttrs, .eraseDown]))),
                  ⟨0, 0⟩, none⟩ : C06.Out), C06.Screen.empty)
             else (⟨[.hideCursor] ++ ([] ++ c2), pos, last⟩, a)).2
            (if (isDone || false || decide (prevWidth ≠ e.w)) = true then
              ((C10.resetAttributes (C10.moveCursor e.w s2 0 0)).emit .eraseDown,
                C10.emptyScreen (cellTo sty C06.Cell.dflt))
             else (s2, b)).2 := by
        intro s2 c2 h2
        have hm := moveCursor_agree sty code e.w s2 pos last h2.rel 0 0
        by_cases hredraw : (isDone || false || decide (prevWidth ≠ e.w)) = true
        · have hredraw' : (isDone || false || prevWidth != e.w) = true := by
            simpa using hredraw
          rw [if_pos hredraw, if_pos hredraw']
          refine ⟨⟨?_, ?_, ?_, ?_⟩, screenRel_empty sty _ _⟩
          · simp [hm.tr, h2.tr, evTo, cmdTo]
          · simp [hm.x]
          · simp [hm.y]
          · simp
        · have hredraw' : ¬ (isDone || false || prevWidth != e.w) = true := by
            simpa using hredraw
          rw [if_neg hredraw, if_neg hredraw']
          exact ⟨h2.congr (by simp), hp'⟩
      simp only [Option.isNone_some, if_false, Option.getD_some, Bool.false_eq_true]
      cases e.fullScreen
      · exact key _ _ (((Steps.refl sty code h).emit .hideCursor .hideCursor rfl).emit .disableWrap .disableAutowrap rfl)
      · exact key _ _ (((Steps.refl sty code h).emit .hideCursor .hideCursor rfl).congr (by simp))


/-- `renderer.py::_output_screen_diff`, everything after the row loop: `C10.diffTail` vs `C06.finish`. -/
theorem diffTail_agree (e : C06.Env) (cfg : C10.DiffCfg) (hc : CfgRel sty code e cfg)
    (s6 prev6 : C06.Screen) (s10 prev10 : C10.Screen)
    (hs : ScreenRel sty cfg.hasStyle e.rawOf s6 s10) (hph : prev10.height = prev6.height)
    (s : C10.DS) (pos : C06.Point) (last : Option Nat) (h : StRel sty s pos last) (isDone : Bool) :
    Steps sty code s (C10.diffTail cfg s10 prev10 s isDone e.fullScreen)
      (C06.finish e s6 prev6 isDone pos last) := by
  unfold C10.diffTail C06.finish
  dsimp only
  rw [hs.height, hc.hh, hc.hw, hph, hs.cursor, hs.showCursor]
  generalize min s6.height e.h = curH
  -- first move: reserve vertical space
  have h1 : Steps sty code s
      (if curH > prev6.height then C10.moveCursor e.w s 0 (curH - 1) else s)
      ⟨(if prev6.height < curH then
          ((C06.moveCursor e.w pos last ⟨0, curH - 1⟩).1, (C06.moveCursor e.w pos last ⟨0, curH - 1⟩).2,
            (⟨0, curH - 1⟩ : C06.Point))
        else ([], last, pos)).1,
       (if prev6.height < curH then
          ((C06.moveCursor e.w pos last ⟨0, curH - 1⟩).1, (C06.moveCursor e.w pos last ⟨0, curH - 1⟩).2,
            (⟨0, curH - 1⟩ : C06.Point))
        else ([], last, pos)).2.2,
       (if prev6.height < curH then
          ((C06.moveCursor e.w pos last ⟨0, curH - 1⟩).1, (C06.moveCursor e.w pos last ⟨0, curH - 1⟩).2,
            (⟨0, curH - 1⟩ : C06.Point))
        else ([], last, pos)).2.1⟩ := by
    by_cases hgt : prev6.height < curH
    · rw [if_pos hgt, if_pos hgt]
      exact moveCursor_agree sty code e.w s pos last h 0 (curH - 1)
    · rw [if_neg hgt, if_neg hgt]
      exact Steps.refl sty code h
  generalize (if curH > prev6.height then C10.moveCursor e.w s 0 (curH - 1) else s) = s1 at h1 ⊢
  generalize (if prev6.height < curH then
          ((C06.moveCursor e.w pos last ⟨0, curH - 1⟩).1, (C06.moveCursor e.w pos last ⟨0, curH - 1⟩).2,
            (⟨0, curH - 1⟩ : C06.Point))
        else ([], last, pos)) = m1 at h1 ⊢
  have h2 := moveCursor_agree sty code e.w s1 m1.2.2 m1.2.1 h1.rel
  cases isDone
  · have h2' := h2 s6.cursor.x s6.cursor.y
    have h12 := h1.trans sty code h2'
    refine ⟨?_, ?_, ?_, ?_⟩
    · cases e.fullScreen <;> cases s6.showCursor <;> simp [h12.tr, evTo, cmdTo]
    · cases e.fullScreen <;> cases s6.showCursor <;> simp [h2'.x]
    · cases e.fullScreen <;> cases s6.showCursor <;> simp [h2'.y]
    · cases e.fullScreen <;> cases s6.showCursor <;> simp
  · have h2' := h2 0 curH
    have h12 := h1.trans sty code h2'
    refine ⟨?_, ?_, ?_, ?_⟩
    · cases e.fullScreen <;> cases s6.showCursor <;> simp [h12.tr, evTo, cmdTo]
    · cases e.fullScreen <;> cases s6.showCursor <;> simp [h2'.x]
    · cases e.fullScreen <;> cases s6.showCursor <;> simp [h2'.y]
    · cases e.fullScreen <;> cases s6.showCursor <;> simp


/-- `renderer.py::_output_screen_diff` in accumulator form: `C10.diff` started in ANY state `s0`
    carrying `(current_pos, last_style)` adds exactly the calls of `C06.diff`. -/
theorem diff_steps (ok : TrOk sty code) (e : C06.Env) (cfg : C10.DiffCfg) (hc : CfgRel sty code e cfg)
    (s6 : C06.Screen) (s10 : C10.Screen) (hs : ScreenRel sty cfg.hasStyle e.rawOf s6 s10)
    (prev6 : Option C06.Screen) (prev10 : Option C10.Screen)
    (hp : PrevRel sty cfg.hasStyle e.rawOf prev6 prev10)
    (pos : C06.Point) (last : Option Nat) (isDone : Bool) (prevWidth : Nat) :
    Steps sty code ⟨pos.x, pos.y, last.map sty, []⟩
      (C10.diff cfg (cellTo sty C06.Cell.dflt) s10 prev10 pos.x pos.y (last.map sty) isDone e.fullScreen prevWidth)
      (C06.diff e s6 pos prev6 last isDone prevWidth) := by
  unfold C10.diff C06.diff
  dsimp only
  have h0 : StRel sty ⟨pos.x, pos.y, last.map sty, []⟩ pos last := ⟨rfl, rfl, rfl⟩
  obtain ⟨h1, hp1⟩ := diffHead_agree (code := code) e cfg hc prev6 prev10 hp _ pos last h0 isDone prevWidth
  have h2 := diffRows_agree ok e cfg hc s6 _ s10 _ hs hp1 _ _ _ h1.rel
  have h3 := diffTail_agree (code := code) e cfg hc s6 _ s10 _ hs hp1.height _ _ _ h2.rel isDone
  exact (h1.trans sty code (h2.trans sty code h3))

/-- `renderer.py::_output_screen_diff`: `C10.diff` vs `C06.diff` — the same calls on the output object in
    the same order, the same returned `current_pos` and the same returned `last_style`, for every pair of
    `ScreenRel`-related screens (the previous screen optional), every position, last style, `is_done`,
    `full_screen`, size and previous width. -/
theorem diff_agree (ok : TrOk sty code) (e : C06.Env) (cfg : C10.DiffCfg) (hc : CfgRel sty code e cfg)
    (s6 : C06.Screen) (s10 : C10.Screen) (hs : ScreenRel sty cfg.hasStyle e.rawOf s6 s10)
    (prev6 : Option C06.Screen) (prev10 : Option C10.Screen)
    (hp : PrevRel sty cfg.hasStyle e.rawOf prev6 prev10)
    (pos : C06.Point) (last : Option Nat) (isDone : Bool) (prevWidth : Nat) :
    let r10 := C10.diff cfg (cellTo sty C06.Cell.dflt) s10 prev10 pos.x pos.y (last.map sty) isDone
      e.fullScreen prevWidth
    let r6 := C06.diff e s6 pos prev6 last isDone prevWidth
    r10.evs.reverse.map evTo = r6.cmds.map (cmdTo code) ∧
      r10.x = r6.pos.x ∧ r10.y = r6.pos.y ∧ r10.last = r6.last.map sty := by
  have h := diff_steps ok e cfg hc s6 s10 hs prev6 prev10 hp pos last isDone prevWidth
  exact ⟨by simpa [trace] using h.tr, h.x, h.y, h.last⟩

/-- the translated optional previous screen is related -/
theorem prevRel_screenTo (hasStyle : Text → Bool) (rawOf : Nat → C06.Attrs)
    (hH : ∀ n, hasStyle (sty n) = (rawOf n).hasStyle) (prev : Option C06.Screen) :
    PrevRel sty hasStyle rawOf prev (prev.map (screenTo sty)) := by
  cases prev with
  | none => trivial
  | some a => exact screenRel_screenTo sty hasStyle rawOf hH a

/-- `renderer.py::_output_screen_diff`: corollary of `diff_agree` for the concrete translation `screenTo`. -/
theorem diff_agree_screenTo (ok : TrOk sty code) (e : C06.Env) (cfg : C10.DiffCfg) (hc : CfgRel sty code e cfg)
    (s : C06.Screen) (prev : Option C06.Screen)
    (pos : C06.Point) (last : Option Nat) (isDone : Bool) (prevWidth : Nat) :
    let r10 := C10.diff cfg (cellTo sty C06.Cell.dflt) (screenTo sty s) (prev.map (screenTo sty))
      pos.x pos.y (last.map sty) isDone e.fullScreen prevWidth
    let r6 := C06.diff e s pos prev last isDone prevWidth
    r10.evs.reverse.map evTo = r6.cmds.map (cmdTo code) ∧
      r10.x = r6.pos.x ∧ r10.y = r6.pos.y ∧ r10.last = r6.last.map sty :=
  diff_agree ok e cfg hc s (screenTo sty s) (screenRel_screenTo sty _ _ hc.hH s) prev _
    (prevRel_screenTo _ _ hc.hH prev) pos last isDone prevWidth

/-! ### the hypotheses are satisfiable: a concrete instance of the parameters -/

def pairN (a m : Nat) : Nat := 2 ^ a * (2 * m + 1)

theorem pairN_pos (a m : Nat) : 0 < pairN a m := Nat.mul_pos (Nat.pow_pos (by decide)) (by omega)

theorem pairN_inj : ∀ (a b m n : Nat), pairN a m = pairN b n → a = b ∧ m = n := by
  intro a
  induction a with
  | zero =>
    intro b m n h
    cases b with
    | zero => simp [pairN] at h; exact ⟨rfl, by omega⟩
    | succ b =>
      exfalso
      simp only [pairN, Nat.pow_zero, Nat.one_mul, Nat.pow_succ] at h
      generalize 2 ^ b = k at h
      have : k * 2 * (2 * n + 1) = 2 * (k * (2 * n + 1)) := by
        rw [Nat.mul_comm k 2, Nat.mul_assoc]
      omega
  | succ a ih =>
    intro b m n h
    cases b with
    | zero =>
      exfalso
      simp only [pairN, Nat.pow_zero, Nat.one_mul, Nat.pow_succ] at h
      generalize 2 ^ a = k at h
      have : k * 2 * (2 * m + 1) = 2 * (k * (2 * m + 1)) := by
        rw [Nat.mul_comm k 2, Nat.mul_assoc]
      omega
    | succ b =>
      have h' : pairN a m = pairN b n := by
        simp only [pairN, Nat.pow_succ] at h ⊢
        have e1 : 2 ^ a * 2 * (2 * m + 1) = 2 * (2 ^ a * (2 * m + 1)) := by
          rw [Nat.mul_comm (2 ^ a) 2, Nat.mul_assoc]
        have e2 : 2 ^ b * 2 * (2 * n + 1) = 2 * (2 ^ b * (2 * n + 1)) := by
          rw [Nat.mul_comm (2 ^ b) 2, Nat.mul_assoc]
        omega
      obtain ⟨h1, h2⟩ := ih b m n h'
      exact ⟨by rw [h1], h2⟩

def encL : List Nat → Nat
  | [] => 0
  | a :: l => pairN a (encL l)

theorem encL_inj : ∀ (l l' : List Nat), encL l = encL l' → l = l' := by
  intro l
  induction l with
  | nil =>
    intro l' h
    cases l' with
    | nil => rfl
    | cons b t => have := pairN_pos b (encL t); simp only [encL] at h; omega
  | cons a t ih =>
    intro l' h
    cases l' with
    | nil => have := pairN_pos a (encL t); simp only [encL] at h; omega
    | cons b t' =>
      obtain ⟨h1, h2⟩ := pairN_inj _ _ _ _ h
      rw [h1, ih t' h2]

/-- an injective numbering of `Attrs` -/
def codeW (a : C06.Attrs) : Nat :=
  encL [encL (toN a.fg), encL (toN a.bg), a.bold.toNat, a.underline.toNat, a.strike.toNat,
    a.italic.toNat, a.blink.toNat, a.reverse.toNat, a.hidden.toNat]

theorem boolToNat_inj {a b : Bool} (h : a.toNat = b.toNat) : a = b := by
  cases a <;> cases b <;> simp_all

theorem codeW_inj (a b : C06.Attrs) (h : codeW a = codeW b) : a = b := by
  have h' := encL_inj _ _ h
  simp only [List.cons.injEq, and_true] at h'
  obtain ⟨h1, h2, h3, h4, h5, h6, h7, h8, h9⟩ := h'
  cases a; cases b
  simp only [C06.Attrs.mk.injEq]
  exact ⟨toN_inj.mp (encL_inj _ _ h1), toN_inj.mp (encL_inj _ _ h2), boolToNat_inj h3, boolToNat_inj h4,
    boolToNat_inj h5, boolToNat_inj h6, boolToNat_inj h7, boolToNat_inj h8, boolToNat_inj h9⟩

/-- an injective interning with `0 ↦ ""` -/
def styW (n : Nat) : Text := List.replicate n 'a'

theorem trOk_witness : TrOk styW codeW where
  styInj := by
    intro a b h
    have := congrArg List.length h
    simpa [styW] using this
  sty0 := rfl
  codeInj := codeW_inj

/-- the C10 configuration determined by a C06 environment under `styW` / `codeW` -/
def cfgW (e : C06.Env) : C10.DiffCfg :=
  ⟨fun t => codeW (e.rawOf t.length), fun t => (e.rawOf t.length).hasStyle, e.w, e.h⟩

theorem cfgRel_witness (e : C06.Env) : CfgRel styW codeW e (cfgW e) :=
  ⟨by intro n; simp [cfgW, styW], by intro n; simp [cfgW, styW], rfl, rfl⟩

/-- `renderer.py::_output_screen_diff`: `C10.diff` vs `C06.diff` with every parameter of the translation
    instantiated — no hypothesis left: for EVERY C06 environment, screens, position, last style and flags
    the two models make the same calls and return the same `(current_pos, last_style)`. -/
theorem diff_agree_witness (e : C06.Env) (s : C06.Screen) (prev : Option C06.Screen)
    (pos : C06.Point) (last : Option Nat) (isDone : Bool) (prevWidth : Nat) :
    let r10 := C10.diff (cfgW e) (cellTo styW C06.Cell.dflt) (screenTo styW s) (prev.map (screenTo styW))
      pos.x pos.y (last.map styW) isDone e.fullScreen prevWidth
    let r6 := C06.diff e s pos prev last isDone prevWidth
    r10.evs.reverse.map evTo = r6.cmds.map (cmdTo codeW) ∧
      r10.x = r6.pos.x ∧ r10.y = r6.pos.y ∧ r10.last = r6.last.map styW :=
  diff_agree_screenTo trOk_witness e (cfgW e) (cfgRel_witness e) s prev pos last isDone prevWidth

end Ptk.AgreeOut.Diff
