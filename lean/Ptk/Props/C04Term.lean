/-
  C04 — termination of `process_keys()`.

  `processKeys I n ps` runs at most `n` iterations of `while not_empty():`.  Handlers may feed
  keys, so the real loop need not terminate.  Exact condition proved here: if there is a *feed
  budget* `μ` on worlds such that every handler invocation pays for the keys it adds to the input
  queue out of the budget (`Budget`, relative to a world invariant `G` that everything keeps),
  lookups and macro recording do not refill it, and the application, once done, stays done, then
  the loop exits by itself after at most

        Φ ps = (number of keys in the input queue that are still eligible) + μ ps.w

  iterations (`processKeys_terminates`), and any larger fuel gives the same result
  (`processKeys_fuel_enough`) — "eligible" = all queued keys while the application runs, the
  queued CPR responses once it is done.  Conversely a handler that always feeds its key again
  never lets the loop exit (`refeed_never_terminates`, for every fuel).
-/
import Ptk.Props.C04
namespace Ptk.C04
variable {σ : Type}

def cprCount (q : List KP) : Nat := (q.filter KP.isCpr).length

/-- the keys `process_keys` will still take from this queue -/
def eligible (I : Iface σ) (w : σ) (q : List KP) : Nat := if I.done w then cprCount q else q.length

theorem cprCount_le (q : List KP) : cprCount q ≤ q.length := List.length_filter_le _ _

theorem cprCount_append (a b : List KP) : cprCount (a ++ b) = cprCount a + cprCount b := by
  simp [cprCount, List.filter_append]

/-- **the feed budget**: `μ w` bounds the number of keys handlers will still add to the queue -/
structure Budget (I : Iface σ) (μ : σ → Nat) (G : σ → Prop) : Prop where
  for_G : ∀ w ks, G w → G (I.getFor w ks).1
  for_μ : ∀ w ks, G w → μ (I.getFor w ks).1 ≤ μ w
  for_done : ∀ w ks, G w → I.done (I.getFor w ks).1 = I.done w
  start_G : ∀ w ks, G w → G (I.getStart w ks).1
  start_μ : ∀ w ks, G w → μ (I.getStart w ks).1 ≤ μ w
  start_done : ∀ w ks, G w → I.done (I.getStart w ks).1 = I.done w
  pushE_G : ∀ w s, G w → G (I.pushE w s)
  pushE_μ : ∀ w s, G w → μ (I.pushE w s) ≤ μ w
  pushE_done : ∀ w s, G w → I.done (I.pushE w s) = I.done w
  pushV_G : ∀ w s, G w → G (I.pushV w s)
  pushV_μ : ∀ w s, G w → μ (I.pushV w s) ≤ μ w
  pushV_done : ∀ w s, G w → I.done (I.pushV w s) = I.done w
  call_G : ∀ w q b s p x, G w → G (I.call w q b s p x).1
  /-- a handler pays for every key it adds to the queue (CPR responses included) -/
  call_len : ∀ w q b s p x, G w →
    (I.call w q b s p x).2.1.length + μ (I.call w q b s p x).1 ≤ q.length + μ w
  call_cpr : ∀ w q b s p x, G w →
    cprCount (I.call w q b s p x).2.1 + μ (I.call w q b s p x).1 ≤ cprCount q + μ w
  /-- a finished application stays finished -/
  call_done : ∀ w q b s p x, G w → I.done w = true → I.done (I.call w q b s p x).1 = true

section
variable {I : Iface σ} {μ : σ → Nat} {G : σ → Prop} (hB : Budget I μ G)
include hB

/-- the potential of a state: eligible keys + remaining budget -/
def pot (I : Iface σ) (μ : σ → Nat) (ps : PS σ) : Nat := eligible I ps.w ps.queue + μ ps.w

/-- from a world satisfying `G`: `w'` satisfies `G`, has the same `done` flag and no more budget -/
def Leq (I : Iface σ) (μ : σ → Nat) (G : σ → Prop) (w w' : σ) : Prop :=
  G w → G w' ∧ μ w' ≤ μ w ∧ I.done w' = I.done w

omit hB in
theorem leq_refl (w : σ) : Leq I μ G w w := fun h => ⟨h, Nat.le_refl _, rfl⟩
omit hB in
theorem leq_trans (a b c : σ) (h1 : Leq I μ G a b) (h2 : Leq I μ G b c) : Leq I μ G a c :=
  fun h => ⟨(h2 (h1 h).1).1, Nat.le_trans (h2 (h1 h).1).2.1 (h1 h).2.1,
    (h2 (h1 h).1).2.2.trans (h1 h).2.2⟩

theorem for_leq (w : σ) (ks : List Key) : Leq I μ G w (I.getFor w ks).1 :=
  fun h => ⟨hB.for_G _ _ h, hB.for_μ _ _ h, hB.for_done _ _ h⟩
theorem start_leq (w : σ) (ks : List Key) : Leq I μ G w (I.getStart w ks).1 :=
  fun h => ⟨hB.start_G _ _ h, hB.start_μ _ _ h, hB.start_done _ _ h⟩

theorem scan_leq (buf : List KP) (n : Nat) (w : σ) : Leq I μ G w (scan I buf n w).1 := by
  induction n generalizing w with
  | zero => exact leq_refl w
  | succ n ih =>
    simp only [scan]
    split
    · exact for_leq hB _ _
    · exact leq_trans _ _ _ (for_leq hB _ _) (ih _)

theorem decideOf_leq (ps : PS σ) (flush : Bool) : Leq I μ G ps.w (decideOf I ps flush).1 := by
  have h1 : Leq I μ G ps.w (getMatches I ps.w ps.buffer).1 := for_leq hB _ _
  have h12 : Leq I μ G ps.w (isPrefixOfLonger I (getMatches I ps.w ps.buffer).1 ps.buffer).1 :=
    leq_trans _ _ _ h1 (start_leq hB _ _)
  have s1 := leq_trans _ _ _ h1 (scan_leq hB ps.buffer ps.buffer.length (getMatches I ps.w ps.buffer).1)
  have s2 := leq_trans _ _ _ h12 (scan_leq hB ps.buffer ps.buffer.length
      (isPrefixOfLonger I (getMatches I ps.w ps.buffer).1 ps.buffer).1)
  unfold decideOf
  split
  · exact leq_refl _
  · cases flush with
    | true =>
      simp only [if_true]
      repeat' split
      all_goals first | exact h1 | exact s1
    | false =>
      simp only [Bool.false_eq_true, if_false]
      repeat' split
      all_goals first | exact h12 | exact s2

theorem recordMacro_leq (wasE wasV : Bool) (w : σ) (b : Binding) (seq : List KP) :
    Leq I μ G w (recordMacro I wasE wasV w b seq).1 := by
  have e : ∀ w s, Leq I μ G w (I.pushE w s) :=
    fun w s h => ⟨hB.pushE_G w s h, hB.pushE_μ w s h, hB.pushE_done w s h⟩
  have v : ∀ w s, Leq I μ G w (I.pushV w s) :=
    fun w s h => ⟨hB.pushV_G w s h, hB.pushV_μ w s h, hB.pushV_done w s h⟩
  unfold recordMacro
  split
  · simp only []
    split
    · split
      · exact leq_trans _ _ _ (e _ _) (v _ _)
      · exact e _ _
    · split
      · exact v _ _
      · exact leq_refl _
  · exact leq_refl _

omit hB in
/-- the potential with a given queue -/
theorem pot_of_leq {w w' : σ} (h : Leq I μ G w w') (hg : G w) (q : List KP) :
    eligible I w' q + μ w' ≤ eligible I w q + μ w ∧ G w' := by
  obtain ⟨g, m, d⟩ := h hg
  refine ⟨?_, g⟩
  unfold eligible; rw [d]; omega

/-- a handler invocation does not increase the potential -/
theorem call_pot (w : σ) (q : List KP) (b : Binding) (s p : List KP) (x : EvX) (hg : G w) :
    eligible I (I.call w q b s p x).1 (I.call w q b s p x).2.1 + μ (I.call w q b s p x).1 ≤
      eligible I w q + μ w ∧ G (I.call w q b s p x).1 := by
  have h1 := hB.call_len w q b s p x hg
  have h2 := hB.call_cpr w q b s p x hg
  have h3 := hB.call_done w q b s p x hg
  have hle := cprCount_le (I.call w q b s p x).2.1
  refine ⟨?_, hB.call_G w q b s p x hg⟩
  unfold eligible
  cases hd : I.done w with
  | true => simp [h3 hd]; exact h2
  | false =>
    cases hd' : I.done (I.call w q b s p x).1 with
    | true => simp; omega
    | false => simp; exact h1

theorem callHandler_pot (ps : PS σ) (b : Binding) (seq : List KP) (hg : G ps.w) :
    pot I μ (callHandler I ps b seq).1 ≤ pot I μ ps ∧ G (callHandler I ps b seq).1.w := by
  have hc := call_pot hB ps.w ps.queue b seq ps.prev (eventOf ps b) hg
  have hm := pot_of_leq (recordMacro_leq hB (I.recE ps.w) (I.recV ps.w)
    (I.call ps.w ps.queue b seq ps.prev (eventOf ps b)).1 b seq) hc.2
    (I.call ps.w ps.queue b seq ps.prev (eventOf ps b)).2.1
  unfold pot
  cases h' : (I.call ps.w ps.queue b seq ps.prev (eventOf ps b)).2.2 <;>
    simp only [callHandler, h']
  · exact ⟨by omega, hm.2⟩
  · exact ⟨by omega, hm.2⟩
  · exact ⟨by omega, hc.2⟩

theorem exec_pot (ps : PS σ) (d : Decision) (hg : G ps.w) :
    pot I μ (exec I ps d).1 ≤ pot I μ ps ∧ G (exec I ps d).1.w := by
  cases d with
  | idle => exact ⟨Nat.le_refl _, hg⟩
  | wait => exact ⟨Nat.le_refl _, hg⟩
  | dropOne => exact ⟨Nat.le_refl _, hg⟩
  | fire b n e =>
    have := callHandler_pot hB ps b (ps.buffer.take n) hg
    simp only [exec]
    split
    · exact this
    · exact this

theorem examine_pot (ps : PS σ) (flush : Bool) (hg : G ps.w) :
    pot I μ (examine I ps flush).1 ≤ pot I μ ps ∧ G (examine I ps flush).1.w := by
  have h1 := pot_of_leq (decideOf_leq hB ps flush) hg ps.queue
  have h2 := exec_pot hB { ps with w := (decideOf I ps flush).1 } (decideOf I ps flush).2 h1.2
  exact ⟨Nat.le_trans h2.1 h1.1, h2.2⟩

/-- no CPR response sits in the key buffer (they never enter it) -/
def NoCprBuf (ps : PS σ) : Prop := ∀ k ∈ ps.buffer, k.isCpr = false

omit hB in
theorem exec_nocpr (ps : PS σ) (d : Decision) (h : NoCprBuf ps) : NoCprBuf (exec I ps d).1 := by
  cases d with
  | idle => exact h
  | wait => exact h
  | dropOne => intro k hk; exact h k (List.mem_of_mem_drop hk)
  | fire b n e =>
    have hb := callHandler_buffer I ps b (ps.buffer.take n)
    simp only [exec]
    split
    · intro k hk; rw [hb] at hk; exact h k hk
    · intro k hk; exact h k (List.mem_of_mem_drop hk)

omit hB in
theorem examine_nocpr (ps : PS σ) (flush : Bool) (h : NoCprBuf ps) :
    NoCprBuf (examine I ps flush).1 :=
  exec_nocpr { ps with w := (decideOf I ps flush).1 } _ h

theorem runLoop_pot (n : Nat) (ps : PS σ) (flush : Bool) (h : NoCprBuf ps) (hg : G ps.w) :
    pot I μ (runLoop I n ps flush).1 ≤ pot I μ ps ∧ NoCprBuf (runLoop I n ps flush).1 ∧
    G (runLoop I n ps flush).1.w := by
  induction n generalizing ps flush with
  | zero => exact ⟨Nat.le_refl _, h, hg⟩
  | succ n ih =>
    obtain ⟨he, hge⟩ := examine_pot hB ps flush hg
    have hn := examine_nocpr (I := I) ps flush h
    simp only [runLoop]
    cases hc : (examine I ps flush).2.2 with
    | yield_ => exact ⟨he, hn, hge⟩
    | dead => exact ⟨he, hn, hge⟩
    | retry =>
      simp only []
      split
      · next hq =>
        -- the application is done: the buffer (no CPR in it) goes back to the queue
        have hd : I.done (examine I ps flush).1.w = true := by simp at hq; exact hq.2
        have h0 : cprCount (examine I ps flush).1.buffer = 0 := by
          unfold cprCount
          rw [List.length_eq_zero_iff, List.filter_eq_nil_iff]
          intro k hk; simp [hn k hk]
        refine ⟨?_, fun k hk => by simp at hk, hge⟩
        unfold pot eligible at he ⊢
        simp only [hd, if_true] at he ⊢
        rw [cprCount_append, h0]; omega
      · obtain ⟨i1, i2, i3⟩ := ih (examine I ps flush).1 false hn hge
        exact ⟨Nat.le_trans i1 he, i2, i3⟩

theorem dispatchKey_pot (ps : PS σ) (kp : KP) (h : NoCprBuf ps) (hg : G ps.w) :
    pot I μ (dispatchKey I ps kp).1 ≤ pot I μ ps ∧ NoCprBuf (dispatchKey I ps kp).1 ∧
    G (dispatchKey I ps kp).1.w := by
  unfold dispatchKey
  by_cases hc : kp.isCpr = true
  · simp only [hc, if_true]
    have hgm := pot_of_leq (for_leq hB ps.w (keysOf [kp])) hg ps.queue
    cases hm : (getMatches I ps.w [kp]).2.getLast? with
    | none => simp only [cprResponse, hm]; exact ⟨hgm.1, h, hgm.2⟩
    | some b =>
      have hcall := call_pot hB (getMatches I ps.w [kp]).1 ps.queue b [kp] ps.prev {} hgm.2
      have hgm1 : eligible I (getMatches I ps.w [kp]).1 ps.queue + μ (getMatches I ps.w [kp]).1 ≤
          eligible I ps.w ps.queue + μ ps.w := hgm.1
      cases ho : (I.call (getMatches I ps.w [kp]).1 ps.queue b [kp] ps.prev {}).2.2 <;>
        simp only [cprResponse, hm, ho] <;>
        exact ⟨by unfold pot; simp only []; omega, h, hcall.2⟩
  · simp only [hc]
    cases kp with
    | flush => exact runLoop_pot hB _ ps true h hg
    | key k t =>
      have hb : NoCprBuf { ps with buffer := ps.buffer ++ [.key k t] } := by
        intro x hx
        rcases List.mem_append.mp hx with hx | hx
        · exact h x hx
        · simp at hx; subst hx; simpa using hc
      exact runLoop_pot hB _ { ps with buffer := ps.buffer ++ [.key k t] } false hb hg

omit hB in
theorem takeCpr_count (l : List KP) (k : KP) (q : List KP) (h : takeCpr l = some (k, q)) :
    cprCount q + 1 = cprCount l := by
  obtain ⟨a, b, e1, e2, e3, _⟩ := takeCpr_spec l k q h
  subst e1 e2
  simp [cprCount, List.filter_append, e3]
  omega

/-- **one iteration strictly decreases the potential** (unless a handler raised, which ends the
    loop): the key taken from the queue was eligible, and nothing is added for free -/
theorem pkStep_pot (ps ps' : PS σ) (obs : List Obs) (raised : Bool) (h : NoCprBuf ps) (hg : G ps.w)
    (hk : pkStep I ps = some (ps', obs, raised)) :
    NoCprBuf ps' ∧ G ps'.w ∧ (raised = false → pot I μ ps' < pot I μ ps) := by
  unfold pkStep at hk
  split at hk
  · cases hk
  · cases hgn : getNext I ps with
    | none => simp [hgn] at hk
    | some pr =>
      obtain ⟨kp, q⟩ := pr
      simp only [hgn] at hk
      have hd := dispatchKey_pot hB { ps with queue := q } kp h hg
      -- taking the key costs one
      have hpop : pot I μ { ps with queue := q } + 1 = pot I μ ps := by
        unfold pot eligible
        unfold getNext at hgn
        cases hdone : I.done ps.w with
        | true =>
          simp only [hdone, if_true] at hgn ⊢
          have := takeCpr_count ps.queue kp q hgn
          omega
        | false =>
          simp only [hdone, Bool.false_eq_true, if_false] at hgn ⊢
          cases hq : ps.queue with
          | nil => simp [hq] at hgn
          | cons x xs => simp [hq] at hgn; obtain ⟨_, rfl⟩ := hgn; simp; omega
      split at hk
      · cases hk
        exact ⟨fun k hk => by simp [resetPS] at hk, hd.2.2, fun hf => by cases hf⟩
      · cases hk
        exact ⟨hd.2.1, hd.2.2, fun _ => by omega⟩

omit hB in
/-- with no eligible key the loop condition is false -/
theorem pkStep_none_of_zero (ps : PS σ) (h : eligible I ps.w ps.queue = 0) : pkStep I ps = none := by
  unfold pkStep notEmpty
  unfold eligible at h
  cases hd : I.done ps.w with
  | true =>
    simp only [hd, if_true] at h ⊢
    have : ps.queue.any KP.isCpr = false := by
      unfold cprCount at h
      rw [List.length_eq_zero_iff, List.filter_eq_nil_iff] at h
      rw [List.any_eq_false]; exact h
    simp [this]
  | false =>
    simp only [hd, Bool.false_eq_true, if_false] at h ⊢
    have : ps.queue = [] := List.length_eq_zero_iff.mp h
    simp [this]

/-- **Termination, with an explicit fuel bound.**  Under a feed budget, `pot ps` iterations are
    enough: with that much fuel (or more) the loop has exited by itself — the loop condition is
    false in the final state, or a handler raised — and more fuel changes nothing. -/
theorem processKeys_terminates (n : Nat) (ps : PS σ) (h : NoCprBuf ps) (hg : G ps.w)
    (hn : pot I μ ps ≤ n) :
    (pkStep I (processKeys I n ps).1 = none ∨ (processKeys I n ps).2.2 = true) ∧
    ∀ k, processKeys I (n + k) ps = processKeys I n ps := by
  induction n generalizing ps with
  | zero =>
    have h0 : eligible I ps.w ps.queue = 0 := by unfold pot at hn; omega
    have hnone := pkStep_none_of_zero ps h0
    refine ⟨Or.inl (by simpa [processKeys] using hnone), fun k => ?_⟩
    cases k with
    | zero => rfl
    | succ k => simp [processKeys, hnone]
  | succ n ih =>
    cases hk : pkStep I ps with
    | none =>
      refine ⟨Or.inl (by simpa [processKeys, hk] using hk), fun k => ?_⟩
      rw [show n + 1 + k = (n + k) + 1 by omega]
      simp [processKeys, hk]
    | some r =>
      obtain ⟨ps', obs, raised⟩ := r
      obtain ⟨hb', hg', hdec⟩ := pkStep_pot hB ps ps' obs raised h hg hk
      cases raised with
      | true =>
        refine ⟨Or.inr (by simp [processKeys, hk]), fun k => ?_⟩
        rw [show n + 1 + k = (n + k) + 1 by omega]
        simp [processKeys, hk]
      | false =>
        have hlt := hdec rfl
        obtain ⟨i1, i2⟩ := ih ps' hb' hg' (by omega)
        refine ⟨?_, fun k => ?_⟩
        · simpa [processKeys, hk] using i1
        · rw [show n + 1 + k = (n + k) + 1 by omega]
          simp only [processKeys, hk, i2 k]
end

/-- the bound spelled out: queue length + budget iterations always suffice -/
theorem processKeys_fuel_enough {I : Iface σ} {μ : σ → Nat} {G : σ → Prop} (hB : Budget I μ G)
    (ps : PS σ) (h : NoCprBuf ps) (hg : G ps.w) (k : Nat) :
    processKeys I (ps.queue.length + μ ps.w + k) ps = processKeys I (ps.queue.length + μ ps.w) ps := by
  have hle : pot I μ ps ≤ ps.queue.length + μ ps.w := by
    unfold pot eligible
    have := cprCount_le ps.queue
    split <;> omega
  exact (processKeys_terminates hB _ ps h hg hle).2 k

/-! ### instances -/

/-- handlers that never feed keys (and never un-finish the application): budget 0, so
    `process_keys` ends after at most `len(input_queue)` iterations -/
theorem budget_nofeed (I : Iface σ) (hq : ∀ w q b s p x, (I.call w q b s p x).2.1 = q)
    (hfor : ∀ w ks, I.done (I.getFor w ks).1 = I.done w)
    (hstart : ∀ w ks, I.done (I.getStart w ks).1 = I.done w)
    (hE : ∀ w s, I.done (I.pushE w s) = I.done w) (hV : ∀ w s, I.done (I.pushV w s) = I.done w)
    (hdone : ∀ w q b s p x, I.done w = true → I.done (I.call w q b s p x).1 = true) :
    Budget I (fun _ => 0) (fun _ => True) :=
  ⟨fun _ _ _ => trivial, fun _ _ _ => Nat.le_refl _, fun w ks _ => hfor w ks,
   fun _ _ _ => trivial, fun _ _ _ => Nat.le_refl _, fun w ks _ => hstart w ks,
   fun _ _ _ => trivial, fun _ _ _ => Nat.le_refl _, fun w s _ => hE w s,
   fun _ _ _ => trivial, fun _ _ _ => Nat.le_refl _, fun w s _ => hV w s,
   fun _ _ _ _ _ _ _ => trivial,
   fun w q b s p x _ => by simp [hq], fun w q b s p x _ => by simp [hq],
   fun w q b s p x _ => hdone w q b s p x⟩

/-- a handler that feeds one more `a` as long as a counter in the world is positive -/
def feedI : Iface Nat where
  getFor := fun w ks => (w, matchFor [loopBinding] ks)
  getStart := fun w ks => (w, matchStarting [loopBinding] ks)
  evalF := fun _ f => f.eval fun _ => false
  call := fun w q _ _ _ _ => if w = 0 then (w, q, .ok) else (w - 1, q ++ [.key 2 0], .ok)
  done := fun _ => false

theorem feedI_budget : Budget feedI (fun w => w) (fun _ => True) := by
  refine ⟨fun _ _ _ => trivial, fun _ _ _ => Nat.le_refl _, fun _ _ _ => rfl,
    fun _ _ _ => trivial, fun _ _ _ => Nat.le_refl _, fun _ _ _ => rfl,
    fun _ _ _ => trivial, fun _ _ _ => Nat.le_refl _, fun _ _ _ => rfl,
    fun _ _ _ => trivial, fun _ _ _ => Nat.le_refl _, fun _ _ _ => rfl,
    fun _ _ _ _ _ _ _ => trivial, ?_, ?_, fun _ _ _ _ _ _ _ h => by cases h⟩
  · intro w q b s p x _
    show (if w = 0 then (w, q, Outcome.ok) else (w - 1, q ++ [KP.key 2 0], Outcome.ok)).2.1.length +
      (if w = 0 then (w, q, Outcome.ok) else (w - 1, q ++ [KP.key 2 0], Outcome.ok)).1 ≤ q.length + w
    split <;> simp <;> omega
  · intro w q b s p x _
    show cprCount (if w = 0 then (w, q, Outcome.ok) else (w - 1, q ++ [KP.key 2 0], Outcome.ok)).2.1 +
      (if w = 0 then (w, q, Outcome.ok) else (w - 1, q ++ [KP.key 2 0], Outcome.ok)).1 ≤ cprCount q + w
    split
    · simp
    · simp [cprCount, KP.isCpr, Key.cpr]

/-- non-vacuity: one `a` queued, budget 3: the loop ends after 4 iterations (the bound is
    attained), 4 handler calls -/
example : pot feedI (fun w => w) { w := 3, queue := [.key 2 0] } = 4 ∧
    pkStep feedI (processKeys feedI 4 { w := 3, queue := [.key 2 0] }).1 = none ∧
    pkStep feedI (processKeys feedI 3 { w := 3, queue := [.key 2 0] }).1 ≠ none := by
  refine ⟨rfl, rfl, ?_⟩
  intro h; cases h

/-! ### the converse: a handler that always re-feeds -/

theorem loop_step : ∃ obs, pkStep loopI loopPS = some (loopPS, obs, false) ∧
    (obs.filter fun o => match o with | .call _ _ _ => true | _ => false).length = 1 :=
  ⟨_, rfl, rfl⟩

/-- **Non-termination witness**: with the handler of `a` feeding `a` again, `process_keys` never
    exits: after any number `n` of iterations the processor is in the same state with `a` queued,
    the loop condition still holds, and the handler has been called `n` times. -/
theorem refeed_never_terminates (n : Nat) :
    (processKeys loopI n loopPS).1.queue = [.key 2 0] ∧ (processKeys loopI n loopPS).2.2 = false ∧
    pkStep loopI (processKeys loopI n loopPS).1 ≠ none ∧
    ((processKeys loopI n loopPS).2.1.filter
      fun o => match o with | .call _ _ _ => true | _ => false).length = n := by
  obtain ⟨obs, hstep, hcalls⟩ := loop_step
  have key : ∀ n, (processKeys loopI n loopPS).1 = loopPS ∧ (processKeys loopI n loopPS).2.2 = false ∧
      ((processKeys loopI n loopPS).2.1.filter
        fun o => match o with | .call _ _ _ => true | _ => false).length = n := by
    intro n
    induction n with
    | zero => exact ⟨rfl, rfl, rfl⟩
    | succ n ih =>
      simp only [processKeys, hstep, ih.1, ih.2.1, List.filter_append, List.length_append, hcalls,
        ih.2.2]
      exact ⟨trivial, trivial, by omega⟩
  obtain ⟨k1, k2, k3⟩ := key n
  refine ⟨by rw [k1]; rfl, k2, ?_, k3⟩
  rw [k1, hstep]; simp

/-- … so no feed budget exists for it -/
theorem loopI_no_budget (μ : Unit → Nat) (G : Unit → Prop) (hg : G ()) : ¬ Budget loopI μ G := by
  intro hB
  have hb : NoCprBuf loopPS := fun k hk => by simp [loopPS] at hk
  have := (processKeys_terminates hB (pot loopI μ loopPS) loopPS hb hg (Nat.le_refl _)).1
  have hn := refeed_never_terminates (pot loopI μ loopPS)
  rcases this with h | h
  · exact hn.2.2.1 h
  · rw [hn.2.1] at h; cases h


end Ptk.C04
