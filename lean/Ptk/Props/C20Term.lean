/-
  C20 — from the emissions of the proxy (`out` events) to the characters that reach the terminal file.

  `Vt100_Output` puts `enable_autowrap()` in front of every emission and, unless the proxy is `raw`,
  replaces ESC.  The autowrap sequence, the replacement character and the set of characters at which
  `StdoutProxy._write` cuts a line are regenerated from the code on every run (`Ptk.Gen.C20`,
  `harness/gen_c20.py`: probed by running `Vt100_Output` / `StdoutProxy._write`); the theorems hold for
  every value satisfying the side conditions `gen_ok` re-decides.
-/
import Ptk.Gen.C20
import Ptk.Props.C20
namespace Ptk.C20
open Ptk.Py

/-- side conditions on the regenerated constants: the replacement for ESC is not ESC, `write_raw` keeps ESC,
    and the only character at which `_write` cuts a line is the newline the model (`rsplitNl`) uses -/
def WFTerm (esc : Char) (rawKeeps : Bool) (breaks : List Char) : Prop :=
  esc ≠ '\x1b' ∧ rawKeeps = true ∧ breaks = ['\n']

theorem gen_ok : WFTerm Gen.C20.escRepl Gen.C20.rawKeepsEsc Gen.C20.lineBreaks := by
  unfold WFTerm; decide

/-- the bodies of the emissions, as the terminal file receives them (without the autowrap prefixes) -/
def bodyText (esc : Char) : List Ev → Text
  | [] => []
  | .out raw t :: es => (if raw then t else sanitize esc t) ++ bodyText esc es
  | _ :: es => bodyText esc es

/-- number of emissions -/
def nOuts : List Ev → Nat
  | [] => 0
  | .out _ _ :: es => nOuts es + 1
  | _ :: es => nOuts es

theorem sanitize_length (esc : Char) (t : Text) : (sanitize esc t).length = t.length := by
  simp [sanitize]

theorem sanitize_append (esc : Char) (a b : Text) : sanitize esc (a ++ b) = sanitize esc a ++ sanitize esc b := by
  simp [sanitize]

/-- **sanitize_pointwise.**  Position by position the terminal gets the written character, except that ESC is
    shown as the replacement character: no character is dropped, added or moved by the sanitising. -/
theorem sanitize_pointwise (esc : Char) (t : Text) (i : Nat) (h : i < t.length) :
    (sanitize esc t)[i]'(by simpa [sanitize] using h) = if t[i] = '\x1b' then esc else t[i] := by
  simp [sanitize]

/-- **nonraw_output_has_no_escape.**  Text printed through a non-raw proxy cannot smuggle an escape sequence
    into the terminal (and so cannot move the cursor into the prompt). -/
theorem sanitize_no_esc (esc : Char) (h : esc ≠ '\x1b') (t : Text) : '\x1b' ∉ sanitize esc t := by
  intro hm
  simp only [sanitize, List.mem_map] at hm
  obtain ⟨c, -, hc⟩ := hm
  split at hc
  · exact h hc
  · rename_i hne; exact hne hc

theorem sanitize_id (esc : Char) (t : Text) (h : '\x1b' ∉ t) : sanitize esc t = t := by
  induction t with
  | nil => rfl
  | cons c cs ih =>
    simp only [List.mem_cons, not_or] at h
    have hc : ¬ c = '\x1b' := fun e => h.1 e.symm
    simp only [sanitize, List.map_cons, hc, if_false, List.cons.injEq, true_and]
    exact ih h.2

/-- every emission in the log carries the proxy's `raw` flag -/
def RawInv (s : St) : Prop := ∀ r t, Ev.out r t ∈ s.log → r = s.raw

theorem rawInv_step (s : St) (o : Op) (h : RawInv s) : RawInv (step s o) ∧ (step s o).raw = s.raw := by
  have keep : ∀ (s' : St), s'.raw = s.raw → (∀ e ∈ s'.log, e ∈ s.log ∨ e = .draw ∨ e = .erase ∨ e = .doneDraw ∨
      ∃ t, e = .out s.raw t) → RawInv s' ∧ s'.raw = s.raw := by
    intro s' hr hl
    refine ⟨?_, hr⟩
    intro r t hm
    rcases hl _ hm with h1 | h1 | h1 | h1 | ⟨t', h1⟩
    · rw [hr]; exact h r t h1
    · cases h1
    · cases h1
    · cases h1
    · cases h1; exact hr.symm
  cases o with
  | write t d => simp only [step, doWrite]; split <;> exact keep _ rfl (fun e he => Or.inl he)
  | writeBad t => exact keep _ rfl (fun e he => Or.inl he)
  | flush t => exact keep _ rfl (fun e he => Or.inl he)
  | close => exact keep _ rfl (fun e he => Or.inl he)
  | fl =>
    simp only [step, flStep]
    split
    · split <;> exact keep _ rfl (fun e he => Or.inl he)
    · exact keep _ rfl (fun e he => Or.inl he)
    · exact keep _ rfl (by
        intro e he
        simp only [List.mem_append, List.mem_singleton] at he
        rcases he with he | he
        · exact Or.inl he
        · exact Or.inr (Or.inr (Or.inr (Or.inr ⟨_, he⟩))))
    · split <;> exact keep _ rfl (fun e he => Or.inl he)
    · exact keep _ rfl (fun e he => Or.inl he)
    · exact keep _ rfl (fun e he => Or.inl he)
  | run => simp only [step, runStep]; split <;> exact keep _ rfl (fun e he => Or.inl he)
  | task =>
    simp only [step, taskStep]
    split
    · exact keep _ rfl (fun e he => Or.inl he)
    · split
      · exact keep _ rfl (by
          intro e he
          simp only [List.mem_append, List.mem_cons, List.not_mem_nil, or_false] at he
          rcases he with he | he | he | he
          · exact Or.inl he
          · exact Or.inr (Or.inr (Or.inl he))
          · exact Or.inr (Or.inr (Or.inr (Or.inr ⟨_, he⟩)))
          · exact Or.inr (Or.inl he))
      · exact keep _ rfl (by
          intro e he
          simp only [List.mem_append, List.mem_singleton] at he
          rcases he with he | he
          · exact Or.inl he
          · exact Or.inr (Or.inr (Or.inr (Or.inr ⟨_, he⟩))))
  | start =>
    simp only [step]; split
    · exact keep _ rfl (by
        intro e he
        simp only [List.mem_append, List.mem_singleton] at he
        rcases he with he | he
        · exact Or.inl he
        · exact Or.inr (Or.inl he))
    · exact keep _ rfl (fun e he => Or.inl he)
  | stop =>
    simp only [step]; split
    · exact keep _ rfl (by
        intro e he
        simp only [List.mem_append, List.mem_singleton] at he
        rcases he with he | he
        · exact Or.inl he
        · exact Or.inr (Or.inr (Or.inr (Or.inl he))))
    · exact keep _ rfl (fun e he => Or.inl he)
  | finish => simp only [step]; split <;> exact keep _ rfl (fun e he => Or.inl he)
  | newLoop => simp only [step]; split <;> exact keep _ rfl (fun e he => Or.inl he)
  | closeLoop => simp only [step]; split <;> exact keep _ rfl (fun e he => Or.inl he)
  | inval =>
    simp only [step]; split
    · exact keep _ rfl (by
        intro e he
        simp only [List.mem_append, List.mem_singleton] at he
        rcases he with he | he
        · exact Or.inl he
        · exact Or.inr (Or.inl he))
    · exact keep _ rfl (fun e he => Or.inl he)
  | exit => simp only [step]; split <;> exact keep _ rfl (fun e he => Or.inl he)

theorem rawInv_run (raw : Bool) (ops : List Op) :
    RawInv (runOps (init raw) ops) ∧ (runOps (init raw) ops).raw = raw := by
  suffices h : ∀ s : St, RawInv s → RawInv (runOps s ops) ∧ (runOps s ops).raw = s.raw from
    h (init raw) (by intro r t hm; simp [init] at hm)
  intro s hs
  induction ops generalizing s with
  | nil => exact ⟨hs, rfl⟩
  | cons o os ih =>
    obtain ⟨h1, h2⟩ := rawInv_step s o hs
    obtain ⟨h3, h4⟩ := ih (step s o) h1
    exact ⟨h3, by rw [runOps, h4, h2]⟩

theorem bodyText_of_rawInv (esc : Char) (raw : Bool) (log : List Ev) (h : ∀ r t, Ev.out r t ∈ log → r = raw) :
    bodyText esc log = if raw then outText log else sanitize esc (outText log) := by
  induction log with
  | nil => cases raw <;> simp [bodyText, outText, sanitize]
  | cons e es ih =>
    have ih' := ih (fun r t hm => h r t (by simp [hm]))
    cases e with
    | out r t =>
      have hr : r = raw := h r t (by simp)
      subst hr
      cases r <;> simp_all [bodyText, outText, sanitize_append]
    | draw => simpa [bodyText, outText] using ih'
    | erase => simpa [bodyText, outText] using ih'
    | doneDraw => simpa [bodyText, outText] using ih'

/-- `termText` = the bodies with the autowrap sequence in front of each: its length says so without
    depending on what the sequence is -/
theorem termText_length (aw : Text) (esc : Char) (log : List Ev) :
    (termText aw esc log).length = nOuts log * aw.length + (bodyText esc log).length := by
  induction log with
  | nil => simp [termText, nOuts, bodyText]
  | cons e es ih =>
    cases e <;> simp [termText, nOuts, bodyText, ih, Nat.add_mul] <;> omega

theorem termText_no_autowrap (esc : Char) (log : List Ev) : termText [] esc log = bodyText esc log := by
  induction log with
  | nil => rfl
  | cons e es ih => cases e <;> simp [termText, bodyText, ih]

/-- **terminal_receives_written_text.**  For every calm schedule, once nothing is in flight, the bodies of the
    emissions that reached the terminal file are, in order, exactly the characters of all write calls in
    lock-acquisition order — unchanged through a `raw` proxy, with ESC shown as the replacement character
    otherwise (same length, same positions): every written character appears exactly once. -/
theorem terminal_receives_written_text (esc : Char) (raw : Bool) (ops : List Op)
    (hc : calm (init raw) ops = true) (hq : quiescent (runOps (init raw) ops) = true) :
    bodyText esc (runOps (init raw) ops).log = (if raw then allText ops else sanitize esc (allText ops)) ∧
    (bodyText esc (runOps (init raw) ops).log).length = (allText ops).length := by
  obtain ⟨hi, hr⟩ := rawInv_run raw ops
  have hb := bodyText_of_rawInv esc raw _ (fun r t hm => by rw [← hr]; exact hi r t hm)
  rw [exactly_once_after_flush raw ops hc hq] at hb
  refine ⟨hb, ?_⟩
  rw [hb]
  cases raw <;> simp [sanitize_length]

/-- ... and through a non-raw proxy no ESC reaches the terminal in these bodies -/
theorem nonraw_output_has_no_escape (esc : Char) (hesc : esc ≠ '\x1b') (ops : List Op) :
    '\x1b' ∉ bodyText esc (runOps (init false) ops).log := by
  obtain ⟨hi, hr⟩ := rawInv_run false ops
  have hb := bodyText_of_rawInv esc false _ (fun r t hm => by rw [← hr]; exact hi r t hm)
  rw [hb]
  exact sanitize_no_esc esc hesc _

example :
    let ops : List Op := [.write 0 ['a', '\x1b', '[', 'm', '\n'], .fl, .fl, .fl]
    calm (init false) ops = true ∧ quiescent (runOps (init false) ops) = true ∧
    bodyText Gen.C20.escRepl (runOps (init false) ops).log = ['a', '?', '[', 'm', '\n'] ∧
    bodyText Gen.C20.escRepl (runOps (init true) ops).log = ['a', '\x1b', '[', 'm', '\n'] ∧
    termText Gen.C20.autowrap Gen.C20.escRepl (runOps (init false) ops).log
      = ['\x1b', '[', '?', '7', 'h', 'a', '?', '[', 'm', '\n'] := by decide

end Ptk.C20
