/-
  C14 — helper lemmas: the two navigation loops of `Buffer.history_backward` /
  `history_forward` reduced to pure index scans, and the counting facts about
  those scans that the round-trip theorem needs.
-/
import Ptk.Model.C14
namespace Ptk.C14
open Ptk.Py

/-! ### what one assignment `working_index = j` (to a different index) does -/

/-- the state after `k ≥ 1` assignments `self.working_index = …` to indices that each differ from
    the previous one, the last of them being `j` (every assignment runs `_text_changed`, which
    creates one validator task when `validate_while_typing` is on) -/
def navTo (s : St) (j : Nat) (k : Nat := 1) : St :=
  { s with idx := j, cur := 0, pref := none, yank := none, vstate := .unknown, verr := none,
           vtasks := if s.vwt then s.vtasks + k else s.vtasks }

theorem setWorkingIndex_ne (s : St) (j : Nat) (h : s.idx ≠ j) : setWorkingIndex s j = navTo s j := by
  unfold setWorkingIndex navTo textChanged setCursorPos
  simp only [h, if_false]
  by_cases hc : (min (Int.toNat 0) ({ s with idx := j } : St).text.length) = s.cur
  · simp only [hc, if_true]
    have : s.cur = 0 := by simp at hc; omega
    simp [this]
  · simp only [hc, if_false]
    simp

theorem navTo_navTo (s : St) (j k n : Nat) : navTo (navTo s j n) k = navTo s k (n + 1) := by
  simp only [navTo]
  by_cases h : s.vwt = true
  · simp [h, Nat.add_assoc]
  · simp [h]

@[simp] theorem navTo_work (s : St) (j k : Nat) : (navTo s j k).work = s.work := rfl
@[simp] theorem navTo_search (s : St) (j k : Nat) : (navTo s j k).search = s.search := rfl
@[simp] theorem navTo_idx (s : St) (j k : Nat) : (navTo s j k).idx = j := rfl
@[simp] theorem navTo_hist (s : St) (j k : Nat) : (navTo s j k).hist = s.hist := rfl
@[simp] theorem navTo_storage (s : St) (j k : Nat) : (navTo s j k).storage = s.storage := rfl
@[simp] theorem navTo_ehs (s : St) (j k : Nat) : (navTo s j k).ehs = s.ehs := rfl
@[simp] theorem navTo_vstate (s : St) (j k : Nat) : (navTo s j k).vstate = .unknown := rfl
@[simp] theorem navTo_verr (s : St) (j k : Nat) : (navTo s j k).verr = none := rfl
@[simp] theorem navTo_vrun (s : St) (j k : Nat) : (navTo s j k).vrun = s.vrun := rfl
@[simp] theorem navTo_vasync (s : St) (j k : Nat) : (navTo s j k).vasync = s.vasync := rfl
@[simp] theorem navTo_text (s : St) (j k : Nat) : (navTo s j k).text = s.work.getD j [] := rfl

theorem historyMatches_congr (s t : St) (hw : t.work = s.work) (hs : t.search = s.search) (i : Nat) :
    historyMatches t i = historyMatches s i := by
  simp [historyMatches, hw, hs]

/-- the state reached after the loop has made `k` assignments, the last one to `last` (or none) -/
def atLast (s : St) (l : Option Nat) (k : Nat) : St :=
  match l with
  | none => s
  | some j => navTo s j k

@[simp] theorem atLast_work (s : St) (l : Option Nat) (k : Nat) : (atLast s l k).work = s.work := by
  cases l <;> rfl
@[simp] theorem atLast_search (s : St) (l : Option Nat) (k : Nat) : (atLast s l k).search = s.search := by
  cases l <;> rfl
@[simp] theorem atLast_hist (s : St) (l : Option Nat) (k : Nat) : (atLast s l k).hist = s.hist := by
  cases l <;> rfl
@[simp] theorem atLast_storage (s : St) (l : Option Nat) (k : Nat) : (atLast s l k).storage = s.storage := by
  cases l <;> rfl

/-! ### the loops as index scans -/

/-- `history_backward`'s loop on indices only: visits `n-1, …, 0`; `last` = last index assigned -/
def bwdScan (m : Nat → Bool) : Nat → Int → Option Nat → Option Nat
  | 0, _, last => last
  | n + 1, c, last =>
    let c' := if m n then c - 1 else c
    let last' := if m n then some n else last
    if c' = 0 then last' else bwdScan m n c' last'

/-- `history_forward`'s loop on indices only -/
def fwdScan (m : Nat → Bool) : Nat → Nat → Int → Option Nat → Option Nat
  | 0, _, _, last => last
  | fuel + 1, i, c, last =>
    let c' := if m i then c - 1 else c
    let last' := if m i then some i else last
    if c' = 0 then last' else fwdScan m fuel (i + 1) c' last'

/-- number of assignments `history_backward`'s loop makes -/
def bwdHits (m : Nat → Bool) : Nat → Int → Nat
  | 0, _ => 0
  | n + 1, c =>
    let c' := if m n then c - 1 else c
    let h := if m n then 1 else 0
    if c' = 0 then h else h + bwdHits m n c'

/-- number of assignments `history_forward`'s loop makes -/
def fwdHits (m : Nat → Bool) : Nat → Nat → Int → Nat
  | 0, _, _ => 0
  | fuel + 1, i, c =>
    let c' := if m i then c - 1 else c
    let h := if m i then 1 else 0
    if c' = 0 then h else h + fwdHits m fuel (i + 1) c'

theorem bwdGo_eq (s0 : St) : ∀ (n : Nat) (c : Int) (last : Option Nat) (k : Nat),
    (∀ j, last = some j → n ≤ j) → (last = none → k = 0) → n ≤ s0.idx →
    bwdGo (atLast s0 last k) n c last.isSome =
      (atLast s0 (bwdScan (historyMatches s0) n c last) (k + bwdHits (historyMatches s0) n c),
       (bwdScan (historyMatches s0) n c last).isSome) := by
  intro n
  induction n with
  | zero => intro c last k _ _ _; simp [bwdGo, bwdScan, bwdHits]
  | succ n ih =>
    intro c last k hl hk hn
    have hm : historyMatches (atLast s0 last k) n = historyMatches s0 n :=
      historyMatches_congr s0 _ (by simp) (by simp) n
    have hidx : (atLast s0 last k).idx ≠ n := by
      cases last with
      | none => simp [atLast]; omega
      | some j => have := hl j rfl; simp [atLast]; omega
    unfold bwdGo bwdScan bwdHits
    simp only [hm]
    by_cases hit : historyMatches s0 n = true
    · simp only [hit, if_true]
      have hs : setWorkingIndex (atLast s0 last k) n = atLast s0 (some n) (k + 1) := by
        rw [setWorkingIndex_ne _ _ hidx]
        cases last with
        | none => simp [atLast, hk rfl]
        | some j => simp [atLast, navTo_navTo]
      rw [hs]
      by_cases hc : c - 1 = 0
      · simp [hc]
      · simp only [hc, if_false]
        have := ih (c - 1) (some n) (k + 1) (by intro j hj; cases hj; omega) (by simp) (by omega)
        simpa [Nat.add_assoc] using this
    · have hit' : historyMatches s0 n = false := by simpa using hit
      simp only [hit', Bool.false_eq_true, if_false]
      by_cases hc : c = 0
      · simp [hc]
      · simp only [hc, if_false]
        simpa using ih c last k (by intro j hj; have := hl j hj; omega) hk (by omega)

theorem fwdGo_eq (s0 : St) : ∀ (fuel i : Nat) (c : Int) (last : Option Nat) (k : Nat),
    (∀ j, last = some j → j < i) → (last = none → k = 0) → s0.idx < i →
    fwdGo (atLast s0 last k) fuel i c last.isSome =
      (atLast s0 (fwdScan (historyMatches s0) fuel i c last) (k + fwdHits (historyMatches s0) fuel i c),
       (fwdScan (historyMatches s0) fuel i c last).isSome) := by
  intro fuel
  induction fuel with
  | zero => intro i c last k _ _ _; simp [fwdGo, fwdScan, fwdHits]
  | succ fuel ih =>
    intro i c last k hl hk hn
    have hm : historyMatches (atLast s0 last k) i = historyMatches s0 i :=
      historyMatches_congr s0 _ (by simp) (by simp) i
    have hidx : (atLast s0 last k).idx ≠ i := by
      cases last with
      | none => simp [atLast]; omega
      | some j => have := hl j rfl; simp [atLast]; omega
    unfold fwdGo fwdScan fwdHits
    simp only [hm]
    by_cases hit : historyMatches s0 i = true
    · simp only [hit, if_true]
      have hs : setWorkingIndex (atLast s0 last k) i = atLast s0 (some i) (k + 1) := by
        rw [setWorkingIndex_ne _ _ hidx]
        cases last with
        | none => simp [atLast, hk rfl]
        | some j => simp [atLast, navTo_navTo]
      rw [hs]
      by_cases hc : c - 1 = 0
      · simp [hc]
      · simp only [hc, if_false]
        have := ih (i + 1) (c - 1) (some i) (k + 1) (by intro j hj; cases hj; omega) (by simp) (by omega)
        simpa [Nat.add_assoc] using this
    · have hit' : historyMatches s0 i = false := by simpa using hit
      simp only [hit', Bool.false_eq_true, if_false]
      by_cases hc : c = 0
      · simp [hc]
      · simp only [hc, if_false]
        simpa using ih (i + 1) c last k (by intro j hj; have := hl j hj; omega) hk (by omega)

/-! ### facts about the scans -/

/-- whatever the scan returns (other than its initial `last`) is a matching index below `n` -/
theorem bwdScan_spec (m : Nat → Bool) : ∀ (n : Nat) (c : Int) (last : Option Nat) (j : Nat),
    bwdScan m n c last = some j → last = some j ∨ (j < n ∧ m j = true) := by
  intro n
  induction n with
  | zero => intro c last j h; left; simpa [bwdScan] using h
  | succ n ih =>
    intro c last j h
    unfold bwdScan at h
    by_cases hit : m n = true
    · simp only [hit, if_true] at h
      by_cases hc : c - 1 = 0
      · simp [hc] at h; right; subst h; exact ⟨by omega, hit⟩
      · simp only [hc, if_false] at h
        rcases ih _ _ _ h with h1 | ⟨h1, h2⟩
        · cases h1; right; exact ⟨by omega, hit⟩
        · right; exact ⟨by omega, h2⟩
    · have hit' : m n = false := by simpa using hit
      simp only [hit', Bool.false_eq_true, if_false] at h
      by_cases hc : c = 0
      · simp [hc] at h; left; exact h
      · simp only [hc, if_false] at h
        rcases ih _ _ _ h with h1 | ⟨h1, h2⟩
        · left; exact h1
        · right; exact ⟨by omega, h2⟩

theorem fwdScan_spec (m : Nat → Bool) : ∀ (fuel i : Nat) (c : Int) (last : Option Nat) (j : Nat),
    fwdScan m fuel i c last = some j → last = some j ∨ (i ≤ j ∧ j < i + fuel ∧ m j = true) := by
  intro fuel
  induction fuel with
  | zero => intro i c last j h; left; simpa [fwdScan] using h
  | succ fuel ih =>
    intro i c last j h
    unfold fwdScan at h
    by_cases hit : m i = true
    · simp only [hit, if_true] at h
      by_cases hc : c - 1 = 0
      · simp [hc] at h; right; subst h; exact ⟨by omega, by omega, hit⟩
      · simp only [hc, if_false] at h
        rcases ih _ _ _ _ h with h1 | ⟨h1, h2, h3⟩
        · cases h1; right; exact ⟨by omega, by omega, hit⟩
        · right; exact ⟨by omega, by omega, h3⟩
    · have hit' : m i = false := by simpa using hit
      simp only [hit', Bool.false_eq_true, if_false] at h
      by_cases hc : c = 0
      · simp [hc] at h; left; exact h
      · simp only [hc, if_false] at h
        rcases ih _ _ _ _ h with h1 | ⟨h1, h2, h3⟩
        · left; exact h1
        · right; exact ⟨by omega, by omega, h3⟩

/-- number of matching indices among `a, a+1, …, a+d-1` -/
def cnt (m : Nat → Bool) (a : Nat) : Nat → Nat
  | 0 => 0
  | d + 1 => (if m a then 1 else 0) + cnt m (a + 1) d

theorem cnt_snoc (m : Nat → Bool) : ∀ (d a : Nat),
    cnt m a (d + 1) = cnt m a d + (if m (a + d) then 1 else 0) := by
  intro d
  induction d with
  | zero => intro a; simp [cnt]
  | succ d ih =>
    intro a
    rw [cnt, ih (a + 1), cnt]
    have : a + 1 + d = a + (d + 1) := by omega
    rw [this]; omega

/-- with `1 ≤ c ≤` (number of matches below `n`) the backward scan stops exactly on the
    `c`-th match `j` below `n`: there are `c-1` matches strictly between `j` and `n`. -/
theorem bwdScan_kth (m : Nat → Bool) : ∀ (n : Nat) (c : Int) (last : Option Nat),
    1 ≤ c → c ≤ (cnt m 0 n : Int) →
    ∃ j, bwdScan m n c last = some j ∧ j < n ∧ m j = true ∧ (cnt m (j + 1) (n - 1 - j) : Int) = c - 1 := by
  intro n
  induction n with
  | zero => intro c last h1 h2; simp [cnt] at h2; omega
  | succ n ih =>
    intro c last h1 h2
    rw [cnt_snoc] at h2
    simp only [Nat.zero_add] at h2
    unfold bwdScan
    by_cases hit : m n = true
    · simp only [hit, if_true] at h2 ⊢
      by_cases hc : c - 1 = 0
      · refine ⟨n, by simp [hc], by omega, hit, ?_⟩
        have : n + 1 - 1 - n = 0 := by omega
        rw [this]; simp [cnt]; omega
      · simp only [hc, if_false]
        obtain ⟨j, hj, hlt, hmj, hcnt⟩ := ih (c - 1) (some n) (by omega) (by push_cast at h2 ⊢; omega)
        refine ⟨j, hj, by omega, hmj, ?_⟩
        have e : n + 1 - 1 - j = (n - 1 - j) + 1 := by omega
        rw [e, cnt_snoc]
        have e2 : j + 1 + (n - 1 - j) = n := by omega
        rw [e2]; simp only [hit, if_true]; push_cast; omega
    · have hit' : m n = false := by simpa using hit
      simp only [hit', Bool.false_eq_true, if_false] at h2 ⊢
      have hc : c ≠ 0 := by omega
      simp only [hc, if_false]
      obtain ⟨j, hj, hlt, hmj, hcnt⟩ := ih c last h1 (by simpa using h2)
      refine ⟨j, hj, by omega, hmj, ?_⟩
      have e : n + 1 - 1 - j = (n - 1 - j) + 1 := by omega
      rw [e, cnt_snoc]
      have e2 : j + 1 + (n - 1 - j) = n := by omega
      rw [e2]; simp only [hit', Bool.false_eq_true, if_false]; push_cast; omega

/-- if exactly `c-1` matches lie in `a … a+d-1` and `a+d` matches, a forward scan with count `c`
    from `a` stops exactly on `a+d` (given enough fuel) -/
theorem fwdScan_kth (m : Nat → Bool) : ∀ (d a : Nat) (c : Int) (r : Nat) (last : Option Nat),
    (cnt m a d : Int) = c - 1 → m (a + d) = true →
    fwdScan m (d + 1 + r) a c last = some (a + d) := by
  intro d
  induction d with
  | zero =>
    intro a c r last h hm
    simp [cnt] at h
    have : (0 + 1 + r) = r + 1 := by omega
    rw [this]; unfold fwdScan
    simp at hm
    simp [hm]; omega
  | succ d ih =>
    intro a c r last h hm
    have : (d + 1 + 1 + r) = (d + 1 + r) + 1 := by omega
    rw [this]; unfold fwdScan
    rw [cnt] at h
    have e : a + (d + 1) = a + 1 + d := by omega
    by_cases hit : m a = true
    · simp only [hit, if_true] at h ⊢
      have hc : c - 1 ≠ 0 := by push_cast at h; omega
      simp only [hc, if_false]
      rw [e]
      exact ih (a + 1) (c - 1) r (some a) (by push_cast at h ⊢; omega) (by rw [← e]; exact hm)
    · have hit' : m a = false := by simpa using hit
      simp only [hit', Bool.false_eq_true, if_false] at h ⊢
      have hc : c ≠ 0 := by push_cast at h; omega
      simp only [hc, if_false]
      rw [e]
      exact ih (a + 1) c r last (by push_cast at h ⊢; omega) (by rw [← e]; exact hm)

/-- symmetric facts for "forward `c`, then back `c`" -/
theorem fwdScan_kth' (m : Nat → Bool) : ∀ (fuel a : Nat) (c : Int) (last : Option Nat),
    1 ≤ c → c ≤ (cnt m a fuel : Int) →
    ∃ d, fwdScan m fuel a c last = some (a + d) ∧ d < fuel ∧ m (a + d) = true ∧ (cnt m a d : Int) = c - 1 := by
  intro fuel
  induction fuel with
  | zero => intro a c last h1 h2; simp [cnt] at h2; omega
  | succ fuel ih =>
    intro a c last h1 h2
    rw [cnt] at h2
    unfold fwdScan
    by_cases hit : m a = true
    · simp only [hit, if_true] at h2 ⊢
      by_cases hc : c - 1 = 0
      · exact ⟨0, by simp [hc], by omega, by simpa using hit, by simp [cnt]; omega⟩
      · simp only [hc, if_false]
        obtain ⟨d, hd, hlt, hmd, hcnt⟩ := ih (a + 1) (c - 1) (some a) (by omega) (by push_cast at h2 ⊢; omega)
        refine ⟨d + 1, ?_, by omega, ?_, ?_⟩
        · rw [hd]; congr 1; omega
        · have : a + (d + 1) = a + 1 + d := by omega
          rw [this]; exact hmd
        · rw [cnt]; simp only [hit, if_true]; push_cast at hcnt ⊢; omega
    · have hit' : m a = false := by simpa using hit
      simp only [hit', Bool.false_eq_true, if_false] at h2 ⊢
      have hc : c ≠ 0 := by omega
      simp only [hc, if_false]
      obtain ⟨d, hd, hlt, hmd, hcnt⟩ := ih (a + 1) c last h1 (by simpa using h2)
      refine ⟨d + 1, ?_, by omega, ?_, ?_⟩
      · rw [hd]; congr 1; omega
      · have : a + (d + 1) = a + 1 + d := by omega
        rw [this]; exact hmd
      · rw [cnt]; simp only [hit', Bool.false_eq_true, if_false]; push_cast at hcnt ⊢; omega

theorem bwdScan_kth' (m : Nat → Bool) : ∀ (d a : Nat) (c : Int) (last : Option Nat),
    (cnt m (a + 1) d : Int) = c - 1 → m a = true →
    bwdScan m (a + 1 + d) c last = some a := by
  intro d
  induction d with
  | zero =>
    intro a c last h hm
    simp [cnt] at h
    show bwdScan m (a + 1) c last = some a
    unfold bwdScan
    simp [hm]; omega
  | succ d ih =>
    intro a c last h hm
    rw [cnt_snoc] at h
    have e : a + 1 + (d + 1) = (a + 1 + d) + 1 := by omega
    rw [e]; unfold bwdScan
    by_cases hit : m (a + 1 + d) = true
    · simp only [hit, if_true] at h ⊢
      have hc : c - 1 ≠ 0 := by push_cast at h; omega
      simp only [hc, if_false]
      exact ih a (c - 1) (some (a + 1 + d)) (by push_cast at h ⊢; omega) hm
    · have hit' : m (a + 1 + d) = false := by simpa using hit
      simp only [hit', Bool.false_eq_true, if_false] at h ⊢
      have hc : c ≠ 0 := by push_cast at h; omega
      simp only [hc, if_false]
      exact ih a c last (by push_cast at h ⊢; omega) hm

/-! ### frames of the primitive setters -/

@[simp] theorem setCursorPos_work (s : St) (v : Int) : (setCursorPos s v).work = s.work := by
  simp only [setCursorPos]; repeat' (first | rfl | split)
@[simp] theorem setCursorPos_idx (s : St) (v : Int) : (setCursorPos s v).idx = s.idx := by
  simp only [setCursorPos]; repeat' (first | rfl | split)
@[simp] theorem setCursorPos_hist (s : St) (v : Int) : (setCursorPos s v).hist = s.hist := by
  simp only [setCursorPos]; repeat' (first | rfl | split)
@[simp] theorem setCursorPos_storage (s : St) (v : Int) : (setCursorPos s v).storage = s.storage := by
  simp only [setCursorPos]; repeat' (first | rfl | split)
@[simp] theorem setCursorPos_search (s : St) (v : Int) : (setCursorPos s v).search = s.search := by
  simp only [setCursorPos]; repeat' (first | rfl | split)
@[simp] theorem setCursorPos_ehs (s : St) (v : Int) : (setCursorPos s v).ehs = s.ehs := by
  simp only [setCursorPos]; repeat' (first | rfl | split)
@[simp] theorem setCursorPos_vstate (s : St) (v : Int) : (setCursorPos s v).vstate = s.vstate := by
  simp only [setCursorPos]; repeat' (first | rfl | split)
@[simp] theorem setCursorPos_hloaded (s : St) (v : Int) : (setCursorPos s v).hloaded = s.hloaded := by
  simp only [setCursorPos]; repeat' (first | rfl | split)
@[simp] theorem setCursorPos_pending (s : St) (v : Int) : (setCursorPos s v).pending = s.pending := by
  simp only [setCursorPos]; repeat' (first | rfl | split)
@[simp] theorem setCursorPos_loading (s : St) (v : Int) : (setCursorPos s v).loading = s.loading := by
  simp only [setCursorPos]; repeat' (first | rfl | split)
@[simp] theorem setCursorPos_text (s : St) (v : Int) : (setCursorPos s v).text = s.text := by
  simp [St.text]
theorem setCursorPos_cur (s : St) (v : Int) : (setCursorPos s v).cur = min v.toNat s.text.length := by
  simp only [setCursorPos]; split
  · next h => exact h.symm
  · rfl

@[simp] theorem setHistorySearch_work (s : St) : (setHistorySearch s).work = s.work := by
  simp only [setHistorySearch]; repeat' (first | rfl | split)
@[simp] theorem setHistorySearch_idx (s : St) : (setHistorySearch s).idx = s.idx := by
  simp only [setHistorySearch]; repeat' (first | rfl | split)
@[simp] theorem setHistorySearch_cur (s : St) : (setHistorySearch s).cur = s.cur := by
  simp only [setHistorySearch]; repeat' (first | rfl | split)
@[simp] theorem setHistorySearch_hist (s : St) : (setHistorySearch s).hist = s.hist := by
  simp only [setHistorySearch]; repeat' (first | rfl | split)
@[simp] theorem setHistorySearch_storage (s : St) : (setHistorySearch s).storage = s.storage := by
  simp only [setHistorySearch]; repeat' (first | rfl | split)
@[simp] theorem setHistorySearch_ehs (s : St) : (setHistorySearch s).ehs = s.ehs := by
  simp only [setHistorySearch]; repeat' (first | rfl | split)
@[simp] theorem setHistorySearch_vstate (s : St) : (setHistorySearch s).vstate = s.vstate := by
  simp only [setHistorySearch]; repeat' (first | rfl | split)
@[simp] theorem setHistorySearch_text (s : St) : (setHistorySearch s).text = s.text := by
  simp [St.text]

/-- `history_backward` in terms of the index scan -/
theorem historyBackward_eq (s : St) (c : Int) :
    historyBackward s c =
      match bwdScan (historyMatches (setHistorySearch s)) s.idx c none with
      | none => setHistorySearch s
      | some j =>
        setCursorPos (navTo (setHistorySearch s) j (bwdHits (historyMatches (setHistorySearch s)) s.idx c))
          (navTo (setHistorySearch s) j (bwdHits (historyMatches (setHistorySearch s)) s.idx c)).text.length := by
  have h : bwdGo (setHistorySearch s) s.idx c false =
      (atLast (setHistorySearch s) (bwdScan (historyMatches (setHistorySearch s)) s.idx c none)
        (0 + bwdHits (historyMatches (setHistorySearch s)) s.idx c),
       (bwdScan (historyMatches (setHistorySearch s)) s.idx c none).isSome) :=
    bwdGo_eq (setHistorySearch s) s.idx c none 0 (by simp) (by simp) (by simp)
  unfold historyBackward
  simp only [setHistorySearch_idx]
  rw [h]
  cases bwdScan (historyMatches (setHistorySearch s)) s.idx c none <;> simp [atLast]

theorem historyForward_eq (s : St) (c : Int) :
    historyForward s c =
      match fwdScan (historyMatches (setHistorySearch s)) (s.work.length - (s.idx + 1)) (s.idx + 1) c none with
      | none => setHistorySearch s
      | some j =>
        let s2 := setCursorPos (navTo (setHistorySearch s) j
          (fwdHits (historyMatches (setHistorySearch s)) (s.work.length - (s.idx + 1)) (s.idx + 1) c)) 0
        setCursorPos s2 ((s2.cur : Int) + (lineAfter s2.text s2.cur).length) := by
  have h : fwdGo (setHistorySearch s) (s.work.length - (s.idx + 1)) (s.idx + 1) c false =
      (atLast (setHistorySearch s)
        (fwdScan (historyMatches (setHistorySearch s)) (s.work.length - (s.idx + 1)) (s.idx + 1) c none)
        (0 + fwdHits (historyMatches (setHistorySearch s)) (s.work.length - (s.idx + 1)) (s.idx + 1) c),
       (fwdScan (historyMatches (setHistorySearch s)) (s.work.length - (s.idx + 1)) (s.idx + 1) c none).isSome) :=
    fwdGo_eq (setHistorySearch s) _ (s.idx + 1) c none 0 (by simp) (by simp) (by simp)
  unfold historyForward
  simp only [setHistorySearch_idx, setHistorySearch_work]
  rw [h]
  cases fwdScan (historyMatches (setHistorySearch s)) (s.work.length - (s.idx + 1)) (s.idx + 1) c none <;>
    simp [atLast]

/-- `t` differs from `s` at most in the position (idx, cur), the search text, the validation
    state and the preferred column: the working copies, the history and the loader are the same -/
def Frame (s t : St) : Prop :=
  t.work = s.work ∧ t.hist = s.hist ∧ t.storage = s.storage ∧ t.hloaded = s.hloaded ∧
  t.pending = s.pending ∧ t.loading = s.loading

theorem Frame.refl (s : St) : Frame s s := by simp [Frame]
theorem Frame.trans {a b c : St} (h1 : Frame a b) (h2 : Frame b c) : Frame a c := by
  obtain ⟨a1, a2, a3, a4, a5, a6⟩ := h1
  obtain ⟨b1, b2, b3, b4, b5, b6⟩ := h2
  exact ⟨b1.trans a1, b2.trans a2, b3.trans a3, b4.trans a4, b5.trans a5, b6.trans a6⟩

theorem setCursorPos_frame (s : St) (v : Int) : Frame s (setCursorPos s v) := by
  simp only [setCursorPos]; split
  · exact Frame.refl s
  · simp [Frame]
theorem setHistorySearch_frame (s : St) : Frame s (setHistorySearch s) := by
  simp only [setHistorySearch]; repeat' (first | exact Frame.refl s | (simp [Frame]; done) | split)
theorem navTo_frame (s : St) (j : Nat) (k : Nat := 1) : Frame s (navTo s j k) := by simp [Frame, navTo]
theorem textChanged_frame (s : St) : Frame s (textChanged s) := by simp [Frame, textChanged]
theorem setWorkingIndex_frame (s : St) (j : Nat) : Frame s (setWorkingIndex s j) := by
  by_cases h : s.idx = j
  · simp [setWorkingIndex, h, Frame.refl]
  · rw [setWorkingIndex_ne s j h]; exact navTo_frame s j

theorem historyBackward_frame (s : St) (c : Int) : Frame s (historyBackward s c) := by
  rw [historyBackward_eq]
  split
  · exact setHistorySearch_frame s
  · exact (setHistorySearch_frame s).trans ((navTo_frame _ _ _).trans (setCursorPos_frame _ _))

theorem historyForward_frame (s : St) (c : Int) : Frame s (historyForward s c) := by
  rw [historyForward_eq]
  split
  · exact setHistorySearch_frame s
  · exact (setHistorySearch_frame s).trans ((navTo_frame _ _ _).trans
      ((setCursorPos_frame _ _).trans (setCursorPos_frame _ _)))

theorem goToHistory_frame (s : St) (i : Nat) : Frame s (goToHistory s i) := by
  simp only [goToHistory]; split
  · exact (setWorkingIndex_frame s i).trans (setCursorPos_frame _ _)
  · exact Frame.refl s

theorem goToHistoryFixed_frame (s : St) (i : Nat) : Frame s (goToHistoryFixed s i) := by
  simp only [goToHistoryFixed]; split
  · have := goToHistory_frame s i
    simpa [Frame] using this
  · exact Frame.refl s

theorem endOfHistoryFixed_frame (s : St) : Frame s (endOfHistoryFixed s) :=
  (historyForward_frame s _).trans (goToHistoryFixed_frame _ _)

theorem endOfHistory_frame (s : St) : Frame s (endOfHistory s) :=
  (historyForward_frame s _).trans (goToHistory_frame _ _)

theorem home_frame (s : St) : Frame s (home s) := setCursorPos_frame _ _
theorem endl_frame (s : St) : Frame s (endl s) := setCursorPos_frame _ _
theorem cursorLeft_frame (s : St) : Frame s (cursorLeft s) := setCursorPos_frame _ _
theorem cursorRight_frame (s : St) : Frame s (cursorRight s) := setCursorPos_frame _ _

theorem cursorUp_frame (s s' : St) (c : Int) (h : cursorUp s c = some s') : Frame s s' := by
  simp only [cursorUp] at h
  split at h
  · cases h
  · cases h
    have := setCursorPos_frame s (rowColToIndex s.text ((row s.text s.cur : Int) - c).toNat (origColumn s))
    simpa [Frame] using this

theorem cursorDown_frame (s s' : St) (c : Int) (h : cursorDown s c = some s') : Frame s s' := by
  simp only [cursorDown] at h
  split at h
  · cases h
  · cases h
    have := setCursorPos_frame s (rowColToIndex s.text (row s.text s.cur + c.toNat) (origColumn s))
    simpa [Frame] using this

theorem autoUpPos_frame (s s' : St) (c : Int) (g : Bool) (h : autoUpPos s c g = some s') : Frame s s' := by
  simp only [autoUpPos] at h
  split at h
  · exact cursorUp_frame s s' c h
  · cases h
    split
    · exact (historyBackward_frame s c).trans (home_frame _)
    · exact historyBackward_frame s c

theorem autoDownPos_frame (s s' : St) (c : Int) (g : Bool) (h : autoDownPos s c g = some s') : Frame s s' := by
  simp only [autoDownPos] at h
  split at h
  · exact cursorDown_frame s s' c h
  · cases h
    split
    · exact (historyForward_frame s c).trans (home_frame _)
    · exact historyForward_frame s c

/-- `auto_up`: nothing (count 0), the upward body (count ≥ 1) or the downward body with the
    negated count (count < 0) -/
theorem autoUp_cases (s s' : St) (c : Int) (g : Bool) (h : autoUp s c g = some s') :
    s' = s ∨ autoUpPos s c g = some s' ∨ autoDownPos s (-c) g = some s' := by
  simp only [autoUp] at h
  split at h
  · split at h
    · right; right; exact h
    · left; cases h; rfl
  · right; left; exact h

theorem autoDown_cases (s s' : St) (c : Int) (g : Bool) (h : autoDown s c g = some s') :
    s' = s ∨ autoDownPos s c g = some s' ∨ autoUpPos s (-c) g = some s' := by
  simp only [autoDown] at h
  split at h
  · split at h
    · right; right; exact h
    · left; cases h; rfl
  · right; left; exact h

theorem autoUp_frame (s s' : St) (c : Int) (g : Bool) (h : autoUp s c g = some s') : Frame s s' := by
  rcases autoUp_cases s s' c g h with rfl | h | h
  · exact Frame.refl _
  · exact autoUpPos_frame s s' c g h
  · exact autoDownPos_frame s s' _ g h

theorem autoDown_frame (s s' : St) (c : Int) (g : Bool) (h : autoDown s c g = some s') : Frame s s' := by
  rcases autoDown_cases s s' c g h with rfl | h | h
  · exact Frame.refl _
  · exact autoDownPos_frame s s' c g h
  · exact autoUpPos_frame s s' _ g h

theorem validate_frame (v : Validator) (s : St) (b : Bool) : Frame s (validate v s b).1 := by
  simp only [validate]
  split
  · exact Frame.refl s
  · split
    · split
      · have := setCursorPos_frame s (min (max 0 ‹Int›) s.text.length)
        simpa [Frame] using this
      · simp [Frame]
    · simp [Frame]

theorem setVerdict_frame (s : St) (r : Option Int) : Frame s (setVerdict s r) := by
  cases r <;> simp [Frame, setVerdict]

theorem vLoopTop_frame (v : Validator) (s : St) : Frame s (vLoopTop v s) := by
  simp only [vLoopTop]
  split
  · simp [Frame]
  · split
    · simp [Frame]
    · have := setVerdict_frame s (v s.text)
      simpa [Frame] using this

theorem vStart_frame (v : Validator) (s : St) : Frame s (vStart v s) := by
  simp only [vStart]
  split
  · exact Frame.refl s
  · split
    · simp [Frame]
    · exact Frame.trans (b := { s with vtasks := s.vtasks - 1 }) (by simp [Frame]) (vLoopTop_frame v _)

theorem vFinish_frame (v : Validator) (s : St) : Frame s (vFinish v s) := by
  simp only [vFinish]
  split
  · exact Frame.refl s
  · split
    · have := setVerdict_frame s (v ‹Text›)
      simpa [Frame] using this
    · exact vLoopTop_frame v s

theorem drainGo_frame (v : Validator) : ∀ (n : Nat) (s : St), Frame s (drainGo v n s) := by
  intro n
  induction n with
  | zero => intro s; exact Frame.refl s
  | succ n ih => intro s; exact (vStart_frame v s).trans (ih _)

theorem asyncValidate_frame (v : Validator) (s : St) : Frame s (asyncValidate v s) :=
  drainGo_frame v _ s

/-! ### validator progress (`vStart`, `vFinish`, a loop turn) touches only the validation fields -/

/-- validator progress touches only the four validation fields -/
def ValOnly (s t : St) : Prop :=
  t = { s with vstate := t.vstate, verr := t.verr, vtasks := t.vtasks, vrun := t.vrun }

theorem ValOnly.refl (s : St) : ValOnly s s := by cases s; rfl
theorem ValOnly.trans {a b c : St} (h1 : ValOnly a b) (h2 : ValOnly b c) : ValOnly a c := by
  unfold ValOnly at *; rw [h2, h1]
theorem ValOnly.text {s t : St} (h : ValOnly s t) : t.text = s.text := by
  unfold ValOnly at h; rw [h]; rfl
theorem ValOnly.fields {s t : St} (h : ValOnly s t) :
    t.work = s.work ∧ t.idx = s.idx ∧ t.cur = s.cur ∧ t.search = s.search ∧ t.hist = s.hist ∧
    t.storage = s.storage ∧ t.hloaded = s.hloaded ∧ t.pending = s.pending ∧ t.loading = s.loading ∧
    t.ehs = s.ehs ∧ t.vwt = s.vwt ∧ t.vasync = s.vasync ∧ t.pref = s.pref := by
  unfold ValOnly at h; rw [h]; simp

theorem setVerdict_valOnly (s : St) (r : Option Int) : ValOnly s (setVerdict s r) := by
  cases r <;> simp [ValOnly, setVerdict]

theorem vLoopTop_valOnly (v : Validator) (s : St) : ValOnly s (vLoopTop v s) := by
  simp only [vLoopTop]
  split
  · simp [ValOnly]
  · split
    · simp [ValOnly]
    · cases v s.text <;> simp [ValOnly, setVerdict]

theorem vStart_valOnly (v : Validator) (s : St) : ValOnly s (vStart v s) := by
  simp only [vStart]
  split
  · exact ValOnly.refl s
  · split
    · simp [ValOnly]
    · exact ValOnly.trans (b := { s with vtasks := s.vtasks - 1 }) (by simp [ValOnly]) (vLoopTop_valOnly v _)

theorem vFinish_valOnly (v : Validator) (s : St) : ValOnly s (vFinish v s) := by
  simp only [vFinish]
  split
  · exact ValOnly.refl s
  · split
    · exact ValOnly.trans (b := setVerdict s (v ‹Text›)) (setVerdict_valOnly _ _) (by simp [ValOnly])
    · exact vLoopTop_valOnly v s

theorem drainGo_valOnly (v : Validator) : ∀ (n : Nat) (s : St), ValOnly s (drainGo v n s) := by
  intro n
  induction n with
  | zero => intro s; exact ValOnly.refl s
  | succ n ih => intro s; exact (vStart_valOnly v s).trans (ih _)

theorem asyncValidate_valOnly (v : Validator) (s : St) : ValOnly s (asyncValidate v s) :=
  drainGo_valOnly v _ s

theorem appExit_valOnly (s : St) : ValOnly s (appExit s) := by simp [ValOnly, appExit]

theorem afterKey_valOnly (v : Validator) (s : St) (o : Out) : ValOnly s (afterKey v s o) := by
  cases o <;> simp only [afterKey]
  all_goals first
    | exact asyncValidate_valOnly v s
    | exact (asyncValidate_valOnly v s).trans (appExit_valOnly _)

theorem frame_of_valOnly {s t : St} (h : ValOnly s t) : Frame s t := by
  obtain ⟨h1, _, _, _, h5, h6, h7, h8, h9, _⟩ := h.fields
  exact ⟨h1, h5, h6, h7, h8, h9⟩

end Ptk.C14
