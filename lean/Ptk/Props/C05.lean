/-
  C05 — property theorems for the editor choke points (`Ptk.Model.C05`).
-/
import Ptk.Model.C05
namespace Ptk.C05
open Ptk.Py

/-- (c) assigning `InputMode.NAVIGATION` clears the pending operator and the digraph state. -/
theorem nav_clears_pending (v : Vi) :
    (v.setInputMode .navigation).mode = .navigation ∧
    (v.setInputMode .navigation).opPending = false ∧
    (v.setInputMode .navigation).opArg = none ∧
    (v.setInputMode .navigation).waitingDigraph = false ∧
    (v.setInputMode .navigation).digraph1 = none := by
  simp [Vi.setInputMode]

end Ptk.C05
