/-
  C05 — property theorems for the choke points of the line editor (`Ptk.Model.C05`).

  The property ("no key sequence can crash the editor or break its state invariants") quantifies
  over ~600 key bindings; these theorems cover the handful of places through which every handler
  acts (DESIGN.md §7 C05, PARTIAL):

  (a) the state-writing API of `Buffer`: for EVERY program over it the invariant `Inv` holds
      (`0 ≤ cursor ≤ len(text)`, selection anchor and multiple cursors inside the text, undo/redo
      entries well formed), every text change clears the selection and the multiple cursors, undo /
      redo / insert / delete / history navigation never build an ill-formed `Document` and never
      index outside the working lines;
  (b) `_fix_vi_cursor_position` after an ARBITRARY handler;
  (c) the `ViState.input_mode` setter;
  (d) `EditReadOnlyBuffer` never leaves `_call_handler`;
  (e) accept hands exactly the buffer text of that moment to `Application.exit`.

  "No exception escapes" and the invariants of the individual handlers (in particular the writes
  pinned by `bypass_pin`) are decided by search on the real editor (harness/c05.py), not here.
-/
import Ptk.Props.C05Lemmas
import Ptk.Gen.C05
namespace Ptk.C05
open Ptk.Py

/-! ### concrete states used by the non-vacuity examples -/

/-- a non-trivial buffer: three working lines, the cursor inside a two-line text, a selection, two
    multiple cursors, one undo and one redo entry -/
def exBuf : Buf :=
  { lines := ["one".toList, "ab\ncd".toList, "z".toList], idx := 1, cur := 2, sel := some ⟨4, 0⟩,
    multi := [1, 3], undo := [("ab".toList, 2)], redo := [("abc".toList, 0)], readOnly := false,
    hsearch := none, enableHS := false }

theorem exBuf_inv : Inv exBuf := by
  refine ⟨by decide, by decide, ?_, ?_, ?_, ?_⟩
  · intro s hs
    have : s = ⟨4, 0⟩ := by simpa [exBuf] using hs.symm
    subst this; decide
  · intro p hp
    have : p = 1 ∨ p = 3 := by simpa [exBuf] using hp
    rcases this with rfl | rfl <;> decide
  · intro e he
    have : e = ("ab".toList, 2) := by simpa [exBuf] using he
    subst this; decide
  · intro e he
    have : e = ("abc".toList, 0) := by simpa [exBuf] using he
    subst this; decide

/-- a program over the API touching text, selection, undo/redo and history -/
def exProg : List Op :=
  [.insertText "xy".toList false true, .startSelection 1, .saveUndo true, .historyBackward 1, .undo,
   .setText "q".toList, .deleteBefore 5, .redo, .moveCursor (-7), .goToHistory 2, .delete 3]

/-- Vi navigation mode, cursor resting past the last character of the line "ab" (what a handler
    like `$` or `A`+Escape leaves behind) -/
def exApp : App :=
  { buf := { exBuf with sel := none, multi := [] },
    vi := { mode := .navigation, opPending := false, opArg := none, waitingDigraph := false,
            digraph1 := none, tempNav := false, recording := none, curRecording := [] },
    viMode := true, arg := some ['3'] }

/-- insert mode with an operator, a digraph and its first symbol pending -/
def exVi : Vi :=
  { mode := .insert, opPending := true, opArg := some 3, waitingDigraph := true, digraph1 := some ['a'],
    tempNav := false, recording := none, curRecording := [] }

/-! ### (a) the Buffer API -/

/-- One API call keeps the invariant (whatever its arguments), unless it ends with the IndexError of
    an out-of-range working index.  In particular after a swallowed `EditReadOnlyBuffer` and after an
    `AssertionError` of an ill-formed `Document` the state is still consistent. -/
theorem api_step_inv (b : Buf) (op : Op) (h : Inv b) (ho : (step b op).2 ≠ .indexError) :
    Inv (step b op).1 :=
  step_inv b op h ho

example : Inv (step exBuf (.setDocument "new text".toList (-3) false)).1 :=
  api_step_inv exBuf _ exBuf_inv (by decide)

/-- **For every program over the Buffer API** (any finite sequence of calls with any arguments,
    stopped by the first exception): the invariant holds in the state it leaves behind. -/
theorem api_inv (b : Buf) (ops : List Op) (h : Inv b) (ho : (run b ops).2 ≠ .indexError) :
    Inv (run b ops).1 :=
  run_inv_aux ops b h ho

-- the example program runs to its end, changes text / index / selection / stacks, and the theorem applies
example : (run exBuf exProg).2 = .ok ∧ (run exBuf exProg).1.text = "z".toList ∧ (run exBuf exProg).1.idx = 2 ∧
    (run exBuf exProg).1.sel = none ∧ (run exBuf exProg).1.undo.length = 2 := by decide
example : Inv (run exBuf exProg).1 := api_inv exBuf exProg exBuf_inv (by decide)
-- a program that a read-only buffer stops with EditReadOnlyBuffer: still covered
example : (run { exBuf with readOnly := true } [.moveCursor 1, .setText ['q'], .moveCursor 9]).2 = .readOnly := by
  decide

/-- The statement of the property, spelled out: cursor, selection anchor and every multiple-cursor
    position are inside the text after every API program. -/
theorem api_positions_in_text (b : Buf) (ops : List Op) (h : Inv b) (ho : (run b ops).2 ≠ .indexError) :
    let b' := (run b ops).1
    b'.cur ≤ b'.text.length ∧
    (∀ s, b'.sel = some s → 0 ≤ s.anchor ∧ s.anchor ≤ (b'.text.length : Int)) ∧
    (∀ p ∈ b'.multi, 0 ≤ p ∧ p ≤ (b'.text.length : Int)) := by
  have hi := api_inv b ops h ho
  exact ⟨hi.cur, hi.sel, hi.multi⟩

example : (run exBuf exProg).1.cur ≤ (run exBuf exProg).1.text.length :=
  (api_positions_in_text exBuf exProg exBuf_inv (by decide)).1

/-- **Every text change clears the selection and the multiple cursors** (`_text_changed`): if an API
    call leaves a different text, there is no selection and no multiple cursor afterwards. -/
theorem api_text_change_clears (b : Buf) (op : Op) (hi : b.idx < b.lines.length)
    (ho : (step b op).2 ≠ .indexError) (hne : (step b op).1.text ≠ b.text) :
    (step b op).1.sel = none ∧ (step b op).1.multi = [] := by
  rcases step_same_or_cleared b op hi ho with h | h
  · exact absurd h hne
  · exact h

-- exBuf has a selection and two multiple cursors; inserting changes the text and clears both
example : (step exBuf (.insertText ['x'] false true)).1.text ≠ exBuf.text := by decide
example : (step exBuf (.insertText ['x'] false true)).1.sel = none ∧
    (step exBuf (.insertText ['x'] false true)).1.multi = [] :=
  api_text_change_clears exBuf _ (by decide) (by decide) (by decide)
-- a pure cursor move keeps them (so the conclusion is not trivially true of every call)
example : (step exBuf (.moveCursor 1)).1.sel = some ⟨4, 0⟩ := by decide

/-- an API call whose `Document` arguments are well formed (`cursor ≤ len(text)`) -/
def Op.wellFormed : Op → Prop
  | .setDocument t c _ => c ≤ (t.length : Int)
  | .reset t c => c ≤ t.length
  | .cutSelection t c => c ≤ (t.length : Int)
  | _ => True

/-- **No `AssertionError` from inside the API**: `Document(text, cursor)` is only ever built with
    `cursor ≤ len(text)` by insert / delete / undo / redo / history navigation (the undo and redo
    stacks hold well-formed pairs), so only an ill-formed `Document` handed in by the caller asserts. -/
theorem api_no_assertion (b : Buf) (op : Op) (h : Inv b) (hw : op.wellFormed) :
    (step b op).2 ≠ .assertion := by
  cases op with
  | setCursor v => simp [step]
  | setText t => rcases setText_outcome b t with h1 | h1 <;> simp [step, h1]
  | setDocument t c bp => exact (setDocument_outcome b t c bp).2 hw
  | setWorkingIndex i => rcases setWorkingIndex_outcome_cases b i with h1 | h1 <;> simp [step, h1]
  | reset t c =>
    simp only [step, reset]
    have : ¬ c > t.length := by simp only [Op.wellFormed] at hw; omega
    rw [if_neg this]; simp
  | saveUndo cl => simp [step]
  | undo => exact (undo_inv b h).2.2
  | redo => exact (redo_inv b h).2.2
  | startSelection ty => simp [step]
  | exitSelection => simp [step]
  | appendLeft it => simp [step]
  | moveCursor d => simp [step]
  | insertText d o m => exact (insertText_inv b d o m h).2.2
  | delete n => rcases (delete_inv b n h).2 with h1 | h1 <;> simp [step, h1]
  | deleteBefore n => exact (deleteBefore_inv b n h).2.2
  | historyForward c => simp [step, (historyForward_inv b c h).2]
  | historyBackward c => simp [step, (historyBackward_inv b c h).2]
  | goToHistory i => simp [step, (goToHistory_inv b i h).2]
  | applySearch i c =>
    simp only [step, applySearchResult]
    rcases setWorkingIndex_outcome_cases b i with h1 | h1 <;>
      (revert h1; generalize setWorkingIndex b i = r; obtain ⟨b1, o⟩ := r; intro h1;
       have h1' : o = _ := h1; subst h1'; simp [andThen])
  | cutSelection t c =>
    simp only [step, cutSelection]
    have h1 := (setDocument_outcome b t c false).2 hw
    revert h1; generalize setDocument b t c false = r; obtain ⟨b1, o⟩ := r; intro h1
    cases o <;> simp_all [andThen]

example : (step exBuf .undo).2 ≠ .assertion := api_no_assertion exBuf .undo exBuf_inv trivial
-- the hypothesis matters: an ill-formed Document handed in by the caller does assert
example : (step exBuf (.setDocument ['a'] 2 false)).2 = .assertion := by decide
-- and a stack entry that is not well formed (excluded by `Inv`) makes `undo` assert
example : (step { exBuf with undo := [(['a'], 5)] } .undo).2 = .assertion := by decide

/-- **An `IndexError` can only come from a caller-supplied working index outside the working
    lines**: history navigation, `go_to_history`, undo, redo, … never index outside. -/
theorem api_indexError_only_bad_index (b : Buf) (op : Op) (h : Inv b)
    (he : (step b op).2 = .indexError) :
    ∃ i, b.lines.length ≤ i ∧ (op = .setWorkingIndex i ∨ ∃ c, op = .applySearch i c) := by
  cases op with
  | setWorkingIndex i =>
    refine ⟨i, ?_, Or.inl rfl⟩
    rcases Nat.lt_or_ge i b.lines.length with hi | hi
    · have := setWorkingIndex_outcome b i hi; simp [step, this] at he
    · exact hi
  | applySearch i c =>
    refine ⟨i, ?_, Or.inr ⟨c, rfl⟩⟩
    rcases Nat.lt_or_ge i b.lines.length with hi | hi
    · have h1 := setWorkingIndex_outcome b i hi
      simp only [step, applySearchResult] at he
      revert he h1; generalize setWorkingIndex b i = r; obtain ⟨b1, o⟩ := r; intro he h1
      have h1' : o = .ok := h1
      subst h1'; simp [andThen] at he
    · exact hi
  | setCursor v => simp [step] at he
  | setText t => rcases setText_outcome b t with h1 | h1 <;> simp [step, h1] at he
  | setDocument t c bp => exact absurd he (setDocument_outcome b t c bp).1
  | reset t c => simp only [step, reset] at he; split at he <;> simp at he
  | saveUndo cl => simp [step] at he
  | undo => exact absurd he (undo_inv b h).2.1
  | redo => exact absurd he (redo_inv b h).2.1
  | startSelection ty => simp [step] at he
  | exitSelection => simp [step] at he
  | appendLeft it => simp [step] at he
  | moveCursor d => simp [step] at he
  | insertText d o m => exact absurd he (insertText_inv b d o m h).2.1
  | delete n => rcases (delete_inv b n h).2 with h1 | h1 <;> simp [step, h1] at he
  | deleteBefore n => exact absurd he (deleteBefore_inv b n h).2.1
  | historyForward c => simp [step, (historyForward_inv b c h).2] at he
  | historyBackward c => simp [step, (historyBackward_inv b c h).2] at he
  | goToHistory i => simp [step, (goToHistory_inv b i h).2] at he
  | cutSelection t c => exact absurd he (cutSelection_inv b t c h).2

example : (step exBuf (.setWorkingIndex 3)).2 = .indexError := by decide
example : (step exBuf (.setWorkingIndex 2)).2 = .ok := by decide

/-- a by-passing write whose positions are inside the current text -/
def Raw.inRange (b : Buf) : Raw → Prop
  | .selWrite a _ => 0 ≤ a ∧ a ≤ (b.text.length : Int)
  | .multi ps => ∀ p ∈ ps, 0 ≤ p ∧ p ≤ (b.text.length : Int)
  | .hsearch _ => True

/-- The writes that by-pass the API (pinned by `bypass_pin`) keep the invariant exactly when the
    positions they store are inside the text — that obligation is left to the handlers (search). -/
theorem raw_inv (b : Buf) (r : Raw) (h : Inv b) (hr : r.inRange b) : Inv (stepRaw b r) := by
  cases r with
  | selWrite a t =>
    refine ⟨h.idx, h.cur, ?_, h.multi, h.undo, h.redo⟩
    intro s hs
    simp [stepRaw] at hs
    subst hs
    exact hr
  | multi ps => exact ⟨h.idx, h.cur, h.sel, hr, h.undo, h.redo⟩
  | hsearch v => exact ⟨h.idx, h.cur, h.sel, h.multi, h.undo, h.redo⟩

example : Inv (stepRaw exBuf (.multi [0, 5])) := raw_inv exBuf _ exBuf_inv (by
  intro p hp
  have : p = 0 ∨ p = 5 := by simpa using hp
  rcases this with rfl | rfl <;> decide)
-- an out-of-range by-passing write does break the invariant: `Inv` is not vacuous
example : ¬ Inv (stepRaw exBuf (.multi [9])) := by
  intro h
  have := h.multi 9 (by simp [stepRaw])
  revert this; decide

/-! ### (b), (d) the key processor -/

/-- **`_fix_vi_cursor_position`, for an arbitrary handler**: whatever state `a` the handler left
    (cursor inside the text), after the fix the cursor does not rest past the last character of a
    non-empty line whenever the Vi navigation filter is on. -/
theorem fix_vi_cursor_post (a : App) (hc : a.buf.cur ≤ a.buf.text.length)
    (hn : viNavigationMode (fixViCursor a) = true) : ¬ PastEnd (fixViCursor a).buf :=
  fixViCursor_not_pastEnd a hc hn

-- in exApp the cursor (2) rests on the line end of "ab": the fix moves it to 1
example : PastEnd exApp.buf := by unfold PastEnd; decide
example : (fixViCursor exApp).buf.cur = 1 := by decide
example : ¬ PastEnd (fixViCursor exApp).buf := fix_vi_cursor_post exApp (by decide) (by decide)

/-- The same through `_call_handler`: if the handler `h` (ANY state transformer) returns normally and
    leaves the cursor inside the text, then in Vi navigation mode the cursor is not past the last
    character of a non-empty line when `_call_handler` returns. -/
theorem call_handler_fix_post (h : App → App × Outcome) (sb : Bool) (a : App)
    (hok : (h (if sb then { a with arg := none, buf := saveUndo a.buf true } else { a with arg := none })).2 = .ok)
    (hc : (h (if sb then { a with arg := none, buf := saveUndo a.buf true } else { a with arg := none })).1.buf.cur
          ≤ (h (if sb then { a with arg := none, buf := saveUndo a.buf true } else { a with arg := none })).1.buf.text.length)
    (hn : viNavigationMode (callHandler h sb a).1 = true) :
    ¬ PastEnd (callHandler h sb a).1.buf := by
  unfold callHandler at *
  simp only [] at *
  revert hok hc hn
  generalize h (if sb = true then { a with arg := none, buf := saveUndo a.buf true } else { a with arg := none }) = r
  obtain ⟨a2, o⟩ := r
  intro hok hc hn
  have hok' : o = .ok := hok
  subst hok'
  simp only [] at hc hn ⊢
  by_cases ht : a.vi.tempNav = true
  · rw [if_pos ht] at hn ⊢
    rw [leaveTempNav_buf]
    exact fixViCursor_not_pastEnd a2 hc (viNav_of_leaveTempNav _ hn)
  · rw [if_neg ht] at hn ⊢
    exact fixViCursor_not_pastEnd a2 hc hn

-- a handler that moves to the end of the second line ("cd", cursor 5 = end of text)
example : ((callHandler (fun a => hrun a [.buf (.setCursor 5)]) true exApp).1.buf.cur,
           (callHandler (fun a => hrun a [.buf (.setCursor 5)]) true exApp).1.arg) = (4, none) := by decide
example : ¬ PastEnd (callHandler (fun a => hrun a [.buf (.setCursor 5)]) true exApp).1.buf :=
  call_handler_fix_post _ true exApp (by decide) (by decide) (by decide)

/-- **(d) `EditReadOnlyBuffer` never leaves `_call_handler`**: whatever the handler does. -/
theorem readonly_swallowed (h : App → App × Outcome) (sb : Bool) (a : App) :
    (callHandler h sb a).2 ≠ .readOnly := by
  unfold callHandler
  simp only []
  generalize h _ = r
  obtain ⟨a2, o⟩ := r
  cases o <;> simp

/-- … and a handler that raises it is reported as a normal return. -/
theorem readonly_becomes_ok (h : App → App × Outcome) (sb : Bool) (a : App)
    (hro : (h (if sb then { a with arg := none, buf := saveUndo a.buf true } else { a with arg := none })).2 = .readOnly) :
    (callHandler h sb a).2 = .ok := by
  unfold callHandler
  simp only []
  revert hro
  generalize h _ = r
  obtain ⟨a2, o⟩ := r
  intro hro
  have : o = .readOnly := hro
  subst this
  rfl

-- a handler editing a read-only buffer: the program stops with EditReadOnlyBuffer, _call_handler returns normally
example : (hrun { exApp with buf := { exApp.buf with readOnly := true } } [.buf (.setText ['q'])]).2 = .readOnly := by
  decide
example : (callHandler (fun a => hrun a [.buf (.setText ['q'])]) false
            { exApp with buf := { exApp.buf with readOnly := true } }).2 = .ok := by decide

/-- `_call_handler` with a handler that is a program over the Buffer API and the Vi state (no
    by-passing write) keeps the buffer invariant — also when the program stops with
    `EditReadOnlyBuffer` half-way, and with the `save_to_undo_stack` / cursor fix around it. -/
theorem call_handler_inv (prog : List HOp) (hapi : ∀ op ∈ prog, op.isApi = true) (sb : Bool) (a : App)
    (hinv : Inv a.buf) (ho : (callHandler (fun a => hrun a prog) sb a).2 ≠ .indexError) :
    Inv (callHandler (fun a => hrun a prog) sb a).1.buf := by
  unfold callHandler at *
  simp only [] at *
  have h1 : Inv (if sb = true then { a with arg := none, buf := saveUndo a.buf true }
                 else { a with arg := none }).buf := by
    split
    · exact saveUndo_inv _ _ hinv
    · exact hinv
  have hr := hrun_inv prog _ hapi h1
  revert ho hr
  generalize hrun _ prog = r
  obtain ⟨a2, o⟩ := r
  intro ho hr
  cases o <;> simp only [] at ho hr ⊢
  · have h3 := fixViCursor_inv a2 (hr (by simp))
    split
    · rw [leaveTempNav_buf]; exact h3
    · exact h3
  · split
    · rw [leaveTempNav_buf]; exact hr (by simp)
    · exact hr (by simp)
  · exact hr (by simp)
  · exact absurd rfl ho

example : Inv (callHandler (fun a => hrun a [.buf (.insertText ['x', 'y'] true true), .setMode .insert,
                                            .buf (.startSelection 2), .buf .undo]) true
              { exApp with buf := exBuf }).1.buf :=
  call_handler_inv _ (by decide) true { exApp with buf := exBuf } exBuf_inv (by decide)

/-- a handler op whose by-passing writes (if any) store positions inside the text of the state it
    is applied to -/
def HOp.safeAt (a : App) : HOp → Prop
  | .raw r => r.inRange a.buf
  | _ => True

/-- every op of the program is safe at the state in which it is executed -/
def SafeProg : App → List HOp → Prop
  | _, [] => True
  | a, op :: ops => op.safeAt a ∧ ((hstep a op).2 = .ok → SafeProg (hstep a op).1 ops)

theorem hstep_inv_safe (a : App) (op : HOp) (hs : op.safeAt a) (h : Inv a.buf)
    (ho : (hstep a op).2 ≠ .indexError) : Inv (hstep a op).1.buf := by
  cases op with
  | raw r => exact raw_inv a.buf r h hs
  | buf o => exact hstep_inv a (.buf o) rfl h ho
  | setMode m => exact h
  | setOp p g => exact h
  | setDigraph w s => exact h
  | setTempNav t => exact h
  | setArg g => exact h
  | viReset => exact h

/-- **Handlers that also use the pinned by-passing writes** keep the invariant as long as every such
    write stores positions inside the text of that moment (the obligation the search checks on the
    real handlers). -/
theorem handler_inv_with_safe_bypass : ∀ (prog : List HOp) (a : App), SafeProg a prog → Inv a.buf →
    (hrun a prog).2 ≠ .indexError → Inv (hrun a prog).1.buf
  | [], a, _, h, _ => h
  | op :: ops, a, hsafe, h, ho => by
    unfold hrun at *
    have hs := hstep_inv_safe a op hsafe.1 h
    have hrest := hsafe.2
    revert hs ho hrest
    generalize hstep a op = r
    obtain ⟨a1, o⟩ := r
    intro ho hs hrest
    cases o <;> simp only [] at ho hrest ⊢
    · exact handler_inv_with_safe_bypass ops a1 (hrest trivial) (hs (by simp)) ho
    · exact hs (by simp)
    · exact hs (by simp)
    · exact absurd rfl ho

-- block insert: set two cursors inside "ab\ncd", insert at both (text change clears them), set the shifted ones
example : Inv (hrun { exApp with buf := exBuf }
    [.raw (.multi [0, 3]), .buf (.setText "xab\nxcd".toList), .raw (.multi [1, 5]), .buf (.moveCursor 1)]).1.buf :=
  handler_inv_with_safe_bypass _ _ (by
    refine ⟨?_, fun _ => ⟨trivial, fun _ => ⟨?_, fun _ => ⟨trivial, fun _ => trivial⟩⟩⟩⟩
    · intro p hp
      have : p = 0 ∨ p = 3 := by simpa using hp
      rcases this with rfl | rfl <;> decide
    · intro p hp
      have : p = 1 ∨ p = 5 := by simpa using hp
      rcases this with rfl | rfl <;> decide) exBuf_inv (by decide)


/-! ### (c) the Vi state -/

/-- **(c) assigning `InputMode.NAVIGATION` clears the pending operator and the digraph state**
    (including the half-entered first digraph symbol, fix fb01c78). -/
theorem nav_clears_pending (v : Vi) :
    (v.setInputMode .navigation).mode = .navigation ∧
    (v.setInputMode .navigation).opPending = false ∧
    (v.setInputMode .navigation).opArg = none ∧
    (v.setInputMode .navigation).waitingDigraph = false ∧
    (v.setInputMode .navigation).digraph1 = none := by
  simp [Vi.setInputMode]

example : exVi.opPending = true ∧ exVi.waitingDigraph = true ∧ exVi.digraph1 = some ['a'] := by decide
example : (exVi.setInputMode .navigation).digraph1 = none := (nav_clears_pending exVi).2.2.2.2

/-- `ViState.reset()`: insert mode, nothing pending, not recording. -/
theorem reset_clears_pending (v : Vi) :
    v.reset.mode = .insert ∧ v.reset.opPending = false ∧ v.reset.opArg = none ∧
    v.reset.waitingDigraph = false ∧ v.reset.digraph1 = none ∧ v.reset.recording = none := by
  simp [Vi.reset, Vi.setInputMode]

example : exVi.reset.opArg = none := (reset_clears_pending exVi).2.2.1

/-- the other modes leave the pending state alone (the setter only clears on NAVIGATION) -/
theorem other_modes_keep_pending (v : Vi) (m : InputMode) (hm : m ≠ .navigation) :
    (v.setInputMode m).opPending = v.opPending ∧ (v.setInputMode m).waitingDigraph = v.waitingDigraph ∧
    (v.setInputMode m).digraph1 = v.digraph1 := by
  simp [Vi.setInputMode, hm]

example : (exVi.setInputMode .replace).opPending = true := by decide

/-- PARTIAL (Escape).  Full statement of the property: "outside a quoted insert, EVERY Escape key
    press brings Vi to navigation mode with no pending operator or digraph".  That is false of the
    current code when the Escape is consumed as the `<any>` argument of a pending multi-key binding
    (known finding, witness `C-o f Esc`: ends in INSERT mode; key dispatch is not modelled here, the
    search reports it under its own signature).  What holds, and is proved: whenever the Escape
    binding of vi.py is the handler that runs (`_back_to_navigation`: optional cursor-left,
    `input_mode = NAVIGATION`, `exit_selection()`), the editor ends in Vi navigation mode (the
    filter is on) with no pending operator or digraph and no selection. -/
theorem back_to_navigation_post_partial (a : App) (d : Int) (hvi : a.viMode = true) :
    let r := hrun a [.buf (.moveCursor d), .setMode .navigation, .buf .exitSelection]
    r.2 = .ok ∧ r.1.vi.mode = .navigation ∧ r.1.vi.opPending = false ∧ r.1.vi.opArg = none ∧
    r.1.vi.waitingDigraph = false ∧ r.1.vi.digraph1 = none ∧ r.1.buf.sel = none ∧
    viNavigationMode r.1 = true := by
  simp [hrun, hstep, step, Vi.setInputMode, exitSelection, viNavigationMode, hvi]

example : (hrun { exApp with vi := exVi, buf := exBuf } [.buf (.moveCursor (-1)), .setMode .navigation,
                                                      .buf .exitSelection]).1.vi.opPending = false :=
  (back_to_navigation_post_partial { exApp with vi := exVi, buf := exBuf } (-1) rfl).2.2.1

/-! ### (e) accept -/

/-- **(e) the value handed to `Application.exit` is exactly the buffer text of that moment**, and
    accepting does not touch the buffer (`keep_text = True`). -/
theorem accept_returns_text (validator : Text → Nat → Option Int) (b b' : Buf) (t : Text)
    (h : validateAndHandle validator b = (b', some t)) : t = b.text ∧ b' = b := by
  unfold validateAndHandle at h
  split at h
  · simp at h
  · simp at h; exact ⟨h.2.symm, h.1.symm⟩

example : validateAndHandle (fun _ _ => none) exBuf = (exBuf, some "ab\ncd".toList) := by decide

/-- a failing validator: nothing is returned, the text is untouched, the invariant is kept -/
theorem reject_keeps_text (validator : Text → Nat → Option Int) (b : Buf) (hinv : Inv b)
    (h : (validateAndHandle validator b).2 = none) :
    (validateAndHandle validator b).1.text = b.text ∧ Inv (validateAndHandle validator b).1 := by
  unfold validateAndHandle at *
  split
  · exact ⟨setCursor_text _ _, setCursor_inv _ _ hinv⟩
  · rename_i hv; rw [hv] at h; simp at h

example : (validateAndHandle (fun _ _ => some 99) exBuf).2 = none ∧
    (validateAndHandle (fun _ _ => some 99) exBuf).1.cur = 5 := by decide

/-! ### the source pin -/

/-- **AST pin**: the writes to Buffer state outside buffer.py that do not go through the API are
    exactly these (re-extracted from the current tree by harness/gen_c05.py on every run): the Vi
    text objects / visual-mode keys writing `selection_state.original_cursor_position` / `.type`, the
    block-insert handlers writing `multiple_cursor_positions`, and the `SelectionState` constructor.
    A new by-pass breaks this theorem. -/
theorem bypass_pin : Gen.C05.bypassSites = [
  "key_binding/bindings/vi.py::create_text_object_decorator.text_object_decorator.decorator._move_in_selection_mode::selection_state.original_cursor_position::assign",
  "key_binding/bindings/vi.py::create_text_object_decorator.text_object_decorator.decorator._move_in_selection_mode::selection_state.type::assign",
  "key_binding/bindings/vi.py::create_text_object_decorator.text_object_decorator.decorator._move_in_selection_mode::selection_state.type::assign",
  "key_binding/bindings/vi.py::load_vi_bindings._delete_after_multiple_cursors::buff.multiple_cursor_positions::assign",
  "key_binding/bindings/vi.py::load_vi_bindings._delete_before_multiple_cursors::buff.multiple_cursor_positions::assign",
  "key_binding/bindings/vi.py::load_vi_bindings._insert_text_multiple_cursors::buff.multiple_cursor_positions::assign",
  "key_binding/bindings/vi.py::load_vi_bindings._left_multiple::buff.multiple_cursor_positions::assign",
  "key_binding/bindings/vi.py::load_vi_bindings._right_multiple::buff.multiple_cursor_positions::assign",
  "key_binding/bindings/vi.py::load_vi_bindings._visual2::selection_state.type::assign",
  "key_binding/bindings/vi.py::load_vi_bindings._visual_auto_word::buffer.selection_state.type::assign",
  "key_binding/bindings/vi.py::load_vi_bindings._visual_block2::selection_state.type::assign",
  "key_binding/bindings/vi.py::load_vi_bindings._visual_line2::selection_state.type::assign",
  "key_binding/bindings/vi.py::load_vi_bindings.insert_in_block_selection::buff.multiple_cursor_positions::assign",
  "selection.py::SelectionState.__init__::self.original_cursor_position::assign"] := by
  rfl

end Ptk.C05
