/-
  C09, second part — `Document.paste_clipboard_data` and the Vi registers:
  "deleting or yanking into the unnamed or a named register stores exactly the affected text
   with its type, and pasting inserts it unchanged the requested number of times".
-/
import Ptk.Props.C09
namespace Ptk.C09
open Ptk.Py

/-! ### paste inserts the data `count` times, unchanged -/

/-- **A non-positive count pastes nothing.**  For every data type and paste mode,
    `paste_clipboard_data(count <= 0)` is the identity on the document (text and cursor). -/
theorem paste_nonpositive (b : Buf) (d : Clip) (mode : PasteMode) (count : Int) (h : count ≤ 0) :
    pasteRaw b d mode count = (b.text, (b.cur : Int)) ∧ (pasteBuf b d mode count) = b := by
  refine ⟨pasteRaw_nonpos b d mode count h, ?_⟩
  simp [pasteBuf, pasteRaw_nonpos b d mode count h]

/-- **paste_inserts_n_times, CHARACTERS.**  For every count (a count `≤ 0` means zero times) the
    new text is the old text with `data.text` repeated `count` times inserted at the cursor (Emacs
    yank, Vi `P`) or one character after it (Vi `p`); nothing else changes.  For a positive count
    the cursor ends after the inserted text (one before it for `P`). -/
theorem paste_chars (b : Buf) (d : Clip) (hty : d.ty = .chars) (mode : PasteMode) (count : Int) :
    let q := if mode = .viAfter then b.cur + 1 else b.cur
    (pasteRaw b d mode count).1 = b.text.take q ++ repeatText d.text count.toNat ++ b.text.drop q ∧
    (0 < count → (pasteRaw b d mode count).2 =
      (b.cur : Int) + (d.text.length : Int) * count - (if mode = .viBefore then 1 else 0)) := by
  by_cases hc : count ≤ 0
  · have h0 : count.toNat = 0 := by omega
    simp only [pasteRaw_nonpos b d mode count hc, h0, repeatText]
    exact ⟨by simp, fun h => by omega⟩
  · simp only [pasteRaw, if_neg hc, hty, rep, Buf.before, Buf.after]
    cases mode <;> simp

example : (pasteRaw { text := "abc".toList, cur := 1 } ⟨"XY".toList, .chars⟩ .viAfter 2).1 = "abXYXYc".toList := by
  decide

/-- **paste_inserts_n_times, LINES.**  For every count (`≤ 0` = zero copies, the text is then
    unchanged) the lines of the new text are the old lines with
    `count` copies of the data (split at its own newlines) inserted above the cursor line (`P`) or
    below it (`p`, Emacs yank); every old line is kept unchanged and in order. -/
theorem paste_lines (b : Buf) (d : Clip) (hty : d.ty = .lines) (mode : PasteMode) (count : Int) :
    let lines := splitOn '\n' b.text
    let k := if mode = .viBefore then row b else row b + 1
    splitOn '\n' (pasteRaw b d mode count).1 =
      lines.take k ++ (List.replicate count.toNat d.text).flatMap (splitOn '\n') ++ lines.drop k := by
  by_cases hc : count ≤ 0
  · have h0 : count.toNat = 0 := by omega
    simp only [pasteRaw_nonpos b d mode count hc, h0, List.replicate_zero, List.flatMap_nil, List.append_nil,
      List.take_append_drop]
  simp only [pasteRaw, if_neg hc, hty]
  have hne : splitOn '\n' b.text ≠ [] := splitOn_ne_nil _ _
  have hl : ∀ l ∈ splitOn '\n' b.text, '\n' ∉ l := not_mem_of_mem_splitOn _ _
  have key : ∀ k, splitOn '\n' (join ['\n'] ((splitOn '\n' b.text).take k ++ List.replicate count.toNat d.text
        ++ (splitOn '\n' b.text).drop k)) =
      (splitOn '\n' b.text).take k ++ (List.replicate count.toNat d.text).flatMap (splitOn '\n')
        ++ (splitOn '\n' b.text).drop k := by
    intro k
    rw [splitOn_join]
    · simp only [List.flatMap_append]
      rw [flatMap_splitOn_lines _ _ (fun l hl' => hl l (List.mem_of_mem_take hl')),
          flatMap_splitOn_lines _ _ (fun l hl' => hl l (List.mem_of_mem_drop hl'))]
    · intro h
      have h1 : (splitOn '\n' b.text).take k = [] := by simp_all
      have h2 : (splitOn '\n' b.text).drop k = [] := by simp_all
      have := List.take_append_drop k (splitOn '\n' b.text)
      rw [h1, h2] at this
      exact hne this.symm
  split
  · exact key _
  · exact key _

example : (pasteRaw { text := "a\nb".toList, cur := 0 } ⟨"X".toList, .lines⟩ .viAfter 2).1 = "a\nX\nX\nb".toList := by
  decide

/-- **paste_inserts_n_times, BLOCK** (positive count; see `paste_nonpositive` otherwise).  Data line `i` is inserted, `count` times, into buffer line
    `row + i` at the paste column (the line is first padded with spaces up to that column; a line
    below the end of the buffer is created); all other lines are unchanged. -/
theorem paste_block (b : Buf) (d : Clip) (hty : d.ty = .block) (mode : PasteMode) (count : Int)
    (hpos : 0 < count) :
    let lines := splitOn '\n' b.text
    let ds := splitOn '\n' d.text
    let scol := col b + (if mode = .viBefore then 0 else 1)
    ∃ res, (pasteRaw b d mode count).1 = join ['\n'] res ∧
      res.length = max lines.length (row b + ds.length) ∧
      (∀ j, j < row b → res[j]? = lines[j]?) ∧
      (∀ i, i < ds.length →
        res[row b + i]? = some (insAt scol count ((lines[row b + i]?).getD []) ((ds[i]?).getD []))) ∧
      (∀ j, row b + ds.length ≤ j → res[j]? = lines[j]?) := by
  simp only [pasteRaw, if_neg (show ¬ count ≤ 0 by omega), hty]
  exact ⟨_, rfl, blockGo_spec _ count _ (row b) _ (Nat.le_of_lt (row_lt_lines b))⟩

example : (pasteRaw { text := "ab\nc".toList, cur := 1 } ⟨"X\nY\nZ".toList, .block⟩ .viAfter 2).1
    = "abXX\nc YY\n  ZZ".toList := by decide

/-! ### `x`, `X`, `s`, `D`: the removed characters go to the unnamed register -/

/-- the buffer a counted Vi command sees: the digits of the count are key presses of their own,
    after which `_fix_vi_cursor_position` has run -/
def seen (s : VSt) (count : Option Nat) : Buf := if count.isSome then fixNav s.buf else s.buf

theorem seen_wf (s : VSt) (h : WF s.buf) (count : Option Nat) : WF (seen s count) := by
  unfold seen; split
  · exact fixNav_wf _ h
  · exact h

/-- **register_stores_span (x).**  `[count]x` removes exactly the `k = min(count, rest of line)`
    characters under and after the cursor; they are the new top of the unnamed register (type
    CHARACTERS), and putting them back at the cursor gives the old text.  With `k = 0` nothing
    happens. -/
theorem vi_x_stores (max : Nat) (hmax : 0 < max) (s : VSt) (hwf : WF s.buf) (count : Option Nat) :
    let b := seen s count
    let k := min (viCount count) (lineAfter b).length
    let s' := vstep max s count .x
    s'.regs = s.regs ∧ s'.buf.text = b.before ++ b.after.drop k ∧
    (k ≠ 0 → getData s'.ring = { text := b.after.take k, ty := .chars } ∧
             b.text = reinsert s'.buf.text b.cur (b.after.take k)) ∧
    (k = 0 → s'.ring = s.ring) := by
  have hwb := seen_wf s hwf count
  simp only [vstep]
  simp only [show (if count.isSome = true then fixNav s.buf else s.buf) = seen s count from rfl]
  generalize seen s count = b at hwb
  generalize hk : min (viCount count) (lineAfter b).length = k
  obtain ⟨h1, h2, h3, _⟩ := delete_nat b hwb k
  have h4 := delete_nat_text b hwb k
  split
  · rename_i hk0
    simp only [fixNav_text, setText, setData_top max hmax, h1, h4]
    exact ⟨trivial, trivial, fun _ => ⟨trivial, by rw [← h4]; exact h3⟩, fun h => absurd h hk0⟩
  · rename_i hk0
    have hk0 : k = 0 := by simpa using hk0
    subst hk0
    simp [fixNav_text, before_append_after]

def exV1 : VSt := { buf := { text := "abc\nd".toList, cur := 1 }, ring := [], regs := [] }
example : WF exV1.buf ∧ min (viCount (some 5)) (lineAfter (seen exV1 (some 5))).length = 2 ∧
    (vstep 3 exV1 (some 5) .x).buf.text = "a\nd".toList ∧
    getData (vstep 3 exV1 (some 5) .x).ring = ⟨"bc".toList, .chars⟩ := by decide

/-- **register_stores_span (X).**  `[count]X` removes exactly the `k = min(count, column)`
    characters before the cursor and stores them. -/
theorem vi_X_stores (max : Nat) (hmax : 0 < max) (s : VSt) (hwf : WF s.buf) (count : Option Nat) :
    let b := seen s count
    let k := min (viCount count) (lineBefore b).length
    let s' := vstep max s count .X
    s'.regs = s.regs ∧
    (k ≠ 0 → getData s'.ring = { text := b.before.drop (b.cur - k), ty := .chars } ∧
             b.text = reinsert s'.buf.text (b.cur - k) (b.before.drop (b.cur - k))) ∧
    (k = 0 → s'.ring = s.ring ∧ s'.buf.text = b.text) := by
  have hwb := seen_wf s hwf count
  simp only [vstep]
  simp only [show (if count.isSome = true then fixNav s.buf else s.buf) = seen s count from rfl]
  generalize seen s count = b at hwb
  generalize hk : min (viCount count) (lineBefore b).length = k
  have hkc : k ≤ b.cur := by
    have h1 : (lineBefore b).length ≤ b.before.length := by
      unfold lineBefore
      rw [List.length_reverse]
      exact Nat.le_trans (length_takeWhile_le' _ _) (by simp)
    have h2 := before_length b hwb
    omega
  obtain ⟨h1, _, h3⟩ := deleteBefore_le b hwb k hkc
  split
  · rename_i hk0
    simp only [fixNav_text, setText, setData_top max hmax, h1]
    exact ⟨trivial, fun _ => ⟨trivial, h3⟩, fun h => absurd h hk0⟩
  · rename_i hk0
    have hk0 : k = 0 := by simpa using hk0
    subst hk0
    simp [fixNav_text]

/-- **register_stores_span (s, D).**  `[count]s` removes the `count` characters after the cursor
    (also across line ends), `D` the rest of the line; both store exactly what they removed. -/
theorem vi_s_D_stores (max : Nat) (hmax : 0 < max) (s : VSt) (hwf : WF s.buf) (count : Option Nat)
    (cmd : VCmd) (hc : cmd = .s ∨ cmd = .D ∨ cmd = .C) :
    let b := seen s count
    let k := if cmd = .s then viCount count else (lineAfter b).length
    let s' := vstep max s count cmd
    s'.regs = s.regs ∧ getData s'.ring = { text := b.after.take k, ty := .chars } ∧
    s'.buf.text = b.before ++ b.after.drop k ∧
    b.text = reinsert s'.buf.text b.cur (b.after.take k) := by
  have hwb := seen_wf s hwf count
  have hfe : ∀ x : Buf, (escInsert x).text = x.text := by intro x; simp [escInsert, fixNav_text]
  rcases hc with rfl | rfl | rfl <;>
  · simp only [vstep]
    simp only [show (if count.isSome = true then fixNav s.buf else s.buf) = seen s count from rfl]
    generalize seen s count = b at hwb
    simp only [reduceCtorEq, if_false, if_true]
    have h1 : ∀ k : Nat, (delete b (k : Int)).2 = b.after.take k := fun k => (delete_nat b hwb k).1
    have h3 := fun k : Nat => (delete_nat b hwb k).2.2.1
    have h4 := delete_nat_text b hwb
    simp only [fixNav_text, hfe, setText, setData_top max hmax, h1, h4]
    refine ⟨trivial, trivial, trivial, ?_⟩
    rw [← h4]; exact h3 _

/-- **x then paste restores.**  After `[count]x` removed something, pasting the unnamed register
    back — `P` when the cursor stayed, `p` when `_fix_vi_cursor_position` moved it one to the
    left because the end of the line was deleted — restores the text. -/
theorem vi_x_then_paste_restores (max : Nat) (hmax : 0 < max) (s : VSt) (hwf : WF s.buf) (count : Option Nat)
    (hk : min (viCount count) (lineAfter (seen s count)).length ≠ 0) :
    let s1 := vstep max s count .x
    (vstep max s1 none (if s1.buf.cur = (seen s count).cur then .P else .p)).buf.text = (seen s count).text := by
  have hwb := seen_wf s hwf count
  simp only [vstep]
  simp only [show (if count.isSome = true then fixNav s.buf else s.buf) = seen s count from rfl]
  generalize seen s count = b at hwb hk
  generalize hkk : min (viCount count) (lineAfter b).length = k at hk
  rw [if_pos hk]
  obtain ⟨h1, h2, h3, hw⟩ := delete_nat b hwb k
  simp only [Option.isSome_none, Bool.false_eq_true, if_false, setText, setData_top max hmax, h1]
  generalize hb' : (delete b (k : Int)).1 = b' at h2 h3 hw
  have hty : ({ text := b.after.take k, ty := SelType.chars } : Clip).ty = .chars := rfl
  rcases fixNav_cur b' with hc | ⟨hc, _⟩
  · rw [if_pos (by rw [hc, h2])]
    simp only [viCount, fixNav_text, pasteBuf]
    rw [(paste_chars (fixNav b') _ hty .viBefore ((1 : Nat) : Int)).1]
    simp only [reduceCtorEq, if_false, fixNav_text, hc, h2]
    rw [h3]; simp [reinsert, repeatText]
  · rw [if_neg (by rw [h2] at hc; omega)]
    simp only [viCount, fixNav_text, pasteBuf]
    rw [(paste_chars (fixNav b') _ hty .viAfter ((1 : Nat) : Int)).1]
    simp only [if_true, fixNav_text]
    have : (fixNav b').cur + 1 = b.cur := by omega
    rw [this, h3]; simp [reinsert, repeatText]

example : (vstep 3 (vstep 3 exV1 (some 5) .x) none .p).buf.text = "abc\nd".toList ∧
    (vstep 3 exV1 (some 5) .x).buf.cur ≠ (seen exV1 (some 5)).cur := by decide

/-! ### `dd`, `yy`: whole lines -/

/-- **register_stores_span (dd, yy).**  `[count]dd` stores the `count` lines from the cursor
    line on (type LINES) and the remaining text consists of exactly the other lines, in order
    (an empty line is a line too); `[count]yy` stores the same lines and leaves the text alone.
    The stored lines put back between the remaining ones are the old lines. -/
theorem vi_dd_yy_stores (max : Nat) (hmax : 0 < max) (s : VSt) (count : Option Nat) :
    let b := seen s count
    let lines := splitOn '\n' b.text
    let r := row b
    let n := viCount count
    let stored : Clip := { text := join ['\n'] ((lines.drop r).take n), ty := .lines }
    getData (vstep max s count .dd).ring = stored ∧
    (vstep max s count .dd).buf.text = join ['\n'] (lines.take r ++ lines.drop (r + n)) ∧
    getData (vstep max s count .yy).ring = stored ∧ (vstep max s count .yy).buf.text = b.text ∧
    lines.take r ++ (lines.drop r).take n ++ lines.drop (r + n) = lines := by
  simp only [vstep]
  simp only [show (if count.isSome = true then fixNav s.buf else s.buf) = seen s count from rfl]
  generalize seen s count = b
  simp only [fixNav_text, setData_top max hmax]
  refine ⟨trivial, ?_, trivial, trivial, ?_⟩
  · rw [join_append]
    split <;> simp
  · rw [List.append_assoc, ← List.drop_drop, List.take_append_drop, List.take_append_drop]

def exV2 : VSt := { buf := { text := "\nx\ny".toList, cur := 1 }, ring := [], regs := [] }
example : (vstep 3 exV2 none .dd).buf.text = "\ny".toList ∧
    getData (vstep 3 exV2 none .dd).ring = ⟨"x".toList, .lines⟩ ∧
    (vstep 3 (vstep 3 exV2 none .dd) none .P).buf.text = "\nx\ny".toList := by decide

/-- **dd then P restores.**  When lines remain below the deleted ones, `[count]dd` followed by
    `P` (paste the unnamed register above the cursor line) gives back the text: the register
    holds exactly the deleted lines, as lines. -/
theorem vi_dd_then_P_restores (max : Nat) (hmax : 0 < max) (s : VSt) (count : Option Nat)
    (hn : 1 ≤ viCount count)
    (hB : (splitOn '\n' (seen s count).text).drop (row (seen s count) + viCount count) ≠ []) :
    (vstep max (vstep max s count .dd) none .P).buf.text = (seen s count).text := by
  simp only [vstep, Option.isSome_none, Bool.false_eq_true, if_false]
  simp only [show (if count.isSome = true then fixNav s.buf else s.buf) = seen s count from rfl]
  generalize seen s count = b at hB
  generalize hnn : viCount count = n at hn hB
  simp only [viCount, fixNav_text, setData_top max hmax, pasteBuf]
  generalize hlines : splitOn '\n' b.text = lines at hB
  have hrlt : row b < lines.length := by rw [← hlines]; exact row_lt_lines b
  generalize hr : row b = r at hB hrlt
  have hl : ∀ l ∈ lines, '\n' ∉ l := by rw [← hlines]; exact not_mem_of_mem_splitOn _ _
  -- the three groups of lines
  generalize hA : lines.take r = A
  generalize hM : (lines.drop r).take n = M
  generalize hBB : lines.drop (r + n) = B at hB
  have hAlen : A.length = r := by rw [← hA]; simp; omega
  have hMne : M ≠ [] := by
    rw [← hM]; intro h
    have := congrArg List.length h
    simp at this; omega
  have hlA : ∀ l ∈ A, '\n' ∉ l := fun l h => hl l (by rw [← hA] at h; exact List.mem_of_mem_take h)
  have hlB : ∀ l ∈ B, '\n' ∉ l := fun l h => hl l (by rw [← hBB] at h; exact List.mem_of_mem_drop h)
  have hall : A ++ M ++ B = lines := by
    rw [← hA, ← hM, ← hBB, List.append_assoc, ← List.drop_drop, List.take_append_drop, List.take_append_drop]
  -- the buffer after dd
  generalize hbef : (if A ≠ [] ∧ B ≠ [] then join ['\n'] A ++ ['\n'] else join ['\n'] A) = before'
  have hbef' : before' = join ['\n'] A ++ (if A ≠ [] then ['\n'] else []) := by
    rw [← hbef]; by_cases hAe : A = [] <;> simp [hAe, hB]
  have htext : before' ++ join ['\n'] B = join ['\n'] (A ++ B) := by
    rw [join_append, hbef']; simp [hB]
  obtain ⟨k, hk0, hk1, hk2⟩ := lstripChar_spec' ' ' (join ['\n'] B)
  generalize hnb : (Buf.mk (before' ++ join ['\n'] B)
      (before'.length + ((join ['\n'] B).length - (lstripChar ' ' (join ['\n'] B)).length))) = nb
  have hcur : nb.cur = before'.length + k := by
    rw [← hnb, hk1]; simp; omega
  have hwf : WF nb := by
    unfold WF; rw [hcur, ← hnb]; simp; omega
  have hrow : row (fixNav nb) = r := by
    rw [row_fixNav nb hwf]
    unfold row Buf.before
    rw [hcur, ← hnb]
    simp only
    rw [List.take_append, List.take_of_length_le (by omega), List.filter_append]
    have e1 : before'.length + k - before'.length = k := by omega
    rw [e1, filter_isNl_spaces _ hk2]
    simp only [List.append_nil]
    rw [hbef']
    by_cases hAe : A = []
    · subst hAe; simp [join] ; omega
    · rw [if_pos hAe, List.filter_append, List.length_append, count_nl_join A hlA]
      have : 0 < A.length := List.length_pos_iff.mpr hAe
      have e : (List.filter isNl ['\n']).length = 1 := by decide
      rw [e]; omega
  -- the paste
  simp only [pasteRaw, show ¬ (((1 : Nat) : Int) ≤ 0) by omega, if_false, hrow, if_true, fixNav_text]
  rw [← hnb]
  simp only
  rw [htext, splitOn_join _ _ (by simp [hB]), flatMap_splitOn_lines _ _
    (fun l h => (List.mem_append.mp h).elim (hlA l) (hlB l))]
  have e1 : (A ++ B).take r = A := by rw [← hAlen]; simp
  have e2 : (A ++ B).drop r = B := by rw [← hAlen]; simp
  rw [e1, e2]
  have e3 : List.replicate (Int.toNat ((1 : Nat) : Int)) (join ['\n'] M) = [join ['\n'] M] := by simp
  rw [e3, join_join_middle _ _ _ _ hMne, hall, ← hlines, join_splitOn]

example : (splitOn '\n' (seen exV2 none).text).drop (row (seen exV2 none) + viCount none) ≠ [] := by decide

/-! ### visual selection (characterwise) into the unnamed or a named register, and back -/

/-- the two ends of the selection that the harness op `vis` makes: anchor `a`, cursor `c`
    (both clamped like `Buffer.cursor_position = …`) -/
def visLo (t : Text) (a c : Nat) : Nat := min (min a t.length) (min c t.length)
def visHi (t : Text) (a c : Nat) : Nat := max (min a t.length) (min c t.length)
/-- the selected characters: both ends included -/
def visText (t : Text) (a c : Nat) : Text := (t.take (visHi t a c + 1)).drop (visLo t a c)

theorem vis_chars_cut (s : VSt) (a c : Nat) :
    textObjectCut (setCursor (setCursor s.buf a) c) (setCursor s.buf a).cur .chars =
      ({ text := s.buf.text.take (visLo s.buf.text a c) ++ s.buf.text.drop (visHi s.buf.text a c + 1),
         cur := visLo s.buf.text a c },
       { text := visText s.buf.text a c, ty := .chars }) := by
  rw [textObjectCut_chars]
  simp [setCursor, visLo, visHi, visText]

theorem vis_chars_cut_x (s : VSt) (a c : Nat) :
    cutSelection s.buf.text (setCursor (setCursor s.buf a) c).cur (setCursor s.buf a).cur .chars true =
      ({ text := s.buf.text.take (visLo s.buf.text a c) ++ s.buf.text.drop (visHi s.buf.text a c + 1),
         cur := visLo s.buf.text a c },
       { text := visText s.buf.text a c, ty := .chars }) := by
  rw [cutSelection_chars]
  simp only [setCursor, visLo, visHi, visText, Int.toNat_natCast]
  rw [Nat.min_comm (min c s.buf.text.length), Nat.max_comm (min c s.buf.text.length)]

/-- **register_stores_span_with_type (visual, characterwise).**  `v … y` / `v … "ry` store exactly
    the selected characters (both ends included) with type CHARACTERS in the unnamed / the named
    register `r` and change nothing else; `v … d` / `v … "rd` additionally remove exactly those
    characters; `v … x` removes and stores them in the unnamed register.  An empty selection
    text (only possible at the very end of the text) stores nothing. -/
theorem visual_chars_stores (max : Nat) (hmax : 0 < max) (s : VSt) (a c : Nat) (act : VisAct)
    (reg : Option Char) (hreg : ∀ r, reg = some r → isRegName r = true ∧ act ≠ .x) :
    let t := s.buf.text
    let X := visText t a c
    let s' := vstep max s none (.vis .chars a c act reg)
    s'.buf.text = (if act = .y then t else t.take (visLo t a c) ++ t.drop (visHi t a c + 1)) ∧
    t = reinsert (t.take (visLo t a c) ++ t.drop (visHi t a c + 1)) (visLo t a c) X ∧
    (X ≠ [] ∨ act = .x →
      match reg with
      | none => getData s'.ring = { text := X, ty := .chars } ∧ s'.regs = s.regs
      | some r => regGet s'.regs r = some { text := X, ty := .chars } ∧ s'.ring = s.ring ∧
                  ∀ r', r' ≠ r → regGet s'.regs r' = regGet s.regs r') ∧
    (X = [] → act ≠ .x → s'.ring = s.ring ∧ s'.regs = s.regs) := by
  have hcut := vis_chars_cut s a c
  have hcutx := vis_chars_cut_x s a c
  have hlohi : visLo s.buf.text a c ≤ visHi s.buf.text a c + 1 := by simp [visLo, visHi]; omega
  have hlo : visLo s.buf.text a c ≤ s.buf.text.length := by simp [visLo]; omega
  have hst : visText s.buf.text a c ≠ [] →
      storable { text := visText s.buf.text a c, ty := .chars } = true := by
    intro h; simp [storable, h]
  have hst0 : visText s.buf.text a c = [] →
      storable { text := visText s.buf.text a c, ty := .chars } = false := by
    intro h; simp [storable, h]
  have hsc : ∀ v : Int, (setCursor (setCursor s.buf a) v).text = s.buf.text := fun v => rfl
  simp only [vstep, Option.isSome_none, Bool.false_eq_true, if_false]
  refine ⟨?_, ?_, ?_, ?_⟩
  · cases reg with
    | none => cases act <;> simp only [hcut, hcutx, fixNav_text, hsc, reduceCtorEq, if_false, if_true]
    | some r =>
      obtain ⟨hr, _⟩ := hreg r rfl
      cases act <;>
        simp only [hcut, hcutx, fixNav_text, hsc, reduceCtorEq, if_false, if_true, hr, Bool.true_eq_false, and_false]
  · simp only [visText]
    exact (cut_reinsert _ _ _ hlohi hlo).symm
  · intro hX
    cases reg with
    | none =>
      cases act
      · simp only [hcutx]; exact ⟨setData_top max hmax _ _, trivial⟩
      · have := hst (by rcases hX with h | h; exact h; cases h)
        simp only [hcut, this, if_true]; exact ⟨setData_top max hmax _ _, trivial⟩
      · have := hst (by rcases hX with h | h; exact h; cases h)
        simp only [hcut, this, if_true]; exact ⟨setData_top max hmax _ _, trivial⟩
    | some r =>
      obtain ⟨hr, hx⟩ := hreg r rfl
      have := hst (by rcases hX with h | h; exact h; exact absurd h hx)
      cases act
      · exact absurd rfl hx
      · simp only [hcut, this, hr, and_self, if_true]
        exact ⟨regGet_regSet_same _ _ _, trivial, fun r' h => regGet_regSet_other _ _ _ _ h⟩
      · simp only [hcut, this, hr, and_self, if_true, Bool.true_eq_false, and_false, if_false]
        exact ⟨regGet_regSet_same _ _ _, trivial, fun r' h => regGet_regSet_other _ _ _ _ h⟩
  · intro hX hx
    have := hst0 hX
    cases act
    · exact absurd rfl hx
    · cases reg <;> simp [hcut, this]
    · cases reg with
      | none => simp [hcut, this]
      | some r =>
        obtain ⟨hr, _⟩ := hreg r rfl
        simp [hcut, this, hr]

def exV3 : VSt := { buf := { text := "hello world".toList, cur := 0 }, ring := [], regs := [] }
example : visText exV3.buf.text 7 2 = "llo wo".toList ∧
    (vstep 3 exV3 none (.vis .chars 7 2 .d (some 'q'))).buf.text = "herld".toList ∧
    regGet (vstep 3 exV3 none (.vis .chars 7 2 .d (some 'q'))).regs 'q' = some ⟨"llo wo".toList, .chars⟩ := by
  decide

/-- **paste_inserts_n_times (named register).**  `[count]"rp` / `[count]"rP` insert the text of
    register `r` `count` times, unchanged, right after / at the cursor (CHARACTERS data); an unset
    register or an invalid register name changes nothing. -/
theorem register_paste_inserts (max : Nat) (s : VSt) (count : Option Nat) (r : Char) (before : Bool) :
    let b := seen s count
    let s' := vstep max s count (.regP r before)
    s'.ring = s.ring ∧ s'.regs = s.regs ∧
    (isRegName r = false ∨ regGet s.regs r = none → s'.buf.text = b.text) ∧
    (∀ d, isRegName r = true → regGet s.regs r = some d → d.ty = .chars →
      let q := if before then b.cur else b.cur + 1
      s'.buf.text = b.text.take q ++ repeatText d.text (viCount count) ++ b.text.drop q) := by
  simp only [vstep]
  simp only [show (if count.isSome = true then fixNav s.buf else s.buf) = seen s count from rfl]
  generalize seen s count = b
  refine ⟨?_, ?_, ?_, ?_⟩
  · split
    · split <;> rfl
    · rfl
  · split
    · split <;> rfl
    · rfl
  · intro h
    rcases h with h | h
    · simp [h, fixNav_text]
    · split
      · simp [h, fixNav_text]
      · simp [fixNav_text]
  · intro d hr hd hty
    simp only [hr, if_true, hd, fixNav_text, pasteBuf]
    rw [(paste_chars b d hty _ _).1]
    cases before <;> simp

/-- **yank into a register, paste from it: the selected text comes back `count` times.** -/
theorem register_roundtrip (max : Nat) (hmax : 0 < max) (s : VSt) (a c : Nat) (r : Char)
    (hr : isRegName r = true) (hX : visText s.buf.text a c ≠ []) (count : Option Nat) (before : Bool) :
    let s1 := vstep max s none (.vis .chars a c .y (some r))
    let b := seen s1 count
    let q := if before then b.cur else b.cur + 1
    s1.buf.text = s.buf.text ∧
    (vstep max s1 count (.regP r before)).buf.text =
      s.buf.text.take q ++ repeatText (visText s.buf.text a c) (viCount count) ++ s.buf.text.drop q := by
  obtain ⟨h1, _, h3, _⟩ := visual_chars_stores max hmax s a c .y (some r)
    (fun r' h => by cases h; exact ⟨hr, by simp⟩)
  simp only [if_true] at h1
  have h3' := (h3 (Or.inl hX)).1
  obtain ⟨_, _, _, h4⟩ := register_paste_inserts max (vstep max s none (.vis .chars a c .y (some r))) count r before
  have := h4 _ hr h3' rfl
  simp only at this ⊢
  refine ⟨h1, ?_⟩
  rw [this]
  have ht : (seen (vstep max s none (.vis .chars a c .y (some r))) count).text = s.buf.text := by
    unfold seen; split
    · rw [fixNav_text, h1]
    · exact h1
  rw [ht]

example : (vstep 3 (vstep 3 exV3 none (.vis .chars 0 4 .y (some 'a'))) (some 2) (.regP 'a' true)).buf.text
    = "hellhellohelloo world".toList := by decide

/-! ### linewise selections -/

theorem findNlFrom_ge (t : Text) (i k : Nat) (h : findNlFrom t i = some k) : i ≤ k := by
  unfold findNlFrom at h
  simp only at h
  split at h
  · cases h; omega
  · cases h

theorem dropLast_append_getLast (l : Text) (c : Char) (h : l.getLast? = some c) : l = l.dropLast ++ [c] := by
  rcases List.eq_nil_or_concat l with hnil | ⟨pre, x, hx⟩
  · rw [hnil] at h; simp at h
  · rw [hx] at h ⊢
    simp at h
    subst h
    simp

/-- in Vi mode the range of a LINES selection ends behind its upper end -/
theorem linesEnd_ge (t : Text) (hi : Nat) (h : hi ≤ t.length) : hi ≤ linesEnd t hi true := by
  unfold linesEnd linesEndI
  simp only [if_true]
  split
  · rename_i k hk; have := findNlFrom_ge _ _ _ hk; omega
  · omega

theorem cutSelection_lines_eq (t : Text) (cur orig : Nat) :
    cutSelection t cur orig .lines true =
      let from_ := min cur orig - col { text := t, cur := min cur orig }
      let e := linesEnd t (max cur orig) true
      let raw := (t.take e).drop from_
      ({ text := t.take from_ ++ t.drop e, cur := from_ },
       { text := if raw.getLast? = some '\n' ∧ (findNlFrom t (max cur orig)).isSome then raw.dropLast else raw,
         ty := .lines }) := by
  simp only [cutSelection, selectionRanges, cutLoop, if_true, join, List.nil_append, List.drop_zero,
    true_and]

/-- **LINES cut fidelity.**  For a linewise selection (Vi mode) between two positions inside the
    text, what `cut_selection` removes is one contiguous span: the stored text, followed by at
    most the one newline that terminated the last selected line.  Putting it back gives the text. -/
theorem cutSelection_lines_fidelity (t : Text) (cur orig : Nat) (hc : cur ≤ t.length) (ho : orig ≤ t.length) :
    ∃ raw, (raw = (cutSelection t cur orig .lines true).2.text ∨
            raw = (cutSelection t cur orig .lines true).2.text ++ ['\n']) ∧
      t = reinsert (cutSelection t cur orig .lines true).1.text (cutSelection t cur orig .lines true).1.cur raw ∧
      (cutSelection t cur orig .lines true).2.ty = .lines := by
  rw [cutSelection_lines_eq]
  simp only
  generalize hfrom : min cur orig - col { text := t, cur := min cur orig } = from_
  have hge := linesEnd_ge t (max cur orig) (by omega)
  generalize linesEnd t (max cur orig) true = e at hge
  have h1 : from_ ≤ t.length := by omega
  have h2 : from_ ≤ e := by omega
  have hre := cut_reinsert t from_ e h2 h1
  split
  · rename_i hs
    exact ⟨(t.take e).drop from_, Or.inr (dropLast_append_getLast _ _ hs.1), hre.symm, trivial⟩
  · exact ⟨(t.take e).drop from_, Or.inl rfl, hre.symm, trivial⟩

example : cutSelection "a\nbc\nd".toList 3 2 .lines true = ({ text := "a\nd".toList, cur := 2 }, ⟨"bc".toList, .lines⟩) := by
  decide

/-- **register_stores_span_with_type (visual, linewise).**  `V … x` and `V … d` remove one
    contiguous span and store it in the unnamed register with type LINES: the removed span is the
    stored text followed by at most the newline that terminated the last selected line. -/
theorem visual_lines_delete_fidelity (mx : Nat) (hmax : 0 < mx) (s : VSt) (a c : Nat) (act : VisAct)
    (hact : act = .x ∨ act = .d) :
    let s' := vstep mx s none (.vis .lines a c act none)
    (getData s'.ring).ty = .lines ∧ s'.regs = s.regs ∧
    ∃ raw p, (raw = (getData s'.ring).text ∨ raw = (getData s'.ring).text ++ ['\n']) ∧
      s.buf.text = reinsert s'.buf.text p raw := by
  have hb1 : (setCursor s.buf a).cur ≤ s.buf.text.length := by simp [setCursor]; omega
  have hb2 : (setCursor (setCursor s.buf a) c).cur ≤ s.buf.text.length := by simp [setCursor]; omega
  rcases hact with rfl | rfl
  · simp only [vstep, Option.isSome_none, Bool.false_eq_true, if_false, fixNav_text, setData_top mx hmax]
    obtain ⟨raw, h1, h2, h3⟩ := cutSelection_lines_fidelity s.buf.text _ _ hb2 hb1
    exact ⟨h3, trivial, raw, _, h1, h2⟩
  · simp only [vstep, Option.isSome_none, Bool.false_eq_true, if_false, fixNav_text, textObjectCut]
    have hsc : (setCursor (setCursor s.buf a) c).text = s.buf.text := rfl
    simp only [hsc]
    generalize hlo : min (setCursor s.buf a).cur (setCursor (setCursor s.buf a) c).cur = lo
    generalize hhi : max (setCursor s.buf a).cur (setCursor (setCursor s.buf a) c).cur = hi
    have h1 : lo - col { text := s.buf.text, cur := lo } ≤ s.buf.text.length := by omega
    have h2 : hi + (lineAfter { text := s.buf.text, cur := hi }).length ≤ s.buf.text.length := by
      have := lineAfter_le { text := s.buf.text, cur := hi }
      simp only at this; omega
    obtain ⟨raw, r1, r2, r3⟩ := cutSelection_lines_fidelity s.buf.text _ _ h2 h1
    have hst : storable (cutSelection s.buf.text (hi + (lineAfter { text := s.buf.text, cur := hi }).length)
        (lo - col { text := s.buf.text, cur := lo }) .lines true).2 = true := by
      simp [storable, r3]
    simp only [hst, if_true, setData_top mx hmax]
    exact ⟨r3, trivial, raw, _, r1, r2⟩

def exV4 : VSt := { buf := { text := "a\nbc\nd".toList, cur := 0 }, ring := [], regs := [] }
example : (vstep 3 exV4 none (.vis .lines 3 2 .d none)).buf.text = "a\nd".toList ∧
    getData (vstep 3 exV4 none (.vis .lines 3 2 .d none)).ring = ⟨"bc".toList, .lines⟩ := by decide


/-! ### pasting at the key level; cut then paste restores -/

/-- **p / P / "rp / "rP are `paste_clipboard_data`.**  At the key level the text after `[count]p`,
    `[count]P` (unnamed register = top of the ring) and `[count]"rp`, `[count]"rP` (named register)
    is exactly `Document.paste_clipboard_data(data, VI_AFTER / VI_BEFORE, count)` of the buffer the
    command sees — so `paste_chars`, `paste_lines`, `paste_block` describe it for every data type —
    and no register changes. -/
theorem vi_paste_is_paste_clipboard_data (max : Nat) (s : VSt) (count : Option Nat) :
    let b := seen s count
    let n : Int := (viCount count : Nat)
    (vstep max s count .p).buf.text = (pasteRaw b (getData s.ring) .viAfter n).1 ∧
    (vstep max s count .P).buf.text = (pasteRaw b (getData s.ring) .viBefore n).1 ∧
    (vstep max s count .p).ring = s.ring ∧ (vstep max s count .P).ring = s.ring ∧
    (vstep max s count .p).regs = s.regs ∧ (vstep max s count .P).regs = s.regs ∧
    ∀ r d before, isRegName r = true → regGet s.regs r = some d →
      (vstep max s count (.regP r before)).buf.text =
        (pasteRaw b d (if before then .viBefore else .viAfter) n).1 := by
  simp only [vstep]
  simp only [show (if count.isSome = true then fixNav s.buf else s.buf) = seen s count from rfl]
  refine ⟨by simp [fixNav_text, pasteBuf], by simp [fixNav_text, pasteBuf], trivial, trivial, trivial, trivial, ?_⟩
  intro r d before hr hd
  simp [hr, hd, fixNav_text, pasteBuf]

def exV5 : VSt := { buf := { text := "ab\ncd".toList, cur := 0 }, ring := [⟨"L".toList, .lines⟩], regs := [] }
example : (vstep 3 exV5 (some 2) .p).buf.text = "ab\nL\nL\ncd".toList ∧
    (vstep 3 exV5 none .P).buf.text = "L\nab\ncd".toList := by decide

/-- Pasting CHARACTERS data back at the place it was cut from — `P` when the cursor is still at
    the cut point, `p` when `_fix_vi_cursor_position` moved it one to the left — restores the text. -/
theorem paste_back_restores (b' : Buf) (X t : Text) (h : t = reinsert b'.text b'.cur X) :
    (pasteBuf (fixNav b') { text := X, ty := .chars }
      (if (fixNav b').cur = b'.cur then .viBefore else .viAfter) ((1 : Nat) : Int)).text = t := by
  have hty : ({ text := X, ty := SelType.chars } : Clip).ty = .chars := rfl
  simp only [pasteBuf]
  rcases fixNav_cur b' with hc | ⟨hc, _⟩
  · rw [if_pos hc, (paste_chars (fixNav b') _ hty .viBefore ((1 : Nat) : Int)).1]
    simp only [reduceCtorEq, if_false, fixNav_text, hc]
    rw [h]; simp [reinsert, repeatText]
  · rw [if_neg (by omega), (paste_chars (fixNav b') _ hty .viAfter ((1 : Nat) : Int)).1]
    simp only [if_true, fixNav_text, hc]
    rw [h]; simp [reinsert, repeatText]

/-- **visual delete then paste restores.**  After `v … d` (or `v … x`) removed a non-empty
    selection into the unnamed register, pasting it back (`P`, or `p` when the cursor had to step
    left from the end of the line) gives the original text. -/
theorem visual_chars_delete_then_paste_restores (mx : Nat) (hmax : 0 < mx) (s : VSt) (a c : Nat)
    (act : VisAct) (hact : act = .x ∨ act = .d) (hX : visText s.buf.text a c ≠ []) :
    let s1 := vstep mx s none (.vis .chars a c act none)
    (vstep mx s1 none (if s1.buf.cur = visLo s.buf.text a c then .P else .p)).buf.text = s.buf.text := by
  have hcut := vis_chars_cut s a c
  have hcutx := vis_chars_cut_x s a c
  have hlohi : visLo s.buf.text a c ≤ visHi s.buf.text a c + 1 := by simp [visLo, visHi]; omega
  have hlo : visLo s.buf.text a c ≤ s.buf.text.length := by simp [visLo]; omega
  have hre : s.buf.text = reinsert (s.buf.text.take (visLo s.buf.text a c) ++ s.buf.text.drop (visHi s.buf.text a c + 1))
      (visLo s.buf.text a c) (visText s.buf.text a c) := by
    simp only [visText]; exact (cut_reinsert _ _ _ hlohi hlo).symm
  have hst : storable { text := visText s.buf.text a c, ty := .chars } = true := by simp [storable, hX]
  generalize hb' : (Buf.mk (s.buf.text.take (visLo s.buf.text a c) ++ s.buf.text.drop (visHi s.buf.text a c + 1))
      (visLo s.buf.text a c)) = b' at hcut hcutx
  have hb'c : b'.cur = visLo s.buf.text a c := by rw [← hb']
  have hre' : s.buf.text = reinsert b'.text b'.cur (visText s.buf.text a c) := by rw [← hb']; exact hre
  have key := paste_back_restores b' _ _ hre'
  have hs1 : vstep mx s none (.vis .chars a c act none) =
      { s with buf := fixNav b', ring := setData mx s.ring { text := visText s.buf.text a c, ty := .chars } } := by
    rcases hact with rfl | rfl
    · simp only [vstep, Option.isSome_none, Bool.false_eq_true, if_false, hcutx]
    · simp only [vstep, Option.isSome_none, Bool.false_eq_true, if_false, hcut, hst, if_true]
  simp only
  rw [hs1, ← hb'c]
  simp only
  by_cases hc : (fixNav b').cur = b'.cur
  · rw [if_pos hc] at key ⊢
    simpa [vstep, fixNav_text, setData_top mx hmax, viCount] using key
  · rw [if_neg hc] at key ⊢
    simpa [vstep, fixNav_text, setData_top mx hmax, viCount] using key

example : (vstep 3 (vstep 3 exV3 none (.vis .chars 7 2 .d none)) none .P).buf.text = "hello world".toList := by
  decide

end Ptk.C09
