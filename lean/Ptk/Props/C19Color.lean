/-
  C19 — colour lemmas: the argmin lemma for the search loop (any candidate list), the
  256-colour and 16-colour maps are nearest-colour maps (first on ties) for ANY palette,
  exact palette colours are fixed points.
-/
import Ptk.Model.C19Color
namespace Ptk.C19
open Ptk.Py

/-- **Argmin lemma** for the search loop `if d < distance: match = key; distance = d`, for ANY
    candidate list: either no candidate beats the initial distance and the initial match is
    kept, or the result is a candidate of minimal distance, and the FIRST such candidate. -/
theorem argmin_keyed (f : α → Nat) (l : List (κ × α)) (init : κ × Nat) :
    (argminLoop (l.map fun kx => (kx.1, f kx.2)) init = init ∧ ∀ kx ∈ l, init.2 ≤ f kx.2) ∨
    (∃ pre kx post, l = pre ++ kx :: post ∧
      argminLoop (l.map fun kx => (kx.1, f kx.2)) init = (kx.1, f kx.2) ∧
      f kx.2 < init.2 ∧ (∀ kx' ∈ l, f kx.2 ≤ f kx'.2) ∧ (∀ kx' ∈ pre, f kx.2 < f kx'.2)) := by
  induction l generalizing init with
  | nil => left; simp [argminLoop]
  | cons x xs ih =>
    have hstep : argminLoop ((x :: xs).map fun kx => (kx.1, f kx.2)) init =
        argminLoop (xs.map fun kx => (kx.1, f kx.2)) (if f x.2 < init.2 then (x.1, f x.2) else init) := by
      simp [argminLoop]
    rw [hstep]
    by_cases hlt : f x.2 < init.2
    · simp only [hlt, if_true]
      rcases ih (x.1, f x.2) with ⟨h1, h2⟩ | ⟨pre, kx, post, hxs, hres, hlt2, hmin, hfirst⟩
      · right
        refine ⟨[], x, xs, rfl, h1, hlt, ?_, by simp⟩
        intro kx' hkx'
        rcases List.mem_cons.mp hkx' with rfl | h
        · exact Nat.le_refl _
        · exact h2 kx' h
      · right
        refine ⟨x :: pre, kx, post, by simp [hxs], hres, Nat.lt_trans hlt2 hlt, ?_, ?_⟩
        · intro kx' hkx'
          rcases List.mem_cons.mp hkx' with rfl | h
          · exact Nat.le_of_lt hlt2
          · exact hmin kx' h
        · intro kx' hkx'
          rcases List.mem_cons.mp hkx' with rfl | h
          · exact hlt2
          · exact hfirst kx' h
    · simp only [hlt, if_false]
      have hge : init.2 ≤ f x.2 := Nat.le_of_not_lt hlt
      rcases ih init with ⟨h1, h2⟩ | ⟨pre, kx, post, hxs, hres, hlt2, hmin, hfirst⟩
      · left
        refine ⟨h1, ?_⟩
        intro kx' hkx'
        rcases List.mem_cons.mp hkx' with rfl | h
        · exact hge
        · exact h2 kx' h
      · right
        refine ⟨x :: pre, kx, post, by simp [hxs], hres, hlt2, ?_, ?_⟩
        · intro kx' hkx'
          rcases List.mem_cons.mp hkx' with rfl | h
          · exact Nat.le_of_lt (Nat.lt_of_lt_of_le hlt2 hge)
          · exact hmin kx' h
        · intro kx' hkx'
          rcases List.mem_cons.mp hkx' with rfl | h
          · exact Nat.lt_of_lt_of_le hlt2 hge
          · exact hfirst kx' h

theorem sqDiff_self (a : Nat) : sqDiff a a = 0 := by simp [sqDiff]
theorem sqDiff_eq_zero {a b : Nat} (h : sqDiff a b = 0) : a = b := by
  unfold sqDiff at h
  split at h
  · rcases Nat.mul_eq_zero.mp h with h | h <;> omega
  · rcases Nat.mul_eq_zero.mp h with h | h <;> omega
theorem dist_self (c : RGB) : dist c c = 0 := by simp [dist, sqDiff_self]
theorem dist_eq_zero {c p : RGB} (h : dist c p = 0) : p = c := by
  unfold dist at h
  have h1 : sqDiff c.1 p.1 = 0 := by omega
  have h2 : sqDiff c.2.1 p.2.1 = 0 := by omega
  have h3 : sqDiff c.2.2 p.2.2 = 0 := by omega
  have := sqDiff_eq_zero h1
  have := sqDiff_eq_zero h2
  have := sqDiff_eq_zero h3
  obtain ⟨c1, c2, c3⟩ := c
  obtain ⟨p1, p2, p3⟩ := p
  simp_all

theorem sqDiff_le (a b : Nat) (ha : a ≤ 255) (hb : b ≤ 255) : sqDiff a b ≤ 255 * 255 := by
  unfold sqDiff
  split
  · exact Nat.mul_le_mul (by omega) (by omega)
  · exact Nat.mul_le_mul (by omega) (by omega)

def InRange (c : RGB) : Prop := c.1 ≤ 255 ∧ c.2.1 ≤ 255 ∧ c.2.2 ≤ 255
instance (c : RGB) : Decidable (InRange c) := by unfold InRange; infer_instance

/-- any two colours with components in 0..255 are closer than the code's "infinity" -/
theorem dist_lt_infinity (c p : RGB) (hc : InRange c) (hp : InRange p) : dist c p < infinity := by
  unfold dist infinity
  have h1 := sqDiff_le c.1 p.1 hc.1 hp.1
  have h2 := sqDiff_le c.2.1 p.2.1 hc.2.1 hp.2.1
  have h3 := sqDiff_le c.2.2 p.2.2 hc.2.2 hp.2.2
  omega
end Ptk.C19

namespace Ptk.C19
open Ptk.Py

theorem mem_enumFrom {l : List α} {i0 i : Nat} {x : α} :
    (i, x) ∈ enumFrom i0 l ↔ i0 ≤ i ∧ l[i - i0]? = some x := by
  induction l generalizing i0 with
  | nil => simp [enumFrom]
  | cons y ys ih =>
    simp only [enumFrom, List.mem_cons, Prod.mk.injEq, ih]
    constructor
    · rintro (⟨rfl, rfl⟩ | ⟨h1, h2⟩)
      · simp
      · refine ⟨by omega, ?_⟩
        have : i - i0 = (i - (i0 + 1)) + 1 := by omega
        rw [this]; simpa using h2
    · rintro ⟨h1, h2⟩
      by_cases h : i = i0
      · left; subst h; simpa using h2.symm
      · right
        refine ⟨by omega, ?_⟩
        have : i - i0 = (i - (i0 + 1)) + 1 := by omega
        rw [this] at h2; simpa using h2

theorem mem_enumFrom_zero {l : List α} {i : Nat} {x : α} : (i, x) ∈ enumFrom 0 l ↔ l[i]? = some x := by
  simp [mem_enumFrom]

theorem pairwise_enumFrom (l : List α) (i0 : Nat) :
    (enumFrom i0 l).Pairwise (fun a b => a.1 < b.1) := by
  induction l generalizing i0 with
  | nil => simp [enumFrom]
  | cons y ys ih =>
    simp only [enumFrom, List.pairwise_cons]
    refine ⟨?_, ih (i0 + 1)⟩
    rintro ⟨i, x⟩ h
    have := (mem_enumFrom.mp h).1
    simp; omega

/-- the indexed candidate list of the 256-colour search -/
def idx256 (pal : List RGB) : List (Nat × RGB) := (enumFrom 0 pal).filter fun ip => 16 ≤ ip.1

theorem mem_idx256 {pal : List RGB} {i : Nat} {p : RGB} :
    (i, p) ∈ idx256 pal ↔ 16 ≤ i ∧ pal[i]? = some p := by
  simp [idx256, List.mem_filter, mem_enumFrom, and_comm]

theorem closest256_eq (pal : List RGB) (c : RGB) :
    closest256 pal c = (argminLoop ((idx256 pal).map fun kx => (kx.1, dist c kx.2)) (0, infinity)).1 := rfl

/-- **256-colour map = nearest palette colour (any palette).**  If some palette entry with index
    ≥ 16 is closer than the loop's initial "infinity", the chosen index `m` is ≥ 16, lies in the
    palette, no admissible entry is closer to `c` than entry `m`, and every admissible entry
    before `m` is strictly farther (first on ties). -/
theorem closest256_nearest (pal : List RGB) (c : RGB) (j0 : Nat) (p0 : RGB) (h16 : 16 ≤ j0)
    (hj0 : pal[j0]? = some p0) (hlt : dist c p0 < infinity) :
    ∃ pm, pal[closest256 pal c]? = some pm ∧ 16 ≤ closest256 pal c ∧
      (∀ j p, 16 ≤ j → pal[j]? = some p → dist c pm ≤ dist c p) ∧
      (∀ j p, 16 ≤ j → j < closest256 pal c → pal[j]? = some p → dist c pm < dist c p) := by
  rw [closest256_eq]
  rcases argmin_keyed (dist c) (idx256 pal) (0, infinity) with ⟨_, h2⟩ | ⟨pre, kx, post, hl, hres, _, hmin, hfirst⟩
  · have := h2 (j0, p0) (mem_idx256.mpr ⟨h16, hj0⟩)
    simp at this; omega
  · rw [hres]
    have hkx : kx ∈ idx256 pal := by rw [hl]; simp
    obtain ⟨k, pk⟩ := kx
    obtain ⟨hk16, hkp⟩ := mem_idx256.mp hkx
    refine ⟨pk, hkp, hk16, ?_, ?_⟩
    · intro j p hj hp
      exact hmin (j, p) (mem_idx256.mpr ⟨hj, hp⟩)
    · intro j p hj hjk hp
      have hmem : (j, p) ∈ idx256 pal := mem_idx256.mpr ⟨hj, hp⟩
      have hpw : (idx256 pal).Pairwise (fun a b => a.1 < b.1) :=
        (pairwise_enumFrom pal 0).filter _
      rw [hl] at hmem hpw
      rcases List.mem_append.mp hmem with h | h
      · exact hfirst _ h
      · exfalso
        rw [List.pairwise_append] at hpw
        obtain ⟨_, hpw2, _⟩ := hpw
        rcases List.mem_cons.mp h with h | h
        · have : j = k := by cases h; rfl
          simp at hjk; omega
        · have := (List.pairwise_cons.mp hpw2).1 _ h
          simp at this hjk; omega

/-- **Exact palette colours are fixed (any palette).**  A colour that IS palette entry `j ≥ 16`
    is mapped to an index holding exactly that colour: the first index ≥ 16 that holds it. -/
theorem closest256_exact (pal : List RGB) (c : RGB) (j : Nat) (h16 : 16 ≤ j) (hj : pal[j]? = some c) :
    pal[closest256 pal c]? = some c ∧ 16 ≤ closest256 pal c ∧ closest256 pal c ≤ j ∧
      ∀ i, 16 ≤ i → i < closest256 pal c → pal[i]? ≠ some c := by
  obtain ⟨pm, hpm, hm16, hmin, hfirst⟩ :=
    closest256_nearest pal c j c h16 hj (by rw [dist_self]; decide)
  have h0 : dist c pm = 0 := by
    have := hmin j c h16 hj
    rw [dist_self] at this; omega
  have hpmc : pm = c := dist_eq_zero h0
  subst hpmc
  refine ⟨hpm, hm16, ?_, ?_⟩
  · apply Nat.le_of_not_lt
    intro hlt
    have := hfirst j pm h16 hlt hj
    rw [dist_self] at this; omega
  · intro i hi hlt hip
    have := hfirst i pm hi hlt hip
    rw [dist_self] at this; omega
end Ptk.C19

namespace Ptk.C19
open Ptk.Py

/-- the admissibility test of `_get_closest_ansi_color` (with the saturation rule as written) -/
def allowed16 (c : RGB) (exclude : List Text) (np : Text × RGB) : Bool :=
  np.1 != "ansidefault".toList && !(exclude16 c exclude).contains np.1

theorem closest16_eq (tbl : List (Text × RGB)) (c : RGB) (ex : List Text) :
    closest16 tbl c ex =
      (argminLoop ((tbl.filter (allowed16 c ex)).map fun kx => (kx.1, dist c kx.2))
        ("ansidefault".toList, infinity)).1 := rfl

/-- **16-colour map = nearest admissible ANSI colour (any table).**  If some admissible entry is
    closer than "infinity", the result names an admissible table entry of minimal distance, and
    every admissible entry before it in the table is strictly farther (first on ties). -/
theorem closest16_nearest (tbl : List (Text × RGB)) (c : RGB) (ex : List Text)
    (np0 : Text × RGB) (h0 : np0 ∈ tbl) (ha0 : allowed16 c ex np0 = true) (hlt : dist c np0.2 < infinity) :
    ∃ pre pm post, tbl = pre ++ (closest16 tbl c ex, pm) :: post ∧
      allowed16 c ex (closest16 tbl c ex, pm) = true ∧
      (∀ np ∈ tbl, allowed16 c ex np = true → dist c pm ≤ dist c np.2) ∧
      (∀ np ∈ pre, allowed16 c ex np = true → dist c pm < dist c np.2) := by
  rw [closest16_eq]
  rcases argmin_keyed (dist c) (tbl.filter (allowed16 c ex)) ("ansidefault".toList, infinity) with
    ⟨_, h2⟩ | ⟨pre', kx, post', hl, hres, _, hmin, hfirst⟩
  · have := h2 np0 (List.mem_filter.mpr ⟨h0, ha0⟩)
    simp at this; omega
  · rw [hres]
    obtain ⟨l₁, l₂, htbl, hf1, hf2⟩ := List.filter_eq_append_iff.mp hl
    obtain ⟨m₁, m₂, hl₂, hnone, hkx, _⟩ := List.filter_eq_cons_iff.mp hf2
    refine ⟨l₁ ++ m₁, kx.2, m₂, by simp [htbl, hl₂], hkx, ?_, ?_⟩
    · intro np hnp hanp
      exact hmin np (List.mem_filter.mpr ⟨hnp, hanp⟩)
    · intro np hnp hanp
      rcases List.mem_append.mp hnp with h | h
      · apply hfirst np
        rw [← hf1]; exact List.mem_filter.mpr ⟨h, hanp⟩
      · exact absurd hanp (hnone np h)

/-- **Exact ANSI colours are fixed (any table).**  A colour that IS an admissible table entry is
    mapped to a name whose table colour is exactly that colour (the first such admissible entry). -/
theorem closest16_exact (tbl : List (Text × RGB)) (c : RGB) (ex : List Text) (n : Text)
    (h0 : (n, c) ∈ tbl) (ha0 : allowed16 c ex (n, c) = true) :
    ∃ pre post, tbl = pre ++ (closest16 tbl c ex, c) :: post ∧
      allowed16 c ex (closest16 tbl c ex, c) = true ∧
      ∀ np ∈ pre, allowed16 c ex np = true → np.2 ≠ c := by
  obtain ⟨pre, pm, post, htbl, ha, hmin, hfirst⟩ :=
    closest16_nearest tbl c ex (n, c) h0 ha0 (by simp only [dist_self]; decide)
  have h0' : dist c pm = 0 := by
    have := hmin (n, c) h0 ha0
    simp only [dist_self] at this; omega
  have hpm : pm = c := dist_eq_zero h0'
  subst hpm
  refine ⟨pre, post, htbl, ha, ?_⟩
  intro np hnp hanp heq
  have := hfirst np hnp hanp
  rw [heq, dist_self] at this; omega
end Ptk.C19
namespace Ptk.C19
open Ptk.Py

/-- Boolean check: no entry repeats the colour of an earlier entry, except entries with index `skip` -/
def firstOccB (skip : Nat) : List (Nat × RGB) → Bool
  | [] => true
  | a :: rest => rest.all (fun b => b.2 != a.2 || b.1 == skip) && firstOccB skip rest

theorem firstOccB_pairwise (skip : Nat) (l : List (Nat × RGB)) (h : firstOccB skip l = true) :
    l.Pairwise (fun a b => b.2 ≠ a.2 ∨ b.1 = skip) := by
  induction l with
  | nil => exact List.Pairwise.nil
  | cons a rest ih =>
    simp only [firstOccB, Bool.and_eq_true, List.all_eq_true] at h
    refine List.Pairwise.cons ?_ (ih h.2)
    intro b hb
    have := h.1 b hb
    simpa using this

theorem pairwise_of_sorted {α} (R : α → α → Prop) (key : α → Nat) (l : List α)
    (hR : l.Pairwise R) (hS : l.Pairwise (fun a b => key a < key b)) :
    ∀ a ∈ l, ∀ b ∈ l, key a < key b → R a b := by
  induction l with
  | nil => intro a ha; simp at ha
  | cons x xs ih =>
    rw [List.pairwise_cons] at hR hS
    intro a ha b hb hlt
    rcases List.mem_cons.mp ha with rfl | ha'
    · rcases List.mem_cons.mp hb with rfl | hb'
      · omega
      · exact hR.1 b hb'
    · rcases List.mem_cons.mp hb with rfl | hb'
      · have := hS.1 a ha'; omega
      · exact ih hR.2 hS.2 a ha' b hb' hlt

/-- if the palette passes `firstOccB skip`, every entry ≥ 16 other than `skip` is a fixed point -/
theorem closest256_fixed_index (pal : List RGB) (skip : Nat) (hocc : firstOccB skip (idx256 pal) = true)
    (j : Nat) (h16 : 16 ≤ j) (c : RGB) (hc : pal[j]? = some c) (hne : j ≠ skip) :
    closest256 pal c = j := by
  obtain ⟨h1, h2, h3, _⟩ := closest256_exact pal c j h16 hc
  apply Nat.le_antisymm h3
  apply Nat.le_of_not_lt
  intro hlt
  have hpw := firstOccB_pairwise skip _ hocc
  have hsorted : (idx256 pal).Pairwise (fun a b => a.1 < b.1) := (pairwise_enumFrom pal 0).filter _
  have := pairwise_of_sorted _ (fun ip : Nat × RGB => ip.1) _ hpw hsorted
    (closest256 pal c, c) (mem_idx256.mpr ⟨h2, h1⟩) (j, c) (mem_idx256.mpr ⟨h16, hc⟩) hlt
  rcases this with h | h
  · exact h rfl
  · exact hne h
end Ptk.C19
