/-
  C19 — a user rule beats a default rule: in `D ++ U` (defaults first, user rules later — the order
  in which `Application._merged_style` / `merge_styles([defaults, user])` concatenate them) a default
  rule that has the same class set as some user rule setting attribute `f` has NO influence on `f`:
  deleting it from the defaults changes nothing, for any style string and any default argument.
-/
import Ptk.Props.C19Cascade
namespace Ptk.C19
open Ptk.Py

theorem pyOr_append {β : Type} (a b : List (Option β)) :
    pyOr (a ++ b) = (pyOr b).orElse fun _ => pyOr a := by
  unfold pyOr
  rw [List.reverse_append, List.findSome?_append]
  cases List.findSome? id b.reverse <;> rfl

theorem pyOr_congr_append {β : Type} (a a' b b' : List (Option β)) (ha : pyOr a = pyOr a') (hb : pyOr b = pyOr b') :
    pyOr (a ++ b) = pyOr (a' ++ b') := by
  rw [pyOr_append, pyOr_append, ha, hb]

theorem pyOr_eq_none_iff {β : Type} (l : List (Option β)) : pyOr l = none ↔ ∀ x ∈ l, x = none := by
  unfold pyOr
  rw [List.findSome?_eq_none_iff]
  simp

/-- deleting elements from the front block does not matter when, whenever something was deleted,
    the back block sets the attribute -/
theorem pyOr_block {β : Type} (x x' y : List (Option β))
    (h : x ≠ x' → ∃ v ∈ y, v ≠ none) : pyOr (x ++ y) = pyOr (x' ++ y) := by
  rw [pyOr_append, pyOr_append]
  cases hy : pyOr y with
  | some v => rfl
  | none =>
    have hnone := (pyOr_eq_none_iff y).mp hy
    by_cases hx : x = x'
    · rw [hx]
    · obtain ⟨v, hv, hne⟩ := h hx
      exact absurd (hnone v hv) hne

section
variable {β : Type} (f : Attrs → Option β) (D U : List Rule) (drop : Rule → Bool)

/-- the projection of a source list -/
def proj (l : List Src) : List (Option β) := l.map fun s => f s.attrs

theorem proj_append (a b : List Src) : proj f (a ++ b) = proj f a ++ proj f b := by simp [proj]

/-- every default rule that is dropped has a user rule with the same class set that sets `f` -/
def Shadowed : Prop :=
  ∀ r ∈ D, drop r = true → ∃ u ∈ U, (∀ x, x ∈ r.names ↔ x ∈ u.names) ∧ f u.attrs ≠ none

theorem appliesB_congr (seen : List Text) (new : Text) (r u : Rule) (h : ∀ x, x ∈ r.names ↔ x ∈ u.names) :
    appliesB seen new r = appliesB seen new u := by
  rw [Bool.eq_iff_iff, appliesB_iff, appliesB_iff]
  unfold Applies
  constructor
  · rintro ⟨h1, h2⟩; exact ⟨(h new).1 h1, fun n hn => h2 n ((h n).2 hn)⟩
  · rintro ⟨h1, h2⟩; exact ⟨(h new).2 h1, fun n hn => h2 n ((h n).1 hn)⟩

theorem isEmpty_congr (r u : Rule) (h : ∀ x, x ∈ r.names ↔ x ∈ u.names) : r.names.isEmpty = u.names.isEmpty := by
  cases hr : r.names with
  | nil =>
    cases hu : u.names with
    | nil => rfl
    | cons y ys => have := (h y).2 (by simp [hu]); simp [hr] at this
  | cons y ys =>
    cases hu : u.names with
    | nil => have := (h y).1 (by simp [hr]); simp [hu] at this
    | cons _ _ => rfl

/-- one block (the rules selected by a set-invariant predicate `p`): defaults then user rules -/
theorem block_eq (hsh : Shadowed f D U drop) (p : Rule → Bool)
    (hp : ∀ r u : Rule, (∀ x, x ∈ r.names ↔ x ∈ u.names) → p r = p u) :
    pyOr (proj f (((D ++ U).filter p).map Src.rule)) =
      pyOr (proj f (((D.filter (fun r => !drop r) ++ U).filter p).map Src.rule)) := by
  rw [List.filter_append, List.filter_append, List.map_append, List.map_append, proj_append, proj_append]
  apply pyOr_block
  intro hne
  -- something was dropped inside this block
  have : ∃ r ∈ D, p r = true ∧ drop r = true := by
    apply Classical.byContradiction
    intro hcon
    apply hne
    congr 2
    rw [List.filter_filter]
    apply List.filter_congr
    intro r hr
    cases hpr : p r with
    | false => rfl
    | true =>
      cases hdr : drop r with
      | false => rfl
      | true => exact absurd ⟨r, hr, hpr, hdr⟩ hcon
  obtain ⟨r, hr, hpr, hdr⟩ := this
  obtain ⟨u, hu, hnames, hset⟩ := hsh r hr hdr
  refine ⟨f u.attrs, ?_, hset⟩
  unfold proj
  simp only [List.mem_map, List.mem_filter]
  exact ⟨Src.rule u, ⟨u, ⟨hu, (hp r u hnames) ▸ hpr⟩, rfl⟩, rfl⟩

theorem classSources_eq (hsh : Shadowed f D U drop) (seen names : List Text) :
    pyOr (proj f (classSources (D ++ U) seen names)) =
      pyOr (proj f (classSources (D.filter (fun r => !drop r) ++ U) seen names)) := by
  induction names generalizing seen with
  | nil => rfl
  | cons n ns ih =>
    simp only [classSources, proj_append]
    exact pyOr_congr_append _ _ _ _
      (block_eq f D U drop hsh (appliesB seen n) (fun r u h => appliesB_congr seen n r u h))
      (ih (seen ++ [n]))

theorem partsSources_eq (hsh : Shadowed f D U drop) (T : Tables) (sp : Char → Bool) (parts seen : List Text) :
    (partsSources T sp (D ++ U) seen parts).map (fun l => pyOr (proj f l)) =
      (partsSources T sp (D.filter (fun r => !drop r) ++ U) seen parts).map (fun l => pyOr (proj f l)) := by
  induction parts generalizing seen with
  | nil => rfl
  | cons p ps ih =>
    simp only [partsSources]
    split
    · have := ih (seen ++ classPartNames p)
      cases h1 : partsSources T sp (D ++ U) (seen ++ classPartNames p) ps with
      | none =>
        cases h2 : partsSources T sp (D.filter (fun r => !drop r) ++ U) (seen ++ classPartNames p) ps with
        | none => rfl
        | some _ => simp [h1, h2] at this
      | some l1 =>
        cases h2 : partsSources T sp (D.filter (fun r => !drop r) ++ U) (seen ++ classPartNames p) ps with
        | none => simp [h1, h2] at this
        | some l2 =>
          simp only [h1, h2, Option.map_some, Option.some.injEq] at this ⊢
          rw [proj_append, proj_append]
          exact pyOr_congr_append _ _ _ _ (classSources_eq f D U drop hsh seen (classPartNames p)) this
    · cases parseStyleStr T sp p with
      | none => rfl
      | some a =>
        have := ih seen
        cases h1 : partsSources T sp (D ++ U) seen ps with
        | none =>
          cases h2 : partsSources T sp (D.filter (fun r => !drop r) ++ U) seen ps with
          | none => rfl
          | some _ => simp [h1, h2] at this
        | some l1 =>
          cases h2 : partsSources T sp (D.filter (fun r => !drop r) ++ U) seen ps with
          | none => simp [h1, h2] at this
          | some l2 =>
            simp only [h1, h2, Option.map_some, Option.some.injEq] at this ⊢
            exact pyOr_congr_append [f a] [f a] _ _ rfl this

/-- the resolved value of the attribute (`_or(dflt, *[f a for a in list_of_attrs])`) -/
theorem sources_eq (hsh : Shadowed f D U drop) (T : Tables) (sp : Char → Bool) (s : Text) (d : Attrs) (d0 : β) :
    (sources T sp (D ++ U) s d).map (fun l => pyOr (some d0 :: proj f l)) =
      (sources T sp (D.filter (fun r => !drop r) ++ U) s d).map (fun l => pyOr (some d0 :: proj f l)) := by
  unfold sources
  have := partsSources_eq f D U drop hsh T sp (splitWs sp s) []
  cases h1 : partsSources T sp (D ++ U) [] (splitWs sp s) with
  | none =>
    cases h2 : partsSources T sp (D.filter (fun r => !drop r) ++ U) [] (splitWs sp s) with
    | none => rfl
    | some _ => simp [h1, h2] at this
  | some l1 =>
    cases h2 : partsSources T sp (D.filter (fun r => !drop r) ++ U) [] (splitWs sp s) with
    | none => simp [h1, h2] at this
    | some l2 =>
      simp only [h1, h2, Option.map_some, Option.some.injEq] at this ⊢
      have e1 : ∀ l : List Src, (some d0 :: proj f (Src.dflt d :: l)) = [some d0, f d] ++ proj f l := by
        intro l; simp [proj, Src.attrs]
      rw [e1, e1, proj_append, proj_append]
      refine pyOr_congr_append _ _ _ _ rfl (pyOr_congr_append _ _ _ _ ?_ this)
      exact block_eq f D U drop hsh (fun r => r.names.isEmpty) (fun r u h => isEmpty_congr r u h)
end

/-- the attribute fields -/
inductive Field where
  | color | bgcolor | bold | underline | strike | italic | blink | reverse | hidden
deriving DecidableEq, Repr

def Field.isSet : Field → Attrs → Bool
  | .color, a => a.color.isSome
  | .bgcolor, a => a.bgcolor.isSome
  | .bold, a => a.bold.isSome
  | .underline, a => a.underline.isSome
  | .strike, a => a.strike.isSome
  | .italic, a => a.italic.isSome
  | .blink, a => a.blink.isSome
  | .reverse, a => a.reverse.isSome
  | .hidden, a => a.hidden.isSome

def Field.same : Field → Attrs → Attrs → Prop
  | .color, a, b => a.color = b.color
  | .bgcolor, a, b => a.bgcolor = b.bgcolor
  | .bold, a, b => a.bold = b.bold
  | .underline, a, b => a.underline = b.underline
  | .strike, a, b => a.strike = b.strike
  | .italic, a, b => a.italic = b.italic
  | .blink, a, b => a.blink = b.blink
  | .reverse, a, b => a.reverse = b.reverse
  | .hidden, a, b => a.hidden = b.hidden

theorem getAttrs_via_sources (T : Tables) (sp : Char → Bool) (rules : List Rule) (s : Text) (d : Attrs) :
    getAttrs T sp rules s d = (sources T sp rules s d).map fun l => mergeAttrs (l.map Src.attrs) := by
  unfold getAttrs
  rw [listOfAttrs_eq_sources]
  cases sources T sp rules s d <;> rfl

/-- **C19-u (a user rule beats a default rule).**  Let the rule table be `D ++ U` (defaults, then user
    rules).  Drop from `D` any set of rules each of which has the same class set as some user rule
    that sets attribute `fld`.  Then for every style string and default argument the resolution
    succeeds or fails alike, and the resolved value of `fld` is the same: a default rule never
    overrides, in that attribute, a user rule for the same classes. -/
theorem user_rule_shadows_default (fld : Field) (D U : List Rule) (drop : Rule → Bool)
    (hsh : ∀ r ∈ D, drop r = true →
      ∃ u ∈ U, (∀ x, x ∈ r.names ↔ x ∈ u.names) ∧ fld.isSet u.attrs = true)
    (T : Tables) (sp : Char → Bool) (s : Text) (d : Attrs) :
    (getAttrs T sp (D ++ U) s d).isSome = (getAttrs T sp (D.filter (fun r => !drop r) ++ U) s d).isSome ∧
    ∀ a a', getAttrs T sp (D ++ U) s d = some a →
      getAttrs T sp (D.filter (fun r => !drop r) ++ U) s d = some a' → fld.same a a' := by
  rw [getAttrs_via_sources, getAttrs_via_sources]
  have key : ∀ {β : Type} (f : Attrs → Option β) (d0 : β), (∀ a, fld.isSet a = true → f a ≠ none) →
      (sources T sp (D ++ U) s d).map (fun l => pyOr (some d0 :: proj f l)) =
      (sources T sp (D.filter (fun r => !drop r) ++ U) s d).map (fun l => pyOr (some d0 :: proj f l)) := by
    intro β f d0 hf
    apply sources_eq f D U drop
    intro r hr hd
    obtain ⟨u, hu, hn, hs⟩ := hsh r hr hd
    exact ⟨u, hu, hn, hf _ hs⟩
  constructor
  · have h := key (fun a => if fld.isSet a = true then some () else none) () (by intro a ha; simp [ha])
    cases h1 : sources T sp (D ++ U) s d <;>
      cases h2 : sources T sp (D.filter (fun r => !drop r) ++ U) s d <;> simp_all
  · intro a a' h1 h2
    cases hs1 : sources T sp (D ++ U) s d with
    | none => simp [hs1] at h1
    | some l1 =>
      cases hs2 : sources T sp (D.filter (fun r => !drop r) ++ U) s d with
      | none => simp [hs2] at h2
      | some l2 =>
        simp only [hs1, hs2, Option.map_some, Option.some.injEq] at h1 h2
        subst h1; subst h2
        cases fld
        · have h := key (fun a => a.color) [] (by intro a; simp [Field.isSet, Option.isSome_iff_ne_none])
          simpa [hs1, hs2, Field.same, mergeAttrs, proj, List.map_map, Function.comp_def] using h
        · have h := key (fun a => a.bgcolor) [] (by intro a; simp [Field.isSet, Option.isSome_iff_ne_none])
          simpa [hs1, hs2, Field.same, mergeAttrs, proj, List.map_map, Function.comp_def] using h
        · have h := key (fun a => a.bold) false (by intro a; simp [Field.isSet, Option.isSome_iff_ne_none])
          simpa [hs1, hs2, Field.same, mergeAttrs, proj, List.map_map, Function.comp_def] using h
        · have h := key (fun a => a.underline) false (by intro a; simp [Field.isSet, Option.isSome_iff_ne_none])
          simpa [hs1, hs2, Field.same, mergeAttrs, proj, List.map_map, Function.comp_def] using h
        · have h := key (fun a => a.strike) false (by intro a; simp [Field.isSet, Option.isSome_iff_ne_none])
          simpa [hs1, hs2, Field.same, mergeAttrs, proj, List.map_map, Function.comp_def] using h
        · have h := key (fun a => a.italic) false (by intro a; simp [Field.isSet, Option.isSome_iff_ne_none])
          simpa [hs1, hs2, Field.same, mergeAttrs, proj, List.map_map, Function.comp_def] using h
        · have h := key (fun a => a.blink) false (by intro a; simp [Field.isSet, Option.isSome_iff_ne_none])
          simpa [hs1, hs2, Field.same, mergeAttrs, proj, List.map_map, Function.comp_def] using h
        · have h := key (fun a => a.reverse) false (by intro a; simp [Field.isSet, Option.isSome_iff_ne_none])
          simpa [hs1, hs2, Field.same, mergeAttrs, proj, List.map_map, Function.comp_def] using h
        · have h := key (fun a => a.hidden) false (by intro a; simp [Field.isSet, Option.isSome_iff_ne_none])
          simpa [hs1, hs2, Field.same, mergeAttrs, proj, List.map_map, Function.comp_def] using h

end Ptk.C19
