/-
  C08 — theorems about operators in visual (selection) mode (`Ptk.Model.C08Visual`):
  `_operator_in_selection` turns the selection into an INCLUSIVE / LINEWISE / BLOCK text object and
  runs the operator body of navigation mode.

    * `visual_delete_chars_exact`   — CHARACTERS: exactly text[a..b] (both ends) is removed and stored
    * `visual_delete_lines_exact`   — LINES: whole lines, stored as LINES
    * `visual_yank_never_edits`     — y never edits, for all three selection types
    * `visual_transform_frame`      — case operators: exactly the range between the two ends
    * `visual_block_cut`            — BLOCK d / c / y: one range per row, ascending and disjoint; the
                                      kept and the cut pieces partition the text in order; clipboard =
                                      the cut pieces joined by newlines, type BLOCK
    * `visual_indent_rows_partial` / `visual_indent_takes_next_line`   — `>` `<`: the rows of the two
                                      ends, unless the selection ends on a line break (then one more)
    * `visual_block_case_is_chars` / `visual_block_case_leaves_block`  — on a BLOCK selection case and
                                      indent operators act on the whole range between the corners
-/
import Ptk.Props.C08Session
import Ptk.Model.C08Visual
namespace Ptk.C08
open Ptk.Py

/-! ### CHARACTERS / LINES selections: the operator of navigation mode on an INCLUSIVE / LINEWISE
    text object -/

/-- the selection as a text object is inside the text -/
theorem sel_inRange (s : St) (orig : Nat) (ty : TOType) (hc : s.cur ≤ s.text.length)
    (ho : orig ≤ s.text.length) :
    InRange s.doc { start := (orig : Int) - s.cur, type := ty } := by
  unfold InRange St.doc; simp only []; omega

/-- the operator range of a CHARACTERS selection: from the smaller to the larger end, the
    larger end INCLUDED -/
theorem sel_chars_range (s : St) (orig : Nat) :
    operatorRange s.doc { start := (orig : Int) - s.cur, type := .inclusive } =
      ((min orig s.cur : Nat) - (s.cur : Int), (max orig s.cur : Nat) - (s.cur : Int) + 1) := by
  unfold operatorRange TextObject.sorted
  simp only []
  split <;> (simp; constructor <;> omega)

/-- **visual `d` / `c` on a CHARACTERS selection**: exactly `text[a .. b]` (both ends included) is
    removed, the clipboard holds exactly it, the cursor is at `a` -/
theorem visual_delete_chars_exact (env : Env) (s : St) (orig count : Nat) (change : Bool)
    (hc : s.cur < s.text.length) (ho : orig < s.text.length) :
    let a := min orig s.cur
    let b := max orig s.cur + 1
    visualOp env s orig .chars (if change then .change none else .delete none) count =
      some { text := s.text.take a ++ s.text.drop b, cur := a,
             clip := { text := (s.text.take b).drop a, ty := .chars },
             regs := s.regs.map fun p => (p.1, p.2.toV), insert := s.insert || change } := by
  intro a b
  have hr := sel_inRange s orig .inclusive (by omega) (by omega)
  have hrange := sel_chars_range s orig
  have hne : (operatorRange s.doc { start := (orig : Int) - s.cur, type := .inclusive }).1 <
      (operatorRange s.doc { start := (orig : Int) - s.cur, type := .inclusive }).2 := by
    rw [hrange]; simp only []; omega
  have hin : (s.cur : Int) + (operatorRange s.doc { start := (orig : Int) - s.cur, type := .inclusive }).1
      < s.text.length := by
    rw [hrange]; simp only []; omega
  obtain ⟨s', hs'⟩ : ∃ s', opDelete s { start := (orig : Int) - s.cur, type := .inclusive } none change = some s' := by
    obtain ⟨x, hx, _⟩ := applyOp_ok env s (if change then .change none else .delete none)
      { start := (orig : Int) - s.cur, type := .inclusive } count (by omega) hr
    cases change <;> exact ⟨x, by simpa [applyOp] using hx⟩
  obtain ⟨a', b', ha, hb, _, e1, e2, e3, e4, _⟩ := delete_charwise_exact s s'
    { start := (orig : Int) - s.cur, type := .inclusive } change hr (by simp) hne hin hs'
  rw [hrange] at ha hb
  simp only [] at ha hb
  have haa : a' = a := by omega
  have hbb : b' = b := by omega
  subst haa hbb
  have hins : s'.insert = (s.insert || change) := by
    obtain ⟨_, _, _, _, _, e, _⟩ := delete_spec s s' _ none change rfl hs'
    exact e
  have happ : applyOp env s (if change then .change none else .delete none)
      { start := (orig : Int) - s.cur, type := .inclusive } count = some s' := by
    cases change <;> simpa [applyOp] using hs'
  simp only [visualOp, happ, Option.map_some, St.toV]
  rw [e1, e2, e3, e4, hins]
  rfl

/-- **visual `y`** never edits, whatever the selection type (CHARACTERS, LINES, BLOCK) -/
theorem visual_yank_never_edits (env : Env) (s : St) (orig : Nat) (ty : SelType) (reg : Option Char)
    (count : Nat) (s' : VSt) (h : visualOp env s orig ty (.yank reg) count = some s') :
    s'.text = s.text ∧ s'.cur = s.cur := by
  have hv : ∀ (x : VSt) r c, (vStore x r c).text = x.text ∧ (vStore x r c).cur = x.cur := by
    intro x r c; unfold vStore; split
    · exact ⟨rfl, rfl⟩
    · split
      · split <;> exact ⟨rfl, rfl⟩
      · exact ⟨rfl, rfl⟩
  cases ty with
  | chars =>
    simp only [visualOp] at h
    obtain ⟨x, hx, hx'⟩ := Option.map_eq_some_iff.1 h
    subst hx'
    have := yank_never_edits s x _ reg (by simpa [applyOp] using hx)
    exact ⟨this.1, this.2.1⟩
  | lines =>
    simp only [visualOp] at h
    obtain ⟨x, hx, hx'⟩ := Option.map_eq_some_iff.1 h
    subst hx'
    have := yank_never_edits s x _ reg (by simpa [applyOp] using hx)
    exact ⟨this.1, this.2.1⟩
  | block =>
    simp only [visualOp] at h
    cases reg with
    | none => simp at h; subst h; exact hv _ _ _
    | some r =>
      simp only [] at h
      split at h
      · simp at h; subst h; exact hv _ _ _
      · simp at h; subst h; exact ⟨rfl, rfl⟩

/-- **visual `d` on a LINES selection** removes whole lines and stores them as LINES (the
    statement of `delete_linewise_exact`, for the selection) -/
theorem visual_delete_lines_exact (env : Env) (s : St) (orig count : Nat)
    (hc : s.cur ≤ s.text.length) (ho : orig ≤ s.text.length) :
    ∃ s' : St, visualOp env s orig .lines (.delete none) count = some s'.toV ∧
      ∃ a b : Nat, a ≤ b ∧ b ≤ s.text.length ∧ a ≤ min orig s.cur ∧ max orig s.cur ≤ b ∧
        (a = 0 ∨ s.text[a - 1]? = some '\n') ∧ (b = s.text.length ∨ s.text[b - 1]? = some '\n') ∧
        s'.text = s.text.take a ++ s.text.drop b ∧ s'.cur = a ∧ s'.clip.lines = true ∧
        s'.regs = s.regs ∧
        ∃ nl : Text, (nl = [] ∨ nl = ['\n']) ∧
          s.text = s'.text.take s'.cur ++ (s'.clip.text ++ nl) ++ s'.text.drop s'.cur := by
  have hr := sel_inRange s orig .linewise hc ho
  obtain ⟨s', hs', _⟩ := applyOp_ok env s (.delete none) { start := (orig : Int) - s.cur, type := .linewise }
    count hc hr
  have hd : opDelete s { start := (orig : Int) - s.cur, type := .linewise } none false = some s' := by
    simpa [applyOp] using hs'
  obtain ⟨a, b, hab, hbl, c1, c2, c3, c4, e1, e2, e3, e4, nl, hnl, hrec⟩ :=
    delete_linewise_exact s s' _ false hr rfl hd
  refine ⟨s', by simp only [visualOp, hs', Option.map_some], a, b, hab, hbl, ?_, ?_, c3, c4, e1, e2,
    by rw [e3], e4, nl, hnl, hrec⟩
  · have : ({ start := (orig : Int) - s.cur, type := .linewise } : TextObject).sorted.1 =
        (min orig s.cur : Nat) - (s.cur : Int) := by
      unfold TextObject.sorted; simp only []; split <;> omega
    rw [this] at c1; omega
  · have : ({ start := (orig : Int) - s.cur, type := .linewise } : TextObject).sorted.2 =
        (max orig s.cur : Nat) - (s.cur : Int) := by
      unfold TextObject.sorted; simp only []; split <;> omega
    rw [this] at c2; omega

/-- **case operators on a CHARACTERS / BLOCK selection**: exactly the contiguous range
    `text[a .. b]` between the two ends is replaced by its image; clipboard and registers are
    untouched.  (For a BLOCK selection this is MORE than the block: see
    `visual_block_case_leaves_block`.) -/
theorem visual_transform_frame (env : Env) (s : St) (orig count : Nat) (k : Transform) (blk : Bool)
    (hc : s.cur < s.text.length) (ho : orig < s.text.length) :
    let a := min orig s.cur
    let b := max orig s.cur + 1
    ∃ s' : St, visualOp env s orig (if blk then .block else .chars) (.transform k) count = some s'.toV ∧
      s'.text = s.text.take a ++ env.tf k ((s.text.take b).drop a) ++ s.text.drop b ∧
      s'.clip = s.clip ∧ s'.regs = s.regs := by
  intro a b
  have hr := sel_inRange s orig .inclusive (by omega) (by omega)
  have hrange := sel_chars_range s orig
  obtain ⟨s', hs', _⟩ := applyOp_ok env s (.transform k) { start := (orig : Int) - s.cur, type := .inclusive }
    count (by omega) hr
  have ht : opTransform (env.tf k) s { start := (orig : Int) - s.cur, type := .inclusive } = some s' := by
    simpa [applyOp] using hs'
  obtain ⟨e1, e2, _, _, e5⟩ := transform_frame (env.tf k) s s' _ hr ht
  obtain ⟨a', b', ha, hb, _, htext⟩ := e5 (by rw [hrange]; simp only []; omega)
  rw [hrange] at ha hb
  simp only [] at ha hb
  have haa : a' = a := by omega
  have hbb : b' = b := by omega
  subst haa hbb
  refine ⟨s', ?_, htext, e1, e2⟩
  cases blk <;> simp only [visualOp, applyOp, ht, Option.map_some] <;> rfl

/-! ### BLOCK selections: `d` / `c` / `y` act per line -/

/-- ranges in ascending order, each non-negative in length, starting at or after `lo` -/
def Asc : Nat → List (Nat × Nat) → Prop
  | _, [] => True
  | lo, (f, to) :: rs => lo ≤ f ∧ f ≤ to ∧ Asc to rs

theorem Asc_mono (lo lo' : Nat) (rs : List (Nat × Nat)) (h : lo' ≤ lo) (ha : Asc lo rs) : Asc lo' rs := by
  cases rs with
  | nil => trivial
  | cons r rs => obtain ⟨f, to⟩ := r; exact ⟨Nat.le_trans h ha.1, ha.2.1, ha.2.2⟩

/-- the ranges of a block are ascending, disjoint, one per row, each inside its own line
    (between the line's start offset and its end) -/
theorem blockRangesGo_asc (c1 c2 fl tl : Nat) (hc : c1 ≤ c2) (ls : List Text) (row off : Nat) :
    Asc off (blockRangesGo c1 c2 fl tl ls row off) ∧
    ∀ r ∈ blockRangesGo c1 c2 fl tl ls row off, r.2 ≤ off + (join ['\n'] ls).length := by
  induction ls generalizing row off with
  | nil => exact ⟨trivial, by simp [blockRangesGo]⟩
  | cons line rest ih =>
    obtain ⟨ih1, ih2⟩ := ih (row + 1) (off + line.length + 1)
    have hjoin : line.length ≤ (join ['\n'] (line :: rest)).length ∧
        (rest ≠ [] → line.length + 1 + (join ['\n'] rest).length = (join ['\n'] (line :: rest)).length) := by
      cases rest with
      | nil => simp [join]
      | cons x xs => simp [join]; omega
    have hrest : ∀ r ∈ blockRangesGo c1 c2 fl tl rest (row + 1) (off + line.length + 1),
        r.2 ≤ off + (join ['\n'] (line :: rest)).length := by
      intro r hr
      cases rest with
      | nil => simp [blockRangesGo] at hr
      | cons x xs =>
        have := ih2 r hr
        have := hjoin.2 (by simp)
        omega
    unfold blockRangesGo
    split
    · rename_i hcond
      refine ⟨⟨by omega, by omega, Asc_mono _ _ _ (by omega) ih1⟩, ?_⟩
      intro r hr
      simp only [List.cons_append, List.nil_append, List.mem_cons] at hr
      rcases hr with hr | hr
      · subst hr; simp only []; omega
      · exact hrest r hr
    · simp only [List.nil_append]
      exact ⟨Asc_mono _ _ _ (by omega) ih1, hrest⟩

/-- the pieces `cut_selection` keeps (before, between and behind the ranges) and the pieces it cuts -/
def keptPieces (t : Text) : List (Nat × Nat) → Nat → List Text
  | [], lastTo => [t.drop lastTo]
  | (f, to) :: rs, lastTo => (t.take f).drop lastTo :: keptPieces t rs to
def cutPieces (t : Text) : List (Nat × Nat) → List Text
  | [] => []
  | (f, to) :: rs => (t.take to).drop f :: cutPieces t rs

/-- kept and cut pieces put back alternately: `k0 ++ c1 ++ k1 ++ c2 ++ … ++ kn` -/
def weave : List Text → List Text → Text
  | k :: ks, c :: cs => k ++ c ++ weave ks cs
  | k :: _, [] => k
  | [], _ => []

theorem cutLoop_pieces (t : Text) (rs : List (Nat × Nat)) (lastTo cur : Nat) (rem parts : List Text) :
    (cutLoop t rs lastTo cur rem parts).1 = join [] (rem.reverse ++ keptPieces t rs lastTo) ∧
    (cutLoop t rs lastTo cur rem parts).2.1 = parts.reverse ++ cutPieces t rs := by
  induction rs generalizing lastTo cur rem parts with
  | nil => simp [cutLoop, keptPieces, cutPieces]
  | cons r rs ih =>
    obtain ⟨f, to⟩ := r
    simp only [cutLoop, keptPieces, cutPieces]
    obtain ⟨h1, h2⟩ := ih to (if lastTo = 0 then f else cur) ((t.take f).drop lastTo :: rem)
      ((t.take to).drop f :: parts)
    rw [h1, h2]
    simp

/-- for ascending ranges inside the text, the kept and the cut pieces partition the text in order -/
theorem weave_pieces (t : Text) (rs : List (Nat × Nat)) (lastTo : Nat) (ha : Asc lastTo rs)
    (hb : ∀ r ∈ rs, r.2 ≤ t.length) : weave (keptPieces t rs lastTo) (cutPieces t rs) = t.drop lastTo := by
  induction rs generalizing lastTo with
  | nil => simp [keptPieces, cutPieces, weave]
  | cons r rs ih =>
    obtain ⟨f, to⟩ := r
    obtain ⟨h1, h2, h3⟩ := ha
    simp only [keptPieces, cutPieces, weave]
    rw [ih to h3 (fun r hr => hb r (List.mem_cons_of_mem _ hr))]
    have hto : to ≤ t.length := hb (f, to) List.mem_cons_self
    -- t.drop lastTo = t[lastTo:f] ++ t[f:to] ++ t[to:]
    have := slice_partition (t.drop lastTo) (f - lastTo) (to - lastTo) (by omega)
    rw [← this]
    congr 1
    · congr 1
      · rw [List.take_drop]; congr 2; omega
      · rw [List.take_drop, List.drop_drop]
        have e1 : lastTo + (to - lastTo) = to := by omega
        have e2 : lastTo + (f - lastTo) = f := by omega
        rw [e1, e2]
    · rw [List.drop_drop]; congr 1; omega

theorem join_splitOn_id (t : Text) : join ['\n'] (splitOn '\n' t) = t := by
  induction t with
  | nil => simp [splitOn, join]
  | cons x xs ih =>
    unfold splitOn
    split
    · rename_i h
      cases hs : splitOn '\n' xs with
      | nil => exact absurd hs (splitOn_ne_nil '\n' xs)
      | cons l ls =>
        rw [hs] at ih
        simp [join, ih, h]
    · cases hs : splitOn '\n' xs with
      | nil => exact absurd hs (splitOn_ne_nil '\n' xs)
      | cons l ls =>
        rw [hs] at ih
        simp only
        cases ls with
        | nil => simp [join] at ih ⊢; exact ih
        | cons l2 ls2 => simp [join] at ih ⊢; exact ih

theorem join_nil (ls : List Text) : join [] ls = ls.flatten := by
  induction ls with
  | nil => rfl
  | cons x xs ih =>
    cases xs with
    | nil => simp [join]
    | cons y ys => simp [join] at ih ⊢; exact ih

/-- **`d` / `c` / `y` on a BLOCK selection** ("removes one contiguous span" does not apply): the
    block yields one range per row, ascending and disjoint; the text is partitioned, in order,
    into the kept pieces and the cut pieces (`weave kept cut = text`); the new text is the kept
    pieces put together, and the clipboard data is the cut pieces joined by newlines, type BLOCK. -/
theorem visual_block_cut (s : St) (orig : Nat) :
    let rs := blockRanges s.text (min s.cur orig) (max s.cur orig)
    let r := cutBlock s.text s.cur orig s.toV
    Asc 0 rs ∧ weave (keptPieces s.text rs 0) (cutPieces s.text rs) = s.text ∧
    r.1.text = (keptPieces s.text rs 0).flatten ∧
    r.2 = { text := join ['\n'] (cutPieces s.text rs), ty := .block } ∧
    r.1.clip = s.clip.toV ∧ r.1.insert = s.insert := by
  intro rs r
  have hasc := blockRangesGo_asc
    (min (min s.cur orig - lineStart s.text (min s.cur orig)) (max s.cur orig - lineStart s.text (max s.cur orig)))
    (max (min s.cur orig - lineStart s.text (min s.cur orig)) (max s.cur orig - lineStart s.text (max s.cur orig)) + 1)
    (rowOf s.text (min s.cur orig)) (rowOf s.text (max s.cur orig)) (by omega) (lines s.text) 0 0
  have hjoin : join ['\n'] (lines s.text) = s.text := by
    unfold lines
    exact join_splitOn_id s.text
  have hb : ∀ r ∈ rs, r.2 ≤ s.text.length := by
    intro x hx
    have := hasc.2 x hx
    rw [hjoin] at this
    omega
  obtain ⟨p1, p2⟩ := cutLoop_pieces s.text rs 0 (max s.cur orig) [] []
  refine ⟨hasc.1, ?_, ?_, ?_, rfl, rfl⟩
  · have := weave_pieces s.text rs 0 hasc.1 hb
    simpa using this
  · show (cutLoop s.text rs 0 (max s.cur orig) [] []).1 = _
    rw [p1]; simp [join_nil]
  · show ({ text := join ['\n'] (cutLoop s.text rs 0 (max s.cur orig) [] []).2.1, ty := SelType.block } : VClip) = _
    rw [p2]; simp

/-! ### where visual mode deviates from "exactly the selection" -/

theorem rowOf_succ (t : Text) (i : Nat) :
    rowOf t (i + 1) = rowOf t i + (if t[i]? = some '\n' then 1 else 0) := by
  unfold rowOf
  by_cases hi : i < t.length
  · have : t.take (i + 1) = t.take i ++ [t[i]] := by
      rw [List.take_add_one]; simp [List.getElem?_eq_getElem hi]
    rw [this, List.filter_append, List.length_append, List.getElem?_eq_getElem hi]
    by_cases hc : t[i] = '\n'
    · simp [hc]
    · simp [hc]
  · have h1 : t.take (i + 1) = t := List.take_of_length_le (by omega)
    have h2 : t.take i = t := List.take_of_length_le (by omega)
    have h3 : t[i]? = none := by simp; omega
    rw [h1, h2, h3]; simp

/-- the rows `>` / `<` act on for a CHARACTERS or BLOCK selection: from the row of the smaller end
    to the row of the position BEHIND the larger end -/
theorem sel_line_numbers (s : St) (orig : Nat) :
    getLineNumbers s.doc { start := (orig : Int) - s.cur, type := .inclusive } =
      (((rowOf s.text (min orig s.cur) : Nat) : Int), ((rowOf s.text (max orig s.cur + 1) : Nat) : Int)) := by
  unfold getLineNumbers
  have hr : operatorRange s.doc { start := (orig : Int) - s.cur, type := .inclusive } =
      ((min orig s.cur : Nat) - (s.cur : Int), (max orig s.cur : Nat) - (s.cur : Int) + 1) := by
    unfold operatorRange TextObject.sorted
    simp only []
    split <;> (simp; constructor <;> omega)
  rw [hr]
  show (rowI s.text ((min orig s.cur : Nat) - (s.cur : Int) + (s.cur : Int)),
        rowI s.text ((max orig s.cur : Nat) - (s.cur : Int) + 1 + (s.cur : Int))) = _
  have e1 : (min orig s.cur : Nat) - (s.cur : Int) + (s.cur : Int) = ((min orig s.cur : Nat) : Int) := by omega
  have e2 : (max orig s.cur : Nat) - (s.cur : Int) + 1 + (s.cur : Int) = ((max orig s.cur + 1 : Nat) : Int) := by omega
  rw [e1, e2]
  simp [rowI]
  omega

/-- **visual `>` / `<` — partial**: when the larger end of the selection is NOT on a line break,
    the indented rows are exactly the rows of the two ends.  (Excluded: the selection ends on a
    newline character, e.g. `v$>`: then the row below is indented as well —
    `visual_indent_takes_next_line`.) -/
theorem visual_indent_rows_partial (s : St) (orig : Nat)
    (hnl : s.text[max orig s.cur]? ≠ some '\n') :
    getLineNumbers s.doc { start := (orig : Int) - s.cur, type := .inclusive } =
      (((rowOf s.text (min orig s.cur) : Nat) : Int), ((rowOf s.text (max orig s.cur) : Nat) : Int)) := by
  rw [sel_line_numbers, rowOf_succ, if_neg hnl]; simp

/-- FALSE in general: `v$>` on the first line of `abc / def` indents BOTH lines -/
theorem visual_indent_takes_next_line :
    (visualOp { isSpace := fun c => c == ' ', reSpace := fun c => c == ' ', tf := fun _ t => t }
        { text := "abc\ndef".toList, cur := 3, clip := ⟨[], false⟩, regs := [], insert := false }
        0 .chars .indent 1).map (·.text) = some "    abc\n    def".toList := by decide

/-- FALSE: a case operator on a BLOCK selection changes characters outside the block: the block
    is column 0 of both lines of `abc / def` (`a` and `d`), `gU` gives `ABC / Def` -/
theorem visual_block_case_leaves_block :
    (visualOp { isSpace := fun c => c == ' ', reSpace := fun c => c == ' ', tf := fun _ t => t.map Char.toUpper }
        { text := "abc\ndef".toList, cur := 4, clip := ⟨[], false⟩, regs := [], insert := false }
        0 .block (.transform .upper) 1).map (·.text) = some "ABC\nDef".toList ∧
    blockRanges "abc\ndef".toList 0 4 = [(0, 1), (4, 5)] := by decide

/-- what holds instead (by definition of the code path): on a BLOCK selection the case and indent
    operators are the operators of the CHARACTERS selection with the same two ends -/
theorem visual_block_case_is_chars (env : Env) (s : St) (orig count : Nat) (k : Transform) :
    visualOp env s orig .block (.transform k) count = visualOp env s orig .chars (.transform k) count ∧
    visualOp env s orig .block .indent count = visualOp env s orig .chars .indent count ∧
    visualOp env s orig .block .unindent count = visualOp env s orig .chars .unindent count := by
  simp [visualOp, applyOp]

/-- an unknown register name in visual mode (`v..."Ad`): nothing happens, for every selection type -/
theorem visual_invalid_register_noop (env : Env) (s : St) (orig count : Nat) (ty : SelType) (r : Char)
    (change : Bool) (hreg : isRegName r = false) :
    visualOp env s orig ty (if change then .change (some r) else .delete (some r)) count = some s.toV := by
  have hb : badReg (some r) = true := by simp [badReg, hreg]
  cases ty <;> cases change <;> simp [visualOp, applyOp, opDelete_bad _ _ _ _ hb, hb]

/-! ### non-vacuity -/
section examples
def vSt (t : String) (c : Nat) : St := { text := t.toList, cur := c, clip := ⟨"zz".toList, false⟩, regs := [], insert := false }
def vKeys (l : List VKey) := l

-- `vld` removes two characters, `Vjd` two lines, `c-v j l d` a 2x2 block
example : (visualKeys exEnv (vSt "abc\ndef\nghi" 1) none .chars [.motion .l] (.delete none)).map
    (fun s => (String.ofList s.text, String.ofList s.clip.text, s.clip.ty)) = some ("a\ndef\nghi", "bc", .chars) := by decide
example : (visualKeys exEnv (vSt "abc\ndef\nghi" 1) none .lines [.line true] (.delete none)).map
    (fun s => (String.ofList s.text, String.ofList s.clip.text, s.clip.ty)) = some ("ghi", "abc\ndef", .lines) := by decide
example : (visualKeys exEnv (vSt "abc\ndef\nghi" 1) none .block [.line true, .motion .l] (.delete none)).map
    (fun s => (String.ofList s.text, String.ofList s.clip.text, s.clip.ty)) = some ("a\nd\nghi", "bc\nef", .block) := by decide
example : (visualKeys exEnv (vSt "abc\ndef\nghi" 1) none .block [.line true, .motion .l] (.yank (some 'a'))).map
    (fun s => (String.ofList s.text, s.regs.map fun p => (p.1, String.ofList p.2.text, p.2.ty))) =
    some ("abc\ndef\nghi", [('a', "bc\nef", .block)]) := by decide
-- a text object in selection mode becomes the selection (one position too far: `viwd`)
example : (visualKeys exEnv (vSt "ab cd ef" 0) none .chars [.motion (.iw false)] (.delete none)).map
    (fun s => String.ofList s.text) = some "cd ef" := by decide
example : (visualEscape exEnv (vSt "ab cd ef" 3) none .chars [.motion (.iw false)]).map (·.cur) = some 5 := by decide
example : (vSt "abc\ndef" 0).text[max 4 (vSt "abc\ndef" 0).cur]? ≠ some '\n' := by decide
end examples

end Ptk.C08
