/-
  C10 part 9 — everything together: hostile content, through `_copy_body`, `_output_screen_diff`,
  `Vt100_Output`, `flush_stdout`, the encoder, and back through the terminal's decoder, has exactly
  one reading, and that reading contains only the renderer's own control tokens.
-/
import Ptk.Props.C10Out
namespace Ptk.C10
open Ptk.Py

theorem vtSegs_each_hasParse {E : Emit} {sgr : Nat → CText} (hE : emitParses E = true)
    (hs : ∀ a, HasParse (sgr a)) {scr : Screen} (hb : BufClean scr.buf) (hd : Clean scr.dflt.char)
    (hz : ∀ e ∈ scr.zwe, HasParse e.2) (evs : List Ev) (hev : ∀ e ∈ evs, EvOk scr e) (v : VtSt) :
    ∀ sg ∈ (vtSegs E sgr v evs).2, HasParse sg.2 := by
  induction evs generalizing v with
  | nil => intro sg h; simp [vtSegs] at h
  | cons e es ih =>
    intro sg h
    simp only [vtSegs, List.mem_cons] at h
    rcases h with rfl | h
    · exact vtEv_hasParse hE hs hb hd hz v (hev e (by simp))
    · exact ih (fun e' he' => hev e' (by simp [he'])) _ sg h

theorem hasParse_segs (f : CP → CP) (segs : List Seg) (h : ∀ sg ∈ segs, HasParse (sg.2.map f)) :
    HasParse ((segsText segs).map f) := by
  induction segs with
  | nil => exact hasParse_nil
  | cons sg rest ih =>
    rw [segsText_cons, List.map_append]
    exact hasParse_append (h sg (by simp)) (ih (fun s hs => h s (by simp [hs])))

/-- **Capstone.**  ANY lines of fragments (any code points — ESC, C0, C1, 8-bit CSI, wide and
    zero-width characters, lone surrogates), none marked `[ZeroWidthEscape]`; any styles, line-prefix
    callback, geometry, wrapping, scrolling; any previous screen, cursor, style state, flags; any
    display table / width function satisfying the side conditions; emitter strings and SGR codes
    that are pure-ASCII sentences of the output grammar; ANY lawful codec.  For the bytes
    `flush_stdout` hands to the binary stream for the frame:
    * a terminal of that encoding decodes them without a stray byte into a text `view`,
    * `view` has a parse into control tokens and non-control characters, and ONLY ONE,
    * the control tokens of that parse are exactly, in order, the control tokens of the renderer's own
      pieces (`ctrlTokens` of each generated piece): nothing that was displayed content — and no lone
      surrogate turned into a raw byte — is, completes, extends or splits a control sequence. -/
theorem hostile_content_unique_reading {C : Codec} (hC : Lawful C) {E : Emit} {sgr : Nat → CText}
    (hE : emitOk E = true) (hEa : emitAscii E = true) (hEp : emitParses E = true)
    (hs : ∀ a, Complete (sgr a)) (hsa : ∀ a, IsAscii (sgr a)) (hsp : ∀ a, HasParse (sgr a))
    (ccfg : CopyCfg) (ht : TableOk ccfg.m ccfg.wc)
    (hd : Clean ccfg.dflt.char) (lines : List (List Frag)) (vscroll vscroll2 : Nat)
    (hl : ∀ line ∈ lines, ∀ f ∈ line, isZwe f.1 = false)
    (hp : ∀ pre, ccfg.pre = some pre → ∀ ln wc, ∀ f ∈ pre ln wc, isZwe f.1 = false)
    (dcfg : DiffCfg) (d0 : Cell) (prev : Option Screen) (x0 y0 : Nat) (last : Option Text)
    (isDone fullScreen : Bool) (prevWidth : Nat) (v : VtSt)
    (height : Nat) (cursor : Nat × Nat) (showCursor : Bool) :
    let st := copyBody ccfg [] [] lines vscroll vscroll2
    let scr : Screen := { buf := st.buf, zwe := st.zwe, dflt := ccfg.dflt, height := height,
                          cursor := cursor, showCursor := showCursor }
    let segs := (vtSegs E sgr v (diff dcfg d0 scr prev x0 y0 last isDone fullScreen prevWidth).evs.reverse).2
    let bytes := encodeReplace C (segsText segs)
    let view := (segsText segs).map (repl C)
    C.dec bytes = view.map Item.cp ∧
    ∃ ps, Parse ps ∧ flat ps = view ∧ (∀ qs, Parse qs → flat qs = view → qs = ps) ∧
      toks ps = (segs.filter (fun sg => sg.1 ≠ .content)).flatMap (fun sg => ctrlTokens sg.2) := by
  intro st scr segs bytes view
  have hbytes := hostile_content_bytes hC hE hEa hs hsa ccfg ht hd lines vscroll vscroll2 hl hp dcfg d0 prev
    x0 y0 last isDone fullScreen prevWidth v height cursor showCursor
  obtain ⟨h1, h2, h3⟩ := hbytes
  refine ⟨h1, ?_⟩
  have hzwe : scr.zwe = [] := copyBody_zwe_unmarked ccfg [] [] lines vscroll vscroll2 hl hp
  have hb : BufClean scr.buf :=
    copyBody_clean ccfg ht hd [] [] (by intro pc h; simp at h) lines vscroll vscroll2
  have hz : ∀ e ∈ scr.zwe, HasParse e.2 := by intro e he; rw [hzwe] at he; simp at he
  have hev : ∀ e ∈ (diff dcfg d0 scr prev x0 y0 last isDone fullScreen prevWidth).evs.reverse, EvOk scr e := by
    intro e he
    exact diff_writes_only_cells dcfg d0 scr prev x0 y0 last isDone fullScreen prevWidth e (List.mem_reverse.mp he)
  have heach := vtSegs_each_hasParse hEp hsp hb hd hz _ hev v
  have hasc := vtSegs_ascii hEa hsa (diff dcfg d0 scr prev x0 y0 last isDone fullScreen prevWidth).evs.reverse v
  have hnz := (hostile_content_stream hE hs ccfg ht hd lines vscroll vscroll2 hl hp dcfg d0 prev x0 y0 last
    isDone fullScreen prevWidth v height cursor showCursor).1
  have hview : HasParse view := by
    apply hasParse_segs (repl C) segs
    intro sg hsg
    by_cases hk : sg.1 = .content
    · exact hasParse_clean (h2 sg hsg hk)
    · have : sg.1 = .gen ∨ sg.1 = .genw := by
        have hz' := hnz sg hsg
        cases ho : sg.1 with
        | gen => exact Or.inl rfl
        | genw => exact Or.inr rfl
        | content => exact absurd ho hk
        | zwe => exact absurd ho hz'
      rw [repl_ascii hC (hasc sg hsg this)]
      exact heach sg hsg
  obtain ⟨ps, hps, hfl⟩ := hview
  refine ⟨ps, hps, hfl, fun qs hq hfq => parse_unique hq hps (hfq.trans hfl.symm), ?_⟩
  have := (ctrlTokens_of_parse hps).1
  rw [hfl] at this
  rw [← this]
  exact h3

/-- all side conditions of the capstone that concern regenerated data, re-decided by the kernel on
    every run: display table, emitter strings (complete, ASCII, in the grammar), code pages -/
theorem gen_all_ok :
    TableOk genTable genWc ∧ emitOk genEmit = true ∧ emitAscii genEmit = true ∧ emitParses genEmit = true ∧
    emit2Ok genEmit2 = true ∧ (Gen.C10.charmaps.all fun e => charmapOk e.2.1 e.2.2) = true :=
  ⟨⟨gen_ok.1, gen_ok.2.1, gen_ok.2.2.1⟩, gen_emit_ok, gen_emit_ascii, gen_emit_parses, gen_emitters_ok.2, gen_codecs_ok⟩

-- the capstone's hypotheses are satisfiable together: real table, real emitters, UTF-8, a real code page
example : Lawful utf8 ∧ Lawful (charmap Gen.C10.enc_cp1252 Gen.C10.dec_cp1252) ∧ TableOk exCfg.m exCfg.wc ∧
    emitOk genEmit = true ∧ emitAscii genEmit = true ∧ emitParses genEmit = true :=
  ⟨utf8_lawful, gen_codec_lawful (e := ("cp1252", Gen.C10.enc_cp1252, Gen.C10.dec_cp1252)) (by decide +kernel),
   exCfg_ok, gen_emit_ok, gen_emit_ascii, gen_emit_parses⟩

end Ptk.C10
