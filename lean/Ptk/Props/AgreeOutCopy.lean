/-
  Cross-model agreement, output side, pair (5): `Window._copy_body` (layout/containers.py) with its
  nested `copy_line` / `copy` — C10 (`Model/C10Copy.lean`: what reaches the screen cells) vs C11
  (`Model/C11.lean`: where cells land).

  Result (`copyBody_agree`, `copyBody_cellAt`): on the shared sub-domain the SEQUENCE of cell contents
  written, entry by entry (both models keep the writes newest first), and the final `(x, y)` are
  equal; hence every screen cell reads the same text.

  Translation / shared sub-domain
    * characters `c : Char` ↦ `c.toNat`; texts through `enc` (Props/AgreeOutChar); widths/table through
      `WRel e.W cfg.m cfg.wc`.
    * a line (and a prefix) is a list `ts` of `(style, text)` fragments WITHOUT `[ZeroWidthEscape]`
      (`NoZwe`): C10 copies the fragments `encFrags ts`, C11 the concatenated text `flat ts` (C11 has no
      styles and no ZWE fragments).  One fragment per line is the special case `copyBody_agree_single`.
    * `xpos, ypos, width, height, wrap` identical; C10 `align = 0` (LEFT; C11 has no alignment).
    * `get_line_prefix`: absent in both or the same function (`PreRel`), continuation prompts included.
    * `horizontal_scroll`: C11 `hs = (cfg.hscroll : Int)`; when scrolled, C11 measures as drawn
      (`W.dm = true` = `get_display_width`, the current code) and no printable character has a display
      mapping (`PrintableUnmapped`, a fact about the real table) (`HsRel`).
    * `vertical_scroll = s.vs.toNat`, `vertical_scroll_2 = s.vs2 ≥ 0`.
    * screen: C10 starts from an empty buffer (any `zero_width_escapes`), default cell " " with its width.
    * table side condition: `C10.keysSingle` (keys of `display_mappings` are single characters), which
      is one of C10's generated side conditions.  (`valuesWidthPos` is NOT needed for agreement.)
  State relation `StRel`: same `x`, `y`, same cell-content sequence, and every C10 cell stores the
  width of its text (C10's merge test reads `prev.width`, C11 recomputes it).  C11's `col`, `rowCol`,
  `vl`, `rc` are unconstrained; its `ret` flag is C10's "stop" result, its `wc` is C10's `wrapCount`.
-/
import Ptk.Model.C10Copy
import Ptk.Model.C11
import Ptk.Props.AgreeOutChar
namespace Ptk.AgreeOut.Copy
open Ptk.Py Ptk.AgreeOut.Char

abbrev Cells := List ((Int × Int) × Text)

/-- the cell contents of C10's screen buffer, entry by entry (newest first) -/
def projB (b : C10.Buf) : List ((Int × Int) × List Nat) := b.map fun pc => (pc.1, pc.2.char)
/-- the cell contents C11 wrote, entry by entry (newest first), as code points -/
def projC (cs : Cells) : List ((Int × Int) × List Nat) := cs.map fun pc => (pc.1, enc pc.2)

/-- the two screens hold the same cell texts, and every C10 cell has the width of its text -/
structure BufRel (wc : Nat → Int) (b : C10.Buf) (cs : Cells) : Prop where
  proj : projB b = projC cs
  wid : ∀ pc ∈ b, pc.2.width = C10.cwidth wc pc.2.char

structure EnvRel (cfg : C10.CopyCfg) (e : C11.Env) : Prop where
  w : WRel e.W cfg.m cfg.wc
  xpos : cfg.xpos = e.xpos
  ypos : cfg.ypos = e.ypos
  width : cfg.width = e.width
  height : cfg.height = e.height
  wrap : cfg.wrap = e.wrap
  align : cfg.align = 0
  dchar : cfg.dflt.char = [32]
  dwidth : cfg.dflt.width = C10.cwidth cfg.wc [32]
  keys : C10.keysSingle cfg.m = true

structure StRel (cfg : C10.CopyCfg) (a : C10.CopySt) (b : C11.CS) : Prop where
  x : a.x = b.x
  y : a.y = b.y
  buf : BufRel cfg.wc a.buf b.cells

theorem lookup_none_of_length (m : C10.Table) (hk : C10.keysSingle m = true) (s : List Nat)
    (hs : s.length ≠ 1) : C10.lookup m s = none := by
  induction m with
  | nil => rfl
  | cons kv rest ih =>
    obtain ⟨k, v⟩ := kv
    simp [C10.keysSingle] at hk ih
    simp only [C10.lookup]
    have : k ≠ s := by intro h; subst h; exact hs hk.1
    simp [this]
    exact ih hk.2

theorem BufRel.nil (wc) : BufRel wc [] [] := ⟨rfl, by simp⟩

theorem BufRel.cons {wc b cs} (h : BufRel wc b cs) (p : Int × Int) (cell : C10.Cell) (t : Text)
    (hc : cell.char = enc t) (hw : cell.width = C10.cwidth wc cell.char) :
    BufRel wc (C10.bufSet b p cell) ((p, t) :: cs) := by
  constructor
  · simp [projB, projC, C10.bufSet, hc]; exact h.proj
  · intro pc hpc
    simp [C10.bufSet] at hpc
    rcases hpc with rfl | hpc
    · exact hw
    · exact h.wid pc hpc

theorem bufGet_rel {wc b cs} (h : BufRel wc b cs) (d : C10.Cell) (hd : d.char = [32])
    (hdw : d.width = C10.cwidth wc [32]) (p : Int × Int) :
    (C10.bufGet b d p).char = enc (C11.cellAt cs p) ∧
    (C10.bufGet b d p).width = C10.cwidth wc (C10.bufGet b d p).char := by
  induction b generalizing cs with
  | nil =>
    have : cs = [] := by have := h.proj; simpa [projB, projC] using this.symm
    subst this
    simp [C10.bufGet, C10.bufFind?, C11.cellAt, hd, hdw]
  | cons qc rest ih =>
    obtain ⟨q, cl⟩ := qc
    cases cs with
    | nil => have := h.proj; simp [projB, projC] at this
    | cons qt cs' =>
      obtain ⟨q', t⟩ := qt
      have hp := h.proj
      simp [projB, projC] at hp
      obtain ⟨⟨rfl, hct⟩, hrest⟩ := hp
      have hrel : BufRel wc rest cs' := ⟨hrest, fun pc hpc => h.wid pc (by simp [hpc])⟩
      have := ih hrel
      by_cases hq : q = p
      · subst hq
        have hw := h.wid (q, cl) (by simp)
        simp [C10.bufGet, C10.bufFind?, C11.cellAt, hct] at hw ⊢
        exact hw
      · simp [C10.bufGet, C10.bufFind?, C11.cellAt, hq] at this ⊢
        exact this


theorem emptyCell_char {cfg : C10.CopyCfg} (hk : C10.keysSingle cfg.m = true) :
    (C10.emptyCell cfg).char = [] := by
  simp [C10.emptyCell, C10.mkCell, lookup_none_of_length cfg.m hk [] (by simp)]

theorem eraseRight_snoc (cs : Cells) (y x : Int) (n i : Nat) :
    C11.eraseRight cs y x (n + 1) i
      = ((y, x + ((i + n : Nat) : Int)), []) :: C11.eraseRight cs y x n i := by
  induction n generalizing cs i with
  | zero => simp [C11.eraseRight]
  | succ n ih =>
    rw [C11.eraseRight, ih, C11.eraseRight]
    have : i + 1 + n = i + (n + 1) := by omega
    rw [this]

/-- `for i in range(1, char_width): new_buffer_row[x + xpos + i] = empty_char` -/
theorem erase_rel {cfg : C10.CopyCfg} (hk : C10.keysSingle cfg.m = true) {b cs}
    (h : BufRel cfg.wc b cs) (y x : Int) (k : Nat) :
    BufRel cfg.wc (C10.eraseNeighbours cfg b y x (k + 1)) (C11.eraseRight cs y x k 1) := by
  induction k with
  | zero => simpa [C10.eraseNeighbours, C11.eraseRight] using h
  | succ k ih =>
    rw [C10.eraseNeighbours, eraseRight_snoc]
    simp only [Nat.add_eq_zero_iff, Nat.succ_ne_self, and_false, ↓reduceIte]
    have : ((1 + k : Nat) : Int) = ((k + 1 : Nat) : Int) := by omega
    rw [this]
    exact ih.cons _ _ [] (by simp [emptyCell_char hk]) (C10.emptyCell cfg |> fun _ => mkCell_width_char _ _ _ _)


theorem cwidth_nil (wc : Nat → Int) : C10.cwidth wc [] = 0 := rfl

/-- one round of `for pw in [2, 1]` (zero width character merged into the previous cell) -/
theorem merge_rel {cfg : C10.CopyCfg} {e : C11.Env} (he : EnvRel cfg e) {b cs}
    (h : BufRel cfg.wc b cs) (x y : Int) (c : Char) (pw : Nat) (hpw : 1 ≤ pw) :
    BufRel cfg.wc (C10.mergeInto cfg b x y c.toNat pw)
      (C11.mergeZero e.W cs (y + e.ypos) (x + e.xpos) x c (pw : Int)) := by
  obtain ⟨hch, hwd⟩ := bufGet_rel h cfg.dflt he.dchar he.dwidth (y + e.ypos, x + e.xpos - (pw : Int))
  have htw : C11.textWidth e.W (C11.cellAt cs (y + e.ypos, x + e.xpos - (pw : Int)))
      = (C10.bufGet b cfg.dflt (y + e.ypos, x + e.xpos - (pw : Int))).width := by
    rw [textWidth_eq he.w, ← hch, hwd]
  unfold C10.mergeInto C11.mergeZero
  simp only [he.xpos, he.ypos, htw]
  generalize hprev : C10.bufGet b cfg.dflt (y + e.ypos, x + e.xpos - (pw : Int)) = prev at *
  by_cases hc : x - (pw : Int) ≥ 0 ∧ prev.width = pw
  · have hc' : x - (pw : Int) ≥ 0 ∧ ((prev.width : Nat) : Int) = (pw : Int) := ⟨hc.1, by omega⟩
    rw [if_pos hc']
    simp only [hc.1, hc.2, decide_true, beq_self_eq_true, Bool.and_self, ↓reduceIte]
    have hne : prev.char ≠ [] := by
      intro h0; rw [h0, cwidth_nil] at hwd; omega
    have hl : C10.lookup cfg.m (prev.char ++ [c.toNat]) = none :=
      lookup_none_of_length cfg.m he.keys _ (by
        cases hpc : prev.char with
        | nil => exact absurd hpc hne
        | cons a as => simp)
    apply h.cons
    · unfold C10.mkCell; rw [hl]; simp [hch]
    · exact mkCell_width_char _ _ _ _
  · have hc' : ¬ (x - (pw : Int) ≥ 0 ∧ ((prev.width : Nat) : Int) = (pw : Int)) := by
      intro hh; exact hc ⟨hh.1, by omega⟩
    rw [if_neg hc']
    have : (decide (x - (pw : Int) ≥ 0) && prev.width == pw) = false := by
      by_cases h1 : x - (pw : Int) ≥ 0
      · have : prev.width ≠ pw := fun h2 => hc ⟨h1, h2⟩
        simp [this]
      · simp only [h1, decide_false, Bool.false_and]
    simp only [this, Bool.false_eq_true, ↓reduceIte]
    exact h


theorem putChar_ret (e : C11.Env) (i : Bool) (l k : Nat) (b : C11.CS) (c : Char) :
    (C11.putChar e i l k b c).ret = b.ret ∧ (C11.putChar e i l k b c).wc = b.wc := by
  unfold C11.putChar
  by_cases hc : 0 ≤ b.x ∧ 0 ≤ b.y ∧ b.x < e.width <;> simp [hc]

/-- "Set character in screen and shift x": `C10.storeChar` + `x += w` vs `C11.putChar` -/
theorem put_rel {cfg : C10.CopyCfg} {e : C11.Env} (he : EnvRel cfg e) {a : C10.CopySt} {b : C11.CS}
    (h : StRel cfg a b) (style : Text) (c : Char) (i : Bool) (l k : Nat) :
    let cell := C10.mkCell cfg.m cfg.wc [c.toNat] style
    let a2 := C10.storeChar cfg a cell c.toNat
    StRel cfg { a2 with x := a2.x + (cell.width : Int) } (C11.putChar e i l k b c) := by
  intro cell a2
  have hw : cell.width = C11.cellW e.W c := mkCell_width he.w c style
  have hch : cell.char = enc (e.W.disp c) := mkCell_char he.w c style
  have hwc : cell.width = C10.cwidth cfg.wc cell.char := mkCell_width_char _ _ _ _
  obtain ⟨hx, hy, hb⟩ := h
  by_cases hc : 0 ≤ b.x ∧ 0 ≤ b.y ∧ b.x < e.width
  · have hc10 : (decide (a.x ≥ 0) && decide (a.y ≥ 0) && decide (a.x < cfg.width)) = true := by
      simp [hx, hy, he.width, hc]
    have hb1 := hb.cons (a.y + cfg.ypos, a.x + cfg.xpos) cell (e.W.disp c) hch hwc
    have ha2 : a2 = C10.storeChar cfg a cell c.toNat := rfl
    unfold C10.storeChar at ha2
    rw [if_pos hc10] at ha2
    unfold C11.putChar
    simp only [hc, and_self, ↓reduceIte]
    by_cases h1 : C11.cellW e.W c > 1
    · have h1' : cell.width > 1 := by omega
      simp only [h1, h1', ↓reduceIte] at ha2 ⊢
      have hk : cell.width = (C11.cellW e.W c - 1) + 1 := by omega
      have := erase_rel he.keys hb1 (a.y + cfg.ypos) (a.x + cfg.xpos) (C11.cellW e.W c - 1)
      rw [← hk] at this
      rw [ha2]
      refine ⟨by simp [hx, hw], by simp [hy], ?_⟩
      simpa [hx, hy, he.xpos, he.ypos] using this
    · have h1' : ¬ cell.width > 1 := by omega
      by_cases h0 : C11.cellW e.W c = 0
      · have h0' : cell.width = 0 := by omega
        simp only [h0, h0', ↓reduceIte] at ha2 ⊢
        have m2 := merge_rel he hb1 a.x a.y c 2 (by omega)
        have m1 := merge_rel he m2 a.x a.y c 1 (by omega)
        rw [ha2]
        refine ⟨by simp [hx], by simp [hy], ?_⟩
        simpa [hx, hy, he.xpos, he.ypos] using m1
      · have h0' : ¬ cell.width = 0 := by omega
        simp only [h1, h1', h0, h0', ↓reduceIte] at ha2 ⊢
        rw [ha2]
        refine ⟨by simp [hx, hw], by simp [hy], ?_⟩
        simpa [hx, hy, he.xpos, he.ypos] using hb1
  · have hc10 : ¬ (decide (a.x ≥ 0) && decide (a.y ≥ 0) && decide (a.x < cfg.width)) = true := by
      simp only [hx, hy, he.width, Bool.and_eq_true, decide_eq_true_eq]
      intro hh; exact hc ⟨hh.1.1, hh.1.2, hh.2⟩
    have ha2 : a2 = C10.storeChar cfg a cell c.toNat := rfl
    unfold C10.storeChar at ha2
    rw [if_neg hc10] at ha2
    rw [ha2]
    unfold C11.putChar
    simp only [hc, ↓reduceIte]
    exact ⟨by simp [hx, hw], by simp [hy], hb⟩


/-- corresponding continuation-prefix hooks (`onWrap`): they preserve the state relation and leave
    C11's `ret` flag clear and its wrap counter `k` unchanged -/
def OWRel (cfg : C10.CopyCfg) (ow10 : C10.CopySt → C10.CopySt) (ow11 : C11.CS → C11.CS) (k : Nat) : Prop :=
  ∀ a b, StRel cfg a b → b.wc = k → b.ret = false →
    StRel cfg (ow10 a) (ow11 b) ∧ (ow11 b).ret = false ∧ (ow11 b).wc = k

theorem OWRel_id (cfg : C10.CopyCfg) (k : Nat) : OWRel cfg id id k :=
  fun _ _ h hk hr => ⟨h, hr, hk⟩

/-- body of `for c in text:` — `C10.putChar` (result record) vs `C11.step` (`ret` flag) -/
theorem step_rel {cfg : C10.CopyCfg} {e : C11.Env} (he : EnvRel cfg e) {a : C10.CopySt} {b : C11.CS}
    (h : StRel cfg a b) (hr : b.ret = false) {ow10 ow11} (how : OWRel cfg ow10 ow11 (b.wc + 1))
    (style : Text) (c : Char) (i : Bool) (l k : Nat) :
    StRel cfg (C10.putChar cfg ow10 a style c.toNat).st (C11.step e i l k ow11 b c) ∧
    (C11.step e i l k ow11 b c).ret = (C10.putChar cfg ow10 a style c.toNat).stop ∧
    (C11.step e i l k ow11 b c).wc
      = (if (C10.putChar cfg ow10 a style c.toNat).wrapped then b.wc + 1 else b.wc) := by
  have hw : (C10.mkCell cfg.m cfg.wc [c.toNat] style).width = C11.cellW e.W c := mkCell_width he.w c style
  unfold C10.putChar C11.step
  simp only [hr, Bool.false_eq_true, ↓reduceIte, hw]
  by_cases hc : e.wrap = true ∧ b.x + (C11.cellW e.W c : Int) > e.width
  · have hc10 : (cfg.wrap && decide (a.x + (C11.cellW e.W c : Int) > cfg.width)) = true := by
      simp [he.wrap, he.width, h.x, hc.1, hc.2]
    rw [if_pos hc10, if_pos hc]
    have hwr : StRel cfg { a with y := a.y + 1, x := 0 } (C11.wrapSt l b) :=
      ⟨rfl, by simp [C11.wrapSt, h.y], h.buf⟩
    obtain ⟨h1, h2, h3⟩ := how _ _ hwr (by simp [C11.wrapSt]) (by simp [C11.wrapSt, hr])
    by_cases hh : (ow11 (C11.wrapSt l b)).y ≥ e.height
    · have hh10 : (ow10 { a with y := a.y + 1, x := 0 }).y ≥ cfg.height := by rw [h1.y, he.height]; exact hh
      simp only [hh, hh10, ↓reduceIte]
      exact ⟨⟨h1.x, h1.y, h1.buf⟩, trivial, h3⟩
    · have hh10 : ¬ (ow10 { a with y := a.y + 1, x := 0 }).y ≥ cfg.height := by rw [h1.y, he.height]; exact hh
      simp only [hh, hh10, ↓reduceIte]
      have hp := put_rel he h1 style c i l k
      have hq := putChar_ret e i l k (ow11 (C11.wrapSt l b)) c
      simp only [hw] at hp
      exact ⟨hp, by rw [hq.1, h2], by rw [hq.2, h3]⟩
  · have hc10 : ¬ (cfg.wrap && decide (a.x + (C11.cellW e.W c : Int) > cfg.width)) = true := by
      simp only [he.wrap, he.width, h.x, Bool.and_eq_true, decide_eq_true_eq]; exact hc
    rw [if_neg hc10, if_neg hc]
    have hp := put_rel he h style c i l k
    have hq := putChar_ret e i l k b c
    simp only [hw] at hp
    exact ⟨hp, by rw [hq.1, hr], by simp [hq.2]⟩


/-- once `return x, y` happened, the rest of C11's fold is the identity -/
theorem foldl_step_ret (e : C11.Env) (i : Bool) (l k : Nat) (ow : C11.CS → C11.CS) (t : Text)
    (b : C11.CS) (hr : b.ret = true) : t.foldl (C11.step e i l k ow) b = b := by
  induction t with
  | nil => rfl
  | cons c cs ih => simp only [List.foldl_cons]; rw [show C11.step e i l k ow b c = b by simp [C11.step, hr]]; exact ih

/-- a line / prefix as both models see it: C10 gets the fragments, C11 the concatenated text -/
def encFrags (ts : List (Text × Text)) : List C10.Frag := ts.map fun st => (st.1, enc st.2)
def flat (ts : List (Text × Text)) : Text := (ts.map (·.2)).flatten
/-- no `[ZeroWidthEscape]` fragment -/
def NoZwe (ts : List (Text × Text)) : Prop := ∀ f ∈ ts, C10.isZwe f.1 = false

/-- `for c in text` of `copy_line(..., is_input=False)` -/
theorem plainText_rel {cfg : C10.CopyCfg} {e : C11.Env} (he : EnvRel cfg e) (style : Text) (i : Bool)
    (l k : Nat) (t : Text) : ∀ (a : C10.CopySt) (b : C11.CS), StRel cfg a b → b.ret = false →
    StRel cfg (C10.plainText cfg style a (enc t)).1 (t.foldl (C11.step e i l k id) b) ∧
    (t.foldl (C11.step e i l k id) b).ret = (C10.plainText cfg style a (enc t)).2 := by
  induction t with
  | nil => intro a b h hr; exact ⟨h, hr⟩
  | cons c cs ih =>
    intro a b h hr
    obtain ⟨h1, h2, _⟩ := step_rel he h hr (OWRel_id cfg (b.wc + 1)) style c i l k
    simp only [enc_cons, C10.plainText, List.foldl_cons]
    by_cases hs : (C10.putChar cfg id a style c.toNat).stop = true
    · rw [if_pos hs, foldl_step_ret _ _ _ _ _ _ _ (by rw [h2, hs])]
      exact ⟨h1, by rw [h2, hs]⟩
    · rw [if_neg hs]
      exact ih _ _ h1 (by rw [h2]; simpa using hs)

/-- the fragments loop of `copy_line(..., is_input=False)` without `[ZeroWidthEscape]` fragments -/
theorem plainFrags_rel {cfg : C10.CopyCfg} {e : C11.Env} (he : EnvRel cfg e) (i : Bool)
    (l k : Nat) (ts : List (Text × Text)) : ∀ (a : C10.CopySt) (b : C11.CS), NoZwe ts → StRel cfg a b →
    b.ret = false →
    StRel cfg (C10.plainFrags cfg a (encFrags ts)).1 ((flat ts).foldl (C11.step e i l k id) b) ∧
    ((flat ts).foldl (C11.step e i l k id) b).ret = (C10.plainFrags cfg a (encFrags ts)).2 := by
  induction ts with
  | nil => intro a b _ h hr; exact ⟨h, hr⟩
  | cons f rest ih =>
    intro a b hz h hr
    obtain ⟨sty, t⟩ := f
    have hz1 : C10.isZwe sty = false := hz (sty, t) (by simp)
    have hz2 : NoZwe rest := fun g hg => hz g (by simp [hg])
    obtain ⟨h1, h2⟩ := plainText_rel he sty i l k t a b h hr
    simp only [encFrags, List.map_cons, C10.plainFrags, hz1, Bool.false_eq_true, ↓reduceIte, flat,
      List.flatten_cons, List.foldl_append]
    by_cases hs : (C10.plainText cfg sty a (enc t)).2 = true
    · rw [if_pos hs, foldl_step_ret _ _ _ _ _ _ _ (by rw [h2, hs])]
      exact ⟨h1, by rw [h2, hs]⟩
    · rw [if_neg hs]
      exact ih _ _ hz2 h1 (by rw [h2]; simpa using hs)

/-- `get_line_prefix` in both models: absent in both, or the same fragments (C10) / text (C11) -/
inductive PreRel (cfg : C10.CopyCfg) (e : C11.Env) : Prop
  | none : cfg.pre = none → e.pfx = none → PreRel cfg e
  | some (pf : Nat → Nat → List (Text × Text)) : (∀ l k, NoZwe (pf l k)) →
      cfg.pre = some (fun l k => encFrags (pf l k)) → e.pfx = some (fun l k => flat (pf l k)) →
      PreRel cfg e

/-- drawing a (continuation) prefix: `C10.drawPrefix` vs `C11.prefixHook` -/
theorem prefix_rel {cfg : C10.CopyCfg} {e : C11.Env} (he : EnvRel cfg e) (hp : PreRel cfg e)
    (l k : Nat) : OWRel cfg (C10.drawPrefix cfg l k) (C11.prefixHook e l) k := by
  intro a b h hk hr
  cases hp with
  | none h10 h11 => simp only [C10.drawPrefix, h10, C11.prefixHook, h11]; exact ⟨h, hr, hk⟩
  | some pf hz h10 h11 =>
    simp only [C10.drawPrefix, h10, C11.prefixHook, h11, C11.copyPlain, hk]
    have hal : C10.alignShift cfg a.x (encFrags (pf l k)) = a.x := by simp [C10.alignShift, he.align]
    rw [hal]
    have h0 : StRel cfg a { b with col := 0, wc := 0, ret := false } := ⟨h.x, h.y, h.buf⟩
    obtain ⟨h1, _⟩ := plainFrags_rel he false l 0 (pf l k) a _ (hz l k) h0 rfl
    exact ⟨⟨h1.x, h1.y, h1.buf⟩, trivial, trivial⟩


/-- `for c in text` of `copy_line(..., is_input=True)`: continuation prefixes, `wrap_count` -/
theorem inputText_rel {cfg : C10.CopyCfg} {e : C11.Env} (he : EnvRel cfg e) (hp : PreRel cfg e)
    (style : Text) (l k : Nat) (t : Text) : ∀ (s : C10.InSt) (b : C11.CS), StRel cfg s.st b →
    b.ret = false → b.wc = s.wrapCount →
    StRel cfg (C10.inputText cfg l style s (enc t)).1.st
      (t.foldl (C11.step e true l k (C11.prefixHook e l)) b) ∧
    (t.foldl (C11.step e true l k (C11.prefixHook e l)) b).ret = (C10.inputText cfg l style s (enc t)).2 ∧
    (t.foldl (C11.step e true l k (C11.prefixHook e l)) b).wc
      = (C10.inputText cfg l style s (enc t)).1.wrapCount := by
  induction t with
  | nil => intro s b h hr hw; exact ⟨h, hr, hw⟩
  | cons c cs ih =>
    intro s b h hr hw
    have how := prefix_rel he hp l (b.wc + 1)
    obtain ⟨h1, h2, h3⟩ := step_rel he h hr how style c true l k
    rw [hw] at h1 h2 h3
    simp only [enc_cons, C10.inputText, List.foldl_cons]
    by_cases hs : (C10.putChar cfg (C10.drawPrefix cfg l (s.wrapCount + 1)) s.st style c.toNat).stop = true
    · rw [if_pos hs, foldl_step_ret _ _ _ _ _ _ _ (by rw [h2, hs])]
      exact ⟨h1, by rw [h2, hs], h3⟩
    · rw [if_neg hs]
      exact ih _ _ h1 (by rw [h2]; simpa using hs) h3

/-- the fragments loop of `copy_line(..., is_input=True)` without `[ZeroWidthEscape]` fragments -/
theorem inputFrags_rel {cfg : C10.CopyCfg} {e : C11.Env} (he : EnvRel cfg e) (hp : PreRel cfg e)
    (l k : Nat) (ts : List (Text × Text)) : ∀ (s : C10.InSt) (b : C11.CS), NoZwe ts → StRel cfg s.st b →
    b.ret = false → b.wc = s.wrapCount →
    StRel cfg (C10.inputFrags cfg l s (encFrags ts)).1.st
      ((flat ts).foldl (C11.step e true l k (C11.prefixHook e l)) b) ∧
    ((flat ts).foldl (C11.step e true l k (C11.prefixHook e l)) b).ret
      = (C10.inputFrags cfg l s (encFrags ts)).2 := by
  induction ts with
  | nil => intro s b _ h hr _; exact ⟨h, hr⟩
  | cons f rest ih =>
    intro s b hz h hr hw
    obtain ⟨sty, t⟩ := f
    have hz1 : C10.isZwe sty = false := hz (sty, t) (by simp)
    have hz2 : NoZwe rest := fun g hg => hz g (by simp [hg])
    obtain ⟨h1, h2, h3⟩ := inputText_rel he hp sty l k t s b h hr hw
    simp only [encFrags, List.map_cons, C10.inputFrags, hz1, Bool.false_eq_true, ↓reduceIte, flat,
      List.flatten_cons, List.foldl_append]
    by_cases hs : (C10.inputText cfg l sty s (enc t)).2 = true
    · rw [if_pos hs, foldl_step_ret _ _ _ _ _ _ _ (by rw [h2, hs])]
      exact ⟨h1, by rw [h2, hs]⟩
    · rw [if_neg hs]
      exact ih _ _ hz2 h1 (by rw [h2]; simpa using hs) h3


/-! ### horizontal scroll -/

/-- `explode_text_fragments` on the shared representation -/
def explodeT : List (Text × Text) → List (Text × Text)
  | [] => []
  | (sty, t) :: rest => t.map (fun c => (sty, [c])) ++ explodeT rest

/-- every fragment is one character -/
def Single (us : List (Text × Text)) : Prop := ∀ f ∈ us, ∃ c, f.2 = [c]

theorem explode_enc (ts : List (Text × Text)) : C10.explode (encFrags ts) = encFrags (explodeT ts) := by
  induction ts with
  | nil => rfl
  | cons f rest ih =>
    obtain ⟨sty, t⟩ := f
    simp only [encFrags, List.map_cons, C10.explode, explodeT, List.map_append, List.map_map] at ih ⊢
    rw [ih]; congr 1
    simp [enc, Function.comp_def]

theorem flat_explodeT (ts : List (Text × Text)) : flat (explodeT ts) = flat ts := by
  induction ts with
  | nil => rfl
  | cons f rest ih =>
    obtain ⟨sty, t⟩ := f
    simp only [flat, explodeT, List.map_append, List.map_map, List.flatten_append, List.map_cons,
      List.flatten_cons] at ih ⊢
    rw [ih]; congr 1
    induction t with
    | nil => rfl
    | cons c cs ih2 => simpa [Function.comp_def] using ih2

theorem noZwe_explodeT (ts : List (Text × Text)) (hz : NoZwe ts) : NoZwe (explodeT ts) := by
  induction ts with
  | nil => exact hz
  | cons f rest ih =>
    obtain ⟨sty, t⟩ := f
    intro g hg
    simp only [explodeT, List.mem_append, List.mem_map] at hg
    rcases hg with ⟨c, _, rfl⟩ | hg
    · exact hz (sty, t) (by simp)
    · exact ih (fun g hg => hz g (by simp [hg])) g hg

theorem single_explodeT (ts : List (Text × Text)) : Single (explodeT ts) := by
  induction ts with
  | nil => intro f hf; simp [explodeT] at hf
  | cons f rest ih =>
    obtain ⟨sty, t⟩ := f
    intro g hg
    simp only [explodeT, List.mem_append, List.mem_map] at hg
    rcases hg with ⟨c, _, rfl⟩ | hg
    · exact ⟨c, rfl⟩
    · exact ih g hg

/-- the scroll loop on the shared representation -/
def dropT (W : C11.Widths) : Int → List (Text × Text) → Int × List (Text × Text)
  | h, [] => (h, [])
  | h, f :: rest => if h > 0 then dropT W (h - (C11.measWidth W f.2 : Int)) rest else (h, f :: rest)

theorem hscrollDrop_enc (W : C11.Widths) (dw : List Nat → Nat) (hdw : ∀ t, dw (enc t) = C11.measWidth W t)
    (us : List (Text × Text)) : ∀ h : Int,
    C10.hscrollDrop dw h (encFrags us) = ((dropT W h us).1, encFrags (dropT W h us).2) := by
  induction us with
  | nil => intro h; rfl
  | cons f rest ih =>
    intro h
    simp only [encFrags, List.map_cons, C10.hscrollDrop, dropT, hdw] at ih ⊢
    by_cases hh : h > 0
    · rw [if_pos hh, if_pos hh]; exact ih _
    · rw [if_neg hh, if_neg hh]; simp

theorem skipLoop_flat (W : C11.Widths) (us : List (Text × Text)) (hs : Single us) : ∀ (h : Int) (k : Nat),
    ∃ k', C11.skipLoop W h (flat us) k = ((dropT W h us).1, flat (dropT W h us).2, k') := by
  induction us with
  | nil => intro h k; exact ⟨k, rfl⟩
  | cons f rest ih =>
    intro h k
    obtain ⟨sty, t⟩ := f
    obtain ⟨c, hc⟩ := hs (sty, t) (by simp)
    simp only at hc; subst hc
    have hs2 : Single rest := fun g hg => hs g (by simp [hg])
    simp only [flat, List.map_cons, List.flatten_cons, List.singleton_append, C11.skipLoop, dropT,
      C11.measWidth, Nat.add_zero] at ih ⊢
    by_cases hh : h > 0
    · rw [if_pos hh, if_pos hh]; exact ih hs2 _ _
    · rw [if_neg hh, if_neg hh]; exact ⟨k, by simp⟩

theorem noZwe_dropT (W : C11.Widths) (us : List (Text × Text)) (hz : NoZwe us) : ∀ h : Int,
    NoZwe (dropT W h us).2 := by
  induction us with
  | nil => intro h; exact hz
  | cons f rest ih =>
    intro h
    simp only [dropT]
    by_cases hh : h > 0
    · rw [if_pos hh]; exact ih (fun g hg => hz g (by simp [hg])) _
    · rw [if_neg hh]; exact hz


/-- `horizontal_scroll` in both models; the measure-as-drawn side conditions are only needed when
    the window is scrolled -/
structure HsRel (cfg : C10.CopyCfg) (e : C11.Env) (hs : Int) : Prop where
  eq : hs = (cfg.hscroll : Int)
  dm : cfg.hscroll > 0 → e.W.dm = true
  pr : cfg.hscroll > 0 → PrintableUnmapped cfg.m cfg.printable

/-- containers.py `Window._copy_body.copy_line(line, lineno, 0, y, is_input=True)` :
    `C10.copyLineInput` vs `C11.copyLine` -/
theorem copyLine_rel {cfg : C10.CopyCfg} {e : C11.Env} (he : EnvRel cfg e) (hp : PreRel cfg e)
    {hs : Int} (hh : HsRel cfg e hs) (l : Nat) (ts : List (Text × Text)) (hz : NoZwe ts)
    {a : C10.CopySt} {b : C11.CS} (h : StRel cfg a b) :
    StRel cfg (C10.copyLineInput cfg l a (encFrags ts)) (C11.copyLine e hs l (flat ts) b) := by
  have h0 : StRel cfg a (C11.lineInit b) := ⟨h.x, h.y, h.buf⟩
  obtain ⟨p1, p2, p3⟩ := prefix_rel he hp l 0 a (C11.lineInit b) h0 rfl rfl
  have hal : ∀ x fr, C10.alignShift cfg x fr = x := by intro x fr; simp [C10.alignShift, he.align]
  unfold C10.copyLineInput C11.copyLine
  by_cases h0s : cfg.hscroll > 0
  · have hne : hs ≠ 0 := by rw [hh.eq]; omega
    have hdw : ∀ t, C10.displayWidth cfg.m cfg.wc cfg.printable (enc t) = C11.measWidth e.W t :=
      fun t => (measWidth_display he.w (hh.dm h0s) cfg.printable (hh.pr h0s) t).symm
    obtain ⟨k', hk'⟩ := skipLoop_flat e.W (explodeT ts) (single_explodeT ts) hs 0
    simp only [h0s, ↓reduceIte, explode_enc, hscrollDrop_enc e.W _ hdw, ← hh.eq, hal,
      C11.hskip, hne, ne_eq, not_false_eq_true, ← flat_explodeT ts, hk']
    have hsh : StRel cfg
        { C10.drawPrefix cfg l 0 a with x := (C10.drawPrefix cfg l 0 a).x - (dropT e.W hs (explodeT ts)).1 }
        (C11.shiftX (C11.prefixHook e l (C11.lineInit b)) (dropT e.W hs (explodeT ts)).1) :=
      ⟨by simp [C11.shiftX, p1.x], p1.y, p1.buf⟩
    exact (inputFrags_rel he hp l k' _ ⟨_, 0⟩ _ (noZwe_dropT e.W _ (noZwe_explodeT ts hz) hs) hsh p2 p3).1
  · have hz0 : hs = 0 := by rw [hh.eq]; omega
    simp only [h0s, ↓reduceIte, hal, C11.hskip, hz0, ne_eq, not_true_eq_false]
    have hsh : StRel cfg (C10.drawPrefix cfg l 0 a) (C11.shiftX (C11.prefixHook e l (C11.lineInit b)) 0) :=
      ⟨by simp [C11.shiftX, p1.x], p1.y, p1.buf⟩
    exact (inputFrags_rel he hp l 0 ts ⟨_, 0⟩ _ hz hsh p2 p3).1

/-- containers.py `Window._copy_body.copy` : `C10.copyLines` vs `C11.copyLines` -/
theorem copyLines_rel {cfg : C10.CopyCfg} {e : C11.Env} (he : EnvRel cfg e) (hp : PreRel cfg e)
    {hs : Int} (hh : HsRel cfg e hs) (tss : List (List (Text × Text))) (hz : ∀ ts ∈ tss, NoZwe ts) :
    ∀ (l : Nat) (a : C10.CopySt) (b : C11.CS), StRel cfg a b →
    StRel cfg (C10.copyLines cfg l a (tss.map encFrags)) (C11.copyLines e hs (tss.map flat) l b) := by
  induction tss with
  | nil => intro l a b h; exact h
  | cons ts rest ih =>
    intro l a b h
    simp only [List.map_cons, C10.copyLines, C11.copyLines]
    have hcond : (a.y < cfg.height) ↔ (b.y < e.height) := by rw [h.y, he.height]
    by_cases hy : b.y < e.height
    · rw [if_pos (hcond.mpr hy), if_pos hy]
      have h1 : StRel cfg { a with x := 0 } (C11.lineStart hs l b) := ⟨rfl, h.y, h.buf⟩
      have h2 := copyLine_rel he hp hh l ts (hz ts (by simp)) h1
      apply ih (fun ts' h' => hz ts' (by simp [h']))
      exact ⟨h2.x, by simp [C11.lineEnd, h2.y], h2.buf⟩
    · rw [if_neg (fun h' => hy (hcond.mp h')), if_neg hy]; exact h


/-- containers.py `Window._copy_body` : `C10.copyBody` vs `C11.copyBody`, as a state relation -/
theorem copyBody_rel {cfg : C10.CopyCfg} {e : C11.Env} (he : EnvRel cfg e) (hp : PreRel cfg e)
    (tss : List (List (Text × Text))) (hz : ∀ ts ∈ tss, NoZwe ts)
    (s : C11.Scroll) (hv2 : 0 ≤ s.vs2) (hh : HsRel cfg e s.hs) (zwe : C10.Zwe) :
    StRel cfg (C10.copyBody cfg [] zwe (tss.map encFrags) s.vs.toNat s.vs2.toNat)
      (C11.copyBody e (tss.map flat) s) := by
  unfold C10.copyBody C11.copyBody
  rw [← List.map_drop, ← List.map_drop]
  apply copyLines_rel he hp hh _ (fun ts h' => hz ts (List.mem_of_mem_drop h'))
  exact ⟨rfl, by simp [C11.initCS, Int.toNat_of_nonneg hv2], BufRel.nil _⟩

/-- containers.py `Window._copy_body` : the sequence of cell contents written (newest first), entry
    by entry, and the final `(x, y)` are the same in `C10.copyBody` and `C11.copyBody`.
    Shared domain: lines and prefixes without `[ZeroWidthEscape]` fragments (C10 sees the fragments
    `encFrags ts`, C11 the concatenated text `flat ts`), `align = LEFT`, non-negative scroll offsets. -/
theorem copyBody_agree {cfg : C10.CopyCfg} {e : C11.Env} (he : EnvRel cfg e) (hp : PreRel cfg e)
    (tss : List (List (Text × Text))) (hz : ∀ ts ∈ tss, NoZwe ts)
    (s : C11.Scroll) (hv2 : 0 ≤ s.vs2) (hh : HsRel cfg e s.hs) (zwe : C10.Zwe) :
    (C10.copyBody cfg [] zwe (tss.map encFrags) s.vs.toNat s.vs2.toNat).buf.map
        (fun pc => (pc.1, pc.2.char))
      = (C11.copyBody e (tss.map flat) s).cells.map (fun pc => (pc.1, pc.2.map Char.toNat)) ∧
    (C10.copyBody cfg [] zwe (tss.map encFrags) s.vs.toNat s.vs2.toNat).x
      = (C11.copyBody e (tss.map flat) s).x ∧
    (C10.copyBody cfg [] zwe (tss.map encFrags) s.vs.toNat s.vs2.toNat).y
      = (C11.copyBody e (tss.map flat) s).y :=
  let h := copyBody_rel he hp tss hz s hv2 hh zwe
  ⟨h.buf.proj, h.x, h.y⟩

/-- … and therefore every screen cell reads the same: `data_buffer[y][x].char` -/
theorem copyBody_cellAt {cfg : C10.CopyCfg} {e : C11.Env} (he : EnvRel cfg e) (hp : PreRel cfg e)
    (tss : List (List (Text × Text))) (hz : ∀ ts ∈ tss, NoZwe ts)
    (s : C11.Scroll) (hv2 : 0 ≤ s.vs2) (hh : HsRel cfg e s.hs) (zwe : C10.Zwe) (p : Int × Int) :
    (C10.bufGet (C10.copyBody cfg [] zwe (tss.map encFrags) s.vs.toNat s.vs2.toNat).buf cfg.dflt p).char
      = (C11.cellAt (C11.copyBody e (tss.map flat) s).cells p).map Char.toNat :=
  (bufGet_rel (copyBody_rel he hp tss hz s hv2 hh zwe).buf cfg.dflt he.dchar he.dwidth p).1

/-- the special case "one fragment per line, one style": C10 line `[(sty, enc l)]` for C11 line `l`,
    `Nat` scroll offsets -/
theorem copyBody_agree_single {cfg : C10.CopyCfg} {e : C11.Env} (he : EnvRel cfg e) (hp : PreRel cfg e)
    (sty : Text) (hsty : C10.isZwe sty = false) (lines : List Text) (vs hs vs2 : Nat)
    (hh : HsRel cfg e hs) (zwe : C10.Zwe) :
    (C10.copyBody cfg [] zwe (lines.map fun l => [(sty, l.map Char.toNat)]) vs vs2).buf.map
        (fun pc => (pc.1, pc.2.char))
      = (C11.copyBody e lines ⟨vs, hs, vs2⟩).cells.map (fun pc => (pc.1, pc.2.map Char.toNat)) ∧
    (C10.copyBody cfg [] zwe (lines.map fun l => [(sty, l.map Char.toNat)]) vs vs2).x
      = (C11.copyBody e lines ⟨vs, hs, vs2⟩).x ∧
    (C10.copyBody cfg [] zwe (lines.map fun l => [(sty, l.map Char.toNat)]) vs vs2).y
      = (C11.copyBody e lines ⟨vs, hs, vs2⟩).y := by
  have h := copyBody_agree he hp (lines.map fun l => [(sty, l)])
    (by intro ts hts; simp only [List.mem_map] at hts; obtain ⟨l, _, rfl⟩ := hts
        intro f hf; simp only [List.mem_singleton] at hf; subst hf; exact hsty)
    ⟨vs, hs, vs2⟩ (by simp) hh zwe
  simpa [List.map_map, Function.comp_def, encFrags, flat, enc] using h


/-! ### the hypotheses are satisfiable on a non-trivial concrete instance -/

def exM : C10.Table := [([1], [94, 65])]
def exWc : Nat → Int := fun n => if n = 768 then 0 else if n = 19968 then 2 else if n = 1 then -1 else 1
/-- prompt `>` on the first row of a line, `.` on continuation rows -/
def exPf (_ k : Nat) : List (Text × Text) := [(['p'], if k = 0 then ['>'] else ['.'])]
def exCfg (hscroll : Nat) : C10.CopyCfg :=
  { m := exM, wc := exWc, printable := fun n => decide (32 ≤ n), dflt := C10.mkCell exM exWc [32] [],
    xpos := 2, ypos := 1, width := 4, height := 3, wrap := true, hscroll := hscroll, align := 0,
    pre := some (fun l k => encFrags (exPf l k)) }
def exEnv : C11.Env :=
  { W := ofTable exM exWc true, width := 4, height := 3, wrap := true, xpos := 2, ypos := 1,
    pfx := some (fun l k => flat (exPf l k)) }
/-- "a" + combining grave, a wide CJK character, Ctrl-A, "bc" in two fragments -/
def exLine : List (Text × Text) := [(['s'], ['a', Char.ofNat 768, Char.ofNat 19968]), ([], [Char.ofNat 1, 'b', 'c'])]

example (h : Nat) : EnvRel (exCfg h) exEnv :=
  ⟨WRel_ofTable _ _ _ (by decide), rfl, rfl, rfl, rfl, rfl, rfl, rfl, rfl, rfl⟩
example (h : Nat) : PreRel (exCfg h) exEnv :=
  .some exPf (by intro l k f hf; simp only [exPf, List.mem_singleton] at hf; subst hf; show C10.isZwe ['p'] = false; decide) rfl rfl
example : HsRel (exCfg 1) exEnv 1 :=
  ⟨rfl, fun _ => rfl, fun _ c hc => by
    have : ¬ 1 = c := by intro h; subst h; simp [exCfg] at hc
    simp [exCfg, exM, C10.lookup, this]⟩
/-- the run is not trivial: prompt, merged combining character, wide character with erased neighbour,
    wrap with continuation prompt, "^A" for Ctrl-A, early return at the bottom of the window -/
example : (C11.copyBody exEnv [flat exLine] ⟨0, 0, 0⟩).cells.map (fun pc => (pc.1, pc.2.map Char.toNat))
    = [((3, 3), [99]), ((3, 2), [46]), ((2, 5), [98]), ((2, 4), []), ((2, 3), [94, 65]), ((2, 2), [46]),
       ((1, 5), []), ((1, 4), [19968]), ((1, 3), [97, 768]), ((1, 4), [768]), ((1, 3), [97]), ((1, 2), [62])] := by
  decide

end Ptk.AgreeOut.Copy
