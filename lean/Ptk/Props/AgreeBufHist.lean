/-
  Cross-model agreement, cluster "Buffer edit and state API" (src/prompt_toolkit/buffer.py):
  the working lines, pairwise — `working_index` setter, `go_to_history`, `history_backward`,
  `history_forward`, `_set_history_search`, `_history_matches`, `auto_up` / `auto_down`,
  `append_to_history`, `load_history_if_not_yet_loaded`.

  Canonical model `C01.HBuf` (no history search); C05 and C14 additionally carry
  `history_search_text` / `enable_history_search` (compared with each other in full through the common
  projection `HQ`, and with C01 in the special case `enable_history_search = False`); C16 keeps the
  search field's working lines as a zipper `fbefore ++ [field] ++ fafter` without a cursor
  (`zip16`), and only calls `history_backward(1)` / `history_forward(1)`.
-/
import Ptk.Props.AgreeBufHistSpec
namespace Ptk.AgreeBuf
open Ptk.Py

/-! ### operations that ignore the search state depend on the (lines, index, cursor) triple only -/

theorem setIdx_w (q q' : HQ) (h : q.w = q'.w) (i : Nat) : (q.setIdx i).w = (q'.setIdx i).w := by
  cases q; cases q'
  simp only [HQ.w, C01.WBuf.mk.injEq] at h
  obtain ⟨rfl, rfl, rfl⟩ := h
  simp only [HQ.setIdx]
  split <;> rfl
theorem setCur_w (q q' : HQ) (h : q.w = q'.w) (v : Int) : (q.setCur v).w = (q'.setCur v).w := by
  cases q; cases q'
  simp only [HQ.w, C01.WBuf.mk.injEq] at h
  obtain ⟨rfl, rfl, rfl⟩ := h
  rfl
theorem text_w (q q' : HQ) (h : q.w = q'.w) : q.text = q'.text := by
  cases q; cases q'
  simp only [HQ.w, C01.WBuf.mk.injEq] at h
  obtain ⟨rfl, rfl, rfl⟩ := h
  rfl
theorem goTo_w (q q' : HQ) (h : q.w = q'.w) (i : Nat) : (q.goTo i).w = (q'.goTo i).w := by
  have hl : q.work.length = q'.work.length := by
    have := congrArg C01.WBuf.work h; simp only [HQ.w] at this; rw [this]
  simp only [HQ.goTo, hl]
  split
  · rw [text_w _ _ (setIdx_w q q' h i)]
    exact setCur_w _ _ (setIdx_w q q' h i) _
  · exact h
theorem setSearch_eq_of_w (q q' : HQ) (h : q.w = q'.w) (e : q.ehs = false) (e' : q'.ehs = false) :
    q.setSearch = q'.setSearch := by
  cases q; cases q'
  simp only [HQ.w, C01.WBuf.mk.injEq] at h
  obtain ⟨rfl, rfl, rfl⟩ := h
  simp only at e e'
  subst e; subst e'
  simp [HQ.setSearch]
theorem back_eq_of_w (q q' : HQ) (h : q.w = q'.w) (e : q.ehs = false) (e' : q'.ehs = false) (n : Int) :
    q.back n = q'.back n := by
  simp only [HQ.back, setSearch_eq_of_w q q' h e e']
theorem forward_eq_of_w (q q' : HQ) (h : q.w = q'.w) (e : q.ehs = false) (e' : q'.ehs = false) (n : Int) :
    q.forward n = q'.forward n := by
  simp only [HQ.forward, setSearch_eq_of_w q q' h e e']

/-! ### `Buffer.working_index = value` -/

/-- buffer.py::Buffer.working_index (setter) — `C01.HBuf.setIndex` vs `C05.setWorkingIndex` (a valid
    index; C05 reports IndexError otherwise, which C01 does not model) -/
theorem workingIndex_05 (h : C01.HBuf) (b : C05.Buf) (i : Nat) (hw : w05 b = w01 h) (hi : i < b.lines.length) :
    w05 (C05.setWorkingIndex b i).1 = w01 (h.setIndex i) ∧ (C05.setWorkingIndex b i).2 = .ok := by
  obtain ⟨e1, e2⟩ := q05_setIdx b i hi
  refine ⟨?_, e2⟩
  rw [← q05_w, e1, ← q01_w, q01_setIdx]
  exact setIdx_w _ _ (by rw [q05_w, q01_w, hw]) i
/-- buffer.py::Buffer.working_index (setter) — `C01.HBuf.setIndex` vs `C14.setWorkingIndex`, all inputs -/
theorem workingIndex_14 (h : C01.HBuf) (s : C14.St) (i : Nat) (hw : w14 s = w01 h) :
    w14 (C14.setWorkingIndex s i) = w01 (h.setIndex i) := by
  rw [← q14_w, q14_setIdx, ← q01_w, q01_setIdx]
  exact setIdx_w _ _ (by rw [q14_w, q01_w, hw]) i
/-- buffer.py::Buffer.working_index (setter) — `C01.HBuf.setIndex` vs `C16.setWidx`, all inputs -/
theorem workingIndex_16 (h : C01.HBuf) (b : C16.Buf) (i : Nat) (hw : w16 b = w01 h) :
    w16 (C16.setWidx b i) = w01 (h.setIndex i) := by
  simp only [w16, w01, C01.WBuf.mk.injEq] at hw
  obtain ⟨h1, h2, h3⟩ := hw
  simp only [C16.setWidx, C01.HBuf.setIndex, h2]
  split <;> simp_all [w16, w01]

/-! ### `Buffer.go_to_history(index)` -/

/-- buffer.py::Buffer.go_to_history — `C01.HBuf.goToHistory` vs `C05.goToHistory`, all inputs -/
theorem goToHistory_05 (h : C01.HBuf) (b : C05.Buf) (i : Nat) (hw : w05 b = w01 h) :
    w05 (C05.goToHistory b i).1 = w01 (h.goToHistory i) ∧ (C05.goToHistory b i).2 = .ok := by
  obtain ⟨e1, e2⟩ := q05_goTo b i
  refine ⟨?_, e2⟩
  rw [← q05_w, e1, ← q01_w, q01_goTo]
  exact goTo_w _ _ (by rw [q05_w, q01_w, hw]) i
/-- buffer.py::Buffer.go_to_history — `C01.HBuf.goToHistory` vs `C14.goToHistory`, all inputs -/
theorem goToHistory_14 (h : C01.HBuf) (s : C14.St) (i : Nat) (hw : w14 s = w01 h) :
    w14 (C14.goToHistory s i) = w01 (h.goToHistory i) := by
  rw [← q14_w, q14_goTo, ← q01_w, q01_goTo]
  exact goTo_w _ _ (by rw [q14_w, q01_w, hw]) i
/-- buffer.py::Buffer.go_to_history — `C05.goToHistory` vs `C14.goToHistory`: also the search state
    is carried along identically (it is left untouched: the behaviour C14's finding is about) -/
theorem goToHistory_05_14 (b : C05.Buf) (s : C14.St) (i : Nat) (hq : q05 b = q14 s) :
    q05 (C05.goToHistory b i).1 = q14 (C14.goToHistory s i) := by
  rw [(q05_goTo b i).1, q14_goTo, hq]

/-! ### `_set_history_search`, `_history_matches` -/

/-- buffer.py::Buffer._set_history_search — `C05.setHistorySearch` vs `C14.setHistorySearch`, all inputs -/
theorem setHistorySearch_05_14 (b : C05.Buf) (s : C14.St) (hq : q05 b = q14 s) :
    q05 (C05.setHistorySearch b) = q14 (C14.setHistorySearch s) := by
  rw [q05_setSearch, q14_setSearch, hq]
/-- buffer.py::Buffer._history_matches — `C05.historyMatches` vs `C14.historyMatches`, all inputs
    (`Py.isPrefixOf'` is `List.isPrefixOf`: `isPrefixOfPy_eq`) -/
theorem historyMatches_05_14 (b : C05.Buf) (s : C14.St) (i : Nat) (hq : q05 b = q14 s) :
    C05.historyMatches b i = C14.historyMatches s i := by
  rw [q05_matches, q14_matches, hq]

/-! ### `Buffer.history_backward(count)` / `history_forward(count)` -/

/-- buffer.py::Buffer.history_backward — `C05.historyBackward` vs `C14.historyBackward`: any count,
    with and without history search (lines, index, cursor, `history_search_text`) -/
theorem historyBackward_05_14 (b : C05.Buf) (s : C14.St) (count : Int) (hq : q05 b = q14 s)
    (hi : b.idx < b.lines.length) :
    q05 (C05.historyBackward b count).1 = q14 (C14.historyBackward s count) ∧
    (C05.historyBackward b count).2 = .ok := by
  obtain ⟨e1, e2⟩ := q05_back b count hi
  exact ⟨by rw [e1, q14_back, hq], e2⟩
/-- buffer.py::Buffer.history_forward — `C05.historyForward` vs `C14.historyForward`, likewise -/
theorem historyForward_05_14 (b : C05.Buf) (s : C14.St) (count : Int) (hq : q05 b = q14 s)
    (hi : b.idx < b.lines.length) :
    q05 (C05.historyForward b count).1 = q14 (C14.historyForward s count) ∧
    (C05.historyForward b count).2 = .ok := by
  obtain ⟨e1, e2⟩ := q05_forward b count hi
  exact ⟨by rw [e1, q14_forward, hq], e2⟩

/-- buffer.py::Buffer.history_backward — `C01.HBuf.historyBackward` vs `C14.historyBackward`
    (`enable_history_search` off: C01 has no history search), any count -/
theorem historyBackward_14 (h : C01.HBuf) (s : C14.St) (count : Int) (hw : w14 s = w01 h) (he : s.ehs = false) :
    w14 (C14.historyBackward s count) = w01 (h.historyBackward count) := by
  rw [← q14_w, q14_back, ← q01_w, q01_back,
    back_eq_of_w (q14 s) (q01 h) (by rw [q14_w, q01_w, hw]) he rfl]
/-- buffer.py::Buffer.history_forward — `C01.HBuf.historyForward` vs `C14.historyForward`, likewise -/
theorem historyForward_14 (h : C01.HBuf) (s : C14.St) (count : Int) (hw : w14 s = w01 h) (he : s.ehs = false) :
    w14 (C14.historyForward s count) = w01 (h.historyForward count) := by
  rw [← q14_w, q14_forward, ← q01_w, q01_forward,
    forward_eq_of_w (q14 s) (q01 h) (by rw [q14_w, q01_w, hw]) he rfl]
/-- buffer.py::Buffer.history_backward — `C01.HBuf.historyBackward` vs `C05.historyBackward`
    (`enable_history_search` off), any count -/
theorem historyBackward_05 (h : C01.HBuf) (b : C05.Buf) (count : Int) (hw : w05 b = w01 h)
    (he : b.enableHS = false) (hi : b.idx < b.lines.length) :
    w05 (C05.historyBackward b count).1 = w01 (h.historyBackward count) ∧
    (C05.historyBackward b count).2 = .ok := by
  obtain ⟨e1, e2⟩ := q05_back b count hi
  refine ⟨?_, e2⟩
  rw [← q05_w, e1, ← q01_w, q01_back,
    back_eq_of_w (q05 b) (q01 h) (by rw [q05_w, q01_w, hw]) he rfl]
/-- buffer.py::Buffer.history_forward — `C01.HBuf.historyForward` vs `C05.historyForward`, likewise -/
theorem historyForward_05 (h : C01.HBuf) (b : C05.Buf) (count : Int) (hw : w05 b = w01 h)
    (he : b.enableHS = false) (hi : b.idx < b.lines.length) :
    w05 (C05.historyForward b count).1 = w01 (h.historyForward count) ∧
    (C05.historyForward b count).2 = .ok := by
  obtain ⟨e1, e2⟩ := q05_forward b count hi
  refine ⟨?_, e2⟩
  rw [← q05_w, e1, ← q01_w, q01_forward,
    forward_eq_of_w (q05 b) (q01 h) (by rw [q05_w, q01_w, hw]) he rfl]

/-! ### C16: the search field's working lines as a zipper -/

/-- `_working_lines` of the search field of `C16.Sess` -/
def zipWork (s : C16.Sess) : List Text := s.fbefore ++ [s.field] ++ s.fafter
/-- the search field's buffer as a `C01.HBuf` (C16 keeps no cursor for it: any `cur`) -/
def zip16 (s : C16.Sess) (cur : Nat) (dc : C01.DCache) : C01.HBuf := ⟨zipWork s, s.fbefore.length, cur, dc⟩

theorem zip16_text (s : C16.Sess) (cur : Nat) (dc : C01.DCache) : (zip16 s cur dc).text = s.field := by
  simp [zip16, zipWork, C01.HBuf.text]

theorem setCur_work (h : C01.HBuf) (v : Int) : (h.setCur v).work = h.work := rfl
theorem setCur_idx (h : C01.HBuf) (v : Int) : (h.setCur v).idx = h.idx := rfl

/-- buffer.py::Buffer.history_backward — `C01.HBuf.historyBackward 1` vs the `histPrev` key of
    `C16.step` (count 1, no history search; lines and index — the field's cursor is not in C16) -/
theorem historyBackward_16 (eq : Char → Char → Bool) (vi : Bool) (s : C16.Sess) (cur : Nat) (dc : C01.DCache)
    (hs : s.searching = true) :
    ((zip16 s cur dc).historyBackward 1).work = zipWork (C16.step eq vi s .histPrev) ∧
    ((zip16 s cur dc).historyBackward 1).idx = (C16.step eq vi s .histPrev).fbefore.length := by
  rcases List.eq_nil_or_concat s.fbefore with h | ⟨l, x, h⟩
  · simp [C16.step, hs, h, C01.HBuf.historyBackward, zip16, zipWork]
  · simp [C01.HBuf.historyBackward, C01.backLoop, C16.step, hs, h, C01.HBuf.setIndex, zip16, zipWork]
    exact ⟨rfl, rfl⟩
/-- buffer.py::Buffer.history_forward — `C01.HBuf.historyForward 1` vs the `histNext` key of `C16.step` -/
theorem historyForward_16 (eq : Char → Char → Bool) (vi : Bool) (s : C16.Sess) (cur : Nat) (dc : C01.DCache)
    (hs : s.searching = true) :
    ((zip16 s cur dc).historyForward 1).work = zipWork (C16.step eq vi s .histNext) ∧
    ((zip16 s cur dc).historyForward 1).idx = (C16.step eq vi s .histNext).fbefore.length := by
  cases h : s.fafter with
  | nil =>
    have : ¬ (zip16 s cur dc).idx + 1 < (zip16 s cur dc).work.length := by simp [zip16, zipWork, h]
    simp [C16.step, hs, h, C01.HBuf.historyForward, this]
    simp [zip16, zipWork, h]
  | cons x rest =>
    have hlt : (zip16 s cur dc).idx + 1 < (zip16 s cur dc).work.length := by simp [zip16, zipWork, h]
    have hfuel : (zip16 s cur dc).work.length - ((zip16 s cur dc).idx + 1) = rest.length + 1 := by
      simp [zip16, zipWork, h]; omega
    simp only [C01.HBuf.historyForward, hlt, if_true, hfuel, C01.fwdLoop, setCur_work, setCur_idx]
    simp [C16.step, hs, h, C01.HBuf.setIndex, zip16, zipWork]

/-! ### `Buffer.auto_up` / `auto_down` (C14 vs the search field of C16: one line, count 1) -/

theorem filter_nl_none (t : Text) (hn : ∀ c ∈ t, c ≠ '\n') : t.filter (· == '\n') = [] := by
  simp only [List.filter_eq_nil_iff]
  intro c hc; simpa using hn c hc
theorem row_noNl (t : Text) (cur : Nat) (hn : ∀ c ∈ t, c ≠ '\n') : C14.row t cur = 0 := by
  simp only [C14.row]
  rw [filter_nl_none _ (fun c hc => hn c (List.mem_of_mem_take hc))]; rfl
theorem splitOn_noNl (t : Text) (hn : ∀ c ∈ t, c ≠ '\n') : splitOn '\n' t = [t] := by
  induction t with
  | nil => rfl
  | cons x xs ih =>
    have hx : x ≠ '\n' := hn x (by simp)
    simp only [splitOn, hx, if_false, ih (fun c hc => hn c (by simp [hc]))]
theorem lineCount_noNl (t : Text) (hn : ∀ c ∈ t, c ≠ '\n') : C14.lineCount t = 1 := by
  simp [C14.lineCount, splitOn_noNl t hn]

/-- buffer.py::Buffer.auto_up — `C14.autoUp _ 1 false` vs the `histPrev` key of `C16.step`: on the
    one-line search field (no completion menu, no selection, `enable_history_search` off) it is
    `history_backward(1)` in both -/
theorem autoUp_14_16 (eq : Char → Char → Bool) (vi : Bool) (s : C16.Sess) (st : C14.St)
    (hs : s.searching = true) (hwk : st.work = zipWork s) (hix : st.idx = s.fbefore.length)
    (he : st.ehs = false) (hn : ∀ c ∈ s.field, c ≠ '\n') :
    ∃ st', C14.autoUp st 1 false = some st' ∧ st'.work = zipWork (C16.step eq vi s .histPrev) ∧
      st'.idx = (C16.step eq vi s .histPrev).fbefore.length := by
  have htext : st.text = s.field := by
    simp [C14.St.text, hwk, hix, zipWork, List.getD_eq_getElem?_getD]
  have hrow : C14.row st.text st.cur = 0 := by rw [htext]; exact row_noNl _ _ hn
  refine ⟨C14.historyBackward st 1, ?_, ?_⟩
  · simp [C14.autoUp, C14.autoUpPos, hrow]
  · have hw : w14 st = w01 (zip16 s st.cur []) := by simp [w14, w01, zip16, hwk, hix]
    have := historyBackward_14 (zip16 s st.cur []) st 1 hw he
    have h16 := historyBackward_16 eq vi s st.cur [] hs
    simp only [w14, w01, C01.WBuf.mk.injEq] at this
    exact ⟨this.1.trans h16.1, this.2.1.trans h16.2⟩
/-- buffer.py::Buffer.auto_down — `C14.autoDown _ 1 false` vs the `histNext` key of `C16.step` -/
theorem autoDown_14_16 (eq : Char → Char → Bool) (vi : Bool) (s : C16.Sess) (st : C14.St)
    (hs : s.searching = true) (hwk : st.work = zipWork s) (hix : st.idx = s.fbefore.length)
    (he : st.ehs = false) (hn : ∀ c ∈ s.field, c ≠ '\n') :
    ∃ st', C14.autoDown st 1 false = some st' ∧ st'.work = zipWork (C16.step eq vi s .histNext) ∧
      st'.idx = (C16.step eq vi s .histNext).fbefore.length := by
  have htext : st.text = s.field := by
    simp [C14.St.text, hwk, hix, zipWork, List.getD_eq_getElem?_getD]
  have hrow : C14.row st.text st.cur = 0 := by rw [htext]; exact row_noNl _ _ hn
  have hlc : C14.lineCount st.text = 1 := by rw [htext]; exact lineCount_noNl _ hn
  refine ⟨C14.historyForward st 1, ?_, ?_⟩
  · simp [C14.autoDown, C14.autoDownPos, hrow, hlc]
  · have hw : w14 st = w01 (zip16 s st.cur []) := by simp [w14, w01, zip16, hwk, hix]
    have := historyForward_14 (zip16 s st.cur []) st 1 hw he
    have h16 := historyForward_16 eq vi s st.cur [] hs
    simp only [w14, w01, C01.WBuf.mk.injEq] at this
    exact ⟨this.1.trans h16.1, this.2.1.trans h16.2⟩

/-! ### `Buffer.append_to_history`, `load_history_if_not_yet_loaded` -/

/-- buffer.py::Buffer.append_to_history — `C14.appendToHistory` vs `C16.appendHist` (the history
    strings; C14 also writes the store), all inputs -/
theorem appendToHistory_14_16 (s : C14.St) : (C14.appendToHistory s).hist = C16.appendHist s.hist s.text := by
  simp only [C14.appendToHistory, C16.appendHist]
  by_cases ht : s.text = []
  · simp [ht]
  · have hte : s.text.isEmpty = false := by simpa using ht
    simp only [ht, hte, ne_eq, not_false_eq_true, if_true, Bool.false_eq_true, if_false]
    by_cases hl : s.hist.getLast? = some s.text
    · have : ¬ s.hist = [] := by intro h; simp [h] at hl
      simp [hl, this]
    · have hl' : (s.hist.getLast? == some s.text) = false := by simpa using hl
      simp [hl, hl']

/-- buffer.py::Buffer.load_history_if_not_yet_loaded.load_history — one item delivered:
    `C14.loadOne` vs `C05.appendLeft` (`appendleft(item); working_index += 1`) -/
theorem loadOne_14_05 (s : C14.St) (b : C05.Buf) (item : Text) (rest : List Text) (hw : w05 b = w14 s)
    (hp : s.pending = item :: rest) : w05 (C05.appendLeft b item) = w14 (C14.loadOne s) := by
  simp only [w05, w14, C01.WBuf.mk.injEq] at hw
  obtain ⟨h1, h2, h3⟩ := hw
  simp [C14.loadOne, hp, C05.appendLeft, w05, w14, h1, h2, h3]
/-- buffer.py::Buffer.load_history_if_not_yet_loaded — the whole load: `C14.loadAll ∘ C14.startLoad`
    vs `C16.renderField` (the history strings are prepended, oldest first, the index moves along) -/
theorem loadHistory_14_16 (s : C16.Sess) (st : C14.St) (hs : s.searching = true) (hf : s.floaded = false)
    (hl : st.loading = false) (hwk : st.work = zipWork s) (hix : st.idx = s.fbefore.length)
    (hh : (if st.hloaded then st.hist else st.storage) = s.fhist) :
    (C14.loadAll (C14.startLoad st)).work = zipWork (C16.renderField s) ∧
    (C14.loadAll (C14.startLoad st)).idx = (C16.renderField s).fbefore.length := by
  simp only [C14.loadAll, C14.startLoad, hl, Bool.false_eq_true, if_false, hh, List.reverse_reverse,
    List.length_reverse, C16.renderField, hs, hf, Bool.not_false, Bool.and_self, if_true, zipWork, hwk, hix]
  constructor
  · simp [List.append_assoc]
  · simp [Nat.add_comm]

end Ptk.AgreeBuf
