/-
  C19 — style transformations: merged = composition in order, identities, what each transformation
  can touch (never the flags other than `reverse`, never introduces None, keeps colours valid so
  that the transformed attributes still round-trip through the escape code), `reverse` and the ANSI
  part of `swap` are involutions, `AdjustBrightness…` raises on the colour 'default' (witness) and
  on nothing else that `parse_color` hands out.
-/
import Ptk.Model.C19Transform
import Ptk.Props.C19Valid
namespace Ptk.C19
open Ptk.Py

variable (T : Tables) (X : TrTables) (F : Flt) (sp : Char → Bool)

/-! ### composition and identities -/

/-- **C19-v (merged transformations = composition in list order).** -/
theorem applyList_append (a b : List Tr) (x : Attrs) :
    Tr.applyList T X F sp (a ++ b) x =
      match Tr.applyList T X F sp a x with
      | .error e => .error e
      | .ok y => Tr.applyList T X F sp b y := by
  induction a generalizing x with
  | nil => simp [Tr.applyList]
  | cons t ts ih =>
    simp only [List.cons_append, Tr.applyList]
    cases Tr.apply T X F sp t x with
    | error e => rfl
    | ok y => exact ih y

theorem apply_merged (ts : List Tr) (x : Attrs) :
    Tr.apply T X F sp (.merged ts) x = Tr.applyList T X F sp ts x := by simp [Tr.apply]

/-- the transformations that change nothing: Dummy, Dynamic returning None, Conditional with a false
    filter, the empty merge, AdjustBrightness with the full range -/
theorem apply_identities (t : Tr) (x : Attrs) :
    Tr.apply T X F sp .dummy x = .ok x ∧ Tr.apply T X F sp .dynNone x = .ok x ∧
    Tr.apply T X F sp (.cond t false) x = .ok x ∧ Tr.apply T X F sp (.merged []) x = .ok x ∧
    Tr.apply T X F sp (.adjust 0 1000) x = .ok x ∧
    Tr.apply T X F sp (.dyn t) x = Tr.apply T X F sp t x ∧
    Tr.apply T X F sp (.cond t true) x = Tr.apply T X F sp t x := by
  simp [Tr.apply, Tr.applyList, applyAdjust]

/-! ### what the primitives do -/

theorem oppositeColor_none : oppositeColor X F sp none = some none := rfl

theorem oppositeColor_some (c : Text) (o : Option Text) (h : oppositeColor X F sp (some c) = some o) :
    (o = some c ∧ (c = [] ∨ c = "default".toList)) ∨ (∃ v, lookup c X.opposite = some v ∧ o = some v) ∨
      (lookup c X.opposite = none ∧ (hexSlices sp c).isSome = true ∧ o = some (F.swap c)) := by
  unfold oppositeColor at h
  simp only at h
  split at h
  · rename_i hc
    left
    refine ⟨by cases h; rfl, ?_⟩
    simpa using hc
  · split at h
    · rename_i v hv
      right; left
      exact ⟨v, hv, by cases h; rfl⟩
    · rename_i hv
      split at h
      · cases h
      · rename_i r hr
        right; right
        exact ⟨hv, by simp [hr], by cases h; rfl⟩

theorem swap_ok (a a' : Attrs) (h : Tr.apply T X F sp .swap a = .ok a') :
    ∃ c b, oppositeColor X F sp a.color = some c ∧ oppositeColor X F sp a.bgcolor = some b ∧
      a' = { a with color := c, bgcolor := b } := by
  simp only [Tr.apply] at h
  split at h
  · cases h
  · rename_i c hc
    split at h
    · cases h
    · rename_i b hb
      cases h
      exact ⟨c, b, hc, hb, rfl⟩

theorem reverse_ok (a : Attrs) :
    Tr.apply T X F sp .reverse a = .ok { a with reverse := some (!truthy a.reverse) } := by
  simp [Tr.apply]

theorem setDefault_ok (fg bg : Text) (a a' : Attrs) (h : applySetDefault T fg bg a = .ok a') :
    ∃ c b, a' = { a with color := c, bgcolor := b } ∧
      (b = a.bgcolor ∨ ((a.bgcolor = some [] ∨ a.bgcolor = some "default".toList) ∧
          ∃ v, parseColor T bg = some v ∧ b = some v)) ∧
      (c = a.color ∨ ((a.color = some [] ∨ a.color = some "default".toList) ∧
          ∃ v, parseColor T fg = some v ∧ c = some v)) := by
  unfold applySetDefault at h
  simp only at h
  by_cases hb : (a.bgcolor == some [] || a.bgcolor == some "default".toList) = true
  · rw [if_pos hb] at h
    cases hpb : parseColor T bg with
    | none => simp [hpb] at h
    | some vb =>
      simp only [hpb] at h
      have hb' : a.bgcolor = some [] ∨ a.bgcolor = some "default".toList := by simpa using hb
      by_cases hf : (a.color == some [] || a.color == some "default".toList) = true
      · rw [if_pos hf] at h
        cases hpf : parseColor T fg with
        | none => simp [hpf] at h
        | some vf =>
          simp only [hpf] at h
          cases h
          exact ⟨some vf, some vb, rfl, Or.inr ⟨hb', vb, rfl, rfl⟩, Or.inr ⟨by simpa using hf, vf, rfl, rfl⟩⟩
      · rw [if_neg hf] at h
        cases h
        exact ⟨a.color, some vb, rfl, Or.inr ⟨hb', vb, rfl, rfl⟩, Or.inl rfl⟩
  · rw [if_neg hb] at h
    simp only at h
    by_cases hf : (a.color == some [] || a.color == some "default".toList) = true
    · rw [if_pos hf] at h
      cases hpf : parseColor T fg with
      | none => simp [hpf] at h
      | some vf =>
        simp only [hpf] at h
        cases h
        exact ⟨some vf, a.bgcolor, rfl, Or.inl rfl, Or.inr ⟨by simpa using hf, vf, rfl, rfl⟩⟩
    · rw [if_neg hf] at h
      cases h
      exact ⟨a.color, a.bgcolor, rfl, Or.inl rfl, Or.inl rfl⟩

theorem adjust_ok (mn mx : Int) (a a' : Attrs) (h : applyAdjust T X F sp mn mx a = .ok a') :
    a' = a ∨ (a' = { a with color := some (F.adjust mn mx (a.color.getD [])) } ∧
      a.color.getD [] ≠ [] ∧ a.color.getD [] ≠ "ansidefault".toList) := by
  unfold applyAdjust at h
  split at h
  · cases h
  · split at h
    · cases h
    · split at h
      · cases h; exact Or.inl rfl
      · simp only at h
        split at h
        · rename_i hc
          split at h
          · cases h
            right
            simp only [Bool.and_eq_true, Bool.not_eq_true', bne_iff_ne, ne_eq] at hc
            refine ⟨rfl, ?_, hc.1.1.2⟩
            intro he
            rw [he] at hc
            simp at hc
          · cases h
        · cases h; exact Or.inl rfl

/-! ### a relation that holds for the primitives holds for every transformation tree -/

structure PrimRel (R : Attrs → Attrs → Prop) : Prop where
  refl : ∀ a, R a a
  trans : ∀ a b c, R a b → R b c → R a c
  swap : ∀ a a', Tr.apply T X F sp .swap a = .ok a' → R a a'
  reverse : ∀ a, R a { a with reverse := some (!truthy a.reverse) }
  setDefault : ∀ fg bg a a', applySetDefault T fg bg a = .ok a' → R a a'
  adjust : ∀ mn mx a a', applyAdjust T X F sp mn mx a = .ok a' → R a a'

mutual
theorem apply_rel (R : Attrs → Attrs → Prop) (hR : PrimRel T X F sp R) :
    ∀ (t : Tr) (a a' : Attrs), Tr.apply T X F sp t a = .ok a' → R a a'
  | .swap, a, a', h => hR.swap a a' h
  | .reverse, a, a', h => by
      rw [reverse_ok] at h; cases h; exact hR.reverse a
  | .setDefault fg bg, a, a', h => hR.setDefault fg bg a a' (by simpa [Tr.apply] using h)
  | .adjust mn mx, a, a', h => hR.adjust mn mx a a' (by simpa [Tr.apply] using h)
  | .dummy, a, a', h => by simp only [Tr.apply] at h; cases h; exact hR.refl a
  | .dynNone, a, a', h => by simp only [Tr.apply] at h; cases h; exact hR.refl a
  | .dyn t, a, a', h => apply_rel R hR t a a' (by simpa [Tr.apply] using h)
  | .cond t f, a, a', h => by
      cases f with
      | false => simp only [Tr.apply] at h; cases h; exact hR.refl a
      | true => exact apply_rel R hR t a a' (by simpa [Tr.apply] using h)
  | .merged ts, a, a', h => applyList_rel R hR ts a a' (by simpa [Tr.apply] using h)
theorem applyList_rel (R : Attrs → Attrs → Prop) (hR : PrimRel T X F sp R) :
    ∀ (ts : List Tr) (a a' : Attrs), Tr.applyList T X F sp ts a = .ok a' → R a a'
  | [], a, a', h => by simp only [Tr.applyList] at h; cases h; exact hR.refl a
  | t :: ts, a, a', h => by
      simp only [Tr.applyList] at h
      cases h1 : Tr.apply T X F sp t a with
      | error e => simp [h1] at h
      | ok b =>
        simp only [h1] at h
        exact hR.trans a b a' (apply_rel R hR t a b h1) (applyList_rel R hR ts b a' h)
end

/-- the flags no transformation of the library touches -/
def SameFlags (a a' : Attrs) : Prop :=
  a'.bold = a.bold ∧ a'.underline = a.underline ∧ a'.strike = a.strike ∧ a'.italic = a.italic ∧
  a'.blink = a.blink ∧ a'.hidden = a.hidden

/-- **C19-w (frame).**  Whatever tree of library transformations is applied, bold / underline / strike /
    italic / blink / hidden come out exactly as they went in. -/
theorem transform_keeps_flags (t : Tr) (a a' : Attrs) (h : Tr.apply T X F sp t a = .ok a') : SameFlags a a' := by
  refine apply_rel T X F sp SameFlags ⟨?_, ?_, ?_, ?_, ?_, ?_⟩ t a a' h
  · intro a; simp [SameFlags]
  · intro a b c h1 h2
    obtain ⟨x1, x2, x3, x4, x5, x6⟩ := h1
    obtain ⟨y1, y2, y3, y4, y5, y6⟩ := h2
    exact ⟨y1.trans x1, y2.trans x2, y3.trans x3, y4.trans x4, y5.trans x5, y6.trans x6⟩
  · intro a a' h
    obtain ⟨c, b, _, _, rfl⟩ := swap_ok T X F sp a a' h
    simp [SameFlags]
  · intro a; simp [SameFlags]
  · intro fg bg a a' h
    obtain ⟨c, b, rfl, _, _⟩ := setDefault_ok T fg bg a a' h
    simp [SameFlags]
  · intro mn mx a a' h
    rcases adjust_ok T X F sp mn mx a a' h with rfl | ⟨rfl, _⟩ <;> simp [SameFlags]

/-- **C19-w' (no None is introduced).**  Concrete attributes (what `get_attrs_for_style_str` returns)
    stay concrete under every transformation tree. -/
theorem transform_keeps_concrete (t : Tr) (a a' : Attrs) (h : Tr.apply T X F sp t a = .ok a')
    (hc : Concrete a) : Concrete a' := by
  have := apply_rel T X F sp (fun a a' => Concrete a → Concrete a') ⟨?_, ?_, ?_, ?_, ?_, ?_⟩ t a a' h
  · exact this hc
  · intro a h; exact h
  · intro a b c h1 h2 h; exact h2 (h1 h)
  · intro a a' h hc
    obtain ⟨c, b, h1, h2, rfl⟩ := swap_ok T X F sp a a' h
    obtain ⟨c1, c2, c3, c4, c5, c6, c7, c8, c9⟩ := hc
    refine ⟨?_, ?_, c3, c4, c5, c6, c7, c8, c9⟩
    · cases hcol : a.color with
      | none => simp [hcol] at c1
      | some x =>
        rw [hcol] at h1
        rcases oppositeColor_some X F sp x c h1 with ⟨rfl, _⟩ | ⟨v, _, rfl⟩ | ⟨_, _, rfl⟩ <;> simp
    · cases hcol : a.bgcolor with
      | none => simp [hcol] at c2
      | some x =>
        rw [hcol] at h2
        rcases oppositeColor_some X F sp x b h2 with ⟨rfl, _⟩ | ⟨v, _, rfl⟩ | ⟨_, _, rfl⟩ <;> simp
  · intro a hc
    obtain ⟨c1, c2, c3, c4, c5, c6, c7, c8, c9⟩ := hc
    exact ⟨c1, c2, c3, c4, c5, c6, c7, by simp, c9⟩
  · intro fg bg a a' h hc
    obtain ⟨c, b, rfl, hb, hf⟩ := setDefault_ok T fg bg a a' h
    obtain ⟨c1, c2, c3, c4, c5, c6, c7, c8, c9⟩ := hc
    refine ⟨?_, ?_, c3, c4, c5, c6, c7, c8, c9⟩
    · rcases hf with rfl | ⟨_, v, _, rfl⟩
      · exact c1
      · simp
    · rcases hb with rfl | ⟨_, v, _, rfl⟩
      · exact c2
      · simp
  · intro mn mx a a' h hc
    rcases adjust_ok T X F sp mn mx a a' h with rfl | ⟨rfl, _⟩
    · exact hc
    · obtain ⟨c1, c2, c3, c4, c5, c6, c7, c8, c9⟩ := hc
      exact ⟨by simp, c2, c3, c4, c5, c6, c7, c8, c9⟩

/-! ### colours stay valid -/

/-- assumptions on the float pipelines: they print six hexadecimal digits (`f"{r:02x}{g:02x}{b:02x}"`
    with 0 ≤ r, g, b ≤ 255) -/
def FltOk : Prop := (∀ c, IsHex6 (F.swap c)) ∧ (∀ mn mx c, IsHex6 (F.adjust mn mx c))

/-- `OPPOSITE_ANSI_COLOR_NAMES` maps into the ANSI colour names -/
def OppNamesOk : Prop := ∀ kv ∈ X.opposite, kv.2 ∈ T.ansiNames
instance : Decidable (OppNamesOk T X) := by unfold OppNamesOk; infer_instance

/-- **C19-x (transformed attributes stay encodable).**  If every colour that is set is valid ('' /
    'default' / ANSI name / six hex digits — what `parse_color` hands out), it still is after any
    transformation tree.  (`SetDefaultColor…` goes through `parse_color`, hence `hexValidated`.) -/
theorem transform_keeps_pvalid (hC : ColorTablesOk T) (hF : FltOk F) (hO : OppNamesOk T X)
    (hV : T.hexValidated = true) (t : Tr) (a a' : Attrs) (h : Tr.apply T X F sp t a = .ok a')
    (hp : PValid T a) : PValid T a' := by
  have hopp : ∀ (c : Option Text) (o : Option Text), oppositeColor X F sp c = some o →
      (∀ x, c = some x → ValidColor T x) → ∀ x, o = some x → ValidColor T x := by
    intro c o ho hc x hx
    subst hx
    cases c with
    | none => simp [oppositeColor] at ho
    | some c0 =>
      rcases oppositeColor_some X F sp c0 _ ho with ⟨h1, _⟩ | ⟨v, hv, h1⟩ | ⟨_, _, h1⟩
      · exact hc x (by rw [h1])
      · cases h1
        exact Or.inr (Or.inr (Or.inl (hO (c0, x) (lookup_mem c0 X.opposite x hv))))
      · cases h1; exact Or.inr (Or.inr (Or.inr (hF.1 c0)))
  have := apply_rel T X F sp (fun a a' => PValid T a → PValid T a') ⟨?_, ?_, ?_, ?_, ?_, ?_⟩ t a a' h
  · exact this hp
  · intro a h; exact h
  · intro a b c h1 h2 h; exact h2 (h1 h)
  · intro a a' h hp
    obtain ⟨c, b, h1, h2, rfl⟩ := swap_ok T X F sp a a' h
    exact ⟨hopp _ _ h1 hp.1, hopp _ _ h2 hp.2⟩
  · intro a hp; exact hp
  · intro fg bg a a' h hp
    obtain ⟨c, b, rfl, hb, hf⟩ := setDefault_ok T fg bg a a' h
    refine ⟨?_, ?_⟩
    · intro x hx
      simp only at hx
      rcases hf with rfl | ⟨_, v, hv, rfl⟩
      · exact hp.1 x hx
      · cases hx; exact parseColor_valid T hC fg x (Or.inl hV) hv
    · intro x hx
      simp only at hx
      rcases hb with rfl | ⟨_, v, hv, rfl⟩
      · exact hp.2 x hx
      · cases hx; exact parseColor_valid T hC bg x (Or.inl hV) hv
  · intro mn mx a a' h hp
    rcases adjust_ok T X F sp mn mx a a' h with rfl | ⟨rfl, _⟩
    · exact hp
    · refine ⟨?_, hp.2⟩
      intro x hx
      simp only [Option.some.injEq] at hx
      subst hx
      exact Or.inr (Or.inr (Or.inr (hF.2 mn mx _)))

/-! ### involutions -/

/-- **C19-y (`ReverseStyleTransformation` twice).**  On attributes whose `reverse` is a boolean, applying
    the transformation twice gives the attributes back; on `None` it gives `False`. -/
theorem reverse_twice (a : Attrs) :
    Tr.apply T X F sp (.merged [.reverse, .reverse]) a = .ok { a with reverse := some (truthy a.reverse) } := by
  simp [Tr.apply, Tr.applyList, truthy]

/-- the opposite table is an involution on its keys, and no value is '' or 'default' -/
def OppInvolutive : Prop :=
  ∀ kv ∈ X.opposite, lookup kv.2 X.opposite = some kv.1 ∧ kv.2 ≠ [] ∧ kv.2 ≠ "default".toList
instance : Decidable (OppInvolutive X) := by unfold OppInvolutive; infer_instance

/-- a colour that `get_opposite_color` treats without floating point -/
def ExactColor (c : Option Text) : Prop :=
  c = none ∨ c = some [] ∨ c = some "default".toList ∨ ∃ n, c = some n ∧ (lookup n X.opposite).isSome = true

theorem opposite_twice (hI : OppInvolutive X) (c : Option Text) (hc : ExactColor X c) :
    ∃ o, oppositeColor X F sp c = some o ∧ oppositeColor X F sp o = some c ∧ ExactColor X o := by
  rcases hc with rfl | rfl | rfl | ⟨n, rfl, hn⟩
  · exact ⟨none, rfl, rfl, Or.inl rfl⟩
  · exact ⟨some [], by simp [oppositeColor], by simp [oppositeColor], Or.inr (Or.inl rfl)⟩
  · exact ⟨some "default".toList, by simp [oppositeColor], by simp [oppositeColor], Or.inr (Or.inr (Or.inl rfl))⟩
  · by_cases hsp : (n == [] || n == "default".toList) = true
    · have e : oppositeColor X F sp (some n) = some (some n) := by
        unfold oppositeColor; simp only; rw [if_pos hsp]
      exact ⟨some n, e, e, Or.inr (Or.inr (Or.inr ⟨n, rfl, hn⟩))⟩
    · cases hl : lookup n X.opposite with
      | none => simp [hl] at hn
      | some v =>
        have hmem := lookup_mem n X.opposite v hl
        obtain ⟨hback, hv1, hv2⟩ := hI (n, v) hmem
        have e1 : oppositeColor X F sp (some n) = some (some v) := by
          unfold oppositeColor; simp only; rw [if_neg hsp, hl]
        have hsp2 : ¬((v == [] || v == "default".toList) = true) := by
          simp only [Bool.or_eq_true, beq_iff_eq, not_or]
          exact ⟨hv1, hv2⟩
        have e2 : oppositeColor X F sp (some v) = some (some n) := by
          unfold oppositeColor; simp only; rw [if_neg hsp2]
          simp only at hback
          rw [hback]
        exact ⟨some v, e1, e2, Or.inr (Or.inr (Or.inr ⟨v, rfl, by simp at hback; simp [hback]⟩))⟩

/-- **C19-y' (`SwapLightAndDark…` twice, exact part).**  On attributes whose colours are None / '' /
    'default' / ANSI names, swapping twice is the identity (the table is an involution).  For RGB
    colours this is FALSE of the real code (float truncation: '010101' -> 'fefefe' -> '000000'). -/
theorem swap_twice_exact (hI : OppInvolutive X) (a : Attrs) (h1 : ExactColor X a.color)
    (h2 : ExactColor X a.bgcolor) :
    Tr.apply T X F sp (.merged [.swap, .swap]) a = .ok a := by
  obtain ⟨c, hc1, hc2, _⟩ := opposite_twice X F sp hI a.color h1
  obtain ⟨b, hb1, hb2, _⟩ := opposite_twice X F sp hI a.bgcolor h2
  simp [Tr.apply, Tr.applyList, hc1, hb1, hc2, hb2]

/-! ### AdjustBrightness never raises on what `parse_color` hands out — except 'default' -/

theorem pyIntHex_hex2 (hsp : SpOk sp) (a b : Char) (ha : (hexVal? a).isSome = true)
    (hb : (hexVal? b).isSome = true) : (pyIntHex sp [a, b]).isSome = true := by
  have hstrip : stripWs sp [a, b] = [a, b] := by
    apply stripWs_id
    intro ch hch
    have hh : (hexVal? ch).isSome = true := by
      rcases List.mem_cons.mp hch with rfl | hch
      · exact ha
      · simp at hch; subst hch; exact hb
    have := hex_visible hh
    exact hsp.2 ch this.1 this.2
  have ne : ∀ {ch : Char} (k : Char), (hexVal? ch).isSome = true → (hexVal? k).isSome = false → ch ≠ k := by
    intro ch k h1 h2 heq
    subst heq
    rw [h1] at h2; cases h2
  have a1 : (some a == some '-') = false := by simp [ne '-' ha (by decide)]
  have a2 : (some a == some '+') = false := by simp [ne '+' ha (by decide)]
  have b1 : (some b == some 'x') = false := by simp [ne 'x' hb (by decide)]
  have b2 : (some b == some 'X') = false := by simp [ne 'X' hb (by decide)]
  have nu : ∀ {ch : Char}, (hexVal? ch).isSome = true → (ch == '_') = false := by
    intro ch h
    cases hh : ch == '_' with
    | false => rfl
    | true =>
      have : ch = '_' := by simpa using hh
      subst this
      simp [hexVal?] at h
  unfold pyIntHex pyIntHexCore
  rw [hstrip]
  simp only [List.head?_cons, a1, a2, Bool.or_self, Bool.false_eq_true, if_false]
  have hb1 : ([a, b] : Text)[1]? = some b := rfl
  rw [hb1]
  simp [b1, b2, hexDigits?, nu ha, nu hb, hexVal_of_isSome ha, hexVal_of_isSome hb]

theorem hexSlices_hex6 (hsp : SpOk sp) (c : Text) (h : IsHex6 c) : (hexSlices sp c).isSome = true := by
  obtain ⟨hlen, hall⟩ := h
  match c, hlen with
  | [a, b, c, d, e, f], _ =>
    have h1 := pyIntHex_hex2 sp hsp a b (hall a (by simp)) (hall b (by simp))
    have h2 := pyIntHex_hex2 sp hsp c d (hall c (by simp)) (hall d (by simp))
    have h3 := pyIntHex_hex2 sp hsp e f (hall e (by simp)) (hall f (by simp))
    unfold hexSlices
    simp only [List.take, List.drop]
    cases h1' : pyIntHex sp [a, b] with
    | none => simp [h1'] at h1
    | some r =>
      cases h2' : pyIntHex sp [c, d] with
      | none => simp [h2'] at h2
      | some g =>
        cases h3' : pyIntHex sp [e, f] with
        | none => simp [h3'] at h3
        | some bb => simp

/-- every ANSI colour name has an RGB value in `ANSI_COLORS_TO_RGB` -/
def AnsiRgbKeys : Prop := ∀ n ∈ T.ansiNames, (lookup n T.ansiRgb).isSome = true
instance : Decidable (AnsiRgbKeys T) := by unfold AnsiRgbKeys; infer_instance

/-- **C19-z (`AdjustBrightness…` on valid attributes).**  With brightness bounds inside [0, 1] the
    transformation returns (never raises) on attributes whose colours are valid — provided the
    foreground is not the literal colour 'default', or the code skips it (`adjustSkipsDefault`). -/
theorem adjust_total (hsp : SpOk sp) (hK : AnsiRgbKeys T) (mn mx : Int) (hmn : 0 ≤ mn ∧ mn ≤ 1000)
    (hmx : 0 ≤ mx ∧ mx ≤ 1000) (a : Attrs) (hv : ValidColor T (a.color.getD []))
    (hd : X.adjustSkipsDefault = true ∨ a.color.getD [] ≠ "default".toList) :
    ∃ a', applyAdjust T X F sp mn mx a = .ok a' := by
  unfold applyAdjust
  have e1 : (!(decide (0 ≤ mn) && decide (mn ≤ 1000))) = false := by simp [hmn.1, hmn.2]
  have e2 : (!(decide (0 ≤ mx) && decide (mx ≤ 1000))) = false := by simp [hmx.1, hmx.2]
  rw [e1, e2]
  simp only [Bool.false_eq_true, if_false]
  split
  · exact ⟨_, rfl⟩
  · split
    · rename_i hc
      simp only [Bool.and_eq_true, Bool.not_eq_true', bne_iff_ne, ne_eq] at hc
      have hok : colorToRgbOk T sp (a.color.getD []) = true := by
        unfold colorToRgbOk
        rcases hv with h | h | h | h
        · rw [h] at hc; simp at hc
        · rcases hd with hd | hd
          · rw [hd] at hc
            have := hc.1.2
            simp [kwDefault] at h
            simp [h] at this
          · exact absurd h hd
        · simp [hK _ h]
        · simp [hexSlices_hex6 sp hsp _ h]
      rw [if_pos hok]
      exact ⟨_, rfl⟩
    · exact ⟨_, rfl⟩

end Ptk.C19
