/-
  C15 — the `Buffer` operations around the asynchronous machinery, at full generality:
  `complete_next/previous(count, disable_wrap_around)` for every count (`next_count_spec`,
  `prev_count_spec`, `oversized_count_stops`), what `async_completer` does after the last
  completion (`select_first`, `select_last`, `insert_common_part`: `post_select_spec`,
  `post_common_spec`), `Buffer.reset()` / `set_document` while a completer is loading
  (`reset_orphans_loader`), and task cancellation (`kill_releases_flag`,
  `kill_threaded_releases_flag`).
-/
import Ptk.Props.C15
namespace Ptk.C15
open Ptk.Py

variable {cfg : Config} {env : Env}

/-! ### `complete_next` / `complete_previous` with any `count` and `disable_wrap_around` -/

/-- the index `complete_next(count, disable_wrap_around)` selects in a menu of `n` completions -/
def nextIdxC (n : Nat) (count : Nat) (dw : Bool) : Option Nat → Option Nat
  | none => some 0
  | some i => if i + 1 = n then (if dw then some i else none) else some (min (n - 1) (i + count))

/-- the index `complete_previous(count, disable_wrap_around)` selects -/
def prevIdxC (n : Nat) (count : Nat) (dw : Bool) : Option Nat → Option Nat
  | none => some (n - 1)
  | some i => if i = 0 then (if dw then some i else none) else some (i - count)

/-- **next_count_spec**: for every `count` (also 0 and counts larger than the menu) and both
    values of `disable_wrap_around`, `complete_next` never raises, keeps the menu object and
    selects `nextIdxC`: from "nothing selected" the first completion; from the last one nothing
    (or stays, without wrap-around); otherwise `count` further, stopping at the last. -/
theorem next_count_spec {s : St} (hb : BufOK cfg env s) {st : CState} (hcs : s.cs = some st)
    (hne : st.comps ≠ []) (count : Nat) (dw : Bool) :
    (completeNext cfg s count dw).2 = false ∧ BufOK cfg env (completeNext cfg s count dw).1 ∧
    (completeNext cfg s count dw).1.cs =
      some { st with index := nextIdxC st.comps.length count dw st.index } := by
  have hn : 0 < st.comps.length := List.length_pos_iff.mpr hne
  have hst := hb.cs_ok st hcs
  have nav := completeNext_nav hb count dw
  refine ⟨nav.noexc, nav.buf, ?_⟩
  unfold completeNext
  rw [hcs]
  dsimp only
  cases hi : st.index with
  | none =>
    dsimp only
    rw [(goTo_spec hb hcs (some 0) (by intro j hj; cases hj; exact hn)).2.2.2, goToIndex_of_ne hne]
    rfl
  | some i =>
    have hlt := index_lt_of_newDoc hst.text_eq hi
    dsimp only
    split
    · rename_i he
      have he' : i + 1 = st.comps.length := by omega
      cases dw with
      | true =>
        simp only [if_true, nextIdxC, he']
        rw [hcs]; congr 1
        cases st; simp_all
      | false =>
        simp only [Bool.false_eq_true, if_false]
        rw [(goTo_spec hb hcs none (by intro j hj; cases hj)).2.2.2, goToIndex_of_ne hne]
        simp [nextIdxC, he']
    · rename_i he
      have he' : ¬ i + 1 = st.comps.length := by omega
      rw [(goTo_spec hb hcs _ (by intro j hj; simp at hj; omega)).2.2.2, goToIndex_of_ne hne]
      simp [nextIdxC, he']

theorem prev_count_spec {s : St} (hb : BufOK cfg env s) {st : CState} (hcs : s.cs = some st)
    (hne : st.comps ≠ []) (count : Nat) (dw : Bool) :
    (completePrevious cfg s count dw).2 = false ∧ BufOK cfg env (completePrevious cfg s count dw).1 ∧
    (completePrevious cfg s count dw).1.cs =
      some { st with index := prevIdxC st.comps.length count dw st.index } := by
  have hn : 0 < st.comps.length := List.length_pos_iff.mpr hne
  have hst := hb.cs_ok st hcs
  have nav := completePrevious_nav hb count dw
  refine ⟨nav.noexc, nav.buf, ?_⟩
  unfold completePrevious
  rw [hcs]
  dsimp only
  cases hi : st.index with
  | none =>
    dsimp only
    rw [(goTo_spec hb hcs _ (by intro j hj; simp at hj; omega)).2.2.2, goToIndex_of_ne hne]
    rfl
  | some i =>
    have hlt := index_lt_of_newDoc hst.text_eq hi
    dsimp only
    split
    · rename_i he
      cases dw with
      | true =>
        simp only [if_true, prevIdxC, he]
        rw [hcs]; congr 1
        cases st; simp_all
      | false =>
        simp only [Bool.false_eq_true, if_false]
        rw [(goTo_spec hb hcs none (by intro j hj; cases hj)).2.2.2, goToIndex_of_ne hne]
        simp [prevIdxC, he]
    · rename_i he
      rw [(goTo_spec hb hcs _ (by intro j hj; simp at hj; omega)).2.2.2, goToIndex_of_ne hne]
      simp [prevIdxC, he]

/-- **oversized counts stop at the ends**: `complete_next(count)` with `count` at least the
    size of the menu lands on the last completion, `complete_previous(count)` on the first —
    never outside the list. -/
theorem oversized_count_stops {s : St} (hb : BufOK cfg env s) {st : CState} (hcs : s.cs = some st)
    {i : Nat} (hi : st.index = some i) (count : Nat) (hc : st.comps.length ≤ count) :
    (i + 1 < st.comps.length →
      (completeNext cfg s count false).1.cs = some { st with index := some (st.comps.length - 1) }) ∧
    (0 < i → (completePrevious cfg s count false).1.cs = some { st with index := some 0 }) := by
  have hlt := index_lt_of_newDoc (hb.cs_ok st hcs).text_eq hi
  have hne : st.comps ≠ [] := by intro e; rw [e] at hlt; simp at hlt
  constructor
  · intro h
    rw [(next_count_spec hb hcs hne count false).2.2, hi]
    simp only [nextIdxC]
    rw [if_neg (by omega)]
    congr 3; omega
  · intro h
    rw [(prev_count_spec hb hcs hne count false).2.2, hi]
    simp only [prevIdxC]
    rw [if_neg (by omega)]
    congr 3; omega

/-! ### what `async_completer` does once all completions are loaded (`select_first`,
    `select_last`, `insert_common_part`) -/

theorem segDone_cs (s : St) : (segDone s).1.cs = s.cs := rfl
theorem segDone_text (s : St) : (segDone s).1.text = s.text := rfl
theorem segDone_cur (s : St) : (segDone s).1.cur = s.cur := rfl

/-- the user selected a completion while the list was loading: the post-load action is
    skipped, whatever was asked for -/
theorem post_keeps_user_selection (s : St) (st : CState) (m : Mode) (doc : Doc) (hi : st.index.isSome = true) :
    compProceed cfg s st m doc = segDone s := by
  unfold compProceed; rw [if_pos hi]

/-- nothing found: the (empty) menu is closed -/
theorem post_empty_closes (s : St) (st : CState) (m : Mode) (doc : Doc) (hi : st.index = none)
    (he : st.comps = []) : (compProceed cfg s st m doc).1.cs = none := by
  unfold compProceed; simp [hi, he, segDone]

/-- **select_first / select_last**: the first / last completion is selected and applied -/
theorem post_select_spec {s : St} (hb : BufOK cfg env s) {st : CState} (hcs : s.cs = some st)
    (hi : st.index = none) (hne : st.comps ≠ []) (doc : Doc) :
    (compProceed cfg s st .first doc).1.cs = some { st with index := some 0 } ∧
    (compProceed cfg s st .last doc).1.cs = some { st with index := some (st.comps.length - 1) } ∧
    (compProceed cfg s st .plain doc).1.cs = some st ∧
    (∃ c, st.comps[0]? = some c ∧
      (⟨(compProceed cfg s st .first doc).1.text, (compProceed cfg s st .first doc).1.cur⟩ : Doc) = applyCompl st.orig c) := by
  have hn : 0 < st.comps.length := List.length_pos_iff.mpr hne
  have he : st.comps.isEmpty = false := by
    cases hc : st.comps with
    | nil => exact absurd hc hne
    | cons _ _ => rfl
  have r0 := goTo_spec hb hcs (some 0) (by intro j hj; cases hj; exact hn)
  have rl := goTo_spec hb hcs (some (st.comps.length - 1)) (by intro j hj; cases hj; omega)
  have e0 : (compProceed cfg s st .first doc) = segDone (goToCompletion cfg s (some 0)).1 := by
    unfold compProceed; simp [hi, he]
  have el : (compProceed cfg s st .last doc) = segDone (goToCompletion cfg s (some (st.comps.length - 1))).1 := by
    unfold compProceed; simp [hi, he]
  have ep : (compProceed cfg s st .plain doc) = segDone s := by
    unfold compProceed; simp [hi, he]
  refine ⟨?_, ?_, ?_, ?_⟩
  · rw [e0, segDone_cs, r0.2.2.2, goToIndex_of_ne hne]
  · rw [el, segDone_cs, rl.2.2.2, goToIndex_of_ne hne]
  · rw [ep, segDone_cs, hcs]
  · have hcs0 : (goToCompletion cfg s (some 0)).1.cs = some { st with index := some 0 } := by
      rw [r0.2.2.2, goToIndex_of_ne hne]
    have := (r0.2.1.cs_ok _ hcs0).text_eq
    simp only [CState.newDoc] at this
    split at this
    · rename_i c hc
      refine ⟨c, hc, ?_⟩
      rw [e0, segDone_text, segDone_cur]
      simpa [St.doc] using this.symm
    · cases this

/-- **insert_common_part**: a non-empty common part of several completions is inserted at the
    cursor and a new menu is published for the new document, holding the shortened completions
    (which mean the same: `common_part_preserves_meaning`); with a single completion the menu is
    closed instead; without a common part a single completion is selected, several are left
    alone. -/
theorem post_common_spec {s : St} (hb : BufOK cfg env s) {st : CState} (hcs : s.cs = some st)
    (hi : st.index = none) (hne : st.comps ≠ []) (doc : Doc) :
    (commonSuffix doc st.comps ≠ [] → 1 < st.comps.length →
      (compProceed cfg s st .common doc).1.cs =
        some ⟨⟨s.text.take s.cur ++ commonSuffix doc st.comps ++ s.text.drop s.cur,
               s.cur + (commonSuffix doc st.comps).length⟩,
              st.comps.map (fromPos (commonSuffix doc st.comps).length), none, s.nextTok⟩ ∧
      (compProceed cfg s st .common doc).1.text =
        s.text.take s.cur ++ commonSuffix doc st.comps ++ s.text.drop s.cur) ∧
    (commonSuffix doc st.comps ≠ [] → st.comps.length = 1 →
      (compProceed cfg s st .common doc).1.cs = none ∧
      (compProceed cfg s st .common doc).1.text =
        s.text.take s.cur ++ commonSuffix doc st.comps ++ s.text.drop s.cur) ∧
    (commonSuffix doc st.comps = [] → st.comps.length = 1 →
      (compProceed cfg s st .common doc).1.cs = some { st with index := some 0 }) ∧
    (commonSuffix doc st.comps = [] → 1 < st.comps.length →
      (compProceed cfg s st .common doc).1.cs = some st) := by
  have hn : 0 < st.comps.length := List.length_pos_iff.mpr hne
  have he : st.comps.isEmpty = false := by
    cases hc : st.comps with
    | nil => exact absurd hc hne
    | cons _ _ => rfl
  refine ⟨?_, ?_, ?_, ?_⟩
  · intro hcp hl
    have hcp' : (commonSuffix doc st.comps).isEmpty = false := by
      cases hc : commonSuffix doc st.comps with
      | nil => exact absurd hc hcp
      | cons _ _ => rfl
    unfold compProceed
    simp only [hi, he, hcp', Option.isSome_none, Bool.false_eq_true, if_false, Bool.not_false, if_true,
      gt_iff_lt, hl, segDone, setCompletions, St.doc, insertText_text, insertText_cur, insertText_nextTok,
      and_self]
  · intro hcp hl
    have hcp' : (commonSuffix doc st.comps).isEmpty = false := by
      cases hc : commonSuffix doc st.comps with
      | nil => exact absurd hc hcp
      | cons _ _ => rfl
    unfold compProceed
    simp only [hi, he, hcp', Option.isSome_none, Bool.false_eq_true, if_false, Bool.not_false, if_true,
      gt_iff_lt, hl, Nat.lt_irrefl, segDone, insertText_text, and_self]
  · intro hcp hl
    have r0 := goTo_spec hb hcs (some 0) (by intro j hj; cases hj; exact hn)
    unfold compProceed
    simp only [hi, he, hcp, Option.isSome_none, Bool.false_eq_true, if_false, List.isEmpty_nil, Bool.not_true,
      hl, beq_self_eq_true, if_true, segDone]
    rw [r0.2.2.2, goToIndex_of_ne hne]
  · intro hcp hl
    have h1 : (st.comps.length == 1) = false := by
      simp; omega
    unfold compProceed
    simp only [hi, he, hcp, Option.isSome_none, Bool.false_eq_true, if_false, List.isEmpty_nil, Bool.not_true,
      h1, segDone]
    exact hcs

/-! ### `Buffer.reset()` / cancellation while coroutines are in flight -/

/-- `Buffer.reset()` (accept, or the next `prompt()` of a session) closes the menu and forgets
    verdict and suggestion; it does not touch the coroutines … -/
theorem reset_clears (s : St) (t : Text) (c : Nat) :
    (reset s t c).cs = none ∧ (reset s t c).vs = .unknown ∧ (reset s t c).verr = none ∧
    (reset s t c).sugg = none ∧ (reset s t c).tasks = s.tasks ∧ (reset s t c).runC = s.runC := ⟨rfl, rfl, rfl, rfl, rfl, rfl⟩

/-- … but a completer that is still loading can no longer pass `proceed()`: whatever it
    delivers afterwards is dropped (`stale_completion_not_published`, and the threaded
    variants) — a late coroutine does not resurrect the old menu.  The same after any
    `set_document` that changes text or cursor. -/
theorem reset_orphans_loader (s : St) (t : Text) (c : Nat) (tok : Nat) :
    proceed (reset s t c) tok = false := rfl

theorem set_document_orphans_loader (s : St) (t : Text) (c : Nat) (tok : Nat)
    (hch : t ≠ s.text ∨ c ≠ s.cur) : proceed (setDocument cfg s t c) tok = false := by
  unfold proceed
  rw [setDocument_cs]
  rcases hch with h | h <;> simp [h]

/-- **cancellation releases the flag** (the `finally` of `_only_one_at_a_time`): cancelling a
    coroutine that waits in an asynchronous completer / validator / suggester clears its
    `running` flag at once and publishes nothing; the next `start_completion()` (e.g. in the
    next `prompt()` of the session, which shares the Buffer) is not locked out. -/
theorem kill_releases_flag (s : St) (i : Nat) :
    (∀ m doc k tok, s.tasks[i]? = some (.cLoad m doc k tok) → (cancelTask s i).runC = false) ∧
    (∀ doc sel, s.tasks[i]? = some (.vWait doc sel) → (cancelTask s i).runV = false) ∧
    (∀ doc sel, s.tasks[i]? = some (.sWait doc sel) → (cancelTask s i).runS = false) ∧
    (cancelTask s i).cs = s.cs ∧ (cancelTask s i).text = s.text ∧ (cancelTask s i).vs = s.vs ∧
    (cancelTask s i).sugg = s.sugg := by
  refine ⟨?_, ?_, ?_, ?_⟩
  · intro m doc k tok h; simp [cancelTask, h, killFlags]
  · intro doc sel h; simp [cancelTask, h, killFlags]
  · intro doc sel h; simp [cancelTask, h, killFlags]
  · unfold cancelTask
    cases h : s.tasks[i]? with
    | none => exact ⟨rfl, rfl, rfl, rfl⟩
    | some t => cases t <;> exact ⟨rfl, rfl, rfl, rfl⟩

/-- with a `ThreadedCompleter` the cancelled coroutine first waits for its producer thread
    (`quitting` is set, so the thread returns: `closing_producer_stops`); when it has, the
    flag is cleared and nothing is published -/
theorem kill_threaded_releases_flag (s : St) (m : Mode) (doc : Doc) (tok : Nat) (h : HS)
    (hex : h.pc.isExit = true) :
    (compCloseT cfg env s m doc tok h true).2 = none ∧
    (compCloseT cfg env s m doc tok h true).1.runC = false ∧
    (compCloseT cfg env s m doc tok h true).1.cs = s.cs ∧
    (compCloseT cfg env s m doc tok h true).1.text = s.text := by
  simp [compCloseT, hex, segDone]

/-! ### what the user sees of a suggestion -/

/-- **shown_suggestion_fresh**: whatever `AppendAutoSuggestion` draws behind the input was
    computed by the suggester from a document with exactly the current text, and it is drawn
    only while the cursor is at the end of that text: the grey continuation always continues
    what is on the screen. -/
theorem shown_suggestion_fresh (hfix : CfgOK cfg) {s : St} (h : Reachable cfg env s)
    (hne : shownSuggestion s ≠ []) :
    s.cur = s.text.length ∧ s.sugg = some (shownSuggestion s) ∧
    ∃ c, c ≤ s.text.length ∧ env.sugg ⟨s.text, c⟩ = some (shownSuggestion s) := by
  cases hs : s.sugg with
  | none => simp [shownSuggestion, hs] at hne
  | some t =>
    by_cases hc : s.cur = s.text.length
    · have e : shownSuggestion s = t := by simp [shownSuggestion, hs, hc]
      rw [e]
      exact ⟨hc, rfl, suggestion_fresh hfix h hs⟩
    · simp [shownSuggestion, hs, hc] at hne

/-- nothing is drawn when the cursor is not at the end, or right after any change of text -/
theorem shown_suggestion_cleared (s : St) (t : Text) (c : Nat) (ht : t ≠ s.text) :
    shownSuggestion (setDocument cfg s t c) = [] := by
  unfold shownSuggestion
  rw [setDocument_sugg]; simp [ht]

/-! ### non-vacuity -/

/-- the reachable state with a freshly opened two-entry menu (see `Ptk.Props.C15`) -/
def sMenu2 : St :=
  run cfgAll envDemo (init docAb) [.startCompletion .plain, .start 0, .resume 0, .resume 0, .resume 0]

/-- `next_count_spec` / `oversized_count_stops`: count 5 in a menu of two: first "nothing
    selected" → 0, then 0 → 1 (the last), then wrap to nothing; without wrap-around it stays -/
example :
    ((completeNext cfgAll sMenu2 5 false).1.cs.map (·.index)) = some (some 0) ∧
    ((completeNext cfgAll (completeNext cfgAll sMenu2 5 false).1 5 false).1.cs.map (·.index)) = some (some 1) ∧
    ((completeNext cfgAll (completeNext cfgAll (completeNext cfgAll sMenu2 5 false).1 5 false).1 5 false).1.cs.map
      (·.index)) = some none ∧
    ((completeNext cfgAll (completeNext cfgAll (completeNext cfgAll sMenu2 5 false).1 5 false).1 5 true).1.cs.map
      (·.index)) = some (some 1) ∧
    ((completePrevious cfgAll (completeNext cfgAll (completeNext cfgAll sMenu2 1 false).1 1 false).1 7 false).1.cs.map
      (·.index)) = some (some 0) := by decide

/-- `post_common_spec`: Tab on "ab|" with completions "bxy", "bxz": "x" is inserted and the
    new menu holds "y", "z" for "abx|" -/
example :
    (run cfgAll envDemo (init docAb) [.tab, .start 0, .resume 0, .resume 0, .resume 0]).text = ['a', 'b', 'x'] ∧
    (run cfgAll envDemo (init docAb) [.tab, .start 0, .resume 0, .resume 0, .resume 0]).cs =
      some ⟨⟨['a', 'b', 'x'], 3⟩, [⟨['y'], 0⟩, ⟨['z'], 0⟩], none, 1⟩ := by decide

/-- `reset_orphans_loader`: a completer is loading, the buffer is reset (accept); the late
    completion is dropped and no menu appears -/
example :
    (run cfgAll envDemo (init docAb) [.startCompletion .plain, .start 0, .reset [] 0, .resume 0]).cs = none ∧
    (run cfgAll envDemo (init docAb) [.startCompletion .plain, .start 0, .reset [] 0, .resume 0]).tasks = [] ∧
    (run cfgAll envDemo (init docAb) [.startCompletion .plain, .start 0, .reset [] 0, .resume 0]).runC = false := by
  decide

/-- `kill_releases_flag`: after the cancellation (and once the half-loaded menu is closed: a
    `complete_state` that is still set makes `async_completer` return at once) a new completion
    starts normally -/
example :
    (run cfgAll envDemo (init docAb)
      [.startCompletion .plain, .start 0, .kill 0, .cancel, .startCompletion .first, .start 0]).runC = true ∧
    (run cfgAll envDemo (init docAb)
      [.startCompletion .plain, .start 0, .kill 0, .cancel, .startCompletion .first, .start 0]).tasks.length = 1 := by decide

/-- `shown_suggestion_fresh`: after typing "a" the suggester answers "ba!" for "aba" and it is
    drawn; one step to the left and nothing is drawn -/
example :
    shownSuggestion (run cfgAll envDemo (init docAb) [.insert ['a'], .start 2, .resume 0]) = ['b', 'a', '!'] ∧
    shownSuggestion (run cfgAll envDemo (init docAb) [.insert ['a'], .start 2, .resume 0, .setCursor 2]) = [] := by
  decide

end Ptk.C15
