/-
  C09 — `Document.paste_clipboard_data` for every data type, paste mode and count:
  it never raises (`paste_never_raises`), where the cursor goes, BLOCK padding stated exactly
  (`insAt_no_pad`, `insAt_pad`, `paste_block_long_lines`); which Vi commands touch which register
  (`vstep_regs_frame`, `invalid_register_name`).
-/
import Ptk.Props.C09Cut
namespace Ptk.C09
open Ptk.Py

theorem mem_takeWhile_sat {α : Type} (p : α → Bool) (l : List α) (x : α) (h : x ∈ l.takeWhile p) : p x = true := by
  induction l with
  | nil => simp at h
  | cons a l ih =>
    rw [List.takeWhile_cons] at h
    split at h
    · rcases List.mem_cons.mp h with rfl | h
      · assumption
      · exact ih h
    · simp at h

theorem lineBefore_no_nl (b : Buf) : '\n' ∉ lineBefore b := by
  unfold lineBefore
  intro h
  have h' := List.mem_reverse.mp h
  have := mem_takeWhile_sat _ _ _ h'
  simp [notNl] at this

/-- **`translate_row_col_to_index(translate_index_to_position(i)) = i`.** -/
theorem pos_decomp (b : Buf) (h : WF b) :
    b.cur = rowStart (splitOn '\n' b.text) (row b) + col b := by
  unfold WF at h
  obtain ⟨hplen, hpre⟩ := linesFrom_prefix b.text b.cur h
  have hcol : col b ≤ b.cur := by
    have := lineBefore_le b
    have h2 := before_length b h
    unfold col; omega
  have hbefore : b.before = b.text.take (linesFrom b.text b.cur) ++ lineBefore b := by
    have hlf0 : linesFrom b.text b.cur = b.cur - (lineBefore b).length := rfl
    have h1 : b.text.take (linesFrom b.text b.cur) = b.before.take (b.before.length - (lineBefore b).length) := by
      rw [before_length b h, hlf0]
      simp only [Buf.before, List.take_take]
      congr 1
      omega
    rw [h1]
    conv => lhs; rw [← List.take_append_drop (b.before.length - (lineBefore b).length) b.before]
    rw [← lineBefore_eq_drop]
  have hrow : row b = ((b.text.take (linesFrom b.text b.cur)).filter isNl).length := by
    unfold row
    rw [hbefore, List.filter_append, filter_isNl_nil _ (lineBefore_no_nl b)]
    simp
  have hlf : linesFrom b.text b.cur + col b = b.cur := by
    have hlf0 : linesFrom b.text b.cur = b.cur - col b := rfl
    omega
  rcases hpre with h0 | ⟨pre', h0⟩
  · rw [h0] at hplen hrow
    simp at hplen hrow
    rw [hrow]
    simp only [rowStart, List.take_zero, lenSum, List.map_nil, List.sum_nil]
    omega
  · have ht : b.text = pre' ++ '\n' :: b.text.drop (linesFrom b.text b.cur) := by
      conv => lhs; rw [← List.take_append_drop (linesFrom b.text b.cur) b.text, h0]
      simp
    have hr : row b = (splitOn '\n' pre').length := by
      rw [hrow, h0, splitOn_length, List.filter_append, List.length_append]
      have e : (List.filter isNl ['\n']).length = 1 := by decide
      rw [e]
    have hlines : (splitOn '\n' b.text).take (row b) = splitOn '\n' pre' := by
      rw [ht, splitOn_append, hr]
      exact List.take_left' rfl
    unfold rowStart
    rw [hlines, hr]
    have hj := join_length (splitOn '\n' pre')
    rw [join_splitOn] at hj
    have hne : 0 < (splitOn '\n' pre').length := List.length_pos_iff.mpr (splitOn_ne_nil _ _)
    have hp : linesFrom b.text b.cur = pre'.length + 1 := by
      rw [← hplen, h0]; simp
    omega


theorem rowStart_take_eq (A B : List Text) (r : Nat) (h : r ≤ A.length) : rowStart (A ++ B) r = rowStart A r := by
  unfold rowStart
  rw [List.take_append_of_le_length h]

theorem insAt_length_ge (scol : Nat) (count : Int) (ln dl : Text) : scol ≤ (insAt scol count ln dl).length := by
  unfold insAt ljust
  simp only [List.length_append, List.length_take, List.length_drop, List.length_replicate]
  omega

/-- start index of row `k` of `A ++ X ++ B` when `A` has exactly `k` lines: only `A` matters -/
theorem rowStart_le_join (L : List Text) (k : Nat) (hk : k < L.length) :
    rowStart L k ≤ (join ['\n'] L).length := by
  have := rowStart_line_le L k hk; omega

/-- **`paste_clipboard_data` never raises** (`Document.__init__` asserts `cursor_position <= len(text)`):
    for every document with its cursor inside the text, every data type, paste mode and count the
    new cursor position is inside the new text. -/
theorem paste_never_raises (b : Buf) (h : WF b) (d : Clip) (mode : PasteMode) (count : Int) :
    pasteOk (pasteRaw b d mode count) = true := by
  unfold pasteOk
  simp only [decide_eq_true_eq]
  by_cases hc : count ≤ 0
  · rw [pasteRaw_nonpos b d mode count hc]; unfold WF at h; simp only; omega
  have hcn : 1 ≤ count.toNat := by omega
  have hlines_ne := splitOn_ne_nil '\n' b.text
  have hrow := row_lt_lines b
  unfold pasteRaw
  rw [if_neg hc]
  cases hty : d.ty with
  | chars =>
    simp only
    unfold WF at h
    have hlen : ∀ q, (b.text.take q ++ rep d.text count ++ b.text.drop q).length = b.text.length + d.text.length * count.toNat := by
      intro q
      simp only [List.length_append, List.length_take, List.length_drop, rep, repeatText_length]; omega
    have hmul : (d.text.length : Int) * count = ((d.text.length * count.toNat : Nat) : Int) := by
      rw [Int.natCast_mul]; congr 1; omega
    cases mode <;> simp only [Buf.before, Buf.after, reduceCtorEq, if_false, if_true, hlen, hmul] <;> omega
  | lines =>
    simp only
    generalize hL : splitOn '\n' b.text = L at hrow hlines_ne
    have hrep : (List.replicate count.toNat d.text).length = count.toNat := List.length_replicate
    split
    · -- VI_BEFORE: the cursor goes to the start of the first pasted line
      have hk : row b < (L.take (row b) ++ List.replicate count.toNat d.text ++ L.drop (row b)).length := by
        simp only [List.length_append, List.length_take, List.length_drop, hrep]; omega
      have := rowStart_le_join _ _ hk
      rw [List.append_assoc, rowStart_take_eq _ _ _ (by simp; omega)] at this
      simp only [rowStart, List.take_take, Nat.min_self] at this
      rw [← List.append_assoc] at this
      simp only
      exact_mod_cast this
    · have hk : row b + 1 < (L.take (row b + 1) ++ List.replicate count.toNat d.text ++ L.drop (row b + 1)).length := by
        simp only [List.length_append, List.length_take, List.length_drop, hrep]; omega
      have := rowStart_le_join _ _ hk
      rw [List.append_assoc, rowStart_take_eq _ _ _ (by simp; omega)] at this
      simp only [rowStart, List.take_take, Nat.min_self] at this
      rw [← List.append_assoc] at this
      have e : lenSum (List.take (row b + 1) L) + row b + 1 = lenSum (List.take (row b + 1) L) + (row b + 1) := by omega
      rw [e]
      simp only
      exact_mod_cast this
  | block =>
    simp only
    generalize hscol : col b + (if mode = PasteMode.viBefore then 0 else 1) = scol
    obtain ⟨s1, s2, s3, _⟩ := blockGo_spec scol count (splitOn '\n' d.text) (row b) (splitOn '\n' b.text)
      (Nat.le_of_lt hrow)
    generalize hres : blockGo scol count (splitOn '\n' d.text) (row b) (splitOn '\n' b.text) = res at s1 s2 s3
    have hds : 0 < (splitOn '\n' d.text).length := List.length_pos_iff.mpr (splitOn_ne_nil _ _)
    have hk : row b < res.length := by rw [s1]; omega
    have h3 := s3 0 hds
    simp only [Nat.add_zero] at h3
    have hge : scol ≤ res[row b].length := by
      have : res[row b]? = some res[row b] := List.getElem?_eq_getElem hk
      rw [this] at h3
      rw [Option.some.inj h3]
      exact insAt_length_ge _ _ _ _
    have hle := rowStart_line_le res (row b) hk
    have hrs : rowStart res (row b) = rowStart (splitOn '\n' b.text) (row b) := by
      unfold rowStart
      congr 2
      apply List.ext_getElem?
      intro j
      by_cases hj : j < row b
      · rw [List.getElem?_take_of_lt hj, List.getElem?_take_of_lt hj]; exact s2 j hj
      · rw [List.getElem?_eq_none (by simp; omega), List.getElem?_eq_none (by simp; omega)]
    have hpos := pos_decomp b h
    rw [hrs] at hle
    have : (b.cur : Int) + (if mode = PasteMode.viBefore then 0 else 1)
        = ((b.cur + (if mode = PasteMode.viBefore then 0 else 1) : Nat) : Int) := by
      split <;> simp
    rw [this]
    have : b.cur + (if mode = PasteMode.viBefore then 0 else 1) ≤ (join ['\n'] res).length := by omega
    exact_mod_cast this


/-- the buffer after a paste has its cursor inside the text -/
theorem pasteBuf_wf (b : Buf) (h : WF b) (d : Clip) (mode : PasteMode) (count : Int) :
    WF (pasteBuf b d mode count) := by
  have := paste_never_raises b h d mode count
  unfold pasteOk at this
  simp only [decide_eq_true_eq] at this
  unfold WF pasteBuf
  simp only
  omega

example : pasteOk (pasteRaw { text := "ab".toList, cur := 2 } ⟨"X\nY".toList, .block⟩ .viAfter 2) = true ∧
    pasteRaw { text := "ab".toList, cur := 2 } ⟨"X\nY".toList, .block⟩ .viAfter 2 = ("ab XX\n   YY".toList, 3) := by
  decide

/-- **Where the cursor goes** (positive count).  CHARACTERS: see `paste_chars`.  LINES: to the start
    of the first pasted line.  BLOCK: it stays (`P`) or moves one to the right (`p`, Emacs yank). -/
theorem paste_cursor (b : Buf) (d : Clip) (mode : PasteMode) (count : Int) (hpos : 0 < count) :
    (d.ty = .lines → (pasteRaw b d mode count).2 =
      ((rowStart (splitOn '\n' b.text) (if mode = .viBefore then row b else row b + 1) : Nat) : Int)) ∧
    (d.ty = .block → (pasteRaw b d mode count).2 = (b.cur : Int) + (if mode = .viBefore then 0 else 1)) := by
  have hc : ¬ count ≤ 0 := by omega
  refine ⟨fun hty => ?_, fun hty => ?_⟩
  · simp only [pasteRaw, if_neg hc, hty, rowStart]
    split
    · rfl
    · simp only [Nat.add_assoc]
  · simp only [pasteRaw, if_neg hc, hty]

/-- BLOCK paste into a line that reaches the paste column: nothing is padded, the data line is
    inserted unchanged (`count` times) at that column -/
theorem insAt_no_pad (scol : Nat) (count : Int) (ln dl : Text) (h : scol ≤ ln.length) :
    insAt scol count ln dl = ln.take scol ++ rep dl count ++ ln.drop scol := by
  unfold insAt ljust
  have : scol - ln.length = 0 := by omega
  rw [this]; simp

/-- BLOCK paste into a shorter line: the line is padded with spaces up to the paste column, then
    the data line follows — the only characters added besides the data are those spaces -/
theorem insAt_pad (scol : Nat) (count : Int) (ln dl : Text) (h : ln.length < scol) :
    insAt scol count ln dl = ln ++ List.replicate (scol - ln.length) ' ' ++ rep dl count := by
  unfold insAt ljust
  have hl : (ln ++ List.replicate (scol - ln.length) ' ').length = scol := by simp; omega
  rw [List.take_of_length_le (by omega), List.drop_of_length_le (by omega)]
  simp

/-- **paste_inserts_n_times, BLOCK, stated line by line.**  Every line of the result is: an
    untouched old line (outside the rows of the data), or the old line (an empty line when the block
    reaches below the text) with data line `i` repeated `count` times inserted at the paste column —
    after padding with spaces exactly when the line is shorter than that column. -/
theorem paste_block_exact (b : Buf) (d : Clip) (hty : d.ty = .block) (mode : PasteMode) (count : Int)
    (hpos : 0 < count) :
    let lines := splitOn '\n' b.text
    let ds := splitOn '\n' d.text
    let scol := col b + (if mode = .viBefore then 0 else 1)
    ∃ res, (pasteRaw b d mode count).1 = join ['\n'] res ∧
      res.length = max lines.length (row b + ds.length) ∧
      (∀ j, j < row b ∨ row b + ds.length ≤ j → res[j]? = lines[j]?) ∧
      (∀ i, i < ds.length →
        let ln := (lines[row b + i]?).getD []
        let dl := (ds[i]?).getD []
        res[row b + i]? = some (if scol ≤ ln.length then ln.take scol ++ rep dl count ++ ln.drop scol
                               else ln ++ List.replicate (scol - ln.length) ' ' ++ rep dl count)) := by
  obtain ⟨res, h1, h2, h3, h4, h5⟩ := paste_block b d hty mode count hpos
  refine ⟨res, h1, h2, ?_, ?_⟩
  · intro j hj
    rcases hj with hj | hj
    · exact h3 j hj
    · exact h5 j hj
  · intro i hi
    simp only
    rw [h4 i hi]
    generalize col b + (if mode = PasteMode.viBefore then 0 else 1) = scol
    by_cases hle : scol ≤ ((splitOn '\n' b.text)[row b + i]?.getD []).length
    · rw [if_pos hle, insAt_no_pad _ _ _ _ hle]
    · rw [if_neg hle, insAt_pad _ _ _ _ (by omega)]

example : (pasteRaw { text := "abcd\nx".toList, cur := 1 } ⟨"12\n34\n5".toList, .block⟩ .viAfter 1).1
    = "ab12cd\nx 34\n  5".toList := by decide

/-! ### which Vi command touches which register -/

/-- **Register frame.**  Only a visual `y` / `d` with a `"r` prefix changes a named register; every
    other modelled command (x X s D C dd yy p P "rp "rP, visual x / y / d without prefix, cursor jumps)
    leaves all named registers as they are — in particular the numbered registers `"0 … "9` are
    ordinary registers: nothing is shifted into them. -/
theorem vstep_regs_frame (mx : Nat) (s : VSt) (count : Option Nat) (cmd : VCmd)
    (h : ∀ ty a c act r, cmd = .vis ty a c act (some r) → act = .x) :
    (vstep mx s count cmd).regs = s.regs := by
  cases cmd with
  | vis ty a c act reg =>
    cases reg with
    | none => cases act <;> simp [vstep]
    | some r => have := h ty a c act r rfl; subst this; simp [vstep]
  | x => simp only [vstep]; split <;> split <;> rfl
  | X => simp only [vstep]; split <;> split <;> rfl
  | regP c before =>
    simp only [vstep]
    split
    · split <;> rfl
    · rfl
  | _ => simp [vstep]

/-- **Invalid register names** (uppercase letters, punctuation, …: everything outside
    `vi_register_names`): `"Ry` stores nothing anywhere, `"Rd` stores nothing either (as the code is
    now it nevertheless deletes the selection; with the repair proposed by C08 it does nothing),
    `"Rp` / `"RP` paste nothing. -/
theorem invalid_register_name (mx : Nat) (s : VSt) (count : Option Nat) (r : Char) (hr : isRegName r = false) :
    (∀ ty a c act, act ≠ .x → (vstep mx s count (.vis ty a c act (some r))).regs = s.regs ∧
      (vstep mx s count (.vis ty a c act (some r))).ring = s.ring) ∧
    (∀ before, (vstep mx s count (.regP r before)).buf.text = (if count.isSome then fixNav s.buf else s.buf).text ∧
      (vstep mx s count (.regP r before)).regs = s.regs) := by
  refine ⟨?_, ?_⟩
  · intro ty a c act hact
    cases act
    · exact absurd rfl hact
    · simp [vstep, hr]
    · by_cases hf : Gen.C09.unknownRegDeleteFixed = true <;> simp [vstep, hr, hf]
  · intro before
    simp [vstep, hr, fixNav_text]

example : isRegName 'A' = false ∧ isRegName '%' = false ∧ isRegName 'a' = true ∧ isRegName '0' = true := by decide

-- observed: `"Ad` deletes the selection and stores it nowhere (unless the repair proposed by C08 is in)
example : (vstep 3 exV3 none (.vis .chars 0 4 .d (some 'A'))).buf.text =
      (if Gen.C09.unknownRegDeleteFixed then "hello world".toList else " world".toList) ∧
    (vstep 3 exV3 none (.vis .chars 0 4 .d (some 'A'))).regs = [] ∧
    (vstep 3 exV3 none (.vis .chars 0 4 .d (some 'A'))).ring = [] := by decide


/-! ### visual selections of every type into every register -/

/-- the clipboard data a visual command produces: `x` cuts the selection itself, the operators
    `y` / `d` cut the text object built from it -/
def visData (b : Buf) (ty : SelType) (a c : Nat) (act : VisAct) : Buf × Clip :=
  let b1 := setCursor b a
  let b2 := setCursor b1 c
  match act with
  | .x => cutSelection b.text b2.cur b1.cur ty true
  | _ => textObjectCut b2 b1.cur ty

theorem textObjectCut_ty (b : Buf) (orig : Nat) (ty : SelType) : (textObjectCut b orig ty).2.ty = ty := by
  cases ty <;> simp only [textObjectCut] <;> exact (cutSelection_pieces _ _ _ _ _).2.1

/-- **register_stores_span_with_type, every selection type, every register.**  `v` / `V` / `C-v`
    … `x`, `y`, `d`, `"ry`, `"rd`: the data of the cut (see `cutSelection_chars`, `cutSelection_lines_eq'`,
    `cutSelection_block` for what it is) is stored, with the type of the selection, in the unnamed
    register (no prefix) or in register `r` and nowhere else; `y` leaves the text alone, `x` / `d` leave
    the remaining document of the cut.  Operators (`y`, `d`) skip empty CHARACTERS / BLOCK data. -/
theorem visual_stores_cut_data (mx : Nat) (hmax : 0 < mx) (s : VSt) (ty : SelType) (a c : Nat) (act : VisAct)
    (reg : Option Char) (hreg : ∀ r, reg = some r → isRegName r = true ∧ act ≠ .x) :
    let r := visData s.buf ty a c act
    let s' := vstep mx s none (.vis ty a c act reg)
    r.2.ty = ty ∧
    s'.buf.text = (if act = .y then s.buf.text else r.1.text) ∧
    (storable r.2 = true ∨ act = .x →
      match reg with
      | none => getData s'.ring = r.2 ∧ s'.ring = r.2 :: s.ring.take (mx - 1) ∧ s'.regs = s.regs
      | some q => regGet s'.regs q = some r.2 ∧ s'.ring = s.ring ∧
                  ∀ q', q' ≠ q → regGet s'.regs q' = regGet s.regs q') ∧
    (storable r.2 = false → act ≠ .x → s'.ring = s.ring ∧ s'.regs = s.regs) := by
  have hsc : ∀ v : Int, (setCursor (setCursor s.buf a) v).text = s.buf.text := fun v => rfl
  simp only [vstep, Option.isSome_none, Bool.false_eq_true, if_false, visData]
  refine ⟨?_, ?_, ?_, ?_⟩
  · cases act
    · exact (cutSelection_pieces _ _ _ _ _).2.1
    · exact textObjectCut_ty _ _ _
    · exact textObjectCut_ty _ _ _
  · cases reg with
    | none => cases act <;> simp only [fixNav_text, hsc, reduceCtorEq, if_false, if_true]
    | some q =>
      obtain ⟨hr, _⟩ := hreg q rfl
      cases act <;> simp only [fixNav_text, hsc, reduceCtorEq, if_false, if_true, hr, Bool.true_eq_false, and_false]
  · intro hX
    cases reg with
    | none =>
      cases act <;> dsimp only
      · exact ⟨setData_top mx hmax _ _, setData_older mx _ _ hmax, rfl⟩
      · have hs : storable (textObjectCut (setCursor (setCursor s.buf a) c) (setCursor s.buf a).cur ty).2 = true := by
          rcases hX with h | h
          · exact h
          · cases h
        simp only [hs, if_true]
        exact ⟨setData_top mx hmax _ _, setData_older mx _ _ hmax, trivial⟩
      · have hs : storable (textObjectCut (setCursor (setCursor s.buf a) c) (setCursor s.buf a).cur ty).2 = true := by
          rcases hX with h | h
          · exact h
          · cases h
        simp only [hs, if_true]
        exact ⟨setData_top mx hmax _ _, setData_older mx _ _ hmax, trivial⟩
    | some q =>
      obtain ⟨hr, hx⟩ := hreg q rfl
      cases act <;> dsimp only
      · exact absurd rfl hx
      · have hs : storable (textObjectCut (setCursor (setCursor s.buf a) c) (setCursor s.buf a).cur ty).2 = true := by
          rcases hX with h | h
          · exact h
          · cases h
        simp only [hs, hr, and_self, if_true]
        exact ⟨regGet_regSet_same _ _ _, trivial, fun r' h => regGet_regSet_other _ _ _ _ h⟩
      · have hs : storable (textObjectCut (setCursor (setCursor s.buf a) c) (setCursor s.buf a).cur ty).2 = true := by
          rcases hX with h | h
          · exact h
          · cases h
        simp only [hs, hr, and_self, if_true, Bool.true_eq_false, and_false, if_false]
        exact ⟨regGet_regSet_same _ _ _, trivial, fun r' h => regGet_regSet_other _ _ _ _ h⟩
  · intro hX hx
    cases act <;> dsimp only at hX ⊢
    · exact absurd rfl hx
    · cases reg <;> simp [hX]
    · cases reg with
      | none => simp [hX]
      | some q =>
        obtain ⟨hr, _⟩ := hreg q rfl
        simp [hX, hr]

example : (visData exV6.buf .block 1 7 .d).2 = ⟨"bc\nfg".toList, .block⟩ ∧
    regGet (vstep 3 exV6 none (.vis .block 1 7 .d (some 'k'))).regs 'k' = some ⟨"bc\nfg".toList, .block⟩ ∧
    (vstep 3 exV6 none (.vis .lines 6 1 .y (some '7'))).regs = [('7', ⟨"abcd\nefgh".toList, .lines⟩)] := by decide


end Ptk.C09
