/-
  C02 — third audited module: exactly which line the matching-line loops report, the exact target of
  start/end_of_paragraph, trailing empty lines, leading whitespace, and the total clamping
  specification of translate_row_col_to_index.
-/
import Ptk.Props.C02Extra
namespace Ptk.C02
open Ptk.Py

/-! ## 12. matching lines: exactly which line is reported -/

/-- the loop of `find_next/previous_matching_line`, completely: with `count ≥ 1` it reports the
    `min(count, total)`-th matching element (and keeps `res` when nothing matches) -/
theorem matchLoop_exact (f : Text → Bool) (mk : Nat → Int) (count : Int) (hc : 1 ≤ count) (i : Nat)
    (res : Option Int) (ls : List Text) :
    (ls.countP f = 0 → matchLoop f mk count i res ls = res) ∧
    (0 < ls.countP f → ∃ j l, ls[j]? = some l ∧ f l = true ∧
        matchLoop f mk count i res ls = some (mk (i + j)) ∧
        (((ls.take j).countP f : Nat) : Int) + 1 = min count (ls.countP f : Nat)) := by
  induction ls generalizing count i res with
  | nil => simp [matchLoop]
  | cons l ls ih =>
    by_cases hf : f l = true
    · simp only [matchLoop, hf, if_true, List.countP_cons_of_pos]
      refine ⟨by omega, ?_⟩
      intro _
      by_cases h1 : count - 1 = 0
      · simp only [h1, if_true]
        exact ⟨0, l, by simp, hf, by simp, by simp; omega⟩
      · simp only [h1, if_false]
        obtain ⟨i1, i2⟩ := ih (count - 1) (by omega) (i + 1) (some (mk i))
        rcases Nat.eq_zero_or_pos (ls.countP f) with h0 | hpos
        · exact ⟨0, l, by simp, hf, by rw [i1 h0]; simp, by simp; omega⟩
        · obtain ⟨j, l', hj, hfl, hm, hcnt⟩ := i2 hpos
          refine ⟨j + 1, l', by simpa using hj, hfl, ?_, ?_⟩
          · rw [hm]; congr 2; omega
          · simp only [List.take_succ_cons, List.countP_cons_of_pos hf]
            omega
    · have hf' : f l = false := by simpa using hf
      simp only [matchLoop, hf', Bool.false_eq_true, if_false, List.countP_cons_of_neg hf]
      have hc0 : ¬ count = 0 := by omega
      simp only [hc0, if_false]
      obtain ⟨i1, i2⟩ := ih count hc (i + 1) res
      refine ⟨i1, ?_⟩
      intro hpos
      obtain ⟨j, l', hj, hfl, hm, hcnt⟩ := i2 hpos
      refine ⟨j + 1, l', by simpa using hj, hfl, ?_, ?_⟩
      · rw [hm]; congr 2; omega
      · simp only [List.take_succ_cons, List.countP_cons_of_neg hf]
        exact hcnt

/-- **`find_previous_matching_line`, exactly** (count ≥ 1): `None` iff no line above the cursor row
    matches; otherwise the reported row `r'` matches and is the `min(count, total)`-th matching row
    counted upwards from the cursor row (the matching rows strictly between `r'` and the cursor row
    number one less). -/
theorem prevMatchingLine_exact (f : Text → Bool) (d : Doc) (hc : d.cur ≤ d.text.length) (count : Int)
    (hcount : 1 ≤ count) :
    let above := (lines d.text).take (row d)
    (above.countP f = 0 → findPreviousMatchingLine f d count = none) ∧
    (0 < above.countP f → ∃ r' l, r' < row d ∧ (lines d.text)[r']? = some l ∧ f l = true ∧
        findPreviousMatchingLine f d count = some ((r' : Int) - row d) ∧
        (((above.drop (r' + 1)).countP f : Nat) : Int) + 1 = min count (above.countP f : Nat)) := by
  intro above
  have hrow := (views_consistent d hc).1
  simp only [lineCount] at hrow
  have hlen : above.length = row d := by simp [above]; omega
  obtain ⟨h1, h2⟩ := matchLoop_exact f (fun i => -1 - (i : Int)) count hcount 0 none above.reverse
  simp only [List.countP_reverse] at h1 h2
  refine ⟨h1, ?_⟩
  intro hpos
  obtain ⟨j, l, hj, hfl, hm, hcnt⟩ := h2 hpos
  have hjl : j < above.length := by
    rcases Nat.lt_or_ge j above.reverse.length with h | h
    · simpa using h
    · rw [List.getElem?_eq_none h] at hj; cases hj
  rw [List.getElem?_reverse hjl] at hj
  refine ⟨above.length - 1 - j, l, by omega, ?_, hfl, ?_, ?_⟩
  · simp only [above, List.getElem?_take] at hj
    split at hj
    · exact hj
    · cases hj
  · show matchLoop f (fun i => -1 - (i : Int)) count 0 none above.reverse = _
    rw [hm]; congr 1; omega
  · rw [← hcnt]
    congr 2
    rw [List.take_reverse, List.countP_reverse]
    congr 2; omega
example : findPreviousMatchingLine (fun l => l.isEmpty) ⟨['a', '\n', '\n', 'b', '\n', '\n', 'c'], 6⟩ 2 = some (-3) ∧
    findPreviousMatchingLine (fun l => l.isEmpty) ⟨['a', '\n', '\n', 'b', '\n', '\n', 'c'], 6⟩ 5 = some (-3) := by decide

/-- **`find_next_matching_line`, exactly** (count ≥ 1) -/
theorem nextMatchingLine_exact (f : Text → Bool) (d : Doc) (count : Int) (hcount : 1 ≤ count) :
    let below := (lines d.text).drop (row d + 1)
    (below.countP f = 0 → findNextMatchingLine f d count = none) ∧
    (0 < below.countP f → ∃ r' l, row d < r' ∧ (lines d.text)[r']? = some l ∧ f l = true ∧
        findNextMatchingLine f d count = some ((r' : Int) - row d) ∧
        (((below.take (r' - row d - 1)).countP f : Nat) : Int) + 1 = min count (below.countP f : Nat)) := by
  intro below
  obtain ⟨h1, h2⟩ := matchLoop_exact f (fun i => 1 + (i : Int)) count hcount 0 none below
  refine ⟨h1, ?_⟩
  intro hpos
  obtain ⟨j, l, hj, hfl, hm, hcnt⟩ := h2 hpos
  refine ⟨row d + 1 + j, l, by omega, ?_, hfl, ?_, ?_⟩
  · simpa [below, List.getElem?_drop] using hj
  · show matchLoop f (fun i => 1 + (i : Int)) count 0 none below = _
    rw [hm]; congr 1; omega
  · have e : row d + 1 + j - row d - 1 = j := by omega
    rw [e]; exact hcnt
example : findNextMatchingLine (fun l => l.isEmpty) ⟨['a', '\n', '\n', 'b', '\n', '\n', 'c'], 0⟩ 2 = some 3 := by decide

/-! ## 13. the exact target of `start_of_paragraph` / `end_of_paragraph` -/

/-- **`start_of_paragraph(count, before)`, exactly** (count ≥ 1).  If no line above the cursor row is
    blank the motion goes to the start of the document.  Otherwise let `r'` be the
    `min(count, total)`-th blank row counted upwards: the motion goes to row `r'`, at the cursor's
    column clamped to that line, one further (`before = False`), and never forward. -/
theorem startOfParagraph_exact (isSpace : Char → Bool) (d : Doc) (hc : d.cur ≤ d.text.length)
    (count : Int) (hcount : 1 ≤ count) (before : Bool) :
    let above := (lines d.text).take (row d)
    (above.countP (blankLine isSpace) = 0 → (d.cur : Int) + startOfParagraph isSpace d count before = 0) ∧
    (0 < above.countP (blankLine isSpace) → ∃ r' l, r' < row d ∧ (lines d.text)[r']? = some l ∧
        blankLine isSpace l = true ∧
        (((above.drop (r' + 1)).countP (blankLine isSpace) : Nat) : Int) + 1 =
          min count (above.countP (blankLine isSpace) : Nat) ∧
        (d.cur : Int) + startOfParagraph isSpace d count before =
          min (d.cur : Int) ((rowColToIndex d.text r' (col d) : Int) + (if before = true then 0 else 1)) ∧
        indexToPos d.text (rowColToIndex d.text r' (col d)) = (r', min (col d) l.length)) := by
  intro above
  obtain ⟨h1, h2⟩ := prevMatchingLine_exact (blankLine isSpace) d hc count hcount
  constructor
  · intro h0
    simp only [startOfParagraph, h1 h0]; omega
  · intro hpos
    obtain ⟨r', l, hr, hl, hb, hm, hcnt⟩ := h2 hpos
    refine ⟨r', l, hr, hl, hb, hcnt, ?_, ?_⟩
    · have hne : ((r' : Int) - row d) ≠ 0 := by omega
      have e : max 0 ((row d : Int) - -((r' : Int) - row d)) = (r' : Int) := by omega
      simp only [startOfParagraph, hm, hne, ne_eq, not_false_eq_true, if_true, cursorUp, Option.getD_none, e]
      cases before <;> simp <;> omega
    · have hrow := (views_consistent d hc).1
      simp only [lineCount] at hrow
      have hr' : r' < (lines d.text).length := by omega
      rw [rowColToIndex_pos _ _ _ hr']
      have : (lines d.text)[r'] = l := by
        rw [List.getElem?_eq_getElem hr'] at hl; exact Option.some.inj hl
      rw [this]
      congr 1; omega
example : startOfParagraph (· == ' ') ⟨['a', '\n', ' ', ' ', '\n', 'b', 'c'], 7⟩ 1 false = -2 ∧
    startOfParagraph (· == ' ') ⟨['a', '\n', ' ', ' ', '\n', 'b', 'c'], 7⟩ 1 true = -3 ∧
    startOfParagraph (· == ' ') ⟨['a', '\n', ' ', ' ', '\n', 'b', 'c'], 6⟩ 1 true = -3 := by decide

/-- **`end_of_paragraph(count, after)`, exactly** (count ≥ 1) -/
theorem endOfParagraph_exact (isSpace : Char → Bool) (d : Doc) (hc : d.cur ≤ d.text.length)
    (count : Int) (hcount : 1 ≤ count) (after : Bool) :
    let below := (lines d.text).drop (row d + 1)
    (below.countP (blankLine isSpace) = 0 →
        (d.cur : Int) + endOfParagraph isSpace d count after = d.text.length) ∧
    (0 < below.countP (blankLine isSpace) → ∃ r' l, row d < r' ∧ (lines d.text)[r']? = some l ∧
        blankLine isSpace l = true ∧
        (((below.take (r' - row d - 1)).countP (blankLine isSpace) : Nat) : Int) + 1 =
          min count (below.countP (blankLine isSpace) : Nat) ∧
        (d.cur : Int) + endOfParagraph isSpace d count after =
          max (d.cur : Int) ((rowColToIndex d.text r' (col d) : Int) - (if after = true then 0 else 1)) ∧
        indexToPos d.text (rowColToIndex d.text r' (col d)) = (r', min (col d) l.length)) := by
  intro below
  obtain ⟨h1, h2⟩ := nextMatchingLine_exact (blankLine isSpace) d count hcount
  constructor
  · intro h0
    simp only [endOfParagraph, h1 h0, Doc.after, List.length_drop]; omega
  · intro hpos
    obtain ⟨r', l, hr, hl, hb, hm, hcnt⟩ := h2 hpos
    refine ⟨r', l, hr, hl, hb, hcnt, ?_, ?_⟩
    · have hne : ((r' : Int) - row d) ≠ 0 := by omega
      have e : (row d : Int) + ((r' : Int) - row d) = (r' : Int) := by omega
      simp only [endOfParagraph, hm, hne, ne_eq, not_false_eq_true, if_true, cursorDown, Option.getD_none, e]
      cases after <;> simp <;> omega
    · have hr' : r' < (lines d.text).length := by
        rcases Nat.lt_or_ge r' (lines d.text).length with h | h
        · exact h
        · rw [List.getElem?_eq_none h] at hl; cases hl
      rw [rowColToIndex_pos _ _ _ hr']
      have : (lines d.text)[r'] = l := by
        rw [List.getElem?_eq_getElem hr'] at hl; exact Option.some.inj hl
      rw [this]
      congr 1; omega
example : endOfParagraph (· == ' ') ⟨['a', 'b', '\n', ' ', ' ', '\n', 'c'], 1⟩ 1 false = 2 ∧
    endOfParagraph (· == ' ') ⟨['a', 'b', '\n', ' ', ' ', '\n', 'c'], 1⟩ 1 true = 3 ∧
    endOfParagraph (· == ' ') ⟨['a', 'b', '\n', ' ', ' ', '\n', 'c'], 0⟩ 1 true = 3 := by decide

/-! ## 14. trailing empty lines, leading whitespace -/

theorem takeWhile_spec' {α : Type} (p : α → Bool) (l : List α) :
    (∀ j x, j < (l.takeWhile p).length → l[j]? = some x → p x = true) ∧
    (∀ x, l[(l.takeWhile p).length]? = some x → p x = false) ∧
    (l.takeWhile p).length ≤ l.length := by
  induction l with
  | nil => simp
  | cons a as ih =>
    by_cases ha : p a = true
    · simp only [List.takeWhile_cons, ha, if_true, List.length_cons]
      refine ⟨?_, ?_, by omega⟩
      · intro j x hj hx
        cases j with
        | zero => simp at hx; subst hx; exact ha
        | succ j => exact ih.1 j x (by omega) (by simpa using hx)
      · intro x hx; exact ih.2.1 x (by simpa using hx)
    · simp only [List.takeWhile_cons, ha]
      refine ⟨by intro j x hj; simp at hj, ?_, by simp⟩
      intro x hx; simp at hx; subst hx; simpa using ha

/-- **`empty_line_count_at_the_end()`** is the length of the longest all-blank suffix of the lines:
    the last `n` lines are blank (empty or whitespace only) and the line before them, if any, is not -/
theorem emptyLineCountAtEnd_spec (isSpace : Char → Bool) (t : Text) :
    let n := emptyLineCountAtEnd isSpace t
    n ≤ lineCount t ∧
    (∀ j l, lineCount t - n ≤ j → (lines t)[j]? = some l → blankLine isSpace l = true) ∧
    (n < lineCount t → ∀ l, (lines t)[lineCount t - n - 1]? = some l → blankLine isSpace l = false) := by
  intro n
  obtain ⟨h1, h2, h3⟩ := takeWhile_spec' (blankLine isSpace) (lines t).reverse
  simp only [List.length_reverse] at h3
  have hn : n = ((lines t).reverse.takeWhile (blankLine isSpace)).length := rfl
  rw [← hn] at h1 h2 h3
  simp only [lineCount]
  refine ⟨h3, ?_, ?_⟩
  · intro j l hj hl
    have hjl : j < (lines t).length := by
      rcases Nat.lt_or_ge j (lines t).length with h | h
      · exact h
      · rw [List.getElem?_eq_none h] at hl; cases hl
    apply h1 ((lines t).length - 1 - j) l (by omega)
    rw [List.getElem?_reverse (by omega)]
    have : (lines t).length - 1 - ((lines t).length - 1 - j) = j := by omega
    rw [this]; exact hl
  · intro hlt l hl
    apply h2 l
    rw [List.getElem?_reverse (by omega)]
    have : (lines t).length - 1 - n = (lines t).length - n - 1 := by omega
    rw [this]; exact hl
example : emptyLineCountAtEnd (· == ' ') ['a', '\n', ' ', '\n'] = 2 ∧ emptyLineCountAtEnd (· == ' ') ['a'] = 0 := by
  decide

theorem take_length_sub_dropWhile {α : Type} (p : α → Bool) (l : List α) :
    l.take (l.length - (l.dropWhile p).length) = l.takeWhile p := by
  have h := List.takeWhile_append_dropWhile (p := p) (l := l)
  have hl : l.length = (l.takeWhile p).length + (l.dropWhile p).length := by
    have := congrArg List.length h
    rw [List.length_append] at this; omega
  have e : l.length - (l.dropWhile p).length = (l.takeWhile p).length := by omega
  rw [e]
  have := List.take_left' (l₁ := l.takeWhile p) (l₂ := l.dropWhile p) rfl
  rw [h] at this; exact this

/-- **`leading_whitespace_in_current_line`** is the maximal all-whitespace prefix of the current
    line: the line is that prefix followed by `current_line.lstrip()`, every character of it is
    whitespace and the character of the line that follows it (if any) is not -/
theorem leadingWs_spec (isSpace : Char → Bool) (d : Doc) :
    leadingWs isSpace d ++ lstrip isSpace (currentLine d) = currentLine d ∧
    (∀ c ∈ leadingWs isSpace d, isSpace c = true) ∧
    (∀ c, (currentLine d)[(leadingWs isSpace d).length]? = some c → isSpace c = false) ∧
    ((col d : Int) + startOfLine isSpace d true = (leadingWs isSpace d).length) := by
  have e : leadingWs isSpace d = (currentLine d).takeWhile isSpace := by
    simp only [leadingWs, lstrip]; exact take_length_sub_dropWhile _ _
  obtain ⟨h1, h2, h3⟩ := takeWhile_spec' isSpace (currentLine d)
  rw [e]
  refine ⟨List.takeWhile_append_dropWhile, ?_, h2, ?_⟩
  · intro c hc
    have := List.all_takeWhile (p := isSpace) (l := currentLine d)
    rw [List.all_eq_true] at this
    exact this c hc
  · have := List.takeWhile_append_dropWhile (p := isSpace) (l := currentLine d)
    have hl : (currentLine d).length = ((currentLine d).takeWhile isSpace).length + ((currentLine d).dropWhile isSpace).length := by
      have := congrArg List.length this
      rw [List.length_append] at this; omega
    simp only [startOfLine, lstrip, if_true]
    omega
example : leadingWs (· == ' ') ⟨[' ', ' ', 'a', ' '], 3⟩ = [' ', ' '] := by decide

/-! ## 15. `translate_row_col_to_index`: total clamping specification -/

/-- the row `translate_row_col_to_index` really addresses: rows past the end go to the last row,
    negative rows are first looked up the Python way (`lines[row]` wraps around once) and only an
    IndexError falls back to row 0 -/
def effRow (n : Nat) (r : Int) : Nat :=
  if (n : Int) ≤ r then n - 1 else if 0 ≤ r then r.toNat else if -(n : Int) ≤ r then (r + n).toNat else 0

theorem rowColToIndex_effRow (t : Text) (r c : Int) :
    rowColToIndex t r c = rowColToIndex t (effRow (lines t).length r : Int) c := by
  have hne : lines t ≠ [] := splitOn_ne_nil _ _
  have hl : (lineStarts t).length = (lines t).length := by rw [lineStarts_eq, startsOf_length]
  have hpos : 0 < (lines t).length := List.length_pos_iff.mpr hne
  unfold effRow
  split
  · rename_i h; exact rowColToIndex_clamp_row t r c h
  · split
    · congr 1; omega
    · split
      · -- wraps around: lines[row + n]
        rename_i h1 h2 h3
        have hneg : r < 0 := by omega
        have hnn : ¬ (r + ((lines t).length : Int) < 0) := by omega
        have hnn' : ¬ (r + ((lineStarts t).length : Int) < 0) := by rw [hl]; omega
        have hi : (r + ((lines t).length : Int)).toNat < (lines t).length := by omega
        have hi' : (r + ((lines t).length : Int)).toNat < (lineStarts t).length := by omega
        have this : ¬ (((r + ((lines t).length : Int)).toNat : Int) < 0) := by omega
        simp only [rowColToIndex, index?, hneg, if_true, hnn, if_false, hl, this, Int.toNat_natCast,
          List.getElem?_eq_getElem hi, List.getElem?_eq_getElem hi']
      · -- IndexError with a negative row: row 0
        rename_i h1 h2 h3
        have hneg : r < 0 := by omega
        have hnn : (r + ((lines t).length : Int) < 0) := by omega
        have hnn' : (r + ((lineStarts t).length : Int) < 0) := by rw [hl]; omega
        have h00 : ¬ (((0 : Nat) : Int) < 0) := by omega
        simp only [rowColToIndex, index?, hneg, if_true, hnn, hnn', h00, if_false, Int.toNat_natCast]
        cases hL : lines t with
        | nil => exact absurd hL hne
        | cons l ls =>
          cases hS : lineStarts t with
          | nil => rw [hS, hL] at hl; simp at hl
          | cons s ss => simp

/-- **`translate_row_col_to_index(row, col)` for every integer row and column**: the result is a
    valid index, on the effective row, at the column clamped to `0..len(line)` -/
theorem rowColToIndex_total (t : Text) (r c : Int) :
    rowColToIndex t r c ≤ t.length ∧
    ∃ line, (lines t)[effRow (lines t).length r]? = some line ∧
      indexToPos t (rowColToIndex t r c) =
        (effRow (lines t).length r, (max 0 (min c (line.length : Int))).toNat) := by
  have hne : lines t ≠ [] := splitOn_ne_nil _ _
  have hpos : 0 < (lines t).length := List.length_pos_iff.mpr hne
  have hr : effRow (lines t).length r < (lines t).length := by unfold effRow; split <;> (try split) <;> (try split) <;> omega
  refine ⟨rowColToIndex_le t r c, (lines t)[effRow (lines t).length r], List.getElem?_eq_getElem hr, ?_⟩
  rw [rowColToIndex_effRow, rowColToIndex_pos _ _ _ hr]
example : rowColToIndex ['a', 'b', '\n', 'c'] 7 9 = 4 ∧ rowColToIndex ['a', 'b', '\n', 'c'] (-1) 0 = 3 ∧
    rowColToIndex ['a', 'b', '\n', 'c'] (-3) (-5) = 0 ∧ effRow 2 (-1) = 1 ∧ effRow 2 (-3) = 0 := by decide

/-! ## 16b. the remaining views: characters around the cursor, line flags, lines from the current one -/

theorem pre_eq_nil_iff (A : List Text) : pre A = [] ↔ A = [] := by
  cases A with
  | nil => simp [pre]
  | cons a as => simp [pre]

theorem post_eq_nil_iff (B : List Text) : post B = [] ↔ B = [] := by
  cases B with
  | nil => simp [post]
  | cons b bs => simp [post]

theorem mem_pre_nl (A : List Text) (hA : AllNoNL A) : '\n' ∈ pre A ↔ A ≠ [] := by
  cases A with
  | nil => simp [pre]
  | cons a as => simp [pre]

theorem mem_post_nl (B : List Text) : '\n' ∈ post B ↔ B ≠ [] := by
  cases B with
  | nil => simp [post]
  | cons b bs => simp [post]

/-- **the character views and the line flags describe the same text as the line views**:
    `current_char` / `char_before_cursor` are the characters at / before the cursor index (`""` at
    the ends), the cursor is at the end of the line iff nothing of the line follows it, on the
    first (last) line iff no newline precedes (follows) it, and `lines_from_current` are the lines
    from the cursor row on, starting with the current line. -/
theorem flags_consistent (d : Doc) (hc : d.cur ≤ d.text.length) :
    currentChar d = d.text[d.cur]? ∧
    charBefore d = (if d.cur = 0 then none else d.text[d.cur - 1]?) ∧
    (isAtEnd d = true ↔ d.after = []) ∧
    (isAtEndOfLine d = true ↔ lineAfter d = []) ∧
    (onFirstLine d = true ↔ '\n' ∉ d.before) ∧
    (onLastLine d = true ↔ '\n' ∉ d.after) ∧
    linesFromCurrent d = (lines d.text).drop (row d) ∧
    (linesFromCurrent d).head? = some (currentLine d) := by
  obtain ⟨t, i⟩ := d
  simp only at hc
  obtain ⟨A, m1, m2, B, h⟩ := exists_normal' t i hc
  have hlen := h.length
  have hidx := h.idx
  refine ⟨currentChar_eq _, ?_, ?_, ?_, ?_, ?_, rfl, ?_⟩
  · simp only [charBefore, charRel]
    by_cases h0 : i = 0
    · simp [h0]
    · have hn : ¬ ((i : Int) + -1 < 0) := by omega
      have e : ((i : Int) + -1).toNat = i - 1 := by omega
      simp only [hn, if_false, e, h0]
  · simp only [isAtEnd, Doc.after, beq_iff_eq, List.drop_eq_nil_iff]
    omega
  · -- the character under the cursor is the head of `m2 ++ post B`
    have hcc : currentChar ⟨t, i⟩ = (m2 ++ post B)[0]? := by
      rw [currentChar_eq, ← h.drop, List.getElem?_drop]; simp
    simp only [isAtEndOfLine, hcc, h.lineAfter]
    cases m2 with
    | nil =>
      cases B with
      | nil => simp [post]
      | cons b bs => simp [post]
    | cons c cs =>
      have hne : c ≠ '\n' := by
        intro e; exact h.h2 (by simp [e])
      simp [hne]
  · simp only [onFirstLine, h.row, Doc.before, h.take, beq_iff_eq, List.mem_append]
    constructor
    · intro h0
      have : A = [] := List.length_eq_zero_iff.mp h0
      subst this
      simp only [pre, List.not_mem_nil, false_or]
      exact h.h1
    · intro hn
      rcases Nat.eq_zero_or_pos A.length with h0 | hpos
      · exact h0
      · exfalso
        apply hn
        left
        exact (mem_pre_nl A h.hA).2 (by intro e; rw [e] at hpos; simp at hpos)
  · simp only [onLastLine, h.row, lineCount, h.lines, Doc.after, h.drop, beq_iff_eq, List.mem_append,
      List.length_append, List.length_singleton]
    constructor
    · intro h0
      have : B = [] := List.length_eq_zero_iff.mp (by omega)
      subst this
      simp only [post, List.not_mem_nil, or_false]
      exact h.h2
    · intro hn
      rcases Nat.eq_zero_or_pos B.length with h0 | hpos
      · omega
      · exfalso
        apply hn
        right
        exact (mem_post_nl B).2 (by intro e; rw [e] at hpos; simp at hpos)
  · simp only [linesFromCurrent, h.row, h.lines, h.currentLine]
    simp
example : isAtEndOfLine ⟨['a', '\n', 'b'], 1⟩ = true ∧ onLastLine ⟨['a', '\n', 'b'], 1⟩ = false ∧
    charBefore ⟨['a', '\n', 'b'], 0⟩ = none ∧ linesFromCurrent ⟨['a', '\n', 'b'], 2⟩ = [['b']] := by decide

end Ptk.C02
