/-
  C02 — helper lemmas: the run scanner reports ALL maximal runs, in order; word starts / ends as
  Boolean predicates; the list of run starts (ends) is the filtered range of positions.
-/
import Ptk.Props.C02
namespace Ptk.C02
open Ptk.Py

/-! ### the run scanner reports *all* maximal runs, in order -/

theorem sorted_ext : ∀ (l1 l2 : List Nat), l1.Pairwise (· < ·) → l2.Pairwise (· < ·) →
    (∀ x, x ∈ l1 ↔ x ∈ l2) → l1 = l2
  | [], [], _, _, _ => rfl
  | [], b :: bs, _, _, h => by have := (h b).2 (by simp); simp at this
  | a :: as, [], _, _, h => by have := (h a).1 (by simp); simp at this
  | a :: as, b :: bs, h1, h2, h => by
    rw [List.pairwise_cons] at h1 h2
    have hab : a = b := by
      have ha := (h a).1 (by simp)
      have hb := (h b).2 (by simp)
      rcases List.mem_cons.mp ha with e | ha'
      · exact e
      · rcases List.mem_cons.mp hb with e | hb'
        · exact e.symm
        · have := h1.1 b hb'; have := h2.1 a ha'; omega
    subst hab
    congr 1
    apply sorted_ext as bs h1.2 h2.2
    intro x
    constructor
    · intro hx
      rcases List.mem_cons.mp ((h x).1 (by simp [hx])) with e | hx'
      · have := h1.1 x hx; omega
      · exact hx'
    · intro hx
      rcases List.mem_cons.mp ((h x).2 (by simp [hx])) with e | hx'
      · have := h2.1 x hx; omega
      · exact hx'

theorem runsGo_sorted (cl : Char → Nat) (fuel off : Nat) (t : Text) :
    (runsGo cl fuel off t).Pairwise (fun a b => a.2 ≤ b.1) := by
  induction fuel generalizing off t with
  | zero => simp [runsGo]
  | succ f ih =>
    cases t with
    | nil => simp [runsGo]
    | cons c cs =>
      simp only [runsGo]
      split
      · exact ih _ _
      · rw [List.pairwise_cons]
        refine ⟨?_, ih _ _⟩
        intro p hp
        exact (runsGo_ge cl _ _ _ p hp).1

theorem runs_sorted (cl : Char → Nat) (T : Text) :
    ((runs cl T).map (·.1)).Pairwise (· < ·) ∧ ((runs cl T).map (·.2)).Pairwise (· < ·) := by
  have hs := runsGo_sorted cl T.length 0 T
  have hlt : ∀ p ∈ runs cl T, p.1 < p.2 := fun p hp => (runsGo_ge cl _ _ _ p hp).2
  unfold runs at hlt ⊢
  generalize runsGo cl T.length 0 T = L at hs hlt
  induction L with
  | nil => simp
  | cons a as ih =>
    rw [List.pairwise_cons] at hs
    obtain ⟨i1, i2⟩ := ih hs.2 (fun p hp => hlt p (by simp [hp]))
    simp only [List.map_cons, List.pairwise_cons, List.mem_map]
    refine ⟨⟨?_, i1⟩, ⟨?_, i2⟩⟩
    · rintro x ⟨p, hp, rfl⟩
      have := hs.1 p hp; have := hlt a (by simp); omega
    · rintro x ⟨p, hp, rfl⟩
      have := hs.1 p hp; have := hlt p (by simp [hp]); omega

/-- every maximal run of the text is reported by the scanner -/
theorem runsGo_complete (cl : Char → Nat) (T : Text) (fuel off : Nat) (hf : T.length - off ≤ fuel)
    (hpre : off = 0 ∨ ∀ k, k ≠ 0 → clsAt cl T off = some k → clsAt cl T (off - 1) ≠ some k)
    (s e : Nat) (hr : IsRun cl T s e) (hs : off ≤ s) : (s, e) ∈ runsGo cl fuel off (T.drop off) := by
  obtain ⟨hse, k, hk, hall, hleft, hright⟩ := hr
  have hslt : s < T.length := clsAt_some_lt (hall s (Nat.le_refl _) hse)
  induction fuel generalizing off with
  | zero => omega
  | succ f ih =>
    cases hd : T.drop off with
    | nil =>
      have := List.drop_eq_nil_iff.mp hd; omega
    | cons c cs =>
      have hlen : off < T.length := by omega
      have hc : clsAt cl T off = some (cl c) := by
        have := clsAt_drop cl T off 0
        rw [hd] at this
        simpa [clsAt] using this.symm
      have hcs : ∀ j, clsAt cl cs j = clsAt cl T (off + 1 + j) := by
        intro j
        have := clsAt_drop cl T off (j + 1)
        rw [hd, clsAt_cons_succ] at this
        rw [this]; congr 1; omega
      have hcs' : cs = T.drop (off + 1) := by
        have : (T.drop off).drop 1 = cs := by rw [hd]; rfl
        rw [List.drop_drop] at this; exact this.symm
      simp only [runsGo]
      split
      · -- class 0 at `off`: the run starts later
        rename_i hz
        have hne : s ≠ off := by
          intro e0; subst e0
          have := hall s (Nat.le_refl _) hse
          rw [hc, hz] at this; exact hk (Option.some.inj this).symm
        rw [hcs']
        refine ih (off + 1) (by omega) (Or.inr ?_) (by omega)
        intro k' hk' _
        simp only [Nat.add_sub_cancel]
        rw [hc, hz]; intro e0; exact hk' (Option.some.inj e0).symm
      · rename_i hz
        have hspec := prefixLen_spec cl (cl c) cs
        have hle := prefixLen_le cl (cl c) cs
        have hcslen : cs.length = T.length - (off + 1) := by rw [hcs']; simp
        -- all of [off, off+1+n) has class `cl c`
        have hrun : ∀ j, off ≤ j → j < off + 1 + prefixLen cl (cl c) cs → clsAt cl T j = some (cl c) := by
          intro j hj1 hj2
          rcases Nat.eq_or_lt_of_le hj1 with rfl | hlt
          · exact hc
          · have := hspec.1 (j - off - 1) (by omega)
            rw [hcs] at this
            have e0 : off + 1 + (j - off - 1) = j := by omega
            rw [e0] at this; exact this
        have hstop : clsAt cl T (off + 1 + prefixLen cl (cl c) cs) ≠ some (cl c) := by
          have := hspec.2; rw [hcs] at this; exact this
        rcases Nat.eq_or_lt_of_le hs with heq | hlt
        · -- the run starts here: its end is determined
          subst heq
          have hkc : k = cl c := by
            have := hall off (Nat.le_refl _) hse
            rw [hc] at this; exact (Option.some.inj this).symm
          subst hkc
          have hee : e = off + 1 + prefixLen cl (cl c) cs := by
            rcases Nat.lt_trichotomy e (off + 1 + prefixLen cl (cl c) cs) with h | h | h
            · exact absurd (hrun e (by omega) h) hright
            · exact h
            · exact absurd (hall _ (by omega) h) hstop
          rw [hee]; exact List.mem_cons_self
        · -- the run starts after the one that starts here
          have hge : off + 1 + prefixLen cl (cl c) cs ≤ s := by
            rcases Nat.lt_or_ge s (off + 1 + prefixLen cl (cl c) cs) with h | h
            · exfalso
              have a := hrun s (by omega) h
              have b := hrun (s - 1) (by omega) (by omega)
              have c' := hall s (Nat.le_refl _) hse
              rw [a] at c'
              rcases hleft with h0 | hl
              · omega
              · rw [b, Option.some.inj c'] at hl; exact hl rfl
            · exact h
          apply List.mem_cons_of_mem
          have hdrop : cs.drop (prefixLen cl (cl c) cs) = T.drop (off + 1 + prefixLen cl (cl c) cs) := by
            rw [hcs', List.drop_drop]
          rw [hdrop]
          refine ih (off + 1 + prefixLen cl (cl c) cs) (by omega) (Or.inr ?_) hge
          intro k' hk' hkc
          have hprev : clsAt cl T (off + 1 + prefixLen cl (cl c) cs - 1) = some (cl c) :=
            hrun _ (by omega) (by omega)
          rw [hprev]
          intro e0
          rw [hkc] at hstop
          exact hstop (by rw [Option.some.inj e0])

theorem runs_complete (cl : Char → Nat) (T : Text) (s e : Nat) (h : IsRun cl T s e) : (s, e) ∈ runs cl T := by
  have := runsGo_complete cl T T.length 0 (by omega) (Or.inl rfl) s e h (Nat.zero_le _)
  simpa [runs] using this

theorem isStartB_iff (cl : Char → Nat) (T : Text) (p : Nat) : isStartB cl T p = true ↔ IsWordStart cl T p := by
  unfold isStartB IsWordStart
  cases h : clsAt cl T p with
  | none => simp
  | some k =>
    simp only [Bool.and_eq_true, bne_iff_ne, ne_eq, Bool.or_eq_true, beq_iff_eq, Option.some.injEq]
    constructor
    · rintro ⟨hk, h2⟩; exact ⟨k, hk, rfl, h2⟩
    · rintro ⟨k', hk', rfl, h2⟩; exact ⟨hk', h2⟩

theorem isEndB_iff (cl : Char → Nat) (T : Text) (p : Nat) : isEndB cl T p = true ↔ IsWordEnd cl T p := by
  unfold isEndB IsWordEnd
  cases h : clsAt cl T (p - 1) with
  | none => simp
  | some k =>
    simp only [Bool.and_eq_true, decide_eq_true_eq, bne_iff_ne, ne_eq, Option.some.injEq]
    constructor
    · rintro ⟨h1, hk, h2⟩; exact ⟨k, hk, h1, rfl, h2⟩
    · rintro ⟨k', hk', h1, rfl, h2⟩; exact ⟨h1, hk', h2⟩

/-- a word start begins a maximal run -/
theorem exists_run_of_start (cl : Char → Nat) (T : Text) (p : Nat) (h : IsWordStart cl T p) :
    ∃ e, IsRun cl T p e := by
  obtain ⟨k, hk, hp, hleft⟩ := h
  -- extend to the right as long as the class stays `k`
  have key : ∀ n : Nat, (∀ j, p ≤ j → j < p + 1 + n → clsAt cl T j = some k) →
      n ≤ T.length → ∃ e, p < e ∧ (∀ j, p ≤ j → j < e → clsAt cl T j = some k) ∧ clsAt cl T e ≠ some k := by
    intro n
    induction hm : T.length - (p + 1 + n) using Nat.strongRecOn generalizing n with
    | _ m ih =>
      intro hall hn
      by_cases hc : clsAt cl T (p + 1 + n) = some k
      · have hlt := clsAt_some_lt hc
        refine ih (T.length - (p + 1 + (n + 1))) (by omega) (n + 1) rfl ?_ (by omega)
        intro j hj1 hj2
        rcases Nat.lt_or_ge j (p + 1 + n) with h | h
        · exact hall j hj1 h
        · have : j = p + 1 + n := by omega
          rw [this]; exact hc
      · exact ⟨p + 1 + n, by omega, hall, hc⟩
  obtain ⟨e, he1, he2, he3⟩ := key 0 (by intro j hj1 hj2; have : j = p := by omega
                                         rw [this]; exact hp) (Nat.zero_le _)
  exact ⟨e, he1, k, hk, he2, hleft, he3⟩

/-- a word end ends a maximal run -/
theorem exists_run_of_end (cl : Char → Nat) (T : Text) (e : Nat) (h : IsWordEnd cl T e) :
    ∃ s, IsRun cl T s e := by
  obtain ⟨k, hk, h1, hp, hright⟩ := h
  have key : ∀ s0 : Nat, s0 < e → (∀ j, s0 ≤ j → j < e → clsAt cl T j = some k) →
      ∃ s, s < e ∧ (∀ j, s ≤ j → j < e → clsAt cl T j = some k) ∧ (s = 0 ∨ clsAt cl T (s - 1) ≠ some k) := by
    intro s0
    induction s0 using Nat.strongRecOn with
    | _ s0 ih =>
      intro hn hall
      rcases Nat.eq_zero_or_pos s0 with h0 | hpos
      · exact ⟨s0, hn, hall, Or.inl h0⟩
      · by_cases hc : clsAt cl T (s0 - 1) = some k
        · refine ih (s0 - 1) (by omega) (by omega) ?_
          intro j hj1 hj2
          rcases Nat.lt_or_ge j s0 with h | h
          · have : j = s0 - 1 := by omega
            rw [this]; exact hc
          · exact hall j h hj2
        · exact ⟨s0, hn, hall, Or.inr hc⟩
  obtain ⟨s, hs1, hs2, hs3⟩ := key (e - 1) (by omega) (by intro j hj1 hj2; have : j = e - 1 := by omega
                                                          rw [this]; exact hp)
  exact ⟨s, hs1, k, hk, hs2, hs3, hright⟩

theorem IsRun.start {cl : Char → Nat} {T : Text} {s e : Nat} (h : IsRun cl T s e) : IsWordStart cl T s := by
  obtain ⟨hse, k, hk, hall, hleft, _⟩ := h
  exact ⟨k, hk, hall s (Nat.le_refl _) hse, hleft⟩

theorem IsRun.end_ {cl : Char → Nat} {T : Text} {s e : Nat} (h : IsRun cl T s e) : IsWordEnd cl T e := by
  obtain ⟨hse, k, hk, hall, _, hright⟩ := h
  exact ⟨k, hk, by omega, hall (e - 1) (by omega) (by omega), hright⟩

/-- the positions of word starts / word ends, in increasing order -/
def wordStarts (cl : Char → Nat) (T : Text) : List Nat := (List.range T.length).filter (isStartB cl T)
def wordEnds (cl : Char → Nat) (T : Text) : List Nat := (List.range (T.length + 1)).filter (isEndB cl T)

theorem range_filter_sorted (n : Nat) (p : Nat → Bool) : ((List.range n).filter p).Pairwise (· < ·) :=
  List.Pairwise.sublist List.filter_sublist List.pairwise_lt_range

/-- **the run scanner enumerates exactly the word starts, and exactly the word ends, in order** -/
theorem runs_starts (cl : Char → Nat) (T : Text) : (runs cl T).map (·.1) = wordStarts cl T := by
  apply sorted_ext _ _ (runs_sorted cl T).1 (range_filter_sorted _ _)
  intro x
  simp only [List.mem_map, List.mem_filter, List.mem_range, isStartB_iff]
  constructor
  · rintro ⟨p, hp, rfl⟩
    have := (runs_spec cl T p hp).start
    exact ⟨this.lt, this⟩
  · rintro ⟨_, hx⟩
    obtain ⟨e, he⟩ := exists_run_of_start cl T x hx
    exact ⟨(x, e), runs_complete cl T x e he, rfl⟩

theorem runs_ends (cl : Char → Nat) (T : Text) : (runs cl T).map (·.2) = wordEnds cl T := by
  apply sorted_ext _ _ (runs_sorted cl T).2 (range_filter_sorted _ _)
  intro x
  simp only [List.mem_map, List.mem_filter, List.mem_range, isEndB_iff]
  constructor
  · rintro ⟨p, hp, rfl⟩
    have := (runs_spec cl T p hp).end_
    exact ⟨by have := this.le; omega, this⟩
  · rintro ⟨_, hx⟩
    obtain ⟨s, hs⟩ := exists_run_of_end cl T x hx
    exact ⟨(s, x), runs_complete cl T s x hs, rfl⟩

/-! ### generic list facts -/

theorem nth_map {α β : Type} (f : α → β) (L : List α) (count : Int) :
    nth (L.map f) count = (nth L count).map f := by
  unfold nth; split <;> simp

/-- the "skip the word we are on" adjustment selects the count-th run that does not start at 0 -/
theorem nth_adjust_eq (cl : Char → Nat) (X : Text) (count : Int) (hc : 1 ≤ count) :
    nth (runs cl X) (adjustCount (runs cl X) count) = nth ((runs cl X).filter (fun p => decide (1 ≤ p.1))) count := by
  have hs := (runs_sorted cl X).1
  rcases hrs : runs cl X with _ | ⟨⟨s, e⟩, rest⟩
  · simp [adjustCount, nth]
  · rw [hrs] at hs
    simp only [List.map_cons, List.pairwise_cons, List.mem_map] at hs
    have hrest : ∀ p ∈ rest, 1 ≤ p.1 := by
      intro p hp
      have := hs.1 p.1 ⟨p, hp, rfl⟩
      omega
    have hfr : rest.filter (fun p => decide (1 ≤ p.1)) = rest := by
      apply List.filter_eq_self.mpr
      intro p hp; simpa using hrest p hp
    cases s with
    | zero =>
      have h1 : count + 1 ≥ 1 := by omega
      have h2 : count ≥ 1 := hc
      have e1 : (count + 1 - 1).toNat = (count - 1).toNat + 1 := by omega
      simp only [adjustCount, List.filter_cons, hfr, nth, h1, h2, if_true, e1]
      simp
    | succ s =>
      simp only [adjustCount, List.filter_cons, hfr]
      simp

theorem filter_map_fst {α β : Type} (L : List (α × β)) (p : α → Bool) :
    (L.filter (fun x => p x.1)).map (·.1) = (L.map (·.1)).filter p := by
  induction L with
  | nil => rfl
  | cons a as ih =>
    simp only [List.filter_cons, List.map_cons]
    split <;> simp [ih]

/-- `nth` of a filtered range, declaratively: the result is the `count`-th index (in increasing
    order) that satisfies the predicate; `None` iff fewer than `count` indexes do -/
theorem nth_filter_range (P : Nat → Bool) (B : Nat) (count : Int) (hc : 1 ≤ count) :
    (∀ q, nth ((List.range B).filter P) count = some q ↔
        (q < B ∧ P q = true ∧ (((List.range q).filter P).length : Int) + 1 = count)) ∧
    (nth ((List.range B).filter P) count = none ↔ (((List.range B).filter P).length : Int) < count) := by
  have hn : ∀ L : List Nat, nth L count = L[(count - 1).toNat]? := by
    intro L; have h1 : count ≥ 1 := hc; simp only [nth, h1, if_true]
  constructor
  · intro q
    rw [hn]
    induction B with
    | zero => simp
    | succ B ih =>
      rw [List.range_succ, List.filter_append]
      by_cases hP : P B = true
      · simp only [List.filter_cons, hP, if_true, List.filter_nil]
        rcases Nat.lt_or_ge (count - 1).toNat ((List.range B).filter P).length with hlt | hge
        · rw [List.getElem?_append_left hlt, ih]
          constructor
          · rintro ⟨h1, h2, h3⟩; exact ⟨by omega, h2, h3⟩
          · rintro ⟨h1, h2, h3⟩
            refine ⟨?_, h2, h3⟩
            rcases Nat.lt_or_ge q B with h | h
            · exact h
            · exfalso
              -- q = B: then the count would be past the length
              have : q = B := by omega
              subst this; omega
        · rw [List.getElem?_append_right hge]
          constructor
          · intro h
            have hidx : (count - 1).toNat - ((List.range B).filter P).length = 0 := by
              rcases Nat.eq_zero_or_pos ((count - 1).toNat - ((List.range B).filter P).length) with h0 | hp
              · exact h0
              · rw [List.getElem?_eq_none (by simp; omega)] at h; cases h
            rw [hidx] at h
            simp at h; subst h
            exact ⟨by omega, hP, by omega⟩
          · rintro ⟨h1, h2, h3⟩
            rcases Nat.lt_or_ge q B with h | h
            · -- q < B: its rank is below the length of the filtered range
              exfalso
              have hsub : ((List.range q).filter P).length < ((List.range B).filter P).length := by
                have : List.range B = List.range q ++ List.range' q (B - q) := by
                  rw [List.range_eq_range', List.range_eq_range']
                  have := List.range'_append (s := 0) (m := q) (n := B - q) (step := 1)
                  simp only [Nat.zero_add, Nat.one_mul] at this
                  rw [this]; congr 1; omega
                rw [this, List.filter_append, List.length_append]
                have hmem : q ∈ (List.range' q (B - q)).filter P := by
                  simp only [List.mem_filter, List.mem_range'_1]
                  exact ⟨⟨Nat.le_refl _, by omega⟩, h2⟩
                have := List.length_pos_of_mem hmem
                omega
              omega
            · have : q = B := by omega
              subst this
              have hidx : (count - 1).toNat - ((List.range q).filter P).length = 0 := by omega
              rw [hidx]; simp
      · have hP' : P B = false := by simpa using hP
        simp only [List.filter_cons, hP', Bool.false_eq_true, if_false, List.filter_nil, List.append_nil]
        rw [ih]
        constructor
        · rintro ⟨h1, h2, h3⟩; exact ⟨by omega, h2, h3⟩
        · rintro ⟨h1, h2, h3⟩
          refine ⟨?_, h2, h3⟩
          rcases Nat.lt_or_ge q B with h | h
          · exact h
          · have : q = B := by omega
            subst this; rw [hP'] at h2; cases h2
  · rw [hn]
    rw [List.getElem?_eq_none_iff]
    omega

end Ptk.C02
