/-
  C04 — the `KeyBindings` registry (`Ptk.Model.C04KB`): what the two lookups compute, and that the
  memoised lookups always reflect the binding list as it is *now*, after any interleaving of
  add / remove / lookup (the caches are dropped on every change of the list).
-/
import Ptk.Model.C04KB
namespace Ptk.C04

/-! ### the uncached lookups -/

theorem insDesc_perm_mem (x : Binding) (s : List Binding) (y : Binding) :
    y ∈ insDesc x s ↔ y = x ∨ y ∈ s := by
  induction s with
  | nil => simp [insDesc]
  | cons c cs ih =>
    unfold insDesc
    split
    · simp
    · simp [ih]; constructor <;> (intro h; rcases h with h | h | h <;> simp [h])

theorem sortDesc_mem_iff (l : List Binding) (y : Binding) : y ∈ sortDesc l ↔ y ∈ l := by
  induction l with
  | nil => simp [sortDesc]
  | cons x l ih =>
    have : sortDesc (x :: l) = insDesc x (sortDesc l) := rfl
    rw [this, insDesc_perm_mem, ih]; simp

theorem insDesc_length (x : Binding) (s : List Binding) : (insDesc x s).length = s.length + 1 := by
  induction s with
  | nil => rfl
  | cons c cs ih => unfold insDesc; split <;> simp [ih]

theorem sortDesc_length (l : List Binding) : (sortDesc l).length = l.length := by
  induction l with
  | nil => rfl
  | cons x l ih =>
    have : sortDesc (x :: l) = insDesc x (sortDesc l) := rfl
    rw [this, insDesc_length, ih]; rfl

/-- `get_bindings_for_keys` returns exactly the bindings whose key pattern has the length of the
    pressed keys and matches them position by position (equal or `Keys.Any`) — no binding is
    lost or duplicated by the sort -/
theorem matchFor_mem (bs : List Binding) (ks : List Key) (b : Binding) :
    b ∈ matchFor bs ks ↔ b ∈ bs ∧ ks.length = b.keys.length ∧ zipMatch b.keys ks = true := by
  unfold matchFor
  rw [sortDesc_mem_iff, List.mem_filter]
  simp

theorem matchFor_length (bs : List Binding) (ks : List Key) :
    (matchFor bs ks).length =
      (bs.filter fun b => ks.length == b.keys.length && zipMatch b.keys ks).length := by
  unfold matchFor; rw [sortDesc_length]

/-- … ordered by decreasing number of wildcards (most specific last) -/
theorem matchFor_sorted (bs : List Binding) (ks : List Key) :
    (matchFor bs ks).Pairwise fun a b => anyCount b.keys ≤ anyCount a.keys := by
  unfold matchFor
  generalize (bs.filter fun b => ks.length == b.keys.length && zipMatch b.keys ks) = l
  induction l with
  | nil => simp [sortDesc]
  | cons x l ih =>
    have : sortDesc (x :: l) = insDesc x (sortDesc l) := rfl
    rw [this]
    generalize sortDesc l = s at ih
    induction s with
    | nil => simp [insDesc]
    | cons c cs ihs =>
      rw [List.pairwise_cons] at ih
      unfold insDesc
      split
      · next h =>
        rw [List.pairwise_cons]
        refine ⟨?_, List.pairwise_cons.mpr ih⟩
        intro y hy
        rcases List.mem_cons.mp hy with rfl | hy
        · exact h
        · exact Nat.le_trans (ih.1 y hy) h
      · next h =>
        rw [List.pairwise_cons]
        refine ⟨?_, ihs ih.2⟩
        intro y hy
        rcases (insDesc_perm_mem x cs y).mp hy with rfl | hy
        · omega
        · exact ih.1 y hy

/-- `get_bindings_starting_with_keys`: the bindings with a strictly longer pattern whose
    beginning matches, in registration order -/
theorem matchStarting_eq (bs : List Binding) (ks : List Key) :
    matchStarting bs ks = bs.filter fun b => decide (ks.length < b.keys.length) && zipMatch b.keys ks :=
  rfl

/-- a matching position: equal key or the wildcard -/
theorem zipMatch_iff (pat ks : List Key) (h : pat.length = ks.length) :
    zipMatch pat ks = true ↔ ∀ i (h1 : i < pat.length), pat[i] = ks[i]'(h ▸ h1) ∨ pat[i] = Key.any := by
  induction pat generalizing ks with
  | nil => simp [zipMatch]
  | cons p ps ih =>
    cases ks with
    | nil => simp at h
    | cons k ks =>
      simp only [zipMatch, Bool.and_eq_true, Bool.or_eq_true, beq_iff_eq]
      rw [ih ks (by simpa using h)]
      constructor
      · intro ⟨h0, hr⟩ i hi
        cases i with
        | zero => exact h0
        | succ i => exact hr i (by simpa using hi)
      · intro hall
        refine ⟨hall 0 (by simp), ?_⟩
        intro i hi
        exact hall (i + 1) (by simpa using hi)

/-! ### `remove` (mutation while iterating) -/

/-- what `remove` guarantees: a change is reported iff some binding matches; nothing that does
    not match is removed, the survivors keep their order; (matching bindings may survive: the
    element after a removed one is skipped) -/
theorem removeLoop_spec (p : Binding → Bool) (l : List Binding) :
    ((removeLoop p l).2 = true ↔ ∃ b ∈ l, p b = true) ∧
    (removeLoop p l).1.Sublist l ∧
    (removeLoop p l).1.filter (fun b => !p b) = l.filter (fun b => !p b) ∧
    ((removeLoop p l).2 = true → (removeLoop p l).1.length < l.length) := by
  suffices H : ∀ n (l : List Binding), l.length ≤ n →
      ((removeLoop p l).2 = true ↔ ∃ b ∈ l, p b = true) ∧
      (removeLoop p l).1.Sublist l ∧
      (removeLoop p l).1.filter (fun b => !p b) = l.filter (fun b => !p b) ∧
      ((removeLoop p l).2 = true → (removeLoop p l).1.length < l.length) from H l.length l (Nat.le_refl _)
  intro n
  induction n with
  | zero =>
    intro l hl
    have : l = [] := List.eq_nil_of_length_eq_zero (Nat.le_zero.mp hl)
    subst this; simp [removeLoop]
  | succ n ih =>
    intro l hl
    cases l with
    | nil => simp [removeLoop]
    | cons b rest =>
      by_cases hb : p b = true
      · cases rest with
        | nil => simp [removeLoop, hb]
        | cons c rest' =>
          obtain ⟨i1, i2, i3, i4⟩ := ih rest' (by simp at hl; omega)
          simp only [removeLoop, hb, if_true]
          refine ⟨by simp [hb], ?_, ?_, ?_⟩
          · exact (List.Sublist.cons₂ c i2).cons b
          · simp [List.filter_cons, hb, i3]
          · intro _
            have := i2.length_le
            simp; omega
      · obtain ⟨i1, i2, i3, i4⟩ := ih rest (by simp at hl; omega)
        have hdef : removeLoop p (b :: rest) = (b :: (removeLoop p rest).1, (removeLoop p rest).2) := by
          rw [removeLoop.eq_def]; simp [hb]
        rw [hdef]
        refine ⟨?_, i2.cons₂ b, ?_, ?_⟩
        · simp only [Bool.false_eq_true, if_false, List.mem_cons, exists_eq_or_imp]
          rw [i1]; simp [hb]
        · simp [List.filter_cons, hb, i3]
        · intro h; simp at h ⊢; exact i4 h

/-- the skip (observation O1 of DESIGN.md): three bindings of one handler, `remove(handler)`
    leaves the middle one -/
example :
    let b : Nat → Binding := fun k => { keys := [k], hid := 7, filter := .always, eager := .never, isGlobal := .never }
    ((removeLoop (fun x => x.hid == 7) [b 2, b 3, b 5]).1.map (·.keys)) = [[3]] := by decide

/-! ### `SimpleCache` and the cached lookups -/

/-- every stored value is what the getter computes for its key -/
def CacheOK (c : Cache) (f : List Key → List Binding) : Prop := ∀ e ∈ c.data, e.2 = f e.1

theorem cacheOK_empty (f : List Key → List Binding) : CacheOK {} f := by
  intro e he; cases he

theorem Cache.find_ok {c : Cache} {f : List Key → List Binding} (ok : CacheOK c f) {k : List Key}
    {v : List Binding} (h : c.find k = some v) : v = f k := by
  unfold Cache.find at h
  cases hf : c.data.find? (fun e => e.1 == k) with
  | none => simp [hf] at h
  | some e =>
    simp [hf] at h
    have hm := List.mem_of_find?_eq_some hf
    have hk := List.find?_some hf
    simp at hk
    rw [← h, ok e hm, hk]

/-- `SimpleCache.get` returns the getter's value whether or not it was cached, and keeps the
    cache valid — for every `maxsize` (also when the oldest entry is evicted) -/
theorem Cache.get_spec (m : Nat) {c : Cache} {f : List Key → List Binding} (ok : CacheOK c f)
    (k : List Key) (g : Unit → List Binding) (hg : g () = f k) :
    (c.get m k g).2 = f k ∧ CacheOK (c.get m k g).1 f := by
  unfold Cache.get
  cases hf : c.find k with
  | some r => exact ⟨Cache.find_ok ok hf, ok⟩
  | none =>
    simp only []
    have hnew : ∀ e ∈ (k, g ()) :: c.data, e.2 = f e.1 := by
      intro e he
      rcases List.mem_cons.mp he with rfl | he
      · exact hg
      · exact ok e he
    split
    · split
      · refine ⟨hg, ?_⟩
        intro e he
        exact hnew e (List.mem_filter.mp he).1
      · exact ⟨hg, hnew⟩
    · exact ⟨hg, hnew⟩

structure KBOK (k : KB) : Prop where
  okFor : CacheOK k.cFor (matchFor k.bs)
  okStart : CacheOK k.cStart (matchStarting k.bs)

theorem KBOK.fresh (bs : List Binding) (v : Nat) : KBOK { bs := bs, ver := v } :=
  ⟨cacheOK_empty _, cacheOK_empty _⟩

theorem KB.clearCache_ok (k : KB) : KBOK k.clearCache := ⟨cacheOK_empty _, cacheOK_empty _⟩

/-- the memoised `get_bindings_for_keys` equals the uncached lookup over the current list -/
theorem KB.getFor_spec {k : KB} (ok : KBOK k) (ks : List Key) :
    (k.getFor ks).2 = matchFor k.bs ks ∧ KBOK (k.getFor ks).1 ∧ (k.getFor ks).1.bs = k.bs ∧
    (k.getFor ks).1.ver = k.ver := by
  have := Cache.get_spec Gen.C04.maxFor ok.okFor ks (fun _ => matchFor k.bs ks) rfl
  exact ⟨this.1, ⟨this.2, ok.okStart⟩, rfl, rfl⟩

theorem KB.getStarting_spec {k : KB} (ok : KBOK k) (ks : List Key) :
    (k.getStarting ks).2 = matchStarting k.bs ks ∧ KBOK (k.getStarting ks).1 ∧
    (k.getStarting ks).1.bs = k.bs ∧ (k.getStarting ks).1.ver = k.ver := by
  have := Cache.get_spec Gen.C04.maxStart ok.okStart ks (fun _ => matchStarting k.bs ks) rfl
  exact ⟨this.1, ⟨ok.okFor, this.2⟩, rfl, rfl⟩

/-! ### all interleavings of add / remove / lookup on one `KeyBindings` -/

inductive KBOp where
  | add (keys : List Key) (hid : Nat) (filter eager isGlobal : Raw)
  | removeH (hid : Nat)
  | removeK (keys : List Key)
  | lookFor (keys : List Key)
  | lookStart (keys : List Key)

/-- one operation; lookups also return their result -/
def KB.step (k : KB) : KBOp → KB × List Binding
  | .add keys hid f e g => (k.add keys hid f e g, [])
  | .removeH hid => ((k.remove fun b => b.hid == hid).getD k, [])
  | .removeK keys => ((k.remove fun b => listBeq b.keys keys).getD k, [])
  | .lookFor keys => k.getFor keys
  | .lookStart keys => k.getStarting keys

def KB.run (k : KB) (ops : List KBOp) : KB := ops.foldl (fun k op => (k.step op).1) k

theorem KB.step_ok {k : KB} (ok : KBOK k) (op : KBOp) : KBOK (k.step op).1 := by
  cases op with
  | add keys hid f e g =>
    simp only [KB.step, KB.add]
    split
    · exact ok
    · exact KB.clearCache_ok _
  | removeH hid =>
    simp only [KB.step, KB.remove]
    split
    · exact KB.clearCache_ok _
    · exact ok
  | removeK keys =>
    simp only [KB.step, KB.remove]
    split
    · exact KB.clearCache_ok _
    · exact ok
  | lookFor keys => exact (KB.getFor_spec ok keys).2.1
  | lookStart keys => exact (KB.getStarting_spec ok keys).2.1

/-- **Lookups on a `KeyBindings` always reflect the bindings added or removed since**: after
    any sequence of add / remove / (cached) lookups starting from an empty registry, a lookup
    returns exactly the uncached result over the binding list as it is at that moment. -/
theorem kb_lookups_reflect (ops : List KBOp) (ks : List Key) :
    ((KB.run {} ops).getFor ks).2 = matchFor (KB.run {} ops).bs ks ∧
    ((KB.run {} ops).getStarting ks).2 = matchStarting (KB.run {} ops).bs ks := by
  have key : ∀ (k : KB), KBOK k → KBOK (KB.run k ops) := by
    induction ops with
    | nil => intro k ok; exact ok
    | cons op ops ih => intro k ok; exact ih _ (KB.step_ok ok op)
  have ok := key {} (KBOK.fresh [] 0)
  exact ⟨(KB.getFor_spec ok ks).1, (KB.getStarting_spec ok ks).1⟩

/-- the version counter strictly increases whenever the binding list changes -/
theorem KB.step_version (k : KB) (op : KBOp) :
    ((k.step op).1.bs = k.bs ∧ (k.step op).1.ver = k.ver) ∨ (k.step op).1.ver = k.ver + 1 := by
  cases op with
  | add keys hid f e g =>
    simp only [KB.step, KB.add]
    split
    · exact Or.inl ⟨rfl, rfl⟩
    · exact Or.inr rfl
  | removeH hid =>
    simp only [KB.step, KB.remove]
    split
    · exact Or.inr rfl
    · exact Or.inl ⟨rfl, rfl⟩
  | removeK keys =>
    simp only [KB.step, KB.remove]
    split
    · exact Or.inr rfl
    · exact Or.inl ⟨rfl, rfl⟩
  | lookFor keys => exact Or.inl ⟨rfl, rfl⟩
  | lookStart keys => exact Or.inl ⟨rfl, rfl⟩

/-- non-vacuity: a cached lookup, then a removal, then the same lookup again -/
example :
    let ops := [KBOp.add [2] 0 (.b true) (.b false) (.b false), .add [0] 1 (.b true) (.b false) (.b false),
                .lookFor [2], .removeH 0]
    (((KB.run {} ops).getFor [2]).2.map (·.hid)) = [1] ∧
    (((KB.run {} (ops.take 3)).getFor [2]).2.map (·.hid)) = [1, 0] := by decide

end Ptk.C04
