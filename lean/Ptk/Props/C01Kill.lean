/-
  C01 — the readline named commands as LOCAL EDITS (part 2: the word scanner behind
  `_FIND_WORD_RE.finditer` / `_FIND_BIG_WORD_RE.finditer` and `kill-word`).
  All theorems hold for every text, cursor, INTEGER argument and every `\s` classification `sp`.
-/
import Ptk.Props.C01Cmd
namespace Ptk.C01
open Ptk.Py

/-! ### the word scanner: matches are non-empty, inside the text, ordered and disjoint -/

/-- lower bound of the start of every match still to come -/
def wlo (i : Nat) : Option (Nat × Nat) → Nat
  | none => i
  | some (_, st) => st

theorem wscan_bounds (cl : Char → Nat) : ∀ (t : Text) (i : Nat) (o : Option (Nat × Nat)),
    (∀ k st, o = some (k, st) → st < i) →
    ∀ m ∈ wscan cl t i o, m.1 < m.2 ∧ m.2 ≤ i + t.length ∧ wlo i o ≤ m.1 := by
  intro t
  induction t with
  | nil =>
    intro i o ho m hm
    cases o with
    | none => simp [wscan] at hm
    | some p =>
      obtain ⟨k, st⟩ := p
      simp [wscan] at hm
      subst hm
      have := ho k st rfl
      simp [wlo]; omega
  | cons c cs ih =>
    intro i o ho m hm
    cases o with
    | none =>
      simp only [wscan] at hm
      split at hm
      · have := ih (i + 1) none (by intro k st h; cases h) m hm
        simp [wlo] at this ⊢; omega
      · have := ih (i + 1) (some (cl c, i)) (by intro k st h; cases h; omega) m hm
        simp [wlo] at this ⊢; omega
    | some p =>
      obtain ⟨k, st⟩ := p
      have hst := ho k st rfl
      simp only [wscan] at hm
      split at hm
      · have := ih (i + 1) (some (k, st)) (by intro k' st' h; cases h; omega) m hm
        simp [wlo] at this ⊢; omega
      · rw [List.mem_cons] at hm
        rcases hm with rfl | hm
        · simp [wlo]; omega
        · split at hm
          · have := ih (i + 1) none (by intro k st h; cases h) m hm
            simp [wlo] at this ⊢; omega
          · have := ih (i + 1) (some (cl c, i)) (by intro k st h; cases h; omega) m hm
            simp [wlo] at this ⊢; omega

theorem wscan_sorted (cl : Char → Nat) : ∀ (t : Text) (i : Nat) (o : Option (Nat × Nat)),
    (∀ k st, o = some (k, st) → st < i) →
    (wscan cl t i o).Pairwise (fun a b => a.2 ≤ b.1) := by
  intro t
  induction t with
  | nil =>
    intro i o _
    cases o with
    | none => simp [wscan]
    | some p => obtain ⟨k, st⟩ := p; simp [wscan]
  | cons c cs ih =>
    intro i o ho
    cases o with
    | none =>
      simp only [wscan]
      split
      · exact ih _ _ (by intro k st h; cases h)
      · exact ih _ _ (by intro k st h; cases h; omega)
    | some p =>
      obtain ⟨k, st⟩ := p
      have hst := ho k st rfl
      simp only [wscan]
      split
      · exact ih _ _ (by intro k' st' h; cases h; omega)
      · rw [List.pairwise_cons]
        constructor
        · intro m hm
          split at hm
          · have := wscan_bounds cl cs (i + 1) none (by intro k st h; cases h) m hm
            simp [wlo] at this ⊢; omega
          · have := wscan_bounds cl cs (i + 1) (some (cl c, i)) (by intro k st h; cases h; omega) m hm
            simp [wlo] at this ⊢; omega
        · split
          · exact ih _ _ (by intro k st h; cases h)
          · exact ih _ _ (by intro k st h; cases h; omega)

/-- every match of the word pattern is a non-empty stretch inside the scanned text -/
theorem wordMatches_bounds (sp : Char → Bool) (W : Bool) (t : Text) :
    ∀ m ∈ wordMatches sp W t, m.1 < m.2 ∧ m.2 ≤ t.length := by
  intro m hm
  have := wscan_bounds (wcls sp W) t 0 none (by intro k st h; cases h) m hm
  omega

/-- matches are ordered and do not overlap -/
theorem wordMatches_sorted (sp : Char → Bool) (W : Bool) (t : Text) :
    (wordMatches sp W t).Pairwise (fun a b => a.2 ≤ b.1) :=
  wscan_sorted _ _ _ _ (by intro k st h; cases h)

example : wordMatches (fun c => c = ' ') false "ab .. c".toList = [(0, 2), (3, 5), (6, 7)] := by decide


theorem getElem?_mem' {α} {l : List α} {k : Nat} {m : α} (h : l[k]? = some m) : m ∈ l :=
  List.mem_of_getElem? h

/-- a forward word search (argument ≥ 0) lands strictly after the cursor and inside the text -/
theorem findNextWordEndingN_nonneg (sp : Char → Bool) (b : Buf) (arg : Int) (W : Bool) (h0 : 0 ≤ arg)
    (pos : Int) (hp : findNextWordEndingN sp b arg W = some pos) :
    0 < pos ∧ pos.toNat ≤ b.after.length := by
  unfold findNextWordEndingN at hp
  have : ¬ arg < 0 := by omega
  simp only [this, if_false] at hp
  split at hp
  · cases hp
  · rename_i k hk
    cases hm : (wordMatches sp W (b.after.drop 1))[k]? with
    | none => rw [hm] at hp; simp at hp
    | some m =>
      rw [hm] at hp; simp at hp
      have hb := wordMatches_bounds sp W _ m (getElem?_mem' hm)
      simp at hb
      omega

/-- the first element of an ordered list of non-empty stretches is the only one that can start at 0 -/
theorem sorted_start_pos (ms : List (Nat × Nat)) (hs : ms.Pairwise (fun a b => a.2 ≤ b.1))
    (hne : ∀ m ∈ ms, m.1 < m.2) (k : Nat) (m : Nat × Nat) (hk : ms[k + 1]? = some m) : 0 < m.1 := by
  cases ms with
  | nil => simp at hk
  | cons a rest =>
    rw [List.pairwise_cons] at hs
    simp at hk
    have hm : m ∈ rest := getElem?_mem' hk
    have := hs.1 m hm
    have := hne a (by simp)
    omega

/-- a backward word search (`find_previous_word_ending`) never lands after the cursor -/
theorem findPrevWordEndingN_nonpos (sp : Char → Bool) (b : Buf) (count : Nat) (W : Bool) (hc : 0 < count)
    (pos : Int) (hp : findPrevWordEndingN sp b count W = some pos) : pos ≤ 0 := by
  unfold findPrevWordEndingN at hp
  simp only at hp
  generalize hms : wordMatches sp W (List.take 1 b.after ++ b.before.reverse) = ms at hp
  have hs : ms.Pairwise (fun a b => a.2 ≤ b.1) := hms ▸ wordMatches_sorted sp W _
  have hne : ∀ m ∈ ms, m.1 < m.2 := by
    intro m hm; rw [← hms] at hm; exact (wordMatches_bounds sp W _ m hm).1
  cases ms with
  | nil =>
    simp only at hp
    cases count with
    | zero => simp at hp
    | succ k => simp at hp
  | cons a rest =>
    obtain ⟨a1, a2⟩ := a
    cases a1 with
    | zero =>
      -- the first match starts at 0: count += 1, so a later match is taken
      simp only at hp
      cases count with
      | zero => omega
      | succ k =>
        cases hm : ((0, a2) :: rest)[k + 1]? with
        | none => rw [hm] at hp; simp at hp
        | some m =>
          rw [hm] at hp; simp at hp
          have := sorted_start_pos _ hs hne k m hm
          omega
    | succ a1 =>
      simp only at hp
      cases count with
      | zero => simp at hp
      | succ k =>
        dsimp only at hp
        cases hm : ((a1 + 1, a2) :: rest)[k]? with
        | none => rw [hm] at hp; simp at hp
        | some m =>
          rw [hm] at hp; simp at hp
          cases k with
          | zero => simp at hm; subst hm; simp at hp; omega
          | succ k =>
            have := sorted_start_pos _ hs hne k m hm
            omega

/-- `find_start_of_previous_word` points to a position before the cursor, inside the text -/
theorem findStartOfPrevWord_bounds (sp : Char → Bool) (b : Buf) (h : Inv b) (arg : Int) (W : Bool)
    (p : Int) (hp : findStartOfPrevWord sp b arg W = some p) :
    ∃ e : Nat, p = -(e : Int) ∧ 0 < e ∧ e ≤ b.cur := by
  unfold findStartOfPrevWord at hp
  split at hp
  · cases hp
  · split at hp
    · cases hp
    · rename_i k hk
      cases hm : (wordMatches sp W b.before.reverse)[k]? with
      | none => rw [hm] at hp; simp at hp
      | some m =>
        rw [hm] at hp; simp at hp
        have hb := wordMatches_bounds sp W _ m (getElem?_mem' hm)
        have hl := before_length b h
        simp at hb
        exact ⟨m.2, by omega, by omega, by omega⟩


/-- what a local edit leaves before / after the cursor -/
theorem localEdit_sides {b b' : Buf} {m k : Nat} {x : Text} (h : Inv b) (he : LocalEdit b b' m k x) :
    b'.before = b.before.take (b.cur - m) ++ x ∧ b'.after = b.after.drop k := by
  obtain ⟨hm, hk, ht, hc⟩ := he
  have hl := before_length b h
  have hl2 : (b.before.take (b.cur - m) ++ x).length = b'.cur := by
    simp only [List.length_append, List.length_take, hl, hc]; omega
  have ht' : b'.text = (b.before.take (b.cur - m) ++ x) ++ b.after.drop k := by rw [ht]
  constructor
  · show b'.text.take b'.cur = _
    rw [ht', ← hl2, List.take_left']; rfl
  · show b'.text.drop b'.cur = _
    rw [ht', ← hl2, List.drop_left']; rfl

/-! ### kill-word -/

/-- `kill-word` with an argument ≥ 0 (current and fixed code): nothing when there is no such word;
    otherwise exactly the text from the cursor to the end of the arg-th following word goes (it lies
    inside the text: never an oversized count) and is what the command hands to the clipboard -/
theorem killWord_forward (fixed : Bool) (sp : Char → Bool) (b : Buf) (h : Inv b) (arg : Int) (h0 : 0 ≤ arg) :
    match findNextWordEndingN sp b arg false with
    | none => killWord fixed sp b arg = (b, [])
    | some pos => 0 < pos ∧ pos.toNat ≤ b.after.length ∧
        (killWord fixed sp b arg).2 = b.after.take pos.toNat ∧
        LocalEdit b (killWord fixed sp b arg).1 0 pos.toNat [] := by
  cases hf : findNextWordEndingN sp b arg false with
  | none => simp [killWord, hf]
  | some pos =>
    obtain ⟨hp1, hp2⟩ := findNextWordEndingN_nonneg sp b arg false h0 pos hf
    have hk : killWord fixed sp b arg = deleteI b pos := by
      have h1 : pos ≠ 0 := by omega
      have h2 : ¬ pos < 0 := by omega
      simp [killWord, hf, h1, h2]
    obtain ⟨k, hle, hr, hk0, _⟩ := deleteI_local b h pos
    have : k = pos.toNat := by have := hk0 (by omega); omega
    subst this
    simp only []
    rw [hk]
    exact ⟨hp1, hp2, hr, hle⟩

/-- `kill-word` with a NEGATIVE argument, fixed code: it kills backward — exactly the last
    `min(-pos, cursor)` characters before the cursor go (pos ≤ 0 is where `forward-word` would move),
    and nothing after the cursor changes -/
theorem killWord_backward (sp : Char → Bool) (b : Buf) (h : Inv b) (arg : Int) (h0 : arg < 0) :
    match findNextWordEndingN sp b arg false with
    | none => killWord true sp b arg = (b, [])
    | some pos => pos ≤ 0 ∧
        (killWord true sp b arg).2 = b.before.drop (b.cur - min (-pos).toNat b.cur) ∧
        LocalEdit b (killWord true sp b arg).1 (min (-pos).toNat b.cur) 0 [] := by
  cases hf : findNextWordEndingN sp b arg false with
  | none => simp [killWord, hf]
  | some pos =>
    have hp : pos ≤ 0 := by
      unfold findNextWordEndingN at hf
      simp only [h0, if_true] at hf
      exact findPrevWordEndingN_nonpos sp b _ false (by omega) pos hf
    simp only []
    refine ⟨hp, ?_⟩
    by_cases hz : pos = 0
    · subst hz
      have hl := before_length b h
      simp [killWord, hf, LocalEdit, hl]
      simp [before_append_after]
    · have hk : killWord true sp b arg = deleteBefore b (-pos).toNat := by
        have h2 : pos < 0 := by omega
        simp [killWord, hf, hz, h2]
      rw [hk]
      have := deleteBefore_local b h (-pos).toNat
      exact ⟨this.2, this.1⟩

/-- headline: `kill-word` kills only on the side selected by the sign of its argument, only
    characters adjacent to the cursor, and hands back exactly those.  Holds for every argument of
    the fixed code and for the arguments ≥ 0 of the current code (`_partial` region: `fixed = false`
    and `arg < 0`, see `killWord_defect`). -/
theorem killWord_spec (fixed : Bool) (sp : Char → Bool) (b : Buf) (h : Inv b) (arg : Int)
    (hfix : fixed = true ∨ 0 ≤ arg) :
    ∃ m k, LocalEdit b (killWord fixed sp b arg).1 m k [] ∧
      (killWord fixed sp b arg).2 = b.before.drop (b.cur - m) ++ b.after.take k ∧
      (0 ≤ arg → m = 0) ∧ (arg < 0 → k = 0) := by
  have hl := before_length b h
  have hid : LocalEdit b b 0 0 [] := by
    refine ⟨by omega, by omega, ?_, by simp⟩
    simp [before_append_after]
  by_cases h0 : 0 ≤ arg
  · have := killWord_forward fixed sp b h arg h0
    cases hf : findNextWordEndingN sp b arg false with
    | none =>
      rw [hf] at this; simp only [] at this
      rw [this]
      exact ⟨0, 0, hid, by simp [hl], fun _ => rfl, fun _ => rfl⟩
    | some pos =>
      rw [hf] at this; simp only [] at this
      obtain ⟨_, _, hr, he⟩ := this
      exact ⟨0, pos.toNat, he, by simp [hr, hl], fun _ => rfl, fun hn => by omega⟩
  · have hfx : fixed = true := by rcases hfix with hh | hh; exact hh; omega
    subst hfx
    have := killWord_backward sp b h arg (by omega)
    cases hf : findNextWordEndingN sp b arg false with
    | none =>
      rw [hf] at this; simp only [] at this
      rw [this]
      exact ⟨0, 0, hid, by simp [hl], fun _ => rfl, fun _ => rfl⟩
    | some pos =>
      rw [hf] at this; simp only [] at this
      obtain ⟨_, hr, he⟩ := this
      exact ⟨_, 0, he, by simp [hr], fun hn => by omega, fun _ => rfl⟩

/-- fixed code, negative argument: the text after the cursor is untouched -/
theorem killWord_neg_keeps_after (sp : Char → Bool) (b : Buf) (h : Inv b) (arg : Int) (h0 : arg < 0) :
    (killWord true sp b arg).1.after = b.after := by
  obtain ⟨m, k, he, _, _, hk⟩ := killWord_spec true sp b h arg (Or.inl rfl)
  have := (localEdit_sides h he).2
  rw [hk h0] at this
  simpa using this

/-- the current code (before proposed_fixes/C01-kill-word-negative-arg.diff) violates this:
    `Esc - M-d` on `foo |bar baz qux` removes `bar baz qu` AFTER the cursor -/
theorem killWord_defect :
    ∃ (b : Buf) (arg : Int), Inv b ∧ arg < 0 ∧
      (killWord false (fun c => c == ' ') b arg).1.after ≠ b.after :=
  ⟨{ text := "foo bar baz qux".toList, cur := 4 }, -1, by unfold Inv; decide, by decide, by decide⟩

example : killWord false (fun c => c == ' ') { text := "foo bar baz qux".toList, cur := 4 } (-1)
    = ({ text := "foo x".toList, cur := 4 }, "bar baz qu".toList) := by decide
example : killWord true (fun c => c == ' ') { text := "foo bar baz qux".toList, cur := 9 } (-1)
    = ({ text := "foo baraz qux".toList, cur := 7 }, " b".toList) := by decide
example : killWord false (fun c => c == ' ') { text := "foo bar baz".toList, cur := 3 } 2
    = ({ text := "foo".toList, cur := 3 }, " bar baz".toList) := by decide

end Ptk.C01
