/-
  Cross-model agreement, cluster "Document queries and motions": `Document.find` and
  `Document.find_backwards` (src/prompt_toolkit/document.py).

  Canonical model `Ptk.C02` (`find`, `findBackwards`: `nth` of the fuel-based match list
  `finditer`), against
    * `Ptk.C16` : `docFindX` / `docFindBackX` (all parameters, `count : Nat`, direct recursion
      `findNth` on `findFirst`) and the special cases `docFind` / `docFindBack`;
    * `Ptk.C08` : `findFwd` / `findBwd` (one-character needle, case-sensitive,
      include_current_position = False; position list `occ`).
  No hypothesis on `eq`, the text or the cursor is needed.  The count of C16/C08 is a `Nat`; for
  `count < 1` (in particular every negative `Int`) C02 answers `none` (`find_nonpos`,
  `findBackwards_nonpos`), which for `count = 0` is also what the `Nat` models say.
-/
import Ptk.Props.AgreeDocBase
namespace Ptk.AgreeDoc
open Ptk.Py

theorem prefixBy_eq_matchAt (eq : Char → Char → Bool) (sub t : Text) :
    C16.prefixBy eq sub t = C02.matchAt eq sub t := by
  induction sub generalizing t with
  | nil => simp [C16.prefixBy, C02.matchAt]
  | cons a as ih =>
    cases t with
    | nil => simp [C16.prefixBy, C02.matchAt]
    | cons b bs => simp [C16.prefixBy, C02.matchAt, ih]

theorem findFirst_of_match (eq : Char → Char → Bool) (sub t : Text)
    (h : C02.matchAt eq sub t = true) : C16.findFirst eq sub t = some 0 := by
  cases t with
  | nil => simp [C16.findFirst, prefixBy_eq_matchAt, h]
  | cons x xs => simp [C16.findFirst, prefixBy_eq_matchAt, h]

theorem findFirst_cons_nomatch (eq : Char → Char → Bool) (sub : Text) (x : Char) (xs : Text)
    (h : C02.matchAt eq sub (x :: xs) = false) :
    C16.findFirst eq sub (x :: xs) = (C16.findFirst eq sub xs).map (· + 1) := by
  simp [C16.findFirst, prefixBy_eq_matchAt, h]

theorem findFirst_nil_nomatch (eq : Char → Char → Bool) (sub : Text)
    (h : C02.matchAt eq sub [] = false) : C16.findFirst eq sub [] = none := by
  simp [C16.findFirst, prefixBy_eq_matchAt, h]

theorem findNth_cons_nomatch (eq : Char → Char → Bool) (sub : Text) (x : Char) (xs : Text)
    (h : C02.matchAt eq sub (x :: xs) = false) (n : Nat) :
    C16.findNth eq sub n (x :: xs) = (C16.findNth eq sub n xs).map (· + 1) := by
  cases n with
  | zero => simp [C16.findNth]
  | succ k =>
    rw [C16.findNth, C16.findNth, findFirst_cons_nomatch eq sub x xs h]
    cases hf : C16.findFirst eq sub xs with
    | none => simp
    | some s =>
      simp only [Option.map_some]
      by_cases hk : k = 0
      · simp [hk]
      · simp only [hk, if_false, List.length_cons, Nat.add_le_add_iff_right]
        split
        · rfl
        · have : s + 1 + (if sub.isEmpty = true then 1 else sub.length)
              = (s + (if sub.isEmpty = true then 1 else sub.length)) + 1 := by omega
          rw [this, List.drop_succ_cons, Option.map_map]
          congr 1

/-- the `k`-th element of the fuel-based `C02.finditerGo` is the `(k+1)`-th match of `C16.findNth` -/
theorem finditerGo_getElem? (eq : Char → Char → Bool) (sub : Text) (f off : Nat) (t : Text) (k : Nat)
    (hf : t.length + 1 ≤ f) :
    (C02.finditerGo eq sub f off t)[k]? = (C16.findNth eq sub (k + 1) t).map (· + off) := by
  induction f generalizing off t k with
  | zero => omega
  | succ f ih =>
    simp only [C02.finditerGo]
    by_cases hm : C02.matchAt eq sub t = true
    · rw [if_pos hm, C16.findNth, findFirst_of_match eq sub t hm]
      cases k with
      | zero => simp
      | succ k' =>
        simp only [List.getElem?_cons_succ, Nat.succ_ne_zero, if_false, Nat.le_zero, Nat.zero_add]
        by_cases he : sub.isEmpty = true
        · simp only [he, if_true, Bool.true_and]
          cases t with
          | nil => simp
          | cons x cs =>
            simp only [List.length_cons] at hf
            simp [ih (off + 1) cs k' (by omega), Option.map_map, Function.comp_def, Nat.add_comm, Nat.add_left_comm]
        · simp only [he, Bool.false_and, Bool.false_eq_true, if_false]
          have hlen : 1 ≤ sub.length := by
            cases sub with
            | nil => simp at he
            | cons _ _ => simp
          have htl : 1 ≤ t.length := by
            cases t with
            | nil => cases sub <;> simp_all [C02.matchAt]
            | cons _ _ => simp
          rw [ih (off + sub.length) (t.drop sub.length) k' (by simp; omega)]
          simp [Option.map_map, Function.comp_def, Nat.add_comm, Nat.add_left_comm]
    · have hm' : C02.matchAt eq sub t = false := by simpa using hm
      rw [if_neg hm]
      cases t with
      | nil => rw [C16.findNth, findFirst_nil_nomatch eq sub hm']; simp
      | cons x cs =>
        simp only [List.length_cons] at hf
        simp only
        rw [ih (off + 1) cs k (by omega), findNth_cons_nomatch eq sub x cs hm']
        simp [Option.map_map, Function.comp_def, Nat.add_comm, Nat.add_left_comm]


/-- `C02.nth (C02.finditer …) count` for a natural `count` is `C16.findNth … count` -/
theorem nth_finditer (eq : Char → Char → Bool) (sub t : Text) (count : Nat) :
    C02.nth (C02.finditer eq sub t) (count : Int) = C16.findNth eq sub count t := by
  cases count with
  | zero => simp [C02.nth, C16.findNth]
  | succ k =>
    have h1 : ((k + 1 : Nat) : Int) ≥ 1 := by omega
    have h2 : (((k + 1 : Nat) : Int) - 1).toNat = k := by omega
    simp only [C02.nth, h1, if_true, h2, C02.finditer]
    rw [finditerGo_getElem? eq sub _ 0 t k (Nat.le_refl _)]
    simp

/-- negative (and zero) counts: `C02.nth` finds nothing, so `C02.find`/`C02.findBackwards` give `none` -/
theorem find_nth_nonpos {α : Type} (ms : List α) (count : Int) (h : count < 1) : C02.nth ms count = none := by
  simp only [C02.nth]; split
  · omega
  · rfl

/-- document.py::Document.find — `C02.find` with `count < 1` (never `i + 1 == count`) -/
theorem find_nonpos (eq : Char → Char → Bool) (d : C02.Doc) (sub : Text) (inLine incl : Bool) (count : Int)
    (h : count < 1) : C02.find eq d sub inLine incl count = none := by
  simp only [C02.find, C02.findIn, find_nth_nonpos _ count h]
  cases incl <;> simp

/-- document.py::Document.find_backwards — `C02.findBackwards` with `count < 1` -/
theorem findBackwards_nonpos (eq : Char → Char → Bool) (d : C02.Doc) (sub : Text) (inLine : Bool)
    (count : Int) (h : count < 1) : C02.findBackwards eq d sub inLine count = none := by
  simp only [C02.findBackwards, find_nth_nonpos _ count h, Option.map_none]

theorem findNth_one (eq : Char → Char → Bool) (sub t : Text) :
    C16.findNth eq sub 1 t = C16.findFirst eq sub t := by
  rw [C16.findNth]; cases C16.findFirst eq sub t <;> simp

/-- document.py::Document.find — `C02.find` vs `C16.docFindX` (all parameters; `count : Nat`) -/
theorem find_16X (eq : Char → Char → Bool) (t : Text) (cur : Nat) (sub : Text) (inLine incl : Bool)
    (count : Nat) :
    (C16.docFindX eq t cur sub inLine incl count).map (fun (n : Nat) => (n : Int))
      = C02.find eq ⟨t, cur⟩ sub inLine incl (count : Int) := by
  simp only [C16.docFindX, C02.find, C02.findIn, lineAfter_16, nth_finditer]
  have hA : (if inLine = true then C02.lineAfter ⟨t, cur⟩ else List.drop cur t)
      = (if inLine = true then C02.lineAfter ⟨t, cur⟩ else (C02.Doc.mk t cur).after) := rfl
  rw [hA]
  generalize (if inLine = true then C02.lineAfter ⟨t, cur⟩ else (C02.Doc.mk t cur).after) = u
  cases incl with
  | true => simp
  | false =>
    cases u with
    | nil => simp
    | cons x xs => simp [Option.map_map, Function.comp_def]

/-- document.py::Document.find — `C02.find` (count = 1, whole text) vs `C16.docFind` -/
theorem find_16 (eq : Char → Char → Bool) (t : Text) (cur : Nat) (sub : Text) (incl : Bool) :
    (C16.docFind eq t cur sub incl).map (fun (n : Nat) => (n : Int))
      = C02.find eq ⟨t, cur⟩ sub false incl 1 := by
  have h := find_16X eq t cur sub false incl 1
  rw [show ((1 : Nat) : Int) = 1 from rfl] at h
  rw [← h]
  simp [C16.docFind, C16.docFindX, findNth_one]

/-- document.py::Document.find_backwards — `C02.findBackwards` vs `C16.docFindBackX` -/
theorem findBackwards_16X (eq : Char → Char → Bool) (t : Text) (cur : Nat) (sub : Text) (inLine : Bool)
    (count : Nat) :
    C16.docFindBackX eq t cur sub inLine count = C02.findBackwards eq ⟨t, cur⟩ sub inLine (count : Int) := by
  simp only [C16.docFindBackX, C02.findBackwards, lineBefore_16, nth_finditer]
  rfl

/-- document.py::Document.find_backwards — `C02.findBackwards` (count = 1, whole text) vs `C16.docFindBack` -/
theorem findBackwards_16 (eq : Char → Char → Bool) (t : Text) (cur : Nat) (sub : Text) :
    C16.docFindBack eq t cur sub = C02.findBackwards eq ⟨t, cur⟩ sub false 1 := by
  have h := findBackwards_16X eq t cur sub false 1
  rw [show ((1 : Nat) : Int) = 1 from rfl] at h
  rw [← h]
  simp [C16.docFindBack, C16.docFindBackX, findNth_one]


/-! ### C08: single-character needle, case-sensitive -/

/-- the fuel-based scanner on a one-character needle is the position list `C08.occGo` -/
theorem finditerGo_single (c : Char) (f off : Nat) (t : Text) (hf : t.length + 1 ≤ f) :
    C02.finditerGo (· == ·) [c] f off t = C08.occGo c off t := by
  induction t generalizing f off with
  | nil =>
    cases f with
    | zero => omega
    | succ f => simp [C02.finditerGo, C02.matchAt, C08.occGo]
  | cons x xs ih =>
    cases f with
    | zero => omega
    | succ f =>
      simp only [List.length_cons] at hf
      simp only [C02.finditerGo, C02.matchAt, C08.occGo, Bool.and_true, List.isEmpty_cons,
        Bool.false_eq_true, if_false, List.length_cons, List.length_nil, Nat.zero_add,
        List.drop_succ_cons, List.drop_zero, beq_iff_eq]
      rw [ih f (off + 1) (by omega)]
      by_cases h : x = c
      · simp [h]
      · have h' : ¬ c = x := fun e => h e.symm
        simp [h, h']

theorem finditer_single (c : Char) (t : Text) : C02.finditer (· == ·) [c] t = C08.occ c t :=
  finditerGo_single c _ 0 t (Nat.le_refl _)

theorem find_nth_08 {α : Type} (l : List α) (count : Nat) : C08.nth l count = C02.nth l (count : Int) := by
  cases count with
  | zero => simp [C08.nth, C02.nth]
  | succ k =>
    have h1 : ((k + 1 : Nat) : Int) ≥ 1 := by omega
    have h2 : (((k + 1 : Nat) : Int) - 1).toNat = k := by omega
    simp only [C08.nth, C02.nth, h1, h2, if_true, Nat.succ_ne_zero, if_false, Nat.add_sub_cancel]

/-- document.py::Document.find — `C02.find` (one-character needle, include_current_position = False,
    case-sensitive) vs `C08.findFwd` -/
theorem find_08 (d : C08.Doc) (c : Char) (inLine : Bool) (count : Nat) :
    C08.findFwd d c inLine count = C02.find (· == ·) (of08 d) [c] inLine false (count : Int) := by
  simp only [C08.findFwd, C02.find, C02.findIn, lineAfter_08, textAfter_08, finditer_single, find_nth_08,
    Bool.not_false, if_true]

/-- document.py::Document.find_backwards — `C02.findBackwards` (one-character needle, case-sensitive)
    vs `C08.findBwd` -/
theorem findBackwards_08 (d : C08.Doc) (c : Char) (inLine : Bool) (count : Nat) :
    C08.findBwd d c inLine count = C02.findBackwards (· == ·) (of08 d) [c] inLine (count : Int) := by
  simp only [C08.findBwd, C02.findBackwards, lineBefore_08, textBefore_08, List.reverse_cons,
    List.reverse_nil, List.nil_append, finditer_single, find_nth_08, List.length_cons, List.length_nil]
  rfl

end Ptk.AgreeDoc
