/-
  C13 — lemmas about ThreadedHistory with several simultaneous `load()` calls
  (`THn`, `stepN` in `Ptk.Model.C13`).  The property theorems are in `Props/C13.lean`.
-/
import Ptk.Props.C13Threaded
namespace Ptk.C13
open Ptk.Py

def Cons.active (c : Cons) : Prop := c.cpc = .waiting ∨ c.cpc = .reading ∨ c.cpc = .yielding

/-- safety invariant; `R` = what inline loading yields (the reversed store) -/
structure SafeN (R : List Text) (st : THn) : Prop where
  store : st.storage.reverse = R
  pre : st.strs <+: R
  iter : (st.lpc = .iter ∨ st.lpc = .notify ∨ st.lpc = .looping) → st.strs ++ st.remaining = R
  loadedIff : st.loaded = true ↔
    (st.lpc = .notifyFinal ∨ st.lpc = .loopingFinal ∨ st.lpc = .finished)
  full : st.loaded = true → st.strs = R
  called : st.lpc = .called → st.strs = []
  out : ∀ i, (st.cons i).active → (st.cons i).out = R.take (st.cons i).yielded
  ybatch : ∀ i, (st.cons i).cpc = .yielding →
    (st.cons i).out ++ (st.cons i).batch = R.take ((st.cons i).yielded + (st.cons i).batch.length)
  ydone : ∀ i, (st.cons i).cpc = .yielding → (st.cons i).sawDone = true →
    (st.cons i).out ++ (st.cons i).batch = R ∧ st.loaded = true
  done : ∀ i, (st.cons i).cpc = .done → (st.cons i).out = R

theorem safeN_init (old pre : List Text) : SafeN (old ++ pre).reverse (THn.init old pre) := by
  constructor <;> simp [THn.init, Cons.active]

/-- a step that only changes consumer `i` (to `c`) and the registration list -/
theorem safeN_setCons {R : List Text} (st : THn) (h : SafeN R st) (i : Nat) (c : Cons)
    (ev : List Nat)
    (hout : c.active → c.out = R.take c.yielded)
    (hyb : c.cpc = .yielding → c.out ++ c.batch = R.take (c.yielded + c.batch.length))
    (hyd : c.cpc = .yielding → c.sawDone = true → c.out ++ c.batch = R ∧ st.loaded = true)
    (hdone : c.cpc = .done → c.out = R) :
    SafeN R { st.setCons i c with events := ev } := by
  constructor
  · exact h.store
  · exact h.pre
  · exact h.iter
  · exact h.loadedIff
  · exact h.full
  · exact h.called
  · intro j
    have hcj : ({ st.setCons i c with events := ev } : THn).cons j = if j = i then c else st.cons j := rfl
    rw [hcj]
    by_cases hj : j = i
    · simp only [hj, if_true]; exact hout
    · simp only [hj, if_false]; exact h.out j
  · intro j
    have hcj : ({ st.setCons i c with events := ev } : THn).cons j = if j = i then c else st.cons j := rfl
    rw [hcj]
    by_cases hj : j = i
    · simp only [hj, if_true]; exact hyb
    · simp only [hj, if_false]; exact h.ybatch j
  · intro j
    have hcj : ({ st.setCons i c with events := ev } : THn).cons j = if j = i then c else st.cons j := rfl
    rw [hcj]
    by_cases hj : j = i
    · simp only [hj, if_true]; exact hyd
    · simp only [hj, if_false]; exact h.ydone j
  · intro j
    have hcj : ({ st.setCons i c with events := ev } : THn).cons j = if j = i then c else st.cons j := rfl
    rw [hcj]
    by_cases hj : j = i
    · simp only [hj, if_true]; exact hdone
    · simp only [hj, if_false]; exact h.done j

/-- `event.set()` does not touch anything the safety invariant talks about -/
theorem safeN_setEv {R : List Text} (st : THn) (h : SafeN R st) (e : Nat) : SafeN R (st.setEv e) := by
  have := safeN_setCons st h e { st.cons e with ev := true } st.events
    (fun ha => h.out e ha) (fun hy => h.ybatch e hy) (fun hy hd => h.ydone e hy hd)
    (fun hd => h.done e hd)
  exact this

/-- changing only loader-loop bookkeeping (`lpc` among loop states, `nidx`, `ncopy`) -/
theorem safeN_loopfields {R : List Text} (st : THn) (h : SafeN R st) (pc : NPc) (ni : Nat)
    (nc : List Nat)
    (hiter : (pc = .iter ∨ pc = .notify ∨ pc = .looping) → st.strs ++ st.remaining = R)
    (hld : st.loaded = true ↔ (pc = .notifyFinal ∨ pc = .loopingFinal ∨ pc = .finished))
    (hc : pc ≠ .called) :
    SafeN R { st with lpc := pc, nidx := ni, ncopy := nc } := by
  constructor
  · exact h.store
  · exact h.pre
  · exact hiter
  · exact hld
  · exact h.full
  · intro hp; exact absurd hp hc
  · exact h.out
  · exact h.ybatch
  · exact h.ydone
  · exact h.done

theorem safeN_loopStart {R : List Text} (copy : Bool) (st : THn) (h : SafeN R st)
    (inLoop after : NPc)
    (hiter : ∀ pc, (pc = inLoop ∨ pc = after) →
      (pc = .iter ∨ pc = .notify ∨ pc = .looping) → st.strs ++ st.remaining = R)
    (hld : ∀ pc, (pc = inLoop ∨ pc = after) →
      (st.loaded = true ↔ (pc = .notifyFinal ∨ pc = .loopingFinal ∨ pc = .finished)))
    (hc : inLoop ≠ .called ∧ after ≠ .called) :
    SafeN R (loopStart copy st inLoop after) := by
  unfold loopStart
  split
  · exact safeN_loopfields st h after st.nidx st.ncopy (hiter after (Or.inr rfl))
      (hld after (Or.inr rfl)) hc.2
  · rename_i e r _
    split
    · exact safeN_loopfields (st.setEv e) (safeN_setEv st h e) inLoop st.nidx r
        (hiter inLoop (Or.inl rfl)) (hld inLoop (Or.inl rfl)) hc.1
    · exact safeN_loopfields (st.setEv e) (safeN_setEv st h e) inLoop 1 st.ncopy
        (hiter inLoop (Or.inl rfl)) (hld inLoop (Or.inl rfl)) hc.1

theorem safeN_loopNext {R : List Text} (copy : Bool) (st : THn) (h : SafeN R st) (after : NPc)
    (hiter : ∀ pc, (pc = st.lpc ∨ pc = after) →
      (pc = .iter ∨ pc = .notify ∨ pc = .looping) → st.strs ++ st.remaining = R)
    (hld : ∀ pc, (pc = st.lpc ∨ pc = after) →
      (st.loaded = true ↔ (pc = .notifyFinal ∨ pc = .loopingFinal ∨ pc = .finished)))
    (hc : st.lpc ≠ .called ∧ after ≠ .called) :
    SafeN R (loopNext copy st after) := by
  unfold loopNext
  split
  · split
    · exact safeN_loopfields st h after st.nidx st.ncopy (hiter after (Or.inr rfl))
        (hld after (Or.inr rfl)) hc.2
    · rename_i e r _
      exact safeN_loopfields (st.setEv e) (safeN_setEv st h e) st.lpc st.nidx r
        (hiter st.lpc (Or.inl rfl)) (hld st.lpc (Or.inl rfl)) hc.1
  · split
    · exact safeN_loopfields st h after st.nidx st.ncopy (hiter after (Or.inr rfl))
        (hld after (Or.inr rfl)) hc.2
    · rename_i e _
      exact safeN_loopfields (st.setEv e) (safeN_setEv st h e) st.lpc (st.nidx + 1) st.ncopy
        (hiter st.lpc (Or.inl rfl)) (hld st.lpc (Or.inl rfl)) hc.1

theorem safeN_step {R : List Text} (copy : Bool) (st : THn) (h : SafeN R st) (a : StepN) :
    SafeN R (stepN copy st a) := by
  cases a with
  | cstart i =>
    simp only [stepN]
    split
    · have := safeN_setCons st h i { cpc := .waiting, ev := true } (st.events ++ [i])
        (by intro _; simp) (by intro hc; simp at hc) (by intro hc; simp at hc)
        (by intro hc; simp at hc)
      by_cases hn : st.lpc = .notStarted
      · simp only [hn, if_true]
        have h2 := safeN_loopfields _ this .started st.nidx st.ncopy
          (by intro hp; simp at hp)
          (by
            have := h.loadedIff
            simp only [hn] at this
            simp [THn.setCons] at this ⊢
            exact this)
          (by simp)
        exact h2
      · simp only [hn, if_false]
        exact this
    · exact h
  | cwait i =>
    simp only [stepN]
    split
    · rename_i hc
      exact safeN_setCons st h i _ st.events
        (fun _ => h.out i (Or.inl hc.1)) (by intro hy; simp at hy) (by intro hy; simp at hy)
        (by intro hy; simp at hy)
    · exact h
  | cread i =>
    simp only [stepN]
    split
    · rename_i hc
      have hout := h.out i (Or.inr (Or.inl hc))
      have key := take_append_drop_prefix st.strs R h.pre (st.cons i).yielded
      exact safeN_setCons st h i _ st.events
        (fun _ => hout)
        (by
          intro _
          show (st.cons i).out ++ st.strs.drop (st.cons i).yielded = _
          rw [hout, key])
        (by
          intro _ hd
          have hd' : st.loaded = true := hd
          refine ⟨?_, hd'⟩
          show (st.cons i).out ++ st.strs.drop (st.cons i).yielded = R
          rw [hout, h.full hd', List.take_append_drop])
        (by intro hy; simp at hy)
    · exact h
  | cyield i =>
    simp only [stepN]
    split
    · rename_i hc
      have hb := h.ybatch i hc
      have hd := h.ydone i hc
      apply safeN_setCons st h i _ _
      · intro _; exact hb
      · intro hy
        cases hs : (st.cons i).sawDone <;> simp [hs] at hy
      · intro hy
        cases hs : (st.cons i).sawDone <;> simp [hs] at hy
      · intro hy
        cases hs : (st.cons i).sawDone with
        | false => simp [hs] at hy
        | true => exact (hd hs).1
    · exact h
  | lreset =>
    simp only [stepN]
    split
    · rename_i hl
      have hld := h.loadedIff
      constructor
      · exact h.store
      · exact List.nil_prefix
      · intro hp; simp at hp
      · simp only [hl] at hld; simpa using hld
      · intro hd; rw [hld] at hd; simp [hl] at hd
      · intro _; rfl
      · exact h.out
      · exact h.ybatch
      · exact h.ydone
      · exact h.done
    · exact h
  | lsnap =>
    simp only [stepN]
    split
    · rename_i hl
      have hld := h.loadedIff
      constructor
      · exact h.store
      · exact h.pre
      · intro _
        show st.strs ++ st.storage.reverse = R
        rw [h.called hl, h.store]; rfl
      · simp only [hl] at hld; simpa using hld
      · exact h.full
      · intro hp; simp at hp
      · exact h.out
      · exact h.ybatch
      · exact h.ydone
      · exact h.done
    · exact h
  | lappend =>
    simp only [stepN]
    split
    · rename_i hl
      split
      · rename_i x r hr
        have hit := h.iter (Or.inl hl)
        have hld := h.loadedIff
        constructor
        · exact h.store
        · rw [← hit, hr]; exact ⟨r, by simp⟩
        · intro _
          show st.strs ++ [x] ++ r = R
          rw [← hit, hr]; simp
        · simp only [hl] at hld; simpa using hld
        · intro hd; rw [hld] at hd; simp [hl] at hd
        · intro hp; simp at hp
        · exact h.out
        · exact h.ybatch
        · exact h.ydone
        · exact h.done
      · exact h
    · exact h
  | ldone =>
    simp only [stepN]
    split
    · rename_i hl
      have hit := h.iter (Or.inl hl.1)
      constructor
      · exact h.store
      · exact h.pre
      · intro hp; simp at hp
      · simp
      · intro _
        rw [hl.2, List.append_nil] at hit
        exact hit
      · intro hp; simp at hp
      · exact h.out
      · exact h.ybatch
      · intro i hy hs
        exact ⟨(h.ydone i hy hs).1, rfl⟩
      · exact h.done
    · exact h
  | lnotify =>
    simp only [stepN]
    split
    · rename_i hl
      have hit := h.iter (Or.inr (Or.inl hl))
      have hld := h.loadedIff
      apply safeN_loopStart copy st h
      · intro _ _ _; exact hit
      · intro pc hp
        simp only [hl] at hld
        rcases hp with rfl | rfl <;> simpa using hld
      · simp
    · exact h
  | lfinal =>
    simp only [stepN]
    split
    · rename_i hl
      have hld := h.loadedIff
      apply safeN_loopStart copy st h
      · intro pc hp hq
        rcases hp with rfl | rfl <;> simp at hq
      · intro pc hp
        simp only [hl] at hld
        rcases hp with rfl | rfl <;> simpa using hld
      · simp
    · exact h
  | lset =>
    simp only [stepN]
    split
    · rename_i hl
      have hit := h.iter (Or.inr (Or.inr hl))
      have hld := h.loadedIff
      apply safeN_loopNext copy st h
      · intro _ _ _; exact hit
      · intro pc hp
        simp only [hl] at hld hp
        rcases hp with rfl | rfl <;> simpa using hld
      · simp [hl]
    · split
      · rename_i hl
        have hld := h.loadedIff
        apply safeN_loopNext copy st h
        · intro pc hp hq
          simp only [hl] at hp
          rcases hp with rfl | rfl <;> simp at hq
        · intro pc hp
          simp only [hl] at hld hp
          rcases hp with rfl | rfl <;> simpa using hld
        · simp [hl]
      · exact h

theorem safeN_run {R : List Text} (copy : Bool) (st : THn) (h : SafeN R st) (sched : List StepN) :
    SafeN R (runN copy st sched) := by
  induction sched generalizing st with
  | nil => exact h
  | cons a r ih =>
    simp only [runN, List.foldl_cons]
    exact ih (stepN copy st a) (safeN_step copy st h a)

/-! ### no lost wake-up when the notify loops run over a copy -/

/-- a `load()` call that can only continue after its event has been set again -/
def needsWake (c : Cons) : Prop :=
  (c.cpc = .waiting ∧ c.ev = false) ∨ (c.cpc = .yielding ∧ c.sawDone = false ∧ c.ev = false)

theorem needsWake_active (c : Cons) (h : needsWake c) : c.active := by
  rcases h with h | h
  · exact Or.inl h.1
  · exact Or.inr (Or.inr h.1)

structure WakeN (st : THn) : Prop where
  reg : ∀ i, (st.cons i).active → i ∈ st.events
  started : st.lpc = .notStarted → ∀ i, (st.cons i).cpc = .idle
  wake : ∀ i, needsWake (st.cons i) →
    st.lpc ≠ .finished ∧ (st.lpc = .loopingFinal → i ∈ st.ncopy)

theorem wakeN_init (old pre : List Text) : WakeN (THn.init old pre) := by
  constructor <;> simp [THn.init, Cons.active, needsWake]

/-- a consumer step: consumer `i` becomes `c`, the registration list becomes `ev` -/
theorem wakeN_setCons (st : THn) (h : WakeN st) (i : Nat) (c : Cons) (ev : List Nat)
    (hreg : c.active → i ∈ ev)
    (hkeep : ∀ j, j ≠ i → j ∈ st.events → j ∈ ev)
    (hstart : st.lpc = .notStarted → c.cpc = .idle)
    (hwake : needsWake c → st.lpc ≠ .finished ∧ (st.lpc = .loopingFinal → i ∈ st.ncopy)) :
    WakeN { st.setCons i c with events := ev } := by
  have hcj : ∀ j, ({ st.setCons i c with events := ev } : THn).cons j
      = if j = i then c else st.cons j := fun _ => rfl
  constructor
  · intro j
    rw [hcj]
    by_cases hj : j = i
    · simp only [hj, if_true]; exact hreg
    · simp only [hj, if_false]; exact fun ha => hkeep j hj (h.reg j ha)
  · intro hl j
    rw [hcj]
    by_cases hj : j = i
    · simp only [hj, if_true]; exact hstart hl
    · simp only [hj, if_false]; exact h.started hl j
  · intro j
    rw [hcj]
    by_cases hj : j = i
    · simp only [hj, if_true]; exact hwake
    · simp only [hj, if_false]; exact h.wake j

theorem needsWake_setEv (st : THn) (e j : Nat) (h : needsWake ((st.setEv e).cons j)) :
    j ≠ e ∧ needsWake (st.cons j) := by
  have hcj : (st.setEv e).cons j = if j = e then { st.cons e with ev := true } else st.cons j := rfl
  rw [hcj] at h
  by_cases hj : j = e
  · simp only [hj, if_true, needsWake] at h
    simp at h
  · simp only [hj, if_false] at h
    exact ⟨hj, h⟩

theorem active_setEv (st : THn) (e j : Nat) :
    ((st.setEv e).cons j).active ↔ (st.cons j).active := by
  have hcj : (st.setEv e).cons j = if j = e then { st.cons e with ev := true } else st.cons j := rfl
  rw [hcj]
  by_cases hj : j = e
  · simp only [hj, if_true, Cons.active]
  · simp only [hj, if_false]

theorem cpc_setEv (st : THn) (e j : Nat) : ((st.setEv e).cons j).cpc = (st.cons j).cpc := by
  have hcj : (st.setEv e).cons j = if j = e then { st.cons e with ev := true } else st.cons j := rfl
  rw [hcj]
  by_cases hj : j = e
  · simp only [hj, if_true]
  · simp only [hj, if_false]

theorem wakeN_loopStart (st : THn) (h : WakeN st) (inLoop after : NPc)
    (h1 : inLoop ≠ .finished ∧ inLoop ≠ .notStarted)
    (h2 : after ≠ .notStarted ∧ after ≠ .loopingFinal) :
    WakeN (loopStart true st inLoop after) := by
  unfold loopStart
  split
  · rename_i hev
    constructor
    · intro i ha; have := h.reg i ha; simp [hev] at this
    · intro hl; exact absurd hl h2.1
    · intro i hw
      have := h.reg i (needsWake_active _ hw)
      simp [hev] at this
  · rename_i e r hev
    simp only [if_true]
    constructor
    · intro i ha
      exact h.reg i ((active_setEv st e i).mp ha)
    · intro hl; exact absurd hl h1.2
    · intro i hw
      obtain ⟨hie, hw'⟩ := needsWake_setEv st e i hw
      refine ⟨h1.1, fun _ => ?_⟩
      have := h.reg i (needsWake_active _ hw')
      rw [hev] at this
      simp only [List.mem_cons] at this
      rcases this with rfl | this
      · exact absurd rfl hie
      · exact this

theorem wakeN_loopNext (st : THn) (h : WakeN st) (after : NPc)
    (hl : st.lpc = .looping ∨ st.lpc = .loopingFinal)
    (h2 : after ≠ .notStarted ∧ after ≠ .loopingFinal)
    (h3 : after = .finished → st.lpc = .loopingFinal) :
    WakeN (loopNext true st after) := by
  unfold loopNext
  simp only [if_true]
  split
  · rename_i hnc
    constructor
    · exact h.reg
    · intro hl'; exact absurd hl' h2.1
    · intro i hw
      have hp := h.wake i hw
      refine ⟨fun hf => ?_, fun hlf => absurd hlf h2.2⟩
      have := hp.2 (h3 hf)
      simp [hnc] at this
  · rename_i e r hnc
    constructor
    · intro i ha
      exact h.reg i ((active_setEv st e i).mp ha)
    · intro hl' i
      have hl'' : st.lpc = .notStarted := hl'
      rcases hl with hl | hl <;> simp [hl] at hl''
    · intro i hw
      obtain ⟨hie, hw'⟩ := needsWake_setEv st e i hw
      have hp := h.wake i hw'
      refine ⟨hp.1, fun hlf => ?_⟩
      have := hp.2 hlf
      rw [hnc] at this
      simp only [List.mem_cons] at this
      rcases this with rfl | this
      · exact absurd rfl hie
      · exact this

/-- loader steps that leave the consumers alone and end in a state that is neither
    `finished` nor `loopingFinal` nor `notStarted` -/
theorem wakeN_loader (st : THn) (h : WakeN st) (st' : THn)
    (hc : st'.cons = st.cons) (he : st'.events = st.events)
    (hl : st'.lpc ≠ .finished ∧ st'.lpc ≠ .loopingFinal ∧ st'.lpc ≠ .notStarted) : WakeN st' := by
  constructor
  · intro i ha; rw [he]; rw [hc] at ha; exact h.reg i ha
  · intro hn; exact absurd hn hl.2.2
  · intro i _; exact ⟨hl.1, fun hf => absurd hf hl.2.1⟩

theorem wakeN_step {R : List Text} (st : THn) (hs : SafeN R st) (h : WakeN st) (a : StepN) :
    WakeN (stepN true st a) := by
  cases a with
  | cstart i =>
    simp only [stepN]
    split
    · constructor
      · intro j
        dsimp only
        by_cases hj : j = i
        · simp [hj]
        · simp only [hj, if_false]
          intro ha
          have := h.reg j ha
          simp [this]
      · intro hl
        dsimp only at hl
        by_cases hn : st.lpc = .notStarted <;> simp [hn] at hl
      · intro j
        dsimp only
        by_cases hj : j = i
        · simp only [hj, if_true]
          intro hw; simp [needsWake] at hw
        · simp only [hj, if_false]
          intro hw
          have hp := h.wake j hw
          by_cases hn : st.lpc = .notStarted
          · simp [hn]
          · simp only [hn, if_false]; exact hp
    · exact h
  | cwait i =>
    simp only [stepN]
    split
    · rename_i hc
      exact wakeN_setCons st h i _ st.events
        (fun _ => h.reg i (Or.inl hc.1)) (fun _ _ hj => hj)
        (fun hl => by have := h.started hl i; simp [hc.1] at this)
        (fun hw => by simp [needsWake] at hw)
    · exact h
  | cread i =>
    simp only [stepN]
    split
    · rename_i hc
      apply wakeN_setCons st h i _ st.events
      · exact fun _ => h.reg i (Or.inr (Or.inl hc))
      · exact fun _ _ hj => hj
      · exact fun hl => by have := h.started hl i; simp [hc] at this
      · intro hw
        have hld : st.loaded = false := by
          simp only [needsWake] at hw
          rcases hw with hw | hw
          · simp at hw
          · exact hw.2.1
        have hiff := hs.loadedIff
        rw [hld] at hiff
        simp only [Bool.false_eq_true, false_iff, not_or] at hiff
        exact ⟨hiff.2.2, fun hf => absurd hf hiff.2.1⟩
    · exact h
  | cyield i =>
    simp only [stepN]
    split
    · rename_i hc
      apply wakeN_setCons st h i _ _
      · intro ha
        cases hsd : (st.cons i).sawDone with
        | true => simp [Cons.active, hsd] at ha
        | false => simpa [hsd] using h.reg i (Or.inr (Or.inr hc))
      · intro j hj hm
        split
        · exact (List.mem_erase_of_ne hj).mpr hm
        · exact hm
      · exact fun hl => by have := h.started hl i; simp [hc] at this
      · intro hw
        cases hsd : (st.cons i).sawDone with
        | true => simp [needsWake, hsd] at hw
        | false =>
          apply h.wake i
          right
          simp only [needsWake, hsd] at hw
          rcases hw with hw | hw
          · exact ⟨hc, hsd, hw.2⟩
          · simp at hw
    · exact h
  | lreset =>
    simp only [stepN]
    split
    · exact wakeN_loader st h _ rfl rfl (by simp)
    · exact h
  | lsnap =>
    simp only [stepN]
    split
    · exact wakeN_loader st h _ rfl rfl (by simp)
    · exact h
  | lappend =>
    simp only [stepN]
    split
    · split
      · exact wakeN_loader st h _ rfl rfl (by simp)
      · exact h
    · exact h
  | ldone =>
    simp only [stepN]
    split
    · exact wakeN_loader st h _ rfl rfl (by simp)
    · exact h
  | lnotify =>
    simp only [stepN]
    split
    · rename_i hl
      exact wakeN_loopStart st h _ _ (by simp) (by simp)
    · exact h
  | lfinal =>
    simp only [stepN]
    split
    · rename_i hl
      exact wakeN_loopStart st h _ _ (by simp) (by simp)
    · exact h
  | lset =>
    simp only [stepN]
    split
    · rename_i hl
      exact wakeN_loopNext st h _ (Or.inl hl) (by simp) (by simp)
    · split
      · rename_i hl
        exact wakeN_loopNext st h _ (Or.inr hl) (by simp) (fun _ => hl)
      · exact h

theorem wakeN_run {R : List Text} (st : THn) (hs : SafeN R st) (h : WakeN st) (sched : List StepN) :
    WakeN (runN true st sched) := by
  induction sched generalizing st with
  | nil => exact h
  | cons a r ih =>
    simp only [runN, List.foldl_cons]
    exact ih (stepN true st a) (safeN_step true st hs a) (wakeN_step st hs h a)

def isLoadStepN : StepN → Prop
  | .cstart _ => False
  | _ => True

/-- NO LOST WAKE-UP (copy = true): while any `load()` call is in progress, some loader / consumer
    step changes the state -/
theorem no_deadlockN (st : THn) (h : WakeN st) (i : Nat)
    (ha : (st.cons i).active) : ∃ a, isLoadStepN a ∧ stepN true st a ≠ st := by
  have lpc_ne : ∀ a, (stepN true st a).lpc ≠ st.lpc → stepN true st a ≠ st :=
    fun a hn he => hn (by rw [he])
  have cpc_ne : ∀ a, ((stepN true st a).cons i).cpc ≠ (st.cons i).cpc → stepN true st a ≠ st :=
    fun a hn he => hn (by rw [he])
  have loader : st.lpc ≠ .finished → st.lpc ≠ .notStarted → ∃ a, isLoadStepN a ∧ stepN true st a ≠ st := by
    intro hnf hns
    cases hl : st.lpc with
    | notStarted => exact absurd hl hns
    | finished => exact absurd hl hnf
    | started => exact ⟨.lreset, trivial, lpc_ne _ (by simp [stepN, hl])⟩
    | called => exact ⟨.lsnap, trivial, lpc_ne _ (by simp [stepN, hl])⟩
    | iter =>
      cases hr : st.remaining with
      | nil => exact ⟨.ldone, trivial, lpc_ne _ (by simp [stepN, hl, hr])⟩
      | cons x r => exact ⟨.lappend, trivial, lpc_ne _ (by simp [stepN, hl, hr])⟩
    | notify =>
      refine ⟨.lnotify, trivial, lpc_ne _ ?_⟩
      simp only [stepN, hl, if_true, loopStart]
      split <;> simp
    | notifyFinal =>
      refine ⟨.lfinal, trivial, lpc_ne _ ?_⟩
      simp only [stepN, hl, if_true, loopStart]
      split <;> simp
    | looping =>
      refine ⟨.lset, trivial, ?_⟩
      have hstep : stepN true st .lset = loopNext true st .iter := by simp [stepN, hl]
      rw [hstep]
      simp only [loopNext, if_true]
      split
      · exact fun he => by have := congrArg THn.lpc he; simp [hl] at this
      · rename_i e r hnc
        exact fun he => by
          have := congrArg (fun s => s.ncopy.length) he
          simp [hnc] at this
    | loopingFinal =>
      refine ⟨.lset, trivial, ?_⟩
      have hstep : stepN true st .lset = loopNext true st .finished := by simp [stepN, hl]
      rw [hstep]
      simp only [loopNext, if_true]
      split
      · exact fun he => by have := congrArg THn.lpc he; simp [hl] at this
      · rename_i e r hnc
        exact fun he => by
          have := congrArg (fun s => s.ncopy.length) he
          simp [hnc] at this
  have hns : st.lpc ≠ .notStarted := fun hn => by
    have := h.started hn i
    rcases ha with ha | ha | ha <;> simp [this] at ha
  rcases ha with hc | hc | hc
  · by_cases hev : (st.cons i).ev = true
    · refine ⟨.cwait i, trivial, cpc_ne _ ?_⟩
      simp [stepN, hc, hev, THn.setCons]
    · have hev' : (st.cons i).ev = false := by simpa using hev
      exact loader (h.wake i (Or.inl ⟨hc, hev'⟩)).1 hns
  · refine ⟨.cread i, trivial, cpc_ne _ ?_⟩
    simp [stepN, hc, THn.setCons]
  · refine ⟨.cyield i, trivial, cpc_ne _ ?_⟩
    simp only [stepN, hc, if_true, THn.setCons]
    split <;> simp

/-! ### … and the lost wake-up when they run over the live list -/

/-- once the loader thread has ended, a `load()` call waiting on an unset event stays there,
    whatever else happens -/
theorem stuck_step (copy : Bool) (st : THn) (i : Nat) (hl : st.lpc = .finished)
    (hc : (st.cons i).cpc = .waiting) (he : (st.cons i).ev = false) (a : StepN) :
    (stepN copy st a).lpc = .finished ∧ ((stepN copy st a).cons i).cpc = .waiting ∧
      ((stepN copy st a).cons i).ev = false := by
  cases a with
  | cstart j =>
    by_cases hji : j = i
    · subst hji; simp [stepN, hl, hc, he]
    · have hij : ¬ i = j := fun e => hji e.symm
      simp only [stepN]
      split <;> simp [hij, hl, hc, he]
  | cwait j =>
    by_cases hji : j = i
    · subst hji; simp [stepN, hl, hc, he]
    · have hij : ¬ i = j := fun e => hji e.symm
      simp only [stepN]
      split <;> simp [THn.setCons, hij, hl, hc, he]
  | cread j =>
    by_cases hji : j = i
    · subst hji; simp [stepN, hl, hc, he]
    · have hij : ¬ i = j := fun e => hji e.symm
      simp only [stepN]
      split <;> simp [THn.setCons, hij, hl, hc, he]
  | cyield j =>
    by_cases hji : j = i
    · subst hji; simp [stepN, hl, hc, he]
    · have hij : ¬ i = j := fun e => hji e.symm
      simp only [stepN]
      split <;> simp [THn.setCons, hij, hl, hc, he]
  | lreset => simp [stepN, hl, hc, he]
  | lsnap => simp [stepN, hl, hc, he]
  | lappend => simp [stepN, hl, hc, he]
  | lnotify => simp [stepN, hl, hc, he]
  | lset => simp [stepN, hl, hc, he]
  | ldone => simp [stepN, hl, hc, he]
  | lfinal => simp [stepN, hl, hc, he]

theorem stuck_run (copy : Bool) (st : THn) (i : Nat) (hl : st.lpc = .finished)
    (hc : (st.cons i).cpc = .waiting) (he : (st.cons i).ev = false) (sched : List StepN) :
    ((runN copy st sched).cons i).cpc = .waiting := by
  induction sched generalizing st with
  | nil => exact hc
  | cons a r ih =>
    simp only [runN, List.foldl_cons]
    obtain ⟨h1, h2, h3⟩ := stuck_step copy st i hl hc he a
    exact ih (stepN copy st a) h1 h2 h3

end Ptk.C13

/-! ### termination bound (notify loops over a copy) -/

namespace Ptk.C13
open Ptk.Py

def crankN (c : Cons) : Nat :=
  match c.cpc with
  | .waiting => if c.ev then 3 else 0
  | .reading => 2
  | .yielding => if c.ev then 4 else 1
  | _ => 0

def csumL (cons : Nat → Cons) (l : List Nat) : Nat := (l.map (fun i => crankN (cons i))).sum

theorem csumL_update_notin (cons : Nat → Cons) (i : Nat) (c : Cons) (l : List Nat) (h : i ∉ l) :
    csumL (fun j => if j = i then c else cons j) l = csumL cons l := by
  induction l with
  | nil => rfl
  | cons x l ih =>
    simp only [List.mem_cons, not_or] at h
    have hx : ¬ x = i := fun e => h.1 e.symm
    simp only [csumL, List.map_cons, List.sum_cons, hx, if_false] at ih ⊢
    rw [ih h.2]

theorem csumL_update_in (cons : Nat → Cons) (i : Nat) (c : Cons) (l : List Nat) (hn : l.Nodup)
    (h : i ∈ l) :
    csumL (fun j => if j = i then c else cons j) l + crankN (cons i) = csumL cons l + crankN c := by
  induction l with
  | nil => simp at h
  | cons x l ih =>
    have hn' := List.nodup_cons.mp hn
    by_cases hx : x = i
    · subst hx
      have := csumL_update_notin cons x c l hn'.1
      simp only [csumL, List.map_cons, List.sum_cons, if_true] at this ⊢
      rw [this]; omega
    · have hi : i ∈ l := by
        simp only [List.mem_cons] at h
        rcases h with h | h
        · exact absurd h.symm hx
        · exact h
      have := ih hn'.2 hi
      simp only [csumL, List.map_cons, List.sum_cons, hx, if_false] at this ⊢
      omega

theorem csumL_erase (cons : Nat → Cons) (i : Nat) (l : List Nat) (h : i ∈ l) :
    csumL cons (l.erase i) + crankN (cons i) = csumL cons l := by
  induction l with
  | nil => simp at h
  | cons x l ih =>
    by_cases hx : x = i
    · subst hx
      simp [csumL, Nat.add_comm]
    · have hi : i ∈ l := by
        simp only [List.mem_cons] at h
        rcases h with h | h
        · exact absurd h.symm hx
        · exact h
      have := ih hi
      rw [List.erase_cons_tail (by simpa using hx)]
      simp only [csumL, List.map_cons, List.sum_cons] at this ⊢
      omega

end Ptk.C13

namespace Ptk.C13
open Ptk.Py

/-- the registration list has no duplicates and holds exactly the `load()` calls in progress -/
structure RegN (st : THn) : Prop where
  nodup : st.events.Nodup
  reg : ∀ i, i ∈ st.events ↔ (st.cons i).active

theorem regN_init (old pre : List Text) : RegN (THn.init old pre) := by
  constructor <;> simp [THn.init, Cons.active]

theorem regN_setCons (st : THn) (h : RegN st) (i : Nat) (c : Cons)
    (hact : c.active ↔ (st.cons i).active) : RegN (st.setCons i c) := by
  constructor
  · exact h.nodup
  · intro j
    show j ∈ st.events ↔ (if j = i then c else st.cons j).active
    by_cases hj : j = i
    · simp only [hj, if_true]; rw [hact]; exact h.reg i
    · simp only [hj, if_false]; exact h.reg j

theorem regN_setEv (st : THn) (h : RegN st) (e : Nat) : RegN (st.setEv e) :=
  regN_setCons st h e _ (by simp [Cons.active])

theorem regN_fields (st st' : THn) (h : RegN st) (hc : st'.cons = st.cons)
    (he : st'.events = st.events) : RegN st' := by
  constructor
  · rw [he]; exact h.nodup
  · intro i; rw [he, hc]; exact h.reg i

theorem regN_loopStart (copy : Bool) (st : THn) (h : RegN st) (a b : NPc) :
    RegN (loopStart copy st a b) := by
  unfold loopStart
  split
  · exact regN_fields st _ h rfl rfl
  · rename_i e r _
    split
    · exact regN_fields (st.setEv e) _ (regN_setEv st h e) rfl rfl
    · exact regN_fields (st.setEv e) _ (regN_setEv st h e) rfl rfl

theorem regN_loopNext (copy : Bool) (st : THn) (h : RegN st) (b : NPc) :
    RegN (loopNext copy st b) := by
  unfold loopNext
  split
  · split
    · exact regN_fields st _ h rfl rfl
    · rename_i e r _
      exact regN_fields (st.setEv e) _ (regN_setEv st h e) rfl rfl
  · split
    · exact regN_fields st _ h rfl rfl
    · rename_i e _
      exact regN_fields (st.setEv e) _ (regN_setEv st h e) rfl rfl

theorem regN_step (copy : Bool) (st : THn) (h : RegN st) (a : StepN) : RegN (stepN copy st a) := by
  cases a with
  | cstart i =>
    simp only [stepN]
    split
    · rename_i hc
      have hni : i ∉ st.events := fun hm => by
        have := (h.reg i).mp hm
        simp [Cons.active, hc] at this
      constructor
      · show (st.events ++ [i]).Nodup
        rw [List.nodup_append]
        refine ⟨h.nodup, by simp, ?_⟩
        intro a ha b hb
        simp only [List.mem_singleton] at hb
        subst hb
        exact fun e => hni (e ▸ ha)
      · intro j
        show j ∈ st.events ++ [i] ↔ (if j = i then ({ cpc := .waiting, ev := true } : Cons) else st.cons j).active
        by_cases hj : j = i
        · simp [hj, Cons.active]
        · simp only [hj, if_false, List.mem_append, List.mem_singleton, or_false]
          exact h.reg j
    · exact h
  | cwait i =>
    simp only [stepN]
    split
    · rename_i hc
      exact regN_setCons st h i _ (by simp [Cons.active, hc.1])
    · exact h
  | cread i =>
    simp only [stepN]
    split
    · rename_i hc
      exact regN_setCons st h i _ (by simp [Cons.active, hc])
    · exact h
  | cyield i =>
    simp only [stepN]
    split
    · rename_i hc
      cases hs : (st.cons i).sawDone with
      | false =>
        simp only [Bool.false_eq_true, if_false]
        exact regN_setCons st h i _ (by simp [Cons.active, hc])
      | true =>
        simp only [if_true]
        constructor
        · exact h.nodup.erase i
        · intro j
          show j ∈ st.events.erase i ↔ (if j = i then _ else st.cons j).active
          by_cases hj : j = i
          · subst hj
            simp only [if_true]
            constructor
            · intro hm; exact absurd hm (List.Nodup.not_mem_erase h.nodup)
            · intro ha; simp [Cons.active] at ha
          · simp only [hj, if_false]
            rw [List.mem_erase_of_ne hj]
            exact h.reg j
    · exact h
  | lreset => simp only [stepN]; split <;> first | exact h | exact regN_fields st _ h rfl rfl
  | lsnap => simp only [stepN]; split <;> first | exact h | exact regN_fields st _ h rfl rfl
  | lappend =>
    simp only [stepN]
    split
    · split
      · exact regN_fields st _ h rfl rfl
      · exact h
    · exact h
  | ldone => simp only [stepN]; split <;> first | exact h | exact regN_fields st _ h rfl rfl
  | lnotify => simp only [stepN]; split <;> first | exact h | exact regN_loopStart copy st h _ _
  | lfinal => simp only [stepN]; split <;> first | exact h | exact regN_loopStart copy st h _ _
  | lset =>
    simp only [stepN]
    split
    · exact regN_loopNext copy st h _
    · split
      · exact regN_loopNext copy st h _
      · exact h

end Ptk.C13

namespace Ptk.C13
open Ptk.Py

/-- loader steps still to come, given `E` registered `load()` calls -/
def lrankE (E : Nat) (st : THn) : Nat :=
  match st.lpc with
  | .notStarted => 0
  | .started => (st.storage.length + 1) * (E + 2) + 2
  | .called => (st.storage.length + 1) * (E + 2) + 1
  | .iter => (st.remaining.length + 1) * (E + 2)
  | .notify => (st.remaining.length + 1) * (E + 2) + E + 1
  | .looping => (st.remaining.length + 1) * (E + 2) + st.ncopy.length + 1
  | .notifyFinal => E + 1
  | .loopingFinal => st.ncopy.length + 1
  | .finished => 0

def budgetN (st : THn) : Nat := 4 * lrankE st.events.length st + csumL st.cons st.events

theorem lrankE_mono (E' E : Nat) (h : E' ≤ E) (st : THn) : lrankE E' st ≤ lrankE E st := by
  unfold lrankE
  have hm : ∀ k, k * (E' + 2) ≤ k * (E + 2) := fun k => Nat.mul_le_mul_left k (by omega)
  split <;> first | omega | (have := hm (st.storage.length + 1); omega) |
    (have := hm (st.remaining.length + 1); omega)

def withEv (c : Cons) : Cons := { c with ev := true }

theorem setEv_cons (st : THn) (e : Nat) :
    (st.setEv e).cons = fun j => if j = e then withEv (st.cons e) else st.cons j := rfl

theorem crankN_withEv (c : Cons) : crankN (withEv c) ≤ crankN c + 3 := by
  unfold crankN withEv
  cases c.cpc <;> cases c.ev <;> simp

theorem csumL_setEv (st : THn) (h : RegN st) (e : Nat) :
    csumL (st.setEv e).cons st.events ≤ csumL st.cons st.events + 3 := by
  rw [setEv_cons]
  by_cases he : e ∈ st.events
  · have := csumL_update_in st.cons e (withEv (st.cons e)) st.events h.nodup he
    have h2 := crankN_withEv (st.cons e)
    omega
  · have := csumL_update_notin st.cons e (withEv (st.cons e)) st.events he
    omega

/-- a consumer step that keeps the registration and lowers the consumer's own rank -/
theorem budgetN_setCons (st : THn) (h : RegN st) (i : Nat) (c : Cons) (ha : (st.cons i).active)
    (hlt : crankN c < crankN (st.cons i)) :
    budgetN (st.setCons i c) < budgetN st := by
  have hi := (h.reg i).mpr ha
  have := csumL_update_in st.cons i c st.events h.nodup hi
  have hl : lrankE st.events.length (st.setCons i c) = lrankE st.events.length st := rfl
  show 4 * lrankE st.events.length (st.setCons i c)
      + csumL (fun j => if j = i then c else st.cons j) st.events < _
  unfold budgetN
  rw [hl]
  omega

end Ptk.C13

namespace Ptk.C13
open Ptk.Py

theorem budgetN_loader (st st' : THn) (hE : st'.events = st.events)
    (hcs : csumL st'.cons st.events ≤ csumL st.cons st.events + 3)
    (hr : lrankE st.events.length st' < lrankE st.events.length st) :
    budgetN st' < budgetN st := by
  unfold budgetN
  rw [hE]
  omega

theorem budgetN_loopStart (st : THn) (h : RegN st) (inLoop after : NPc)
    (hcase : (st.lpc = .notify ∧ inLoop = .looping ∧ after = .iter) ∨
             (st.lpc = .notifyFinal ∧ inLoop = .loopingFinal ∧ after = .finished)) :
    budgetN (loopStart true st inLoop after) < budgetN st := by
  unfold loopStart
  split
  · rename_i hev
    apply budgetN_loader st
    · rfl
    · simp
    · rcases hcase with ⟨hl, _, ha⟩ | ⟨hl, _, ha⟩ <;> simp [lrankE, hl, ha, hev]
  · rename_i e r hev
    simp only [if_true]
    apply budgetN_loader st
    · rfl
    · exact csumL_setEv st h e
    · rcases hcase with ⟨hl, hi, _⟩ | ⟨hl, hi, _⟩
      · simp only [lrankE, hl, hi, hev, List.length_cons]
        show (st.remaining.length + 1) * (r.length + 1 + 2) + r.length + 1 < _
        omega
      · simp only [lrankE, hl, hi, hev, List.length_cons]
        show r.length + 1 < _
        omega

theorem budgetN_loopNext (st : THn) (h : RegN st) (after : NPc)
    (hcase : (st.lpc = .looping ∧ after = .iter) ∨ (st.lpc = .loopingFinal ∧ after = .finished)) :
    budgetN (loopNext true st after) < budgetN st := by
  unfold loopNext
  simp only [if_true]
  split
  · rename_i hnc
    apply budgetN_loader st
    · rfl
    · simp
    · rcases hcase with ⟨hl, ha⟩ | ⟨hl, ha⟩ <;> simp [lrankE, hl, ha, hnc]
  · rename_i e r hnc
    apply budgetN_loader st
    · rfl
    · exact csumL_setEv st h e
    · rcases hcase with ⟨hl, _⟩ | ⟨hl, _⟩
      · have hl' : (st.setEv e).lpc = .looping := hl
        simp only [lrankE, hl, hl', hnc, List.length_cons]
        show (st.remaining.length + 1) * (st.events.length + 2) + r.length + 1 < _
        omega
      · have hl' : (st.setEv e).lpc = .loopingFinal := hl
        simp only [lrankE, hl, hl', hnc, List.length_cons]
        show r.length + 1 < _
        omega

/-- every loader / consumer step that changes the state uses up budget (notify loops over a copy) -/
theorem budgetN_decreases (st : THn) (h : RegN st) (a : StepN) (ha : isLoadStepN a)
    (hne : stepN true st a ≠ st) : budgetN (stepN true st a) < budgetN st := by
  cases a with
  | cstart i => simp [isLoadStepN] at ha
  | cwait i =>
    simp only [stepN] at hne ⊢
    split at hne
    · rename_i hc
      simp only [hc, and_self, if_true]
      apply budgetN_setCons st h i _ (Or.inl hc.1)
      simp [crankN, hc.1, hc.2]
    · exact absurd rfl hne
  | cread i =>
    simp only [stepN] at hne ⊢
    split at hne
    · rename_i hc
      simp only [hc, if_true]
      apply budgetN_setCons st h i _ (Or.inr (Or.inl hc))
      simp [crankN, hc]
    · exact absurd rfl hne
  | cyield i =>
    simp only [stepN] at hne ⊢
    split at hne
    · rename_i hc
      simp only [hc, if_true]
      cases hs : (st.cons i).sawDone with
      | false =>
        simp only [Bool.false_eq_true, if_false]
        apply budgetN_setCons st h i _ (Or.inr (Or.inr hc))
        cases hev : (st.cons i).ev <;> simp [crankN, hc, hev]
      | true =>
        simp only [if_true]
        -- the call finishes and unregisters
        have hi := (h.reg i).mpr (Or.inr (Or.inr hc))
        have hni : i ∉ st.events.erase i := List.Nodup.not_mem_erase h.nodup
        have h1 := fun c => csumL_update_notin st.cons i c (st.events.erase i) hni
        have h2 := csumL_erase st.cons i st.events hi
        have h3 : 1 ≤ crankN (st.cons i) := by
          cases hev : (st.cons i).ev <;> simp [crankN, hc, hev]
        have hlen : (st.events.erase i).length ≤ st.events.length := by
          rw [List.length_erase_of_mem hi]; omega
        have h4 := lrankE_mono _ _ hlen st
        unfold budgetN
        show 4 * lrankE (st.events.erase i).length st
          + csumL (fun j => if j = i then _ else st.cons j) (st.events.erase i) < _
        rw [h1]
        omega
    · exact absurd rfl hne
  | lreset =>
    simp only [stepN] at hne ⊢
    split at hne
    · rename_i hl
      simp only [hl, if_true]
      apply budgetN_loader st
      · rfl
      · simp
      · simp [lrankE, hl]
    · exact absurd rfl hne
  | lsnap =>
    simp only [stepN] at hne ⊢
    split at hne
    · rename_i hl
      simp only [hl, if_true]
      apply budgetN_loader st
      · rfl
      · simp
      · simp [lrankE, hl]
    · exact absurd rfl hne
  | lappend =>
    simp only [stepN] at hne ⊢
    split at hne
    · rename_i hl
      split at hne
      · rename_i x r hr
        simp only [hl, if_true]
        apply budgetN_loader st
        · rfl
        · simp
        · simp only [lrankE, hl, hr, List.length_cons]
          have : (r.length + 1 + 1) * (st.events.length + 2)
              = (r.length + 1) * (st.events.length + 2) + (st.events.length + 2) := Nat.succ_mul _ _
          omega
      · exact absurd rfl hne
    · exact absurd rfl hne
  | ldone =>
    simp only [stepN] at hne ⊢
    split at hne
    · rename_i hl
      simp only [hl, and_self, if_true]
      apply budgetN_loader st
      · rfl
      · simp
      · simp [lrankE, hl.1, hl.2]
    · exact absurd rfl hne
  | lnotify =>
    simp only [stepN] at hne ⊢
    split at hne
    · rename_i hl
      simp only [hl, if_true]
      exact budgetN_loopStart st h _ _ (Or.inl ⟨hl, rfl, rfl⟩)
    · exact absurd rfl hne
  | lfinal =>
    simp only [stepN] at hne ⊢
    split at hne
    · rename_i hl
      simp only [hl, if_true]
      exact budgetN_loopStart st h _ _ (Or.inr ⟨hl, rfl, rfl⟩)
    · exact absurd rfl hne
  | lset =>
    simp only [stepN] at hne ⊢
    split at hne
    · rename_i hl
      simp only [hl, if_true]
      exact budgetN_loopNext st h _ (Or.inl ⟨hl, rfl⟩)
    · split at hne
      · rename_i hl1 hl
        simp only [hl, if_true]
        have : ¬ (NPc.loopingFinal = NPc.looping) := by decide
        simp only [this, if_false]
        exact budgetN_loopNext st h _ (Or.inr ⟨hl, rfl⟩)
      · exact absurd rfl hne

end Ptk.C13

namespace Ptk.C13
open Ptk.Py

/-- a schedule in which every step changes the state (notify loops over a copy) -/
def effectiveN : THn → List StepN → Prop
  | _, [] => True
  | st, a :: r => stepN true st a ≠ st ∧ effectiveN (stepN true st a) r

theorem regN_run (copy : Bool) (st : THn) (h : RegN st) (sched : List StepN) :
    RegN (runN copy st sched) := by
  induction sched generalizing st with
  | nil => exact h
  | cons a r ih =>
    simp only [runN, List.foldl_cons]
    exact ih (stepN copy st a) (regN_step copy st h a)

theorem sched_boundedN (st : THn) (h : RegN st) (sched : List StepN)
    (hl : ∀ a ∈ sched, isLoadStepN a) (he : effectiveN st sched) :
    sched.length + budgetN (runN true st sched) ≤ budgetN st := by
  induction sched generalizing st with
  | nil => simp [runN]
  | cons a r ih =>
    have h1 := budgetN_decreases st h a (hl a (by simp)) he.1
    have h2 := ih (stepN true st a) (regN_step true st h a) (fun b hb => hl b (by simp [hb])) he.2
    simp only [runN, List.foldl_cons, List.length_cons] at h2 ⊢
    omega

end Ptk.C13
