/-
  C10 part 2 — `Window._copy_body`: whatever fragments (hostile text, any styles, any line
  prefix callback, wrapping, scrolling) are copied into a screen whose cells are control-free,
  every cell of the resulting screen is control-free, and only text explicitly marked
  `[ZeroWidthEscape]` is stored for the raw writer.
-/
import Ptk.Props.C10
import Ptk.Model.C10Copy
namespace Ptk.C10
open Ptk.Py

/-- every cell stored in the buffer has control-free text -/
def BufClean (b : Buf) : Prop := ∀ pc ∈ b, Clean pc.2.char

/-- the side conditions, bundled -/
structure TableOk (m : Table) (wc : CP → Int) : Prop where
  cov : coversControls m = true
  pr : valuesPrintable m = true
  wp : valuesWidthPos m wc = true

theorem bufFind_clean {b : Buf} (hb : BufClean b) {p : Pos} {c : Cell} (h : bufFind? b p = some c) :
    Clean c.char := by
  induction b with
  | nil => simp [bufFind?] at h
  | cons qc rest ih =>
    obtain ⟨q, c'⟩ := qc
    simp only [bufFind?] at h
    split at h
    · cases h; exact hb (q, c) (by simp)
    · exact ih (fun pc hpc => hb pc (by simp [hpc])) h

theorem bufGet_clean {b : Buf} {d : Cell} (hb : BufClean b) (hd : Clean d.char) (p : Pos) :
    Clean (bufGet b d p).char := by
  unfold bufGet
  cases h : bufFind? b p with
  | none => simpa using hd
  | some c => simpa using bufFind_clean hb h

theorem bufSet_clean {b : Buf} {p : Pos} {c : Cell} (hb : BufClean b) (hc : Clean c.char) :
    BufClean (bufSet b p c) := by
  intro pc hpc
  simp only [bufSet, List.mem_cons] at hpc
  rcases hpc with h | h
  · subst h; exact hc
  · exact hb pc h

theorem emptyCell_clean (cfg : CopyCfg) (ht : TableOk cfg.m cfg.wc) : Clean (emptyCell cfg).char :=
  mkCell_clean cfg.wc ht.pr clean_nil _

theorem eraseNeighbours_clean (cfg : CopyCfg) (ht : TableOk cfg.m cfg.wc) {b : Buf} (hb : BufClean b)
    (y x : Int) (n : Nat) : BufClean (eraseNeighbours cfg b y x n) := by
  induction n with
  | zero => exact hb
  | succ i ih =>
    simp only [eraseNeighbours]
    split
    · exact ih
    · exact bufSet_clean ih (emptyCell_clean cfg ht)

theorem mergeInto_clean (cfg : CopyCfg) (ht : TableOk cfg.m cfg.wc) (hd : Clean cfg.dflt.char)
    {b : Buf} (hb : BufClean b) (x y : Int) {c : CP} {style : Text}
    (h0 : (mkCell cfg.m cfg.wc [c] style).width = 0) (pw : Nat) :
    BufClean (mergeInto cfg b x y c pw) := by
  unfold mergeInto
  simp only
  split
  · exact bufSet_clean hb (merged_cell_clean ht.cov ht.pr ht.wp h0 (bufGet_clean hb hd _))
  · exact hb

theorem storeChar_clean (cfg : CopyCfg) (ht : TableOk cfg.m cfg.wc) (hd : Clean cfg.dflt.char)
    {st : CopySt} (hb : BufClean st.buf) (c : CP) (style : Text) :
    BufClean (storeChar cfg st (mkCell cfg.m cfg.wc [c] style) c).buf := by
  unfold storeChar
  simp only
  split
  · have h1 : BufClean (bufSet st.buf (st.y + cfg.ypos, st.x + cfg.xpos) (mkCell cfg.m cfg.wc [c] style)) :=
      bufSet_clean hb (cell_no_control cfg.wc ht.cov ht.pr c style)
    simp only
    split
    · exact eraseNeighbours_clean cfg ht h1 _ _ _
    · split
      · rename_i h0
        exact mergeInto_clean cfg ht hd (mergeInto_clean cfg ht hd h1 _ _ h0 2) _ _ h0 1
      · exact h1
  · exact hb

theorem putChar_clean (cfg : CopyCfg) (ht : TableOk cfg.m cfg.wc) (hd : Clean cfg.dflt.char)
    (onWrap : CopySt → CopySt) (hw : ∀ s, BufClean s.buf → BufClean (onWrap s).buf)
    {st : CopySt} (hb : BufClean st.buf) (style : Text) (c : CP) :
    BufClean (putChar cfg onWrap st style c).st.buf := by
  unfold putChar
  simp only
  split
  · have h1 := hw { st with y := st.y + 1, x := 0 } hb
    split
    · exact h1
    · exact storeChar_clean cfg ht hd h1 c style
  · exact storeChar_clean cfg ht hd hb c style

theorem plainText_clean (cfg : CopyCfg) (ht : TableOk cfg.m cfg.wc) (hd : Clean cfg.dflt.char)
    (style : Text) (t : CText) {st : CopySt} (hb : BufClean st.buf) :
    BufClean (plainText cfg style st t).1.buf := by
  induction t generalizing st with
  | nil => exact hb
  | cons c cs ih =>
    simp only [plainText]
    have h1 := putChar_clean cfg ht hd id (fun s h => h) hb style c
    split
    · exact h1
    · exact ih h1

theorem plainFrags_clean (cfg : CopyCfg) (ht : TableOk cfg.m cfg.wc) (hd : Clean cfg.dflt.char)
    (frs : List Frag) {st : CopySt} (hb : BufClean st.buf) :
    BufClean (plainFrags cfg st frs).1.buf := by
  induction frs generalizing st with
  | nil => exact hb
  | cons f rest ih =>
    obtain ⟨style, text⟩ := f
    simp only [plainFrags]
    split
    · exact ih hb
    · have h1 := plainText_clean cfg ht hd style text hb
      generalize plainText cfg style st text = r at h1
      obtain ⟨st', stop⟩ := r
      simp only
      split
      · exact h1
      · exact ih h1

theorem drawPrefix_clean (cfg : CopyCfg) (ht : TableOk cfg.m cfg.wc) (hd : Clean cfg.dflt.char)
    (lineno wrapCount : Nat) {st : CopySt} (hb : BufClean st.buf) :
    BufClean (drawPrefix cfg lineno wrapCount st).buf := by
  unfold drawPrefix
  split
  · exact hb
  · exact plainFrags_clean cfg ht hd _ (st := { st with x := _ }) hb

theorem inputText_clean (cfg : CopyCfg) (ht : TableOk cfg.m cfg.wc) (hd : Clean cfg.dflt.char)
    (lineno : Nat) (style : Text) (t : CText) {s : InSt} (hb : BufClean s.st.buf) :
    BufClean (inputText cfg lineno style s t).1.st.buf := by
  induction t generalizing s with
  | nil => exact hb
  | cons c cs ih =>
    simp only [inputText]
    have h1 := putChar_clean cfg ht hd (drawPrefix cfg lineno (s.wrapCount + 1))
      (fun s' h => drawPrefix_clean cfg ht hd _ _ h) hb style c
    split
    · exact h1
    · exact ih h1

theorem inputFrags_clean (cfg : CopyCfg) (ht : TableOk cfg.m cfg.wc) (hd : Clean cfg.dflt.char)
    (lineno : Nat) (frs : List Frag) {s : InSt} (hb : BufClean s.st.buf) :
    BufClean (inputFrags cfg lineno s frs).1.st.buf := by
  induction frs generalizing s with
  | nil => exact hb
  | cons f rest ih =>
    obtain ⟨style, text⟩ := f
    simp only [inputFrags]
    split
    · exact ih hb
    · have h1 := inputText_clean cfg ht hd lineno style text hb
      generalize inputText cfg lineno style s text = r at h1
      obtain ⟨s', stop⟩ := r
      simp only
      split
      · exact h1
      · exact ih h1

theorem copyLineInput_clean (cfg : CopyCfg) (ht : TableOk cfg.m cfg.wc) (hd : Clean cfg.dflt.char)
    (lineno : Nat) (line : List Frag) {st : CopySt} (hb : BufClean st.buf) :
    BufClean (copyLineInput cfg lineno st line).buf := by
  unfold copyLineInput
  have h1 := drawPrefix_clean cfg ht hd lineno 0 hb
  simp only
  split
  · exact inputFrags_clean cfg ht hd lineno _ (s := { st := { x := _, y := _, buf := _, zwe := _ }, wrapCount := 0 }) h1
  · exact inputFrags_clean cfg ht hd lineno _ (s := { st := { x := _, y := _, buf := _, zwe := _ }, wrapCount := 0 }) h1

theorem copyLines_clean (cfg : CopyCfg) (ht : TableOk cfg.m cfg.wc) (hd : Clean cfg.dflt.char)
    (lines : List (List Frag)) (lineno : Nat) {st : CopySt} (hb : BufClean st.buf) :
    BufClean (copyLines cfg lineno st lines).buf := by
  induction lines generalizing st lineno with
  | nil => exact hb
  | cons line rest ih =>
    simp only [copyLines]
    split
    · exact ih _ (copyLineInput_clean cfg ht hd lineno line (st := { st with x := 0 }) hb)
    · exact hb

/-- **`Window._copy_body` keeps the screen control-free.** -/
theorem copyBody_clean (cfg : CopyCfg) (ht : TableOk cfg.m cfg.wc) (hd : Clean cfg.dflt.char)
    (buf : Buf) (zwe : Zwe) (hb : BufClean buf) (lines : List (List Frag)) (vscroll vscroll2 : Nat) :
    BufClean (copyBody cfg buf zwe lines vscroll vscroll2).buf := by
  unfold copyBody
  exact copyLines_clean cfg ht hd _ _ hb

/-! ### zero-width escapes: only explicitly marked text gets there -/

section zwe
variable (cfg : CopyCfg) (Q : Zwe → Prop)

/-- `Q` is kept by storing the text of the (marked) fragment `f` -/
def KeepsOn (f : Frag) : Prop := isZwe f.1 = true → ∀ z p, Q z → Q (zweAppend z p f.2)

theorem storeChar_zwe (st : CopySt) (cell : Cell) (c : CP) : (storeChar cfg st cell c).zwe = st.zwe := by
  unfold storeChar; simp only; split <;> rfl

theorem putChar_zwe (onWrap : CopySt → CopySt) (hw : ∀ s, Q s.zwe → Q (onWrap s).zwe)
    (st : CopySt) (h : Q st.zwe) (style : Text) (c : CP) : Q (putChar cfg onWrap st style c).st.zwe := by
  unfold putChar
  simp only
  split
  · have h1 := hw { st with y := st.y + 1, x := 0 } h
    split
    · exact h1
    · simpa [storeChar_zwe] using h1
  · simpa [storeChar_zwe] using h

theorem plainText_zwe (style : Text) (t : CText) (st : CopySt) (h : Q st.zwe) :
    Q (plainText cfg style st t).1.zwe := by
  induction t generalizing st with
  | nil => exact h
  | cons c cs ih =>
    simp only [plainText]
    have h1 := putChar_zwe cfg Q id (fun s h => h) st h style c
    split
    · exact h1
    · exact ih _ h1

theorem plainFrags_zwe (frs : List Frag) (hf : ∀ f ∈ frs, KeepsOn Q f) (st : CopySt) (h : Q st.zwe) :
    Q (plainFrags cfg st frs).1.zwe := by
  induction frs generalizing st with
  | nil => exact h
  | cons f rest ih =>
    obtain ⟨style, text⟩ := f
    have hrest : ∀ f ∈ rest, KeepsOn Q f := fun f hf' => hf f (by simp [hf'])
    simp only [plainFrags]
    split
    · rename_i hz
      exact ih hrest _ (hf (style, text) (by simp) hz _ _ h)
    · have h1 := plainText_zwe cfg Q style text st h
      generalize plainText cfg style st text = r at h1
      obtain ⟨st', stop⟩ := r
      simp only
      split
      · exact h1
      · exact ih hrest _ h1

/-- all fragments a prefix callback can return keep `Q` -/
def PreKeeps : Prop := ∀ pre, cfg.pre = some pre → ∀ ln wc, ∀ f ∈ pre ln wc, KeepsOn Q f

theorem drawPrefix_zwe (hp : PreKeeps cfg Q) (lineno wrapCount : Nat) (st : CopySt) (h : Q st.zwe) :
    Q (drawPrefix cfg lineno wrapCount st).zwe := by
  unfold drawPrefix
  split
  · exact h
  · rename_i f hf
    exact plainFrags_zwe cfg Q _ (hp f hf lineno wrapCount) { st with x := _ } h

theorem inputText_zwe (hp : PreKeeps cfg Q) (lineno : Nat) (style : Text) (t : CText) (s : InSt)
    (h : Q s.st.zwe) : Q (inputText cfg lineno style s t).1.st.zwe := by
  induction t generalizing s with
  | nil => exact h
  | cons c cs ih =>
    simp only [inputText]
    have h1 := putChar_zwe cfg Q (drawPrefix cfg lineno (s.wrapCount + 1))
      (fun s' h => drawPrefix_zwe cfg Q hp _ _ s' h) s.st h style c
    split
    · exact h1
    · exact ih _ h1

theorem inputFrags_zwe (hp : PreKeeps cfg Q) (lineno : Nat) (frs : List Frag)
    (hf : ∀ f ∈ frs, KeepsOn Q f) (s : InSt) (h : Q s.st.zwe) :
    Q (inputFrags cfg lineno s frs).1.st.zwe := by
  induction frs generalizing s with
  | nil => exact h
  | cons f rest ih =>
    obtain ⟨style, text⟩ := f
    have hrest : ∀ f ∈ rest, KeepsOn Q f := fun f hf' => hf f (by simp [hf'])
    simp only [inputFrags]
    split
    · rename_i hz
      exact ih hrest _ (hf (style, text) (by simp) hz _ _ h)
    · have h1 := inputText_zwe cfg Q hp lineno style text s h
      generalize inputText cfg lineno style s text = r at h1
      obtain ⟨s', stop⟩ := r
      simp only
      split
      · exact h1
      · exact ih hrest _ h1

theorem hscrollDrop_sub (dw : CText → Nat) (h : Int) (l : List Frag) :
    ∀ f ∈ (hscrollDrop dw h l).2, f ∈ l := by
  induction l generalizing h with
  | nil => simp [hscrollDrop]
  | cons g rest ih =>
    simp only [hscrollDrop]
    split
    · intro f hf; exact List.mem_cons_of_mem _ (ih _ f hf)
    · intro f hf; exact hf

theorem copyLineInput_zwe (hp : PreKeeps cfg Q) (lineno : Nat) (line : List Frag)
    (hf : ∀ f ∈ line, KeepsOn Q f) (hfe : ∀ f ∈ explode line, KeepsOn Q f)
    (st : CopySt) (h : Q st.zwe) : Q (copyLineInput cfg lineno st line).zwe := by
  unfold copyLineInput
  have h1 := drawPrefix_zwe cfg Q hp lineno 0 st h
  simp only
  split
  · exact inputFrags_zwe cfg Q hp lineno _ (fun f hf' => hfe f (hscrollDrop_sub _ _ _ f hf'))
      { st := { x := _, y := _, buf := _, zwe := _ }, wrapCount := 0 } h1
  · exact inputFrags_zwe cfg Q hp lineno _ hf
      { st := { x := _, y := _, buf := _, zwe := _ }, wrapCount := 0 } h1

theorem copyLines_zwe (hp : PreKeeps cfg Q) (lines : List (List Frag))
    (hf : ∀ line ∈ lines, (∀ f ∈ line, KeepsOn Q f) ∧ (∀ f ∈ explode line, KeepsOn Q f))
    (lineno : Nat) (st : CopySt) (h : Q st.zwe) : Q (copyLines cfg lineno st lines).zwe := by
  induction lines generalizing st lineno with
  | nil => exact h
  | cons line rest ih =>
    simp only [copyLines]
    split
    · exact ih (fun l hl => hf l (by simp [hl])) _ _
        (copyLineInput_zwe cfg Q hp lineno line (hf line (by simp)).1 (hf line (by simp)).2 _ h)
    · exact h

end zwe

theorem explode_origin (l : List Frag) : ∀ g ∈ explode l, ∃ f ∈ l, g.1 = f.1 ∧ ∀ c ∈ g.2, c ∈ f.2 := by
  induction l with
  | nil => simp [explode]
  | cons f rest ih =>
    obtain ⟨style, text⟩ := f
    intro g hg
    simp only [explode, List.mem_append, List.mem_map] at hg
    rcases hg with ⟨c, hc, rfl⟩ | hg
    · exact ⟨(style, text), by simp, rfl, by simpa using hc⟩
    · obtain ⟨f, hf, h1, h2⟩ := ih g hg
      exact ⟨f, by simp [hf], h1, h2⟩

/-- **No unmarked text reaches the raw path.** If no fragment of the content (lines and line
    prefixes) is marked `[ZeroWidthEscape]`, `_copy_body` leaves the screen's zero-width
    escapes exactly as they were. -/
theorem copyBody_zwe_unmarked (cfg : CopyCfg) (buf : Buf) (zwe : Zwe) (lines : List (List Frag))
    (vscroll vscroll2 : Nat)
    (hl : ∀ line ∈ lines, ∀ f ∈ line, isZwe f.1 = false)
    (hp : ∀ pre, cfg.pre = some pre → ∀ ln wc, ∀ f ∈ pre ln wc, isZwe f.1 = false) :
    (copyBody cfg buf zwe lines vscroll vscroll2).zwe = zwe := by
  unfold copyBody
  apply copyLines_zwe cfg (fun z => z = zwe)
  · intro pre hpre ln wc f hf hz; simp [hp pre hpre ln wc f hf] at hz
  · intro line hline
    have hline' := List.mem_of_mem_drop hline
    refine ⟨fun f hf hz => ?_, fun g hg hz => ?_⟩
    · simp [hl line hline' f hf] at hz
    · obtain ⟨f, hf, h1, _⟩ := explode_origin line g hg
      rw [h1] at hz; simp [hl line hline' f hf] at hz
  · rfl

theorem zweFind_mem {z : Zwe} {p : Pos} {t : CText} (h : zweFind? z p = some t) : (p, t) ∈ z := by
  induction z with
  | nil => simp [zweFind?] at h
  | cons e rest ih =>
    obtain ⟨q, t'⟩ := e
    simp only [zweFind?] at h
    split at h
    · rename_i hq; cases h; simp [hq]
    · simp [ih h]

/-- every character of every zero-width escape satisfies `P` -/
def ZweP (P : CP → Prop) (z : Zwe) : Prop := ∀ e ∈ z, ∀ c ∈ e.2, P c

theorem zweAppend_P {P : CP → Prop} {z : Zwe} (hz : ZweP P z) (p : Pos) {t : CText} (ht : ∀ c ∈ t, P c) :
    ZweP P (zweAppend z p t) := by
  intro e he c hc
  simp only [zweAppend, List.mem_cons] at he
  rcases he with rfl | he
  · simp only [List.mem_append] at hc
    rcases hc with hc | hc
    · cases hf : zweFind? z p with
      | none => simp [hf] at hc
      | some t' => simp [hf] at hc; exact hz _ (zweFind_mem hf) c hc
    · exact ht c hc
  · exact hz e he c hc

/-- **Origin of raw text.** Every character stored as a zero-width escape by `_copy_body` was
    there before or comes from the text of a fragment explicitly marked `[ZeroWidthEscape]`
    (`P` = "occurs in marked text"). -/
theorem copyBody_zwe_origin (cfg : CopyCfg) (P : CP → Prop) (buf : Buf) (zwe : Zwe)
    (lines : List (List Frag)) (vscroll vscroll2 : Nat) (h0 : ZweP P zwe)
    (hl : ∀ line ∈ lines, ∀ f ∈ line, isZwe f.1 = true → ∀ c ∈ f.2, P c)
    (hp : ∀ pre, cfg.pre = some pre → ∀ ln wc, ∀ f ∈ pre ln wc, isZwe f.1 = true → ∀ c ∈ f.2, P c) :
    ZweP P (copyBody cfg buf zwe lines vscroll vscroll2).zwe := by
  unfold copyBody
  apply copyLines_zwe cfg (ZweP P)
  · intro pre hpre ln wc f hf hz z p hq
    exact zweAppend_P hq p (hp pre hpre ln wc f hf hz)
  · intro line hline
    have hline' := List.mem_of_mem_drop hline
    refine ⟨fun f hf hz z p hq => zweAppend_P hq p (hl line hline' f hf hz), fun g hg hz z p hq => ?_⟩
    obtain ⟨f, hf, h1, h2⟩ := explode_origin line g hg
    rw [h1] at hz
    exact zweAppend_P hq p (fun c hc => hl line hline' f hf hz c (h2 c hc))
  · exact h0


/-! ### non-vacuity: a concrete hostile line through the real table -/

def exCfg : CopyCfg :=
  { m := Gen.C10.displayMappings, wc := Gen.C10.wcwidth, printable := Gen.C10.isPrintable,
    dflt := mkCell Gen.C10.displayMappings Gen.C10.wcwidth [32] "[transparent]".toList,
    xpos := 0, ypos := 0, width := 6, height := 2, wrap := true, hscroll := 0, align := 0, pre := none }

theorem exCfg_ok : TableOk exCfg.m exCfg.wc := ⟨gen_ok.1, gen_ok.2.1, gen_ok.2.2.1⟩

def exLine : List Frag :=
  [([], [0x61, ESC, 0x65, 0x301, 0x9b]), (zweMarker, [ESC, 0x5d, 0x37, 7]), ([], [0x7a])]

-- cells written (newest first): "z" after the wrap, "<9b>", "e"+accent merged, "e", "^[", "a"
example :
    (copyBody exCfg [] [] [exLine] 0 0).buf.map (fun pc => (pc.1, pc.2.char)) =
      [((1, 4), [0x7a]), ((1, 3), []), ((1, 2), []), ((1, 1), []), ((1, 0), [0x3c, 0x39, 0x62, 0x3e]),
       ((0, 3), [0x65, 0x301]), ((0, 4), [0x301]), ((0, 3), [0x65]),
       ((0, 2), []), ((0, 1), [0x5e, 0x5b]), ((0, 0), [0x61])] := by
  decide +kernel

example : (copyBody exCfg [] [] [exLine] 0 0).zwe = [((1, 4), [ESC, 0x5d, 0x37, 7])] := by decide +kernel

example : BufClean (copyBody exCfg [] [] [exLine] 0 0).buf :=
  copyBody_clean exCfg exCfg_ok ((cleanB_iff _).mp (by decide +kernel)) [] [] (by intro pc h; simp at h) _ 0 0


-- lone surrogates (U+DC9B = what `os.fsdecode` makes of the byte 0x9b) are copied as ordinary
-- width-1 characters: nothing in the table maps them, and they are not control characters
example :
    (copyBody exCfg [] [] [[([], [0xDC9B, 0x33, 0xD800])]] 0 0).buf.map (fun pc => (pc.1, pc.2.char)) =
      [((0, 2), [0xD800]), ((0, 1), [0x33]), ((0, 0), [0xDC9B])] := by decide +kernel

-- observed quirk, exhibited by the model and replayed on the real code by the harness
-- (corpus/C10/hscroll-cuts-marked-escape.json): horizontal scrolling explodes ALL fragments,
-- including a marked one, and drops leading characters, so only the TAIL of a marked escape
-- sequence is stored for the raw writer (here `]7 BEL` without its ESC, which since 9db5f12 counts
-- with its display width 2 in the skip loop, so `x` ends at column 1).
example :
    (copyBody { exCfg with hscroll := 1, wrap := false } [] []
      [[(zweMarker, [ESC, 0x5d, 0x37, 7]), ([], [0x7a])]] 0 0).zwe =
      [((0, 1), [0x5d, 0x37, 7]), ((0, 1), [0x5d, 0x37]), ((0, 1), [0x5d])] := by decide +kernel

end Ptk.C10
