/-
  C07 — definitions used by the property statements in `Ptk/Props/C07*.lean`
  (sessions, ghost log, iterated undo / redo, invariants).  No theorems here.
-/
import Ptk.Model.C07
namespace Ptk.C07
open Ptk.Py

/-! ## sessions -/

/-- the shapes of handler bodies that occur:
    * an arbitrary edit (everything that does not touch the stacks: insertions, deletions, motions,
      history moves, completions, `set_document`, … — `Gen.C07.stackSites` / `callSites` pin that only
      `Buffer.reset / save_to_undo_stack / undo / redo`, the two undo handlers and `_call_handler` do);
    * `n` calls of `Buffer.undo()` followed by a post-processing that keeps the text (emacs `undo`:
      n = 1, post = id; Vi `u`: n = count, post = `_fix_vi_cursor_position`);
    * `Buffer.redo()` with such a post-processing; an explicit `save_to_undo_stack`;
    * `Buffer.reset(doc)` from inside a handler (`stop_search` resets the search buffer);
    * `Buffer.undo()` / `Buffer.redo()` on a read-only buffer (the handler ends with `EditReadOnlyBuffer`
      when something was popped; `post` = the cursor fix that still runs when nothing was raised). -/
inductive Body
  | edit (f : Buf → Buf)
  | undo (n : Nat) (post : Buf → Buf)
  | redo (post : Buf → Buf)
  | save (clear : Bool)
  | reset (doc : Buf)
  | roUndo (checksFirst : Bool) (post : Buf → Buf)
  | roRedo (checksFirst : Bool)

def Body.acts : Body → List Act
  | .edit f => [Act.edit f]
  | .undo n post => List.replicate n Act.undo ++ [Act.edit post]
  | .redo post => [Act.redo, Act.edit post]
  | .save c => [Act.save c]
  | .reset d => [Act.reset d]
  | .roUndo fx post => [Act.undoRO fx, Act.edit post]
  | .roRedo fx => [Act.redoRO fx]

def Body.isEdit : Body → Bool
  | .edit _ => true
  | _ => false

/-- one command = one call of `_call_handler`: handler identity, the value of its `save_before` as a
    function of `is_repeat` AT THIS CALL (a `save_before` callable may look at anything in the event, so
    the rule belongs to the call, not to the binding), what its body does, and how the handler ended -/
structure Cmd where
  h : Nat
  rule : Bool → Bool
  body : Body
  out : Outcome := .ok

def stepK (k : KSt) (c : Cmd) : KSt :=
  callHandlerO c.out c.h c.rule c.body.acts k

def runK (cmds : List Cmd) (k : KSt) : KSt :=
  cmds.foldl stepK k

/-- what happens between two keys of a session -/
inductive Item
  | cmd (c : Cmd)          -- `_call_handler`
  | kpReset                -- `KeyProcessor.reset()` without `Buffer.reset()`
  | cpr                    -- a cursor position report (`_process_cpr_response`)
  | ext (f : Buf → Buf)    -- text / cursor changed outside `_call_handler` (async completion, application code)

def stepI (k : KSt) : Item → KSt
  | .cmd c => stepK k c
  | .kpReset => kpReset k
  | .cpr => cprResponse k
  | .ext f => extEdit f k

def runI (items : List Item) (k : KSt) : KSt :=
  items.foldl stepI k

/-- session state + ghost log of the states held at command boundaries (newest first) -/
structure G where
  k : KSt
  log : List Buf

def stepG (g : G) (it : Item) : G :=
  { k := stepI g.k it,
    log := match it with
      | .cmd _ => g.k.st.buf :: g.log
      | _ => g.log }

def runG (items : List Item) (g : G) : G :=
  items.foldl stepG g

def gInit (b0 : Buf) : G := { k := kInit b0, log := [] }

/-- `n` successive `Buffer.undo()` calls -/
def undoN : Nat → St → St
  | 0, s => s
  | n + 1, s => undoN n (undo s)

/-- `n` successive `Buffer.redo()` calls -/
def redoN : Nat → St → St
  | 0, s => s
  | n + 1, s => redo (redoN n s)

/-- the states restored by up to `n` successive undos, in the order they are restored
    (stops at the first undo that finds nothing to restore) -/
def undoTrace : Nat → St → List Buf
  | 0, _ => []
  | n + 1, s =>
    match undoLoop s.buf s.undo with
    | some (t, _) => t :: undoTrace n (undo s)
    | none => []

/-- every one of the next `n` undos restores something -/
def UndoChanges : Nat → St → Prop
  | 0, _ => True
  | n + 1, s => undoLoop s.buf s.undo ≠ none ∧ UndoChanges n (undo s)

/-- the text of the bottom entry of the undo stack (the current text if the stack is empty) -/
def botText (s : St) : Text :=
  match s.undo.getLast? with
  | some b => b.text
  | none => s.buf.text

def Valid (b : Buf) : Prop := b.cur ≤ b.text.length

/-- the state right after the `save_before` decision of `_call_handler` -/
def boundary (rule : Bool → Bool) (h : Nat) (k : KSt) : St :=
  if rule (decide (k.prev = some h)) then saveToUndo true k.st else k.st

/-- what a body does to the state reached after the boundary -/
def Body.run : Body → St → St
  | .edit f, s => { s with buf := f s.buf }
  | .undo n post, s => let s' := undoN n s; { s' with buf := post s'.buf }
  | .redo post, s => let s' := Ptk.C07.redo s; { s' with buf := post s'.buf }
  | .save c, s => saveToUndo c s
  | .reset d, _ => Ptk.C07.reset d
  | .roUndo fx post, s => let s' := undoRO fx s; { s' with buf := post s'.buf }
  | .roRedo fx, s => redoRO fx s

/-- invariant inside a command, relative to a log `L` that already contains the boundary state -/
def Mid (L : List Buf) (s : St) : Prop :=
  s.undo.Sublist L ∧ (∀ r ∈ s.redo, r ∈ L) ∧ s.buf ∈ L

/-- invariant at command boundaries -/
def Inv (g : G) : Prop :=
  g.k.st.undo.Sublist g.log ∧ ∀ r ∈ g.k.st.redo, r ∈ g.log

def Body.PostKeepsText : Body → Prop
  | .undo _ post => ∀ b, (post b).text = b.text
  | .redo post => ∀ b, (post b).text = b.text
  | .roUndo _ post => ∀ b, (post b).text = b.text
  | _ => True

def Body.isReset : Body → Bool
  | .reset _ => true
  | _ => false

/-- a read-only undo / redo in the session is the FIXED one (read-only check before the stacks are touched) -/
def Body.RoFixed : Body → Prop
  | .roUndo fx _ => fx = true
  | .roRedo fx => fx = true
  | _ => True

/-- **semantic discipline of one command at the state it is called in**: it does not change the text
    without a snapshot — an edit either is saved at its own boundary, or happens while the undo stack
    is non-empty and the redo stack empty (a repeat inside a group), or keeps the text; undo / redo
    commands only post-process the cursor; no `Buffer.reset`; read-only undo / redo is the fixed one. -/
def Cmd.Covered (c : Cmd) (k : KSt) : Prop :=
  match c.body with
  | .edit f => c.rule (decide (k.prev = some c.h)) = true ∨ (k.st.undo ≠ [] ∧ k.st.redo = []) ∨
      (f k.st.buf).text = k.st.buf.text
  | .undo _ post => ∀ b, (post b).text = b.text
  | .redo post => ∀ b, (post b).text = b.text
  | .save _ => True
  | .reset _ => False
  | .roUndo fx post => fx = true ∧ ∀ b, (post b).text = b.text
  | .roRedo fx => fx = true

def Item.Covered (it : Item) (k : KSt) : Prop :=
  match it with
  | .cmd c => c.Covered k
  | .ext f => k.st.undo ≠ [] ∨ (f k.st.buf).text = k.st.buf.text
  | _ => True

/-- every item of the session is covered at the state it happens in -/
def Disciplined : List Item → KSt → Prop
  | [], _ => True
  | it :: its, k => it.Covered k ∧ Disciplined its (stepI k it)

/-- external edits (async completions, application code) only happen while a snapshot exists (or keep the text) -/
def ExtOK : List Item → KSt → Prop
  | [], _ => True
  | it :: its, k =>
    (match it with
      | .ext f => k.st.undo ≠ [] ∨ (f k.st.buf).text = k.st.buf.text
      | _ => True) ∧ ExtOK its (stepI k it)

/-- well-formed binding set / session (a STATIC condition on the bindings): the kind of a body is
    determined by the handler (`isEditH h` = "handler `h` edits", as opposed to "calls undo / redo /
    save"), every editing handler saves at least when it is not a repeat (`always` and `if_no_repeat`
    both do), the post-processing after undo / redo (`_fix_vi_cursor_position`) keeps the text, no
    handler resets the buffer, read-only undo / redo is the fixed one. -/
structure WF (isEditH : Nat → Bool) (items : List Item) : Prop where
  saves : ∀ c, Item.cmd c ∈ items → isEditH c.h = true → c.rule false = true
  kind : ∀ c, Item.cmd c ∈ items → c.body.isEdit = isEditH c.h
  post : ∀ c, Item.cmd c ∈ items → c.body.PostKeepsText
  noReset : ∀ c, Item.cmd c ∈ items → c.body.isReset = false
  roFixed : ∀ c, Item.cmd c ∈ items → c.body.RoFixed

/-- right after an editing handler the undo stack is non-empty and the redo stack is empty -/
def PInv (isEditH : Nat → Bool) (k : KSt) : Prop :=
  ∀ h, k.prev = some h → isEditH h = true → k.st.undo ≠ [] ∧ k.st.redo = []

/-- consecutive calls of the SAME handler `h` (e.g. self-insert for each typed character, or
    backward-delete-char for each Backspace) with edit bodies `fs` -/
def runSame (h : Nat) (rule : Bool → Bool) (fs : List (Buf → Buf)) (k : KSt) : KSt :=
  fs.foldl (fun k f => callHandler h rule [Act.edit f] k) k

def Body.KeepsValid : Body → Prop
  | .edit f => ∀ b, Valid b → Valid (f b)
  | .undo _ post => ∀ b, Valid b → Valid (post b)
  | .redo post => ∀ b, Valid b → Valid (post b)
  | .save _ => True
  | .reset d => Valid d
  | .roUndo _ post => ∀ b, Valid b → Valid (post b)
  | .roRedo _ => True

def Item.KeepsValid : Item → Prop
  | .cmd c => c.body.KeepsValid
  | .ext f => ∀ b, Valid b → Valid (f b)
  | _ => True

def VInv (s : St) : Prop := Valid s.buf ∧ (∀ u ∈ s.undo, Valid u) ∧ (∀ r ∈ s.redo, Valid r)

/-- adjacent entries of a stack carry different texts -/
def AdjDistinct : List Buf → Prop
  | [] => True
  | [_] => True
  | a :: b :: r => a.text ≠ b.text ∧ AdjDistinct (b :: r)

/-- the items of a plain command list -/
def cmdsI (cs : List Cmd) : List Item := cs.map Item.cmd

end Ptk.C07
