/-
  C07 — definitions used by the property statements in `Ptk/Props/C07.lean`
  (sessions, ghost log, iterated undo / redo, invariants).  No theorems here.
-/
import Ptk.Model.C07
namespace Ptk.C07
open Ptk.Py

/-! ## sessions -/

/-- the shapes of handler bodies that occur: an arbitrary edit; `n` calls of
    `Buffer.undo()` followed by a post-processing that keeps the text (emacs
    `undo`: n = 1, post = id; Vi `u`: n = count, post = `_fix_vi_cursor_position`);
    `Buffer.redo()` with such a post-processing; an explicit `save_to_undo_stack`. -/
inductive Body
  | edit (f : Buf → Buf)
  | undo (n : Nat) (post : Buf → Buf)
  | redo (post : Buf → Buf)
  | save (clear : Bool)

def Body.acts : Body → List Act
  | .edit f => [Act.edit f]
  | .undo n post => List.replicate n Act.undo ++ [Act.edit post]
  | .redo post => [Act.redo, Act.edit post]
  | .save c => [Act.save c]

def Body.isEdit : Body → Bool
  | .edit _ => true
  | _ => false

/-- one command = one call of `_call_handler`: handler identity + what its body does -/
structure Cmd where
  h : Nat
  body : Body

/-- `rule h` is the `save_before` of the binding with identity `h`, as a function of `is_repeat` -/
def stepK (rule : Nat → Bool → Bool) (k : KSt) (c : Cmd) : KSt :=
  callHandler c.h (rule c.h) c.body.acts k

def runK (rule : Nat → Bool → Bool) (cmds : List Cmd) (k : KSt) : KSt :=
  cmds.foldl (stepK rule) k

/-- session state + ghost log of the states held at command boundaries (newest first) -/
structure G where
  k : KSt
  log : List Buf

def stepG (rule : Nat → Bool → Bool) (g : G) (c : Cmd) : G :=
  { k := stepK rule g.k c, log := g.k.st.buf :: g.log }

def runG (rule : Nat → Bool → Bool) (cmds : List Cmd) (g : G) : G :=
  cmds.foldl (stepG rule) g

def gInit (b0 : Buf) : G := { k := kInit b0, log := [] }

/-- `n` successive `Buffer.undo()` calls -/
def undoN : Nat → St → St
  | 0, s => s
  | n + 1, s => undoN n (undo s)

/-- `n` successive `Buffer.redo()` calls -/
def redoN : Nat → St → St
  | 0, s => s
  | n + 1, s => redo (redoN n s)

/-- the states restored by up to `n` successive undos, in the order they are restored
    (stops at the first undo that finds nothing to restore) -/
def undoTrace : Nat → St → List Buf
  | 0, _ => []
  | n + 1, s =>
    match undoLoop s.buf s.undo with
    | some (t, _) => t :: undoTrace n (undo s)
    | none => []

/-- every one of the next `n` undos restores something -/
def UndoChanges : Nat → St → Prop
  | 0, _ => True
  | n + 1, s => undoLoop s.buf s.undo ≠ none ∧ UndoChanges n (undo s)

/-- the text of the bottom entry of the undo stack (the current text if the stack is empty) -/
def botText (s : St) : Text :=
  match s.undo.getLast? with
  | some b => b.text
  | none => s.buf.text

def Valid (b : Buf) : Prop := b.cur ≤ b.text.length

/-- the state right after the `save_before` decision of `_call_handler` -/
def boundary (rule : Bool → Bool) (h : Nat) (k : KSt) : St :=
  if rule (decide (k.prev = some h)) then saveToUndo true k.st else k.st

/-- what a body does to the state reached after the boundary -/
def Body.run : Body → St → St
  | .edit f, s => { s with buf := f s.buf }
  | .undo n post, s => let s' := undoN n s; { s' with buf := post s'.buf }
  | .redo post, s => let s' := Ptk.C07.redo s; { s' with buf := post s'.buf }
  | .save c, s => saveToUndo c s

/-- invariant inside a command, relative to a log `L` that already contains the boundary state -/
def Mid (L : List Buf) (s : St) : Prop :=
  s.undo.Sublist L ∧ (∀ r ∈ s.redo, r ∈ L) ∧ s.buf ∈ L

/-- invariant at command boundaries -/
def Inv (g : G) : Prop :=
  g.k.st.undo.Sublist g.log ∧ ∀ r ∈ g.k.st.redo, r ∈ g.log

def Body.PostKeepsText : Body → Prop
  | .undo _ post => ∀ b, (post b).text = b.text
  | .redo post => ∀ b, (post b).text = b.text
  | _ => True

/-- well-formed binding set / session: the kind of a body is determined by the handler
    (`isEditH h` = "handler `h` edits", as opposed to "calls undo / redo / save"), every editing
    handler saves at least when it is not a repeat (`always` and `if_no_repeat` both do), and the
    post-processing after undo / redo (`_fix_vi_cursor_position`) keeps the text. -/
structure WF (rule : Nat → Bool → Bool) (isEditH : Nat → Bool) (cmds : List Cmd) : Prop where
  saves : ∀ h, isEditH h = true → rule h false = true
  kind : ∀ c ∈ cmds, c.body.isEdit = isEditH c.h
  post : ∀ c ∈ cmds, c.body.PostKeepsText

/-- session invariant: the bottom of the undo stack (or the current text while the stack is empty)
    is the initial text; right after an editing handler the undo stack is non-empty and the redo
    stack is empty. -/
def SInv (isEditH : Nat → Bool) (t0 : Text) (k : KSt) : Prop :=
  botText k.st = t0 ∧ ∀ h, k.prev = some h → isEditH h = true → k.st.undo ≠ [] ∧ k.st.redo = []

/-- consecutive calls of the SAME handler `h` (e.g. self-insert for each typed character, or
    backward-delete-char for each Backspace) with edit bodies `fs` -/
def runSame (h : Nat) (rule : Bool → Bool) (fs : List (Buf → Buf)) (k : KSt) : KSt :=
  fs.foldl (fun k f => callHandler h rule [Act.edit f] k) k

def Body.KeepsValid : Body → Prop
  | .edit f => ∀ b, Valid b → Valid (f b)
  | .undo _ post => ∀ b, Valid b → Valid (post b)
  | .redo post => ∀ b, Valid b → Valid (post b)
  | .save _ => True

def VInv (s : St) : Prop := Valid s.buf ∧ (∀ u ∈ s.undo, Valid u) ∧ (∀ r ∈ s.redo, Valid r)

/-- adjacent entries of a stack carry different texts -/
def AdjDistinct : List Buf → Prop
  | [] => True
  | [_] => True
  | a :: b :: r => a.text ≠ b.text ∧ AdjDistinct (b :: r)

end Ptk.C07
