/-
  C11 — property theorems for the window render model (`Ptk.Model.C11`): end-to-end statements,
  histories, non-vacuity examples and the machine-checked witnesses of the known findings.

  Where the pieces are (all modules are audited):
    C11Scroll  doScroll_visible, doScroll_offsets, trunc_min_half, heightLoop_*, fast_eq_loop,
               scanUp_spec, scrollWrap_tall, scrollWrap_fit
    C11Copy    Ext / fold_ext (footprint of the copy loop), fold_wrap_geom (wrapped geometry ↔ height loop)
    C11Lines   copyLine_wrap_rows (= wrap_height_exact), copyLine_wrap_cursor, copyBody_wrap_cursor,
               copyLine_nowrap_cursor, copyBody_nowrap_cursor
    C11Window  wrap_cursor_in_window, nowrap_cursor_in_window
    C11Rows    rows_consecutive, drawn_cell_row_recorded
    C11Procs   tabs_mono, tabs_roundtrip, tabs_d2s_floor, tabs_shows, applyProc_good, merged_good
    C11Doc     rowOf_lt, colOf_le
    C11Exact   (model variant of the NOT-APPLIED fix) wrappedHeight_ones, fold_wrap_rows_gen,
               copyLine_wrap_rows_gen, heightForLine_exact, wrap_height_exact_fixed
    C11Gen     ANY cell widths, the code as it is: ExtG / fold_extG, skipLoop_spec, hskip_spec,
               copyLine_nowrap_cursor_gen, copyBody_nowrap_cursor_gen, nowrap_cursor_in_window_gen
    C11WrapGen ANY cell widths, wrapping: fold_wrap_last_gen, copyBody_wrap_cursor_gen,
               wrap_cursor_in_window_est, estimate_exact, wrap_cursor_in_window_partial
    C11Mouse   copyBody_rc_injective, click_recorded_cell, click_cursor_cell (the mouse handler inverts
               the cursor placement); C11Doc rowColToIndex_rowcol; here: click_roundtrip
    C11Margin  margin_index_is_screen_row, margin_number_first_row (NumberedMargin rows)
    C11Wide    render_cursor_shown, history_independent_gen, render_cursor_shown_genW, pinned side
               conditions of the generated character classes
-/
import Ptk.Props.C11Window
import Ptk.Props.C11Rows
import Ptk.Props.C11Procs
import Ptk.Props.C11Doc
import Ptk.Props.C11Exact
import Ptk.Props.C11Wide
import Ptk.Props.C11Mouse
import Ptk.Props.C11Margin
namespace Ptk.C11
open Ptk.Py

theorem contentLines_length (procs : List Proc) (text : Text) :
    (contentLines procs text).length = (splitOn '\n' text).length := by
  simp [contentLines]

theorem contentLines_getD (procs : List Proc) (text : Text) (cy : Nat) (h : cy < (splitOn '\n' text).length) :
    (contentLines procs text).getD cy [] =
      (merged cy (splitOn '\n' text).length procs ((splitOn '\n' text).getD cy [])).frags ++ [' '] := by
  have h' : cy < (contentLines procs text).length := by rw [contentLines_length]; exact h
  simp only [List.getD, List.getElem?_eq_getElem h', List.getElem?_eq_getElem h, Option.getD_some]
  simp [contentLines]

/-- **the whole render, end to end** (model level): document text + cursor → processors → content →
    scroll (from ANY previous scroll state) → body copy.  With one-column cells, tab stops ≥ 1, a content
    area at least 1×1 and prefixes narrower than it: the render succeeds (no `KeyError` in the position
    maps), the cursor is found by `rowcol_to_yx`, lies inside the window body and the cell there shows
    the character the content has at the cursor's display column. -/
theorem render_cursor_on_char {W : Widths} (hW : W1 W) (c : Cfg) (hps : ∀ p ∈ c.procs, ProcOK p)
    (tw height w : Nat) (wrap : Bool) (text : Text) (cur : Nat) (s : Scroll)
    (hw : c.bodyWidth W tw (contentLines c.procs text).length = (w : Int))
    (h1 : 1 ≤ w) (hh : 1 ≤ height)
    (hpfx : ∀ f, c.prefixFn = some f → ∀ l k, (f l k).length < w) :
    ∃ r, render W c tw height wrap text cur s = some r ∧ r.cy = rowOf text cur ∧
      ∃ (yc xc : Nat) (ch : Char), yc < height ∧ xc < w ∧
        ((contentLines c.procs text).getD r.cy [])[r.cx]? = some ch ∧
        cursorFound r.st r.cy r.cx = true ∧
        cursorScreen r.st r.cy r.cx = ((yc : Int) + c.ypos, (xc : Int) + r.xoff) ∧
        cellAt r.st.cells ((yc : Int) + c.ypos, (xc : Int) + r.xoff) = [ch] := by
  have hrow := rowOf_lt text cur
  have hcol := colOf_le text cur
  -- the display column of the cursor
  have hg := merged_good (rowOf text cur) (splitOn '\n' text).length c.procs hps
    ((splitOn '\n' text).getD (rowOf text cur) [])
  obtain ⟨cx, hcx1, hcx2, _⟩ := hg.defd (colOf text cur) hcol
  have hcX : cursorX c.procs text cur = some cx := hcx1
  have hline := contentLines_getD c.procs text (rowOf text cur) hrow
  have hcy : rowOf text cur < (contentLines c.procs text).length := by rw [contentLines_length]; exact hrow
  have hcxlt : cx < ((contentLines c.procs text).getD (rowOf text cur) []).length := by
    rw [hline, List.length_append]; simp only [List.length_singleton]; omega
  unfold render
  simp only [hcX, hw]
  refine ⟨_, rfl, rfl, ?_⟩
  simp only []
  generalize c.leftWidth W (contentLines c.procs text).length = mw at *
  cases wrap with
  | true =>
    obtain ⟨yc, xc, a1, a2, a3, a4, a5⟩ := wrap_cursor_in_window hW c (contentLines c.procs text) w height mw h1 hh
      hpfx (rowOf text cur) cx hcy hcxlt s
    exact ⟨yc, xc, _, a1, a2, List.getElem?_eq_getElem hcxlt, a3, a4, a5⟩
  | false =>
    have hp : match c.prefixFn with | none => 1 ≤ w | some f => ∀ l, (f l 0).length < w := by
      cases h : c.prefixFn with
      | none => exact h1
      | some f => exact fun l => hpfx f h l 0
    obtain ⟨yc, xc, a1, a2, _, a3, a4, a5⟩ := nowrap_cursor_in_window hW c (contentLines c.procs text) w height mw hh
      hp (rowOf text cur) cx hcy hcxlt s
    exact ⟨yc, xc, _, a1, a2, List.getElem?_eq_getElem hcxlt, a3, a4, a5⟩


/-- **wrap_height_exact** (name used in the design): a wrapped line of one-column cells, with any
    prefixes narrower than the window, occupies exactly `get_height_for_line` screen rows — also at
    exact multiples of the width -/
theorem wrap_height_exact {e : Env} (hW : W1 e.W) (hwrap : e.wrap = true) (w : Nat) (hw : e.width = w)
    (l : Nat) (hpw : ∀ k, pwE e l k < w) (line : Text) (st : CS) (hx : st.x = 0)
    (hy : st.y + (lineH e w l line.length : Nat) ≤ e.height) :
    (copyLine e 0 l line st).ret = false ∧
      (copyLine e 0 l line st).y + 1 = st.y + (lineH e w l line.length : Nat) :=
  copyLine_wrap_rows hW hwrap w hw l hpw line st hx hy

/-! ### histories: any sequence of states rendered through one window -/

/-- one state of the window: size, wrap mode, document, cursor -/
structure Step where
  tw : Nat
  height : Nat
  wrap : Bool
  text : Text
  cur : Nat

/-- render a sequence of states through one window; the scroll state carries over -/
def renderSeq (W : Widths) (c : Cfg) : List Step → Scroll → List (Option Rendered)
  | [], _ => []
  | st :: rest, s =>
    let r := render W c st.tw st.height st.wrap st.text st.cur s
    r :: renderSeq W c rest (match r with | some x => x.scroll | none => s)

/-- the stated domain for one state: body (window width minus ALL margins, left and right) at least
    1×1, every line prefix narrower than it -/
def StepOK (W : Widths) (c : Cfg) (st : Step) : Prop :=
  ∃ w : Nat, 1 ≤ w ∧ 1 ≤ st.height ∧
    c.bodyWidth W st.tw (contentLines c.procs st.text).length = (w : Int) ∧
    ∀ f, c.prefixFn = some f → ∀ l k, (f l k).length < w

/-- the property for one render result -/
def CursorOK (c : Cfg) (st : Step) (o : Option Rendered) : Prop :=
  ∃ r, o = some r ∧ r.cy = rowOf st.text st.cur ∧
    ∃ (yc xc : Nat) (ch : Char), yc < st.height ∧ (xc : Int) < r.width ∧
      ((contentLines c.procs st.text).getD r.cy [])[r.cx]? = some ch ∧
      cursorFound r.st r.cy r.cx = true ∧
      cursorScreen r.st r.cy r.cx = ((yc : Int) + c.ypos, (xc : Int) + r.xoff) ∧
      cellAt r.st.cells ((yc : Int) + c.ypos, (xc : Int) + r.xoff) = [ch]

theorem render_width (W : Widths) (c : Cfg) (tw height : Nat) (wrap : Bool) (text : Text) (cur : Nat)
    (s : Scroll) (r : Rendered) (h : render W c tw height wrap text cur s = some r) :
    r.width = c.bodyWidth W tw (contentLines c.procs text).length := by
  unfold render at h
  cases hc : cursorX c.procs text cur with
  | none => rw [hc] at h; cases h
  | some cx => rw [hc] at h; simp only [Option.some.injEq] at h; rw [← h]

/-- pointwise relation between the states and their render results -/
inductive All2 {α β : Type} (R : α → β → Prop) : List α → List β → Prop
  | nil : All2 R [] []
  | cons {a b as bs} : R a b → All2 R as bs → All2 R (a :: as) (b :: bs)

/-- **history_independent.** Along ANY finite sequence of window states (documents, cursors, sizes,
    wrap modes) rendered one after the other through one window, starting from ANY scroll state,
    every single render shows the cursor inside the window on its character. -/
theorem history_independent {W : Widths} (hW : W1 W) (c : Cfg) (hps : ∀ p ∈ c.procs, ProcOK p)
    (steps : List Step) : ∀ (s : Scroll), (∀ st ∈ steps, StepOK W c st) →
      All2 (CursorOK c) steps (renderSeq W c steps s) := by
  induction steps with
  | nil => intro s _; exact All2.nil
  | cons st rest ih =>
    intro s hok
    obtain ⟨w, h1, hh, hw, hp⟩ := hok st (by simp)
    obtain ⟨r, hr, hcy, yc, xc, ch, a1, a2, a3, a4, a5, a6⟩ :=
      render_cursor_on_char hW c hps st.tw st.height w st.wrap st.text st.cur s hw h1 hh hp
    have hrw := render_width W c _ _ _ _ _ _ r hr
    rw [renderSeq]
    refine All2.cons ⟨r, hr, hcy, yc, xc, ch, a1, by rw [hrw, hw]; exact_mod_cast a2, a3, a4, a5, a6⟩ ?_
    exact ih _ (fun q hq => hok q (by simp [hq]))

/-! ### non-vacuity: the hypotheses are satisfiable on non-trivial states, and concrete renders -/

/-- one-column cells -/
def w1 : Widths := { rw := fun _ => 1, disp := fun c => [c] }
theorem w1_W1 : W1 w1 := fun _ => ⟨rfl, rfl⟩

def cfg0 : Cfg := { xpos := 0, ypos := 0, top := 0, bottom := 0, left := 0, right := 0, beyond := false,
                    margin := false, pfx := none, procs := [] }
/-- offsets, a numbered margin, a prompt / continuation prefix, BeforeInput + TabsProcessor -/
def cfg1 : Cfg := { xpos := 2, ypos := 1, top := 1, bottom := 1, left := 1, right := 1, beyond := false,
                    margin := true, pfx := some ("> ".toList, ". ".toList, ". ".toList),
                    procs := [.before "$ ".toList, .tabs 4 '|' '.'] }
def s0 : Scroll := { vs := 0, hs := 0, vs2 := 0 }
def sOld : Scroll := { vs := 7, hs := 9, vs2 := 4 }

-- doScroll_visible: window 3, content 10, cursor 7, previous scroll 0 -> scrolls to 6 (offset 1 kept)
example : doScroll false 0 1 1 7 3 10 = 6 := by decide
example := doScroll_visible false 0 1 1 7 3 10 (by decide) (by decide) (by decide) (by decide) (by decide)
example := doScroll_offsets false 0 1 1 7 3 10 (by decide) (by decide) (by decide) (by decide) (by decide)
-- trunc_min_half at an odd window size and at a negative one (truncation toward zero, not floor)
example : Int.tdiv (min (2 * 9) (min 5 (2 * 7))) 2 = 2 := by decide
example : Int.tdiv (min (2 * 9) (min (-5) (2 * 7))) 2 = -2 := by decide
-- heights: 7 cells in width 3 → 3 rows; with a 2-cell continuation prefix → 5 rows; exact multiple 6/3 → 2
example : heightForLine w1 "abcdefg".toList 3 none none = 3 := by decide
example : heightForLine w1 "abcdefg".toList 3 (some fun k => if k = 0 then 0 else 2) none = 5 := by decide
example : heightForLine w1 "abcdef".toList 3 none none = 2 := by decide
example := fast_eq_loop 3 (by decide) 7 7 (by decide)
-- scrollWrap_tall / scrollWrap_fit instances
example := scrollWrap_tall (fun _ => 3) 2 1 0 1 0 0 false sOld (by decide) (by decide) (by decide)
example := scrollWrap_fit (fun _ => 1) 1 5 3 2 0 0 false sOld (by decide) (by decide) (by decide) (by decide)

/-- the F9 input on the model of the FIXED code: width 3, height 1, "abcdef" + blank, cursor 3:
    intra-line scroll 1, the cursor is found at (0,0) and the cell shows 'd' -/
example : let s' := scrollFor w1 cfg0 ["abcdef ".toList] 3 1 true 0 3 s0
    let r := copyBody (envFor w1 cfg0 3 1 true 0) ["abcdef ".toList] s'
    s'.vs2 = 1 ∧ cursorFound r 0 3 = true ∧ cursorScreen r 0 3 = (0, 0) ∧ cellAt r.cells (0, 0) = ['d'] := by
  decide

/-- the code BEFORE the fix (`slice_stop = cursor.x`, i.e. text-before height without the cursor cell)
    loses the cursor on the same input: machine-checked negation of `wrap_cursor_in_window` for the
    old scroll formula -/
theorem f9_old_formula_loses_cursor :
    let lh := fun _ : Nat => heightForLine w1 "abcdef ".toList 3 none none
    let tbhOld := heightForLine w1 "abcdef ".toList 3 none (some 3)
    let s' := scrollWrap lh tbhOld 1 0 1 0 0 false s0
    cursorFound (copyBody (envFor w1 cfg0 3 1 true 0) ["abcdef ".toList] s') 0 3 = false := by
  decide

-- wrap_cursor_in_window / nowrap_cursor_in_window instantiated on a 3-line document, window 4×2,
-- a scrolled-away previous state
example := wrap_cursor_in_window w1_W1 cfg0 ["abcdefghij ".toList, "k ".toList, "lmnopq ".toList] 4 2 0
  (by decide) (by decide) (fun f h => by simp [cfg0, Cfg.prefixFn] at h) 2 5 (by decide) (by decide) sOld
example := nowrap_cursor_in_window w1_W1 cfg0 ["abcdefghij ".toList, "k ".toList, "lmnopq ".toList] 4 2 0
  (by decide) (by simp [cfg0, Cfg.prefixFn]) 0 9 (by decide) (by decide) sOld
example : let lines := ["abcdefghij ".toList, "k ".toList, "lmnopq ".toList]
    let r := copyBody (envFor w1 cfg0 4 2 true 0) lines (scrollFor w1 cfg0 lines 4 2 true 2 5 sOld)
    cursorScreen r 2 5 = (1, 1) ∧ cellAt r.cells (1, 1) = ['q'] := by decide
-- wrap_height_exact: "abcdef" (6 cells, exact multiple) in width 3 from row 0 ends on row 1
example := wrap_height_exact (e := envFor w1 cfg0 3 5 true 0) w1_W1 rfl 3 rfl 0
  (fun k => by simp [pwE, envFor, cfg0, Cfg.prefixFn])
  "abcdef".toList (initCS 0) rfl (by decide)
example : (copyLine (envFor w1 cfg0 3 5 true 0) 0 0 "abcdef".toList (initCS 0)).y = 1 := by decide
-- rows_consecutive / drawn_cell_row_recorded on the same render
example := drawn_cell_row_recorded (envFor w1 cfg0 4 2 true 0) ["abcdefghij ".toList, "k ".toList, "lmnopq ".toList] s0
example := rows_consecutive (envFor w1 cfg0 4 2 true 0) ["abcdefghij ".toList, "k ".toList, "lmnopq ".toList] s0

-- processors: tab stops 4, "a\tb\t" → display "a|..b|.." ; map 0,1,4,5,8,9
example : tabsMap 4 "a\tb\t".toList = [0, 1, 4, 5, 8, 9] := by decide
example : tabsOut 4 '|' '.' "a\tb\t".toList 0 = "a|..b|..".toList := by decide
example := tabs_roundtrip 4 (by decide) "a\tb\t".toList 3 (by decide)
example := tabs_d2s_floor (tabsMap 4 "a\tb\t".toList) (tabs_mono 4 (by decide) _) 1 (by decide) 3
  (by decide) (by decide)
example : (merged 0 1 cfg1.procs "a\tb".toList).frags = "$ a|b".toList := by decide
example := merged_good 0 1 cfg1.procs (by intro p hp; simp [cfg1] at hp; rcases hp with rfl | rfl <;> simp [ProcOK])
  "a\tb".toList

/-- the end-to-end theorem on a non-trivial state: margin + prefixes + BeforeInput + tabs, window
    12×2 (content 9 after the 3-column margin), previous scroll state scrolled far away -/
example := render_cursor_on_char w1_W1 cfg1
  (by intro p hp; simp [cfg1] at hp; rcases hp with rfl | rfl <;> simp [ProcOK])
  12 2 9 true "ab\tcd\nefghijklmnopqrstuvw\nx".toList 20 sOld (by decide) (by decide) (by decide)
  (by intro f hf l k
      simp only [cfg1, Cfg.prefixFn, Option.map_some, Option.some.injEq] at hf
      subst hf
      show (if k > 0 then ". ".toList else if l = 0 then "> ".toList else ". ".toList).length < 9
      split
      · decide
      · split <;> decide)

/-! ### the findings, machine-checked on the model (negations of the main theorems outside their
    hypotheses).  `dm` = the scroll code measures characters as drawn (fix 9db5f12, applied);
    `exact` = cell-by-cell wrapped height (proposed fix C11-wide-wrap-height.diff, NOT applied). -/

/-- '世' is two columns wide -/
def wWide : Widths := { rw := fun c => if c = '世' then 2 else 1, disp := fun c => [c], dm := true }

/-- KNOWN finding (wide characters, wrapping; the code as it is now): width 2, height 1, line "a世" +
    blank, cursor on the blank: the height estimate says 2 rows (4 cells / 2), the copy loop needs 3
    ('a' / '世' / ' '), the scroll stops one row short and the cursor cell is not drawn -/
theorem wide_wrap_loses_cursor :
    let lines := ["a世 ".toList]
    let s' := scrollFor wWide cfg0 lines 2 1 true 0 2 s0
    s'.vs2 = 1 ∧ cursorFound (copyBody (envFor wWide cfg0 2 1 true 0) lines s') 0 2 = false := by
  decide

/-- a raw TAB: `get_cwidth` says 0, it is drawn as "^I" (2 columns); `dm` selects which of the two the
    scroll code uses -/
def wCtrl (dm : Bool) : Widths :=
  { rw := fun c => if c = '\t' then 0 else 1, disp := fun c => if c = '\t' then ['^', 'I'] else [c], dm := dm }

/-- FIXED finding (control characters, no wrapping): width 5, "\t\t\t\tx" + blank, cursor on 'x'.
    Before 9db5f12 (`dm = false`) the scroll code measured 0 columns before the cursor while the cell
    is at column 8: not drawn.  With 9db5f12 (`dm = true`) horizontal_scroll becomes 4 and the cursor
    is on 'x' at column 4. -/
theorem control_nowrap_before_and_after_fix :
    (let W := wCtrl false
     let lines := ["\t\t\t\tx ".toList]
     let s' := scrollFor W cfg0 lines 5 1 false 0 4 s0
     s'.hs = 0 ∧ cursorFound (copyBody (envFor W cfg0 5 1 false 0) lines s') 0 4 = false) ∧
    (let W := wCtrl true
     let lines := ["\t\t\t\tx ".toList]
     let s' := scrollFor W cfg0 lines 5 1 false 0 4 s0
     let r := copyBody (envFor W cfg0 5 1 false 0) lines s'
     s'.hs = 4 ∧ cursorFound r 0 4 = true ∧ cursorScreen r 0 4 = (0, 4) ∧ cellAt r.cells (0, 4) = ['x']) := by
  decide

/-- KNOWN finding (control characters, wrapping; the code as it is now, `dm = true`): width 3, height 1,
    "\t\tx" + blank, cursor on the blank: estimate (2+2+1+1)/3 = 2 rows, the copy needs 3
    ('^I' / '^Ix' / ' ') — a two-cell control character behaves like a double-width character -/
theorem control_wrap_loses_cursor :
    let W := wCtrl true
    let lines := ["\t\tx ".toList]
    let s' := scrollFor W cfg0 lines 3 1 true 0 3 s0
    s'.vs2 = 1 ∧ cursorFound (copyBody (envFor W cfg0 3 1 true 0) lines s') 0 3 = false := by
  decide

/-- the two remaining inputs on the model variant of the NOT-APPLIED repair (`exact := true`): the
    cursor is found, inside the window, on its cell -/
theorem proposed_fix_recovers_cursor :
    (let W := { wWide with exact := true }
     let lines := ["a世 ".toList]
     let r := copyBody (envFor W cfg0 2 1 true 0) lines (scrollFor W cfg0 lines 2 1 true 0 2 s0)
     cursorFound r 0 2 = true ∧ cursorScreen r 0 2 = (0, 0) ∧ cellAt r.cells (0, 0) = [' ']) ∧
    (let W := { wCtrl true with exact := true }
     let lines := ["\t\tx ".toList]
     let r := copyBody (envFor W cfg0 3 1 true 0) lines (scrollFor W cfg0 lines 3 1 true 0 3 s0)
     cursorFound r 0 3 = true ∧ cursorScreen r 0 3 = (0, 0) ∧ cellAt r.cells (0, 0) = [' ']) := by
  decide

-- heights of "a世a" at width 2: arithmetic 2, cell by cell 3 (= rows of the copy loop)
example : heightForLine wWide "a世a".toList 2 none none = 2 := by decide
example : heightForLine { wWide with exact := true } "a世a".toList 2 none none = 3 := by decide
example : (copyLine (envFor wWide cfg0 2 9 true 0) 0 0 "a世a".toList (initCS 0)).y + 1 = 3 := by decide
example := wrap_height_exact_fixed { wWide with exact := true } rfl rfl cfg0 2 9 0 (by decide) 0
  (fun f h => by simp [cfg0, Cfg.prefixFn] at h) (fun f h => by simp [cfg0, Cfg.prefixFn] at h)
  "a世a".toList (initCS 0) rfl (by decide)
example := wrappedHeight_ones (fun _ => 1) 3 (fun _ => by decide) 7 1 1 8 (by decide) (by decide)

/-- KNOWN finding, second shape (the code as it is now): the line with the double-width characters is
    ABOVE the cursor line.  Width 3, height 4, "ab世世世" + blank is estimated at 9 / 3 = 3 rows but copied
    in 4 ("ab" / "世" / "世" / "世 "); the cursor line below it is believed to fit (3 + 1 ≤ 4), nothing
    scrolls, and the cursor cell is never drawn.  So the excluded region of
    `wrap_cursor_in_window_partial` is "a non-one-column cell on a displayed line at or above the cursor
    that wraps", not only the cursor line itself. -/
theorem wide_line_above_loses_cursor :
    let lines := ["ab世世世 ".toList, "x ".toList]
    let s' := scrollFor wWide cfg0 lines 3 4 true 1 1 s0
    s'.vs = 0 ∧ s'.vs2 = 0 ∧ cursorFound (copyBody (envFor wWide cfg0 3 4 true 0) lines s') 1 1 = false ∧
      ¬ Regular wWide cfg0 3 0 "ab世世世 ".toList := by
  decide

/-- KNOWN finding (own class): a zero-width (combining) character under the cursor has no cell of its
    own.  Width 2, "世" + U+0301 + blank, cursor on the accent: the row is exactly full, `copy_line`
    neither wraps (x + 0 > width is false) nor records the position (x < width is false). -/
theorem zero_width_under_cursor_not_recorded :
    let lines := ["世́ ".toList]
    let s' := scrollFor wMix cfgN lines 2 1 true 0 1 s0
    cursorFound (copyBody (envFor wMix cfgN 2 1 true 0) lines s') 0 1 = false ∧ cellW wMix '́' = 0 := by
  decide

/-- the same three shapes WITHOUT wrapping: the cursor is found, inside the window, on its cell
    (instances of `nowrap_cursor_in_window_gen`, which holds for all inputs) -/
theorem nowrap_has_no_such_finding :
    (let lines := ["a世 ".toList]
     let r := copyBody (envFor wWide cfg0 2 1 false 0) lines (scrollFor wWide cfg0 lines 2 1 false 0 2 s0)
     cursorFound r 0 2 = true ∧ cellAt r.cells (cursorScreen r 0 2) = [' ']) ∧
    (let lines := ["ab世世世 ".toList, "x ".toList]
     let r := copyBody (envFor wWide cfg0 3 4 false 0) lines (scrollFor wWide cfg0 lines 3 4 false 1 1 s0)
     cursorFound r 1 1 = true ∧ cellAt r.cells (cursorScreen r 1 1) = [' ']) ∧
    (let lines := ["世́ ".toList]
     let r := copyBody (envFor wMix cfgN 2 1 false 0) lines (scrollFor wMix cfgN lines 2 1 false 0 1 s0)
     cursorFound r 0 1 = true) := by
  decide

/-! ### mouse: a click on the cursor cell is the inverse of the cursor placement -/

theorem render_eq (W : Widths) (c : Cfg) (tw height : Nat) (wrap : Bool) (text : Text) (cur : Nat) (s : Scroll) :
    render W c tw height wrap text cur s =
      (cursorX c.procs text cur).map fun cx =>
        let lines := contentLines c.procs text
        let mw : Nat := c.leftWidth W lines.length
        let width : Int := c.bodyWidth W tw lines.length
        let s' := scrollFor W c lines width height wrap (rowOf text cur) cx s
        { scroll := s', cy := rowOf text cur, cx := cx, width := width, xoff := c.xpos + mw,
          st := copyBody (envFor W c width height wrap mw) lines s' } := by
  unfold render
  cases cursorX c.procs text cur <;> rfl

/-- **click_roundtrip** (end to end, one-column cells, both wrap modes, any previous scroll state,
    any processors with good maps): render a document with the cursor at index `cur`; a MOUSE_DOWN on
    the screen cell where the cursor was drawn is turned by the window's handler into exactly the
    cursor's content position `(row, col)`, and `BufferControl.mouse_handler` turns that — through
    `display_to_source` of the merged processors and `translate_row_col_to_index` — back into `cur`. -/
theorem click_roundtrip {W : Widths} (hW : W1 W) (c : Cfg) (hps : ∀ p ∈ c.procs, ProcOK p)
    (tw height w : Nat) (wrap : Bool) (text : Text) (cur : Nat) (s : Scroll)
    (hw : c.bodyWidth W tw (contentLines c.procs text).length = (w : Int))
    (h1 : 1 ≤ w) (hh : 1 ≤ height)
    (hpfx : ∀ f, c.prefixFn = some f → ∀ l k, (f l k).length < w)
    (hcur : cur ≤ text.length) (hx0 : 0 ≤ c.xpos) :
    ∃ r, render W c tw height wrap text cur s = some r ∧
      windowClick r.st c.ypos (cursorScreen r.st r.cy r.cx).1 (cursorScreen r.st r.cy r.cx).2 = (r.cy, r.cx) ∧
      bufferClick c.procs text r.cy r.cx = cur := by
  obtain ⟨r, hr, hcy, yc, xc, ch, _, _, _, a4, a5, _⟩ :=
    render_cursor_on_char hW c hps tw height w wrap text cur s hw h1 hh hpfx
  refine ⟨r, hr, ?_, ?_⟩
  · rw [render_eq] at hr
    cases hcX : cursorX c.procs text cur with
    | none => rw [hcX] at hr; cases hr
    | some cx =>
      rw [hcX] at hr
      simp only [Option.map_some, Option.some.injEq] at hr
      subst hr
      simp only [] at a4 a5 ⊢
      exact click_cursor_cell (e := envFor W c _ height wrap _) hW _ _ (scrollFor_vs2_nonneg ..) _ _ a4
        (by rw [a5]; simp only []; omega)
  · have hrow := rowOf_lt text cur
    have hcol := colOf_le text cur
    have hg := merged_good (rowOf text cur) (splitOn '\n' text).length c.procs hps
      ((splitOn '\n' text).getD (rowOf text cur) [])
    obtain ⟨cx, hcx1, _, hcx3⟩ := hg.defd (colOf text cur) hcol
    have hcX : cursorX c.procs text cur = some cx := hcx1
    rw [render_eq, hcX] at hr
    simp only [Option.map_some, Option.some.injEq] at hr
    subst hr
    show rowColToIndex text (rowOf text cur) _ = cur
    rw [hcx3]
    exact rowColToIndex_rowcol text cur hcur

-- non-vacuity: margin + prefixes + BeforeInput + tabs, a scrolled-away previous state
example := click_roundtrip w1_W1 cfg1
  (by intro p hp; simp [cfg1] at hp; rcases hp with rfl | rfl <;> simp [ProcOK])
  12 2 9 true "ab\tcd\nefghijklmnopqrstuvw\nx".toList 20 sOld (by decide) (by decide) (by decide)
  (by intro f hf l k
      simp only [cfg1, Cfg.prefixFn, Option.map_some, Option.some.injEq] at hf
      subst hf
      show (if k > 0 then ". ".toList else if l = 0 then "> ".toList else ". ".toList).length < 9
      split
      · decide
      · split <;> decide)
  (by decide) (by decide)
-- a click two cells right of a tab's first cell still lands on the tab (tabs_d2s_floor): "a\tb", tab stop 4
example : bufferClick [.tabs 4 '|' '.'] "a\tb".toList 0 3 = 1 := by decide
-- clicking right of the end of the line / below the last line: the last position of the row / the last row
example : let r := copyBody (envFor w1 cfg0 6 3 false 0) ["ab ".toList, "c ".toList] s0
    windowClick r 0 0 5 = (0, 2) ∧ windowClick r 0 2 0 = (1, 0) ∧ windowClick r 0 1 1 = (1, 1) := by decide
example := click_recorded_cell (e := envFor w1 cfg0 6 3 false 0) w1_W1 ["ab ".toList, "c ".toList] s0 (by decide)
  ((1, 1), (1, 1)) (by decide) (by decide)
example := rowColToIndex_rowcol "ab\ncd\n\nx".toList 5 (by decide)

/-! ### `get_vertical_scroll` / `get_horizontal_scroll` callbacks -/

/-- a window with scroll callbacks: whatever the callbacks return on each render (they only replace
    the previous scroll state before `do_scroll` runs), the cursor is shown on its character — one-column
    cells, both wrap modes -/
theorem renderCb_cursor_on_char {W : Widths} (hW : W1 W) (c : Cfg) (hps : ∀ p ∈ c.procs, ProcOK p)
    (tw height w : Nat) (wrap : Bool) (text : Text) (cur : Nat) (cbV cbH : Option Int) (s : Scroll)
    (hw : c.bodyWidth W tw (contentLines c.procs text).length = (w : Int))
    (h1 : 1 ≤ w) (hh : 1 ≤ height)
    (hpfx : ∀ f, c.prefixFn = some f → ∀ l k, (f l k).length < w) :
    ∃ r, renderCb W c tw height wrap text cur cbV cbH s = some r ∧ r.cy = rowOf text cur ∧
      ∃ (yc xc : Nat) (ch : Char), yc < height ∧ xc < w ∧
        ((contentLines c.procs text).getD r.cy [])[r.cx]? = some ch ∧
        cursorFound r.st r.cy r.cx = true ∧
        cursorScreen r.st r.cy r.cx = ((yc : Int) + c.ypos, (xc : Int) + r.xoff) ∧
        cellAt r.st.cells ((yc : Int) + c.ypos, (xc : Int) + r.xoff) = [ch] :=
  render_cursor_on_char hW c hps tw height w wrap text cur (applyCallbacks wrap cbV cbH s) hw h1 hh hpfx

/-- the same for any cell widths (no wrapping: all inputs; the callbacks are only consulted there) -/
theorem renderCb_cursor_shown {W : Widths} (hdm : W.dm = true) (hblank : cellW W ' ' = 1) (c : Cfg)
    (hps : ∀ p ∈ c.procs, ProcOK p) (tw height w : Nat) (wrap : Bool) (text : Text) (cur : Nat)
    (cbV cbH : Option Int) (s : Scroll)
    (hd : RenderDomain W c tw height w wrap text cur (applyCallbacks wrap cbV cbH s)) :
    CursorShown W c height text cur (renderCb W c tw height wrap text cur cbV cbH s) :=
  render_cursor_shown hdm hblank c hps tw height w wrap text cur (applyCallbacks wrap cbV cbH s) hd

-- a callback that asks for column 40 / line 9 of a short document: the scroll code corrects it
example : let r := renderCb w1 cfg0 4 2 false "abcdefgh\nij".toList 3 (some 9) (some 40) s0
    r.map (fun x => (x.scroll.vs, decide (x.scroll.hs ≤ 3), cursorFound x.st x.cy x.cx)) = some (0, true, true) := by decide
example := renderCb_cursor_on_char w1_W1 cfg0 (by simp [cfg0]) 4 2 4 false "abcdefgh\nij".toList 3 (some 9) (some 40) s0
  (by decide) (by decide) (by decide) (fun f h => by simp [cfg0, Cfg.prefixFn] at h)
-- the new processors: ShowTrailing/LeadingWhiteSpace, a restyling processor, an enabled conditional BeforeInput,
-- a disabled dynamic PasswordProcessor, nested merges
example : (merged 0 1 [.trailing '~', .leading '_', .ident, .cond true (.before ">".toList), .cond false (.password '*')]
    "  a b  ".toList).frags = ">__a b~~".toList := by decide
example : (merged 0 1 [.group [.before "$ ".toList, .group [.tabs 3 '|' '.', .ident]], .cond true (.after "<".toList)]
    "a\tb".toList).frags = "$ a|..b<".toList := by decide
example := merged_good 0 1 [.group [.before "$ ".toList, .group [.tabs 3 '|' '.', .ident]], .cond true (.after "<".toList)]
  (by intro p hp; simp at hp; rcases hp with rfl | rfl <;> simp [ProcOK, ProcsOK]) "a\tb".toList
example := mergedT_good [applyProc 0 1 (.before "> ".toList), applyProc 0 1 (.tabs 4 '|' '.')]
  (by intro p hp; simp at hp; rcases hp with rfl | rfl
      · exact fun t => applyProc_good 0 1 (.before "> ".toList) (by simp [ProcOK]) t
      · exact fun t => applyProc_good 0 1 (.tabs 4 '|' '.') (by simp [ProcOK]) t)
example := mergedT_nested [applyProc 0 1 (.before "> ".toList)] [applyProc 0 1 (.tabs 4 '|' '.'), applyProc 0 1 .ident]
  [applyProc 0 1 (.after "<".toList)] "a\tb".toList
example := leadingOut_length '_' "  a b  ".toList
example := leadingOut_blank '_' "  a b  ".toList 1 (by decide)

/-! ### left AND right margins: the width bookkeeping of `_write_to_screen_at_index` -/

theorem totalMarginWidth_eq (c : Cfg) (W : Widths) (lc : Nat) :
    c.totalMarginWidth W lc = c.leftWidth W lc + c.rightWidth W lc := by
  simp [Cfg.totalMarginWidth, Cfg.leftWidth, Cfg.rightWidth, List.sum_append]

/-- **one body width, used consistently**: the scroll code and the body copy work with the same width
    `window width − all margins`; the body starts after the left margins and ends exactly where the
    right margins begin -/
theorem render_body_geometry (W : Widths) (c : Cfg) (tw height : Nat) (wrap : Bool) (text : Text) (cur : Nat)
    (s : Scroll) (r : Rendered) (h : render W c tw height wrap text cur s = some r) :
    let lc := (contentLines c.procs text).length
    r.width = c.bodyWidth W tw lc ∧ r.xoff = c.xpos + c.leftWidth W lc ∧
      r.xoff + r.width = c.xpos + tw - c.rightWidth W lc ∧
      r.scroll = scrollFor W c (contentLines c.procs text) r.width height wrap r.cy r.cx s ∧
      r.st = copyBody (envFor W c r.width height wrap (c.leftWidth W lc)) (contentLines c.procs text) r.scroll := by
  rw [render_eq] at h
  cases hcX : cursorX c.procs text cur with
  | none => rw [hcX] at h; cases h
  | some cx =>
    rw [hcX] at h
    simp only [Option.map_some, Option.some.injEq] at h
    subst h
    refine ⟨rfl, rfl, ?_, rfl, rfl⟩
    simp only [Cfg.bodyWidth, totalMarginWidth_eq]
    push_cast; omega

/-- a window with a numbered margin, a conditional prompt margin on the left and a scrollbar plus a
    disabled conditional margin on the right -/
def cfgM : Cfg := { cfg1 with lefts := [.cond true (.prompt "ab".toList)], rights := [.scrollbar, .cond false .scrollbar] }

example : cfgM.leftWidth w1 3 = 5 ∧ cfgM.rightWidth w1 3 = 1 ∧ cfgM.bodyWidth w1 15 3 = 9 := by decide
-- the end-to-end theorem with right margins: window 15 wide, body 9 = 15 − (3 + 2) − (1 + 0)
example := render_cursor_on_char w1_W1 cfgM
  (by intro p hp; simp [cfgM, cfg1] at hp; rcases hp with rfl | rfl <;> simp [ProcOK])
  15 2 9 true "ab\tcd\nefghijklmnopqrstuvw\nx".toList 20 sOld (by decide) (by decide) (by decide)
  (by intro f hf l k
      simp only [cfgM, cfg1, Cfg.prefixFn, Option.map_some, Option.some.injEq] at hf
      subst hf
      show (if k > 0 then ". ".toList else if l = 0 then "> ".toList else ". ".toList).length < 9
      split
      · decide
      · split <;> decide)
example : (render w1 cfgM 15 2 false "abcdefghijklmnop".toList 16 s0).map
    (fun r => (r.width, r.xoff, cursorFound r.st r.cy r.cx, decide ((cursorScreen r.st r.cy r.cx).2 < 7 + 9))) =
      some (9, 7, true, true) := by decide

/-! ### BeforeInput with `[ZeroWidthEscape]` fragments in the prompt -/

/-- "$ " wrapped in shell-integration escapes: a zero-width fragment before, between and after the
    visible characters (as `ANSI("\001..\002$\001..\002 \001..\002")` with a `style=` produces them) -/
def cfgZ : Cfg := { cfg0 with procs := [.beforeF [(true, "\x1b]133;A\x07".toList), (false, "$".toList),
                                                 (true, "\x1b]133;B\x07".toList), (false, " ".toList), (true, "zz".toList)]] }

-- the shift is the number of visible characters (2), not the total length (16); round trip for every column
example : fragLen [(true, "\x1b]133;A\x07".toList), (false, "$".toList), (true, "zz".toList), (false, " ".toList)] = 2 := by decide
example : (merged 0 1 cfgZ.procs "ab".toList).frags = "$ ab".toList ∧
    (merged 0 1 cfgZ.procs "ab".toList).s2d 1 = some 3 ∧ (merged 0 1 cfgZ.procs "ab".toList).d2s 3 = 1 := by decide
example := merged_good 0 1 cfgZ.procs (by intro p hp; simp [cfgZ, cfg0] at hp; subst hp; simp [ProcOK]) "ab".toList
/-- the cursor theorem with zero-width-escape fragments in the BeforeInput prompt (instance of
    `render_cursor_on_char`, which covers `.beforeF` through `merged_good`) -/
example := render_cursor_on_char w1_W1 cfgZ (by intro p hp; simp [cfgZ, cfg0] at hp; subst hp; simp [ProcOK])
  4 1 4 false "abcdef".toList 6 sOld (by decide) (by decide) (by decide)
  (fun f h => by simp [cfgZ, cfg0, Cfg.prefixFn] at h)
example : (render w1 cfgZ 4 1 false "abcdef".toList 6 sOld).map
    (fun r => (r.cx, cursorFound r.st r.cy r.cx, cellAt r.st.cells (cursorScreen r.st r.cy r.cx))) =
      some (8, true, [' ']) := by decide

end Ptk.C11
