/-
  C11 — property theorems for the window render model (`Ptk.Model.C11`).
-/
import Ptk.Model.C11
namespace Ptk.C11
open Ptk.Py

theorem tdiv2 (ws : Int) (h : 0 ≤ ws) : Int.tdiv ws 2 = ws / 2 := by
  rw [Int.tdiv_eq_ediv_of_nonneg h]

/-- after `do_scroll` the cursor is inside `[scroll, scroll + window)`, for every previous scroll -/
theorem doScroll_visible (beyond : Bool) (cur a b cp ws cs : Int)
    (hws : 1 ≤ ws) (hcp : 0 ≤ cp) (hcs : cp < cs) (ha : 0 ≤ a) (hb : 0 ≤ b) :
    0 ≤ doScroll beyond cur a b cp ws cs ∧ doScroll beyond cur a b cp ws cs ≤ cp ∧
      cp < doScroll beyond cur a b cp ws cs + ws := by
  simp only [doScroll, tdiv2 ws (by omega)]
  repeat' split
  all_goals omega

end Ptk.C11
