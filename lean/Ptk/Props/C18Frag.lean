/-
  C18 — theorems about the fragment utilities (split_lines, explode_text_fragments,
  fragment_list_to_text/len/width, to_formatted_text, Template, merge_formatted_text).
-/
import Ptk.Model.C18
namespace Ptk.C18
open Ptk.Py

/-! ## 1. fragment utilities -/

/-- one character with the style and mouse handler of its fragment -/
structure Cell where
  style : Text
  ch : Char
  handler : Option Nat
deriving Repr, DecidableEq

def cellsOf (f : Frag) (t : Text) : List Cell := t.map fun c => ⟨f.style, c, f.handler⟩

/-- the character-level content of a fragment list: what every consumer finally renders -/
def cells (fs : Frags) : List Cell := fs.flatMap fun f => cellsOf f f.text

def Cell.isNl (x : Cell) : Bool := x.ch == '\n'

/-- specification of line splitting on the character level: cut the list at every newline cell
    (`acc` = the line under construction) -/
def cutFrom : List Cell → List Cell → List (List Cell)
  | acc, [] => [acc]
  | acc, x :: xs => if x.isNl then acc :: cutFrom [] xs else cutFrom (acc ++ [x]) xs

/-- lines re-joined with the given separators -/
def weave : List (List Cell) → List Cell → List Cell
  | [], _ => []
  | [l], _ => l
  | l :: ls, [] => l ++ weave ls []
  | l :: ls, s :: ss => l ++ s :: weave ls ss

theorem cells_append (a b : Frags) : cells (a ++ b) = cells a ++ cells b := by simp [cells]

theorem cells_cons (f : Frag) (fs : Frags) : cells (f :: fs) = cellsOf f f.text ++ cells fs := by
  simp [cells]

theorem cellsOf_append (f : Frag) (a b : Text) : cellsOf f (a ++ b) = cellsOf f a ++ cellsOf f b := by
  simp [cellsOf]

theorem cutFrom_noNl (acc a rest : List Cell) (ha : ∀ x ∈ a, x.isNl = false) :
    cutFrom acc (a ++ rest) = cutFrom (acc ++ a) rest := by
  induction a generalizing acc with
  | nil => simp
  | cons x xs ih =>
    have hx := ha x (by simp)
    simp [cutFrom, hx, ih (acc ++ [x]) (fun y hy => ha y (by simp [hy]))]

theorem cutFrom_nl (acc a rest : List Cell) (nl : Cell) (ha : ∀ x ∈ a, x.isNl = false)
    (hn : nl.isNl = true) : cutFrom acc (a ++ nl :: rest) = (acc ++ a) :: cutFrom [] rest := by
  rw [cutFrom_noNl acc a _ ha]; simp [cutFrom, hn]

/-! `str.split` / `str.join` facts -/
theorem splitOn_ne_nil (c : Char) (t : Text) : splitOn c t ≠ [] := by
  induction t with
  | nil => simp [splitOn]
  | cons x xs ih =>
    unfold splitOn; split
    · simp
    · split <;> simp

theorem join_splitOn (c : Char) (t : Text) : join [c] (splitOn c t) = t := by
  induction t with
  | nil => simp [splitOn, join]
  | cons x xs ih =>
    unfold splitOn; split
    · rename_i h; subst h
      cases hs : splitOn x xs with
      | nil => exact absurd hs (splitOn_ne_nil _ _)
      | cons l ls => rw [hs] at ih; simp [join, ih]
    · cases hs : splitOn c xs with
      | nil => exact absurd hs (splitOn_ne_nil _ _)
      | cons l ls =>
        rw [hs] at ih
        cases ls with
        | nil => simp [join] at ih ⊢; exact ih
        | cons l2 ls2 => simp [join] at ih ⊢; exact ih

theorem splitOn_noSep (c : Char) (t : Text) : ∀ p ∈ splitOn c t, c ∉ p := by
  induction t with
  | nil => simp [splitOn]
  | cons x xs ih =>
    unfold splitOn; split
    · intro p hp; simp at hp; rcases hp with rfl | hp
      · simp
      · exact ih p hp
    · rename_i hne
      cases hs : splitOn c xs with
      | nil => exact absurd hs (splitOn_ne_nil _ _)
      | cons l ls =>
        rw [hs] at ih
        intro p hp; simp at hp; rcases hp with rfl | hp
        · have := ih l (by simp)
          simp; exact ⟨fun h => hne h.symm, this⟩
        · exact ih p (by simp [hp])

theorem cellsOf_noNl (f : Frag) (p : Text) (h : '\n' ∉ p) : ∀ x ∈ cellsOf f p, x.isNl = false := by
  intro x hx
  simp [cellsOf] at hx
  obtain ⟨c, hc, rfl⟩ := hx
  simp [Cell.isNl]; intro h2; subst h2; exact h hc

/-- the inner loop of `split_lines` for one fragment cuts that fragment's characters at their
    newlines, continuing the line under construction -/
theorem feedParts_cut (f : Frag) (parts : List Text) (hne : parts ≠ [])
    (hp : ∀ p ∈ parts, '\n' ∉ p) (line : Frags) (rest : List Cell) :
    cutFrom (cells line) (cellsOf f (join ['\n'] parts) ++ rest) =
      (feedParts f line parts).1.map cells ++ cutFrom (cells (feedParts f line parts).2) rest := by
  induction parts generalizing line with
  | nil => exact absurd rfl hne
  | cons part ps ih =>
    cases ps with
    | nil =>
      simp only [join, feedParts, List.map_nil, List.nil_append]
      rw [cutFrom_noNl _ _ _ (cellsOf_noNl f part (hp part (by simp)))]
      simp [cells, cellsOf]
    | cons p2 ps2 =>
      have hpart := hp part (by simp)
      have ih' := ih (by simp) (fun p h => hp p (by simp [h])) []
      simp only [join, feedParts]
      rw [cellsOf_append, cellsOf_append, List.append_assoc, List.append_assoc]
      have : cellsOf f ['\n'] = [⟨f.style, '\n', f.handler⟩] := rfl
      rw [this]
      simp only [List.cons_append, List.nil_append]
      rw [cutFrom_nl _ _ _ _ (cellsOf_noNl f part hpart) (by simp [Cell.isNl])]
      rw [show cells ([] : Frags) = [] from rfl] at ih'
      rw [ih']
      simp only [List.map_cons, List.cons_append]
      congr 1
      split
      · rename_i he
        have : part = [] := by simpa using he
        subst this; simp [cellsOf]
      · simp [cells, cellsOf]

theorem splitGo_cells (line fs : Frags) :
    (splitGo line fs).map cells = cutFrom (cells line) (cells fs) := by
  induction fs generalizing line with
  | nil => simp [splitGo, cells, cutFrom]
  | cons f fs ih =>
    rw [cells_cons]
    have h := feedParts_cut f (splitOn '\n' f.text) (splitOn_ne_nil _ _) (splitOn_noSep _ _) line
      (cells fs)
    rw [join_splitOn] at h
    rw [h]
    simp only [splitGo]
    simp [ih]

/-- **split_lines, character level.**  The lines returned by `split_lines`, read character by
    character (each with its style and handler), are exactly the input's characters cut at the
    newlines: nothing is lost, reordered, restyled or moved to another line. -/
theorem splitLines_cells (fs : Frags) : (splitLines fs).map cells = cutFrom [] (cells fs) := by
  simpa [splitLines, cells] using splitGo_cells [] fs


theorem cutFrom_length (acc xs : List Cell) :
    (cutFrom acc xs).length = (xs.filter Cell.isNl).length + 1 := by
  induction xs generalizing acc with
  | nil => simp [cutFrom]
  | cons x xs ih =>
    unfold cutFrom
    cases hx : x.isNl <;> simp [hx, ih]

theorem cutFrom_lines_noNl (acc xs : List Cell) (hacc : ∀ x ∈ acc, x.isNl = false) :
    ∀ l ∈ cutFrom acc xs, ∀ x ∈ l, x.isNl = false := by
  induction xs generalizing acc with
  | nil => intro l hl; simp [cutFrom] at hl; subst hl; exact hacc
  | cons x xs ih =>
    unfold cutFrom
    cases hx : x.isNl
    · simp only [Bool.false_eq_true, if_false]
      apply ih
      intro y hy; simp at hy; rcases hy with hy | rfl
      · exact hacc y hy
      · exact hx
    · simp only [if_true]
      intro l hl; simp at hl; rcases hl with rfl | hl
      · exact hacc
      · exact ih [] (by simp) l hl

theorem cutFrom_ne_nil (acc xs : List Cell) : cutFrom acc xs ≠ [] := by
  have := cutFrom_length acc xs
  intro h; rw [h] at this; simp at this

/-- re-joining the cut lines with the removed newline cells gives back the original list -/
theorem weave_cutFrom (acc xs : List Cell) :
    weave (cutFrom acc xs) (xs.filter Cell.isNl) = acc ++ xs := by
  induction xs generalizing acc with
  | nil => simp [cutFrom, weave]
  | cons x xs ih =>
    unfold cutFrom
    cases hx : x.isNl
    · simp [hx, ih]
    · simp only [if_true, List.filter_cons, hx]
      cases hc : cutFrom [] xs with
      | nil => exact absurd hc (cutFrom_ne_nil _ _)
      | cons l ls =>
        have := ih []
        rw [hc] at this
        simp [weave, this]

/-- **split_lines then join is the identity** (with each character's style and handler): the lines
    of `split_lines`, re-joined with the input's own newline characters, are the input. -/
theorem splitLines_weave (fs : Frags) :
    weave ((splitLines fs).map cells) ((cells fs).filter Cell.isNl) = cells fs := by
  rw [splitLines_cells, weave_cutFrom]; simp

/-- `split_lines` yields one line more than there are newline characters (so at least one) -/
theorem splitLines_length (fs : Frags) :
    (splitLines fs).length = ((cells fs).filter Cell.isNl).length + 1 := by
  have := congrArg List.length (splitLines_cells fs)
  simpa [cutFrom_length] using this

/-- no line returned by `split_lines` contains a newline character -/
theorem splitLines_noNl (fs : Frags) : ∀ l ∈ splitLines fs, ∀ x ∈ cells l, x.ch ≠ '\n' := by
  intro l hl x hx
  have h1 : cells l ∈ (splitLines fs).map cells := List.mem_map_of_mem hl
  rw [splitLines_cells] at h1
  have := cutFrom_lines_noNl [] (cells fs) (by simp) _ h1 x hx
  simpa [Cell.isNl] using this

theorem allText_eq_cells (fs : Frags) : allText fs = (cells fs).map (·.ch) := by
  induction fs with
  | nil => simp [allText, cells]
  | cons f fs ih =>
    simp [allText, cells, cellsOf, Function.comp_def] at ih ⊢
    exact ih

theorem join_cons_ne (sep l : Text) (ls : List Text) (h : ls ≠ []) :
    join sep (l :: ls) = l ++ sep ++ join sep ls := by
  cases ls with
  | nil => exact absurd rfl h
  | cons a as => simp [join]

theorem join_cutFrom (acc xs : List Cell) :
    join ['\n'] ((cutFrom acc xs).map (·.map (·.ch))) = (acc ++ xs).map (·.ch) := by
  induction xs generalizing acc with
  | nil => simp [cutFrom, join]
  | cons x xs ih =>
    unfold cutFrom
    cases hx : x.isNl
    · simp [ih]
    · simp only [if_true, List.map_cons]
      rw [join_cons_ne _ _ _ (by simpa using cutFrom_ne_nil [] xs), ih []]
      have : x.ch = '\n' := by simpa [Cell.isNl] using hx
      simp [this]

/-- **split_lines then `"\n".join` is the identity on the text** -/
theorem splitLines_join_text (fs : Frags) :
    join ['\n'] ((splitLines fs).map allText) = allText fs := by
  have h : (splitLines fs).map allText = ((splitLines fs).map cells).map (·.map (·.ch)) := by
    simp [allText_eq_cells, Function.comp_def]
  rw [h, splitLines_cells, join_cutFrom, allText_eq_cells]; simp

/-! ### explode_text_fragments -/

/-- `explode_text_fragments` is the character-level content, one fragment per character -/
theorem explode_eq_cells (fs : Frags) :
    explode fs = (cells fs).map fun x => ⟨x.style, [x.ch], x.handler⟩ := by
  simp [explode, cells, cellsOf, List.map_flatMap, Function.comp_def]

theorem cells_explode (fs : Frags) : cells (explode fs) = cells fs := by
  induction fs with
  | nil => rfl
  | cons f fs ih =>
    have h1 : explode (f :: fs) = explode [f] ++ explode fs := by simp [explode]
    rw [h1, cells_append, ih, cells_cons]
    congr 1
    obtain ⟨st, tx, h⟩ := f
    induction tx with
    | nil => rfl
    | cons c cs ihc =>
      simp [explode, cells, cellsOf] at ihc ⊢
      exact ihc

/-- exploding twice is exploding once (`_ExplodedList` short-cut is semantically a no-op) -/
theorem explode_idem (fs : Frags) : explode (explode fs) = explode fs := by
  rw [explode_eq_cells (explode fs), cells_explode, ← explode_eq_cells]

theorem explode_single (fs : Frags) : ∀ f ∈ explode fs, f.text.length = 1 := by
  intro f hf; rw [explode_eq_cells] at hf; simp at hf
  obtain ⟨x, _, rfl⟩ := hf; rfl

/-! ### fragment_list_to_text / len / width -/

theorem fragText_append (a b : Frags) : fragText (a ++ b) = fragText a ++ fragText b := by
  simp [fragText]

theorem fragLen_append (a b : Frags) : fragLen (a ++ b) = fragLen a + fragLen b := by
  simp [fragLen]

theorem fragLen_eq_length (fs : Frags) : fragLen fs = (fragText fs).length := by
  simp [fragLen, fragText, List.length_flatten, Function.comp_def]

theorem sum_flatten_nat (ls : List (List Nat)) : ls.flatten.sum = (ls.map List.sum).sum := by
  induction ls with
  | nil => rfl
  | cons l ls ih => simp [List.sum_append, ih]

theorem fragWidth_eq (cw : Char → Nat) (fs : Frags) :
    fragWidth cw fs = ((fragText fs).map cw).sum := by
  simp [fragWidth, fragText, List.map_flatten, sum_flatten_nat, Function.comp_def]

theorem flatten_singletons (t : Text) : (t.map fun x => [x]).flatten = t := by
  induction t with
  | nil => rfl
  | cons c cs ih => simp [ih]

theorem fragText_explode (fs : Frags) : fragText (explode fs) = fragText fs := by
  induction fs with
  | nil => rfl
  | cons f fs ih =>
    have h1 : explode (f :: fs) = explode [f] ++ explode fs := by simp [explode]
    have h2 : f :: fs = [f] ++ fs := rfl
    rw [h1, fragText_append, ih, h2, fragText_append]
    congr 1
    obtain ⟨st, tx, h⟩ := f
    simp only [explode, fragText, List.flatMap_cons, List.flatMap_nil, List.append_nil]
    have hsame : ∀ c : Char, visibleFrag ⟨st, [c], h⟩ = visibleFrag ⟨st, tx, h⟩ := fun _ => rfl
    cases hv : visibleFrag ⟨st, tx, h⟩
    · simp [List.filter_map, Function.comp_def, hsame, hv]
    · simp [List.filter_map, Function.comp_def, hsame, hv, flatten_singletons]

theorem fragLen_explode (fs : Frags) : fragLen (explode fs) = fragLen fs := by
  rw [fragLen_eq_length, fragLen_eq_length, fragText_explode]

/-! ### to_formatted_text / to_plain_text / Template / merge -/

theorem visible_emptyStyle (t : Text) (h : Option Nat) : visibleFrag ⟨[], t, h⟩ = true := by
  have : (findSub? zwMarker []).isNone = true := by decide
  simpa [visibleFrag] using this

theorem toPlainText_str (t : Text) : toPlainText (.str t) = t := by
  simp [toPlainText, toFormattedText, fragText, visible_emptyStyle]


/-- the `style` argument of `to_formatted_text` only prefixes the styles: texts and handlers of
    the fragments are unchanged -/
theorem toFormattedText_texts (v : AnyFT) (st : Text) :
    (toFormattedText v st).map (fun f => (f.text, f.handler)) =
      (toFormattedText v []).map (fun f => (f.text, f.handler)) := by
  induction v with
  | call v ih => simpa [toFormattedText] using ih
  | none => simp [toFormattedText]
  | str t => by_cases h : st.isEmpty <;> simp [toFormattedText, h]
  | list fs => by_cases h : st.isEmpty <;> simp [toFormattedText, h, Function.comp_def]
  | magic fs => by_cases h : st.isEmpty <;> simp [toFormattedText, h, Function.comp_def]

theorem allText_append (a b : Frags) : allText (a ++ b) = allText a ++ allText b := by
  simp [allText]

/-- `merge_formatted_text`: the text is the concatenation of the parts' texts -/
theorem mergeFormattedText_text (items : List AnyFT) :
    allText (mergeFormattedText items) =
      (items.map fun v => allText (toFormattedText v [])).flatten := by
  induction items with
  | nil => rfl
  | cons v vs ih =>
    simp only [mergeFormattedText, List.flatMap_cons, allText_append, List.map_cons,
      List.flatten_cons] at ih ⊢
    rw [ih]

theorem splitOnSubGo_ne_nil (sep : Text) (k : Nat) (t : Text) : splitOnSubGo sep k t ≠ [] := by
  induction t generalizing k with
  | nil => simp [splitOnSubGo]
  | cons x xs ih =>
    cases k with
    | succ k => simpa [splitOnSubGo] using ih k
    | zero =>
      unfold splitOnSubGo; split
      · simp
      · split <;> simp

/-- template parts interleaved with value texts -/
def interleave : List Text → List Text → Text
  | [], _ => []
  | [p], _ => p
  | p :: ps, [] => p ++ interleave ps []
  | p :: ps, v :: vs => p ++ v ++ interleave ps vs

theorem templateFormat_text_aux (parts : List Text) (values : List AnyFT)
    (hlen : parts.length = values.length + 1) :
    allText ((parts.zip values).flatMap (fun pv =>
        ({ style := [], text := pv.1 } : Frag) :: toFormattedText pv.2 [])
      ++ [{ style := [], text := parts.getLast?.getD [] }]) =
      interleave parts (values.map fun v => allText (toFormattedText v [])) := by
  induction parts generalizing values with
  | nil => simp at hlen
  | cons p ps ih =>
    cases values with
    | nil =>
      have : ps = [] := by simpa using hlen
      subst this; simp [allText, interleave]
    | cons v vs =>
      cases ps with
      | nil => simp at hlen
      | cons p2 ps2 =>
        have := ih vs (by simpa using hlen)
        simp only [List.zip_cons_cons, List.flatMap_cons, List.map_cons, interleave]
        rw [List.getLast?_cons_cons, List.append_assoc, allText_append, this]
        simp [allText]

/-- **`Template.format`**: the plain text of the result is the template text with every `{}`
    replaced by the text of the corresponding value -/
theorem templateFormat_text (text : Text) (values : List AnyFT) (r : Frags)
    (h : templateFormat text values = some r) :
    allText r = interleave (splitOnSub bracePair text)
      (values.map fun v => allText (toFormattedText v [])) := by
  unfold templateFormat at h
  split at h
  · simp at h
  · simp only at h
    split at h
    · simp at h
    · rename_i hlen
      simp at h; subst h
      apply templateFormat_text_aux
      have := splitOnSubGo_ne_nil bracePair 0 text
      have : (splitOnSub bracePair text).length ≠ 0 := by
        simpa [splitOnSub] using this
      omega


/-! ### non-vacuity: the statements above on a concrete, non-trivial fragment list -/

def exFrags : Frags :=
  [⟨"b".toList, "a\nb".toList, some 1⟩, ⟨"[ZeroWidthEscape]".toList, "z".toList, none⟩,
   ⟨[], "\n\nc".toList, none⟩]

example : splitLines exFrags =
    [[⟨"b".toList, "a".toList, some 1⟩],
     [⟨"b".toList, "b".toList, some 1⟩, ⟨"[ZeroWidthEscape]".toList, "z".toList, none⟩],
     [],
     [⟨[], "c".toList, none⟩]] := by decide

example : (splitLines exFrags).length = 4 ∧ ((cells exFrags).filter Cell.isNl).length = 3 := by
  decide

example : fragText exFrags = "a\nb\n\nc".toList ∧ fragLen exFrags = 6 ∧
    allText exFrags = "a\nbz\n\nc".toList ∧ (explode exFrags).length = 7 := by decide

example : templateFormat "x{}y{}".toList [.str "1".toList, .call (.list exFrags)] ≠ none := by
  decide

end Ptk.C18
