/-
  C16, round 2 — several BufferControls, several search fields (`Ptk.Model.C16World`):
  frame over the layout (a search only ever moves the searched control's buffer), typing moves
  nothing anywhere, preview only in the searched control and equal to what Enter does there,
  start from a control that is not searchable, and the simulation theorem that ties the layout
  model to the one-control session model of `Ptk.Model.C16`.
-/
import Ptk.Props.C16Keys
import Ptk.Model.C16World
namespace Ptk.C16
open Ptk.Py

theorem set_getD_self {α} (l : List α) (i : Nat) (d : α) : l.set i (l.getD i d) = l := by
  by_cases h : i < l.length
  · apply List.ext_getElem (by simp)
    intro n h1 h2
    by_cases hn : i = n
    · subst hn; simp [List.getD, h]
    · simp [List.getElem_set_ne hn]
  · simp [List.set_eq_of_length_le (Nat.le_of_not_lt h)]

theorem getD_set_ne {α} (l : List α) (i j : Nat) (x d : α) (h : i ≠ j) :
    (l.set i x).getD j d = l.getD j d := by
  simp [List.getD, List.getElem?_set_ne h]

/-- the buffer a key press can reach: the one shown by the focused control, or by the control
    that the focused search field is linked to -/
def targetBuf (w : World) : Option Nat :=
  match w.focus with
  | .other => none
  | .ctrl i => (w.ctrls[i]?).map (·.buf)
  | .field k =>
    match (w.fld k).link with
    | none => none
    | some i => (w.ctrls[i]?).map (·.buf)

theorem keyVia_bufs (eqOf : Bool → Char → Char → Bool) (isSp : Char → Bool) (vi : Bool) (w : World)
    (i k : Nat) (sr : Bool) (key : XKey) (j : Nat)
    (hj : ∀ c, w.ctrls[i]? = some c → c.buf ≠ j) :
    (keyVia eqOf isSp vi w i k sr key).buf j = w.buf j := by
  unfold keyVia
  cases hc : w.ctrls[i]? with
  | none => rfl
  | some c =>
    simp only [World.buf]
    exact getD_set_ne _ _ _ _ _ (hj c hc)

/-- FRAME over the layout: whatever happens (key, focus change, start_search call), a buffer that
    is not the one being searched / edited through the focused control keeps text, entry and cursor -/
theorem wstep_other_bufs (eqOf : Bool → Char → Char → Bool) (isSp : Char → Bool) (vi : Bool)
    (w : World) (ev : WKey) (hev : ∀ i d, ev ≠ .startFor i d) (j : Nat) (hj : targetBuf w ≠ some j) :
    (wstep eqOf isSp vi w ev).buf j = w.buf j := by
  cases ev with
  | focus f =>
    simp only [wstep]
    split
    · rfl
    · cases f with
      | ctrl i => simp only; split <;> rfl
      | field k => rfl
      | other => rfl
  | startFor i d => exact absurd rfl (hev i d)
  | key key =>
    simp only [wstep]
    cases hf : w.focus with
    | other => rfl
    | field k =>
      simp only
      cases hl : (w.fld k).link with
      | none => rfl
      | some i =>
        simp only
        apply keyVia_bufs
        intro c hc hcb
        apply hj
        simp [targetBuf, hf, hl, hc, hcb]
    | ctrl i =>
      simp only
      cases hc : w.ctrls[i]? with
      | none => rfl
      | some c =>
        simp only
        have hne : c.buf ≠ j := by
          intro hcb; apply hj; simp [targetBuf, hf, hc, hcb]
        cases hs : c.sf with
        | some k =>
          simp only
          apply keyVia_bufs
          intro c' hc' ; rw [hc] at hc'; cases hc'; exact hne
        | none =>
          simp only
          split
          · rfl
          · simp only [World.buf]
            exact getD_set_ne _ _ _ _ _ hne


theorem getD_set_eq {α} (l : List α) (i : Nat) (x d : α) (h : i < l.length) :
    (l.set i x).getD i d = x := by
  simp [List.getD, h]

/-- focus changes and `start_search(…)` calls never move any cursor or change any text -/
theorem wstep_focus_start_bufs (eqOf : Bool → Char → Char → Bool) (isSp : Char → Bool) (vi : Bool)
    (w : World) (ev : WKey) (hev : (∃ f, ev = .focus f) ∨ (∃ i d, ev = .startFor i d) ∨
      (∃ d, ev = .key (.base (.start d)))) :
    (wstep eqOf isSp vi w ev).bufs = w.bufs := by
  have key : ∀ (w : World) (i k : Nat) (sr : Bool) (d : Dir),
      (keyVia eqOf isSp vi w i k sr (.base (.start d))).bufs = w.bufs := by
    intro w i k sr d
    unfold keyVia
    cases hc : w.ctrls[i]? with
    | none => rfl
    | some c =>
      simp only [stepX, start_frame, mkSess, World.buf]
      exact set_getD_self _ _ _
  rcases hev with ⟨f, rfl⟩ | ⟨i, d, rfl⟩ | ⟨d, rfl⟩
  · simp only [wstep]
    split
    · rfl
    · cases f with
      | ctrl i => simp only; split <;> rfl
      | field k => rfl
      | other => rfl
  · simp only [wstep]
    split
    · rfl
    · split
      · split
        · rfl
        · exact key _ _ _ _ _
      · rfl
  · simp only [wstep]
    cases hf : w.focus with
    | other => rfl
    | field k =>
      simp only
      cases hl : (w.fld k).link with
      | none => rfl
      | some i => exact key _ _ _ _ _
    | ctrl i =>
      simp only
      cases hc : w.ctrls[i]? with
      | none => rfl
      | some c =>
        simp only
        cases hs : c.sf with
        | some k => exact key _ _ _ _ _
        | none => rfl

/-- START from a control that is not searchable, or from something that is not a BufferControl:
    nothing at all happens (key binding filtered out by `control_is_searchable`; `start_search()`
    returns early) -/
theorem wstep_start_not_searchable (eqOf : Bool → Char → Char → Bool) (isSp : Char → Bool)
    (vi : Bool) (w : World) (d : Dir)
    (h : w.focus = .other ∨ ∃ i c, w.focus = .ctrl i ∧ w.ctrls[i]? = some c ∧ c.sf = none) :
    wstep eqOf isSp vi w (.key (.base (.start d))) = w := by
  rcases h with h | ⟨i, c, h1, h2, h3⟩
  · simp [wstep, h]
  · simp [wstep, h1, h2, h3]

theorem wstep_startFor_not_searchable (eqOf : Bool → Char → Char → Bool) (isSp : Char → Bool)
    (vi : Bool) (w : World) (i : Nat) (d : Dir) (c : Ctrl) (hc : w.ctrls[i]? = some c)
    (hs : c.sf = none) : wstep eqOf isSp vi w (.startFor i d) = w := by
  have hi : i < w.ctrls.length := by
    rcases Nat.lt_or_ge i w.ctrls.length with h | h
    · exact h
    · rw [List.getElem?_eq_none h] at hc; cases hc
  have : (w.ctrls.getD i ⟨0, none⟩) = c := by
    simp [List.getD, hc]
  simp only [wstep]
  split
  · rfl
  · simp only [this, hs]

/-- TYPING over the layout (Emacs mode): keys that edit the focused search field change no buffer
    of the whole layout -/
theorem wstep_fieldKeys_bufs (eqOf : Bool → Char → Char → Bool) (isSp : Char → Bool) (w : World)
    (k : Nat) (key : Key) (hk : FieldKey key) (hf : w.focus = .field k) :
    (wstep eqOf isSp false w (.key (.base key))).bufs = w.bufs := by
  simp only [wstep, hf]
  cases hl : (w.fld k).link with
  | none => rfl
  | some i =>
    simp only
    unfold keyVia
    cases hc : w.ctrls[i]? with
    | none => rfl
    | some c =>
      simp only
      have hb : stepX (eqOf (w.fld k).ic) isSp false false (mkSess (w.buf c.buf) (w.fld k) true) (.base key) =
          step (eqOf (w.fld k).ic) false (mkSess (w.buf c.buf) (w.fld k) true) key := by
        cases key <;> simp [stepX, mkSess]
      rw [hb, (fieldKey_step _ _ key hk rfl).1]
      simp only [mkSess, World.buf]
      exact set_getD_self _ _ _


/-- PREVIEW only in the searched control: every other control — also one that shares the search
    field and so "sees" the typed text — displays its real document -/
theorem wpreview_not_target (eqOf : Bool → Char → Char → Bool) (w : World) (j : Nat) (c : Ctrl)
    (hc : w.ctrls[j]? = some c) (hj : w.searchTarget ≠ some j) :
    wpreview eqOf w j = ((w.buf c.buf).text, (w.buf c.buf).cur) := by
  simp only [wpreview, hc]
  cases hs : c.sf with
  | none => rfl
  | some k' =>
    simp only
    have : (w.searchTarget == some j) = false := by simpa using hj
    simp [this]

/-- PREVIEW = ACCEPT over the layout: the searched control displays exactly the (text, cursor) its
    buffer has after Enter (Emacs mode; in Vi mode followed by the navigation-mode cursor fix) -/
theorem wpreview_eq_accept (eqOf : Bool → Char → Char → Bool) (isSp : Char → Bool) (w : World)
    (k i : Nat) (c : Ctrl) (hf : w.focus = .field k) (hl : (w.fld k).link = some i)
    (hc : w.ctrls[i]? = some c) (hs : c.sf = some k) (hb : c.buf < w.bufs.length)
    (hwf : BufWF (w.buf c.buf)) (hne : (w.fld k).field ≠ []) :
    let w' := wstep eqOf isSp false w (.key (.base .accept))
    wpreview eqOf w i = ((w'.buf c.buf).text, (w'.buf c.buf).cur) ∧ w'.focus = .ctrl i ∧
      (w'.fld k).link = none := by
  have hne' : (w.fld k).field.isEmpty = false := by simpa using hne
  have hkl : k < w.fields.length := by
    by_contra hk
    have : w.fld k = emptyField := by
      simp [World.fld, List.getD, List.getElem?_eq_none (Nat.le_of_not_lt hk)]
    rw [this] at hne; exact hne rfl
  simp only [wstep, hf, hl, keyVia, hc, stepX]
  have hsess := session_preview_eq_accept (eqOf (w.fld k).ic) (mkSess (w.buf c.buf) (w.fld k) true)
    hwf rfl hne
  have hsrch : (step (eqOf (w.fld k).ic) false (mkSess (w.buf c.buf) (w.fld k) true) .accept).searching
      = false := by
    simp [step, mkSess, stopSearch]
  simp only [hsrch, Bool.false_eq_true, if_false, if_true]
  refine ⟨?_, trivial, ?_⟩
  · have htg : w.searchTarget = some i := by simp [World.searchTarget, hf, hl]
    simp only [World.buf, getD_set_eq _ _ _ _ hb] at hsess ⊢
    rw [← hsess]
    simp [wpreview, hc, hs, preview, mkSess, htg, hne', World.buf]
  · simp only [World.fld]
    rw [getD_set_eq _ _ _ _ hkl]
    simp [putField]


theorem getD_set {α} (l : List α) (i j : Nat) (x d : α) :
    (l.set i x).getD j d = if i = j ∧ i < l.length then x else l.getD j d := by
  by_cases h : i = j
  · subst h
    by_cases hl : i < l.length
    · simp [List.getD, hl]
    · simp [List.getD, hl, List.set_eq_of_length_le (Nat.le_of_not_lt hl)]
  · simp [List.getD, List.getElem?_set_ne h, h]

theorem keyVia_lines (eqOf : Bool → Char → Char → Bool) (isSp : Char → Bool) (vi : Bool) (w : World)
    (i k : Nat) (sr : Bool) (key : XKey) (j : Nat)
    (hk : (∀ c, key ≠ .base (.type c)) ∨ sr = true) :
    ((keyVia eqOf isSp vi w i k sr key).buf j).lines = (w.buf j).lines := by
  unfold keyVia
  cases hc : w.ctrls[i]? with
  | none => rfl
  | some c =>
    simp only [World.buf, getD_set]
    split
    · rename_i h
      obtain ⟨rfl, _⟩ := h
      rw [stepX_lines_frame _ _ _ _ _ _ (by
        rcases hk with hk | hk
        · exact Or.inl hk
        · exact Or.inr (Or.inl (by simp [mkSess, hk])))]
      rfl
    · rfl

/-- no search key changes any text of any buffer of the layout (a printable key typed into a
    buffer that is not being searched is an edit, not a search key) -/
theorem wstep_lines (eqOf : Bool → Char → Char → Bool) (isSp : Char → Bool) (vi : Bool)
    (w : World) (ev : WKey) (hev : (∀ c, ev ≠ .key (.base (.type c))) ∨ w.isSearching = true)
    (j : Nat) : ((wstep eqOf isSp vi w ev).buf j).lines = (w.buf j).lines := by
  cases ev with
  | focus f =>
    simp only [wstep]
    split
    · rfl
    · cases f with
      | ctrl i => simp only; split <;> rfl
      | field k => rfl
      | other => rfl
  | startFor i d =>
    simp only [wstep]
    split
    · rfl
    · split
      · split
        · rfl
        · rw [keyVia_lines _ _ _ _ _ _ _ _ _ (Or.inl (by intro c; simp))]; rfl
      · rfl
  | key key =>
    have hkey : (∀ c, key ≠ .base (.type c)) ∨ w.isSearching = true := by
      rcases hev with h | h
      · left; intro c hc; exact h c (by rw [hc])
      · right; exact h
    simp only [wstep]
    cases hf : w.focus with
    | other => rfl
    | field k =>
      simp only
      cases hl : (w.fld k).link with
      | none => rfl
      | some i => exact keyVia_lines _ _ _ _ _ _ _ _ _ (Or.inr rfl)
    | ctrl i =>
      have hns : w.isSearching = false := by simp [World.isSearching, hf]
      have hkey' : ∀ c, key ≠ .base (.type c) := by
        rcases hkey with h | h
        · exact h
        · rw [hns] at h; cases h
      simp only
      cases hc : w.ctrls[i]? with
      | none => rfl
      | some c =>
        simp only
        cases hs : c.sf with
        | some k => exact keyVia_lines _ _ _ _ _ _ _ _ _ (Or.inl hkey')
        | none =>
          simp only
          split
          · rfl
          · simp only [World.buf, getD_set]
            split
            · rename_i h
              obtain ⟨rfl, _⟩ := h
              rw [stepX_lines_frame _ _ _ _ _ _ (Or.inl hkey')]
            · rfl

/-! ### one control, one search field: the layout model IS the session model -/

/-- the layout of a `PromptSession`: one buffer, one searchable control, one search field -/
def embed (ic : Bool) (s : Sess) : World :=
  { bufs := [s.buf], ctrls := [⟨0, some 0⟩],
    fields := [{ field := s.field, fbefore := s.fbefore, fafter := s.fafter, fhist := s.fhist,
                 floaded := s.floaded, stext := s.stext, sdir := s.sdir, ic := ic,
                 link := if s.searching then some 0 else none }],
    focus := if s.searching then .field 0 else .ctrl 0 }

/-- SIMULATION: on the one-control layout every key does exactly what the session model does -/
theorem wstep_embed (eqOf : Bool → Char → Char → Bool) (isSp : Char → Bool) (vi : Bool) (ic : Bool)
    (s : Sess) (key : XKey) :
    wstep eqOf isSp vi (embed ic s) (.key key) = embed ic (stepX (eqOf ic) isSp vi false s key) := by
  cases hs : s.searching with
  | true =>
    have hsess : mkSess s.buf ((embed ic s).fld 0) true = s := by
      cases s; simp_all [mkSess, embed, World.fld]
    simp only [wstep, embed, hs, if_true, World.fld, List.getD, List.getElem?_cons_zero,
      Option.getD_some, keyVia, World.buf]
    simp only [embed, hs, if_true, World.fld, List.getD, List.getElem?_cons_zero,
      Option.getD_some] at hsess
    rw [hsess]
    cases (stepX (eqOf ic) isSp vi false s key).searching <;> simp [putField]
  | false =>
    have hsess : mkSess s.buf ((embed ic s).fld 0) false = s := by
      cases s; simp_all [mkSess, embed, World.fld]
    simp only [wstep, embed, hs, World.fld, List.getD, List.getElem?_cons_zero,
      Option.getD_some, keyVia, World.buf, Bool.false_eq_true, if_false]
    simp only [embed, hs, World.fld, List.getD, List.getElem?_cons_zero,
      Option.getD_some, Bool.false_eq_true, if_false] at hsess
    rw [hsess]
    cases (stepX (eqOf ic) isSp vi false s key).searching <;> simp [putField]



/-! ## invariants of the layout: search links point back to the field's own controls -/

/-- static: a control's search field exists -/
def LayoutWF (w : World) : Prop :=
  ∀ (i : Nat) (c : Ctrl), w.ctrls[i]? = some c → ∀ k, c.sf = some k → k < w.fields.length

/-- `search_links[field] = control` only for a control whose `search_buffer_control` is that field,
    and a focused search field always has its link (so `is_searching` holds exactly then) -/
def LinkInv (w : World) : Prop :=
  (∀ k i, (w.fld k).link = some i → ∃ c : Ctrl, w.ctrls[i]? = some c ∧ c.sf = some k) ∧
  (∀ k, w.focus = .field k → (w.fld k).link ≠ none)

theorem fld_set (w : World) (k k' : Nat) (f : SField) (fs : List SField) (hfs : fs = w.fields.set k f) :
    ({ w with fields := fs } : World).fld k' =
      if k = k' ∧ k < w.fields.length then f else w.fld k' := by
  subst hfs
  simp only [World.fld, getD_set]

theorem keyVia_inv (eqOf : Bool → Char → Char → Bool) (isSp : Char → Bool) (vi : Bool) (w : World)
    (i k : Nat) (sr : Bool) (key : XKey) (c : Ctrl) (hc : w.ctrls[i]? = some c) (hsf : c.sf = some k)
    (hwf : LayoutWF w)
    (hinv : ∀ k i, (w.fld k).link = some i → ∃ c : Ctrl, w.ctrls[i]? = some c ∧ c.sf = some k) :
    LinkInv (keyVia eqOf isSp vi w i k sr key) ∧
      (keyVia eqOf isSp vi w i k sr key).ctrls = w.ctrls ∧
      (keyVia eqOf isSp vi w i k sr key).fields.length = w.fields.length := by
  have hk : k < w.fields.length := hwf i c hc k hsf
  unfold keyVia
  simp only [hc]
  generalize hs' : stepX (eqOf (w.fld k).ic) isSp vi false (mkSess (w.buf c.buf) (w.fld k) sr) key = s'
  refine ⟨⟨?_, ?_⟩, trivial, by simp⟩
  · intro k' i' hl
    simp only [World.fld, getD_set] at hl
    by_cases hkk : k = k' ∧ k < w.fields.length
    · rw [if_pos hkk] at hl
      obtain ⟨rfl, _⟩ := hkk
      simp only [putField] at hl
      by_cases hsr : s'.searching = true
      · rw [if_pos hsr] at hl; cases hl; exact ⟨c, hc, hsf⟩
      · rw [if_neg hsr] at hl
        by_cases hsr2 : sr = true
        · rw [if_pos hsr2] at hl; cases hl
        · rw [if_neg hsr2] at hl; exact hinv k i' hl
    · rw [if_neg hkk] at hl
      exact hinv k' i' hl
  · intro k' hf
    simp only at hf
    by_cases hsr : s'.searching = true
    · rw [if_pos hsr] at hf
      cases hf
      simp only [World.fld, getD_set, hk, and_self, if_true, putField, hsr]
      simp
    · rw [if_neg hsr] at hf; cases hf

/-- every event keeps the layout well-formed and the link invariant -/
theorem wstep_inv (eqOf : Bool → Char → Char → Bool) (isSp : Char → Bool) (vi : Bool) (w : World)
    (ev : WKey) (hwf : LayoutWF w) (hinv : LinkInv w) :
    LinkInv (wstep eqOf isSp vi w ev) ∧ (wstep eqOf isSp vi w ev).ctrls = w.ctrls ∧
      (wstep eqOf isSp vi w ev).fields.length = w.fields.length := by
  obtain ⟨h1, h2⟩ := hinv
  cases ev with
  | focus f =>
    simp only [wstep]
    split
    · exact ⟨⟨h1, h2⟩, rfl, rfl⟩
    · cases f with
      | ctrl i =>
        simp only
        split
        · exact ⟨⟨h1, by intro k hf; cases hf⟩, rfl, rfl⟩
        · exact ⟨⟨h1, h2⟩, rfl, rfl⟩
      | field k => exact ⟨⟨h1, h2⟩, rfl, rfl⟩
      | other => exact ⟨⟨h1, by intro k hf; cases hf⟩, rfl, rfl⟩
  | startFor i d =>
    simp only [wstep]
    split
    · exact ⟨⟨h1, h2⟩, rfl, rfl⟩
    · split
      · rename_i hi
        cases hc : w.ctrls[i]? with
        | none => rw [List.getElem?_eq_none_iff] at hc; omega
        | some c =>
          have hg : w.ctrls.getD i ⟨0, none⟩ = c := by simp [List.getD, hc]
          rw [hg]
          cases hs : c.sf with
          | none => exact ⟨⟨h1, h2⟩, rfl, rfl⟩
          | some k =>
            exact keyVia_inv eqOf isSp vi { w with focus := .ctrl i } i k false _ c hc hs hwf h1
      · exact ⟨⟨h1, h2⟩, rfl, rfl⟩
  | key key =>
    have hinv0 : LinkInv w := ⟨h1, h2⟩
    simp only [wstep]
    cases hf : w.focus with
    | other => exact ⟨hinv0, rfl, rfl⟩
    | field k =>
      simp only
      cases hl : (w.fld k).link with
      | none => exact absurd hl (hinv0.2 k hf)
      | some i =>
        obtain ⟨c, hc, hs⟩ := h1 k i hl
        exact keyVia_inv eqOf isSp vi w i k true key c hc hs hwf h1
    | ctrl i =>
      simp only
      cases hc : w.ctrls[i]? with
      | none => exact ⟨hinv0, rfl, rfl⟩
      | some c =>
        simp only
        cases hs : c.sf with
        | some k => exact keyVia_inv eqOf isSp vi w i k false key c hc hs hwf h1
        | none =>
          simp only
          split
          · exact ⟨hinv0, rfl, rfl⟩
          · refine ⟨⟨h1, ?_⟩, rfl, rfl⟩
            intro k hk; cases hk

theorem layoutWF_of_eq (w w' : World) (hc : w'.ctrls = w.ctrls) (hl : w'.fields.length = w.fields.length)
    (h : LayoutWF w) : LayoutWF w' := by
  intro i c hi k hk
  rw [hl]; rw [hc] at hi
  exact h i c hi k hk

/-- … along every run, from a layout where nothing is being searched -/
theorem wrun_inv (eqOf : Bool → Char → Char → Bool) (isSp : Char → Bool) (vi : Bool) (w : World)
    (evs : List WKey) (hwf : LayoutWF w) (hinv : LinkInv w) :
    LayoutWF (wrun eqOf isSp vi w evs) ∧ LinkInv (wrun eqOf isSp vi w evs) := by
  induction evs generalizing w with
  | nil => exact ⟨hwf, hinv⟩
  | cons ev evs ih =>
    obtain ⟨h1, h2, h3⟩ := wstep_inv eqOf isSp vi w ev hwf hinv
    exact ih _ (layoutWF_of_eq _ _ h2 h3 hwf) h1

/-- PREVIEW = ACCEPT in every reachable state of a well-formed layout: whenever a search field has
    the focus and something is typed in it, the control it is linked to displays exactly what Enter
    then makes its buffer's document -/
theorem wpreview_eq_accept_reachable (eqOf : Bool → Char → Char → Bool) (isSp : Char → Bool)
    (w : World) (hinv : LinkInv w) (k : Nat) (hf : w.focus = .field k)
    (hne : (w.fld k).field ≠ [])
    (hbufs : ∀ (i : Nat) (c : Ctrl), w.ctrls[i]? = some c → c.buf < w.bufs.length ∧ BufWF (w.buf c.buf)) :
    ∃ (i : Nat) (c : Ctrl), (w.fld k).link = some i ∧ w.ctrls[i]? = some c ∧
      let w' := wstep eqOf isSp false w (.key (.base .accept))
      wpreview eqOf w i = ((w'.buf c.buf).text, (w'.buf c.buf).cur) ∧ w'.focus = .ctrl i := by
  obtain ⟨h1, h2⟩ := hinv
  cases hl : (w.fld k).link with
  | none => exact absurd hl (h2 k hf)
  | some i =>
    obtain ⟨c, hc, hs⟩ := h1 k i hl
    obtain ⟨hb, hbwf⟩ := hbufs i c hc
    obtain ⟨e1, e2, _⟩ := wpreview_eq_accept eqOf isSp w k i c hf hl hc hs hb hbwf hne
    exact ⟨i, c, rfl, hc, e1, e2⟩

theorem keyVia_bufWF (eqOf : Bool → Char → Char → Bool) (isSp : Char → Bool) (vi : Bool) (w : World)
    (i k : Nat) (sr : Bool) (key : XKey) (hall : ∀ j, BufWF (w.buf j)) (j : Nat) :
    BufWF ((keyVia eqOf isSp vi w i k sr key).buf j) := by
  unfold keyVia
  cases hc : w.ctrls[i]? with
  | none => exact hall j
  | some c =>
    simp only [World.buf, getD_set]
    split
    · exact stepX_wf _ _ _ _ _ _ (hall c.buf)
    · exact hall j

/-- every buffer of the layout keeps `0 ≤ working_index < len(lines)`, `0 ≤ cursor ≤ len(text)` -/
theorem wstep_bufWF (eqOf : Bool → Char → Char → Bool) (isSp : Char → Bool) (vi : Bool) (w : World)
    (ev : WKey) (hall : ∀ j, BufWF (w.buf j)) (j : Nat) : BufWF ((wstep eqOf isSp vi w ev).buf j) := by
  cases ev with
  | focus f =>
    simp only [wstep]
    split
    · exact hall j
    · cases f with
      | ctrl i => simp only; split <;> exact hall j
      | field k => exact hall j
      | other => exact hall j
  | startFor i d =>
    simp only [wstep]
    split
    · exact hall j
    · split
      · split
        · exact hall j
        · exact keyVia_bufWF _ _ _ { w with focus := .ctrl i } _ _ _ _ hall j
      · exact hall j
  | key key =>
    simp only [wstep]
    cases hf : w.focus with
    | other => exact hall j
    | field k =>
      simp only
      cases hl : (w.fld k).link with
      | none => exact hall j
      | some i => exact keyVia_bufWF _ _ _ _ _ _ _ _ hall j
    | ctrl i =>
      simp only
      cases hc : w.ctrls[i]? with
      | none => exact hall j
      | some c =>
        simp only
        cases hs : c.sf with
        | some k => exact keyVia_bufWF _ _ _ _ _ _ _ _ hall j
        | none =>
          simp only
          split
          · exact hall j
          · simp only [World.buf, getD_set]
            split
            · exact stepX_wf _ _ _ _ _ _ (hall c.buf)
            · exact hall j



/-- one SearchState per search FIELD: Enter makes the typed text the remembered needle of the
    field that was used (so every control sharing that field repeats it with `n` / an empty Enter),
    and no other search field's state, text, history or link changes -/
theorem waccept_remembers (eqOf : Bool → Char → Char → Bool) (isSp : Char → Bool) (vi : Bool)
    (w : World) (k i : Nat) (c : Ctrl) (hf : w.focus = .field k) (hl : (w.fld k).link = some i)
    (hc : w.ctrls[i]? = some c) (hk : k < w.fields.length) (hne : (w.fld k).field ≠ []) :
    let w' := wstep eqOf isSp vi w (.key (.base .accept))
    (w'.fld k).stext = (w.fld k).field ∧ (w'.fld k).sdir = (w.fld k).sdir ∧
      (w'.fld k).fhist = appendHist (w.fld k).fhist (w.fld k).field ∧
      ∀ k', k' ≠ k → w'.fld k' = w.fld k' := by
  have hne' : (w.fld k).field.isEmpty = false := by simpa using hne
  simp only [wstep, hf, hl, keyVia, hc, stepX]
  refine ⟨?_, ?_, ?_, ?_⟩
  · simp only [World.fld, getD_set_eq _ _ _ _ hk, putField]
    have hne2 : (w.fields[k]?.getD emptyField).field ≠ [] := by simpa [World.fld, List.getD] using hne
    cases vi <;> simp [step, mkSess, stopSearch, step.viFixS] <;> intro h <;> exact absurd h hne2
  · simp only [World.fld, getD_set_eq _ _ _ _ hk, putField]
    cases vi <;> simp [step, mkSess, stopSearch, step.viFixS]
  · simp only [World.fld, getD_set_eq _ _ _ _ hk, putField]
    cases vi <;> simp [step, mkSess, stopSearch, step.viFixS]
  · intro k' hk'
    simp only [World.fld]
    exact getD_set_ne _ _ _ _ _ (Ne.symm hk')


/-! ## non-vacuity (the same layout is replayed on a real Application: corpus/C16/round2_world.json) -/

section examples

private def eqOf' (ic : Bool) : Char → Char → Bool := if ic then eqCI else eqCS
private def sp' (c : Char) : Bool := c == ' ' || c == '\n'

/-- controls 0 and 1 share search field 0; control 2 has the ignore-case field 1 of its own;
    control 3 is a second, not searchable view of buffer 0 -/
private def W0 : World :=
  { bufs := [⟨[['a', 'b'], ['a', 'b', ' ', 'x', 'a', 'b']], 1, 0⟩,
             ⟨[['x', 'x', ' ', 'a', 'b', ' ', 'a', 'b']], 0, 0⟩,
             ⟨[['a', 'B'], ['A', 'B', ' ', 'a', 'b']], 1, 5⟩],
    ctrls := [⟨0, some 0⟩, ⟨1, some 0⟩, ⟨2, some 1⟩, ⟨0, none⟩],
    fields := [{ field := [], fhist := [['b']] }, { field := [], ic := true }],
    focus := .ctrl 0 }

private def typeAB : List WKey := [.key (.base (.type 'a')), .key (.base (.type 'b'))]

-- wstep_other_bufs / wstep_fieldKeys_bufs / wpreview_not_target: C-s a b from control 0, then C-s
-- once more: buffer 0 moves to the next match, nothing else moves; only control 0 previews
example :
    let w := wrun eqOf' sp' false W0 ([.key (.base (.start .fwd))] ++ typeAB)
    w.focus = .field 0 ∧ w.searchTarget = some 0 ∧ targetBuf w = some 0 ∧ w.bufs = W0.bufs ∧
      wpreview eqOf' w 0 = (['a', 'b', ' ', 'x', 'a', 'b'], 0) ∧
      wpreview eqOf' w 1 = (['x', 'x', ' ', 'a', 'b', ' ', 'a', 'b'], 0) ∧
      (wstep eqOf' sp' false w (.key (.base (.incr .fwd)))).buf 0 = ⟨(W0.buf 0).lines, 1, 4⟩ ∧
      (wstep eqOf' sp' false w (.key (.base (.incr .fwd)))).buf 1 = W0.buf 1 := by decide
-- wpreview_eq_accept, and the SHARED SearchState: Enter in control 0, then an empty Enter from
-- control 1 re-applies the needle typed for control 0; control 2's own state knows nothing of it
example :
    let w := wrun eqOf' sp' false W0 ([.key (.base (.start .fwd))] ++ typeAB ++
      [.key (.base (.incr .fwd)), .key (.base .accept), .focus (.ctrl 1), .key (.base (.start .fwd)),
       .key (.base .accept)])
    w.buf 0 = ⟨(W0.buf 0).lines, 1, 4⟩ ∧ w.buf 1 = ⟨(W0.buf 1).lines, 0, 3⟩ ∧ w.buf 2 = W0.buf 2 ∧
      (w.fld 0).stext = ['a', 'b'] ∧ (w.fld 1).stext = [] ∧ (w.fld 0).fhist = [['b'], ['a', 'b']] ∧
      w.focus = .ctrl 1 := by decide
-- the ignore-case field of control 2: backward from the end finds "ab", then "AB", then "aB"
example :
    let w := wrun eqOf' sp' false W0 ([.startFor 2 .bwd] ++ typeAB ++
      [.key (.base (.incr .bwd)), .key (.base (.incr .bwd)), .key (.base .accept)])
    w.buf 2 = ⟨(W0.buf 2).lines, 0, 0⟩ ∧ w.bufs.take 2 = W0.bufs.take 2 := by decide
-- wstep_start_not_searchable / wstep_startFor_not_searchable
example : wstep eqOf' sp' false { W0 with focus := .ctrl 3 } (.key (.base (.start .bwd)))
      = { W0 with focus := .ctrl 3 } ∧
    wstep eqOf' sp' false { W0 with focus := .other } (.key (.base (.start .bwd)))
      = { W0 with focus := .other } ∧
    wstep eqOf' sp' false W0 (.startFor 3 .fwd) = W0 := by decide
-- a click away from a focused search field leaves the link behind; the next start overwrites it
example :
    let w := wrun eqOf' sp' false W0 ([.key (.base (.start .fwd))] ++ typeAB ++ [.focus (.ctrl 1)])
    w.isSearching = false ∧ (w.fld 0).link = some 0 ∧ (w.fld 0).field = ['a', 'b'] ∧
      ((wstep eqOf' sp' false w (.key (.base (.start .bwd)))).fld 0).link = some 1 := by decide
-- wstep_embed
example : embed false { buf := W0.buf 0, field := [], stext := [], sdir := .fwd, searching := false }
    = { bufs := [W0.buf 0], ctrls := [⟨0, some 0⟩], fields := [{ field := [] }], focus := .ctrl 0 } := by
  decide

-- LayoutWF / LinkInv / wrun_inv / wstep_bufWF / wpreview_eq_accept_reachable: the example layout
-- satisfies the invariants (so every state reachable from it does)
example : LayoutWF W0 ∧ LinkInv W0 ∧ ∀ j, BufWF (W0.buf j) := by
  refine ⟨?_, ⟨?_, ?_⟩, ?_⟩
  · intro i c hc k hk
    match i, hc with
    | 0, hc | 1, hc | 2, hc | 3, hc =>
      simp [W0] at hc; subst hc; simp at hk <;> (try subst hk) <;> simp [W0]
    | i + 4, hc => simp [W0] at hc
  · intro k i h
    match k, h with
    | 0, h | 1, h => simp [W0, World.fld] at h
    | k + 2, h => simp [W0, World.fld, emptyField] at h
  · intro k hk; simp [W0] at hk
  · intro j
    match j with
    | 0 | 1 | 2 => unfold BufWF WF; decide
    | j + 3 => unfold BufWF WF; simp [W0, World.buf, emptyBuf, entry]

end examples

end Ptk.C16
