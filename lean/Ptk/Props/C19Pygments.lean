/-
  C19 — styles/pygments.py: `pygments_token_to_classname(Token.A.B)` = 'pygments.a.b', so that — through
  the dotted-prefix semantics of `_expand_classname` — the rule made from a token applies exactly to
  text of that token and of its sub-tokens.
-/
import Ptk.Model.C19Dict
import Ptk.Props.C19Expand
namespace Ptk.C19
open Ptk.Py

theorem ofNat_small (n : Nat) (h : n < 55296) : (Char.ofNat n).toNat = n := by
  simp [Char.ofNat, Nat.isValidChar, h, Char.toNat, Char.ofNatAux]

theorem lowerChar_idem (c : Char) : lowerChar (lowerChar c) = lowerChar c := by
  unfold lowerChar
  split
  · rename_i h
    have : (Char.ofNat (c.toNat + 32)).toNat = c.toNat + 32 := ofNat_small _ (by omega)
    rw [this]
    split
    · omega
    · rfl
  · simp

theorem lowerChar_eq_dot (c : Char) : lowerChar c = '.' ↔ c = '.' := by
  unfold lowerChar
  split
  · rename_i h
    constructor
    · intro he
      have h1 : (Char.ofNat (c.toNat + 32)).toNat = c.toNat + 32 := ofNat_small _ (by omega)
      rw [he] at h1
      have : ('.' : Char).toNat = 46 := by decide
      omega
    · intro he
      subst he
      revert h; decide
  · exact Iff.rfl

theorem lower_idem (t : Text) : lower (lower t) = lower t := by
  simp [lower, List.map_map, Function.comp_def, lowerChar_idem]

theorem lower_append (a b : Text) : lower (a ++ b) = lower a ++ lower b := by simp [lower]

theorem dot_mem_lower (t : Text) : '.' ∈ lower t ↔ '.' ∈ t := by
  simp only [lower, List.mem_map]
  constructor
  · rintro ⟨c, hc, he⟩
    rw [(lowerChar_eq_dot c).mp he] at hc; exact hc
  · intro h; exact ⟨'.', h, by decide⟩

theorem lower_join (ps : List Text) : lower (join ['.'] ps) = join ['.'] (ps.map lower) := by
  induction ps with
  | nil => rfl
  | cons p ps ih =>
    cases ps with
    | nil => simp [join]
    | cons q qs =>
      simp only [join, List.map_cons] at ih ⊢
      rw [lower_append, lower_append, ih]
      rfl

theorem splitOn_dotfree (l : Text) (h : '.' ∉ l) : splitOn '.' l = [l] := by
  induction l with
  | nil => rfl
  | cons x xs ih =>
    have hx : x ≠ '.' := fun he => h (by simp [he])
    simp only [splitOn, hx, if_false]
    rw [ih (fun hm => h (List.mem_cons_of_mem _ hm))]

theorem splitOn_append_dot (l rest : Text) (h : '.' ∉ l) :
    splitOn '.' (l ++ '.' :: rest) = l :: splitOn '.' rest := by
  induction l with
  | nil => simp [splitOn]
  | cons x xs ih =>
    have hx : x ≠ '.' := fun he => h (by simp [he])
    simp only [List.cons_append, splitOn, hx, if_false]
    rw [ih (fun hm => h (List.mem_cons_of_mem _ hm))]

theorem splitOn_join_dot (ps : List Text) (hne : ps ≠ []) (h : ∀ p ∈ ps, '.' ∉ p) :
    splitOn '.' (join ['.'] ps) = ps := by
  induction ps with
  | nil => exact absurd rfl hne
  | cons p ps ih =>
    cases ps with
    | nil => simpa [join] using splitOn_dotfree p (h p (by simp))
    | cons q qs =>
      have e : join ['.'] (p :: q :: qs) = p ++ '.' :: join ['.'] (q :: qs) := by simp [join]
      rw [e, splitOn_append_dot p _ (h p (by simp)), ih (by simp) (fun x hx => h x (by simp [hx]))]

/-- a token whose components contain no dot (every pygments token) -/
def DotFree (t : List Text) : Prop := ∀ x ∈ t, '.' ∉ x
instance (t : List Text) : Decidable (DotFree t) := by unfold DotFree; infer_instance

theorem tokenToClassname_eq (t : List Text) :
    tokenToClassname t = join ['.'] (("pygments".toList :: t).map lower) := by
  unfold tokenToClassname
  rw [lower_join]

theorem tokenParts_dotfree (t : List Text) (h : DotFree t) :
    ∀ p ∈ ("pygments".toList :: t).map lower, '.' ∉ p := by
  intro p hp
  simp only [List.map_cons, List.mem_cons, List.mem_map] at hp
  rcases hp with rfl | ⟨x, hx, rfl⟩
  · decide
  · rw [dot_mem_lower]; exact h x hx

/-- **C19-ah (class names of a token).**  The classes named by 'class:' + classname(Token.A.B) are the
    class names of the token's ancestors: 'pygments', 'pygments.a', 'pygments.a.b'. -/
theorem mem_expand_token (t : List Text) (h : DotFree t) (x : Text) :
    x ∈ expandClassname (tokenToClassname t) ↔ ∃ j, j ≤ t.length ∧ x = tokenToClassname (t.take j) := by
  rw [mem_expandClassname]
  unfold dottedPrefix
  rw [tokenToClassname_eq, splitOn_join_dot _ (by simp) (tokenParts_dotfree t h)]
  simp only [List.length_map, List.length_cons]
  constructor
  · rintro ⟨k, h1, h2, rfl⟩
    refine ⟨k - 1, by omega, ?_⟩
    obtain ⟨k', rfl⟩ : ∃ k', k = k' + 1 := ⟨k - 1, by omega⟩
    rw [tokenToClassname_eq, lower_join]
    simp [List.map_take, lower_idem, Function.comp_def, List.map_map]
  · rintro ⟨j, hj, rfl⟩
    refine ⟨j + 1, by omega, by omega, ?_⟩
    rw [tokenToClassname_eq, lower_join]
    simp [List.map_take, lower_idem, Function.comp_def, List.map_map]

theorem tokenToClassname_inj (a b : List Text) (ha : DotFree a) (hb : DotFree b)
    (h : tokenToClassname a = tokenToClassname b) : a.map lower = b.map lower := by
  rw [tokenToClassname_eq, tokenToClassname_eq] at h
  have := congrArg (splitOn '.') h
  rw [splitOn_join_dot _ (by simp) (tokenParts_dotfree a ha),
    splitOn_join_dot _ (by simp) (tokenParts_dotfree b hb)] at this
  simpa using this

/-- **C19-ah' (a token's rule styles exactly its sub-tokens).**  In a sheet built by
    `style_from_pygments_dict`, the rule of token `t1` takes part in resolving the class of token `t2`
    iff `t1` is a prefix of `t2` (component-wise, ignoring case).  (`hws`/`hcomma`: the class name of
    `t2` contains no whitespace and no comma, as for every pygments token.) -/
theorem pygments_rule_applies_iff_prefix (T : Tables) (sp : Char → Bool) (rules : List Rule) (d : Attrs)
    (t1 t2 : List Text) (h1 : DotFree t1) (h2 : DotFree t2) (r : Rule) (hr : r ∈ rules)
    (hnames : r.names = [tokenToClassname t1])
    (hws : splitWs sp ("class:".toList ++ tokenToClassname t2) = ["class:".toList ++ tokenToClassname t2])
    (hcomma : splitOn ',' (lower (tokenToClassname t2)) = [tokenToClassname t2])
    (srcs : List Src) (h : sources T sp rules ("class:".toList ++ tokenToClassname t2) d = some srcs) :
    Src.rule r ∈ srcs ↔ (t1.map lower) <+: (t2.map lower) := by
  rw [rule_used_iff T sp rules _ d srcs h r, hnames, hws]
  have hcls : classNames ["class:".toList ++ tokenToClassname t2] = expandClassname (tokenToClassname t2) := by
    have hs : startsWith "class:".toList ("class:".toList ++ tokenToClassname t2) = true := by
      simp [startsWith]
    unfold classNames classPartNames
    rw [List.filter_cons_of_pos hs]
    simp [hcomma]
  rw [hcls]
  simp only [List.mem_singleton, forall_eq, hr, true_and]
  rw [mem_expand_token t2 h2]
  constructor
  · rintro ⟨j, hj, he⟩
    have := tokenToClassname_inj t1 (t2.take j) h1 (fun x hx => h2 x (List.mem_of_mem_take hx)) he
    rw [this, List.map_take]
    exact List.take_prefix _ _
  · rintro ⟨rest, hrest⟩
    refine ⟨t1.length, ?_, ?_⟩
    · have := congrArg List.length hrest
      simp at this; omega
    · rw [tokenToClassname_eq, tokenToClassname_eq]
      congr 1
      simp only [List.map_cons, List.cons.injEq, true_and]
      rw [List.map_take, ← hrest]
      simp

end Ptk.C19
