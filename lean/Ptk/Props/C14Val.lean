/-
  C14 — validation while typing: the asynchronous validator interleaved with edits, browsing and
  accept (`Buffer._validate_async` under `_only_one_at_a_time`, cut at its await; see
  `Ptk.Model.C14`).  Schedules are arbitrary lists of operations in which `vStart` (a created
  validator task gets its first step), `vFinish` (the validation in flight finishes) and
  `asyncValidate` (a turn of the event loop) occur anywhere; the validator `v` and whether its
  `validate_async` suspends (`vasync`) are arbitrary.
-/
import Ptk.Props.C14
set_option linter.unusedSimpArgs false
namespace Ptk.C14
open Ptk.Py

/-! ## 1. `validation_error` goes with `validation_state` -/

@[simp] theorem setCursorPos_verr (s : St) (c : Int) : (setCursorPos s c).verr = s.verr := by
  simp only [setCursorPos]; split <;> rfl
@[simp] theorem setVerdict_text (s : St) (r : Option Int) : (setVerdict s r).text = s.text := by
  cases r <;> rfl
@[simp] theorem setVerdict_vtasks (s : St) (r : Option Int) : (setVerdict s r).vtasks = s.vtasks := by
  cases r <;> rfl
@[simp] theorem setVerdict_vrun (s : St) (r : Option Int) : (setVerdict s r).vrun = s.vrun := by
  cases r <;> rfl
@[simp] theorem setVerdict_vasync (s : St) (r : Option Int) : (setVerdict s r).vasync = s.vasync := by
  cases r <;> rfl
@[simp] theorem setVerdict_cur (s : St) (r : Option Int) : (setVerdict s r).cur = s.cur := by
  cases r <;> rfl
theorem setVerdict_known (s : St) (r : Option Int) : (setVerdict s r).vstate ≠ .unknown := by
  cases r <;> simp [setVerdict]
@[simp] theorem vLoopTop_vtasks (v : Validator) (s : St) : (vLoopTop v s).vtasks = s.vtasks := by
  simp only [vLoopTop]; split
  · rfl
  · split
    · rfl
    · simp

/-- `validation_error` is set exactly in state INVALID, and then it is the error the validator
    raises for the current text -/
def EInv (v : Validator) (s : St) : Prop :=
  (s.vstate = .invalid → s.verr = v s.text ∧ (v s.text).isSome) ∧ (s.vstate ≠ .invalid → s.verr = none)

theorem einv_unknown (v : Validator) (t : St) (h : t.vstate = .unknown) (he : t.verr = none) : EInv v t := by
  constructor
  · intro h'; rw [h] at h'; cases h'
  · intro _; exact he

theorem einv_same (v : Validator) (s t : St) (hv : t.vstate = s.vstate) (he : t.verr = s.verr)
    (ht : t.text = s.text) (h : EInv v s) : EInv v t := by
  unfold EInv; rw [hv, he, ht]; exact h

theorem setVerdict_einv (v : Validator) (s : St) : EInv v (setVerdict s (v s.text)) := by
  cases hv : v s.text with
  | none => exact ⟨fun h' => by simp [setVerdict] at h', fun _ => rfl⟩
  | some e =>
    refine ⟨fun _ => ?_, fun h' => by simp [setVerdict] at h'⟩
    show some e = v (setVerdict s (some e)).text ∧ _
    rw [setVerdict_text, hv]; exact ⟨rfl, rfl⟩

theorem vLoopTop_einv (v : Validator) (s : St) (h : EInv v s) : EInv v (vLoopTop v s) := by
  simp only [vLoopTop]
  split
  · exact ⟨h.1, h.2⟩
  · split
    · exact ⟨h.1, h.2⟩
    · have := setVerdict_einv v s
      exact ⟨this.1, this.2⟩

theorem vStart_einv (v : Validator) (s : St) (h : EInv v s) : EInv v (vStart v s) := by
  simp only [vStart]
  split
  · exact h
  · split
    · exact ⟨h.1, h.2⟩
    · exact vLoopTop_einv v _ ⟨h.1, h.2⟩

theorem vFinish_einv (v : Validator) (s : St) (h : EInv v s) : EInv v (vFinish v s) := by
  simp only [vFinish]
  split
  · exact h
  · next t c hr =>
    split
    · next heq =>
      have := setVerdict_einv v s
      rw [heq.1] at this
      exact ⟨this.1, this.2⟩
    · exact vLoopTop_einv v s h

theorem drainGo_einv (v : Validator) : ∀ (n : Nat) (s : St), EInv v s → EInv v (drainGo v n s) := by
  intro n
  induction n with
  | zero => intro s h; exact h
  | succ n ih => intro s h; exact ih _ (vStart_einv v s h)

theorem validate_einv (v : Validator) (s : St) (b : Bool) (h : EInv v s) : EInv v (validate v s b).1 := by
  have ht := (validate_idx_text v s b).2.1
  rcases validate_cases v s b with ⟨_, hh⟩ | ⟨_, e, he, hh⟩ | ⟨_, he, hh⟩
  · rw [hh]; exact h
  · unfold EInv; rw [ht]; rw [hh]
    refine ⟨fun _ => ?_, fun h' => by simp at h'⟩
    show some e = v s.text ∧ _
    rw [he]; exact ⟨rfl, rfl⟩
  · unfold EInv; rw [ht]; rw [hh]
    exact ⟨fun h' => by simp at h', fun _ => rfl⟩

/-- an operation that is not a validator step either clears (state, error) or keeps
    (state, error, text) -/
def VKeep (s t : St) : Prop :=
  (t.vstate = .unknown ∧ t.verr = none) ∨ (t.vstate = s.vstate ∧ t.verr = s.verr ∧ t.text = s.text)

theorem VKeep.refl (s : St) : VKeep s s := Or.inr ⟨rfl, rfl, rfl⟩

theorem VKeep.trans {a b c : St} (h1 : VKeep a b) (h2 : VKeep b c) : VKeep a c := by
  rcases h2 with h2 | ⟨x, y, z⟩
  · exact Or.inl h2
  · rcases h1 with ⟨p, q⟩ | ⟨p, q, r⟩
    · exact Or.inl ⟨x.trans p, y.trans q⟩
    · exact Or.inr ⟨x.trans p, y.trans q, z.trans r⟩

theorem einv_keep (v : Validator) (s t : St) (hk : VKeep s t) (h : EInv v s) : EInv v t := by
  rcases hk with ⟨h1, h2⟩ | ⟨h1, h2, h3⟩
  · exact einv_unknown v t h1 h2
  · exact einv_same v s t h1 h2 h3 h

theorem vinv_keep (v : Validator) (s t : St) (hk : VKeep s t) (h : VInv v s) : VInv v t := by
  rcases hk with ⟨h1, _⟩ | ⟨h1, _, h3⟩
  · exact vinv_unknown v t h1
  · exact vinv_same v s t h1 h3 h

theorem setCursorPos_keep (s : St) (c : Int) : VKeep s (setCursorPos s c) := by
  right; simp only [setCursorPos]; split <;> simp [St.text]

theorem setHistorySearch_keep (s : St) : VKeep s (setHistorySearch s) := by
  right; simp only [setHistorySearch]; repeat' (first | (simp [St.text]; done) | split)

theorem historyBackward_keep (s : St) (c : Int) : VKeep s (historyBackward s c) := by
  rw [historyBackward_eq]
  split
  · exact setHistorySearch_keep s
  · left; simp only [setCursorPos]; split <;> simp

theorem historyForward_keep (s : St) (c : Int) : VKeep s (historyForward s c) := by
  rw [historyForward_eq]
  split
  · exact setHistorySearch_keep s
  · left; simp only [setCursorPos]; repeat' (first | (simp; done) | split)

theorem goToHistory_keep (s : St) (i : Nat) : VKeep s (goToHistory s i) := by
  simp only [goToHistory]
  split
  · by_cases e : s.idx = i
    · simp only [setWorkingIndex, e, if_true]; exact setCursorPos_keep _ _
    · left; rw [setWorkingIndex_ne s i e]; simp only [setCursorPos]; split <;> simp
  · exact VKeep.refl s

theorem goToHistoryFixed_keep (s : St) (i : Nat) : VKeep s (goToHistoryFixed s i) := by
  simp only [goToHistoryFixed]; split
  · rcases goToHistory_keep s i with ⟨a, b⟩ | ⟨a, b, c⟩
    · exact Or.inl ⟨a, b⟩
    · exact Or.inr ⟨a, b, c⟩
  · exact VKeep.refl s

theorem setDocument_keep (s : St) (t : Text) (c : Nat) (hwf : WF s) (hc : c ≤ t.length) :
    VKeep s (setDocument s t c) := by
  have hw := (setDocument_wf s t c hwf hc).2.1
  by_cases ht : t = s.text
  · right; refine ⟨?_, ?_, by rw [hw, ht]⟩
    · simp only [setDocument]; subst ht; simp; split <;> rfl
    · simp only [setDocument]; subst ht; simp; split <;> rfl
  · left; simp only [setDocument]; simp [ht]; split <;> simp [textChanged]

theorem setText_keep (s : St) (t : Text) (hwf : WF s) : VKeep s (setText s t) := by
  have hw := (setText_wf s t hwf).2
  by_cases ht : t = s.text
  · right; refine ⟨?_, ?_, by rw [hw, ht]⟩
    · simp only [setText]; subst ht; split <;> simp
    · simp only [setText]; subst ht; split <;> simp
  · left; simp only [setText]; split <;> simp [ht, textChanged]

theorem home_keep (s : St) : VKeep s (home s) := setCursorPos_keep _ _

theorem cursorUp_keep (s s' : St) (c : Int) (h : cursorUp s c = some s') : VKeep s s' := by
  simp only [cursorUp] at h
  split at h
  · cases h
  · cases h
    have := setCursorPos_keep s (rowColToIndex s.text ((row s.text s.cur : Int) - c).toNat (origColumn s))
    rcases this with ⟨a, b⟩ | ⟨a, b, d⟩
    · exact Or.inl ⟨a, b⟩
    · exact Or.inr ⟨a, b, d⟩

theorem cursorDown_keep (s s' : St) (c : Int) (h : cursorDown s c = some s') : VKeep s s' := by
  simp only [cursorDown] at h
  split at h
  · cases h
  · cases h
    have := setCursorPos_keep s (rowColToIndex s.text (row s.text s.cur + c.toNat) (origColumn s))
    rcases this with ⟨a, b⟩ | ⟨a, b, d⟩
    · exact Or.inl ⟨a, b⟩
    · exact Or.inr ⟨a, b, d⟩

theorem autoUpPos_keep (s s' : St) (c : Int) (g : Bool) (h : autoUpPos s c g = some s') : VKeep s s' := by
  simp only [autoUpPos] at h
  split at h
  · exact cursorUp_keep s s' c h
  · cases h
    show VKeep s (if g = true then home (historyBackward s c) else historyBackward s c)
    split
    · exact (historyBackward_keep s c).trans (home_keep _)
    · exact historyBackward_keep s c

theorem autoDownPos_keep (s s' : St) (c : Int) (g : Bool) (h : autoDownPos s c g = some s') : VKeep s s' := by
  simp only [autoDownPos] at h
  split at h
  · exact cursorDown_keep s s' c h
  · cases h
    show VKeep s (if g = true then home (historyForward s c) else historyForward s c)
    split
    · exact (historyForward_keep s c).trans (home_keep _)
    · exact historyForward_keep s c

theorem appendToHistory_keep (s : St) : VKeep s (appendToHistory s) := by
  right; simp only [appendToHistory]; repeat' (first | (simp [St.text]; done) | split)

theorem deleteBefore_keep (s : St) (n : Nat) (hwf : WF s) : VKeep s (deleteBefore s n) := by
  simp only [deleteBefore]; split
  · exact setDocument_keep s _ _ hwf (by simp; have := hwf.2; omega)
  · exact VKeep.refl s

theorem yankApply_keep (s : St) (p n : Int) (w : Text) (hwf : WF s) : VKeep s (yankApply s p n w) := by
  have hb : VKeep s (yankBase s) := by
    rcases yankBase_cases s with e | ⟨k, e⟩ <;> rw [e]
    · exact VKeep.refl s
    · exact deleteBefore_keep s k hwf
  have hwb := yankBase_wf s hwf
  have hi : VKeep (yankBase s) (insertText (yankBase s) w) :=
    setDocument_keep _ _ _ hwb (by simp; have := hwb.2; omega)
  rcases hb.trans hi with ⟨a, b⟩ | ⟨a, b, c⟩
  · exact Or.inl ⟨a, b⟩
  · exact Or.inr ⟨a, b, c⟩

/-- is the operation one of those that run the validator or finish the application? -/
def Op.isVal : Op → Bool
  | .validate _ | .asyncValidate | .vStart | .vFinish | .accept _ | .operateNext => true
  | _ => false

/-- every other operation clears or keeps -/
theorem step_keep (v : Validator) (s : St) (op : Op) (hwf : WF s) (hv : op.isVal = false) :
    VKeep s (step v s op).1 := by
  cases op <;> simp [Op.isVal] at hv <;> simp only [step]
  · exact setDocument_keep s _ _ hwf (by simp; have := hwf.2; omega)
  · simp only [deleteBefore]; split
    · exact setDocument_keep s _ _ hwf (by simp; have := hwf.2; omega)
    · exact VKeep.refl s
  · exact setText_keep s _ hwf
  · exact setCursorPos_keep _ _
  · exact setCursorPos_keep _ _
  · exact setCursorPos_keep _ _
  · exact setCursorPos_keep _ _
  · exact setCursorPos_keep _ _
  · exact historyBackward_keep _ _
  · exact historyForward_keep _ _
  · exact goToHistory_keep _ _
  · exact (historyForward_keep s _).trans (goToHistory_keep _ _)
  · next c g =>
    cases hr : autoUp s c g with
    | none => exact VKeep.refl s
    | some s' =>
      rcases autoUp_cases s s' c g hr with rfl | hr | hr
      · exact VKeep.refl _
      · exact autoUpPos_keep s s' c g hr
      · exact autoDownPos_keep s s' _ g hr
  · next c g =>
    cases hr : autoDown s c g with
    | none => exact VKeep.refl s
    | some s' =>
      rcases autoDown_cases s s' c g hr with rfl | hr | hr
      · exact VKeep.refl _
      · exact autoDownPos_keep s s' c g hr
      · exact autoUpPos_keep s s' _ g hr
  · exact Or.inr ⟨rfl, rfl, rfl⟩
  · exact Or.inr ⟨rfl, rfl, rfl⟩
  · exact appendToHistory_keep s
  · exact Or.inl ⟨rfl, rfl⟩
  · exact Or.inl ⟨rfl, rfl⟩
  · right; simp only [startLoad]; split <;> simp [St.text]
  · right; simp only [loadOne]; split <;> simp [St.text]
  · exact Or.inr ⟨rfl, rfl, rfl⟩
  · exact yankApply_keep s _ _ _ hwf
  · exact goToHistoryFixed_keep _ _
  · exact (historyForward_keep s _).trans (goToHistoryFixed_keep _ _)

theorem validateAndHandle_einv (v : Validator) (s : St) (keep : Bool) (h : EInv v s) :
    EInv v (validateAndHandle v s keep).1 := by
  have hv := validate_einv v s true h
  simp only [validateAndHandle]
  split
  · split
    · exact einv_keep v _ _ (appendToHistory_keep _) hv
    · exact einv_unknown v _ rfl rfl
  · exact hv

/-- **error_goes_with_state** — every operation, validator steps included, keeps
    "`validation_error` is set iff the state is INVALID, and it is the validator's error for the
    current text". -/
theorem einv_step (v : Validator) (s : St) (op : Op) (hwf : WF s) (h : EInv v s) :
    EInv v (step v s op).1 := by
  by_cases hv : op.isVal = false
  · exact einv_keep v s _ (step_keep v s op hwf hv) h
  · cases op <;> simp [Op.isVal] at hv <;> simp only [step]
    · exact validate_einv v s _ h
    · exact drainGo_einv v _ s h
    · exact vStart_einv v s h
    · exact vFinish_einv v s h
    · next keep =>
      have key := validateAndHandle_einv v s keep h
      cases hr : validateAndHandle v s keep with
      | mk s' r => cases r <;> simp [hr] at key ⊢ <;> exact key
    · rw [← step, step_operateNext]
      exact einv_same v _ _ rfl rfl rfl (validateAndHandle_einv v s true h)

theorem einv_run (v : Validator) (ops : List Op) : ∀ s : St, WF s → EInv v s → (∀ op ∈ ops, op.ok) →
    EInv v (run v s ops) := by
  induction ops with
  | nil => intro s _ h _; exact h
  | cons op ops ih =>
    intro s hw h hok
    exact ih _ (wf_step v s op hw (hok op (by simp))) (einv_step v s op hw h)
      (fun o ho => hok o (by simp [ho]))

/-! ## 2. The validator coroutine: one at a time, stale verdicts are discarded -/

/-- a validation can only be in flight when the validator's `validate_async` suspends -/
def RInv (s : St) : Prop := s.vrun.isSome = true → s.vasync = true

theorem vLoopTop_rinv (v : Validator) (s : St) : RInv (vLoopTop v s) := by
  simp only [vLoopTop, RInv]
  split
  · simp
  · split
    · next h => intro _; exact h
    · simp

/-- the operation leaves the coroutine's control state alone -/
def RKeep (s t : St) : Prop := t.vrun = s.vrun ∧ t.vasync = s.vasync

theorem RKeep.refl (s : St) : RKeep s s := ⟨rfl, rfl⟩
theorem RKeep.trans {a b c : St} (h1 : RKeep a b) (h2 : RKeep b c) : RKeep a c :=
  ⟨h2.1.trans h1.1, h2.2.trans h1.2⟩

theorem setCursorPos_rkeep (s : St) (c : Int) : RKeep s (setCursorPos s c) := by
  simp only [setCursorPos]; split <;> exact ⟨rfl, rfl⟩
theorem setHistorySearch_rkeep (s : St) : RKeep s (setHistorySearch s) := by
  simp only [setHistorySearch]; repeat' (first | exact ⟨rfl, rfl⟩ | split)
theorem navTo_rkeep (s : St) (j k : Nat) : RKeep s (navTo s j k) := ⟨rfl, rfl⟩
theorem setWorkingIndex_rkeep (s : St) (j : Nat) : RKeep s (setWorkingIndex s j) := by
  by_cases h : s.idx = j
  · simp [setWorkingIndex, h, RKeep.refl]
  · rw [setWorkingIndex_ne s j h]; exact navTo_rkeep s j 1
theorem historyBackward_rkeep (s : St) (c : Int) : RKeep s (historyBackward s c) := by
  rw [historyBackward_eq]
  split
  · exact setHistorySearch_rkeep s
  · exact (setHistorySearch_rkeep s).trans ((navTo_rkeep _ _ _).trans (setCursorPos_rkeep _ _))
theorem historyForward_rkeep (s : St) (c : Int) : RKeep s (historyForward s c) := by
  rw [historyForward_eq]
  split
  · exact setHistorySearch_rkeep s
  · exact (setHistorySearch_rkeep s).trans ((navTo_rkeep _ _ _).trans
      ((setCursorPos_rkeep _ _).trans (setCursorPos_rkeep _ _)))
theorem goToHistory_rkeep (s : St) (i : Nat) : RKeep s (goToHistory s i) := by
  simp only [goToHistory]; split
  · exact (setWorkingIndex_rkeep s i).trans (setCursorPos_rkeep _ _)
  · exact RKeep.refl s
theorem goToHistoryFixed_rkeep (s : St) (i : Nat) : RKeep s (goToHistoryFixed s i) := by
  simp only [goToHistoryFixed]; split
  · exact (goToHistory_rkeep s i).trans ⟨rfl, rfl⟩
  · exact RKeep.refl s
theorem cursorUp_rkeep (s s' : St) (c : Int) (h : cursorUp s c = some s') : RKeep s s' := by
  simp only [cursorUp] at h; split at h
  · cases h
  · cases h; exact (setCursorPos_rkeep s _).trans ⟨rfl, rfl⟩
theorem cursorDown_rkeep (s s' : St) (c : Int) (h : cursorDown s c = some s') : RKeep s s' := by
  simp only [cursorDown] at h; split at h
  · cases h
  · cases h; exact (setCursorPos_rkeep s _).trans ⟨rfl, rfl⟩
theorem autoUpPos_rkeep (s s' : St) (c : Int) (g : Bool) (h : autoUpPos s c g = some s') : RKeep s s' := by
  simp only [autoUpPos] at h; split at h
  · exact cursorUp_rkeep s s' c h
  · cases h
    show RKeep s (if g = true then home (historyBackward s c) else historyBackward s c)
    split
    · exact (historyBackward_rkeep s c).trans (setCursorPos_rkeep _ _)
    · exact historyBackward_rkeep s c
theorem autoDownPos_rkeep (s s' : St) (c : Int) (g : Bool) (h : autoDownPos s c g = some s') : RKeep s s' := by
  simp only [autoDownPos] at h; split at h
  · exact cursorDown_rkeep s s' c h
  · cases h
    show RKeep s (if g = true then home (historyForward s c) else historyForward s c)
    split
    · exact (historyForward_rkeep s c).trans (setCursorPos_rkeep _ _)
    · exact historyForward_rkeep s c
theorem setDocument_rkeep (s : St) (t : Text) (c : Nat) : RKeep s (setDocument s t c) := by
  simp only [setDocument]; repeat' (first | exact ⟨rfl, rfl⟩ | split)
theorem setText_rkeep (s : St) (t : Text) : RKeep s (setText s t) := by
  simp only [setText, setCursorPos]; repeat' (first | exact ⟨rfl, rfl⟩ | split)
theorem validate_rkeep (v : Validator) (s : St) (b : Bool) : RKeep s (validate v s b).1 := by
  simp only [validate, setCursorPos]; repeat' (first | exact ⟨rfl, rfl⟩ | split)
theorem appendToHistory_rkeep (s : St) : RKeep s (appendToHistory s) := by
  simp only [appendToHistory]; repeat' (first | exact ⟨rfl, rfl⟩ | split)
theorem validateAndHandle_rkeep (v : Validator) (s : St) (keep : Bool) :
    RKeep s (validateAndHandle v s keep).1 := by
  simp only [validateAndHandle]
  split
  · split
    · exact (validate_rkeep v s true).trans (appendToHistory_rkeep _)
    · exact (validate_rkeep v s true).trans ((appendToHistory_rkeep _).trans ⟨rfl, rfl⟩)
  · exact validate_rkeep v s true

/-- the operations that move the validator coroutine -/
def Op.isCo : Op → Bool
  | .asyncValidate | .vStart | .vFinish | .appExit => true
  | _ => false

theorem step_rkeep (v : Validator) (s : St) (op : Op) (hc : op.isCo = false) : RKeep s (step v s op).1 := by
  cases op <;> simp [Op.isCo] at hc <;> simp only [step]
  · exact setDocument_rkeep _ _ _
  · simp only [deleteBefore]; split
    · exact setDocument_rkeep _ _ _
    · exact RKeep.refl s
  · exact setText_rkeep _ _
  · exact setCursorPos_rkeep _ _
  · exact setCursorPos_rkeep _ _
  · exact setCursorPos_rkeep _ _
  · exact setCursorPos_rkeep _ _
  · exact setCursorPos_rkeep _ _
  · exact historyBackward_rkeep _ _
  · exact historyForward_rkeep _ _
  · exact goToHistory_rkeep _ _
  · exact (historyForward_rkeep s _).trans (goToHistory_rkeep _ _)
  · next c g =>
    cases hr : autoUp s c g with
    | none => exact RKeep.refl s
    | some s' =>
      rcases autoUp_cases s s' c g hr with rfl | hr | hr
      · exact RKeep.refl _
      · exact autoUpPos_rkeep s s' c g hr
      · exact autoDownPos_rkeep s s' _ g hr
  · next c g =>
    cases hr : autoDown s c g with
    | none => exact RKeep.refl s
    | some s' =>
      rcases autoDown_cases s s' c g hr with rfl | hr | hr
      · exact RKeep.refl _
      · exact autoDownPos_rkeep s s' c g hr
      · exact autoUpPos_rkeep s s' _ g hr
  · exact ⟨rfl, rfl⟩
  · exact ⟨rfl, rfl⟩
  · exact validate_rkeep v s _
  · next keep =>
    have key := validateAndHandle_rkeep v s keep
    cases hr : validateAndHandle v s keep with
    | mk s' r => cases r <;> simp [hr] at key ⊢ <;> exact key
  · exact appendToHistory_rkeep s
  · exact ⟨rfl, rfl⟩
  · exact (appendToHistory_rkeep s).trans ⟨rfl, rfl⟩
  · simp only [startLoad]; split <;> exact ⟨rfl, rfl⟩
  · simp only [loadOne]; split <;> exact ⟨rfl, rfl⟩
  · rw [← step, step_operateNext]
    exact (validateAndHandle_rkeep v s true).trans ⟨rfl, rfl⟩
  · have hb : RKeep s (yankBase s) := by
      rcases yankBase_cases s with e | ⟨k, e⟩ <;> rw [e]
      · exact RKeep.refl s
      · simp only [deleteBefore]; split
        · exact setDocument_rkeep _ _ _
        · exact RKeep.refl s
    exact hb.trans ((setDocument_rkeep _ _ _).trans ⟨rfl, rfl⟩)
  · exact goToHistoryFixed_rkeep _ _
  · exact (historyForward_rkeep s _).trans (goToHistoryFixed_rkeep _ _)

theorem vStart_rinv (v : Validator) (s : St) (h : RInv s) : RInv (vStart v s) := by
  simp only [vStart]
  split
  · exact h
  · split
    · exact fun hh => h hh
    · exact vLoopTop_rinv v _

theorem drainGo_rinv (v : Validator) : ∀ (n : Nat) (s : St), RInv s → RInv (drainGo v n s) := by
  intro n
  induction n with
  | zero => intro s h; exact h
  | succ n ih => intro s h; exact ih _ (vStart_rinv v s h)

/-- **in_flight_only_if_async** — a validation is in flight only with a validator whose
    `validate_async` suspends: with `Validator.validate_async` (inline) the coroutine always runs to
    its end in one step. -/
theorem rinv_step (v : Validator) (s : St) (op : Op) (h : RInv s) : RInv (step v s op).1 := by
  by_cases hc : op.isCo = false
  · obtain ⟨h1, h2⟩ := step_rkeep v s op hc
    unfold RInv; rw [h1, h2]; exact h
  · cases op <;> simp [Op.isCo] at hc <;> simp only [step]
    · exact drainGo_rinv v _ s h
    · exact vStart_rinv v s h
    · simp only [vFinish]
      split
      · exact h
      · split
        · intro hh; simp at hh
        · exact vLoopTop_rinv v s
    · intro hh; simp [appExit] at hh

theorem rinv_run (v : Validator) (ops : List Op) : ∀ s : St, RInv s → RInv (run v s ops) := by
  induction ops with
  | nil => intro s h; exact h
  | cons op ops ih => intro s h; exact ih _ (rinv_step v s op h)

/-- **one_at_a_time** — while a validation is in flight a newly started `_async_validator()` task
    returns at once: nothing but the task count changes. -/
theorem vStart_swallowed (v : Validator) (s : St) (hr : s.vrun.isSome = true) (ht : 0 < s.vtasks) :
    vStart v s = { s with vtasks := s.vtasks - 1 } := by
  have : s.vtasks ≠ 0 := by omega
  simp [vStart, this, hr]

/-- **stale_verdict_discarded** — the validation in flight was started for document `(t, c)`; if
    text or cursor differ when it finishes, its verdict is dropped: state and error stay as they
    are, and (state still UNKNOWN, validator suspends) a new validation of the *current* document
    is started. -/
theorem vFinish_stale (v : Validator) (s : St) (t : Text) (c : Nat) (hr : s.vrun = some (t, c))
    (hd : ¬ (s.text = t ∧ s.cur = c)) :
    (vFinish v s).vstate = (if s.vstate = .unknown ∧ s.vasync = false then (setVerdict s (v s.text)).vstate
                            else s.vstate) ∧
    (s.vstate = .unknown → s.vasync = true →
      (vFinish v s).vstate = .unknown ∧ (vFinish v s).verr = s.verr ∧
      (vFinish v s).vrun = some (s.text, s.cur)) ∧
    (s.vstate ≠ .unknown → vFinish v s = { s with vrun := none }) := by
  simp only [vFinish, hr, hd, if_false, vLoopTop]
  refine ⟨?_, ?_, ?_⟩
  · by_cases hu : s.vstate = .unknown
    · by_cases ha : s.vasync = true
      · simp [hu, ha]
      · simp [hu, ha]
    · simp [hu]
  · intro hu ha; simp [hu, ha]
  · intro hu; simp [hu]

/-- **fresh_verdict_stored** — if text and cursor are still the captured ones, the verdict of
    the validator for exactly that text is stored and the coroutine ends. -/
theorem vFinish_fresh (v : Validator) (s : St) (hr : s.vrun = some (s.text, s.cur)) :
    vFinish v s = { setVerdict s (v s.text) with vrun := none } := by
  simp [vFinish, hr]

/-- a turn of the event loop starts every created task -/
theorem drainGo_vtasks (v : Validator) : ∀ (n : Nat) (s : St), s.vtasks ≤ n → (drainGo v n s).vtasks = 0 := by
  intro n
  induction n with
  | zero => intro s h; simp only [drainGo]; omega
  | succ n ih =>
    intro s h
    refine ih _ ?_
    have hv := (vStart_valOnly v s)
    simp only [vStart]
    split
    · omega
    · split
      · show s.vtasks - 1 ≤ n; omega
      · rw [vLoopTop_vtasks]; show s.vtasks - 1 ≤ n; omega

theorem asyncValidate_vtasks (v : Validator) (s : St) : (asyncValidate v s).vtasks = 0 :=
  drainGo_vtasks v _ s (Nat.le_refl _)

/-! ## 3. Accepting under any schedule -/

/-- what `validate_and_handle` does, in every state in which the cached verdict is genuine
    (an invariant of all schedules): it accepts exactly when the validator passes the text on
    screen, it hands over exactly that text, and a rejected accept changes nothing but the cursor
    of a verdict that was computed now. -/
theorem accept_total (v : Validator) (s : St) (keep : Bool) (hv : VInv v s) (he : EInv v s) :
    (v s.text = none ∧ (validateAndHandle v s keep).2 = some s.text ∧
      (validateAndHandle v s keep).1.hist = s.hist ++ appended s.hist s.text ∧
      (validateAndHandle v s keep).1.storage = s.storage ++ appended s.hist s.text) ∨
    (∃ e, v s.text = some e ∧ (validateAndHandle v s keep).2 = none ∧
      (validateAndHandle v s keep).1.work = s.work ∧ (validateAndHandle v s keep).1.idx = s.idx ∧
      (validateAndHandle v s keep).1.hist = s.hist ∧ (validateAndHandle v s keep).1.storage = s.storage ∧
      (validateAndHandle v s keep).1.search = s.search ∧
      (validateAndHandle v s keep).1.vstate = .invalid ∧ (validateAndHandle v s keep).1.verr = some e ∧
      (validateAndHandle v s keep).1.cur =
        (if s.vstate = .unknown then min (max 0 e).toNat s.text.length else s.cur)) := by
  cases hvt : v s.text with
  | none => left; exact ⟨rfl, accept_appends_once v s keep hv hvt⟩
  | some e =>
    right
    refine ⟨e, rfl, ?_⟩
    by_cases hu : s.vstate = .unknown
    · obtain ⟨a1, a2, a3, _, a5, a6, a7, a8, a9, a10⟩ := reject_no_change v s keep e hvt hu
      exact ⟨a1, a2, a3, a5, a6, a7, a8, a10, by simp [hu, a9]⟩
    · have hi : s.vstate = .invalid := by
        cases hs : s.vstate with
        | unknown => exact absurd hs hu
        | valid => have := hv.1 hs; rw [hvt] at this; cases this
        | invalid => rfl
      rw [reject_cached v s keep hi]
      have := (he.1 hi).1
      rw [hvt] at this
      exact ⟨rfl, rfl, rfl, rfl, rfl, rfl, hi, this, by simp [hu]⟩

/-- states reachable from a newly constructed `Buffer` by any finite schedule of operations:
    edits, browsing, loader steps, resets, earlier accepts, validator tasks starting and
    finishing anywhere in between -/
def Reachable (v : Validator) (s : St) : Prop :=
  ∃ (strs : List Text) (e w a : Bool) (ops : List Op), (∀ op ∈ ops, op.ok) ∧ s = run v (St.fresh strs e w a) ops

theorem reachable_inv (v : Validator) (s : St) (h : Reachable v s) : Inv v s ∧ EInv v s ∧ RInv s := by
  obtain ⟨strs, e, w, a, ops, hok, rfl⟩ := h
  refine ⟨inv_run v ops _ (inv_fresh v strs e w a) hok, ?_, ?_⟩
  · exact einv_run v ops _ (fresh_wf strs e w a) (einv_unknown v _ rfl rfl) hok
  · exact rinv_run v ops _ (by intro h; simp [St.fresh] at h)

theorem reachable_step (v : Validator) (s : St) (op : Op) (h : Reachable v s) (hok : op.ok) :
    Reachable v (step v s op).1 := by
  obtain ⟨strs, e, w, a, ops, hoks, rfl⟩ := h
  refine ⟨strs, e, w, a, ops ++ [op], ?_, ?_⟩
  · intro o ho
    rcases List.mem_append.mp ho with ho | ho
    · exact hoks o ho
    · simp at ho; subst ho; exact hok
  · simp [run, List.foldl_append]

/-- **accept_only_if_validator_passes (any interleaving)** — after any schedule of edits,
    history browsing, loader items, validator tasks starting / finishing / being swallowed and
    earlier accepts, on a Buffer with any validator (suspending or not) and any
    `validate_while_typing` setting: `validate_and_handle` runs the accept handler with text `t`
    only if `t` is the text on screen and the validator's verdict for exactly `t` is "passes". -/
theorem accept_sound_any_schedule (v : Validator) (s : St) (keep : Bool) (t : Text) (h : Reachable v s)
    (hacc : (validateAndHandle v s keep).2 = some t) : t = s.text ∧ v t = none := by
  obtain ⟨hi, _, _⟩ := reachable_inv v s h
  obtain ⟨h1, h2⟩ := accept_only_if_valid v s keep t hi.2.1 hacc
  exact ⟨h2, h2 ▸ h1⟩

/-- **reject_changes_nothing (any interleaving)** — in every reachable state in which the validator
    does not pass the text on screen the accept handler does not run, no working copy, index,
    search text or history entry changes, `validation_error` is the validator's error, and the
    cursor goes to the reported position clamped to the text when the verdict is computed now
    (state UNKNOWN) and stays where it is when a genuine INVALID verdict was already cached. -/
theorem reject_any_schedule (v : Validator) (s : St) (keep : Bool) (e : Int) (h : Reachable v s)
    (hv : v s.text = some e) :
    (validateAndHandle v s keep).2 = none ∧
    (validateAndHandle v s keep).1.work = s.work ∧ (validateAndHandle v s keep).1.idx = s.idx ∧
    (validateAndHandle v s keep).1.hist = s.hist ∧ (validateAndHandle v s keep).1.storage = s.storage ∧
    (validateAndHandle v s keep).1.verr = some e ∧
    (validateAndHandle v s keep).1.cur =
      (if s.vstate = .unknown then min (max 0 e).toNat s.text.length else s.cur) := by
  obtain ⟨hi, he, _⟩ := reachable_inv v s h
  rcases accept_total v s keep hi.2.1 he with ⟨h0, _⟩ | ⟨e', h0, a1, a2, a3, a4, a5, _, _, a8, a9⟩
  · rw [hv] at h0; cases h0
  · rw [hv] at h0; cases h0
    exact ⟨a1, a2, a3, a4, a5, a8, a9⟩

/-- **accept_appends_once (any interleaving)** — and when the validator passes, the text on
    screen is returned and stored exactly once unless it is empty or equal to the newest entry
    `get_strings()` shows. -/
theorem accept_any_schedule (v : Validator) (s : St) (keep : Bool) (h : Reachable v s)
    (hv : v s.text = none) :
    (validateAndHandle v s keep).2 = some s.text ∧
    (validateAndHandle v s keep).1.storage = s.storage ++ appended s.hist s.text := by
  obtain ⟨hi, _, _⟩ := reachable_inv v s h
  obtain ⟨a, _, c⟩ := accept_appends_once v s keep hi.2.1 hv
  exact ⟨a, c⟩

/-! ## 4. validate-while-typing does validate -/

/-- with a validator that does not suspend, one turn of the loop after a change leaves a verdict
    (the model of round 1) -/
theorem sync_turn_validates (v : Validator) (s : St) (ha : s.vasync = false) (hr : s.vrun = none)
    (ht : 0 < s.vtasks) : (asyncValidate v s).vstate ≠ .unknown ∧ (asyncValidate v s).vrun = none := by
  have key : ∀ (n : Nat) (t : St), t.vasync = false → t.vrun = none →
      (t.vstate ≠ .unknown ∨ (0 < t.vtasks ∧ 0 < n)) →
      (drainGo v n t).vstate ≠ .unknown ∧ (drainGo v n t).vrun = none := by
    intro n
    induction n with
    | zero => intro t _ h2 h3; rcases h3 with h3 | ⟨_, h3⟩; exact ⟨h3, h2⟩; omega
    | succ n ih =>
      intro t h1 h2 h3
      have hs : (vStart v t).vasync = false ∧ (vStart v t).vrun = none ∧ (vStart v t).vstate ≠ .unknown := by
        simp only [vStart]
        by_cases h0 : t.vtasks = 0
        · rcases h3 with h3 | ⟨h3, _⟩
          · simp [h0, h1, h2, h3]
          · omega
        · simp only [h0, if_false, h2, Option.isSome_none, Bool.false_eq_true, vLoopTop, h1]
          by_cases hu : t.vstate = .unknown
          · simp only [hu, ne_eq, not_true_eq_false, if_false, Bool.false_eq_true]
            refine ⟨?_, ?_, ?_⟩
            · simp [h1]
            · trivial
            · exact setVerdict_known _ _
          · simp [hu, h1]
      exact ih _ hs.1 hs.2.1 (Or.inl hs.2.2)
  exact key _ s ha hr (Or.inr ⟨ht, ht⟩)

/-- with a validator that suspends: a turn of the loop after a change puts a validation of the
    current document in flight; when it finishes undisturbed the verdict of the current text is
    stored -/
theorem async_turn_validates (v : Validator) (s : St) (ha : s.vasync = true) (hr : s.vrun = none)
    (hu : s.vstate = .unknown) (ht : 0 < s.vtasks) :
    (asyncValidate v s).vrun = some (s.text, s.cur) ∧ (asyncValidate v s).vstate = .unknown ∧
    (vFinish v (asyncValidate v s)).vstate = (setVerdict s (v s.text)).vstate ∧
    (vFinish v (asyncValidate v s)).vrun = none := by
  have key : ∀ (n : Nat) (t : St), t.vasync = true → t.vstate = .unknown → t.text = s.text → t.cur = s.cur →
      (t.vrun = some (s.text, s.cur) ∨ (t.vrun = none ∧ 0 < t.vtasks ∧ 0 < n)) →
      (drainGo v n t).vrun = some (s.text, s.cur) ∧ (drainGo v n t).vstate = .unknown ∧
      (drainGo v n t).text = s.text ∧ (drainGo v n t).cur = s.cur := by
    intro n
    induction n with
    | zero =>
      intro t _ h2 h3 h4 h5
      rcases h5 with h5 | ⟨_, _, h5⟩
      · exact ⟨h5, h2, h3, h4⟩
      · omega
    | succ n ih =>
      intro t h1 h2 h3 h4 h5
      have hv := vStart_valOnly v t
      have hs : (vStart v t).vrun = some (s.text, s.cur) ∧ (vStart v t).vstate = .unknown := by
        simp only [vStart]
        by_cases h0 : t.vtasks = 0
        · rcases h5 with h5 | ⟨_, h5, _⟩
          · simp [h0, h5, h2]
          · omega
        · rcases h5 with h5 | ⟨h5, _, _⟩
          · simp [h0, h5, h2]
          · simp only [h0, if_false, h5, Option.isSome_none, Bool.false_eq_true, vLoopTop, h2, ne_eq,
              not_true_eq_false, h1, if_true]
            refine ⟨?_, ?_⟩
            · show some (t.text, t.cur) = _
              rw [h3, h4]
            · trivial
      exact ih _ (hv.fields.2.2.2.2.2.2.2.2.2.2.2.1.trans h1) hs.2 (hv.text.trans h3)
        (hv.fields.2.2.1.trans h4) (Or.inl hs.1)
  obtain ⟨k1, k2, k3, k4⟩ := key s.vtasks s ha hu rfl rfl (Or.inr ⟨hr, ht, ht⟩)
  have k1' : (asyncValidate v s).vrun = some ((asyncValidate v s).text, (asyncValidate v s).cur) := by
    show (drainGo v s.vtasks s).vrun = some ((drainGo v s.vtasks s).text, (drainGo v s.vtasks s).cur)
    rw [k1, k3, k4]
  refine ⟨k1, k2, ?_, ?_⟩
  · rw [vFinish_fresh v _ k1']
    show (setVerdict (drainGo v s.vtasks s) (v (drainGo v s.vtasks s).text)).vstate = _
    rw [k3]; cases v s.text <;> rfl
  · rw [vFinish_fresh v _ k1']

/-! ## 5. Key level: a prompt with validations finishing between the keys -/

/-- the keys (and `valDone` events) of one prompt, each followed by a turn of the event loop -/
def keysRun (v : Validator) (env : Env) (s : St) : List Key → St
  | [] => s
  | k :: ks => keysRun v env (keyStep v env s k).1 ks

theorem inv_keysRun (v : Validator) (env : Env) (ks : List Key) : ∀ s : St, Inv v s →
    Inv v (keysRun v env s ks) := by
  induction ks with
  | nil => intro s h; exact h
  | cons k ks ih => intro s h; exact ih _ (inv_keyStep v env s k h)

/-- **a_key_accepts_only_valid_text** — on a PromptSession (emacs bindings; single-line or multiline),
    whatever was typed, browsed and validated in the background before: a key returns `t` only if
    it is an accepting key, `t` is the text on screen and the validator passes exactly `t`. -/
theorem key_accept_sound (v : Validator) (env : Env) (s : St) (ks : List Key) (k : Key) (t : Text)
    (h : Inv v s) (hacc : (keyStep v env (keysRun v env s ks) k).2 = .accepted t) :
    keyAccepts (keysRun v env s ks) k = true ∧ t = (keysRun v env s ks).text ∧ v t = none := by
  have hi := inv_keysRun v env ks s h
  generalize keysRun v env s ks = s1 at *
  have key : ∀ op : Op, (step v s1 op).2 = .accepted t → op.appends = true ∧
      (∃ keep, (validateAndHandle v s1 keep).2 = some t) := by
    intro op ho
    cases op <;> simp only [step] at ho <;> (try (cases ho; done))
    · next c g => cases hr : autoUp s1 c g <;> simp [hr] at ho
    · next c g => cases hr : autoDown s1 c g <;> simp [hr] at ho
    · next keep =>
      refine ⟨rfl, keep, ?_⟩
      cases hr : validateAndHandle v s1 keep with
      | mk s' r =>
        cases r with
        | none => simp [hr] at ho
        | some t' => simp [hr] at ho; simp [ho]
    · refine ⟨rfl, true, ?_⟩
      rw [← (operateNext_eq v s1).2]
      cases hr : operateNext v s1 with
      | mk s' r =>
        cases r with
        | none => simp [hr] at ho
        | some t' => simp [hr] at ho; simp [ho]
  obtain ⟨ha, keep, hk⟩ := key (keyOp env s1 k) (by simpa [keyStep] using hacc)
  obtain ⟨h1, h2⟩ := accept_only_if_valid v s1 keep t hi.2.1 hk
  rw [keyOp_appends] at ha
  exact ⟨ha, h2, h2 ▸ h1⟩

/-- the same in vi mode -/
def viKeysRun (v : Validator) (env : Env) (vs : ViSt) : List ViKey → ViSt
  | [] => vs
  | k :: ks => viKeysRun v env (viKeyStep v env vs k).1 ks

theorem inv_viKeysRun (v : Validator) (env : Env) (ks : List ViKey) : ∀ vs : ViSt, Inv v vs.st →
    Inv v (viKeysRun v env vs ks).st := by
  induction ks with
  | nil => intro vs h; exact h
  | cons k ks ih => intro vs h; exact ih _ (inv_viKeyStep v env vs k h)

theorem vi_enter_sound (v : Validator) (env : Env) (vs : ViSt) (ks : List ViKey) (t : Text)
    (h : Inv v vs.st) (hacc : (viKeyStep v env (viKeysRun v env vs ks) .enter).2 = .accepted t) :
    t = (viKeysRun v env vs ks).st.text ∧ v t = none := by
  have hi := inv_viKeysRun v env ks vs h
  generalize viKeysRun v env vs ks = vs1 at *
  have hacc' : (validateAndHandle v vs1.st true).2 = some t := by
    simp only [viKeyStep, viHandler, step] at hacc
    split at hacc
    · simp at hacc
    · cases hr : validateAndHandle v vs1.st true with
      | mk s' r =>
        cases r with
        | none => simp [hr] at hacc
        | some t' => simp [hr] at hacc; simp [hacc]
  obtain ⟨h1, h2⟩ := accept_only_if_valid v _ true t hi.2.1 hacc'
  exact ⟨h2, h2 ▸ h1⟩

/-! ## 6. `Buffer.reset(append_to_history=True)` -/

/-- the current text is appended by the same rule as on accept, then the buffer is clean -/
theorem resetAppend_spec (s : St) (t : Text) (c : Nat) :
    (resetAppend s t c).storage = s.storage ++ appended s.hist s.text ∧
    (resetAppend s t c).hist = s.hist ++ appended s.hist s.text ∧
    (resetAppend s t c).work = [t] ∧ (resetAppend s t c).idx = 0 ∧ (resetAppend s t c).cur = c ∧
    (resetAppend s t c).search = none ∧ (resetAppend s t c).vstate = .unknown ∧
    (resetAppend s t c).verr = none := by
  obtain ⟨a1, a2⟩ := appendToHistory_hist s
  simp [resetAppend, reset, a1, a2]

/-! ## 6b. `operate-and-get-next` -/

/-- **operate_and_get_next_is_accept_line** — `c-o` accepts exactly like `accept-line` (same
    verdict, same returned text, same history), and the *next* prompt starts in exactly the same
    state as after `accept-line`: the registered `set_working_index` callable runs before the
    loader has delivered any entry and therefore never selects "the following history entry"
    (`runPreRun_reset`).  The documented "fetch the next line" does not happen in the code as it
    is; the property's "next prompt starts from a clean entry list" does hold. -/
theorem operateNext_is_accept (v : Validator) (s : St) (d : Text) :
    (step v s .operateNext).2 = (step v s (.accept true)).2 ∧
    (step v s .operateNext).1.storage = (step v s (.accept true)).1.storage ∧
    (step v s .operateNext).1.work = (step v s (.accept true)).1.work ∧
    promptStart (step v s .operateNext).1 d = promptStart (step v s (.accept true)).1 d := by
  have e1 := step_operateNext v s
  have e2 : (step v s (.accept true)).1 = (validateAndHandle v s true).1 := by
    simp only [step]
    cases validateAndHandle v s true with
    | mk s' r => cases r <;> rfl
  have o1 : (step v s .operateNext).2 = (step v s (.accept true)).2 := by
    simp only [step]
    have := (operateNext_eq v s).2
    cases hr : operateNext v s with
    | mk s' r =>
      cases hr2 : validateAndHandle v s true with
      | mk s'' r2 =>
        rw [hr, hr2] at this
        simp only at this
        subst this
        cases r <;> rfl
  refine ⟨o1, by rw [e1, e2], by rw [e1, e2], ?_⟩
  rw [e1, e2]
  simp only [promptStart, runPreRun_reset]
  rfl

/-! ## 7. Non-vacuity -/

/-- the session of the missed seed: validate-while-typing with a validator that suspends; "a" is
    typed, its validation starts, "x" is typed while it is in flight (the text becomes invalid),
    then the validation of "a" finishes -/
def exA : St :=
  run exV (St.fresh ["7".toList] false true true)
    [.insert "a".toList, .vStart, .insert "x".toList, .vFinish]

/-- the verdict for "a" is dropped: state UNKNOWN, a validation of "ax" is in flight, the task
    created by the second edit is still waiting -/
example : exA.text = "ax".toList ∧ exA.vstate = .unknown ∧ exA.verr = none ∧
    exA.vrun = some ("ax".toList, 2) ∧ exA.vtasks = 1 := by decide

/-- … so Enter computes a fresh verdict: rejected, nothing stored, cursor at clamp(5) = 2 -/
example : (validateAndHandle exV exA true).2 = none ∧
    (validateAndHandle exV exA true).1.storage = ["7".toList] ∧
    (validateAndHandle exV exA true).1.cur = 2 ∧ (validateAndHandle exV exA true).1.verr = some 5 := by decide

theorem exA_reachable : Reachable exV exA :=
  ⟨["7".toList], false, true, true, _, by intro op ho; simp at ho; rcases ho with rfl | rfl | rfl | rfl <;> trivial, rfl⟩

example : (validateAndHandle exV exA true).2 = none :=
  (reject_any_schedule exV exA true 5 exA_reachable (by decide)).1

/-- the swallowed task: started while the validation of "ax" is in flight it only disappears -/
example : vStart exV exA = { exA with vtasks := 0 } :=
  vStart_swallowed exV exA (by decide) (by decide)

/-- when the validation of "ax" finishes undisturbed, INVALID with the error position is stored -/
example : (vFinish exV exA).vstate = .invalid ∧ (vFinish exV exA).verr = some 5 ∧
    (vFinish exV exA).vrun = none := by decide

/-- the guard matters: a `_validate_async` that compares the documents only when the validator
    raised (the seeded regression C14-e) stores VALID for the never-validated "ax", and Enter
    then returns it -/
def vFinishNoGuard (v : Validator) (s : St) : St :=
  match s.vrun with
  | none => s
  | some (t, c) =>
    match v t with
    | some e => if s.text = t ∧ s.cur = c then { setVerdict s (some e) with vrun := none } else vLoopTop v s
    | none => { setVerdict s none with vrun := none }

example :
    let s := run exV (St.fresh ["7".toList] false true true) [.insert "a".toList, .vStart, .insert "x".toList]
    ¬ VInv exV (vFinishNoGuard exV s) ∧
    (validateAndHandle exV (vFinishNoGuard exV s) true).2 = some "ax".toList ∧
    VInv exV (vFinish exV s) := by
  refine ⟨?_, by decide, ?_⟩
  · intro h; have := h.1 (by decide); revert this; decide
  · exact vinv_unknown exV _ (by decide)

/-- key level: a "x" (while the validation of "a" is in flight) valDone Enter is rejected -/
example :
    let s0 := promptStart (St.fresh ["7".toList] false true true) []
    let s := keysRun exV exSp s0 [.char 'a', .char 'x', .valDone]
    s.text = "ax".toList ∧ s.vrun = some ("ax".toList, 2) ∧ (keyStep exV exSp s .enter).2 = .rejected := by decide

/-- `validate_while_typing` with an inline validator: after the turn of the loop the verdict is there -/
example : (asyncValidate exV (run exV (St.fresh [] false true false) [.insert "ax".toList])).vstate = .invalid :=
  by decide

/-- c-o on the recalled entry "b" of [a, b, c]: accepted like Enter; the next prompt starts on the
    new line (index 4 of [a, b, c, b, ""]), not on "c" -/
example :
    let s0 := promptStart (St.fresh ["a".toList, "b".toList, "c".toList] false false) []
    let s1 := keysRun exV exSp s0 [.up 1, .up 1]
    s1.text = "b".toList ∧ s1.idx = 1 ∧ (keyStep exV exSp s1 .ctrlO).2 = .accepted "b".toList ∧
    (keyStep exV exSp s1 .ctrlO).1.preRun = [1] ∧
    (promptStart (keyStep exV exSp s1 .ctrlO).1 []).idx = 4 ∧
    (promptStart (keyStep exV exSp s1 .ctrlO).1 []).text = [] ∧
    (promptStart (keyStep exV exSp s1 .ctrlO).1 []).preRun = [] := by decide

end Ptk.C14
