/-
  C11 — end-to-end theorems for ARBITRARY cell widths (the code as it is): `render_cursor_shown`
  (document + cursor → processors → content → scroll from any previous state → copy), its history form
  `history_independent_gen`, the instantiation for the character classes regenerated from the current
  tree (`render_cursor_shown_genW`) with the pinned side conditions (`genW_measures_as_drawn`,
  `genW_blank`, `gen_ok`), and non-vacuity examples with double-width, combining and control characters.
-/
import Ptk.Model.C11W
import Ptk.Props.C11WrapGen
import Ptk.Props.C11Procs
import Ptk.Props.C11Doc
namespace Ptk.C11
open Ptk.Py

theorem contentLines_length' (procs : List Proc) (text : Text) :
    (contentLines procs text).length = (splitOn '\n' text).length := by
  simp [contentLines]

theorem contentLines_getD' (procs : List Proc) (text : Text) (cy : Nat) (h : cy < (splitOn '\n' text).length) :
    (contentLines procs text).getD cy [] =
      (merged cy (splitOn '\n' text).length procs ((splitOn '\n' text).getD cy [])).frags ++ [' '] := by
  have h' : cy < (contentLines procs text).length := by rw [contentLines_length']; exact h
  simp only [List.getD, List.getElem?_eq_getElem h', List.getElem?_eq_getElem h, Option.getD_some]
  simp [contentLines]

/-- the trailing blank of `BufferControl` content is one column wide, so something at or after any
    cursor column inside the fragments is at least one column wide -/
theorem after_cursor_wide (W : Widths) (hblank : cellW W ' ' = 1) (fr : Text) (cx : Nat) (h : cx ≤ fr.length) :
    cellsWidth W ((fr ++ [' ']).take cx) < cellsWidth W (fr ++ [' ']) := by
  have h1 : (fr ++ [' ']).take cx = fr.take cx := List.take_append_of_le_length h
  rw [h1, cellsWidth_append]
  have := cellsWidth_take_drop W fr cx
  simp only [cellsWidth, hblank]
  omega

/-- the domain of the general end-to-end theorem for one render: content area `w ≥ 1` wide after the
    numbered margin, height `≥ 1`, every line prefix narrower than the content area and measured as it
    is drawn; with wrapping additionally: every content line from the new top of the window through the
    cursor line is `Regular` (one-column cells only, or it does not wrap) and the character under the
    cursor is at least one column wide -/
def RenderDomain (W : Widths) (c : Cfg) (tw height w : Nat) (wrap : Bool) (text : Text) (cur : Nat)
    (s : Scroll) : Prop :=
  c.bodyWidth W tw (contentLines c.procs text).length = (w : Int) ∧
  1 ≤ w ∧ 1 ≤ height ∧
  (∀ f, c.prefixFn = some f → ∀ l k, cellsWidth W (f l k) < w ∧ textWidth W (f l k) = cellsWidth W (f l k)) ∧
  (wrap = true →
    Regular W c w (rowOf text cur) ((contentLines c.procs text).getD (rowOf text cur) []) ∧
    ∀ cx, cursorX c.procs text cur = some cx →
      (∀ ch, ((contentLines c.procs text).getD (rowOf text cur) [])[cx]? = some ch → 1 ≤ cellW W ch) ∧
      ∀ l : Nat, (scrollFor W c (contentLines c.procs text) w height true (rowOf text cur) cx s).vs ≤ (l : Int) →
        l < rowOf text cur → Regular W c w l ((contentLines c.procs text).getD l []))

/-- what one render guarantees (any widths): it succeeds, the cursor cell is recorded by `rowcol_to_yx`
    inside the window body, and — when the character under the cursor is at least one column wide — the
    screen cell there shows it, followed only by zero-width characters merged into it -/
def CursorShown (W : Widths) (c : Cfg) (height : Nat) (text : Text) (cur : Nat) (o : Option Rendered) : Prop :=
  ∃ r, o = some r ∧ r.cy = rowOf text cur ∧
    ∃ (yc xc : Nat) (ch : Char), yc < height ∧ (xc : Int) < r.width ∧
      ((contentLines c.procs text).getD r.cy [])[r.cx]? = some ch ∧
      cursorFound r.st r.cy r.cx = true ∧
      cursorScreen r.st r.cy r.cx = ((yc : Int) + c.ypos, (xc : Int) + r.xoff) ∧
      (1 ≤ cellW W ch → ∃ zs, ZW W zs ∧
        cellAt r.st.cells ((yc : Int) + c.ypos, (xc : Int) + r.xoff) = W.disp ch ++ zs)

/-- **the whole render, end to end, ANY cell widths** (double-width, zero-width / combining, control
    characters; the code as it is): document text + cursor → processors → content → scroll (from ANY
    previous scroll state) → body copy.  WITHOUT wrapping: for all inputs.  WITH wrapping: for all inputs
    in which every line up to the cursor line is `Regular` and the cursor character is not zero-width
    (`RenderDomain`). -/
theorem render_cursor_shown {W : Widths} (hdm : W.dm = true) (hblank : cellW W ' ' = 1) (c : Cfg)
    (hps : ∀ p ∈ c.procs, ProcOK p) (tw height w : Nat) (wrap : Bool) (text : Text) (cur : Nat) (s : Scroll)
    (hd : RenderDomain W c tw height w wrap text cur s) :
    CursorShown W c height text cur (render W c tw height wrap text cur s) := by
  obtain ⟨hw, h1, hh, hpfx, hwr⟩ := hd
  have hrow := rowOf_lt text cur
  have hcol := colOf_le text cur
  have hg := merged_good (rowOf text cur) (splitOn '\n' text).length c.procs hps
    ((splitOn '\n' text).getD (rowOf text cur) [])
  obtain ⟨cx, hcx1, hcx2, _⟩ := hg.defd (colOf text cur) hcol
  have hcX : cursorX c.procs text cur = some cx := hcx1
  have hline := contentLines_getD' c.procs text (rowOf text cur) hrow
  have hcy : rowOf text cur < (contentLines c.procs text).length := by rw [contentLines_length']; exact hrow
  have hcxlt : cx < ((contentLines c.procs text).getD (rowOf text cur) []).length := by
    rw [hline, List.length_append]; simp only [List.length_singleton]; omega
  have hget : ((contentLines c.procs text).getD (rowOf text cur) [])[cx]? =
      some (((contentLines c.procs text).getD (rowOf text cur) [])[cx]) := List.getElem?_eq_getElem hcxlt
  unfold CursorShown render
  simp only [hcX, hw]
  refine ⟨_, rfl, rfl, ?_⟩
  simp only []
  generalize c.leftWidth W (contentLines c.procs text).length = mw at *
  cases wrap with
  | true =>
    obtain ⟨hregc, hrest⟩ := hwr rfl
    obtain ⟨hcw, hreg⟩ := hrest cx hcX
    obtain ⟨yc, xc, zs, a1, a2, a3, a4, a5, a6⟩ := wrap_cursor_in_window_partial hdm c (contentLines c.procs text)
      w height mw h1 hh hpfx (rowOf text cur) cx hcy hcxlt (hcw _ hget) s hreg hregc
    exact ⟨yc, xc, _, a1, by exact_mod_cast a2, hget, a3, a4, fun _ => ⟨zs, a5, a6⟩⟩
  | false =>
    have hp : match c.prefixFn with
        | none => 1 ≤ w
        | some f => ∀ l, cellsWidth W (f l 0) < w ∧ textWidth W (f l 0) = cellsWidth W (f l 0) := by
      cases h : c.prefixFn with
      | none => exact h1
      | some f => exact fun l => hpfx f h l 0
    have hafter : cellsWidth W (((contentLines c.procs text).getD (rowOf text cur) []).take cx) <
        cellsWidth W ((contentLines c.procs text).getD (rowOf text cur) []) := by
      rw [hline]; exact after_cursor_wide W hblank _ cx hcx2
    obtain ⟨yc, xc, a1, a2, _, a3, a4, a5⟩ := nowrap_cursor_in_window_gen hdm c (contentLines c.procs text)
      w height mw hh hp (rowOf text cur) cx hcy hcxlt hafter s
    exact ⟨yc, xc, _, a1, by exact_mod_cast a2, hget, a3, a4, a5⟩

/-! ### histories, any widths -/

/-- one state of the window: size, wrap mode, document, cursor -/
structure StepG where
  tw : Nat
  height : Nat
  wrap : Bool
  text : Text
  cur : Nat

/-- render a sequence of states through one window; the scroll state carries over -/
def renderSeqG (W : Widths) (c : Cfg) : List StepG → Scroll → List (Option Rendered)
  | [], _ => []
  | st :: rest, s =>
    let r := render W c st.tw st.height st.wrap st.text st.cur s
    r :: renderSeqG W c rest (match r with | some x => x.scroll | none => s)

inductive All2G {α β : Type} (R : α → β → Prop) : List α → List β → Prop
  | nil : All2G R [] []
  | cons {a b as bs} : R a b → All2G R as bs → All2G R (a :: as) (b :: bs)

/-- every state of the history lies in `RenderDomain` for the scroll state it is rendered from -/
def HistoryDomain (W : Widths) (c : Cfg) : List StepG → Scroll → Prop
  | [], _ => True
  | st :: rest, s =>
    (∃ w, RenderDomain W c st.tw st.height w st.wrap st.text st.cur s) ∧
    HistoryDomain W c rest
      (match render W c st.tw st.height st.wrap st.text st.cur s with | some x => x.scroll | none => s)

/-- **history_independent, ANY cell widths.**  Along any finite sequence of window states (documents,
    cursors, sizes, wrap modes changing between states) rendered one after the other through one window,
    starting from ANY scroll state: when every state lies in `RenderDomain` (all unwrapped states;
    wrapped states whose displayed lines up to the cursor are `Regular`), every single render shows the
    cursor inside the window on its character. -/
theorem history_independent_gen {W : Widths} (hdm : W.dm = true) (hblank : cellW W ' ' = 1) (c : Cfg)
    (hps : ∀ p ∈ c.procs, ProcOK p) (steps : List StepG) :
    ∀ (s : Scroll), HistoryDomain W c steps s →
      All2G (fun st o => CursorShown W c st.height st.text st.cur o) steps (renderSeqG W c steps s) := by
  induction steps with
  | nil => intro s _; exact All2G.nil
  | cons st rest ih =>
    intro s hok
    obtain ⟨⟨w, hd⟩, hrest⟩ := hok
    rw [renderSeqG]
    exact All2G.cons (render_cursor_shown hdm hblank c hps st.tw st.height w st.wrap st.text st.cur s hd)
      (ih _ hrest)

/-! ### the generated character classes satisfy the side conditions (re-decided on every run) -/

/-- probe pinned: the scroll code of the current tree measures characters as they are drawn
    (`get_display_width`, fix 9db5f12).  A tree that goes back to `get_cwidth` breaks this. -/
theorem genW_measures_as_drawn : genW.dm = true := by decide

/-- the trailing blank of `BufferControl` content is one column wide -/
theorem genW_blank : cellW genW ' ' = 1 := by decide +kernel

/-- every `Char.display_mappings` entry is drawn at least one column wide (so a control character
    under the cursor always has a cell of its own) -/
def DisplayWide (t : List (Nat × List Nat)) : Bool :=
  t.all fun p => 1 ≤ (p.2.map fun n => Gen.C11.rawWidth (Char.ofNat n)).sum

theorem gen_ok : DisplayWide Gen.C11.displayMappings = true := by decide +kernel

/-! the width tables cover ALL code points 0 .. 0x10FFFF (range-compressed); their shape is re-decided by a
    linear Bool walk over the ~500 ranges, and bridge lemmas turn the walk into statements about every
    character -/

/-- ranges are non-empty, inside the code space, strictly increasing and not adjacent (maximal runs) -/
def rangesWF : List (Nat × Nat) → Bool
  | [] => true
  | [(a, b)] => Nat.ble a b && Nat.blt b 1114112
  | (a, b) :: (a', b') :: rest => Nat.ble a b && Nat.blt (b + 1) a' && rangesWF ((a', b') :: rest)

/-- no range of `xs` meets a range of `ys` -/
def rangesApart (xs ys : List (Nat × Nat)) : Bool :=
  xs.all fun p => ys.all fun q => Nat.blt p.2 q.1 || Nat.blt q.2 p.1

theorem gen_width_tables_wf :
    rangesWF Gen.C11.zeroWidthRanges = true ∧ rangesWF Gen.C11.wideRanges = true ∧
      rangesApart Gen.C11.zeroWidthRanges Gen.C11.wideRanges = true ∧ Gen.C11.otherWidthRanges = [] ∧
      Gen.C11.scannedAll = [(0, 1114112)] := by
  decide +kernel

theorem inRanges_iff (rs : List (Nat × Nat)) (c : Char) :
    Gen.C11.inRanges rs c = true ↔ ∃ r ∈ rs, r.1 ≤ c.toNat ∧ c.toNat ≤ r.2 := by
  unfold Gen.C11.inRanges
  rw [List.any_eq_true]
  constructor
  · rintro ⟨r, hr, h⟩; exact ⟨r, hr, by simpa using h⟩
  · rintro ⟨r, hr, h⟩; exact ⟨r, hr, by simpa using h⟩

/-- bridge: `get_cwidth` of the generated table, for EVERY character, by the range that holds it -/
theorem genW_rw_spec (c : Char) :
    (genW.rw c = 0 ↔ ∃ r ∈ Gen.C11.zeroWidthRanges, r.1 ≤ c.toNat ∧ c.toNat ≤ r.2) ∧
    (genW.rw c = 2 ↔ ∃ r ∈ Gen.C11.wideRanges, r.1 ≤ c.toNat ∧ c.toNat ≤ r.2) ∧
    (genW.rw c = 0 ∨ genW.rw c = 1 ∨ genW.rw c = 2) := by
  have hap := gen_width_tables_wf.2.2.1
  have hrw : genW.rw c = Gen.C11.rawWidth c := rfl
  rw [hrw, ← inRanges_iff, ← inRanges_iff]
  unfold Gen.C11.rawWidth
  by_cases hz : Gen.C11.inRanges Gen.C11.zeroWidthRanges c = true
  · have hw : Gen.C11.inRanges Gen.C11.wideRanges c = false := by
      cases hw : Gen.C11.inRanges Gen.C11.wideRanges c with
      | false => rfl
      | true =>
        obtain ⟨p, hp, hp1, hp2⟩ := (inRanges_iff _ c).mp hz
        obtain ⟨q, hq, hq1, hq2⟩ := (inRanges_iff _ c).mp hw
        unfold rangesApart at hap
        rw [List.all_eq_true] at hap
        have := hap p hp
        rw [List.all_eq_true] at this
        have := this q hq
        simp [Nat.blt_eq] at this
        omega
    simp [hz, hw]
  · by_cases hw : Gen.C11.inRanges Gen.C11.wideRanges c = true <;> simp [hz, hw]

/-- the "infinite" height literal of `UIContent.get_height_for_line`, read from the source text -/
theorem gen_height_infinite : BIG = Gen.C11.heightInfinite := by decide

/-- `NumberedMargin.get_width` of the current tree on a ladder of line counts = the model's formula -/
theorem gen_margin_width :
    (Gen.C11.marginWidthSamples.all fun p => numberedMarginWidth p.1 == p.2) = true := by decide

/-- `render_cursor_shown` for the character classes of the current tree: no hypothesis about widths left -/
theorem render_cursor_shown_genW (c : Cfg) (hps : ∀ p ∈ c.procs, ProcOK p) (tw height w : Nat) (wrap : Bool)
    (text : Text) (cur : Nat) (s : Scroll) (hd : RenderDomain genW c tw height w wrap text cur s) :
    CursorShown genW c height text cur (render genW c tw height wrap text cur s) :=
  render_cursor_shown genW_measures_as_drawn genW_blank c hps tw height w wrap text cur s hd


-- characters outside the round-1 scan ranges are measured now: Bopomofo, Hangul, an emoji (2 columns);
-- combining grave, zero width space, a variation selector of plane 14 (0 columns)
example : ([0x3105, 0xAC00, 0x1F600, 0x0300, 0x200B, 0xE0100, 0x41].map fun n => genW.rw (Char.ofNat n)) =
    [2, 2, 2, 0, 0, 0, 1] := by decide +kernel
example := (genW_rw_spec (Char.ofNat 0x1F600)).2.1

/-! ### non-vacuity: double-width, combining (zero-width) and control characters -/

/-- '世' two columns, U+0301 zero columns (combining), TAB drawn as "^I" (raw width 0) -/
def wMix : Widths :=
  { rw := fun c => if c = '世' then 2 else if c = '́' then 0 else if c = '\t' then 0 else 1,
    disp := fun c => if c = '\t' then ['^', 'I'] else [c], dm := true }

def cfgN : Cfg := { xpos := 0, ypos := 0, top := 0, bottom := 0, left := 0, right := 0, beyond := false,
                    margin := false, pfx := none, procs := [] }
def cfgQ : Cfg := { xpos := 1, ypos := 2, top := 0, bottom := 0, left := 1, right := 1, beyond := false,
                    margin := false, pfx := some ("世".toList, "> ".toList, ".".toList), procs := [] }
def sFar : Scroll := { vs := 7, hs := 9, vs2 := 4 }

-- no wrapping, width 3: "a世e◌́世\tx " with the cursor on 'e' (col 2): horizontal_scroll 3 (skips 'a','世'),
-- the cursor cell is at column 0 and shows 'e' with the combining accent merged into it
example : let lines := ["a世é世\tx ".toList]
    let s' := scrollFor wMix cfgN lines 3 1 false 0 2 sFar
    let r := copyBody (envFor wMix cfgN 3 1 false 0) lines s'
    s'.hs = 3 ∧ cursorFound r 0 2 = true ∧ cursorScreen r 0 2 = (0, 0) ∧ cellAt r.cells (0, 0) = ['e', '́'] := by
  decide
-- the same line, cursor on the raw TAB (col 5): drawn as "^I" (two columns)
example : let lines := ["a世é世\tx ".toList]
    let s' := scrollFor wMix cfgN lines 3 1 false 0 5 sFar
    let r := copyBody (envFor wMix cfgN 3 1 false 0) lines s'
    cursorFound r 0 5 = true ∧ cellAt r.cells (cursorScreen r 0 5) = ['^', 'I'] := by
  decide
example := nowrap_cursor_in_window_gen (W := wMix) rfl cfgN ["a世é世\tx ".toList] 3 1 0 (by decide)
  (by simp [cfgN, Cfg.prefixFn]) 0 2 (by decide) (by decide) (by decide) sFar
-- with a double-width prompt prefix, offsets and a window origin
example := nowrap_cursor_in_window_gen (W := wMix) rfl cfgQ ["ab".toList, "a世é世\tx ".toList] 5 2 0 (by decide)
  (by intro l
      show cellsWidth wMix (if 0 > 0 then ".".toList else if l = 0 then "世".toList else "> ".toList) < 5 ∧
        textWidth wMix (if 0 > 0 then ".".toList else if l = 0 then "世".toList else "> ".toList) =
        cellsWidth wMix (if 0 > 0 then ".".toList else if l = 0 then "世".toList else "> ".toList)
      by_cases h : l = 0 <;> simp [h] <;> decide)
  1 4 (by decide) (by decide) (by decide) sFar
-- skipLoop_spec / hskip_spec: scrolling 2 columns into "a世b": the double-width character is skipped whole
example : hskip wMix 2 "a世b".toList = (-1, "b".toList, 2) := by decide
example := hskip_spec wMix "a世".toList 'b' [] 2 (by decide)
-- wrapping, width 3, height 2: line 0 narrow and wrapping, line 1 with a wide character but not wrapping:
-- both `Regular`; cursor on '世'
example : Regular wMix cfgN 3 0 "abcd ".toList := Or.inl (by decide)
example : Regular wMix cfgN 3 1 "世 ".toList := Or.inr (by decide)
example := wrap_cursor_in_window_partial (W := wMix) rfl cfgN ["abcd ".toList, "世 ".toList] 3 2 0 (by decide) (by decide)
  (fun f h => by simp [cfgN, Cfg.prefixFn] at h) 1 0 (by decide) (by decide) (by decide) sFar
  (fun l _ hl => by
    have : l = 0 := by omega
    subst this; exact Or.inl (by decide))
  (Or.inr (by decide))
example : let lines := ["abcd ".toList, "世 ".toList]
    let r := copyBody (envFor wMix cfgN 3 2 true 0) lines (scrollFor wMix cfgN lines 3 2 true 1 0 sFar)
    cursorFound r 1 0 = true ∧ cellAt r.cells (cursorScreen r 1 0) = ['世'] := by decide
-- the estimate is exact on Regular lines, and the copy uses exactly that many rows
example := estimate_exact (W := wMix) rfl cfgN 3 2 0 (by decide) (fun f h => by simp [cfgN, Cfg.prefixFn] at h)
  0 "abcd ".toList (Or.inl (by decide))
example : rowsG (envFor wMix cfgN 3 2 true 0) 3 0 "abcd ".toList = 2 := by decide
example := fold_wrap_last_gen (e := envFor wMix cfgN 3 9 true 0) rfl 3 rfl (fun _ => 0) (fun _ => by decide) 0 0 id
  (fun st hx hr => ⟨hx, rfl, rfl, rfl, hr⟩) '世' (by decide) "ab".toList (initCS 0) 0 rfl rfl (by decide)
-- end to end (no wrapping, any widths): text with a wide character, a combining accent and a raw TAB
example := render_cursor_shown (W := wMix) rfl (by decide) cfgN (by simp [cfgN]) 3 1 3 false
  "a世é世\tx".toList 2 sFar
  ⟨by decide, by decide, by decide, fun f h => by simp [cfgN, Cfg.prefixFn] at h, fun h => by cases h⟩
example := history_independent_gen (W := wMix) rfl (by decide) cfgN (by simp [cfgN])
  [{ tw := 3, height := 1, wrap := false, text := "a世é世\tx".toList, cur := 2 },
   { tw := 4, height := 2, wrap := false, text := "a世\n世\tx".toList, cur := 5 }] sFar
  ⟨⟨3, by decide, by decide, by decide, fun f h => by simp [cfgN, Cfg.prefixFn] at h, fun h => by cases h⟩,
   ⟨4, by decide, by decide, by decide, fun f h => by simp [cfgN, Cfg.prefixFn] at h, fun h => by cases h⟩, trivial⟩

end Ptk.C11
