/-
  Cross-model agreement, cluster "KeyProcessor and key bindings"
  (key_binding/key_processor.py, key_binding/key_bindings.py, filters): umbrella module.

    AgreeKeyArg    KeyPressEvent.arg / append_to_arg_count: C04 vs C01, C07, C08, C09, C17, C05
    AgreeKeyC17    _process / _call_handler / _process_cpr_response / process_keys / reset /
                   empty_queue / feed: C04 vs C17 second layer (key buffer)
    AgreeKeyC17L1  process_keys with the is_done gate: C04 vs C17 first layer
    AgreeKeyC05    get_bindings_for_keys / starting_with_keys, filters, _process, process_keys,
                   _call_handler: C04 vs C05 mode skeleton
    AgreeKeyC07    _call_handler (is_repeat, save_before, _previous_handler), reset, CPR: C04 vs C07
    AgreeKeyC08    _call_handler's argument channel: C04 vs C08 session
    AgreeKeyFix    _fix_vi_cursor_position (C05, C07, C08, C09, C14, C16),
                   _leave_vi_temp_navigation_mode (C05, C08), Vi mode filters (C05, C08)
-/
import Ptk.Props.AgreeKeyArg
import Ptk.Props.AgreeKeyC17
import Ptk.Props.AgreeKeyC17L1
import Ptk.Props.AgreeKeyC05
import Ptk.Props.AgreeKeyC07
import Ptk.Props.AgreeKeyC08
import Ptk.Props.AgreeKeyFix
