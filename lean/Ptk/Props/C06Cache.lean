/-
  C06 — the differ that reads its two dictionaries (`diffC`, `Ptk.Model.C06Full`) refines the differ with pure
  style lookups (`diff`, `Ptk.Model.C06`) whenever the dictionaries agree with the style in force.

    CsOk                 the two dictionaries agree with `f` (entries and what a miss computes), and the
                         has-style cache reads the SAME attrs-cache object (`alias`)
    Caches.attrs_ok / Caches.has_ok / outputCharC_ok / countedC_ok / … / diffC_refines
-/
import Ptk.Model.C06Full
namespace Ptk.C06
open Ptk.Py

/-- the differ reads only these fields of its environment -/
structure EnvAgree (e e' : Env) : Prop where
  w : e.w = e'.w
  h : e.h = e'.h
  fs : e.fullScreen = e'.fullScreen
  depth : e.depth = e'.depth
  enc : e.enc = e'.enc

theorem EnvAgree.refl (e : Env) : EnvAgree e e := ⟨rfl, rfl, rfl, rfl, rfl⟩

/-- every entry of a dictionary is the value of `f` at its key -/
def EntsOk {α : Type} (f : Nat → α) (l : List (Nat × α)) : Prop := ∀ p ∈ l, p.2 = f p.1

theorem lookupD_ok {α : Type} (f : Nat → α) : ∀ (l : List (Nat × α)) (s : Nat) (v : α),
    EntsOk f l → lookupD l s = some v → v = f s := by
  intro l
  induction l with
  | nil => intro s v _ h; cases h
  | cons p rest ih =>
    intro s v hok h
    obtain ⟨k, w⟩ := p
    simp only [lookupD] at h
    split at h
    · rename_i hk
      cases h
      have := hok (k, v) (by simp)
      subst hk
      exact this
    · exact ih s v (fun q hq => hok q (by simp [hq])) h

theorem EntsOk.cons {α : Type} {f : Nat → α} {l : List (Nat × α)} (h : EntsOk f l) (s : Nat) :
    EntsOk f ((s, f s) :: l) := by
  intro p hp
  simp only [List.mem_cons] at hp
  rcases hp with hp | hp
  · subst hp; rfl
  · exact h p hp

/-- an attrs cache agrees with `f`: what it computes on a miss and what it has stored -/
structure AOk (wd : World) (f : Nat → Attrs) (c : ACache) : Prop where
  miss : ∀ s, wd.rawAt c.sk c.tk s = f s
  ents : EntsOk f c.ents

theorem ACache.get_ok (wd : World) (f : Nat → Attrs) (c : ACache) (s : Nat) (h : AOk wd f c) :
    (c.get wd s).1 = f s ∧ AOk wd f (c.get wd s).2 ∧ (c.get wd s).2.id = c.id ∧
    (c.get wd s).2.sk = c.sk ∧ (c.get wd s).2.tk = c.tk := by
  unfold ACache.get
  split
  · rename_i a ha
    exact ⟨lookupD_ok f _ _ _ h.ents ha, h, rfl, rfl, rfl⟩
  · refine ⟨h.miss s, ⟨h.miss, ?_⟩, rfl, rfl, rfl⟩
    simp only
    rw [h.miss s]
    exact h.ents.cons s

/-- the two dictionaries handed to the differ agree with `f`, and the has-style cache reads the SAME attrs
    cache object -/
structure CsOk (wd : World) (f : Nat → Attrs) (cs : Caches) : Prop where
  alias : cs.hc.src = cs.ac
  a : AOk wd f cs.ac
  h : EntsOk (fun s => (f s).hasStyle) cs.hc.ents

theorem Caches.attrs_ok (wd : World) (f : Nat → Attrs) (cs : Caches) (s : Nat) (h : CsOk wd f cs) :
    (cs.attrs wd s).1 = f s ∧ CsOk wd f (cs.attrs wd s).2 := by
  obtain ⟨g1, g2, _, _, _⟩ := ACache.get_ok wd f cs.ac s h.a
  refine ⟨g1, ⟨?_, g2, ?_⟩⟩
  · simp only [Caches.attrs, h.alias, if_true]
  · simp only [Caches.attrs, h.alias, if_true]; exact h.h

theorem Caches.has_ok (wd : World) (f : Nat → Attrs) (cs : Caches) (s : Nat) (h : CsOk wd f cs) :
    (cs.has wd s).1 = (f s).hasStyle ∧ CsOk wd f (cs.has wd s).2 := by
  unfold Caches.has
  split
  · rename_i b hb
    exact ⟨lookupD_ok _ _ _ _ h.h hb, h⟩
  · obtain ⟨g1, g2, _, _, _⟩ := ACache.get_ok wd f cs.ac s h.a
    simp only [h.alias, if_true]
    refine ⟨by rw [g1], ⟨rfl, g2, ?_⟩⟩
    rw [g1]
    exact EntsOk.cons (f := fun s => (f s).hasStyle) h.h s

theorem outputCharC_ok (wd : World) (e0 e : Env) (ag : EnvAgree e0 e) (cs : Caches) (last : Option Nat) (c : Cell)
    (h : CsOk wd e.rawOf cs) :
    (outputCharC wd e0 cs last c).1 = (outputChar e last c).1 ∧
    (outputCharC wd e0 cs last c).2.1 = (outputChar e last c).2 ∧
    CsOk wd e.rawOf (outputCharC wd e0 cs last c).2.2 := by
  unfold outputCharC outputChar
  rw [ag.depth, ag.enc]
  by_cases hl : last = some c.style
  · simp only [hl, if_true]; exact ⟨trivial, trivial, h⟩
  · simp only [hl, if_false]
    obtain ⟨a1, a2⟩ := Caches.attrs_ok wd e.rawOf cs c.style h
    cases last with
    | none =>
      simp only [needAttrs, if_true, a1, Env.attrsOf]
      refine ⟨?_, ?_, a2⟩ <;> first | trivial | rfl
    | some l =>
      simp only
      by_cases h0 : l = 0
      · subst h0
        simp only [if_true, needAttrs, a1, Env.attrsOf, beq_self_eq_true, Bool.true_or]
        refine ⟨?_, ?_, a2⟩ <;> first | trivial | rfl
      · obtain ⟨b1, b2⟩ := Caches.attrs_ok wd e.rawOf _ l a2
        simp only [h0, if_false, needAttrs, a1, b1, Env.attrsOf]
        have : (l == 0) = false := by simpa using h0
        simp only [this, Bool.false_or]
        refine ⟨?_, ?_, b2⟩ <;> first | trivial | rfl


theorem countedC_ok (wd : World) (f : Nat → Attrs) : ∀ (row : List Cell) (cs : Caches), CsOk wd f cs →
    (countedC wd cs row).1 = row.map (Cell.counted f) ∧ CsOk wd f (countedC wd cs row).2 := by
  intro row
  induction row with
  | nil => intro cs h; exact ⟨rfl, h⟩
  | cons c rest ih =>
    intro cs h
    unfold countedC
    by_cases hb : (c.txt != [' ']) = true
    · simp only [hb, if_true]
      obtain ⟨i1, i2⟩ := ih cs h
      refine ⟨?_, i2⟩
      simp only [List.map_cons, i1, Cell.counted, hb, Bool.true_or]
    · simp only [hb]
      obtain ⟨g1, g2⟩ := Caches.has_ok wd f cs c.style h
      obtain ⟨i1, i2⟩ := ih _ g2
      refine ⟨?_, i2⟩
      have hb' : (c.txt != [' ']) = false := by simpa using hb
      simp only [Bool.false_eq_true, if_false, List.map_cons, i1, g1, Cell.counted, hb', Bool.false_or]

theorem trimLenB_map (p : Cell → Bool) : ∀ row : List Cell, trimLenB (row.map p) = trimLen p row := by
  intro row
  induction row with
  | nil => rfl
  | cons c rest ih => simp only [List.map_cons, trimLenB, trimLen, ih]

theorem lineLenC_ok (wd : World) (e0 e : Env) (ag : EnvAgree e0 e) (cs : Caches) (row : List Cell)
    (h : CsOk wd e.rawOf cs) :
    (lineLenC wd e0 cs row).1 = lineLen e row ∧ CsOk wd e.rawOf (lineLenC wd e0 cs row).2 := by
  obtain ⟨g1, g2⟩ := countedC_ok wd e.rawOf row cs h
  refine ⟨?_, g2⟩
  simp only [lineLenC, lineLen, maxCol, g1, trimLenB_map, ag.w]

theorem colLoopC_ok (wd : World) (e0 e : Env) (ag : EnvAgree e0 e) (s : Screen) (y : Nat) (newRow prevRow : List Cell) (n : Nat) :
    ∀ (fuel c : Nat) (pos : Point) (last : Option Nat) (cs : Caches), CsOk wd e.rawOf cs →
      (colLoopC wd e0 s y newRow prevRow n fuel c pos last cs).cmds =
        (colLoop e s y newRow prevRow n fuel c pos last).cmds ∧
      (colLoopC wd e0 s y newRow prevRow n fuel c pos last cs).pos =
        (colLoop e s y newRow prevRow n fuel c pos last).pos ∧
      (colLoopC wd e0 s y newRow prevRow n fuel c pos last cs).last =
        (colLoop e s y newRow prevRow n fuel c pos last).last ∧
      CsOk wd e.rawOf (colLoopC wd e0 s y newRow prevRow n fuel c pos last cs).cs := by
  intro fuel
  induction fuel with
  | zero => intro c pos last cs h; exact ⟨rfl, rfl, rfl, h⟩
  | succ fuel ih =>
    intro c pos last cs h
    unfold colLoopC colLoop
    rw [ag.w]
    by_cases hc : c < n
    · simp only [hc, if_true]
      by_cases hd : (cellAt newRow c).txt ≠ (cellAt prevRow c).txt ∨ (cellAt newRow c).style ≠ (cellAt prevRow c).style
      · simp only [hd, if_true]
        obtain ⟨o1, o2, o3⟩ := outputCharC_ok wd e0 e ag cs (moveCursor e.w pos last ⟨c, y⟩).2 (cellAt newRow c) h
        obtain ⟨r1, r2, r3, r4⟩ := ih (c + if (cellAt newRow c).width = 0 then 1 else (cellAt newRow c).width)
          ⟨c + if (cellAt newRow c).width = 0 then 1 else (cellAt newRow c).width, y⟩
          (outputChar e (moveCursor e.w pos last ⟨c, y⟩).2 (cellAt newRow c)).2 _ o3
        rw [o2, o1]
        exact ⟨by rw [r1], r2, r3, r4⟩
      · simp only [hd, if_false]
        exact ih _ pos last cs h
    · simp only [hc, if_false]
      exact ⟨trivial, trivial, trivial, h⟩

theorem rowStepC_ok (wd : World) (e0 e : Env) (ag : EnvAgree e0 e) (s prev : Screen) (y : Nat) (pos : Point)
    (last : Option Nat) (cs : Caches) (h : CsOk wd e.rawOf cs) :
    (rowStepC wd e0 s prev y pos last cs).cmds = (rowStep e s prev y pos last).cmds ∧
    (rowStepC wd e0 s prev y pos last cs).pos = (rowStep e s prev y pos last).pos ∧
    (rowStepC wd e0 s prev y pos last cs).last = (rowStep e s prev y pos last).last ∧
    CsOk wd e.rawOf (rowStepC wd e0 s prev y pos last cs).cs := by
  obtain ⟨n1, n2⟩ := lineLenC_ok wd e0 e ag cs (s.row y) h
  obtain ⟨p1, p2⟩ := lineLenC_ok wd e0 e ag _ (prev.row y) n2
  obtain ⟨r1, r2, r3, r4⟩ := colLoopC_ok wd e0 e ag s y (s.row y) (prev.row y) (lineLen e (s.row y))
    (lineLen e (s.row y)) 0 pos last _ p2
  unfold rowStepC rowStep
  simp only [n1, p1, ag.w]
  by_cases hlt : lineLen e (s.row y) < lineLen e (prev.row y)
  · simp only [hlt, if_true]
    exact ⟨by rw [r1, r2, r3], trivial, trivial, r4⟩
  · simp only [hlt, if_false]
    exact ⟨r1, r2, r3, r4⟩

theorem rowLoopC_ok (wd : World) (e0 e : Env) (ag : EnvAgree e0 e) (s prev : Screen) :
    ∀ (k y : Nat) (pos : Point) (last : Option Nat) (cs : Caches), CsOk wd e.rawOf cs →
      (rowLoopC wd e0 s prev k y pos last cs).cmds = (rowLoop e s prev k y pos last).cmds ∧
      (rowLoopC wd e0 s prev k y pos last cs).pos = (rowLoop e s prev k y pos last).pos ∧
      (rowLoopC wd e0 s prev k y pos last cs).last = (rowLoop e s prev k y pos last).last ∧
      CsOk wd e.rawOf (rowLoopC wd e0 s prev k y pos last cs).cs := by
  intro k
  induction k with
  | zero => intro y pos last cs h; exact ⟨rfl, rfl, rfl, h⟩
  | succ k ih =>
    intro y pos last cs h
    obtain ⟨a1, a2, a3, a4⟩ := rowStepC_ok wd e0 e ag s prev y pos last cs h
    obtain ⟨b1, b2, b3, b4⟩ := ih (y + 1) (rowStep e s prev y pos last).pos
      (rowStep e s prev y pos last).last _ a4
    unfold rowLoopC rowLoop
    simp only [a1, a2, a3]
    exact ⟨by rw [b1], b2, b3, b4⟩

/-- **diffC_refines** — with dictionaries that agree with the style in force, the differ that goes through the
    dictionaries makes exactly the calls of the differ with pure lookups, returns the same position / last
    style, and leaves dictionaries that still agree. -/
theorem diffC_refines (wd : World) (e0 e : Env) (ag : EnvAgree e0 e) (cs : Caches) (s : Screen) (pos : Point)
    (prev : Option Screen) (last : Option Nat) (isDone : Bool) (pw : Nat) (h : CsOk wd e.rawOf cs) :
    (diffC wd e0 cs s pos prev last isDone pw).cmds = (diff e s pos prev last isDone pw).cmds ∧
    (diffC wd e0 cs s pos prev last isDone pw).pos = (diff e s pos prev last isDone pw).pos ∧
    (diffC wd e0 cs s pos prev last isDone pw).last = (diff e s pos prev last isDone pw).last ∧
    CsOk wd e.rawOf (diffC wd e0 cs s pos prev last isDone pw).cs := by
  have hpre : preamble e0 pos prev last isDone pw = preamble e pos prev last isDone pw := by
    unfold preamble; rw [ag.w, ag.fs]
  have hfin : ∀ (sc : Screen) (p : Point) (l : Option Nat), finish e0 s sc isDone p l = finish e s sc isDone p l := by
    intro sc p l; unfold finish; rw [ag.w, ag.h, ag.fs]
  obtain ⟨r1, r2, r3, r4⟩ := rowLoopC_ok wd e0 e ag s (preamble e pos prev last isDone pw).2
    (min (max s.height (preamble e pos prev last isDone pw).2.height) e.h) 0
    (preamble e pos prev last isDone pw).1.pos (preamble e pos prev last isDone pw).1.last cs h
  unfold diffC diff
  simp only [hpre, hfin, ag.h, r1, r2, r3]
  exact ⟨trivial, trivial, trivial, r4⟩

end Ptk.C06
