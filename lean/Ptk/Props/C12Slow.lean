/-
  C12 — the iteration bound of `Ptk.Props.C12Fuel` is tight in the weight: a concrete family on
  which the real loops need more than `M` iterations to hand out two cells.

  Children `[D(max=2, weight=1), D(max=0, weight=M)]`, available size 2.  `take_using_weights`
  yields the heavy child once in each of its rounds `1 .. M` and the light child in the rounds
  `1` and `M + 1` only; the heavy child has no room, so the loop `while sum(sizes) < group_stop`
  spins through `M` useless iterations between the first and the second cell.
  `slow_hangs`: every fuel `≤ M + 1` is too little; `slow_steps`: the division then answers
  `[2, 0]` after exactly `M + 2` iterations; `slow_stepBound`: the proved bound is `4 (M + 1)`.
  For `M = 10^9` this is an effective hang of the real code (known finding, replayed by the
  harness under an iteration budget).
-/
import Ptk.Props.C12Fuel
namespace Ptk.C12

/-! ### the witness: weights `[1, M]`, the heavy child cannot grow -/

/-- child 0: up to 2 cells, weight 1; child 1: no room at all, weight `M` -/
def slowDims (M : Nat) : List Dim := [⟨0, 0, 2, 1⟩, ⟨0, 0, 0, M⟩]

/-- generator state: round `i`, counters `[a, b]` -/
def slowGen (M i a b pos : Nat) (adding : Bool) : Gen :=
  { items := [0, 1], ws := [1, M], maxW := M, i := i, taken := [a, b], pos := pos, adding := adding }

theorem next?_of_none {g g' : Gen} (h : g.step = (g', none)) (f : Nat) :
    g.next? (f + 1) = g'.next? f := by
  conv_lhs => unfold Gen.next?
  rw [h]

theorem next?_of_some {g g' : Gen} {p : Nat} (h : g.step = (g', some p)) (f : Nat) :
    g.next? (f + 1) = some (g.items.getD p 0, g') := by
  conv_lhs => unfold Gen.next?
  rw [h]

theorem next?_det {g : Gen} {a b : Nat} {r r' : Nat × Gen} (h : g.next? a = some r)
    (h' : g.next? b = some r') : r = r' := by
  have m1 := Gen.next?_mono h (Nat.le_max_left a b)
  have m2 := Gen.next?_mono h' (Nat.le_max_right a b)
  rw [m1] at m2
  simpa using m2

/-- between two turns of child 0 the generator goes through `M` rounds, each yielding child 1 -/
theorem slow_next (M i : Nat) (h1 : 1 ≤ i) (hi : i < M) :
    (slowGen M i 1 i 2 true).next? 6 = some (1, slowGen M (i + 1) 1 (i + 1) 2 true) := by
  have hM : 0 < M := by omega
  -- wrap
  rw [next?_of_none (g' := slowGen M i 1 i 0 false) (by
    rw [Gen.step_of_wrap (by simp [slowGen]) (by simp [slowGen])]; rfl)]
  -- position 0 is not due: 1 * M < i * 1 is false
  rw [next?_of_none (g' := slowGen M i 1 i 1 false) (by
    rw [Gen.step_of_skip (by simp [slowGen]) (by simp [slowGen, Gen.Yieldable]; omega)]; rfl)]
  -- position 1 is not due: i * M < i * M is false
  rw [next?_of_none (g' := slowGen M i 1 i 2 false) (by
    rw [Gen.step_of_skip (by simp [slowGen]) (by simp [slowGen, Gen.Yieldable])]; rfl)]
  -- end of the round
  rw [next?_of_none (g' := slowGen M (i + 1) 1 i 0 false) (by
    rw [Gen.step_of_round (by simp [slowGen]) (by simp [slowGen])]; rfl)]
  -- position 0 is still not due: 1 * M < (i + 1) * 1 is false
  rw [next?_of_none (g' := slowGen M (i + 1) 1 i 1 false) (by
    rw [Gen.step_of_skip (by simp [slowGen]) (by simp [slowGen, Gen.Yieldable]; omega)]; rfl)]
  -- position 1 is due: i * M < (i + 1) * M
  rw [next?_of_some (g' := slowGen M (i + 1) 1 (i + 1) 2 true) (p := 1) (by
    rw [Gen.step_of_yield (by simp [slowGen]) (by
      simp only [slowGen, Gen.Yieldable, List.getD_cons_succ, List.getD_cons_zero]
      have : (i + 1) * M = i * M + M := by ring
      omega)]
    rfl)]
  rfl


/-- the first `next`: round 0 yields nothing, round 1 starts with child 0 -/
theorem slow_first (M : Nat) :
    (slowGen M 0 0 0 0 false).next? 4 = some (0, slowGen M 1 1 0 1 true) := by
  rw [next?_of_none (g' := slowGen M 0 0 0 1 false) (by
    rw [Gen.step_of_skip (by simp [slowGen]) (by simp [slowGen, Gen.Yieldable])]; rfl)]
  rw [next?_of_none (g' := slowGen M 0 0 0 2 false) (by
    rw [Gen.step_of_skip (by simp [slowGen]) (by simp [slowGen, Gen.Yieldable])]; rfl)]
  rw [next?_of_none (g' := slowGen M 1 0 0 0 false) (by
    rw [Gen.step_of_round (by simp [slowGen]) (by simp [slowGen])]; rfl)]
  rw [next?_of_some (g' := slowGen M 1 1 0 1 true) (p := 0) (by
    rw [Gen.step_of_yield (by simp [slowGen]) (by simp [slowGen, Gen.Yieldable])]; rfl)]
  rfl

/-- the second `next`: child 1 -/
theorem slow_second (M : Nat) (hM : 0 < M) :
    (slowGen M 1 1 0 1 true).next? 1 = some (1, slowGen M 1 1 1 2 true) := by
  rw [next?_of_some (g' := slowGen M 1 1 1 2 true) (p := 1) (by
    rw [Gen.step_of_yield (by simp [slowGen]) (by simp [slowGen, Gen.Yieldable]; omega)]; rfl)]
  rfl

/-- after round `M`, child 0 is due again -/
theorem slow_last (M : Nat) :
    (slowGen M M 1 M 2 true).next? 5 = some (0, slowGen M (M + 1) 2 M 1 true) := by
  rw [next?_of_none (g' := slowGen M M 1 M 0 false) (by
    rw [Gen.step_of_wrap (by simp [slowGen]) (by simp [slowGen])]; rfl)]
  rw [next?_of_none (g' := slowGen M M 1 M 1 false) (by
    rw [Gen.step_of_skip (by simp [slowGen]) (by simp [slowGen, Gen.Yieldable])]; rfl)]
  rw [next?_of_none (g' := slowGen M M 1 M 2 false) (by
    rw [Gen.step_of_skip (by simp [slowGen]) (by simp [slowGen, Gen.Yieldable])]; rfl)]
  rw [next?_of_none (g' := slowGen M (M + 1) 1 M 0 false) (by
    rw [Gen.step_of_round (by simp [slowGen]) (by simp [slowGen])]; rfl)]
  rw [next?_of_some (g' := slowGen M (M + 1) 2 M 1 true) (p := 0) (by
    rw [Gen.step_of_yield (by simp [slowGen]) (by simp [slowGen, Gen.Yieldable])]; rfl)]
  rfl

/-- while the generator works through the rounds `i .. M`, the loop makes no progress: with at
    most `M − i` iterations left it cannot finish -/
theorem slow_loop_stuck (M nf : Nat) :
    ∀ (f i : Nat), 1 ≤ i → f + i ≤ M →
      growLoop [2, 0] 2 nf f [1, 0] (slowGen M i 1 i 2 true) = none := by
  intro f
  induction f with
  | zero => intro i _ _; simp [growLoop]
  | succ f ih =>
    intro i h1 hle
    unfold growLoop
    rw [if_pos (by simp)]
    rcases hn : (slowGen M i 1 i 2 true).next? nf with _ | r
    · rfl
    · have := next?_det hn (slow_next M i h1 (by omega))
      subst this
      simp only
      have hb : bump [1, 0] [2, 0] 1 = [1, 0] := by decide
      rw [hb]
      exact ih (i + 1) (by omega) (by omega)

/-- ... and with enough fuel it finishes after exactly `M − i + 1` more iterations -/
theorem slow_loop_done (M nf : Nat) (hM : 0 < M) (hnf : 6 ≤ nf) :
    ∀ (d i f c : Nat), 1 ≤ i → i + d = M → d + 1 ≤ f →
      growLoopC [2, 0] 2 nf f [1, 0] (slowGen M i 1 i 2 true) c
        = some ([2, 0], slowGen M (M + 1) 2 M 1 true, c + d + 1) := by
  intro d
  induction d with
  | zero =>
    intro i f c h1 hi hf
    have : i = M := by omega
    subst this
    obtain ⟨f', rfl⟩ : ∃ f', f = f' + 1 := ⟨f - 1, by omega⟩
    unfold growLoopC
    rw [if_pos (by simp), Gen.next?_mono (slow_last i) (by omega : 5 ≤ nf)]
    simp only
    have hb : bump [1, 0] [2, 0] 0 = [2, 0] := by decide
    rw [hb]
    cases f' <;> simp [growLoopC]
  | succ d ih =>
    intro i f c h1 hi hf
    obtain ⟨f', rfl⟩ : ∃ f', f = f' + 1 := ⟨f - 1, by omega⟩
    unfold growLoopC
    rw [if_pos (by simp), Gen.next?_mono (slow_next M i h1 (by omega)) hnf]
    simp only
    have hb : bump [1, 0] [2, 0] 1 = [1, 0] := by decide
    rw [hb, ih (i + 1) f' (c + 1) (by omega) (by omega) (by omega)]
    congr 3
    omega


theorem slow_generators (M : Nat) (hM : 0 < M) :
    childGenerators (slowDims M) = [([0, 1], slowGen M 0 0 0 0 false)] := by
  have hmax : maxOf [1, M] = M := by
    simp only [maxOf, List.foldl_cons, List.foldl_nil, Nat.max_def]
    split_ifs <;> omega
  have h0 : ¬ M = 0 := by omega
  simp [childGenerators, slowDims, groupIdx, mkGroupGen, Gen.init, slowGen, List.range_succ, hM, h0, hmax]


theorem slow_sumDims (M : Nat) : sumDims (slowDims M) = some ⟨0, 0, 2, Gen.C12.defaultWeight⟩ := by
  simp [sumDims, sumOf, slowDims, mkDim]

/-- phase 1 has nothing to do (all preferred sizes are 0), for every fuel -/
theorem slow_phase1 (M F : Nat) (hM : 0 < M) :
    growSizes F [0, 0] 0 [0, 0] (childGenerators (slowDims M))
      = some ([0, 0], [([0, 1], slowGen M 0 0 0 0 false)]) := by
  rw [slow_generators M hM]
  unfold growSizes
  simp only
  rw [growLoop_noop _ _ _ _ (by simp)]
  simp [growSizes]

/-- **The factor `maxW` in the bound is real**: with weights `[1, M]` and a heavy child that has
    no room, handing out 2 cells takes more than `M + 1` loop iterations. -/
theorem slow_hangs (M F : Nat) (hM : 1 ≤ M) (hF : F ≤ M + 1) :
    divide F (slowDims M) 2 true = .hang := by
  unfold divide
  rw [slow_sumDims]
  simp only
  rw [if_neg (by omega)]
  have hp : (slowDims M).map (·.pref) = [0, 0] := rfl
  have hn : (slowDims M).map (·.min) = [0, 0] := rfl
  have hx : (slowDims M).map (·.max) = [2, 0] := rfl
  rw [hp, hn, show Nat.min 2 0 = 0 from rfl, slow_phase1 M F (by omega)]
  simp only
  unfold phase2
  rw [if_pos rfl, hx, show Nat.min 2 2 = 2 from rfl]
  unfold growSizes
  simp only
  have hstop : Nat.min 2 ([0, 0].sum + capOf [0, 0] [2, 0] [0, 1]) = 2 := by decide
  rw [hstop]
  -- the loop: first child 0, then child 1, then stuck in the rounds 1 .. M
  have hloop : growLoop [2, 0] 2 F F [0, 0] (slowGen M 0 0 0 0 false) = none := by
    rcases F with _ | F
    · simp [growLoop]
    unfold growLoop
    rw [if_pos (by simp)]
    rcases h1 : (slowGen M 0 0 0 0 false).next? (F + 1) with _ | r
    · rfl
    have := next?_det h1 (slow_first M)
    subst this
    simp only
    have hb : bump [0, 0] [2, 0] 0 = [1, 0] := by decide
    rw [hb]
    rcases F with _ | F
    · simp [growLoop]
    unfold growLoop
    rw [if_pos (by simp)]
    rcases h2 : (slowGen M 1 1 0 1 true).next? (F + 1 + 1) with _ | r
    · rfl
    have := next?_det h2 (slow_second M (by omega))
    subst this
    simp only
    have hb2 : bump [1, 0] [2, 0] 1 = [1, 0] := by decide
    rw [hb2]
    exact slow_loop_stuck M _ F 1 (le_refl _) (by omega)
  rw [hloop]


/-- ... and with enough fuel the division answers `[2, 0]` after exactly `M + 2` iterations:
    one for each of the two cells and `M` wasted on the child that cannot grow. -/
theorem slow_steps (M F : Nat) (hM : 1 ≤ M) (hF : M + 6 ≤ F) :
    divideC F (slowDims M) 2 true = (.ok [2, 0], M + 2) := by
  unfold divideC
  rw [slow_sumDims]
  simp only
  rw [if_neg (by omega)]
  have hp : (slowDims M).map (·.pref) = [0, 0] := rfl
  have hn : (slowDims M).map (·.min) = [0, 0] := rfl
  have hx : (slowDims M).map (·.max) = [2, 0] := rfl
  rw [hp, hn, show Nat.min 2 0 = 0 from rfl, slow_generators M (by omega)]
  -- phase 1: nothing to do
  have h1 : growSizesC F [0, 0] 0 [0, 0] [([0, 1], slowGen M 0 0 0 0 false)] 0
      = some ([0, 0], [([0, 1], slowGen M 0 0 0 0 false)], 0) := by
    unfold growSizesC
    have : growLoopC [0, 0] (Nat.min 0 ([0, 0].sum + capOf [0, 0] [0, 0] [0, 1])) F F [0, 0]
        (slowGen M 0 0 0 0 false) 0 = some ([0, 0], slowGen M 0 0 0 0 false, 0) := by
      cases F <;> simp [growLoopC]
    rw [this]
    simp [growSizesC]
  rw [h1]
  simp only
  unfold phase2C
  rw [if_pos rfl, hx, show Nat.min 2 2 = 2 from rfl]
  unfold growSizesC
  have hstop : Nat.min 2 ([0, 0].sum + capOf [0, 0] [2, 0] [0, 1]) = 2 := by decide
  rw [hstop]
  have hloop : growLoopC [2, 0] 2 F F [0, 0] (slowGen M 0 0 0 0 false) 0
      = some ([2, 0], slowGen M (M + 1) 2 M 1 true, M + 2) := by
    obtain ⟨F', rfl⟩ : ∃ F', F = F' + 2 := ⟨F - 2, by omega⟩
    unfold growLoopC
    rw [if_pos (by simp), Gen.next?_mono (slow_first M) (by omega : 4 ≤ F' + 2)]
    simp only
    have hb : bump [0, 0] [2, 0] 0 = [1, 0] := by decide
    rw [hb]
    unfold growLoopC
    rw [if_pos (by simp), Gen.next?_mono (slow_second M (by omega)) (by omega : 1 ≤ F' + 2)]
    simp only
    have hb2 : bump [1, 0] [2, 0] 1 = [1, 0] := by decide
    rw [hb2, slow_loop_done M (F' + 2) (by omega) (by omega) (M - 1) 1 F' (0 + 1 + 1) (le_refl _)
      (by omega) (by omega)]
    congr 3
    omega
  rw [hloop]
  simp [growSizesC]

/-- the explicit bound for this list: `2 · 2 · (M + 1)` — the true count `M + 2` is within a
    factor `n = 2` of it -/
theorem slow_stepBound (M : Nat) (hM : 1 ≤ M) : stepBound (slowDims M) 2 = 4 * (M + 1) := by
  have hmax : maxOf [1, M] = M := by
    simp only [maxOf, List.foldl_cons, List.foldl_nil, Nat.max_def]
    split_ifs <;> omega
  have hw : maxWeight (slowDims M) = M := by
    unfold maxWeight
    rw [show (slowDims M).map (·.weight) = [1, M] from rfl, hmax]
    simp only [Nat.max_def]; split_ifs <;> omega
  unfold stepBound gapBound
  rw [hw]
  simp [slowDims, sumOf]
  ring

example : divide 1000001 (slowDims 1000000) 2 true = .hang := slow_hangs _ _ (by omega) (by omega)
example : divideC 1000006 (slowDims 1000000) 2 true = (.ok [2, 0], 1000002) :=
  slow_steps _ _ (by omega) (by omega)

end Ptk.C12
