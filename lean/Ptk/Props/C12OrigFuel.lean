/-
  C12 — the pre-fix loops (`Ptk.Model.C12Orig`) with the explicit fuel: on positive weights the
  original `_divide_heights` / `_divide_widths` finish within `fuelBound` and answer what the fixed
  code answers, so the driver needs no fuel search for them either.
-/
import Ptk.Props.C12Orig
import Ptk.Props.C12Fuel
namespace Ptk.C12

theorem Gen.next?_inv {g : Gen} (hinv : g.Inv) {f x : Nat} {g' : Gen} (hn : g.next? f = some (x, g')) :
    g'.Inv ∧ g'.ws = g.ws ∧ g'.maxW = g.maxW := by
  obtain ⟨_, _, hws, hmw, hmem⟩ := Gen.next?_spec hinv.wf hn
  refine ⟨?_, hws, hmw⟩
  by_cases hz : 0 < g.ws.length
  · exact (Gen.next?_pot hinv hz hn).1
  · have : g.items = [] := List.length_eq_zero_iff.mp (by rw [hinv.wf.len_items]; omega)
    rw [this] at hmem; simp at hmem

/-- The converse of `growLoop_of_orig`: when the fixed loop (child fetched at the start of the
    iteration) finishes, the original loop holding the prefetched child finishes with the same
    sizes; it needs one more `next`, which a generator satisfying the invariant always delivers. -/
theorem growLoopOrig_of_growLoop (limits : List Nat) (stop nf : Nat) :
    ∀ (f : Nat) (sizes : List Nat) (i : Nat) (g g' : Gen) (s' : List Nat) (gp : Gen),
      g.Inv → 3 * g.ws.length + 3 ≤ nf → g.next? nf = some (i, g') →
      growLoop limits stop nf f sizes g = some (s', gp) →
      ∃ i'' g'', growLoopOrig limits stop nf f sizes i g' = some (s', i'', g'') ∧
        gp.next? nf = some (i'', g'') ∧ gp.Inv ∧ gp.ws = g.ws := by
  intro f
  induction f with
  | zero =>
    intro sizes i g g' s' gp hinv hnf hn h
    unfold growLoop at h
    unfold growLoopOrig
    by_cases hlt : sizes.sum < stop
    · rw [if_pos hlt] at h; cases h
    · rw [if_neg hlt] at h ⊢
      simp only [Option.some.injEq, Prod.mk.injEq] at h
      obtain ⟨rfl, rfl⟩ := h
      exact ⟨i, g', rfl, hn, hinv, rfl⟩
  | succ f ih =>
    intro sizes i g g' s' gp hinv hnf hn h
    unfold growLoop at h
    unfold growLoopOrig
    by_cases hlt : sizes.sum < stop
    · rw [if_pos hlt] at h ⊢
      rw [hn] at h
      simp only at h
      obtain ⟨hinv', hws', _⟩ := Gen.next?_inv hinv hn
      obtain ⟨⟨i2, g2⟩, hn2⟩ := Gen.next?_some' hinv' (f := nf) (by rw [hws']; exact hnf)
      rw [hn2]
      simp only
      obtain ⟨i'', g'', a, b, c, d⟩ := ih (bump sizes limits i) i2 g' g2 s' gp hinv'
        (by rw [hws']; exact hnf) hn2 h
      exact ⟨i'', g'', a, b, c, by rw [d, hws']⟩
    · rw [if_neg hlt] at h ⊢
      simp only [Option.some.injEq, Prod.mk.injEq] at h
      obtain ⟨rfl, rfl⟩ := h
      exact ⟨i, g', rfl, hn, hinv, rfl⟩


theorem growSizes_single (F : Nat) (limits : List Nat) (stop : Nat) (sizes grp : List Nat) (g : Gen)
    {s' : List Nat} {gens' : List (List Nat × Gen)}
    (h : growSizes F limits stop sizes [(grp, g)] = some (s', gens')) :
    ∃ gp, growLoop limits (Nat.min stop (sizes.sum + capOf sizes limits grp)) F F sizes g = some (s', gp)
      ∧ gens' = [(grp, gp)] := by
  unfold growSizes at h
  simp only at h
  rcases h1 : growLoop limits (Nat.min stop (sizes.sum + capOf sizes limits grp)) F F sizes g
    with _ | ⟨s1, g1⟩
  · rw [h1] at h; simp at h
  · rw [h1] at h
    simp only [growSizes, Option.some.injEq, Prod.mk.injEq] at h
    obtain ⟨rfl, rfl⟩ := h
    exact ⟨g1, rfl, rfl⟩

/-- **The pre-fix loops with the same explicit fuel**: for positive weights (where they compute
    what the fixed code computes, `fix_preserves_positive`) the original `_divide_*` loops also
    finish within `fuelBound` — the driver runs the pre-fix model once, too. -/
theorem divideOrig_terminates_bound {dims : List Dim} (hv : ValidDims dims) (hne : dims ≠ [])
    (hpos : ∀ d ∈ dims, 0 < d.weight) (avail : Nat) (toMax : Bool) {F : Nat}
    (hF : fuelBound dims avail ≤ F) :
    divideOrig F dims avail toMax = divide F dims avail toMax ∧ divide F dims avail toMax ≠ .hang := by
  have hnh := divide_terminates_bound hv avail toMax hF
  refine ⟨?_, hnh⟩
  have hmp : sumOf (·.min) dims ≤ sumOf (·.pref) dims := sumOf_le fun d hd => (hv d hd).1
  have hpm : sumOf (·.pref) dims ≤ sumOf (·.max) dims := sumOf_le fun d hd => (hv d hd).2
  have col_mp : ∀ i, (dims.map (·.min)).getD i 0 ≤ (dims.map (·.pref)).getD i 0 := by
    intro i
    by_cases hi : i < dims.length
    · rw [map_getD_lt _ _ hi, map_getD_lt _ _ hi]; exact (hv _ (List.getElem_mem hi)).1
    · rw [map_getD_ge _ _ (by omega), map_getD_ge _ _ (by omega)]
  have col_pm : ∀ i, (dims.map (·.pref)).getD i 0 ≤ (dims.map (·.max)).getD i 0 := by
    intro i
    by_cases hi : i < dims.length
    · rw [map_getD_lt _ _ hi, map_getD_lt _ _ hi]; exact (hv _ (List.getElem_mem hi)).2
    · rw [map_getD_ge _ _ (by omega), map_getD_ge _ _ (by omega)]
  have hW : ∀ w ∈ dims.map (·.weight), 0 < w := by
    intro w hw
    obtain ⟨d, hd, rfl⟩ := List.mem_map.mp hw
    exact hpos d hd
  have hr : List.range dims.length ≠ [] := by
    intro h
    have : (List.range dims.length).length = 0 := by rw [h]; rfl
    rw [List.length_range] at this
    exact hne (List.length_eq_zero_iff.mp this)
  obtain ⟨hinv0, hit0, hws0, _⟩ := Gen.init_inv (items := List.range dims.length)
    (weights := dims.map (·.weight)) (by simp) hW hr
  have hlen0 : (Gen.init (List.range dims.length) (dims.map (·.weight))).ws.length = dims.length := by
    rw [hws0]; simp
  have hF3 : 3 * dims.length + 3 ≤ F := by unfold fuelBound at hF; omega
  unfold divideOrig divide
  rw [sumDims_eq hv]
  simp only
  by_cases hsmall : sumOf (·.min) dims > avail
  · rw [if_pos hsmall, if_pos hsmall]
  rw [if_neg hsmall, if_neg hsmall]
  have hemp : ¬ (Gen.init (List.range dims.length) (dims.map (·.weight))).ws.isEmpty = true := by
    rw [List.isEmpty_iff]
    intro h
    have := congrArg List.length h
    rw [hlen0] at this
    exact hne (List.length_eq_zero_iff.mp this)
  rw [if_neg hemp]
  obtain ⟨⟨i0, g1⟩, hn0⟩ := Gen.next?_some' hinv0 (f := F) (by rw [hlen0]; exact hF3)
  rw [hn0]
  simp only
  -- the fixed code's first phase, as one loop over the single group
  have e1 : (dims.map (·.min)).sum = sumOf (·.min) dims := rfl
  have e2 : (dims.map (·.pref)).sum = sumOf (·.pref) dims := rfl
  have e3 : (dims.map (·.max)).sum = sumOf (·.max) dims := rfl
  have hcap1 := range_cap_sum (dims.map (·.min)) (dims.map (·.pref)) (by simp) col_mp
  simp only [List.length_map] at hcap1
  have hg1 : Nat.min (Nat.min avail (sumOf (·.pref) dims))
      ((dims.map (·.min)).sum + capOf (dims.map (·.min)) (dims.map (·.pref)) (List.range dims.length))
      = Nat.min avail (sumOf (·.pref) dims) := by
    unfold capOf
    simp only [Nat.min_def]; split_ifs <;> omega
  have hstop1 : (dims.map (·.min)).sum ≤ Nat.min avail (sumOf (·.pref) dims) := by
    rw [e1]; simp only [Nat.min_def]; split_ifs <;> omega
  rw [childGenerators_pos hne hpos]
  rcases hgs1 : growSizes F (dims.map (·.pref)) (Nat.min avail (sumOf (·.pref) dims))
      (dims.map (·.min))
      [(List.range dims.length, Gen.init (List.range dims.length) (dims.map (·.weight)))]
    with _ | ⟨s1, gens1⟩
  · -- impossible: the fixed code does not hang with this fuel
    exfalso
    apply hnh
    unfold divide
    rw [sumDims_eq hv]
    simp only
    rw [if_neg hsmall, childGenerators_pos hne hpos, hgs1]
  rw [hgs1]
  simp only
  obtain ⟨gp1, hl1, rfl⟩ := growSizes_single _ _ _ _ _ _ hgs1
  rw [hg1] at hl1
  obtain ⟨i1, g2, ho1, hnp1, hinvp1, hwsp1⟩ := growLoopOrig_of_growLoop _ _ F F _ i0 _ g1 s1 gp1
    hinv0 (by rw [hlen0]; exact hF3) hn0 hl1
  rw [ho1]
  simp only
  unfold phase2Orig phase2
  cases toMax with
  | false => rfl
  | true =>
    simp only [if_true]
    obtain ⟨_, _, _, len1, sum1, _, le1, _⟩ :=
      growLoop_spec _ _ F F _ _ s1 gp1 hinv0.wf hstop1 hl1
    have s1_le_max : ∀ i, s1.getD i 0 ≤ (dims.map (·.max)).getD i 0 := by
      intro i; have := le1 i; have := col_mp i; have := col_pm i; omega
    simp only [List.length_map] at len1
    have hcap2 := range_cap_sum s1 (dims.map (·.max)) (by simp [len1]) s1_le_max
    rw [len1] at hcap2
    have hg2 : Nat.min (Nat.min avail (sumOf (·.max) dims))
        (s1.sum + capOf s1 (dims.map (·.max)) (List.range dims.length))
        = Nat.min avail (sumOf (·.max) dims) := by
      unfold capOf
      simp only [Nat.min_def]; split_ifs <;> omega
    rcases hgs2 : growSizes F (dims.map (·.max)) (Nat.min avail (sumOf (·.max) dims)) s1
        [(List.range dims.length, gp1)] with _ | ⟨s2, gens2⟩
    · exfalso
      apply hnh
      unfold divide
      rw [sumDims_eq hv]
      simp only
      rw [if_neg hsmall, childGenerators_pos hne hpos, hgs1]
      simp only
      unfold phase2
      rw [if_pos rfl, hgs2]
    rw [hgs2]
    simp only
    obtain ⟨gp2, hl2, _⟩ := growSizes_single _ _ _ _ _ _ hgs2
    rw [hg2] at hl2
    obtain ⟨i2, g3, ho2, _⟩ := growLoopOrig_of_growLoop _ _ F F _ i1 _ g2 s2 gp2
      hinvp1 (by rw [hwsp1, hlen0]; exact hF3) hnp1 hl2
    rw [ho2]

example : divideOrig (fuelBound [⟨1, 3, 6, 3⟩, ⟨0, 2, 4, 1⟩, ⟨0, 0, 0, 1⟩] 8)
    [⟨1, 3, 6, 3⟩, ⟨0, 2, 4, 1⟩, ⟨0, 0, 0, 1⟩] 8 true = .ok [6, 2, 0] := by decide +kernel

end Ptk.C12
