/-
  C17 (sixth layer) — the reader callback's life cycle on the event loop (`Ptk.Model.C17Attach`):
  theorems for EVERY schedule of writes / starts / loop turns / finishes / CPR waits.

    no_stale_reader                       between two prompts no reader of a finished run is registered
    turn_between_prompts_reads_nothing    a loop turn in the gap reads nothing (also with rw > 0)
    no_loss_no_dup_over_gaps              conservation over the gaps; nothing eaten by a stale callback
    results_are_segments_over_gaps        k lines in, k lines out
    stale_reader_eats_the_gap             the witness for seeded/C17-j
-/
import Ptk.Props.C17
import Ptk.Model.C17Attach
namespace Ptk.C17.Attach
open Ptk.C17

/-- the application is inside its `with attach` block -/
def St.open_ (s : St) : Bool := s.l1.running || s.l1.exiting

theorem inv_set_waiting {t : C17.St} {w : List Key} (h : C17.Inv t w) (x : Nat)
    (ha : t.running = true ∨ t.exiting = true) :
    C17.Inv { t with kp := { t.kp with waiting := x } } w :=
  ⟨h.cons, settled_waiting h.settled x,
   fun hr he => by rcases ha with h1 | h1 <;> simp_all,
   h.taEmpty, h.taNoCpr, h.results, h.exitingOk⟩

/-- the invariant: the first layer's invariant, nothing lost, and the reader bookkeeping:
    a reader is registered exactly while an application is inside its `with attach` block, and it
    is that application's -/
structure AInv (s : St) (w : List Key) : Prop where
  l1 : C17.Inv s.l1 w
  lost : s.lost = []
  reader : s.reader = if s.l1.running || s.l1.exiting then some s.runs else none
  cb : s.cb = s.reader
  prev : s.prev = none

theorem ainv_init (r : Bool) : AInv (St.init r) [] :=
  ⟨inv_init r, rfl, by simp [St.init, C17.St.init], rfl, rfl⟩

def evWritten : Ev → List Key
  | .write c => c
  | _ => []

theorem left_of_inv {t : C17.St} {w : List Key} (h : C17.Inv t w) (hr : t.running = false)
    (he : t.exiting = false) : t.kp = idleKP := h.idle hr he

theorem ainv_step {s : St} {w : List Key} (h : AInv s w) (e : Ev) : AInv (step s e) (w ++ evWritten e) := by
  obtain ⟨h1, hl, hrd, hcb, hpv⟩ := h
  cases e with
  | write c =>
    have hi := inv_step h1 (.write c)
    refine ⟨by simpa [evWritten, C17.evWritten, step] using hi, hl, ?_, hcb, hpv⟩
    simpa [step, C17.step] using hrd
  | start =>
    simp only [step, evWritten, List.append_nil]
    by_cases ho : (s.l1.running || s.l1.exiting) = true
    · simp only [ho, if_true]; exact ⟨h1, hl, hrd, hcb, hpv⟩
    · simp only [ho]
      have hr : s.l1.running = false := by cases h : s.l1.running <;> simp_all
      have he : s.l1.exiting = false := by cases h : s.l1.exiting <;> simp_all
      have hi := inv_step h1 .start
      simp only [C17.evWritten, List.append_nil] at hi
      have hrun : (C17.step s.l1 .start).running = true := by simp [C17.step, hr, he]
      have hno : s.reader = none := by rw [hrd]; simp [hr, he]
      refine ⟨inv_set_waiting hi _ (Or.inl hrun), hl, ?_, rfl, ?_⟩
      · simp [attach, hrun]
      · simp [attach, hcb, hno]
  | turn n =>
    simp only [step, evWritten, List.append_nil]
    cases hrr : s.reader with
    | none => exact ⟨h1, hl, hrd, hcb, hpv⟩
    | some r =>
      simp only []
      by_cases ho : (s.l1.running || s.l1.exiting) = true
      · simp only [ho, if_true]
        have hi := inv_step h1 (.read n)
        simp only [C17.evWritten, List.append_nil] at hi
        have hsame : ((C17.step s.l1 (.read n)).running || (C17.step s.l1 (.read n)).exiting) = true := by
          simp only [C17.step]; split <;> simpa using ho
        have hr2 : r = s.runs := by rw [hrd] at hrr; simpa [ho] using hrr.symm
        refine ⟨hi, hl, ?_, by simpa [hrr] using hcb, hpv⟩
        simp only [hsame, if_true]; rw [hr2]
      · -- no application is inside its block: then no reader is registered
        rw [hrd] at hrr; simp [ho] at hrr
  | finish =>
    simp only [step, evWritten, List.append_nil]
    have hi := inv_step h1 .finish
    simp only [C17.evWritten, List.append_nil] at hi
    split
    · rename_i hc
      simp only [Bool.and_eq_true, Bool.not_eq_true', Bool.or_eq_true] at hc
      refine ⟨hi, hl, ?_, ?_, ?_⟩ <;> simp [leaveBook, detach, hc.1.2, hc.2, hpv]
    · rename_i hc
      refine ⟨hi, hl, ?_, hcb, hpv⟩
      -- still inside the block, or it never was
      simp only [Bool.and_eq_true, Bool.not_eq_true', Bool.or_eq_true, not_and, Bool.not_eq_false] at hc
      rw [hrd]
      by_cases ho : (s.l1.running || s.l1.exiting) = true
      · have : ((C17.step s.l1 .finish).running || (C17.step s.l1 .finish).exiting) = true := by
          cases hr' : (C17.step s.l1 .finish).running
          · have := hc ⟨by simpa using ho, hr'⟩; simp [this]
          · simp
        simp [ho, this]
      · have hr : s.l1.running = false := by cases h : s.l1.running <;> simp_all
        have he : s.l1.exiting = false := by cases h : s.l1.exiting <;> simp_all
        have : C17.step s.l1 .finish = s.l1 := by simp [C17.step, hr]
        simp [this, hr, he]
  | endWait =>
    simp only [step, evWritten, List.append_nil]
    have hi := inv_step h1 .endWait
    simp only [C17.evWritten, List.append_nil] at hi
    split
    · rename_i hc
      simp only [Bool.and_eq_true, Bool.not_eq_true', Bool.or_eq_true] at hc
      refine ⟨hi, hl, ?_, ?_, ?_⟩ <;> simp [leaveBook, detach, hc.1.2, hc.2, hpv]
    · rename_i hc
      refine ⟨hi, hl, ?_, hcb, hpv⟩
      simp only [Bool.and_eq_true, Bool.not_eq_true', Bool.or_eq_true, not_and, Bool.not_eq_false] at hc
      rw [hrd]
      by_cases ho : (s.l1.running || s.l1.exiting) = true
      · have : ((C17.step s.l1 .endWait).running || (C17.step s.l1 .endWait).exiting) = true := by
          cases hr' : (C17.step s.l1 .endWait).running
          · have := hc ⟨by simpa using ho, hr'⟩; simp [this]
          · simp
        simp [ho, this]
      · have hr : s.l1.running = false := by cases h : s.l1.running <;> simp_all
        have he : s.l1.exiting = false := by cases h : s.l1.exiting <;> simp_all
        have : C17.step s.l1 .endWait = s.l1 := by simp [C17.step, he]
        simp [this, hr, he]

theorem written_cons (e : Ev) (es : List Ev) : written (e :: es) = evWritten e ++ written es := by
  cases e <;> simp [written, evWritten]

theorem ainv_run {s : St} {w : List Key} (h : AInv s w) (evs : List Ev) :
    AInv (run s evs) (w ++ written evs) := by
  induction evs generalizing s w with
  | nil => simpa [run, written] using h
  | cons e es ih =>
    have := ih (ainv_step h e)
    simp only [run]; rw [written_cons, ← List.append_assoc]; exact this

theorem reachable_ainv (r : Bool) (evs : List Ev) : AInv (run (St.init r) evs) (written evs) := by
  simpa using ainv_run (ainv_init r) evs

/-- **Between two prompts no reader of a finished run is registered** (and while a prompt is inside
    its `with attach` block the registered reader is its own), for every schedule: writes, starts,
    loop turns, finishes and CPR waits in any order, whatever the output answers, whether or not CPR
    responses have been seen, however many unanswered requests the renderer still holds. -/
theorem no_stale_reader (r : Bool) (evs : List Ev) :
    ∀ s, s = run (St.init r) evs →
    (s.l1.running = false → s.l1.exiting = false → s.reader = none ∧ s.cb = none) ∧
    ((s.l1.running = true ∨ s.l1.exiting = true) → s.reader = some s.runs) := by
  intro s hs
  have h := hs ▸ reachable_ainv r evs
  refine ⟨fun hr he => ?_, fun ho => ?_⟩
  · have : s.reader = none := by rw [h.reader]; simp [hr, he]
    exact ⟨this, by rw [h.cb, this]⟩
  · rw [h.reader]; rcases ho with ho | ho <;> simp [ho]

/-- **Bytes that arrive between two prompts are only ever read by the next run or stay in the
    pipe**: a loop turn while no application is inside its block changes nothing — even when the
    renderer still holds unanswered cursor-position requests (`rw > 0`), the situation in which the
    guard of a finished run's callback would let it read. -/
theorem turn_between_prompts_reads_nothing (r : Bool) (evs : List Ev) (n : Nat) :
    ∀ s, s = run (St.init r) evs → s.l1.running = false → s.l1.exiting = false →
    step s (.turn n) = s := by
  intro s hs hr he
  have := ((no_stale_reader r evs s hs).1 hr he).1
  simp [step, this]

/-- **No key is lost, duplicated or reordered — including over the gaps between prompts**: for every
    schedule with loop turns anywhere, nothing is ever eaten by a stale callback, and finished
    lines ++ current prompt ++ type-ahead ++ queue ++ unread pipe = the typed key stream. -/
theorem no_loss_no_dup_over_gaps (r : Bool) (evs : List Ev) :
    ∀ s, s = run (St.init r) evs →
    s.lost = [] ∧
    flat s.l1.results ++ cur s.l1.kp ++ norm s.l1.typeahead ++ norm s.l1.kp.queue ++ norm s.l1.pipe
      = norm (written evs) := by
  intro s hs
  have h := hs ▸ reachable_ainv r evs
  exact ⟨h.lost, h.l1.cons⟩

/-- k lines in, k lines out: the finished prompts are the first lines of the typed stream -/
theorem results_are_segments_over_gaps (r : Bool) (evs : List Ev) :
    ∃ more, segments (norm (written evs)) = (run (St.init r) evs).l1.results ++ more := by
  have h := reachable_ainv r evs
  have hc := h.l1.cons
  simp only [List.append_assoc] at hc
  exact ⟨_, by rw [← hc]; exact segments_flat _ _ h.l1.results⟩

/-! ## Non-vacuity, and the witness for seeded/C17-j -/
section examples

/-- output that does not answer; chunk 1 = CPR `a` Enter before prompt 1; prompt 1 finishes; chunk 2 =
    `b` Enter arrives BETWEEN the prompts, the loop turns; prompt 2 starts and reads -/
def exGap : List Ev :=
  [.write [.cpr, .other 97, .accept], .start, .turn 9, .finish,
   .start, .turn 9, .write [.other 98, .accept], .turn 9, .finish,      -- prompt 2: a request nobody answers
   .write [.other 99, .accept], .turn 9,                                 -- in the gap
   .start, .turn 9, .finish]

-- after prompt 2 the renderer still holds an unanswered request, no reader is registered
example : (run (St.init false) (exGap.take 9)).rw = 1 ∧ (run (St.init false) (exGap.take 9)).seen = true ∧
    (run (St.init false) (exGap.take 9)).reader = none := by decide
-- the loop turn in the gap leaves the bytes in the pipe; prompt 3 gets them
example : (run (St.init false) (exGap.take 11)).l1.pipe = [.other 99, .accept] := by decide
example : (run (St.init false) exGap).l1.results =
    [([.other 97], .accept), ([.other 98], .accept), ([.other 99], .accept)] ∧
    (run (St.init false) exGap).lost = [] := by decide

/-- with `remove_reader` only `if previous` the reader of run 2 is still registered in the gap, its
    guard lets it through (`rw = 1`), it eats `c Enter`: the third line is lost -/
theorem stale_reader_eats_the_gap :
    (runBad (St.init false) (exGap.take 9)).reader = some 2 ∧
    (runBad (St.init false) (exGap.take 11)).l1.pipe = [] ∧
    (runBad (St.init false) (exGap.take 11)).lost = [.other 99, .accept] ∧
    (runBad (St.init false) exGap).l1.results = [([.other 97], .accept), ([.other 98], .accept)] := by
  decide

end examples
end Ptk.C17.Attach
