/-
  Cross-model agreement, cluster "KeyProcessor and key bindings".

  Part 6 — the key processor over the table of all shipped bindings: C05 (`Ptk.C05.Skel`:
  `keysMatch`, `prefixMatch`, `sortByAny`, `getMatches`, `isPrefixOfLonger`, `selectMatches`,
  `retryShift`, `processLoop`, `processKey`, `processQueue`, `callHandler` / `callBinding`,
  filter evaluation `evalF`) vs the canonical C04 (`matchFor`, `matchStarting`, `sortDesc`,
  `F.eval`, `getMatches`, `isPrefixOfLonger`, `decideOf`, `scan`, `runLoop`, `send`,
  `processKeys`, `callHandler`).

  src/prompt_toolkit/key_binding/key_bindings.py: `KeyBindings.get_bindings_for_keys.get`,
  `get_bindings_starting_with_keys.get`; key_processor.py: `_get_matches`,
  `_is_prefix_of_longer_match`, `_process`, `_call_handler`, `process_keys`, `feed`;
  filters/base.py: `_AndList/_OrList/_Invert.__call__`.

  Translations (all total):
    * keys: `kappa any` (C05's `Keys.Any` ↦ 0 = C04's `Key.any`, every other key `k ↦ k + 2`:
      injective and never C04's CPR key — C05 does not model CPR responses; that region of C04,
      the CPR bypass of `process_keys`, is outside this comparison);
    * filters: `trF` (C05's expression tree ↦ C04's filter objects), bindings: `trB`;
    * key presses: `emb` (C05's flush marker key ↦ `_Flush`);
    * `key_processor.arg`: C05 keeps "is it exactly `-`" (`abs05`); `conc` picks a representative;
    * state: C05 keeps key buffer and queue inside the skeleton, C04 in its `PS`: `R`.
  `iface05 t ki` is C04's interface for the table `t` and the observed handler data `ki`.
-/
import Ptk.Model.C04
import Ptk.Model.C05Skel
import Ptk.Props.AgreeKeyArg
namespace Ptk.AgreeKey.S05
open Ptk.C05.Skel

/-- key numbering: C05's `Keys.Any` (a table parameter) ↦ C04's `Key.any = 0`; every other key
    `k ↦ k + 2` (injective, and never C04's `Key.cpr = 1`: C05 does not model CPR responses) -/
def kappa (any : Key) (k : Key) : C04.Key := if k = any then 0 else k + 2

theorem kappa_inj (any a b : Key) : (kappa any a == kappa any b) = (a == b) := by
  unfold kappa
  by_cases h1 : a = any <;> by_cases h2 : b = any <;> simp [h1, h2]
  · intro h; exact h2 h.symm

theorem kappa_any (any a : Key) : (kappa any a == C04.Key.any) = (a == any) := by
  unfold kappa C04.Key.any
  by_cases h1 : a = any <;> simp [h1]

theorem kappa_ne_cpr (any a : Key) : (kappa any a == C04.Key.cpr) = false := by
  unfold kappa C04.Key.cpr
  by_cases h1 : a = any <;> simp [h1]

/-- C05's filter expressions as C04 filter objects (identities are irrelevant for evaluation) -/
def trF : F → C04.F
  | .tt => .always
  | .ff => .never
  | .atom i => .cond 0 i
  | .not f => .inv 0 (trF f)
  | .and a b => .andL 0 [trF a, trF b]
  | .or a b => .orL 0 [trF a, trF b]

/-- filters/base.py::_AndList.__call__ / _OrList.__call__ / _Invert.__call__ — `Ptk.C04.F.eval` on
    the translated filter = `Ptk.C05.Skel.evalF` -/
theorem eval_trF (t : Tbl) (s : Sk) (env : Env) (f : F) :
    (trF f).eval (evalAtom t s env) = evalF t s env f := by
  induction f with
  | tt => simp [trF, C04.F.eval, evalF]
  | ff => simp [trF, C04.F.eval, evalF]
  | atom i => simp [trF, C04.F.eval, evalF]
  | not f ih => simp [trF, C04.F.eval, evalF, ih]
  | and a b iha ihb => simp [trF, C04.F.eval, C04.evalAll, evalF, iha, ihb]
  | or a b iha ihb => simp [trF, C04.F.eval, C04.evalAny, evalF, iha, ihb]

def trB (any : Key) (b : Binding) : C04.Binding :=
  { keys := b.keys.map (kappa any), hid := b.handler, filter := trF b.filter, eager := trF b.eager,
    isGlobal := .never }

/-- key_bindings.py::KeyBindings.get_bindings_for_keys.get (the `zip` loop, equal lengths) —
    `Ptk.C04.zipMatch` + length test = `Ptk.C05.Skel.keysMatch` -/
theorem keysMatch_C04_C05 (any : Key) (bk ks : List Key) :
    ((ks.map (kappa any)).length == (bk.map (kappa any)).length &&
        C04.zipMatch (bk.map (kappa any)) (ks.map (kappa any))) = keysMatch any bk ks := by
  induction bk generalizing ks with
  | nil => cases ks <;> simp [keysMatch, C04.zipMatch]
  | cons p ps ih =>
    cases ks with
    | nil => simp [keysMatch, C04.zipMatch]
    | cons k ks =>
      have := ih ks
      simp only [List.length_map] at this
      simp only [List.map_cons, List.length_cons, C04.zipMatch, keysMatch, keyOk, kappa_inj, kappa_any,
        List.length_map, ← this]
      cases hk : (ks.length == ps.length) <;> simp_all

/-- key_bindings.py::KeyBindings.get_bindings_starting_with_keys.get — `Ptk.C04.zipMatch` + the
    `len(keys) < len(b.keys)` test = `Ptk.C05.Skel.prefixMatch` -/
theorem prefixMatch_C04_C05 (any : Key) (bk ks : List Key) :
    (decide ((ks.map (kappa any)).length < (bk.map (kappa any)).length) &&
        C04.zipMatch (bk.map (kappa any)) (ks.map (kappa any))) = prefixMatch any bk ks := by
  induction bk generalizing ks with
  | nil => cases ks <;> simp [prefixMatch]
  | cons p ps ih =>
    cases ks with
    | nil => simp [prefixMatch, C04.zipMatch]
    | cons k ks =>
      have := ih ks
      simp only [List.length_map] at this
      simp only [List.map_cons, List.length_cons, C04.zipMatch, prefixMatch, keyOk, kappa_inj, kappa_any,
        List.length_map, ← this]
      by_cases hk : ks.length < ps.length <;> simp [hk]

theorem anyCount_C04_C05 (any : Key) (b : Binding) :
    C04.anyCount (trB any b).keys = anyCount any b := by
  simp only [C04.anyCount, anyCount, trB, List.filter_map, List.length_map]
  congr 1
  apply List.filter_congr
  intro x _
  simp [kappa_any]

theorem insDesc_C04_C05 (any : Key) (b : Binding) (l : List Binding) :
    C04.insDesc (trB any b) (l.map (trB any)) = (insertSorted any b l).map (trB any) := by
  induction l with
  | nil => rfl
  | cons c cs ih =>
    simp only [List.map_cons, C04.insDesc, insertSorted, anyCount_C04_C05]
    split
    · rfl
    · simp [ih]

/-- key_bindings.py::KeyBindings.get_bindings_for_keys.get (`sorted(result, key=lambda item:
    -item[0])`) — `Ptk.C04.sortDesc` = `Ptk.C05.Skel.sortByAny` -/
theorem sortDesc_C04_C05 (any : Key) (l : List Binding) :
    C04.sortDesc (l.map (trB any)) = (sortByAny any l).map (trB any) := by
  induction l with
  | nil => rfl
  | cons b bs ih =>
    simp only [List.map_cons, C04.sortDesc, List.foldr_cons, sortByAny] at ih ⊢
    rw [ih, insDesc_C04_C05]

/-- key_bindings.py::KeyBindings.get_bindings_for_keys.get — `Ptk.C04.matchFor` on the translated
    table = the sorted, key-matching bindings of `Ptk.C05.Skel.getMatches` -/
theorem matchFor_C04_C05 (any : Key) (bs : List Binding) (keys : List Key) :
    C04.matchFor (bs.map (trB any)) (keys.map (kappa any))
      = (sortByAny any (bs.filter fun b => keysMatch any b.keys keys)).map (trB any) := by
  simp only [C04.matchFor, List.filter_map, sortDesc_C04_C05]
  congr 2
  apply List.filter_congr
  intro b _
  simp only [Function.comp, trB]
  exact keysMatch_C04_C05 any b.keys keys

/-- key_bindings.py::KeyBindings.get_bindings_starting_with_keys.get — `Ptk.C04.matchStarting` on
    the translated table = the bindings `Ptk.C05.Skel.prefixMatch` accepts -/
theorem matchStarting_C04_C05 (any : Key) (bs : List Binding) (keys : List Key) :
    C04.matchStarting (bs.map (trB any)) (keys.map (kappa any))
      = (bs.filter fun b => prefixMatch any b.keys keys).map (trB any) := by
  simp only [C04.matchStarting, List.filter_map]
  congr 1
  apply List.filter_congr
  intro b _
  simp only [Function.comp, trB]
  exact prefixMatch_C04_C05 any b.keys keys

/-! ### a handler call is independent of the key buffer and of the rest of the queue -/

/-- the skeleton with another key buffer and more keys at the back of the queue -/
def ext (s : Sk) (kb q : List KeyP) : Sk := { s with keyBuf := kb, queue := s.queue ++ q }

theorem setMode_ext (s : Sk) (m : C05.InputMode) (kb q : List KeyP) :
    setMode (ext s kb q) m = ext (setMode s m) kb q := by
  simp only [setMode, ext]; split <;> rfl

theorem setCurSel_ext (s : Sk) (v : Option SelS) (kb q : List KeyP) :
    (ext s kb q).setCurSel v = ext (s.setCurSel v) kb q := by
  cases h : s.searching <;> simp [Sk.setCurSel, ext, h]

theorem curSel_ext (s : Sk) (kb q : List KeyP) : (ext s kb q).curSel = s.curSel := rfl

theorem stopSearch_ext (s : Sk) (kb q : List KeyP) :
    stopSearch (ext s kb q) = ext (stopSearch s) kb q := by
  cases h : s.searching <;> simp [stopSearch, setMode, ext, h]

theorem effect_ext (c : HClass) (keys : List KeyP) (a : Option Bool) (hd : HData) (e : Key) (s : Sk)
    (kb q : List KeyP) :
    effect c keys a hd e (ext s kb q) = ext (effect c keys a hd e s) kb q := by
  cases c <;> simp only [effect, setMode_ext, setCurSel_ext, stopSearch_ext, curSel_ext] <;>
    (try rfl) <;> (repeat' split) <;> (first | rfl | exact setCurSel_ext _ _ _ _ | (simp_all [ext]; done))


theorem applyTc_ext (hd : HData) (s : Sk) (kb q : List KeyP) :
    applyTc hd (ext s kb q) = ext (applyTc hd s) kb q := by
  cases h0 : hd.tc0 <;> cases h1 : hd.tc1 <;> simp [applyTc, ext, h0, h1]

theorem leaveTempNav_ext (s : Sk) (kb q : List KeyP) :
    leaveTempNav (ext s kb q) = ext (leaveTempNav s) kb q := by
  by_cases h0 : s.vi = true <;> by_cases h1 : (s.op.isNone && s.arg.isNone) = true <;>
    simp [leaveTempNav, ext, h0, h1]

def clearArg (s : Sk) : Sk := { s with arg := none }
def markDone (c : HClass) (hd : HData) (s : Sk) : Sk := { s with done := s.done || (c.mayFinish && hd.done) }

theorem clearArg_ext (s : Sk) (kb q : List KeyP) : clearArg (ext s kb q) = ext (clearArg s) kb q := rfl
theorem markDone_ext (c : HClass) (hd : HData) (s : Sk) (kb q : List KeyP) :
    markDone c hd (ext s kb q) = ext (markDone c hd s) kb q := rfl

theorem callHandler_steps (c : HClass) (keys : List KeyP) (hd : HData) (e : Key) (s : Sk) :
    callHandler c keys hd e s =
      (if s.tempNav then leaveTempNav
          (markDone c hd (if c.editsText then applyTc hd (effect c keys s.arg hd e (clearArg s))
                          else effect c keys s.arg hd e (clearArg s)))
       else markDone c hd (if c.editsText then applyTc hd (effect c keys s.arg hd e (clearArg s))
                          else effect c keys s.arg hd e (clearArg s))) := by
  unfold callHandler clearArg markDone
  cases c.editsText <;> rfl

/-- a handler call neither reads the key buffer nor the queue; it only pushes keys to the front
    of the queue -/
theorem callHandler_ext (c : HClass) (keys : List KeyP) (hd : HData) (e : Key) (s : Sk)
    (kb q : List KeyP) :
    callHandler c keys hd e (ext s kb q) = ext (callHandler c keys hd e s) kb q := by
  rw [callHandler_steps, callHandler_steps]
  have ht : (ext s kb q).tempNav = s.tempNav := rfl
  have ha : (ext s kb q).arg = s.arg := rfl
  rw [ht, ha, clearArg_ext, effect_ext, applyTc_ext]
  cases c.editsText <;> cases s.tempNav <;>
    simp only [if_true, if_false, Bool.false_eq_true, markDone_ext, leaveTempNav_ext]


/-! ### the instantiation of C04's interface -/

def strip (s : Sk) : Sk := { s with keyBuf := [], queue := [] }

theorem ext_strip (s : Sk) : ext (strip s) s.keyBuf s.queue = s := by simp [ext, strip]
theorem strip_ext (s : Sk) (kb q : List KeyP) : strip (ext s kb q) = strip s := rfl
theorem ext_queue (s : Sk) (kb q : List KeyP) : (ext s kb q).queue = s.queue ++ q := rfl
theorem strip_strip (s : Sk) : strip (strip s) = strip s := rfl

theorem evalAtom_strip (t : Tbl) (s : Sk) (env : Env) : evalAtom t (strip s) env = evalAtom t s env := by
  funext i
  unfold evalAtom
  cases h : t.atoms[i]? with
  | none => rfl
  | some a => cases a <;> rfl

theorem evalF_strip (t : Tbl) (s : Sk) (env : Env) (f : F) : evalF t (strip s) env f = evalF t s env f := by
  rw [← eval_trF, ← eval_trF, evalAtom_strip]

/-- a `KeyPress` of C05 (`key`, class of its `data`) as a `KeyPress` of C04; C05's flush marker is
    the key `flushKey` -/
def emb (any : Key) (k : KeyP) : C04.KP :=
  if k.key == flushKey then .flush else .key (kappa any k.key) k.dc

def unemb (any : Key) : C04.KP → KeyP
  | .key j tag => ⟨if j = 0 then any else j - 2, tag⟩
  | .flush => ⟨flushKey, 0⟩

def NoFlush (l : List KeyP) : Prop := ∀ k ∈ l, k.key ≠ flushKey

theorem unemb_emb (any : Key) (k : KeyP) (h : k.key ≠ flushKey) : unemb any (emb any k) = k := by
  obtain ⟨key, dc⟩ := k
  simp only at h
  simp only [emb, beq_iff_eq, h, if_false, unemb, kappa]
  by_cases h1 : key = any <;> simp [h1]

theorem map_unemb_emb (any : Key) (l : List KeyP) (h : NoFlush l) :
    (l.map (emb any)).map (unemb any) = l := by
  induction l with
  | nil => rfl
  | cons k l ih =>
    simp only [List.map_cons]
    rw [unemb_emb any k (h k (by simp)), ih (fun x hx => h x (by simp [hx]))]

theorem keysOf_emb (any : Key) (l : List KeyP) (h : NoFlush l) :
    C04.keysOf (l.map (emb any)) = (l.map (·.key)).map (kappa any) := by
  induction l with
  | nil => rfl
  | cons k l ih =>
    have hk : (k.key == flushKey) = false := by simpa using h k (by simp)
    have := ih (fun x hx => h x (by simp [hx]))
    simp only [C04.keysOf] at this
    simp [C04.keysOf, emb, hk, this]

theorem emb_isCpr (any : Key) (k : KeyP) : (emb any k).isCpr = false := by
  unfold emb
  split
  · rfl
  · simp [C04.KP.isCpr, kappa_ne_cpr]

/-- a representative string for C05's abstraction of `key_processor.arg` -/
def conc : Option Bool → C04.Arg
  | none => none
  | some true => some ['-']
  | some false => some ['0']

theorem abs05_conc (x : Option Bool) : abs05 (conc x) = x := by
  cases x with
  | none => rfl
  | some b => cases b <;> rfl

/-- the skeleton after `_call_handler` of the binding `hid`, started from the stripped world -/
def handlerRun (t : Tbl) (ki : KeyIn) (r : Run) (hid : Nat) (seq : List C04.KP) (a : C04.Arg) : Sk :=
  callHandler (classOf t hid) (seq.map (unemb t.anyKey)) (ki.hdAt r.calls.length) t.enterKey
    { r.s with arg := abs05 a }

/-- C04's interface over C05's binding table: lookups through `matchFor` / `matchStarting` on the
    translated table, filters evaluated on the mode skeleton, `handler.call(event)` = the effect of
    the handler's class (including what `_call_handler` does around it on the skeleton) -/
def iface05 (t : Tbl) (ki : KeyIn) : C04.Iface Run where
  getFor := fun r ks => (r, C04.matchFor (t.bindings.map (trB t.anyKey)) ks)
  getStart := fun r ks => (r, C04.matchStarting (t.bindings.map (trB t.anyKey)) ks)
  evalF := fun r f => f.eval (evalAtom t r.s (ki.envAt r.calls.length))
  call := fun r q b seq _ ev =>
    ({ s := strip (handlerRun t ki r b.hid seq ev.arg), calls := r.calls ++ [b.hid] },
     (handlerRun t ki r b.hid seq ev.arg).queue.map (emb t.anyKey) ++ q, .ok)
  done := fun r => r.s.done
  argOut := fun r b seq ev => conc (handlerRun t ki r b.hid seq ev.arg).arg

structure R (t : Tbl) (ps : C04.PS Run) (r : Run) : Prop where
  s : ps.w.s = strip r.s
  calls : ps.w.calls = r.calls
  buffer : ps.buffer = r.s.keyBuf.map (emb t.anyKey)
  queue : ps.queue = r.s.queue.map (emb t.anyKey)
  arg : abs05 ps.arg = r.s.arg
  noFlush : NoFlush r.s.keyBuf

variable (t : Tbl) (ki : KeyIn)

/-- key_processor.py::KeyProcessor._get_matches — `Ptk.C04.getMatches` at `iface05` =
    `Ptk.C05.Skel.getMatches` (same bindings, same order) -/
theorem getMatches_C04_C05 (w : Run) (buf : List KeyP) (h : NoFlush buf) :
    C04.getMatches (iface05 t ki) w (buf.map (emb t.anyKey))
      = (w, (getMatches t w.s (ki.envAt w.calls.length) (buf.map (·.key))).map (trB t.anyKey)) := by
  simp only [C04.getMatches, iface05, keysOf_emb t.anyKey buf h, matchFor_C04_C05, getMatches,
    List.filter_map]
  congr 2
  apply List.filter_congr
  intro b _
  simp only [Function.comp, trB, eval_trF]

/-- key_processor.py::KeyProcessor._is_prefix_of_longer_match — `Ptk.C04.isPrefixOfLonger` at
    `iface05` = `Ptk.C05.Skel.isPrefixOfLonger` -/
theorem isPrefix_C04_C05 (w : Run) (buf : List KeyP) (h : NoFlush buf) :
    C04.isPrefixOfLonger (iface05 t ki) w (buf.map (emb t.anyKey))
      = (w, isPrefixOfLonger t w.s (ki.envAt w.calls.length) (buf.map (·.key))) := by
  simp only [C04.isPrefixOfLonger, iface05, keysOf_emb t.anyKey buf h, matchStarting_C04_C05,
    isPrefixOfLonger, List.any_map, List.any_filter]
  congr 1
  simp only [Function.comp, trB, eval_trF]


theorem recordMacro_off (w : Run) (b : C04.Binding) (seq : List C04.KP) :
    C04.recordMacro (iface05 t ki) false false w b seq = (w, []) := by
  simp only [C04.recordMacro, iface05]
  by_cases hh : C04.F.eval (evalAtom t w.s (ki.envAt w.calls.length)) b.rim = true <;> simp [hh]

theorem iface05_call (r : Run) (q : List C04.KP) (b : C04.Binding) (seq prev : List C04.KP) (ev : C04.EvX) :
    (iface05 t ki).call r q b seq prev ev =
      ({ s := strip (handlerRun t ki r b.hid seq ev.arg), calls := r.calls ++ [b.hid] },
       (handlerRun t ki r b.hid seq ev.arg).queue.map (emb t.anyKey) ++ q, .ok) := rfl
theorem iface05_argOut (r : Run) (b : C04.Binding) (seq : List C04.KP) (ev : C04.EvX) :
    (iface05 t ki).argOut r b seq ev = conc (handlerRun t ki r b.hid seq ev.arg).arg := rfl
theorem iface05_done (r : Run) : (iface05 t ki).done r = r.s.done := rfl
theorem iface05_recE (r : Run) : (iface05 t ki).recE r = false := rfl
theorem iface05_recV (r : Run) : (iface05 t ki).recV r = false := rfl

/-- key_processor.py::KeyProcessor._call_handler — `Ptk.C04.callHandler` at `iface05` =
    `Ptk.C05.Skel.callBinding` (`arg` cleared and handed to the event, handler effect on the
    skeleton, keys the handler feeds in front of the queue, list of handlers called) -/
theorem callHandler_C04_C05 {ps : C04.PS Run} {r : Run} (h : R t ps r) (b : Binding) (keys : List KeyP)
    (hk : NoFlush keys) :
    (C04.callHandler (iface05 t ki) ps (trB t.anyKey b) (keys.map (emb t.anyKey))).2.2 = false ∧
    R t (C04.callHandler (iface05 t ki) ps (trB t.anyKey b) (keys.map (emb t.anyKey))).1
      (callBinding t ki b keys r) := by
  obtain ⟨hs, hcl, hbuf, hq, harg, hnf⟩ := h
  obtain ⟨⟨ws, wc⟩, buffer, queue, prev, arg, prevH⟩ := ps
  simp only at hs hcl hbuf hq harg
  subst hs hcl hbuf hq
  have hr : handlerRun t ki ⟨strip r.s, r.calls⟩ (trB t.anyKey b).hid (keys.map (emb t.anyKey)) arg
      = callHandler (classOf t b.handler) keys (ki.hdAt r.calls.length) t.enterKey (strip r.s) := by
    simp only [handlerRun, trB, map_unemb_emb t.anyKey keys hk, harg]
    rfl
  have hc : callHandler (classOf t b.handler) keys (ki.hdAt r.calls.length) t.enterKey r.s
      = ext (callHandler (classOf t b.handler) keys (ki.hdAt r.calls.length) t.enterKey (strip r.s))
          r.s.keyBuf r.s.queue := by
    rw [← callHandler_ext, ext_strip]
  simp only [C04.callHandler, C04.eventOf, iface05_call, iface05_argOut, iface05_recE, iface05_recV, hr,
    recordMacro_off, callBinding, hc]
  refine ⟨trivial, ⟨rfl, rfl, rfl, ?_, abs05_conc _, hnf⟩⟩
  simp [ext_queue]


theorem getMatches_strip (s : Sk) (env : Env) (ks : List Key) :
    getMatches t (strip s) env ks = getMatches t s env ks := by
  simp only [getMatches, evalF_strip]

theorem isPrefix_strip (s : Sk) (env : Env) (ks : List Key) :
    isPrefixOfLonger t (strip s) env ks = isPrefixOfLonger t s env ks := by
  simp only [isPrefixOfLonger, evalF_strip]

/-- the search part of `retryShift`: the longest prefix of the key buffer that has a match -/
def scan05 (r : Run) (buf : List KeyP) : Nat → Option (Nat × Binding)
  | 0 => none
  | i + 1 =>
    match (getMatches t r.s (ki.envAt r.calls.length) ((buf.take (i + 1)).map (·.key))).getLast? with
    | some b => some (i + 1, b)
    | none => scan05 r buf i

theorem retryShift_eq (r : Run) (buf : List KeyP) (n : Nat) :
    retryShift t ki r buf n =
      match scan05 t ki r buf n with
      | some (i, b) =>
        { callBinding t ki b (buf.take i) r with
          s := { (callBinding t ki b (buf.take i) r).s with keyBuf := buf.drop i } }
      | none => { r with s := { r.s with keyBuf := buf.drop 1 } } := by
  induction n with
  | zero => rfl
  | succ i ih =>
    simp only [retryShift, scan05]
    cases (getMatches t r.s (ki.envAt r.calls.length) ((buf.take (i + 1)).map (·.key))).getLast? with
    | some b => rfl
    | none => exact ih

theorem noFlush_take {l : List KeyP} (h : NoFlush l) (i : Nat) : NoFlush (l.take i) :=
  fun k hk => h k (List.mem_of_mem_take hk)
theorem noFlush_drop {l : List KeyP} (h : NoFlush l) (i : Nat) : NoFlush (l.drop i) :=
  fun k hk => h k (List.mem_of_mem_drop hk)

/-- key_processor.py::KeyProcessor._process (`for i in range(len(buffer), 0, -1)`) —
    `Ptk.C04.scan` at `iface05` = the search of `Ptk.C05.Skel.retryShift` -/
theorem scan_C04_C05 (r : Run) (buf : List KeyP) (h : NoFlush buf) (i : Nat) :
    C04.scan (iface05 t ki) (buf.map (emb t.anyKey)) i ⟨strip r.s, r.calls⟩
      = (⟨strip r.s, r.calls⟩,
         (scan05 t ki r buf i).map fun p => (p.1, trB t.anyKey p.2)) := by
  induction i with
  | zero => rfl
  | succ i ih =>
    simp only [C04.scan, scan05, ← List.map_take,
      getMatches_C04_C05 t ki _ _ (noFlush_take h (i + 1)), getMatches_strip, List.getLast?_map]
    cases (getMatches t r.s (ki.envAt r.calls.length) ((buf.take (i + 1)).map (·.key))).getLast? with
    | some b => rfl
    | none => simpa using ih

/-- key_processor.py::KeyProcessor._process (one pass: idle / wait / fire / drop) —
    `Ptk.C04.decideOf` at `iface05` = the branch structure of `Ptk.C05.Skel.processLoop`
    (`selectMatches`: eager matches hide the longer ones; `retryShift`) -/
theorem decide_C04_C05 {ps : C04.PS Run} {r : Run} (h : R t ps r) (flush : Bool) :
    C04.decideOf (iface05 t ki) ps flush = (ps.w,
      if r.s.keyBuf.isEmpty then C04.Decision.idle
      else if (selectMatches t r.s (ki.envAt r.calls.length) (r.s.keyBuf.map (·.key)) flush).2 then .wait
      else match (selectMatches t r.s (ki.envAt r.calls.length) (r.s.keyBuf.map (·.key)) flush).1.getLast? with
        | some b => .fire (trB t.anyKey b) r.s.keyBuf.length true
        | none => match scan05 t ki r r.s.keyBuf r.s.keyBuf.length with
          | some (i, b) => .fire (trB t.anyKey b) i false
          | none => .dropOne) := by
  obtain ⟨hs, hcl, hbuf, hq, harg, hnf⟩ := h
  obtain ⟨⟨ws, wc⟩, buffer, queue, prev, arg, prevH⟩ := ps
  simp only at hs hcl hbuf hq harg
  subst hs hcl hbuf hq
  unfold C04.decideOf
  by_cases hb : r.s.keyBuf.isEmpty = true
  · simp [hb]
  · have heag : ∀ l : List Binding,
        (l.map (trB t.anyKey)).filter (fun m => (iface05 t ki).evalF ⟨strip r.s, r.calls⟩ m.eager)
          = (l.filter fun b => evalF t r.s (ki.envAt r.calls.length) b.eager).map (trB t.anyKey) := by
      intro l
      rw [List.filter_map]
      congr 1
      apply List.filter_congr
      intro b _
      simp only [Function.comp, iface05, trB, eval_trF, evalF_strip]
    cases flush <;>
    simp only [List.isEmpty_map, hb, Bool.false_eq_true, if_false, if_true, getMatches_C04_C05 t ki _ _ hnf,
      isPrefix_C04_C05 t ki _ _ hnf, getMatches_strip, isPrefix_strip, heag, List.length_map,
      scan_C04_C05 t ki r _ hnf, selectMatches] <;>
    (generalize getMatches t r.s (ki.envAt r.calls.length) (List.map (fun x => x.key) r.s.keyBuf) = ms
     generalize List.filter (fun b => evalF t r.s (ki.envAt r.calls.length) b.eager) ms = eg
     generalize isPrefixOfLonger t r.s (ki.envAt r.calls.length) (List.map (fun x => x.key) r.s.keyBuf) = pre
     generalize scan05 t ki r r.s.keyBuf r.s.keyBuf.length = sc
     cases hE : eg.isEmpty <;> cases pre <;> simp only [Bool.false_eq_true, if_false, if_true, List.getLast?_map] <;>
       (first
         | (cases eg.getLast? <;> simp only [Option.map_none, Option.map_some] <;>
             rcases sc with _ | ⟨i, b⟩ <;> rfl)
         | (cases ms.getLast? <;> simp only [Option.map_none, Option.map_some] <;>
             rcases sc with _ | ⟨i, b⟩ <;> rfl)
         | rfl))


/-- one pass through the body of the `while True` loop of `_process`, on C05's state; the flag is
    `retry` -/
def pass05 (flush : Bool) (r : Run) : Run × Bool :=
  if r.s.keyBuf.isEmpty then (r, false)
  else if (selectMatches t r.s (ki.envAt r.calls.length) (r.s.keyBuf.map (·.key)) flush).2 then (r, false)
  else match (selectMatches t r.s (ki.envAt r.calls.length) (r.s.keyBuf.map (·.key)) flush).1.getLast? with
    | some b =>
      ({ callBinding t ki b r.s.keyBuf r with
         s := { (callBinding t ki b r.s.keyBuf r).s with keyBuf := [] } }, false)
    | none => (retryShift t ki r r.s.keyBuf r.s.keyBuf.length, true)

theorem processLoop_pass (fuel : Nat) (flush : Bool) (r : Run) :
    processLoop t ki (fuel + 1) r flush =
      if (pass05 t ki flush r).2 then
        if !(pass05 t ki flush r).1.s.keyBuf.isEmpty && (pass05 t ki flush r).1.s.done then
          { (pass05 t ki flush r).1 with
            s := { (pass05 t ki flush r).1.s with
                   queue := (pass05 t ki flush r).1.s.keyBuf ++ (pass05 t ki flush r).1.s.queue, keyBuf := [] } }
        else processLoop t ki fuel (pass05 t ki flush r).1 false
      else (pass05 t ki flush r).1 := by
  simp only [processLoop, pass05]
  by_cases hb : r.s.keyBuf.isEmpty = true
  · simp [hb]
  · by_cases hp : (selectMatches t r.s (ki.envAt r.calls.length) (r.s.keyBuf.map (·.key)) flush).2 = true
    · simp [hb, hp]
    · simp only [hb, hp, Bool.false_eq_true, if_false]
      cases (selectMatches t r.s (ki.envAt r.calls.length) (r.s.keyBuf.map (·.key)) flush).1.getLast? <;> simp

theorem R.setBuffer {ps : C04.PS Run} {r : Run} (h : R t ps r) (b : List KeyP) (hb : NoFlush b) :
    R t { ps with buffer := b.map (emb t.anyKey) } { r with s := { r.s with keyBuf := b } } :=
  ⟨h.s, h.calls, rfl, h.queue, h.arg, hb⟩

theorem examine_C04_C05 {ps : C04.PS Run} {r : Run} (h : R t ps r) (flush : Bool) :
    (C04.examine (iface05 t ki) ps flush).2.2
        = (if (pass05 t ki flush r).2 then C04.Ctl.retry else C04.Ctl.yield_) ∧
    R t (C04.examine (iface05 t ki) ps flush).1 (pass05 t ki flush r).1 := by
  have hd := decide_C04_C05 t ki h flush
  simp only [C04.examine, hd, pass05]
  by_cases hb : r.s.keyBuf.isEmpty = true
  · simp only [hb, if_true, C04.exec]
    exact ⟨by simp, h⟩
  · simp only [hb, Bool.false_eq_true, if_false]
    by_cases hp : (selectMatches t r.s (ki.envAt r.calls.length) (r.s.keyBuf.map (·.key)) flush).2 = true
    · simp only [hp, if_true, C04.exec]
      exact ⟨by simp, h⟩
    · simp only [hp, Bool.false_eq_true, if_false]
      cases hm : (selectMatches t r.s (ki.envAt r.calls.length) (r.s.keyBuf.map (·.key)) flush).1.getLast? with
      | some b =>
        simp only [C04.exec]
        have htake : ps.buffer.take r.s.keyBuf.length = r.s.keyBuf.map (emb t.anyKey) := by
          rw [h.buffer]; exact List.take_of_length_le (by simp)
        have hdrop : ps.buffer.drop r.s.keyBuf.length = ([] : List KeyP).map (emb t.anyKey) := by
          rw [h.buffer, List.drop_of_length_le (by simp)]; rfl
        rw [htake, hdrop]
        obtain ⟨c1, c2⟩ := callHandler_C04_C05 t ki h b r.s.keyBuf h.noFlush
        simp only [c1, Bool.false_eq_true, if_false]
        exact ⟨by simp, c2.setBuffer t [] (by intro k hk; cases hk)⟩
      | none =>
        simp only [retryShift_eq]
        rcases hsc : scan05 t ki r r.s.keyBuf r.s.keyBuf.length with _ | ⟨i, b⟩
        · simp only [C04.exec]
          refine ⟨by simp, ?_⟩
          have := h.setBuffer t (r.s.keyBuf.drop 1) (noFlush_drop h.noFlush 1)
          simpa [h.buffer, List.map_drop] using this
        · simp only [C04.exec]
          have htake : ps.buffer.take i = (r.s.keyBuf.take i).map (emb t.anyKey) := by
            rw [h.buffer, List.map_take]
          have hdrop : ps.buffer.drop i = (r.s.keyBuf.drop i).map (emb t.anyKey) := by
            rw [h.buffer, List.map_drop]
          rw [htake, hdrop]
          obtain ⟨c1, c2⟩ := callHandler_C04_C05 t ki h b (r.s.keyBuf.take i) (noFlush_take h.noFlush i)
          simp only [c1, Bool.false_eq_true, if_false]
          exact ⟨by simp, c2.setBuffer t _ (noFlush_drop h.noFlush i)⟩

/-- key_processor.py::KeyProcessor._process (the loop until the next `yield`, keys pushed back to
    the queue when the application is done) — `Ptk.C04.runLoop` at `iface05` =
    `Ptk.C05.Skel.processLoop`, for every fuel -/
theorem runLoop_C04_C05 : ∀ (fuel : Nat) (flush : Bool) (ps : C04.PS Run) (r : Run), R t ps r →
    (C04.runLoop (iface05 t ki) fuel ps flush).2.2 = false ∧
    R t (C04.runLoop (iface05 t ki) fuel ps flush).1 (processLoop t ki fuel r flush) := by
  intro fuel
  induction fuel with
  | zero => intro _ ps r h; exact ⟨rfl, h⟩
  | succ n ih =>
    intro flush ps r h
    obtain ⟨e1, e2⟩ := examine_C04_C05 t ki h flush
    rw [processLoop_pass]
    simp only [C04.runLoop]
    by_cases hr : (pass05 t ki flush r).2 = true
    · simp only [hr, if_true] at e1 ⊢
      simp only [e1]
      have hbe : (C04.examine (iface05 t ki) ps flush).1.buffer.isEmpty
          = (pass05 t ki flush r).1.s.keyBuf.isEmpty := by rw [e2.buffer]; simp
      have hdn : (iface05 t ki).done (C04.examine (iface05 t ki) ps flush).1.w
          = (pass05 t ki flush r).1.s.done := by rw [iface05_done, e2.s]; rfl
      rw [hbe, hdn]
      by_cases hq : (!(pass05 t ki flush r).1.s.keyBuf.isEmpty && (pass05 t ki flush r).1.s.done) = true
      · simp only [hq, if_true]
        refine ⟨trivial, ⟨e2.s, e2.calls, rfl, ?_, e2.arg, by intro k hk; cases hk⟩⟩
        simp only [e2.buffer, e2.queue, List.map_append]
      · simp only [hq, Bool.false_eq_true, if_false]
        exact ih false _ _ e2
    · have hr' : (pass05 t ki flush r).2 = false := by simpa using hr
      simp only [hr', Bool.false_eq_true, if_false] at e1 ⊢
      simp only [e1]
      exact ⟨trivial, e2⟩


theorem R.setQueue {ps : C04.PS Run} {r : Run} (h : R t ps r) (q : List KeyP) :
    R t { ps with queue := q.map (emb t.anyKey) } { r with s := { r.s with queue := q } } :=
  ⟨h.s, h.calls, h.buffer, rfl, h.arg, h.noFlush⟩

/-- key_processor.py::KeyProcessor._process (`_process_coroutine.send(key_press)`, a key or
    `_Flush`) — `Ptk.C04.send` at `iface05` = `Ptk.C05.Skel.processKey` (same fuel) -/
theorem send_C04_C05 {ps : C04.PS Run} {r : Run} (h : R t ps r) (k : KeyP) :
    (C04.send (iface05 t ki) ps (emb t.anyKey k)).2.2 = false ∧
    R t (C04.send (iface05 t ki) ps (emb t.anyKey k)).1 (processKey t ki r k) := by
  have hlen : ps.buffer.length = r.s.keyBuf.length := by rw [h.buffer]; simp
  unfold processKey
  by_cases hk : (k.key == flushKey) = true
  · simp only [emb, hk, if_true, C04.send, hlen]
    exact runLoop_C04_C05 t ki _ true ps r h
  · have hk' : k.key ≠ flushKey := by simpa using hk
    simp only [emb, hk, Bool.false_eq_true, if_false, C04.send, hlen]
    have h' : R t { ps with buffer := ps.buffer ++ [C04.KP.key (kappa t.anyKey k.key) k.dc] }
        { r with s := { r.s with keyBuf := r.s.keyBuf ++ [k] } } := by
      have := h.setBuffer t (r.s.keyBuf ++ [k]) (by
        intro x hx
        rcases List.mem_append.mp hx with hx | hx
        · exact h.noFlush x hx
        · simp at hx; subst hx; exact hk')
      simpa [h.buffer, emb, hk] using this
    have hl2 : ({ r with s := { r.s with keyBuf := r.s.keyBuf ++ [k] } } : Run).s.keyBuf.length + 1
        = r.s.keyBuf.length + 2 := by simp
    rw [hl2]
    exact runLoop_C04_C05 t ki _ false _ _ h'

theorem any_isCpr_emb (q : List KeyP) : (q.map (emb t.anyKey)).any C04.KP.isCpr = false := by
  induction q with
  | nil => rfl
  | cons k q ih => simp [emb_isCpr, ih]

/-- key_processor.py::KeyProcessor.process_keys — `Ptk.C04.processKeys` at `iface05` =
    `Ptk.C05.Skel.processQueue`, for every fuel (C05 has no CPR key presses: once the application
    is done nothing is taken from the queue) -/
theorem processKeys_C04_C05 : ∀ (n : Nat) (ps : C04.PS Run) (r : Run), R t ps r →
    (C04.processKeys (iface05 t ki) n ps).2.2 = false ∧
    R t (C04.processKeys (iface05 t ki) n ps).1 (processQueue t ki n r) := by
  intro n
  induction n with
  | zero => intro ps r h; exact ⟨rfl, h⟩
  | succ n ih =>
    intro ps r h
    have hdone : (iface05 t ki).done ps.w = r.s.done := by rw [iface05_done, h.s]; rfl
    simp only [C04.processKeys, processQueue]
    by_cases hd : r.s.done = true
    · have hne : C04.pkStep (iface05 t ki) ps = none := by
        simp only [C04.pkStep, C04.notEmpty, hdone, hd, h.queue, any_isCpr_emb, if_true, Bool.not_false]
      rw [hne, if_pos hd]; exact ⟨rfl, h⟩
    · rw [if_neg hd]
      cases hq : r.s.queue with
      | nil =>
        have hne : C04.pkStep (iface05 t ki) ps = none := by
          simp [C04.pkStep, C04.notEmpty, hdone, hd, h.queue, hq]
        rw [hne]; exact ⟨rfl, h⟩
      | cons k rest =>
        have h' := h.setQueue t rest
        obtain ⟨c1, c2⟩ := send_C04_C05 t ki h' k
        have hst : (C04.pkStep (iface05 t ki) ps).map (fun x => (x.1, x.2.2)) = some
            ((C04.send (iface05 t ki) { ps with queue := rest.map (emb t.anyKey) } (emb t.anyKey k)).1,
             false) := by
          simp only [C04.pkStep, C04.notEmpty, C04.getNext, hdone, hd, h.queue, hq, C04.dispatchKey,
            emb_isCpr, c1, List.map_cons, List.isEmpty_cons, Bool.not_false, Bool.false_eq_true, if_false]
          rfl
        cases hpk : C04.pkStep (iface05 t ki) ps with
        | none => rw [hpk] at hst; cases hst
        | some x =>
          obtain ⟨a, obs, fl⟩ := x
          rw [hpk] at hst
          simp only [Option.map_some, Option.some.injEq, Prod.mk.injEq] at hst
          obtain ⟨rfl, rfl⟩ := hst
          exact ih _ _ c2

/-- key_processor.py::KeyProcessor.feed — `Ptk.C04.feed` = the queue update of `Ptk.C05.Skel.feed` -/
theorem feed_C04_C05 {ps : C04.PS Run} {r : Run} (h : R t ps r) (k : KeyP) :
    R t (C04.feed ps (emb t.anyKey k) false) { r with s := { r.s with queue := r.s.queue ++ [k] } } := by
  have := h.setQueue t (r.s.queue ++ [k])
  simpa [C04.feed, h.queue] using this


/-- key_processor.py::KeyProcessor.feed + process_keys — `Ptk.C04.feed` then `Ptk.C04.processKeys`
    at `iface05` = `Ptk.C05.Skel.feed` (one key, or `_Flush`, from a state with no call made yet) -/
theorem feedProcess_C04_C05 (ps : C04.PS Run) (s : Sk) (h : R t ps ⟨s, []⟩) :
    let k : KeyP := if ki.flush then ⟨flushKey, 0⟩ else ki.key
    (C04.processKeys (iface05 t ki) queueFuel (C04.feed ps (emb t.anyKey k) false)).2.2 = false ∧
    R t (C04.processKeys (iface05 t ki) queueFuel (C04.feed ps (emb t.anyKey k) false)).1 (feed t s ki) := by
  intro k
  exact processKeys_C04_C05 t ki queueFuel _ _ (feed_C04_C05 t h k)

/-- non-vacuity: a two-binding table (`a` alone, eager; `a b`), the key `a` -/
def demoT : Tbl :=
  { bindings := [⟨[97], .tt, .tt, 0⟩, ⟨[97, 98], .tt, .ff, 1⟩], atoms := [], classes := [.plain, .plain],
    anyKey := namedBase, enterKey := namedBase + 1 }
def demoKi : KeyIn := { key := ⟨97, 0⟩, flush := false, envs := [], hds := [] }
example : R demoT { w := ⟨strip (Sk.init false false), []⟩ } ⟨Sk.init false false, []⟩ :=
  ⟨rfl, rfl, rfl, rfl, rfl, by intro k hk; cases hk⟩
example : (feed demoT (Sk.init false false) demoKi).calls = [0] := by decide

end Ptk.AgreeKey.S05
