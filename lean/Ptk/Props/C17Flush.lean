/-
  C17, third layer — the input flush timer (`Ptk.Model.C17Flush`).

    timely_run_is_timeless           while every event that happens in the middle of an escape
                                     sequence comes earlier than `ttimeoutlen` after the last read,
                                     what the input object delivers is exactly the time-free parse of
                                     the concatenated stream: the flush never fires inside a sequence
    split_sequence_never_flushed     … so no lone Escape / no rest-of-sequence-as-text appears
    timing_and_chunking_independent  two such schedules with the same bytes deliver the same keys
    gen_ttimeoutlen_default / split_sequence_never_flushed_default
                                     the same for the DEFAULT ttimeoutlen regenerated from the tree (pinned)
    stale_timer_breaks_sequence      negative witness: a timer that is not restarted by every read
                                     (seeded/C17-c) flushes a sequence split over two reads that are
                                     closer than `ttimeoutlen`
-/
import Ptk.Model.C17Flush
import Ptk.Gen.C17
namespace Ptk.C17.Flush
open Ptk.C17

theorem feed_append (pend : Option Nat) (a b : List Piece) :
    feed pend (a ++ b) =
      ((feed pend a).1 ++ (feed (feed pend a).2 b).1, (feed (feed pend a).2 b).2) := by
  induction a generalizing pend with
  | nil => simp [feed]
  | cons x a ih =>
    cases x with
    | key k => simp [feed, ih]
    | head k => simp [feed, ih]
    | tail k => simp [feed, ih]

/-- every event finds the schedule in time: time does not go backwards, and while the parser is
    in the middle of a sequence the event happens before the flush deadline, i.e. less than
    `ttimeoutlen` after the last read -/
def timely (p : P) : List Ev → Bool
  | [] => true
  | e :: es =>
    decide (p.now ≤ e.time) &&
    (match p.pending, p.deadline with
      | some _, some d => decide (e.time < d)
      | _, _ => true) &&
    timely (step p e) es

/-- a sequence in progress always has a running flush timer -/
def Armed (p : P) : Prop := p.pending.isSome = true → p.deadline.isSome = true

theorem armed_init (T : Nat) : Armed (P.init T) := by intro h; simp [P.init] at h

/-- **The flush never fires inside a sequence whose parts arrive less than `ttimeoutlen` after the
    previous read**: the delivered keys are the time-free parse of the concatenated stream. -/
theorem timely_run_is_timeless (evs : List Ev) : ∀ (p : P), Armed p → timely p evs = true →
    (run p evs).out = p.out ++ (feed p.pending (pieces evs)).1 ∧
    (run p evs).pending = (feed p.pending (pieces evs)).2 := by
  induction evs with
  | nil => intro p _ _; simp [run, pieces, feed]
  | cons e es ih =>
    intro p ha ht
    simp only [timely, Bool.and_eq_true] at ht
    obtain ⟨⟨_, hclose⟩, hrest⟩ := ht
    cases e with
    | read t c =>
      have harm : Armed (step p (.read t c)) := by intro _; simp [step]
      obtain ⟨i1, i2⟩ := ih _ harm hrest
      simp only [run, pieces, feed_append]
      rw [i1, i2]
      simp [step, List.append_assoc]
    | timer t =>
      -- a timer event never changes what was delivered nor the parser state
      have key : (step p (.timer t)).out = p.out ∧ (step p (.timer t)).pending = p.pending ∧
          Armed (step p (.timer t)) := by
        cases hd : p.deadline with
        | none =>
          refine ⟨by simp [step, hd], by simp [step, hd], ?_⟩
          intro hp
          have : p.pending.isSome = true := by simpa [step, hd] using hp
          have := ha this
          simp [hd] at this
        | some d =>
          cases hp : p.pending with
          | none =>
            by_cases hdt : d ≤ t
            · exact ⟨by simp [step, hd, hdt, hp], by simp [step, hd, hdt, hp],
                by intro h; simp [step, hd, hdt] at h⟩
            · exact ⟨by simp [step, hd, hdt], by simp [step, hd, hdt, hp],
                by intro h; simp [step, hd, hdt, hp] at h⟩
          | some k =>
            have hlt : t < d := by
              have := hclose; simp only [hp, hd, Ev.time] at this; exact of_decide_eq_true this
            have hdt : ¬ d ≤ t := by omega
            exact ⟨by simp [step, hd, hdt], by simp [step, hd, hdt, hp],
              by intro _; simp [step, hd, hdt]⟩
      obtain ⟨k1, k2, k3⟩ := key
      obtain ⟨i1, i2⟩ := ih _ k3 hrest
      simp only [run, pieces]
      rw [i1, i2, k1, k2]
      exact ⟨rfl, rfl⟩

def Out.clean : Out → Bool
  | .key _ => true
  | _ => false

/-- **A sequence split across reads closer than `ttimeoutlen` apart is never flushed in between**:
    if the stream itself is sound (its time-free parse has no lone Escape and no sequence rest read
    as text), a timely delivery of it — whatever the chunking, whatever was delivered before, however
    often the loop looks at its timers — contains none either. -/
theorem split_sequence_never_flushed (T : Nat) (evs : List Ev)
    (hs : ((feed none (pieces evs)).1.all Out.clean) = true)
    (ht : timely (P.init T) evs = true) :
    ((run (P.init T) evs).out.all Out.clean) = true := by
  have := (timely_run_is_timeless evs (P.init T) (armed_init T) ht).1
  rw [this]; simpa [P.init] using hs

/-- two timely schedules that deliver the same bytes deliver the same keys -/
theorem timing_and_chunking_independent (T₁ T₂ : Nat) (evs₁ evs₂ : List Ev)
    (hp : pieces evs₁ = pieces evs₂)
    (h1 : timely (P.init T₁) evs₁ = true) (h2 : timely (P.init T₂) evs₂ = true) :
    (run (P.init T₁) evs₁).out = (run (P.init T₂) evs₂).out := by
  rw [(timely_run_is_timeless evs₁ _ (armed_init T₁) h1).1,
      (timely_run_is_timeless evs₂ _ (armed_init T₂) h2).1, hp]
  simp [P.init]

/-! ### non-vacuity and the negative witness -/
section examples

/-- 'a' @0, 'b' + first half of Left @7, timers looked at @10 and @12, rest of Left + 'X' @13
    (ttimeoutlen = 10): every gap is shorter than ttimeoutlen -/
def exBurst : List Ev :=
  [.read 0 [.key (.other 97)], .read 7 [.key (.other 98), .head 5], .timer 10, .timer 12,
   .read 13 [.tail 5, .key (.other 88)], .timer 30]

example : timely (P.init 10) exBurst = true := by decide
example : (run (P.init 10) exBurst).out =
    [.key (.other 97), .key (.other 98), .key (.other 5), .key (.other 88)] := by decide
example : ((feed none (pieces exBurst)).1.all Out.clean) = true := by decide
-- the flush does fire when the rest comes too late (not timely), and at a key boundary it is harmless
example : (run (P.init 10) [.read 0 [.head 5], .timer 10, .read 11 [.tail 5]]).out =
    [.esc, .junk 5] := by decide
example : timely (P.init 10) [.read 0 [.head 5], .timer 10, .read 11 [.tail 5]] = false := by decide
example : (run (P.init 10) [.read 0 [.key .accept], .timer 10, .read 11 [.key .cpr]]).out =
    [.key .accept, .key .cpr] := by decide

/-- `read_from_input` with a flush timer that is only started when none is running
    (`if flush_task is None or flush_task.done()`, seeded/C17-c) -/
def stepStale (p : P) : Ev → P
  | .read t c =>
    let (o, pend) := feed p.pending c
    { p with now := t, pending := pend, out := p.out ++ o,
             deadline := match p.deadline with | some d => some d | none => some (t + p.T) }
  | e => step p e

def runStale (p : P) : List Ev → P
  | [] => p
  | e :: es => runStale (stepStale p e) es

/-- the same timely burst: the stale timer of the first read fires at 10 and breaks the Left arrow -/
theorem stale_timer_breaks_sequence :
    (runStale (P.init 10) exBurst).out =
      [.key (.other 97), .key (.other 98), .esc, .junk 5, .key (.other 88)] := by decide

end examples

/-! ### the DEFAULT timers of the current tree (regenerated from `Application()` on every run)

  The theorems above hold for every `ttimeoutlen`; what they promise in practice depends on its
  value: a terminal (or a pipe writer) that pauses inside an escape sequence for less than the
  default is safe.  The documented defaults are pinned here — a change of the default breaks the
  build at the pin and is then shown on the real code by the real-time cases of the harness. -/

/-- pin: `Application().ttimeoutlen == 0.5` seconds (Vim's `ttimeoutlen`) -/
theorem gen_ttimeoutlen_default : Gen.C17.ttimeoutlenMs = 500 := by decide

/-- pin: `Application().timeoutlen == 1.0` second (Vim's `timeoutlen`, the key processor's flush) -/
theorem gen_timeoutlen_default : Gen.C17.timeoutlenMs = 1000 := by decide

/-- **With the default `ttimeoutlen` of the current tree, a sequence whose parts arrive less than
    that default after the previous read is never flushed in between** (time in milliseconds). -/
theorem split_sequence_never_flushed_default (evs : List Ev)
    (hs : ((feed none (pieces evs)).1.all Out.clean) = true)
    (ht : timely (P.init Gen.C17.ttimeoutlenMs) evs = true) :
    ((run (P.init Gen.C17.ttimeoutlenMs) evs).out.all Out.clean) = true :=
  split_sequence_never_flushed Gen.C17.ttimeoutlenMs evs hs ht

/-- a 150 ms pause inside Left (`ESC` | `[D`) and inside a cursor-position report, the loop looking at
    its timers every 50 ms: what the real-time cases of the harness do -/
def exPause : List Ev :=
  [.read 0 [.key (.other 97), .key (.other 98), .head 1114114], .timer 50, .timer 100,
   .read 150 [.tail 1114114, .key (.other 99), .key .accept], .timer 700]

-- … is timely under the default, and delivers the keys of the stream
example : timely (P.init Gen.C17.ttimeoutlenMs) exPause = true := by decide
example : (run (P.init Gen.C17.ttimeoutlenMs) exPause).out =
    [.key (.other 97), .key (.other 98), .key (.other 1114114), .key (.other 99), .key .accept] := by decide

/-- negative witness (seeded/C17-l): with a `ttimeoutlen` of 50 ms the same delivery is not timely
    any more, the flush fires inside the sequence: a lone Escape and the rest of the sequence as text -/
theorem short_ttimeoutlen_breaks_paused_sequence :
    timely (P.init 50) exPause = false ∧
    (run (P.init 50) exPause).out =
      [.key (.other 97), .key (.other 98), .esc, .junk 1114114, .key (.other 99), .key .accept] := by decide

end Ptk.C17.Flush
