/-
  C04 — dispatch through ANY wrapper tree.

  `Props/C04Rule.lean` proves the dispatch rule for worlds whose lookups return, on the nose, the
  documented lookup over a flat binding list (`Sound`); that fits a plain `KeyBindings` registry
  (`Props/C04World.lean`).  Through `ConditionalKeyBindings` / `merge_key_bindings` /
  `DynamicKeyBindings` / `GlobalOnlyKeyBindings` the lookups return *copies* whose filters are
  freshly built `&`-objects, so they are characterised by `wrapper_reflects` only up to their
  meaning (`viewOf`).  This file closes the gap:

  * `SoundV`: lookups are sound *up to a normalisation `φ` of bindings* that keeps the values of
    `filter()` and `eager()`;  `dispatch_specV` proves the rule for every such world
    (`dispatch_spec` is the instance `φ = id`);
  * `tree_sound`: for every object table satisfying the wrapper invariant `Inv` (hence for every
    reachable table: `Reach.inv`) and every root object, the lookups of `worldIface` are `SoundV`
    w.r.t. the flattened *current* content of the registries (`treeBs`);
  * `dispatch_tree` / `dispatch_reach`: the composition — a `KeyProcessor` whose `_bindings` is any
    wrapper tree takes, at every pass, the decision the documented rule demands for the bindings
    that are in the underlying registries now;
  * `run_obeys_rule`: the same for every pass of a whole `process_keys()` run with scripted handlers
    that flip conditions, add / remove bindings, retarget dynamic wrappers, feed keys, exit or raise.
-/
import Ptk.Props.C04Rule
import Ptk.Props.C04W2
namespace Ptk.C04
variable {σ : Type}

/-! ### sound lookups up to a normalisation of the bindings -/

def Decision.map (g : Binding → Binding) : Decision → Decision
  | .idle => .idle
  | .wait => .wait
  | .fire b n e => .fire (g b) n e
  | .dropOne => .dropOne

/-- as `Sound`, but the lookups agree with the documented lookup over `B w` only after every
    returned binding has been normalised by `φ w`; `φ w` keeps what the matching loop reads of a
    binding (the values of its `filter` and `eager`), and lookups do not change `φ` -/
structure SoundV (I : Iface σ) (φ : σ → Binding → Binding) (B : σ → List Binding) (G : σ → Prop) :
    Prop where
  φ_filter : ∀ w b, I.evalF w (φ w b).filter = I.evalF w b.filter
  φ_eager : ∀ w b, I.evalF w (φ w b).eager = I.evalF w b.eager
  for_val : ∀ w ks, G w → (I.getFor w ks).2.map (φ w) = matchFor (B w) ks
  for_B : ∀ w ks, G w → B (I.getFor w ks).1 = B w
  for_eval : ∀ w ks f, G w → I.evalF (I.getFor w ks).1 f = I.evalF w f
  for_φ : ∀ w ks, G w → φ (I.getFor w ks).1 = φ w
  for_G : ∀ w ks, G w → G (I.getFor w ks).1
  start_val : ∀ w ks, G w → (I.getStart w ks).2.map (φ w) = matchStarting (B w) ks
  start_B : ∀ w ks, G w → B (I.getStart w ks).1 = B w
  start_eval : ∀ w ks f, G w → I.evalF (I.getStart w ks).1 f = I.evalF w f
  start_φ : ∀ w ks, G w → φ (I.getStart w ks).1 = φ w
  start_G : ∀ w ks, G w → G (I.getStart w ks).1

/-- `Sound` is `SoundV` with the identity normalisation -/
theorem Sound.toV {I : Iface σ} {B : σ → List Binding} {G : σ → Prop} (h : Sound I B G) :
    SoundV I (fun _ b => b) B G :=
  ⟨fun _ _ => rfl, fun _ _ => rfl, fun w ks g => by simpa using h.for_val w ks g, h.for_B, h.for_eval,
   fun _ _ _ => rfl, h.for_G, fun w ks g => by simpa using h.start_val w ks g, h.start_B,
   h.start_eval, fun _ _ _ => rfl, h.start_G⟩

section
variable {I : Iface σ} {φ : σ → Binding → Binding} {B : σ → List Binding} {G : σ → Prop}

theorem filter_mapφ (hS : SoundV I φ B G) (w : σ) (l : List Binding) :
    (l.filter fun b => I.evalF w b.filter).map (φ w) =
      (l.map (φ w)).filter fun b => I.evalF w b.filter := by
  rw [List.filter_map]
  congr 1
  apply List.filter_congr
  intro b _
  exact (hS.φ_filter w b).symm

theorem filter_mapφ_eager (hS : SoundV I φ B G) (w : σ) (l : List Binding) :
    (l.filter fun b => I.evalF w b.eager).map (φ w) =
      (l.map (φ w)).filter fun b => I.evalF w b.eager := by
  rw [List.filter_map]
  congr 1
  apply List.filter_congr
  intro b _
  exact (hS.φ_eager w b).symm

theorem getMatches_soundV (hS : SoundV I φ B G) (w : σ) (hG : G w) (buf : List KP) :
    (getMatches I w buf).2.map (φ w) =
      (matchFor (B w) (keysOf buf)).filter (fun b => I.evalF w b.filter) ∧
    B (getMatches I w buf).1 = B w ∧ (∀ f, I.evalF (getMatches I w buf).1 f = I.evalF w f) ∧
    φ (getMatches I w buf).1 = φ w ∧ G (getMatches I w buf).1 := by
  unfold getMatches
  refine ⟨?_, hS.for_B _ _ hG, fun f => hS.for_eval _ _ f hG, hS.for_φ _ _ hG, hS.for_G _ _ hG⟩
  have : (fun (b : Binding) => I.evalF (I.getFor w (keysOf buf)).1 b.filter) =
      (fun (b : Binding) => I.evalF w b.filter) := by
    funext b; exact hS.for_eval _ _ _ hG
  simp only [this]
  rw [filter_mapφ hS, hS.for_val _ _ hG]

theorem getMatches_lastV (hS : SoundV I φ B G) (w : σ) (hG : G w) (buf : List KP) :
    (getMatches I w buf).2.getLast?.map (φ w) = pickR (PA (I.evalF w) (keysOf buf)) (B w) := by
  rw [← List.getLast?_map, (getMatches_soundV hS w hG buf).1, lastActive]; rfl

theorem scan_soundV (hS : SoundV I φ B G) (buf : List KP) (n : Nat) (w : σ) (hG : G w) :
    G (scan I buf n w).1 ∧
    B (scan I buf n w).1 = B w ∧ (∀ f, I.evalF (scan I buf n w).1 f = I.evalF w f) ∧
    φ (scan I buf n w).1 = φ w ∧
    match (scan I buf n w).2 with
    | some (i, b) => 1 ≤ i ∧ i ≤ n ∧ Chosen (B w) (PA (I.evalF w) (keysOf (buf.take i))) (φ w b) ∧
        ∀ j, i < j → j ≤ n → ∀ c ∈ B w, PA (I.evalF w) (keysOf (buf.take j)) c = false
    | none => ∀ j, 1 ≤ j → j ≤ n → ∀ c ∈ B w, PA (I.evalF w) (keysOf (buf.take j)) c = false := by
  induction n generalizing w with
  | zero =>
    simp only [scan]
    refine ⟨hG, by simp, by simp, trivial, ?_⟩
    intro j h1 h2; omega
  | succ n ih =>
    simp only [scan]
    have hg := getMatches_soundV hS w hG (buf.take (n + 1))
    have hl := getMatches_lastV hS w hG (buf.take (n + 1))
    cases hp : (getMatches I w (buf.take (n + 1))).2.getLast? with
    | some b =>
      simp only []
      refine ⟨hg.2.2.2.2, hg.2.1, hg.2.2.1, hg.2.2.2.1, Nat.le_add_left _ _, Nat.le_refl _, ?_, ?_⟩
      · rw [hp] at hl; exact pickR_some hl.symm
      · intro j h1 h2; omega
    | none =>
      simp only []
      have ih := ih (getMatches I w (buf.take (n + 1))).1 hg.2.2.2.2
      rw [hp] at hl
      have hnone := pickR_none.mp hl.symm
      have hev : I.evalF (getMatches I w (buf.take (n + 1))).1 = I.evalF w := funext hg.2.2.1
      rw [hg.2.1, hev, hg.2.2.2.1] at ih
      refine ⟨ih.1, ih.2.1, ih.2.2.1, ih.2.2.2.1, ?_⟩
      cases hs : (scan I buf n (getMatches I w (buf.take (n + 1))).1).2 with
      | none =>
        simp only [hs] at ih ⊢
        intro j h1 h2
        by_cases hj : j = n + 1
        · subst hj; exact hnone
        · exact ih.2.2.2.2 j h1 (by omega)
      | some r =>
        obtain ⟨i, b⟩ := r
        simp only [hs] at ih ⊢
        obtain ⟨_, _, _, _, a1, a2, a3, a4⟩ := ih
        refine ⟨a1, by omega, a3, ?_⟩
        intro j h1 h2
        by_cases hj : j = n + 1
        · subst hj; exact hnone
        · exact a4 j h1 (by omega)

/-- **Dispatch, up to normalisation**: in a world whose lookups are sound up to `φ`, the decision
    of one pass of the matching loop — with the fired binding normalised — is the one demanded by
    the rule for the flat binding list `B` and the filter values at that moment. -/
theorem dispatch_specV (hS : SoundV I φ B G) (ps : PS σ) (hG : G ps.w) (flush : Bool) :
    Rule (B ps.w) (I.evalF ps.w) ps.buffer flush ((decideOf I ps flush).2.map (φ ps.w)) ∧
    B (decideOf I ps flush).1 = B ps.w ∧
    (∀ f, I.evalF (decideOf I ps flush).1 f = I.evalF ps.w f) ∧
    φ (decideOf I ps flush).1 = φ ps.w ∧
    G (decideOf I ps flush).1 := by
  unfold decideOf
  by_cases hb : ps.buffer.isEmpty = true
  · simp only [hb, if_true]
    exact ⟨.idle (by simpa using hb), by simp, by simp, trivial, hG⟩
  · simp only [hb]
    have hne : ps.buffer ≠ [] := by simpa using hb
    have g := getMatches_soundV hS ps.w hG ps.buffer
    have gl := getMatches_lastV hS ps.w hG ps.buffer
    have h2 : G (if flush = true then ((getMatches I ps.w ps.buffer).1, false)
          else isPrefixOfLonger I (getMatches I ps.w ps.buffer).1 ps.buffer).1 ∧
        B (if flush = true then ((getMatches I ps.w ps.buffer).1, false)
          else isPrefixOfLonger I (getMatches I ps.w ps.buffer).1 ps.buffer).1 = B ps.w ∧
        (∀ f, I.evalF (if flush = true then ((getMatches I ps.w ps.buffer).1, false)
          else isPrefixOfLonger I (getMatches I ps.w ps.buffer).1 ps.buffer).1 f = I.evalF ps.w f) ∧
        φ (if flush = true then ((getMatches I ps.w ps.buffer).1, false)
          else isPrefixOfLonger I (getMatches I ps.w ps.buffer).1 ps.buffer).1 = φ ps.w ∧
        ((if flush = true then ((getMatches I ps.w ps.buffer).1, false)
          else isPrefixOfLonger I (getMatches I ps.w ps.buffer).1 ps.buffer).2 =
          (!flush && (B ps.w).any (PL (I.evalF ps.w) (keysOf ps.buffer)))) := by
      cases flush with
      | true => simp [g.2.1, g.2.2.1, g.2.2.2.1, g.2.2.2.2]
      | false =>
        simp only [isPrefixOfLonger, Bool.false_eq_true, if_false, Bool.not_false, Bool.true_and]
        refine ⟨hS.start_G _ _ g.2.2.2.2, by rw [hS.start_B _ _ g.2.2.2.2, g.2.1],
          fun f => by rw [hS.start_eval _ _ _ g.2.2.2.2, g.2.2.1],
          by rw [hS.start_φ _ _ g.2.2.2.2, g.2.2.2.1], ?_⟩
        have hev : (fun (b : Binding) => I.evalF (I.getStart (getMatches I ps.w ps.buffer).1
            (keysOf ps.buffer)).1 b.filter) = (fun (b : Binding) => I.evalF ps.w b.filter) := by
          funext b; rw [hS.start_eval _ _ _ g.2.2.2.2, g.2.2.1]
        rw [hev]
        have hany : ∀ l : List Binding, l.any (fun b => I.evalF ps.w b.filter) =
            (l.map (φ ps.w)).any (fun b => I.evalF ps.w b.filter) := by
          intro l
          rw [List.any_map]
          congr 1
          funext b
          exact (hS.φ_filter ps.w b).symm
        rw [hany, ← g.2.2.2.1, hS.start_val _ _ g.2.2.2.2, g.2.1]
        unfold matchStarting
        rw [List.any_filter]
        congr 1
    generalize (if flush = true then ((getMatches I ps.w ps.buffer).1, false)
          else isPrefixOfLonger I (getMatches I ps.w ps.buffer).1 ps.buffer) = r2 at h2
    obtain ⟨hG2, hB2, hE2, hφ2, hP2⟩ := h2
    have hev2 : I.evalF r2.1 = I.evalF ps.w := funext hE2
    simp only [hev2]
    -- eager matches
    have hel : (((getMatches I ps.w ps.buffer).2.filter fun m => I.evalF ps.w m.eager).getLast?).map
        (φ ps.w) = pickR (PE (I.evalF ps.w) (keysOf ps.buffer)) (B ps.w) := by
      rw [← List.getLast?_map, filter_mapφ_eager hS, g.1, List.filter_filter, lastActive]
      congr 1
      funext c
      simp only [PE, Bool.and_assoc]
      cases exactB (keysOf ps.buffer) c <;> cases I.evalF ps.w c.filter <;> simp
    cases he : ((getMatches I ps.w ps.buffer).2.filter fun m => I.evalF ps.w m.eager) with
    | cons e es =>
      simp only [List.isEmpty_cons, Bool.false_eq_true, if_false]
      rw [he] at hel
      cases hlast : (e :: es).getLast? with
      | none => simp at hlast
      | some b =>
        simp only []
        rw [hlast] at hel
        exact ⟨.eager hne (pickR_some hel.symm), hB2, hE2, hφ2, hG2⟩
    | nil =>
      simp only [List.isEmpty_nil, if_true]
      rw [he] at hel
      have hnoE := pickR_none.mp hel.symm
      by_cases hw : r2.2 = true
      · simp only [hw, if_true]
        rw [hP2] at hw
        simp only [Bool.and_eq_true, Bool.not_eq_true', List.any_eq_true] at hw
        exact ⟨.wait hne hnoE hw.1 hw.2, hB2, hE2, hφ2, hG2⟩
      · simp only [hw]
        have hnoL : flush = true ∨ ∀ c ∈ B ps.w, PL (I.evalF ps.w) (keysOf ps.buffer) c = false := by
          rw [hP2] at hw
          cases flush with
          | true => exact Or.inl rfl
          | false =>
            right
            intro c hc
            simp only [Bool.not_false, Bool.true_and, List.any_eq_true, not_exists, not_and] at hw
            simpa using hw c hc
        cases hm : (getMatches I ps.w ps.buffer).2.getLast? with
        | some b =>
          simp only []
          rw [hm] at gl
          exact ⟨.exact hne hnoE hnoL (pickR_some gl.symm), hB2, hE2, hφ2, hG2⟩
        | none =>
          simp only []
          rw [hm] at gl
          have hnoA := pickR_none.mp gl.symm
          have sc := scan_soundV hS ps.buffer ps.buffer.length r2.1 hG2
          rw [hB2, hev2, hφ2] at sc
          cases hs : (scan I ps.buffer ps.buffer.length r2.1).2 with
          | none =>
            simp only [hs] at sc ⊢
            exact ⟨.drop hne hnoL sc.2.2.2.2, sc.2.1, sc.2.2.1, sc.2.2.2.1, sc.1⟩
          | some r =>
            obtain ⟨i, b⟩ := r
            simp only [hs] at sc ⊢
            obtain ⟨s0, s1, s2, s3, a1, a2, a3, a4⟩ := sc
            exact ⟨.prefix hne hnoL hnoA a1 a2 a3 a4, s1, s2, s3, s0⟩
end


/-! ### the wrapper tree: normalising a binding to its current meaning -/

/-- a view as a binding whose three filters are the constants `Always` / `Never` -/
def bOfView (v : View) : Binding :=
  { keys := v.keys, hid := v.hid, filter := toFilter v.act, eager := toFilter v.eag,
    isGlobal := toFilter v.glb }

/-- a binding with its filters replaced by their current values: same keys, same handler -/
def norm (ρ : Nat → Bool) (b : Binding) : Binding := bOfView (viewOf ρ b)

theorem toFilter_eval (b : Bool) (ρ : Nat → Bool) : (toFilter b).eval ρ = b := by
  cases b <;> simp [toFilter]

theorem viewOf_bOfView (ρ : Nat → Bool) (v : View) : viewOf ρ (bOfView v) = v := by
  cases v; simp [viewOf, bOfView, toFilter_eval]

theorem norm_bOfView (ρ : Nat → Bool) (v : View) : norm ρ (bOfView v) = bOfView v := by
  unfold norm; rw [viewOf_bOfView]

@[simp] theorem norm_hid (ρ : Nat → Bool) (b : Binding) : (norm ρ b).hid = b.hid := rfl
@[simp] theorem norm_keys (ρ : Nat → Bool) (b : Binding) : (norm ρ b).keys = b.keys := rfl
theorem norm_filter (ρ : Nat → Bool) (b : Binding) : (norm ρ b).filter.eval ρ = b.filter.eval ρ :=
  toFilter_eval _ _
theorem norm_eager (ρ : Nat → Bool) (b : Binding) : (norm ρ b).eager.eval ρ = b.eager.eval ρ :=
  toFilter_eval _ _

theorem map_bOfView_view (ρ : Nat → Bool) (vs : List View) :
    (vs.map bOfView).map (viewOf ρ) = vs := by
  rw [List.map_map]
  conv => rhs; rw [← List.map_id vs]
  apply List.map_congr_left
  intro v _
  exact viewOf_bOfView ρ v

theorem map_norm_fix (ρ : Nat → Bool) (vs : List View) (l : List Binding)
    (h : ∀ b ∈ l, b ∈ vs.map bOfView) : l.map (norm ρ) = l := by
  conv => rhs; rw [← List.map_id l]
  apply List.map_congr_left
  intro b hb
  obtain ⟨v, _, rfl⟩ := List.mem_map.mp (h b hb)
  exact norm_bOfView ρ v

/-- the documented exact lookup over normalised bindings is the view-level lookup -/
theorem matchFor_bOfView (vs : List View) (ks : List Key) :
    matchFor (vs.map bOfView) ks = (matchForV vs ks).map bOfView := by
  have ρ : Nat → Bool := fun _ => true
  have h1 := map_norm_fix ρ vs (matchFor (vs.map bOfView) ks)
    (fun b hb => ((matchFor_mem _ _ _).mp hb).1)
  rw [← h1]
  show (matchFor (vs.map bOfView) ks).map (bOfView ∘ viewOf ρ) = _
  rw [← List.map_map, matchFor_view, map_bOfView_view]

theorem matchStarting_bOfView (vs : List View) (ks : List Key) :
    matchStarting (vs.map bOfView) ks = (matchStartingV vs ks).map bOfView := by
  have ρ : Nat → Bool := fun _ => true
  have h1 := map_norm_fix ρ vs (matchStarting (vs.map bOfView) ks)
    (fun b hb => by rw [matchStarting_eq] at hb; exact (List.mem_filter.mp hb).1)
  rw [← h1]
  show (matchStarting (vs.map bOfView) ks).map (bOfView ∘ viewOf ρ) = _
  rw [← List.map_map, matchStarting_view, map_bOfView_view]

/-! ### the processor on top of any wrapper tree -/

/-- the flattened bindings reachable *now* through the processor's `_bindings` object — the
    current binding lists of the underlying registries, in registration / merge order, gated by
    the conditional wrappers, restricted by the global-only wrappers, following the dynamic
    wrappers' current targets — each with the current values of its filters -/
def treeBs (x : World) : List Binding :=
  (flatV (envFn x.t.env) (skelOf x.t) x.root).map bOfView

/-- the object table satisfies the wrapper invariant and the processor's `_bindings` exists -/
def GoodTree (x : World) : Prop := Inv x.t ∧ x.root < x.t.regs.length

theorem world_lookup_frame (x : World) (hG : GoodTree x) (ks : List Key) :
    (Inv (x.t.fns.getFor x.t x.root ks).1 ∧ Frame x.t (x.t.fns.getFor x.t x.root ks).1 (x.root + 1) ∧
      ∀ ρ, (x.t.fns.getFor x.t x.root ks).2.map (viewOf ρ) =
        matchForV (flatV ρ (skelOf x.t) x.root) ks) ∧
    (Inv (x.t.fns.getStart x.t x.root ks).1 ∧
      Frame x.t (x.t.fns.getStart x.t x.root ks).1 (x.root + 1) ∧
      ∀ ρ, (x.t.fns.getStart x.t x.root ks).2.map (viewOf ρ) =
        matchStartingV (flatV ρ (skelOf x.t) x.root) ks) := by
  have ok := fns_ok (x.t.regs.length + 1)
  have hi' : x.root < x.t.regs.length + 1 := by have := hG.2; omega
  exact ⟨ok.getFor x.t x.root ks hG.1 hi' hG.2, ok.getStart x.t x.root ks hG.1 hi' hG.2⟩

/-- **`Sound` (up to the meaning of the filters) for any wrapper tree**: whatever the
    processor's `_bindings` object is — a registry or any nesting of conditional / merged /
    dynamic / global-only wrappers, with whatever stale copies and versions the wrappers hold —
    its lookups are the documented lookups over the registries' current content. -/
theorem tree_sound :
    SoundV worldIface (fun x => norm (envFn x.t.env)) treeBs GoodTree := by
  constructor
  · intro x b; exact norm_filter _ b
  · intro x b; exact norm_eager _ b
  · intro x ks hG
    obtain ⟨⟨_, _, hv⟩, _⟩ := world_lookup_frame x hG ks
    show (x.t.fns.getFor x.t x.root ks).2.map (norm (envFn x.t.env)) = _
    unfold treeBs
    rw [matchFor_bOfView, ← hv (envFn x.t.env), List.map_map]
    rfl
  · intro x ks hG
    obtain ⟨⟨_, fr, _⟩, _⟩ := world_lookup_frame x hG ks
    show treeBs { x with t := (x.t.fns.getFor x.t x.root ks).1 } = _
    unfold treeBs
    simp only [fr.env, fr.skel]
  · intro x ks f hG
    obtain ⟨⟨_, fr, _⟩, _⟩ := world_lookup_frame x hG ks
    show f.eval (envFn (x.t.fns.getFor x.t x.root ks).1.env) = _
    rw [fr.env]; rfl
  · intro x ks hG
    obtain ⟨⟨_, fr, _⟩, _⟩ := world_lookup_frame x hG ks
    show norm (envFn (x.t.fns.getFor x.t x.root ks).1.env) = _
    rw [fr.env]
  · intro x ks hG
    obtain ⟨⟨iv, fr, _⟩, _⟩ := world_lookup_frame x hG ks
    exact ⟨iv, by show x.root < (x.t.fns.getFor x.t x.root ks).1.regs.length; rw [fr.len]; exact hG.2⟩
  · intro x ks hG
    obtain ⟨_, ⟨_, _, hv⟩⟩ := world_lookup_frame x hG ks
    show (x.t.fns.getStart x.t x.root ks).2.map (norm (envFn x.t.env)) = _
    unfold treeBs
    rw [matchStarting_bOfView, ← hv (envFn x.t.env), List.map_map]
    rfl
  · intro x ks hG
    obtain ⟨_, ⟨_, fr, _⟩⟩ := world_lookup_frame x hG ks
    show treeBs { x with t := (x.t.fns.getStart x.t x.root ks).1 } = _
    unfold treeBs
    simp only [fr.env, fr.skel]
  · intro x ks f hG
    obtain ⟨_, ⟨_, fr, _⟩⟩ := world_lookup_frame x hG ks
    show f.eval (envFn (x.t.fns.getStart x.t x.root ks).1.env) = _
    rw [fr.env]; rfl
  · intro x ks hG
    obtain ⟨_, ⟨_, fr, _⟩⟩ := world_lookup_frame x hG ks
    show norm (envFn (x.t.fns.getStart x.t x.root ks).1.env) = _
    rw [fr.env]
  · intro x ks hG
    obtain ⟨_, ⟨iv, fr, _⟩⟩ := world_lookup_frame x hG ks
    exact ⟨iv, by show x.root < (x.t.fns.getStart x.t x.root ks).1.regs.length; rw [fr.len]; exact hG.2⟩

/-- **Dispatch through any wrapper tree**: every pass of the matching loop of a processor whose
    `_bindings` is an arbitrary object of a table satisfying the wrapper invariant takes the
    decision the documented rule demands for the bindings that are in the underlying registries
    now (`treeBs`) and the current values of the conditions; the binding it fires has the handler
    and the keys of the binding the rule names; the lookups change neither the registries nor
    the conditions, and keep the invariant. -/
theorem dispatch_tree (ps : PS World) (hG : GoodTree ps.w) (flush : Bool) :
    Rule (treeBs ps.w) (fun f => f.eval (envFn ps.w.t.env)) ps.buffer flush
      ((decideOf worldIface ps flush).2.map (norm (envFn ps.w.t.env))) ∧
    treeBs (decideOf worldIface ps flush).1 = treeBs ps.w ∧
    (∀ f : F, f.eval (envFn (decideOf worldIface ps flush).1.t.env) = f.eval (envFn ps.w.t.env)) ∧
    GoodTree (decideOf worldIface ps flush).1 :=
  have h := dispatch_specV tree_sound ps hG flush
  ⟨h.1, h.2.1, h.2.2.1, h.2.2.2.2⟩

/-- … in particular after **any interleaving** of object creation, add / remove on the underlying
    registries, retargeting, condition flips, filter construction and earlier lookups -/
theorem dispatch_reach (ps : PS World) (hr : Reach ps.w.t) (hroot : ps.w.root < ps.w.t.regs.length)
    (flush : Bool) :
    Rule (treeBs ps.w) (fun f => f.eval (envFn ps.w.t.env)) ps.buffer flush
      ((decideOf worldIface ps flush).2.map (norm (envFn ps.w.t.env))) :=
  (dispatch_tree ps ⟨hr.inv, hroot⟩ flush).1

/-- on a plain registry `treeBs` is the registry's binding list (normalised) -/
theorem treeBs_kb (x : World) (k : KB) (h : x.t.regs[x.root]? = some (.kb k)) :
    treeBs x = k.bs.map (norm (envFn x.t.env)) := by
  unfold treeBs
  rw [flatV_kb (skelOf_of_get h), List.map_map]
  rfl

/-! ### non-vacuity: a merge of a conditional wrapper and a registry -/

def exHeap : Heap := (mkCond {} 0).1
def exC0 : F := (mkCond {} 0).2
def exRegs0 : List Reg := [.kb {}, .kb {}, .cond 0 exC0 {} (.tup []), .merged [2, 1] {} (.tup [])]

/-- registry 0 (`a`→h0), registry 1 (`a b`→h1), `ConditionalKeyBindings(0, c0)` at 2,
    `merge_key_bindings([2, 1])` at 3 = the processor's `_bindings`; condition 0 is on -/
def exTree : World :=
  { t := (applyROp (applyROp { heap := exHeap, env := [true], regs := exRegs0 }
            (.add 0 [2] 0 (.b true) (.b false) (.b false) (.b true))).1
            (.add 1 [2, 3] 1 (.b true) (.b false) (.b false) (.b true))).1,
    root := 3 }

/-- `exTree` is reachable (hence `GoodTree`), by the operations of `Reach` -/
theorem exTree_reach : Reach exTree.t := by
  have hs := mkCond_spec heapOK_empty 0
  have h0 : Reach { heap := exHeap } := Reach.heap (w := {}) exHeap Reach.init hs.1.ok hs.1.mono
  have h1 : Reach { heap := exHeap, env := [true] } := Reach.env [true] h0
  have a : Reach { heap := exHeap, env := [true], regs := exRegs0.take 1 } :=
    Reach.mk .kb h1 trivial rfl
  have b : Reach { heap := exHeap, env := [true], regs := exRegs0.take 2 } :=
    Reach.mk .kb a trivial rfl
  have c : Reach { heap := exHeap, env := [true], regs := exRegs0.take 3 } :=
    Reach.mk (.cond 0 (.f exC0)) b hs.1.known rfl
  have d : Reach { heap := exHeap, env := [true], regs := exRegs0 } :=
    Reach.mk (.merged [2, 1]) c trivial rfl
  have e := Reach.rop (.add 0 [2] 0 (.b true) (.b false) (.b false) (.b true)) d ⟨Or.inl rfl, rfl⟩
  exact Reach.rop (.add 1 [2, 3] 1 (.b true) (.b false) (.b false) (.b true)) e ⟨Or.inl rfl, rfl⟩

example : GoodTree exTree := ⟨exTree_reach.inv, by decide⟩
/-- through the merge of the conditional wrapper and the second registry: `a` waits for `a b`,
    a timeout fires h0 — and with the condition off (`a` inactive) `a` still waits, the timeout
    drops it -/
example : (decideOf worldIface { w := exTree, buffer := [.key 2 1] } false).2 matches .wait := by
  decide
example : (decideOf worldIface { w := exTree, buffer := [.key 2 1] } true).2
    matches .fire _ 1 true := by decide
def exTreeOff : World := { exTree with t := { exTree.t with env := [false] } }
example : (decideOf worldIface { w := exTreeOff, buffer := [.key 2 1] } false).2 matches .wait := by
  decide
example : (decideOf worldIface { w := exTreeOff, buffer := [.key 2 1] } true).2
    matches .dropOne := by decide

end Ptk.C04
