/-
  C04 — property theorems for the key processor model (`Ptk.Model.C04`), generic in the
  world interface `I : Iface σ` (any lookups, any filter values, any handlers):
  conservation of keys, reset on a raising handler, the dispatch rule.
-/
import Ptk.Model.C04
namespace Ptk.C04
variable {σ : Type}

/-! ### bookkeeping over the observation log -/

/-- keys handed to handlers that returned, dropped keys, and keys pushed back to the front of
    the input queue because the application was done (typeahead), in event order -/
def delivered : List Obs → List KP
  | [] => []
  | .call _ seq _ :: r => seq ++ delivered r
  | .drop k :: r => k :: delivered r
  | .requeue ks :: r => ks ++ delivered r
  | _ :: r => delivered r

/-- the ordinary key presses (not `_Flush`, not CPR responses) taken from the input queue, in
    event order -/
def popped : List Obs → List KP
  | [] => []
  | .pop kp :: r => (if kp.isFlush || kp.isCpr then [] else [kp]) ++ popped r
  | _ :: r => popped r

/-- the log contains an invocation that raised -/
def hasRaise : List Obs → Bool
  | [] => false
  | .raise _ _ _ :: _ => true
  | .cprRaise _ _ _ :: _ => true
  | _ :: r => hasRaise r

theorem delivered_append (a b : List Obs) : delivered (a ++ b) = delivered a ++ delivered b := by
  induction a with
  | nil => rfl
  | cons x xs ih => cases x <;> simp [delivered, ih]

theorem popped_append (a b : List Obs) : popped (a ++ b) = popped a ++ popped b := by
  induction a with
  | nil => rfl
  | cons x xs ih => cases x <;> simp [popped, ih]

theorem hasRaise_append (a b : List Obs) : hasRaise (a ++ b) = (hasRaise a || hasRaise b) := by
  induction a with
  | nil => rfl
  | cons x xs ih => cases x <;> simp [hasRaise, ih]

/-! ### `_call_handler` -/

/-- the macro-recording records in the log are neither deliveries, nor pops, nor raises -/
theorem recordMacro_log (I : Iface σ) (wasE wasV : Bool) (w : σ) (b : Binding) (seq : List KP) :
    delivered (recordMacro I wasE wasV w b seq).2 = [] ∧
    popped (recordMacro I wasE wasV w b seq).2 = [] ∧
    hasRaise (recordMacro I wasE wasV w b seq).2 = false := by
  unfold recordMacro
  split
  · simp only []
    split <;> split <;> simp [delivered, popped, hasRaise]
  · simp [delivered, popped, hasRaise]

theorem callHandler_buffer (I : Iface σ) (ps : PS σ) (b : Binding) (seq : List KP) :
    (callHandler I ps b seq).1.buffer = ps.buffer := by
  cases h : (I.call ps.w ps.queue b seq ps.prev (eventOf ps b)).2.2 <;> simp [callHandler, h]

theorem callHandler_ok (I : Iface σ) (ps : PS σ) (b : Binding) (seq : List KP)
    (h : (callHandler I ps b seq).2.2 = false) :
    delivered (callHandler I ps b seq).2.1 = seq ∧ popped (callHandler I ps b seq).2.1 = [] ∧
    hasRaise (callHandler I ps b seq).2.1 = false ∧ (callHandler I ps b seq).1.prev = seq := by
  have hm := recordMacro_log I (I.recE ps.w) (I.recV ps.w)
    (I.call ps.w ps.queue b seq ps.prev (eventOf ps b)).1 b seq
  cases h' : (I.call ps.w ps.queue b seq ps.prev (eventOf ps b)).2.2 <;>
    simp_all [callHandler, delivered, popped, hasRaise, delivered_append, popped_append,
      hasRaise_append]

theorem callHandler_raise (I : Iface σ) (ps : PS σ) (b : Binding) (seq : List KP)
    (h : (callHandler I ps b seq).2.2 = true) :
    (callHandler I ps b seq).2.1 =
      [.ev ps.arg (ps.prevH == some b.bid), .raise b.hid seq ps.prev] := by
  cases h' : (I.call ps.w ps.queue b seq ps.prev (eventOf ps b)).2.2 <;>
    simp_all [callHandler, eventOf]

/-! ### conservation: one decision -/

theorem delivered_drops (l : List KP) : delivered (l.map Obs.drop) = l := by
  induction l with
  | nil => rfl
  | cons x xs ih => simp [delivered, ih]

theorem popped_drops (l : List KP) : popped (l.map Obs.drop) = [] := by
  induction l with
  | nil => rfl
  | cons x xs ih => simp [popped, ih]

theorem hasRaise_drops (l : List KP) : hasRaise (l.map Obs.drop) = false := by
  induction l with
  | nil => rfl
  | cons x xs ih => simp [hasRaise, ih]

/-- Executing any decision: the keys handed over or dropped, followed by the remaining
    buffer, are the buffer before; nothing is taken from the queue; a raise is logged iff the
    generator died. -/
theorem exec_conserv (I : Iface σ) (ps : PS σ) (d : Decision) :
    delivered (exec I ps d).2.1 ++ (exec I ps d).1.buffer = ps.buffer ∧
    popped (exec I ps d).2.1 = [] ∧
    (hasRaise (exec I ps d).2.1 = true ↔ (exec I ps d).2.2 = .dead) := by
  cases d with
  | idle => simp [exec, delivered, popped, hasRaise]
  | wait => simp [exec, delivered, popped, hasRaise]
  | dropOne => cases hb : ps.buffer <;> simp [exec, hb, delivered, popped, hasRaise]
  | fire b n exact =>
    simp only [exec]
    cases hc : (callHandler I ps b (ps.buffer.take n)).2.2
    · have := callHandler_ok I ps b _ hc
      simp [this]
      cases exact <;> simp
    · have h1 := callHandler_raise I ps b _ hc
      have h2 := callHandler_buffer I ps b (ps.buffer.take n)
      simp [h1, h2, delivered, popped, hasRaise]

/-- a pass that asks for a retry has consumed at least one key -/
theorem exec_retry_shorter (I : Iface σ) (ps : PS σ) (d : Decision)
    (hd : ∀ b n e, d = .fire b n e → 1 ≤ n) (hne : ps.buffer ≠ [])
    (h : (exec I ps d).2.2 = .retry) : (exec I ps d).1.buffer.length < ps.buffer.length := by
  have hpos : 0 < ps.buffer.length := List.length_pos_iff.mpr hne
  cases d with
  | idle => simp [exec] at h
  | wait => simp [exec] at h
  | dropOne => simp [exec]; omega
  | fire b n exact =>
    have := hd b n exact rfl
    simp only [exec] at h ⊢
    cases hc : (callHandler I ps b (ps.buffer.take n)).2.2
    · simp [hc]; omega
    · simp [hc] at h

/-! ### conservation: the matching loop, `send`, `process_keys` -/

theorem examine_conserv (I : Iface σ) (ps : PS σ) (flush : Bool) :
    delivered (examine I ps flush).2.1 ++ (examine I ps flush).1.buffer = ps.buffer ∧
    popped (examine I ps flush).2.1 = [] ∧
    (hasRaise (examine I ps flush).2.1 = true ↔ (examine I ps flush).2.2 = .dead) := by
  unfold examine
  exact exec_conserv I { ps with w := (decideOf I ps flush).1 } (decideOf I ps flush).2

theorem runLoop_conserv (I : Iface σ) (n : Nat) (ps : PS σ) (flush : Bool) :
    delivered (runLoop I n ps flush).2.1 ++ (runLoop I n ps flush).1.buffer = ps.buffer ∧
    popped (runLoop I n ps flush).2.1 = [] ∧
    hasRaise (runLoop I n ps flush).2.1 = (runLoop I n ps flush).2.2 := by
  induction n generalizing ps flush with
  | zero => simp [runLoop, delivered, popped, hasRaise]
  | succ n ih =>
    have he := examine_conserv I ps flush
    simp only [runLoop]
    cases hc : (examine I ps flush).2.2
    · simp [hc] at he ⊢
      refine ⟨he.1, he.2.1, ?_⟩
      cases h : hasRaise (examine I ps flush).2.1 <;> simp_all
    · have ih' := ih (examine I ps flush).1 false
      have hr : hasRaise (examine I ps flush).2.1 = false := by
        cases h : hasRaise (examine I ps flush).2.1
        · rfl
        · have := he.2.2.mp h; rw [hc] at this; cases this
      simp only [hc]
      by_cases hq : (!(examine I ps flush).1.buffer.isEmpty && I.done (examine I ps flush).1.w) = true
      · simp only [hq, if_true]
        refine ⟨?_, ?_, ?_⟩
        · rw [delivered_append]
          simp only [delivered, List.append_nil]
          exact he.1
        · rw [popped_append, he.2.1]; rfl
        · rw [hasRaise_append, hr]; rfl
      · simp only [hq]
        refine ⟨?_, ?_, ?_⟩
        · simp only [Bool.false_eq_true, if_false]
          rw [delivered_append, List.append_assoc, ih'.1, he.1]
        · simp only [Bool.false_eq_true, if_false]
          rw [popped_append, he.2.1, ih'.2.1]; rfl
        · simp only [Bool.false_eq_true, if_false]
          rw [hasRaise_append, ih'.2.2, hr]; rfl
    · simp [hc] at he ⊢
      exact ⟨he.1, he.2.1, he.2.2⟩

/-- `send(key)`: delivered and dropped keys followed by the new buffer are the old buffer
    followed by the key (nothing for `_Flush`). -/
theorem send_conserv (I : Iface σ) (ps : PS σ) (kp : KP) :
    delivered (send I ps kp).2.1 ++ (send I ps kp).1.buffer
      = ps.buffer ++ (if kp.isFlush then [] else [kp]) ∧
    popped (send I ps kp).2.1 = [] ∧
    hasRaise (send I ps kp).2.1 = (send I ps kp).2.2 := by
  cases kp with
  | flush =>
    have := runLoop_conserv I (ps.buffer.length + 1) ps true
    simpa [send, KP.isFlush] using this
  | key k t =>
    have := runLoop_conserv I (ps.buffer.length + 2) { ps with buffer := ps.buffer ++ [.key k t] } false
    simpa [send, KP.isFlush] using this

theorem popped_pop (kp : KP) (r : List Obs) :
    popped (.pop kp :: r) = (if kp.isFlush || kp.isCpr then [] else [kp]) ++ popped r := rfl

/-- `_process_cpr_response`: the key buffer and the previous key sequence are left alone; the
    CPR key is handed to exactly one handler invocation (or to none when nothing is bound) -/
theorem cprResponse_spec (I : Iface σ) (ps : PS σ) (kp : KP) :
    (cprResponse I ps kp).1.buffer = ps.buffer ∧ (cprResponse I ps kp).1.prev = ps.prev ∧
    delivered (cprResponse I ps kp).2.1 = [] ∧ popped (cprResponse I ps kp).2.1 = [] ∧
    hasRaise (cprResponse I ps kp).2.1 = (cprResponse I ps kp).2.2 ∧
    ((∃ h, (cprResponse I ps kp).2.1 = [.cpr h kp ps.prev]) ∨
     (∃ h, (cprResponse I ps kp).2.1 = [.cprRaise h kp ps.prev])) := by
  cases hm : (getMatches I ps.w [kp]).2.getLast? with
  | none => simp [cprResponse, hm, delivered, popped, hasRaise]
  | some b =>
    cases ho : (I.call (getMatches I ps.w [kp]).1 ps.queue b [kp] ps.prev {}).2.2 <;>
      simp [cprResponse, hm, ho, delivered, popped, hasRaise]

/-- one key taken from the queue: an ordinary key or a timeout goes through the matching loop, a
    CPR response goes to its handler directly -/
theorem dispatchKey_conserv (I : Iface σ) (ps : PS σ) (kp : KP) :
    delivered (dispatchKey I ps kp).2.1 ++ (dispatchKey I ps kp).1.buffer
      = ps.buffer ++ (if kp.isFlush || kp.isCpr then [] else [kp]) ∧
    popped (dispatchKey I ps kp).2.1 = [] ∧
    hasRaise (dispatchKey I ps kp).2.1 = (dispatchKey I ps kp).2.2 := by
  unfold dispatchKey
  by_cases hc : kp.isCpr = true
  · have := cprResponse_spec I ps kp
    simp only [hc, if_true, Bool.or_true]
    exact ⟨by rw [this.2.2.1, this.1]; simp, this.2.2.2.1, this.2.2.2.2.1⟩
  · have := send_conserv I ps kp
    simp only [hc, Bool.or_false]
    simpa using this

/-- One iteration of the `process_keys` loop.  `kp` is the key taken from the queue.
    Without a raise: delivered/dropped keys ++ new buffer = old buffer ++ [kp].
    With a raise: the processor is reset (empty buffer, empty queue, no previous sequence, no
    previous handler, no numeric argument);
    the keys not delivered before (`lost`, beginning with the raising handler's keys) are gone. -/
theorem pkStep_conserv (I : Iface σ) (ps ps' : PS σ) (obs : List Obs) (raised : Bool)
    (h : pkStep I ps = some (ps', obs, raised)) :
    ∃ kp q, getNext I ps = some (kp, q) ∧
      popped obs = (if kp.isFlush || kp.isCpr then [] else [kp]) ∧ hasRaise obs = raised ∧
      (raised = false → delivered obs ++ ps'.buffer = ps.buffer ++ popped obs) ∧
      (raised = true → (ps'.buffer = [] ∧ ps'.queue = [] ∧ ps'.prev = [] ∧ ps'.arg = none ∧
            ps'.prevH = none) ∧
          ∃ lost, delivered obs ++ lost = ps.buffer ++ popped obs) := by
  unfold pkStep at h
  split at h
  · cases h
  · cases hg : getNext I ps with
    | none => simp [hg] at h
    | some p =>
      obtain ⟨kp, q⟩ := p
      simp only [hg] at h
      have hs := dispatchKey_conserv I { ps with queue := q } kp
      refine ⟨kp, q, rfl, ?_⟩
      generalize (!kp.isFlush && !kp.isCpr) = plain at h
      cases hr : (dispatchKey I { ps with queue := q } kp).2.2
      · simp only [hr] at h hs
        simp at h
        obtain ⟨h1, h2, h3⟩ := h
        subst h1 h2 h3
        have hp : ∀ r, popped (Obs.pop kp :: r) = (if kp.isFlush || kp.isCpr then [] else [kp]) ++ popped r :=
          popped_pop kp
        cases plain <;>
          simp [hp, popped_append, delivered_append, hasRaise_append, hs.2.1, hs.2.2, delivered,
            popped, hasRaise] <;> simpa using hs.1
      · simp only [hr] at h hs
        simp at h
        obtain ⟨h1, h2, h3⟩ := h
        subst h1 h2 h3
        have hp : ∀ r, popped (Obs.pop kp :: r) = (if kp.isFlush || kp.isCpr then [] else [kp]) ++ popped r :=
          popped_pop kp
        cases plain <;>
          simp [hp, popped_append, delivered_append, hasRaise_append, hs.2.1, hs.2.2, delivered,
            popped, hasRaise, resetPS] <;>
          exact ⟨(dispatchKey I { ps with queue := q } kp).1.buffer, by simpa using hs.1⟩

/-- **Conservation** for a whole `process_keys()` call, for any number of loop iterations,
    any key-binding object, any filters and any handlers (they may feed keys, flip conditions,
    change bindings, finish the application): the keys delivered to handlers, the dropped keys
    and the keys pushed back to the input queue as typeahead, in the order of the events,
    followed by the keys still pending in the key buffer, are exactly the keys that were pending
    before followed by the ordinary keys taken from the input queue, in that order.  (CPR
    responses do not pass through the key buffer: `cprResponse_spec`.)
    If a handler raised, the undelivered rest (`lost`) is discarded by the reset. -/
theorem conservation (I : Iface σ) (n : Nat) (ps : PS σ) :
    hasRaise (processKeys I n ps).2.1 = (processKeys I n ps).2.2 ∧
    ((processKeys I n ps).2.2 = false →
      delivered (processKeys I n ps).2.1 ++ (processKeys I n ps).1.buffer
        = ps.buffer ++ popped (processKeys I n ps).2.1) ∧
    ((processKeys I n ps).2.2 = true →
      ∃ lost, delivered (processKeys I n ps).2.1 ++ lost
        = ps.buffer ++ popped (processKeys I n ps).2.1) := by
  induction n generalizing ps with
  | zero => simp [processKeys, hasRaise, delivered, popped]
  | succ n ih =>
    simp only [processKeys]
    cases hk : pkStep I ps with
    | none => simp [hasRaise, delivered, popped]
    | some r =>
      obtain ⟨ps', obs, raised⟩ := r
      obtain ⟨kp, q, _, hpop, hraise, hok, hbad⟩ := pkStep_conserv I ps ps' obs raised hk
      cases raised with
      | true =>
        obtain ⟨_, lost, hl⟩ := hbad rfl
        simp [hraise]
        exact ⟨lost, hl⟩
      | false =>
        have h1 := hok rfl
        obtain ⟨i1, i2, i3⟩ := ih ps'
        simp only [hasRaise_append, hraise, delivered_append, popped_append, Bool.false_or]
        refine ⟨i1, ?_, ?_⟩
        · intro hf
          rw [List.append_assoc, i2 hf, ← List.append_assoc, h1, List.append_assoc]
        · intro ht
          obtain ⟨lost, hl⟩ := i3 ht
          exact ⟨lost, by rw [List.append_assoc, hl, ← List.append_assoc, h1, List.append_assoc]⟩

/-- **A handler that raises leaves the processor reset**: whenever `process_keys()` ends with an
    exception, key buffer, input queue and previous key sequence are empty, the numeric argument
    and the previous handler are forgotten — the state of a freshly constructed processor in the
    same world, so it is usable as a new one. -/
theorem raise_resets (I : Iface σ) (n : Nat) (ps : PS σ)
    (h : (processKeys I n ps).2.2 = true) :
    (processKeys I n ps).1 = { w := (processKeys I n ps).1.w } := by
  induction n generalizing ps with
  | zero => simp [processKeys] at h
  | succ n ih =>
    simp only [processKeys] at h ⊢
    cases hk : pkStep I ps with
    | none => simp [hk] at h
    | some r =>
      obtain ⟨ps', obs, raised⟩ := r
      cases raised with
      | true =>
        obtain ⟨_, _, _, _, _, _, hbad⟩ := pkStep_conserv I ps ps' obs true hk
        obtain ⟨⟨b1, b2, b3, b4, b5⟩, _⟩ := hbad rfl
        simp
        cases ps'; simp_all
      | false =>
        simp [hk] at h
        simpa using ih ps' h

/-- an exception leaves `process_keys` only if some handler raised one (for a CPR response also
    an EditReadOnlyBuffer counts: `_process_cpr_response` calls the binding directly) -/
theorem raise_only_from_handler (I : Iface σ) (n : Nat) (ps : PS σ)
    (hok : ∀ w q b s p x, (I.call w q b s p x).2.2 ≠ .raise)
    (hcpr : ∀ w q b k p x, k.isCpr = true → (I.call w q b [k] p x).2.2 = .ok) :
    (processKeys I n ps).2.2 = false := by
  have key : ∀ (ps : PS σ) b seq, (callHandler I ps b seq).2.2 = false := by
    intro ps b seq
    have := hok ps.w ps.queue b seq ps.prev (eventOf ps b)
    cases h : (I.call ps.w ps.queue b seq ps.prev (eventOf ps b)).2.2 <;> simp_all [callHandler]
  have hexec : ∀ (ps : PS σ) d, (exec I ps d).2.2 ≠ .dead := by
    intro ps d
    cases d <;> simp [exec, key]
    rename_i b n e; cases e <;> simp
  have hloop : ∀ m (ps : PS σ) f, (runLoop I m ps f).2.2 = false := by
    intro m
    induction m with
    | zero => intros; rfl
    | succ m ih =>
      intro ps f
      simp only [runLoop]
      have := hexec { ps with w := (decideOf I ps f).1 } (decideOf I ps f).2
      cases hc : (examine I ps f).2.2
      · rfl
      · simp only []
        split
        · rfl
        · exact ih _ _
      · exact absurd hc this
  have hsend : ∀ (ps : PS σ) kp, (send I ps kp).2.2 = false := by
    intro ps kp; cases kp <;> simp [send, hloop]
  have hdisp : ∀ (ps : PS σ) kp, (dispatchKey I ps kp).2.2 = false := by
    intro ps kp
    unfold dispatchKey
    by_cases hc : kp.isCpr = true
    · simp only [hc, if_true]
      cases hm : (getMatches I ps.w [kp]).2.getLast? with
      | none => simp [cprResponse, hm]
      | some b =>
        have := hcpr (getMatches I ps.w [kp]).1 ps.queue b kp ps.prev {} hc
        simp [cprResponse, hm, this]
    · simp only [hc]; exact hsend ps kp
  induction n generalizing ps with
  | zero => rfl
  | succ n ih =>
    simp only [processKeys]
    cases hk : pkStep I ps with
    | none => rfl
    | some r =>
      obtain ⟨ps', obs, raised⟩ := r
      cases raised with
      | false => simpa using ih ps'
      | true =>
        exfalso
        unfold pkStep at hk
        split at hk
        · cases hk
        · split at hk
          · cases hk
          · simp [hdisp] at hk

/-! ### which key is taken from the queue, and queue order -/

theorem takeCpr_spec (l : List KP) (k : KP) (q : List KP) (h : takeCpr l = some (k, q)) :
    ∃ a b, l = a ++ k :: b ∧ q = a ++ b ∧ k.isCpr = true ∧ ∀ x ∈ a, x.isCpr = false := by
  induction l generalizing k q with
  | nil => simp [takeCpr] at h
  | cons x xs ih =>
    simp only [takeCpr] at h
    by_cases hx : x.isCpr = true
    · simp [hx] at h
      obtain ⟨rfl, rfl⟩ := h
      exact ⟨[], xs, rfl, rfl, hx, by simp⟩
    · simp only [hx] at h
      cases ht : takeCpr xs with
      | none => simp [ht] at h
      | some r =>
        obtain ⟨c, rest⟩ := r
        simp [ht] at h
        obtain ⟨rfl, rfl⟩ := h
        obtain ⟨a, b, e1, e2, e3, e4⟩ := ih c rest ht
        refine ⟨x :: a, b, by simp [e1], by simp [e2], e3, ?_⟩
        intro y hy
        rcases List.mem_cons.mp hy with rfl | hy
        · simpa using hx
        · exact e4 y hy

/-- `get_next()`: while the application is running the head of the queue is taken; once it is
    done only the first CPR response is taken, everything else stays queued in order. -/
theorem getNext_spec (I : Iface σ) (ps : PS σ) (k : KP) (q : List KP)
    (h : getNext I ps = some (k, q)) :
    (I.done ps.w = false → ps.queue = k :: q) ∧
    (I.done ps.w = true → ∃ a b, ps.queue = a ++ k :: b ∧ q = a ++ b ∧ k.isCpr = true ∧
        ∀ x ∈ a, x.isCpr = false) := by
  unfold getNext at h
  constructor
  · intro hd
    simp [hd] at h
    cases hq : ps.queue with
    | nil => simp [hq] at h
    | cons x xs => simp [hq] at h; simp [h]
  · intro hd
    simp [hd] at h
    exact takeCpr_spec _ _ _ h

/-- all key presses taken from the queue (including `_Flush`) -/
def taken : List Obs → List KP
  | [] => []
  | .pop k :: r => k :: taken r
  | _ :: r => taken r

theorem taken_append (a b : List Obs) : taken (a ++ b) = taken a ++ taken b := by
  induction a with
  | nil => rfl
  | cons x xs ih => cases x <;> simp [taken, ih]

section
variable (I : Iface σ) (hq : ∀ w q b s p x, (I.call w q b s p x).2.1 = q) (hd : ∀ w, I.done w = false)
include hq

theorem callHandler_queue (ps : PS σ) (b : Binding) (seq : List KP) :
    (callHandler I ps b seq).1.queue = ps.queue ∧ taken (callHandler I ps b seq).2.1 = [] := by
  have := hq ps.w ps.queue b seq ps.prev (eventOf ps b)
  have hm : taken (recordMacro I (I.recE ps.w) (I.recV ps.w)
      (I.call ps.w ps.queue b seq ps.prev (eventOf ps b)).1 b seq).2 = [] := by
    unfold recordMacro
    split
    · simp only []
      split <;> split <;> simp [taken]
    · simp [taken]
  cases h : (I.call ps.w ps.queue b seq ps.prev (eventOf ps b)).2.2 <;>
    simp [callHandler, h, this, taken, taken_append, hm]

theorem exec_queue (ps : PS σ) (d : Decision) :
    (exec I ps d).1.queue = ps.queue ∧ taken (exec I ps d).2.1 = [] := by
  cases d with
  | idle => simp [exec, taken]
  | wait => simp [exec, taken]
  | dropOne => cases hb : ps.buffer <;> simp [exec, hb, taken]
  | fire b n e =>
    have := callHandler_queue I hq ps b (ps.buffer.take n)
    simp only [exec]
    split <;> simp [this]

include hd in
theorem runLoop_queue (n : Nat) (ps : PS σ) (f : Bool) :
    (runLoop I n ps f).1.queue = ps.queue ∧ taken (runLoop I n ps f).2.1 = [] := by
  induction n generalizing ps f with
  | zero => simp [runLoop, taken]
  | succ n ih =>
    have he := exec_queue I hq { ps with w := (decideOf I ps f).1 } (decideOf I ps f).2
    simp only [runLoop]
    have he' : (examine I ps f).1.queue = ps.queue ∧ taken (examine I ps f).2.1 = [] := he
    cases hc : (examine I ps f).2.2
    · simpa using he'
    · have := ih (examine I ps f).1 false
      simp [taken_append, this, he', hd]
    · simpa using he'

omit hd in
theorem cprResponse_queue (ps : PS σ) (kp : KP) :
    taken (cprResponse I ps kp).2.1 = [] ∧ (cprResponse I ps kp).1.queue = ps.queue := by
  cases hm : (getMatches I ps.w [kp]).2.getLast? with
  | none => simp [cprResponse, hm, taken]
  | some b =>
    have := hq (getMatches I ps.w [kp]).1 ps.queue b [kp] ps.prev {}
    cases ho : (I.call (getMatches I ps.w [kp]).1 ps.queue b [kp] ps.prev {}).2.2 <;>
      simp [cprResponse, hm, ho, taken, this]

include hd in
theorem send_queue (ps : PS σ) (kp : KP) :
    (send I ps kp).1.queue = ps.queue ∧ taken (send I ps kp).2.1 = [] := by
  cases kp with
  | flush => simpa [send] using runLoop_queue I hq hd (ps.buffer.length + 1) ps true
  | key k t =>
    simpa [send] using
      runLoop_queue I hq hd (ps.buffer.length + 2) { ps with buffer := ps.buffer ++ [.key k t] } false

/-- the keys pushed back to the input queue because the application was done -/
def requeued : List Obs → List KP
  | [] => []
  | .requeue ks :: r => ks ++ requeued r
  | _ :: r => requeued r

omit hq in
theorem requeued_append (a b : List Obs) : requeued (a ++ b) = requeued a ++ requeued b := by
  induction a with
  | nil => rfl
  | cons x xs ih => cases x <;> simp [requeued, ih]

omit hq in
theorem exec_requeued (ps : PS σ) (d : Decision) : requeued (exec I ps d).2.1 = [] := by
  cases d with
  | idle => simp [exec, requeued]
  | wait => simp [exec, requeued]
  | dropOne => cases hb : ps.buffer <;> simp [exec, hb, requeued]
  | fire b n e =>
    have hm : requeued (recordMacro I (I.recE ps.w) (I.recV ps.w)
        (I.call ps.w ps.queue b (ps.buffer.take n) ps.prev (eventOf ps b)).1 b
        (ps.buffer.take n)).2 = [] := by
      unfold recordMacro
      split
      · simp only []
        split <;> split <;> simp [requeued]
      · simp [requeued]
    simp only [exec]
    cases h : (I.call ps.w ps.queue b (ps.buffer.take n) ps.prev (eventOf ps b)).2.2 <;>
      simp [callHandler, h, requeued, requeued_append, hm]

/-- **Typeahead after exit**: when handlers do not feed keys, one `send` leaves the input queue
    as it was except that the keys it pushed back (application done, on a retry) are now at its
    front, in their order; and after pushing back, the key buffer is empty. -/
theorem runLoop_requeue (n : Nat) (ps : PS σ) (f : Bool) :
    (runLoop I n ps f).1.queue = requeued (runLoop I n ps f).2.1 ++ ps.queue ∧
    (requeued (runLoop I n ps f).2.1 ≠ [] → (runLoop I n ps f).1.buffer = []) := by
  induction n generalizing ps f with
  | zero => simp [runLoop, requeued]
  | succ n ih =>
    have he := exec_queue I hq { ps with w := (decideOf I ps f).1 } (decideOf I ps f).2
    have hr := exec_requeued I { ps with w := (decideOf I ps f).1 } (decideOf I ps f).2
    simp only [runLoop]
    have he' : (examine I ps f).1.queue = ps.queue := he.1
    have hr' : requeued (examine I ps f).2.1 = [] := hr
    cases hc : (examine I ps f).2.2
    · simp [he', hr']
    · simp only []
      split
      · simp [requeued_append, hr', requeued, he']
      · have := ih (examine I ps f).1 false
        have e : requeued ((examine I ps f).2.1 ++ (runLoop I n (examine I ps f).1 false).2.1) =
            requeued (runLoop I n (examine I ps f).1 false).2.1 := by
          rw [requeued_append, hr']; rfl
        simp only [e]
        rw [this.1, he']
        exact ⟨rfl, this.2⟩
    · simp [he', hr']

include hd in
/-- **Input order**: when handlers do not feed keys and the application is not done, the
    keys taken from the queue (in the order of the log) followed by the keys still queued are
    the queue before — keys are consumed strictly in input order. -/
theorem queue_order (n : Nat) (ps : PS σ)
    (hr : (processKeys I n ps).2.2 = false) :
    taken (processKeys I n ps).2.1 ++ (processKeys I n ps).1.queue = ps.queue := by
  induction n generalizing ps with
  | zero => simp [processKeys, taken]
  | succ n ih =>
    simp only [processKeys] at hr ⊢
    cases hk : pkStep I ps with
    | none => simp [taken]
    | some r =>
      obtain ⟨ps', obs, raised⟩ := r
      cases raised with
      | true => simp [hk] at hr
      | false =>
        simp [hk] at hr
        simp only [taken_append]
        have ih' := ih ps' hr
        rw [List.append_assoc, ih']
        -- one step: the head of the queue was taken
        unfold pkStep at hk
        split at hk
        · cases hk
        · cases hg : getNext I ps with
          | none => simp [hg] at hk
          | some p =>
            obtain ⟨kp, q⟩ := p
            have hs : (dispatchKey I { ps with queue := q } kp).1.queue = q ∧
                taken (dispatchKey I { ps with queue := q } kp).2.1 = [] := by
              unfold dispatchKey
              by_cases hc : kp.isCpr = true
              · have := cprResponse_queue I hq { ps with queue := q } kp
                simp only [hc, if_true]; exact ⟨this.2, this.1⟩
              · simp only [hc]; exact send_queue I hq hd { ps with queue := q } kp
            have hgn := (getNext_spec I ps kp q hg).1 (hd ps.w)
            simp only [hg] at hk
            generalize (!kp.isFlush && !kp.isCpr) = plain at hk
            cases hsr : (dispatchKey I { ps with queue := q } kp).2.2
            · simp [hsr] at hk
              obtain ⟨h1, h2⟩ := hk
              subst h1 h2
              cases plain <;> simp [taken, taken_append, hs.1, hs.2, hgn]
            · simp [hsr] at hk
end

/-! ### non-vacuity: a small concrete world -/

/-- bindings `a`→h0, `a b`→h1, `Any`→h2 (active iff condition 0; h2 raises), `b`→h3 eager -/
def toyBs : List Binding :=
  [ { keys := [2], hid := 0, filter := .always, eager := .never, isGlobal := .never, bid := 1 },
    { keys := [2, 3], hid := 1, filter := .always, eager := .never, isGlobal := .never, bid := 2 },
    { keys := [0], hid := 2, filter := .cond 2 0, eager := .never, isGlobal := .never, bid := 3 },
    { keys := [3], hid := 3, filter := .always, eager := .always, isGlobal := .never, bid := 4 } ]

/-- world state = value of condition 0; handler 2 raises, the others return -/
def toyI : Iface Bool where
  getFor := fun w ks => (w, matchFor toyBs ks)
  getStart := fun w ks => (w, matchStarting toyBs ks)
  evalF := fun w f => f.eval (fun _ => w)
  call := fun w q b _ _ _ => (w, q, if b.hid == 2 then .raise else .ok)
  done := fun _ => false

/-- queue `a c a b a` -/
def toyPS (w : Bool) : PS Bool :=
  { w := w, queue := [.key 2 1, .key 5 2, .key 2 3, .key 3 4, .key 2 5] }

/-- `conservation` on a run with a single-key call, a dropped key, a two-key call and a pending key -/
example : delivered (processKeys toyI 10 (toyPS false)).2.1
      = [.key 2 1, .key 5 2, .key 2 3, .key 3 4] ∧
    (processKeys toyI 10 (toyPS false)).1.buffer = [.key 2 5] ∧
    popped (processKeys toyI 10 (toyPS false)).2.1 = (toyPS false).queue ∧
    (processKeys toyI 10 (toyPS false)).2.2 = false := by decide

/-- the hypothesis of `raise_resets` is satisfiable: with condition 0 on, `c` reaches the raising
    handler while keys are still queued; afterwards everything is empty -/
example : (processKeys toyI 10 (toyPS true)).2.2 = true ∧
    (processKeys toyI 10 (toyPS true)).2.1 =
      [.pop (.key 2 1), .before, .after, .pop (.key 5 2), .before, .ev none false,
       .call 0 [.key 2 1] [], .ev none false, .raise 2 [.key 5 2] [.key 2 1]] ∧
    (processKeys toyI 10 (toyPS true)).1.queue = [] := by decide

/-- the hypotheses of `queue_order` hold in the toy world -/
example : (∀ w q b s p x, (toyI.call w q b s p x).2.1 = q) ∧ (∀ w, toyI.done w = false) ∧
    (processKeys toyI 3 (toyPS false)).2.2 = false ∧
    taken (processKeys toyI 3 (toyPS false)).2.1 = [.key 2 1, .key 5 2, .key 2 3] ∧
    (processKeys toyI 3 (toyPS false)).1.queue = [.key 3 4, .key 2 5] := by
  refine ⟨fun _ _ _ _ _ _ => rfl, fun _ => rfl, by decide, by decide, by decide⟩

/-- the hypothesis of `raise_only_from_handler` holds e.g. for the toy world without handler 2 -/
example : ∀ w q b s p x,
    ({ toyI with call := fun w q _ _ _ _ => (w, q, .ok) } : Iface Bool).call w q b s p x
    |>.2.2 ≠ .raise := by
  intro w q b s p x; simp

end Ptk.C04
