/-
  C13 — the concrete UTF-8 codec of the model (`utf8Enc`, and `utf8Dec` = CPython's
  `bytes.decode("utf-8", errors="replace")`) satisfies the codec hypotheses `Codec.Good`,
  for every Unicode scalar value (1- to 4-byte forms, U+0000 and U+10FFFF included).
-/
import Ptk.Props.C13File
namespace Ptk.C13
open Ptk.Py

theorem char_range (c : Char) : c.toNat < 0xD800 ∨ (0xDFFF < c.toNat ∧ c.toNat < 0x110000) := by
  have := c.valid
  simp [UInt32.isValidChar, Nat.isValidChar] at this
  exact this

theorem decRun_cons (s : DSt) (b : Nat) (bs : Bytes) :
    decRun s (b :: bs) = (decStep s b).2 ++ decRun (decStep s b).1 bs := rfl

theorem decStep_idle (b : Nat) : decStep idle b = startByte b := by
  simp [decStep, idle]

theorem startByte_1 (b : Nat) (h : b < 0x80) : startByte b = (idle, [Char.ofNat b]) := by
  simp [startByte, h]

theorem startByte_2 (b : Nat) (h1 : 0xC2 ≤ b) (h2 : b < 0xE0) :
    startByte b = (⟨1, b % 32, 0x80, 0xBF⟩, []) := by
  have a1 : ¬ b < 0x80 := by omega
  have a2 : ¬ b < 0xC2 := by omega
  simp [startByte, a1, a2, h2]

theorem startByte_3 (b : Nat) (h1 : 0xE0 ≤ b) (h2 : b < 0xF0) :
    startByte b = (⟨2, b % 16, if b = 0xE0 then 0xA0 else 0x80, if b = 0xED then 0x9F else 0xBF⟩, []) := by
  have a1 : ¬ b < 0x80 := by omega
  have a2 : ¬ b < 0xC2 := by omega
  have a3 : ¬ b < 0xE0 := by omega
  simp [startByte, a1, a2, a3, h2]

theorem startByte_4 (b : Nat) (h1 : 0xF0 ≤ b) (h2 : b < 0xF5) :
    startByte b = (⟨3, b % 8, if b = 0xF0 then 0x90 else 0x80, if b = 0xF4 then 0x8F else 0xBF⟩, []) := by
  have a1 : ¬ b < 0x80 := by omega
  have a2 : ¬ b < 0xC2 := by omega
  have a3 : ¬ b < 0xE0 := by omega
  have a4 : ¬ b < 0xF0 := by omega
  simp [startByte, a1, a2, a3, a4, h2]

theorem decStep_last (acc lo hi b : Nat) (h1 : lo ≤ b) (h2 : b ≤ hi) :
    decStep ⟨1, acc, lo, hi⟩ b = (idle, [Char.ofNat (acc * 64 + b % 64)]) := by
  simp [decStep, h1, h2]

theorem decStep_more (m acc lo hi b : Nat) (h1 : lo ≤ b) (h2 : b ≤ hi) :
    decStep ⟨m + 2, acc, lo, hi⟩ b = (⟨m + 1, acc * 64 + b % 64, 0x80, 0xBF⟩, []) := by
  simp [decStep, h1, h2]

theorem dec_enc_nat (n : Nat) (hr : n < 0xD800 ∨ (0xDFFF < n ∧ n < 0x110000)) (rest : Bytes) :
    decRun idle (utf8EncNat n ++ rest) = Char.ofNat n :: decRun idle rest := by
  unfold utf8EncNat
  split
  · rename_i h
    simp only [List.cons_append, List.nil_append]
    rw [decRun_cons, decStep_idle, startByte_1 _ h]
    rfl
  · split
    · rename_i h1 h2
      simp only [List.cons_append, List.nil_append]
      rw [decRun_cons, decStep_idle, startByte_2 (0xC0 + n / 64) (by omega) (by omega)]
      simp only [List.nil_append]
      rw [decRun_cons, decStep_last _ 0x80 0xBF (0x80 + n % 64) (by omega) (by omega)]
      simp only [List.cons_append, List.nil_append]
      congr 2; omega
    · split
      · rename_i h1 h2 h3
        simp only [List.cons_append, List.nil_append]
        rw [decRun_cons, decStep_idle, startByte_3 (0xE0 + n / 4096) (by omega) (by omega)]
        simp only [List.nil_append]
        rw [decRun_cons, decStep_more 0 _ _ _ (0x80 + n / 64 % 64) (by split <;> omega)
          (by split <;> omega)]
        simp only [List.nil_append]
        rw [decRun_cons, decStep_last _ 0x80 0xBF (0x80 + n % 64) (by omega) (by omega)]
        simp only [List.cons_append, List.nil_append]
        congr 2; omega
      · rename_i h1 h2 h3
        have hn : n < 0x110000 := by omega
        simp only [List.cons_append, List.nil_append]
        rw [decRun_cons, decStep_idle, startByte_4 (0xF0 + n / 262144) (by omega) (by omega)]
        simp only [List.nil_append]
        rw [decRun_cons, decStep_more 1 _ _ _ (0x80 + n / 4096 % 64) (by split <;> omega)
          (by split <;> omega)]
        simp only [List.nil_append]
        rw [decRun_cons, decStep_more 0 _ 0x80 0xBF (0x80 + n / 64 % 64) (by omega) (by omega)]
        simp only [List.nil_append]
        rw [decRun_cons, decStep_last _ 0x80 0xBF (0x80 + n % 64) (by omega) (by omega)]
        simp only [List.cons_append, List.nil_append]
        congr 2; omega

theorem dec_enc_char (c : Char) (rest : Bytes) :
    decRun idle (utf8Enc c ++ rest) = c :: decRun idle rest := by
  unfold utf8Enc
  rw [dec_enc_nat c.toNat (char_range c) rest, Char.ofNat_toNat]

theorem utf8_dec_enc (t : Text) : utf8.dec (utf8.encText t) = t := by
  show decRun idle (t.flatMap utf8Enc) = t
  induction t with
  | nil => simp [decRun, idle]
  | cons c t ih => rw [List.flatMap_cons, dec_enc_char, ih]

theorem utf8_enc_nl : utf8.enc '\n' = [10] := by decide

theorem utf8_nl_free (c : Char) (hc : c ≠ '\n') : 10 ∉ utf8.enc c := by
  show 10 ∉ utf8EncNat c.toNat
  have hn : c.toNat ≠ 10 := by
    intro h
    apply hc
    rw [← Char.ofNat_toNat c, h]
  generalize c.toNat = n at hn
  unfold utf8EncNat
  split
  · simp only [List.mem_cons, List.not_mem_nil, or_false, Byte]; omega
  · split
    · simp only [List.mem_cons, List.not_mem_nil, or_false, Byte]; omega
    · split
      · simp only [List.mem_cons, List.not_mem_nil, or_false, Byte]; omega
      · simp only [List.mem_cons, List.not_mem_nil, or_false, Byte]; omega

/-- the concrete codec used by the driver satisfies every hypothesis of the format theorems -/
theorem utf8_good : utf8.Good := ⟨utf8_dec_enc, utf8_enc_nl, utf8_nl_free⟩

end Ptk.C13
