/-
  C16, round 2 — `Document.find` / `Document.find_backwards` with ALL their parameters
  (`in_current_line`, `include_current_position`, `count`; used by Vi f F t T ; , — the search itself
  only uses count = 1 on the whole text, which `docFindX_one` shows to be the special case that
  the C16 theorems are about).
-/
import Ptk.Props.C16
namespace Ptk.C16
open Ptk.Py

/-! ## the count-th match -/

theorem findNth_zero (eq : Char → Char → Bool) (sub t : Text) : findNth eq sub 0 t = none := rfl

theorem findNth_one (eq : Char → Char → Bool) (sub t : Text) :
    findNth eq sub 1 t = findFirst eq sub t := by
  simp only [findNth]
  cases findFirst eq sub t <;> simp

/-- the advance after a match that starts at `s` -/
def advance (sub : Text) (s : Nat) : Nat := s + (if sub.isEmpty then 1 else sub.length)

theorem findNth_succ_succ (eq : Char → Char → Bool) (sub t : Text) (k : Nat) :
    findNth eq sub (k + 2) t =
      match findFirst eq sub t with
      | none => none
      | some s =>
        if sub.isEmpty && t.length ≤ s then none
        else (findNth eq sub (k + 1) (t.drop (advance sub s))).map (· + advance sub s) := by
  rw [findNth]
  cases findFirst eq sub t with
  | none => rfl
  | some s => simp [advance]

/-- SOUND for every count: the count-th match is an occurrence -/
theorem findNth_sound (eq : Char → Char → Bool) (sub : Text) (k : Nat) (t : Text) (s : Nat)
    (h : findNth eq sub k t = some s) : OccAt eq sub t s := by
  induction k generalizing t s with
  | zero => simp [findNth] at h
  | succ k ih =>
    cases k with
    | zero =>
      rw [findNth_one] at h
      exact ((findFirst_some_iff ..).1 h).1
    | succ k =>
      rw [findNth_succ_succ] at h
      cases hf : findFirst eq sub t with
      | none => simp [hf] at h
      | some s0 =>
        simp only [hf] at h
        split at h
        · cases h
        · rename_i hne
          cases hr : findNth eq sub (k + 1) (t.drop (advance sub s0)) with
          | none => simp [hr] at h
          | some s' =>
            simp only [hr, Option.map_some, Option.some.injEq] at h
            subst h
            have ho := ih _ _ hr
            have h0 := occAt_le ((findFirst_some_iff ..).1 hf).1
            have hadv : advance sub s0 ≤ t.length := by
              unfold advance
              split
              · rename_i he
                simp only [he, Bool.true_and, decide_eq_true_eq, Nat.not_le] at hne
                omega
              · omega
            rw [occAt_drop _ _ _ _ _ hadv] at ho
            rwa [Nat.add_comm]

/-- matches do not overlap: the (k+2)-th match starts behind the END of the (k+1)-th
    (non-empty needle) -/
theorem findNth_gap (eq : Char → Char → Bool) (sub : Text) (hne : sub ≠ []) (k : Nat) (t : Text)
    (s2 : Nat) (h : findNth eq sub (k + 2) t = some s2) :
    ∃ s1, findNth eq sub (k + 1) t = some s1 ∧ s1 + sub.length ≤ s2 := by
  have hem : sub.isEmpty = false := by simpa using hne
  induction k generalizing t s2 with
  | zero =>
    rw [findNth_succ_succ] at h
    rw [findNth_one]
    cases hf : findFirst eq sub t with
    | none => simp [hf] at h
    | some s0 =>
      simp only [hf, hem, Bool.false_and, Bool.false_eq_true, if_false] at h
      cases hr : findNth eq sub (0 + 1) (t.drop (advance sub s0)) with
      | none => simp [hr] at h
      | some s' =>
        simp only [hr, Option.map_some, Option.some.injEq] at h
        refine ⟨s0, rfl, ?_⟩
        simp only [advance, hem, Bool.false_eq_true, if_false] at h
        omega
  | succ k ih =>
    rw [findNth_succ_succ] at h
    rw [findNth_succ_succ]
    cases hf : findFirst eq sub t with
    | none => simp [hf] at h
    | some s0 =>
      simp only [hf, hem, Bool.false_and, Bool.false_eq_true, if_false] at h ⊢
      cases hr : findNth eq sub (k + 2) (t.drop (advance sub s0)) with
      | none => simp [hr] at h
      | some s' =>
        simp only [hr, Option.map_some, Option.some.injEq] at h
        obtain ⟨s1, h1, h2⟩ := ih _ _ hr
        refine ⟨s1 + advance sub s0, by simp [h1], ?_⟩
        omega

/-! ## Document.find / find_backwards with all their parameters -/

/-- with `count = 1` and `in_current_line = False` the full functions are the ones the search uses -/
theorem docFindX_one (eq : Char → Char → Bool) (text : Text) (cur : Nat) (sub : Text) (incl : Bool) :
    docFindX eq text cur sub false incl 1 = docFind eq text cur sub incl := by
  simp [docFindX, docFind, findNth_one]

theorem docFindBackX_one (eq : Char → Char → Bool) (text : Text) (cur : Nat) (sub : Text) :
    docFindBackX eq text cur sub false 1 = docFindBack eq text cur sub := by
  simp [docFindBackX, docFindBack, findNth_one]

theorem occAt_of_prefix (eq : Char → Char → Bool) (sub l t : Text) (p : Nat) (hl : l <+: t)
    (h : OccAt eq sub l p) : OccAt eq sub t p := by
  obtain ⟨r, rfl⟩ := hl
  obtain ⟨pre, m, post, rfl, hp, hm⟩ := h
  exact ⟨pre, m, post ++ r, by simp, hp, hm⟩

/-- the rest of the current line (`current_line_after_cursor`) -/
def lineAfter (text : Text) (cur : Nat) : Text := (text.drop cur).takeWhile notNl

/-- SOUND (forward, every count, both regions): the result is an occurrence at or behind the
    cursor — strictly behind when the cursor position is excluded — and with `in_current_line` it
    lies completely inside the current line -/
theorem docFindX_sound (eq : Char → Char → Bool) (text : Text) (cur : Nat) (sub : Text)
    (inLine incl : Bool) (n k : Nat) (hc : cur ≤ text.length)
    (h : docFindX eq text cur sub inLine incl n = some k) :
    lo incl ≤ k ∧ OccAt eq sub text (cur + k) ∧
      (inLine = true → k + sub.length ≤ (lineAfter text cur).length) := by
  -- the region that is scanned is a prefix of the text after the cursor
  have key : ∀ (t : Text), t <+: text.drop cur →
      (if !incl then (if t.length == 0 then none else (findNth eq sub n (t.drop 1)).map (· + 1))
       else findNth eq sub n t) = some k →
      lo incl ≤ k ∧ OccAt eq sub text (cur + k) ∧ k + sub.length ≤ t.length := by
    intro t ht hk
    cases incl with
    | true =>
      simp only [Bool.not_true, Bool.false_eq_true, if_false] at hk
      have ho := findNth_sound eq sub n t k hk
      refine ⟨by simp [lo], ?_, occAt_le ho⟩
      rw [← occAt_drop _ _ _ _ _ hc]
      exact occAt_of_prefix eq sub t _ k ht ho
    | false =>
      simp only [Bool.not_false, if_true] at hk
      split at hk
      · cases hk
      · rename_i hlen
        cases hr : findNth eq sub n (t.drop 1) with
        | none => rw [hr] at hk; cases hk
        | some s =>
          rw [hr] at hk
          simp only [Option.map_some, Option.some.injEq] at hk
          subst hk
          have ho := findNth_sound eq sub n _ s hr
          have hlen' : 1 ≤ t.length := by
            simp at hlen
            exact Nat.pos_of_ne_zero (by simpa using hlen)
          rw [occAt_drop _ _ _ _ _ hlen'] at ho
          refine ⟨by simp [lo], ?_, by have := occAt_le ho; omega⟩
          rw [← occAt_drop _ _ _ _ _ hc, Nat.add_comm s 1]
          exact occAt_of_prefix eq sub t _ _ ht ho
  unfold docFindX at h
  cases inLine with
  | false =>
    simp only [Bool.false_eq_true, if_false] at h
    obtain ⟨h1, h2, _⟩ := key (text.drop cur) (List.prefix_refl _) h
    exact ⟨h1, h2, by intro hf; cases hf⟩
  | true =>
    simp only [if_true] at h
    obtain ⟨h1, h2, h3⟩ := key _ (List.takeWhile_prefix notNl) h
    exact ⟨h1, h2, fun _ => h3⟩

/-- SOUND (backward, every count): the result is an occurrence that ends at or before the cursor,
    and with `in_current_line` it starts inside the current line -/
theorem docFindBackX_sound (eq : Char → Char → Bool) (text : Text) (cur : Nat) (sub : Text)
    (inLine : Bool) (n : Nat) (k : Int) (hc : cur ≤ text.length)
    (h : docFindBackX eq text cur sub inLine n = some k) :
    ∃ p : Nat, k = (p : Int) - (cur : Int) ∧ p + sub.length ≤ cur ∧ OccAt eq sub text p ∧
      (inLine = true → cur ≤ p + ((text.take cur).reverse.takeWhile notNl).length) := by
  have hlen : (text.take cur).length = cur := by simp [hc]
  have key : ∀ (t : Text), t <+: (text.take cur).reverse →
      (findNth eq sub.reverse n t).map (fun (s : Nat) => -(s : Int) - (sub.length : Int)) = some k →
      ∃ p : Nat, k = (p : Int) - (cur : Int) ∧ p + sub.length ≤ cur ∧ OccAt eq sub text p ∧
        cur ≤ p + t.length := by
    intro t ht hk
    cases hr : findNth eq sub.reverse n t with
    | none => simp [hr] at hk
    | some s =>
      simp only [hr, Option.map_some, Option.some.injEq] at hk
      have ho := findNth_sound eq sub.reverse n t s hr
      have hot := occAt_le ho
      simp only [List.length_reverse] at hot
      have ho2 := occAt_of_prefix eq _ t _ s ht ho
      rw [occAt_reverse, hlen, occAt_take _ _ _ _ _ hc] at ho2
      obtain ⟨h1, h2, h3⟩ := ho2
      exact ⟨cur - s - sub.length, by omega, by omega, h2, by omega⟩
  unfold docFindBackX at h
  cases inLine with
  | false =>
    simp only [Bool.false_eq_true, if_false] at h
    obtain ⟨p, h1, h2, h3, _⟩ := key _ (List.prefix_refl _) h
    exact ⟨p, h1, h2, h3, by intro hf; cases hf⟩
  | true =>
    simp only [if_true] at h
    obtain ⟨p, h1, h2, h3, h4⟩ := key _ (List.takeWhile_prefix notNl) h
    exact ⟨p, h1, h2, h3, fun _ => h4⟩

/-! ## a one-character needle (Vi `f` `F` `t` `T` `;` `,`): the count-th match is exactly the
    count-th character that matches -/

theorem occAt_single_iff (eq : Char → Char → Bool) (a : Char) (t : Text) (j : Nat) :
    OccAt eq [a] t j ↔ ∃ ch, t[j]? = some ch ∧ eq a ch = true := by
  rw [occAt_iff_prefixBy]
  constructor
  · rintro ⟨hj, hp⟩
    cases hd : t.drop j with
    | nil => rw [hd] at hp; simp [prefixBy] at hp
    | cons ch rest =>
      rw [hd] at hp
      simp only [prefixBy, Bool.and_true] at hp
      refine ⟨ch, ?_, hp⟩
      have := congrArg List.head? hd
      simpa [List.head?_drop] using this
  · rintro ⟨ch, h1, h2⟩
    have hj : j < t.length := by
      rcases Nat.lt_or_ge j t.length with h | h
      · exact h
      · rw [List.getElem?_eq_none h] at h1; cases h1
    refine ⟨by omega, ?_⟩
    have : t.drop j = ch :: t.drop (j + 1) := by
      rw [List.drop_eq_getElem_cons hj]
      congr 1
      rw [List.getElem?_eq_getElem hj] at h1
      exact Option.some.inj h1
    rw [this]; simp [prefixBy, h2]

theorem countP_take_zero (p : Char → Bool) (t : Text) (s : Nat)
    (h : ∀ j, j < s → ∀ ch, t[j]? = some ch → p ch = false) : (t.take s).countP p = 0 := by
  rw [List.countP_eq_zero]
  intro x hx
  obtain ⟨j, hj, rfl⟩ := List.getElem_of_mem hx
  simp only [List.length_take] at hj
  have := h j (by omega) ((t.take s)[j]) (by
    rw [List.getElem_take, List.getElem?_eq_getElem])
  simpa using this

theorem findNth_char_count (eq : Char → Char → Bool) (a : Char) (k : Nat) (t : Text) (s : Nat)
    (h : findNth eq [a] (k + 1) t = some s) :
    (∃ ch, t[s]? = some ch ∧ eq a ch = true) ∧ (t.take s).countP (eq a) = k := by
  induction k generalizing t s with
  | zero =>
    rw [findNth_one] at h
    obtain ⟨h1, h2⟩ := (findFirst_some_iff ..).1 h
    refine ⟨(occAt_single_iff ..).1 h1, countP_take_zero _ _ _ ?_⟩
    intro j hj ch hch
    have := h2 j hj
    rw [occAt_single_iff] at this
    cases he : eq a ch with
    | false => rfl
    | true => exact absurd ⟨ch, hch, he⟩ this
  | succ k ih =>
    rw [findNth_succ_succ] at h
    cases hf : findFirst eq [a] t with
    | none => simp [hf] at h
    | some s0 =>
      simp only [hf, List.isEmpty_cons, Bool.false_and, Bool.false_eq_true, if_false] at h
      have hadv : advance [a] s0 = s0 + 1 := by simp [advance]
      rw [hadv] at h
      cases hr : findNth eq [a] (k + 1) (t.drop (s0 + 1)) with
      | none => simp [hr] at h
      | some s' =>
        simp only [hr, Option.map_some, Option.some.injEq] at h
        subst h
        obtain ⟨⟨ch, hch, he⟩, hcnt⟩ := ih _ _ hr
        obtain ⟨h1, h2⟩ := (findFirst_some_iff ..).1 hf
        obtain ⟨ch0, hch0, he0⟩ := (occAt_single_iff ..).1 h1
        have hs0 : s0 < t.length := by
          rcases Nat.lt_or_ge s0 t.length with hh | hh
          · exact hh
          · rw [List.getElem?_eq_none hh] at hch0; cases hch0
        refine ⟨⟨ch, by rw [← hch, List.getElem?_drop]; congr 1; omega, he⟩, ?_⟩
        -- take (s' + (s0+1)) t = take s0 t ++ [t[s0]] ++ take s' (drop (s0+1) t)
        have hsplit : t.take (s' + (s0 + 1)) = t.take s0 ++ [ch0] ++ (t.drop (s0 + 1)).take s' := by
          rw [Nat.add_comm s' (s0 + 1), List.take_add, List.take_add]
          congr 2
          rw [List.getElem?_eq_getElem hs0] at hch0
          have := Option.some.inj hch0
          rw [← this, List.drop_eq_getElem_cons hs0]
          rfl
        rw [hsplit, List.countP_append, List.countP_append, hcnt]
        have hz : (t.take s0).countP (eq a) = 0 := by
          apply countP_take_zero
          intro j hj c hc
          have := h2 j hj
          rw [occAt_single_iff] at this
          cases hec : eq a c with
          | false => rfl
          | true => exact absurd ⟨c, hc, hec⟩ this
        simp [hz, he0]
        omega


/-! ## non-vacuity -/

section examples

private def t1 : Text := ['a', 'a', 'a', 'b', '\n', 'a', 'b']

-- matches of "aa" do not overlap: in "aaaa" the second match is at 2, there is no third
example : findNth eqCS ['a', 'a'] 2 ['a', 'a', 'a', 'a'] = some 2 ∧
    findNth eqCS ['a', 'a'] 3 ['a', 'a', 'a', 'a'] = none ∧
    findNth eqCS ['a', 'a'] 0 ['a', 'a'] = none ∧
    -- the empty pattern matches at every position, once
    findNth eqCS [] 3 ['a', 'b'] = some 2 ∧ findNth eqCS [] 4 ['a', 'b'] = none := by decide
-- docFindX_sound: third 'a' from the cursor: in the whole text it is behind the newline, in the
-- current line there is none; excluding the cursor position shifts everything by one match
example : docFindX eqCS t1 0 ['a'] false true 4 = some 5 ∧ docFindX eqCS t1 0 ['a'] true true 4 = none ∧
    docFindX eqCS t1 0 ['a'] true false 2 = some 2 ∧ docFindX eqCS t1 0 ['a'] true true 2 = some 1 ∧
    lineAfter t1 0 = ['a', 'a', 'a', 'b'] := by decide
-- docFindBackX_sound: backward from the end: 'a' at 5, then (whole text) at 2; in the line only one
example : docFindBackX eqCS t1 7 ['a'] false 1 = some (-2) ∧ docFindBackX eqCS t1 7 ['a'] false 2 = some (-5) ∧
    docFindBackX eqCS t1 7 ['a'] true 2 = none ∧ docFindBackX eqCS t1 4 ['a', 'a'] true 1 = some (-3) ∧
    docFindBackX eqCS t1 4 ['a', 'a'] true 2 = none := by decide
-- findNth_char_count
example : findNth eqCS ['a'] 3 t1 = some 2 ∧ (t1.take 2).countP (eqCS 'a') = 2 := by decide

end examples

end Ptk.C16
