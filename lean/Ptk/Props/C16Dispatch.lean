/-
  C16, round 2 — physical keys and the generated binding table (`Ptk.Model.C16Keys`,
  `Ptk.Gen.C16.bindTable`): safety for EVERY binding table, decidable side conditions re-decided on
  the table extracted from the current tree (`gen_ok`), and what follows from them: typing any
  character while searching never touches the searched buffer; C-r / C-s start a search or go to
  the next match depending on the state.
-/
import Ptk.Props.C16Keys
import Ptk.Model.C16Keys
import Ptk.Gen.C16
namespace Ptk.C16
open Ptk.Py

/-! ## any binding table -/

/-- whatever the binding table says, a physical key does nothing or what ONE key of the model does -/
theorem rawStep_cases (tbl : BindTable) (eq : Char → Char → Bool) (isSp : Char → Bool) (vi ro : Bool)
    (s : Sess) (k : RawKey) :
    rawStep tbl eq isSp vi ro s k = s ∨ ∃ x, rawStep tbl eq isSp vi ro s k = stepX eq isSp vi ro s x := by
  unfold rawStep
  cases dispatch tbl vi ro s k with
  | none => left; rfl
  | some x => right; exact ⟨x, rfl⟩

theorem rawRun_wf (tbl : BindTable) (eq : Char → Char → Bool) (isSp : Char → Bool) (vi ro : Bool)
    (s : Sess) (ks : List RawKey) (h : SessWF s) : SessWF (rawRun tbl eq isSp vi ro s ks) := by
  induction ks generalizing s with
  | nil => exact h
  | cons k ks ih =>
    simp only [rawRun]
    apply ih
    rcases rawStep_cases tbl eq isSp vi ro s k with h1 | ⟨x, h1⟩ <;> rw [h1]
    · exact h
    · exact stepX_wf eq isSp vi ro s x h

/-- for EVERY binding table: no sequence of physical keys changes the text of a read-only buffer -/
theorem rawRun_ro_lines (tbl : BindTable) (eq : Char → Char → Bool) (isSp : Char → Bool) (vi : Bool)
    (s : Sess) (ks : List RawKey) : (rawRun tbl eq isSp vi true s ks).buf.lines = s.buf.lines := by
  induction ks generalizing s with
  | nil => rfl
  | cons k ks ih =>
    simp only [rawRun]
    rw [ih]
    rcases rawStep_cases tbl eq isSp vi true s k with h1 | ⟨x, h1⟩ <;> rw [h1]
    exact stepX_lines_frame eq isSp vi true s x (Or.inr (Or.inr rfl))

/-! ## side conditions on the generated table -/

def rowIs (tbl : BindTable) (vi : Bool) (bits : Nat) (key h : String) : Bool :=
  lookup tbl vi bits key == some h

/-- what the reading of C16 relies on (all decidable, re-decided on the regenerated table):
    * while the search field has the focus (bits 3 / 11) EVERY character key of the table self-inserts
    * C-r / C-s start a search from a searchable control and step to the next match while searching
    * Enter / Escape accept, C-g / C-c abort; Vi backspace in an empty field aborts
    * from a control that is not searchable (bits 0 / 4) nothing starts a search -/
def TableOK (tbl : BindTable) : Bool :=
  tbl.all (fun r => !((r.2.1 == 3 || r.2.1 == 11) && r.2.2.1.startsWith "ch:") || r.2.2.2 == "self_insert") &&
  [false, true].all (fun vi =>
    [2, 6].all (fun b => rowIs tbl vi b "c-r" "start_reverse_incremental_search" &&
                         rowIs tbl vi b "c-s" "start_forward_incremental_search") &&
    [3, 11].all (fun b => rowIs tbl vi b "c-r" "reverse_incremental_search" &&
                          rowIs tbl vi b "c-s" "forward_incremental_search" &&
                          rowIs tbl vi b "enter" "accept_search" && rowIs tbl vi b "escape" "accept_search" &&
                          rowIs tbl vi b "c-g" "abort_search" && rowIs tbl vi b "c-c" "abort_search") &&
    rowIs tbl vi 3 "backspace" "backward_delete_char") &&
  rowIs tbl true 11 "backspace" "abort_search" && rowIs tbl false 11 "backspace" "backward_delete_char" &&
  tbl.all (fun r => !(r.2.1 == 0 || r.2.1 == 4) ||
    !(r.2.2.2 == "start_reverse_incremental_search" || r.2.2.2 == "start_forward_incremental_search"))

theorem gen_ok : TableOK Ptk.Gen.C16.bindTable = true := by decide +kernel

/-! ## consequences, for every table that satisfies the side conditions -/

theorem stateBits_searching (ro : Bool) (s : Sess) (h : s.searching = true) :
    stateBits ro s = 3 ∨ stateBits ro s = 11 := by
  unfold stateBits
  rw [if_pos h]
  split <;> simp

theorem stateBits_idle (ro : Bool) (s : Sess) (h : s.searching = false) :
    stateBits ro s = 2 ∨ stateBits ro s = 6 := by
  unfold stateBits
  simp only [h, Bool.false_eq_true, if_false]
  split <;> simp

theorem handlerKey_self_insert (k : RawKey) : handlerKey "self_insert" k = some (.base (.type k.ch)) := by
  simp [handlerKey]

/-- TYPING, for physical keys: while the search field has the focus, a character key either is
    not in the table at all (then nothing happens in the model) or self-inserts into the field;
    the searched buffer, the remembered needle and the direction stay as they are -/
theorem raw_char_frame (tbl : BindTable) (hok : TableOK tbl = true) (eq : Char → Char → Bool)
    (isSp : Char → Bool) (vi ro : Bool) (s : Sess) (k : RawKey) (hs : s.searching = true)
    (hk : k.name.startsWith "ch:" = true) :
    rawStep tbl eq isSp vi ro s k = s ∨
      rawStep tbl eq isSp vi ro s k = { s with field := s.field ++ [k.ch] } := by
  unfold rawStep dispatch lookup
  cases hf : tbl.find? (fun r => r.1 == vi && r.2.1 == stateBits ro s && r.2.2.1 == k.name) with
  | none => left; rfl
  | some r =>
    right
    have hmem := List.mem_of_find?_eq_some hf
    have hp := List.find?_some hf
    simp only [Bool.and_eq_true, beq_iff_eq] at hp
    obtain ⟨⟨_, hbits⟩, hname⟩ := hp
    simp only [TableOK, Bool.and_eq_true, List.all_eq_true] at hok
    have hrow := hok.1.1.1.1 r hmem
    have hb := stateBits_searching ro s hs
    have : ((r.2.1 == 3 || r.2.1 == 11) && r.2.2.1.startsWith "ch:") = true := by
      rw [hname, hk, hbits]
      rcases hb with hb | hb <;> simp [hb]
    simp only [this, Bool.not_true, Bool.false_or, beq_iff_eq] at hrow
    simp only [hrow, handlerKey_self_insert, stepX]
    simp [hs, type_frame]

/-- … so no character key moves the real cursor or changes the text while searching -/
theorem raw_char_buf (tbl : BindTable) (hok : TableOK tbl = true) (eq : Char → Char → Bool)
    (isSp : Char → Bool) (vi ro : Bool) (s : Sess) (k : RawKey) (hs : s.searching = true)
    (hk : k.name.startsWith "ch:" = true) :
    (rawStep tbl eq isSp vi ro s k).buf = s.buf ∧ (rawStep tbl eq isSp vi ro s k).stext = s.stext ∧
      (rawStep tbl eq isSp vi ro s k).searching = true := by
  rcases raw_char_frame tbl hok eq isSp vi ro s k hs hk with h | h <;> rw [h] <;> simp [hs]

theorem lookup_of_rowIs {tbl : BindTable} {vi : Bool} {b : Nat} {key h : String}
    (hr : rowIs tbl vi b key h = true) : lookup tbl vi b key = some h := by
  simpa [rowIs] using hr

/-- C-r / C-s: START a search when the control is searchable and no search is going on, go to the
    NEXT match (same direction) or just turn around (other direction) while searching -/
theorem raw_ctrl_r_s (tbl : BindTable) (hok : TableOK tbl = true) (eq : Char → Char → Bool)
    (isSp : Char → Bool) (vi ro : Bool) (s : Sess) (arg : Int) :
    rawStep tbl eq isSp vi ro s { name := "c-r", arg := arg } =
      step eq vi s (if s.searching then .incr .bwd else .start .bwd) ∧
    rawStep tbl eq isSp vi ro s { name := "c-s", arg := arg } =
      step eq vi s (if s.searching then .incr .fwd else .start .fwd) := by
  simp only [TableOK, Bool.and_eq_true, List.all_eq_true, List.mem_cons, List.not_mem_nil, or_false,
    forall_eq_or_imp, forall_eq] at hok
  obtain ⟨⟨⟨⟨_, hvi⟩, _⟩, _⟩, _⟩ := hok
  have hv : ∀ b, (b = 2 ∨ b = 6 → lookup tbl vi b "c-r" = some "start_reverse_incremental_search" ∧
      lookup tbl vi b "c-s" = some "start_forward_incremental_search") ∧
      (b = 3 ∨ b = 11 → lookup tbl vi b "c-r" = some "reverse_incremental_search" ∧
      lookup tbl vi b "c-s" = some "forward_incremental_search") := by
    intro b
    cases vi
    · obtain ⟨⟨⟨h2, h6⟩, ⟨h3, h11⟩⟩, _⟩ := hvi.1
      constructor
      · rintro (rfl | rfl)
        · exact ⟨lookup_of_rowIs h2.1, lookup_of_rowIs h2.2⟩
        · exact ⟨lookup_of_rowIs h6.1, lookup_of_rowIs h6.2⟩
      · rintro (rfl | rfl)
        · exact ⟨lookup_of_rowIs h3.1.1.1.1.1, lookup_of_rowIs h3.1.1.1.1.2⟩
        · exact ⟨lookup_of_rowIs h11.1.1.1.1.1, lookup_of_rowIs h11.1.1.1.1.2⟩
    · obtain ⟨⟨⟨h2, h6⟩, ⟨h3, h11⟩⟩, _⟩ := hvi.2
      constructor
      · rintro (rfl | rfl)
        · exact ⟨lookup_of_rowIs h2.1, lookup_of_rowIs h2.2⟩
        · exact ⟨lookup_of_rowIs h6.1, lookup_of_rowIs h6.2⟩
      · rintro (rfl | rfl)
        · exact ⟨lookup_of_rowIs h3.1.1.1.1.1, lookup_of_rowIs h3.1.1.1.1.2⟩
        · exact ⟨lookup_of_rowIs h11.1.1.1.1.1, lookup_of_rowIs h11.1.1.1.1.2⟩
  cases hs : s.searching with
  | true =>
    obtain ⟨h1, h2⟩ := (hv _).2 (stateBits_searching ro s hs)
    simp [rawStep, dispatch, h1, h2, handlerKey, stepX]
  | false =>
    obtain ⟨h1, h2⟩ := (hv _).1 (stateBits_idle ro s hs)
    simp [rawStep, dispatch, h1, h2, handlerKey, stepX]

/-! ## non-vacuity on the table of the current tree -/

section examples

private def L1 : List Text := [['a', 'b'], ['x', 'a', 'b', ' ', 'a', 'b']]
private def S0 : Sess :=
  { buf := ⟨L1, 1, 6⟩, field := [], stext := [], sdir := .fwd, searching := false }
private def sp (c : Char) : Bool := c == ' ' || c == '\n'
private def kc (c : Char) : RawKey := { name := charKeyName c, ch := c }

-- raw_ctrl_r_s / raw_char_frame: Emacs  C-r a b  previews, C-r C-r walk back, Enter accepts; the same physical key C-r started the search and then stepped through the matches
example :
    (rawRun Ptk.Gen.C16.bindTable eqCS sp false false S0 [{ name := "c-r" }, kc 'a', kc 'b']).buf = S0.buf ∧
    (rawRun Ptk.Gen.C16.bindTable eqCS sp false false S0 [{ name := "c-r" }, kc 'a', kc 'b']).field = ['a', 'b'] ∧
    (rawRun Ptk.Gen.C16.bindTable eqCS sp false false S0
      [{ name := "c-r" }, kc 'a', kc 'b', { name := "c-r" }, { name := "c-r" }]).buf = ⟨L1, 1, 1⟩ ∧
    -- (OBSERVATION: a backward search never includes the occurrence under the cursor —
    --  `find_backwards` has no include_current_position — so Enter after C-r goes one occurrence
    --  further back, here into the history entry; the preview shows exactly that)
    preview eqCS (rawRun Ptk.Gen.C16.bindTable eqCS sp false false S0
      [{ name := "c-r" }, kc 'a', kc 'b', { name := "c-r" }, { name := "c-r" }]) = (['a', 'b'], 0) ∧
    (rawRun Ptk.Gen.C16.bindTable eqCS sp false false S0
      [{ name := "c-r" }, kc 'a', kc 'b', { name := "c-r" }, { name := "c-r" },
       { name := "enter" }]).buf = ⟨L1, 0, 0⟩ := by decide +kernel
-- Vi: `/` starts (backward: directions reversed), `n` typed into the field is a character, `n` in
-- navigation mode is search-next; Emacs `n` on a read-only buffer jumps, on a writable one inserts
example :
    (rawRun Ptk.Gen.C16.bindTable eqCS sp true false { S0 with buf := viFix S0.buf }
      [kc '/', kc 'a', { name := "enter" }, { name := "ch:110", ch := 'n' }]).buf = ⟨L1, 1, 1⟩ ∧
    (rawStep Ptk.Gen.C16.bindTable eqCS sp false true { S0 with buf := ⟨L1, 1, 0⟩, stext := ['a', 'b'] }
      (kc 'n')).buf = ⟨L1, 1, 1⟩ ∧
    (rawStep Ptk.Gen.C16.bindTable eqCS sp false false { S0 with buf := ⟨L1, 0, 0⟩ } (kc 'n')).buf.lines
      = [['n', 'a', 'b'], ['x', 'a', 'b', ' ', 'a', 'b']] := by decide +kernel

end examples

end Ptk.C16
