/-
  C15 — the property with a `ThreadedCompleter`: the invariants of `Ptk.Props.C15` hold for
  `cfg.threaded = true` as well (`reachable_inv` does not look at the flag); here is what the
  invariant says about the thread hand-off embedded in a completer coroutine, for every state
  reachable by any interleaving of user actions, coroutine segments, producer-thread steps and
  `q.get` job steps.
-/
import Ptk.Props.C15
import Ptk.Gen.C15
namespace Ptk.C15
open Ptk.Py

variable {cfg : Config} {env : Env}

/-- **threaded_loader_ok**: a completer coroutine reading from a `ThreadedCompleter`: its
    hand-off satisfies `HInv` (so `handoff_prefix`, `queue_bounded`, `no_wait_cycle` apply), the
    iterable is the completer's result for the document the coroutine was started with, the
    consumer has not quit, and what it received so far are the items `0 … g-1`. -/
theorem threaded_loader_ok (hfix : CfgOK cfg) {s : St} (h : Reachable cfg env s)
    {m : Mode} {doc : Doc} {tok : Nat} {hs : HS} (ht : Task.cLoadT m doc tok hs ∈ s.tasks) :
    HInv hs ∧ hs.n = (env.comp doc).length ∧ hs.quitting = false ∧
    hs.got = (List.range hs.got.length).map .item ∧ hs.got.length ≤ hs.pc.sent ∧
    hs.pc.sent ≤ (env.comp doc).length := by
  obtain ⟨_, _, hok⟩ := (reachable_inv hfix h).task _ ht
  obtain ⟨g, hle, _, hgot, _⟩ := handoff_prefix hok.inv
  rw [hok.open_] at hgot
  simp only [Bool.false_eq_true, if_false, List.append_nil] at hgot
  have hg : g = hs.got.length := by rw [hgot]; simp
  subst hg
  exact ⟨hok.inv, hok.n_eq, hok.live, hgot, hle, by rw [← hok.n_eq]; exact hok.inv.sent_le⟩

/-- **loading_link_threaded**: while the state object of that coroutine is still the buffer's
    (`proceed()`), the menu is for the document the completer thread was started with and
    holds exactly the completions received through the queue so far — the first `g` the
    completer produces for that document, in order. -/
theorem loading_link_threaded (hfix : CfgOK cfg) {s : St} (h : Reachable cfg env s)
    {m : Mode} {doc : Doc} {tok : Nat} {hs : HS} (ht : Task.cLoadT m doc tok hs ∈ s.tasks)
    {st : CState} (hcs : s.cs = some st) (htok : st.token = tok) :
    st.orig = doc ∧ st.comps = (env.comp doc).take hs.got.length :=
  ((reachable_inv hfix h).task _ ht).2.1 st hcs htok

/-- **queue_holds_next_completions**: what is in flight between the thread and the coroutine
    (the result of the `q.get` job, then the queue) are the *next* items of the same iterable,
    in order, possibly followed by `_Done`: nothing computed for another document can ever
    come out of the queue of this coroutine. -/
theorem queue_holds_next_completions (hfix : CfgOK cfg) {s : St} (h : Reachable cfg env s)
    {m : Mode} {doc : Doc} {tok : Nat} {hs : HS} (ht : Task.cLoadT m doc tok hs ∈ s.tasks) :
    hs.inbox.toList ++ hs.q =
      ((List.range hs.pc.sent).drop hs.got.length).map .item ++ (if hs.pc.doneSent then [.done] else []) ∧
    hs.pc.sent ≤ (env.comp doc).length := by
  obtain ⟨hi, hn, _, hgot, hlen, hle⟩ := threaded_loader_ok hfix h ht
  have hflow := hi.flow
  refine ⟨?_, hle⟩
  rw [List.append_assoc] at hflow
  have hsplit : sentSeq hs.pc =
      (List.range hs.got.length).map .item ++
        (((List.range hs.pc.sent).drop hs.got.length).map .item ++ (if hs.pc.doneSent then [.done] else [])) := by
    unfold sentSeq
    rw [← List.append_assoc, ← List.map_append]
    congr 2
    have : List.range hs.got.length = (List.range hs.pc.sent).take hs.got.length := by
      rw [List.take_range, Nat.min_eq_left hlen]
    rw [this, List.take_append_drop]
  rw [hsplit] at hflow
  conv at hflow => lhs; rw [hgot]
  exact List.append_cancel_left hflow

/-- **closing_producer_stops**: a coroutine that left the loop (because the document changed,
    the limit was reached, the stream ended, or it was cancelled) and waits in
    `await runner_f`: `quitting` is set, so five more steps of its producer thread — whatever
    happens in between — end the thread, after which the wait is over: the `running` flag of
    the completer is never held for ever by an abandoned thread. -/
theorem closing_producer_stops (hfix : CfgOK cfg) {s : St} (h : Reachable cfg env s)
    {m : Mode} {doc : Doc} {tok : Nat} {hs : HS} {c : Bool} (ht : Task.cCloseT m doc tok hs c ∈ s.tasks) :
    hs.quitting = true ∧ HInv hs ∧
    ∀ as : List HAct, 5 ≤ as.count .prod → (hrun hs as).pc.isExit = true := by
  obtain ⟨_, _, hi, hq⟩ := (reachable_inv hfix h).task _ ht
  exact ⟨hq, hi, fun as hc => abandoned_producer_stops hs hq as hc⟩

/-- **one_thread_per_buffer**: the producer threads attached to a buffer's completer
    coroutines are counted by the `running` flag too: at most one, so two completer threads
    never feed the same buffer.  (A thread outlives its coroutine only when the coroutine is
    cancelled a second time while it waits for the thread; that thread has `quitting` set.) -/
theorem one_thread_per_buffer (hfix : CfgOK cfg) {s : St} (h : Reachable cfg env s) :
    (s.tasks.countP fun t => match t with | .cLoadT .. | .cCloseT .. => true | _ => false) ≤ 1 := by
  have := (one_at_a_time hfix h).1
  refine Nat.le_trans ?_ this
  unfold cntC
  apply List.countP_mono_left
  intro t _ ht
  cases t <;> simp_all [isC]

/-! ### the constants the hand-off model rests on, regenerated from /repo on every run -/

/-- side conditions: a positive queue bound (`Queue(maxsize=0)` would be unbounded), used as is by
    `ThreadedCompleter`; every `q.put` of the producer times out (otherwise the `Full` steps of
    the model do not exist and an abandoned producer could wait for ever); the consumer sets
    `quitting` before it waits for the thread; `_only_one_at_a_time` clears its flag in a
    `finally` (the model's `kill`). -/
theorem gen_ok :
    0 < Gen.C15.bufferSize ∧ Gen.C15.threadedDefaultSize = true ∧ Gen.C15.putHasTimeout = true ∧
    Gen.C15.quitInFinally = true ∧ Gen.C15.runningFinally = true := by decide

/-- the configuration of a `Buffer` whose completer is a `ThreadedCompleter`, with the queue
    bound found in /repo -/
def cfgGen (cwt hasV vwt hasS : Bool) (maxN : Nat) : Config :=
  ⟨cwt, hasV, vwt, hasS, maxN, true, true, Gen.C15.bufferSize⟩

theorem cfgGen_ok (cwt hasV vwt hasS : Bool) (maxN : Nat) : CfgOK (cfgGen cwt hasV vwt hasS maxN) :=
  ⟨rfl, gen_ok.1⟩

/-! ### non-vacuity -/

def cfgT : Config := ⟨true, true, true, true, 10000, true, true, 2⟩
theorem cfgT_ok : CfgOK cfgT := ⟨rfl, by decide⟩

/-- start_completion(); the coroutine starts: the producer thread is submitted, the queue is
    empty, the `q.get` job is submitted -/
def actsT0 : List Act := [.startCompletion .plain, .start 0, .resume 0]

example : (run cfgT envDemo (init docAb) actsT0).tasks =
    [.cLoadT .plain docAb 0 { HS.init 2 2 with getter := true }] := by decide

/-- the thread runs: `next()`, `next()` — two completions queued, `buffer_size` reached; the
    `q.get` job returns the first, the loop delivers it and `get_nowait()` the second -/
def actsT1 : List Act := actsT0 ++
  [.prod 0, .prod 0, .prod 0, .prod 0, .prod 0, .prod 0, .prod 0, .take 0, .resume 0, .resume 0]

example : (run cfgT envDemo (init docAb) actsT1).tasks =
      [.cLoadT .plain docAb 0 { HS.init 2 2 with pc := .next 2, got := [.item 0, .item 1] }] ∧
    ((run cfgT envDemo (init docAb) actsT1).cs.map (·.comps)) =
      some [⟨['b', 'x', 'y'], -1⟩, ⟨['b', 'x', 'z'], -1⟩] := by decide

/-- `threaded_loader_ok` / `loading_link_threaded` / `queue_holds_next_completions`: their
    hypotheses hold here -/
example : Reachable cfgT envDemo (run cfgT envDemo (init docAb) actsT1) :=
  ⟨docAb, actsT1, by unfold Doc.WF; decide, rfl⟩

/-- staleness avoided with a thread: one completion received, the user types, the second
    completion comes out of the queue: it is not shown, the loop is left, `quitting` is set
    and the coroutine waits for the thread (`closing_producer_stops` applies) … -/
def actsT2 : List Act := actsT0 ++
  [.prod 0, .prod 0, .prod 0, .prod 0, .take 0, .resume 0, .prod 0, .prod 0, .prod 0,
   .insert ['c'], .resume 0]

example :
    (run cfgT envDemo (init docAb) actsT2).cs = none ∧
    (run cfgT envDemo (init docAb) actsT2).runC = true ∧
    (run cfgT envDemo (init docAb) actsT2).tasks.head? =
      some (.cCloseT .plain docAb 0
        { HS.init 2 2 with pc := .next 2, quitting := true, got := [.item 0, .item 1] } false) := by decide

/-- … the thread sees the end of the iterable, puts `_Done` and returns; the coroutine goes
    on, finds the text extended and retries for the new document with a new thread -/
example :
    (run cfgT envDemo (init docAb) (actsT2 ++ [.prod 0, .prod 0, .resume 0])).cs =
      some ⟨⟨['a', 'b', 'c'], 3⟩, [], none, 1⟩ ∧
    (run cfgT envDemo (init docAb) (actsT2 ++ [.prod 0, .prod 0, .resume 0])).tasks.head? =
      some (.cLoadT .plain ⟨['a', 'b', 'c'], 3⟩ 1 (HS.init 2 2)) := by decide

/-- cancellation while the coroutine waits for the queue: the flag stays set until the thread
    has returned -/
example :
    (run cfgT envDemo (init docAb) (actsT0 ++ [.kill 0])).runC = true ∧
    (run cfgT envDemo (init docAb) (actsT0 ++ [.kill 0, .prod 0, .prod 0, .prod 0, .prod 0, .resume 0])).runC = false ∧
    (run cfgT envDemo (init docAb) (actsT0 ++ [.kill 0, .prod 0, .prod 0, .prod 0, .prod 0, .resume 0])).tasks = [] := by
  decide

end Ptk.C15
