/-
  C06 — incremental screen updates leave the terminal identical to a full redraw.

  Theorems over the model `Ptk.Model.C06` (the differ `diff`, the renderer state `RState`, the
  VT100 terminal model `Term` / `exec`), for screens whose cells hold one printable width-1
  character (`Narrow`; wide and multi-character cells are covered by the correspondence and the
  oracle only), with no row written at or below `Screen.height` (`WF`):

    diff_confined, no_scroll, diff_correct, diff_done            one call of `_output_screen_diff`
    render_seq, render_seq_last, incremental_eq_scratch           any sequence of render / done / erase / clear,
                                                                  every render with its own style and COLOUR DEPTH
    done_full_height_scrolls, wf_needed, depth_needed             the stated exception; why `WF`; why the depth
                                                                  belongs to the repaint test

  Lemmas: `Ptk.Props.C06Lemmas` (pieces of the differ), `Ptk.Props.C06Diff` (`diff_master`).
  More:   `Ptk.Props.C06Scroll` (`diff_done_scroll`: the exception in general),
          `Ptk.Props.C06Wide` (arbitrary cells: `diff_confined_wide`, `no_scroll_wide`, `render_seq_geo`),
          `Ptk.Props.C06WideCells` (contents with wide characters: `diff_correct_wide`, `render_seq_wide`,
          `incremental_eq_scratch_wide`).
-/
import Ptk.Props.C06Diff
namespace Ptk.C06
open Ptk.Py

variable (cw : Char → Nat)

/-- hypotheses shared by the theorems about one call of the differ -/
structure DiffOk (e : Env) (s : Screen) (pos : Point) (prev : Option Screen) (last : Option Nat)
    (isDone : Bool) (pw : Nat) (T : Term) : Prop where
  /-- a space is one column wide (runtime `wcwidth`) -/
  space : cw ' ' = 1
  /-- the default char's style has no colour / underline … (it is never counted as content); displaying
      attributes at a colour depth adds none -/
  hdef : EnvOk e
  narrow : Narrow cw s
  wf : WF s
  /-- cursor belief, SGR belief, autowrap still off in full-screen mode -/
  pre : Pre e T pos last prev
  /-- on the incremental path the terminal shows the previous screen -/
  shown : ∀ ps, prev = some ps → (isDone || pw != e.w) = false → Shows e T ps ∧ NoCont T ∧ WF ps
  /-- the rows to draw fit between the origin and the bottom of the terminal -/
  fit : min (max s.height (prevHeight prev)) e.h ≤ T.h
  rows : T.h ≤ e.h
  /-- so does the final cursor row -/
  tgt : (if isDone then min s.height e.h else s.cursor.y) < T.h

/-- **diff_confined** — every cell a printable character is written to lies in a row
    `< min(max(new.height, prev.height), rows)` and a column `< columns`. -/
theorem diff_confined (e : Env) (s : Screen) (pos : Point) (prev : Option Screen) (last : Option Nat)
    (isDone : Bool) (pw : Nat) (T : Term) (ok : DiffOk cw e s pos prev last isDone pw T) :
    ∀ p ∈ (exec cw T (diff e s pos prev last isDone pw).cmds).log,
      p ∈ T.log ∨ (p.1 < min (max s.height (prevHeight prev)) e.h ∧ p.2 < e.w) :=
  (diff_master cw e s pos prev last isDone pw T ok.space ok.hdef ok.narrow ok.wf ok.pre ok.shown ok.fit
    ok.rows ok.tgt).1.2.2.2.2.2.2.2.2.1

/-- **no_scroll** — executing the differ's output never scrolls the terminal and never asks the
    cursor to go above the origin row or left of column 0; the geometry is unchanged. -/
theorem no_scroll (e : Env) (s : Screen) (pos : Point) (prev : Option Screen) (last : Option Nat)
    (isDone : Bool) (pw : Nat) (T : Term) (ok : DiffOk cw e s pos prev last isDone pw T) :
    (exec cw T (diff e s pos prev last isDone pw).cmds).scrolled = T.scrolled ∧
    (exec cw T (diff e s pos prev last isDone pw).cmds).oob = T.oob ∧
    (exec cw T (diff e s pos prev last isDone pw).cmds).h = T.h ∧
    (exec cw T (diff e s pos prev last isDone pw).cmds).top = T.top := by
  have h := (diff_master cw e s pos prev last isDone pw T ok.space ok.hdef ok.narrow ok.wf ok.pre ok.shown
    ok.fit ok.rows ok.tgt).1.2.2.2.2.2.2.2.2.2.1
  exact ⟨h.scrolled, h.oob, h.h, h.top⟩

/-- what a terminal looks like after screen `s` has been rendered (not `done`) -/
structure Rendered (e : Env) (T : Term) (s : Screen) : Prop where
  shows : Shows e T s
  row : T.row = s.cursor.y
  col : T.col = min s.cursor.x (e.w - 1)
  sgr : T.sgr = Attrs.dflt
  autowrap : T.autowrap = !e.fullScreen
  visible : T.visible = s.showCursor
  nocont : NoCont T
  w : T.w = e.w

/-- **diff_correct** — if the terminal shows the previous screen (or anything at all, when the
    differ repaints: first render, width change), then after executing the differ's output it shows
    the new screen, the cursor is on the screen's cursor position, attributes are reset, the cursor
    is visible iff `show_cursor`, autowrap is on iff not full-screen. -/
theorem diff_correct (e : Env) (s : Screen) (pos : Point) (prev : Option Screen) (last : Option Nat)
    (pw : Nat) (T : Term) (ok : DiffOk cw e s pos prev last false pw T) :
    Rendered e (exec cw T (diff e s pos prev last false pw).cmds) s ∧
    (diff e s pos prev last false pw).pos = s.cursor ∧ (diff e s pos prev last false pw).last = none := by
  obtain ⟨⟨c1, _, c3, c4, c5, c6, c7, c8, _, c10, c11⟩, hp, hl⟩ :=
    diff_master cw e s pos prev last false pw T ok.space ok.hdef ok.narrow ok.wf ok.pre ok.shown ok.fit
      ok.rows ok.tgt
  refine ⟨⟨?_, by simpa using c3, by simpa using c4, c6, by simpa using c7, c8, c11, c5⟩,
    by simpa using hp, hl⟩
  intro y x hy hx
  rw [c10.h] at hy
  exact c1 y x hy hx (by intro h; cases h)

/-- **diff_done** — after the final (`is_done`) render the output rows show the screen, everything
    below is erased, the cursor is on column 0 of the line below the output, attributes are reset
    and autowrap is restored.  (Hypothesis `ok.tgt`: that line exists, i.e. the output does not fill
    the terminal; otherwise the terminal scrolls by one line, which is the documented exception.) -/
theorem diff_done (e : Env) (s : Screen) (pos : Point) (prev : Option Screen) (last : Option Nat)
    (pw : Nat) (T : Term) (ok : DiffOk cw e s pos prev last true pw T) :
    (∀ y x, y < min s.height e.h → x < e.w →
      ((exec cw T (diff e s pos prev last true pw).cmds).cells y x).norm =
        (tcellOf e.attrsOf (cellAt (s.row y) x)).norm) ∧
    (∀ y x, min s.height e.h ≤ y →
      (exec cw T (diff e s pos prev last true pw).cmds).cells y x = TCell.blank) ∧
    (exec cw T (diff e s pos prev last true pw).cmds).row = min s.height e.h ∧
    (exec cw T (diff e s pos prev last true pw).cmds).col = 0 ∧
    (exec cw T (diff e s pos prev last true pw).cmds).sgr = Attrs.dflt ∧
    (exec cw T (diff e s pos prev last true pw).cmds).autowrap = true := by
  obtain ⟨⟨c1, c2, c3, c4, _, c6, c7, _, _, c10, _⟩, _, _⟩ :=
    diff_master cw e s pos prev last true pw T ok.space ok.hdef ok.narrow ok.wf ok.pre ok.shown ok.fit
      ok.rows ok.tgt
  have ht := ok.tgt
  simp only [if_true] at ht c3 c4
  refine ⟨?_, c2 rfl, c3, by simpa using c4, c6, by simpa using c7⟩
  intro y x hy hx
  exact c1 y x (by omega) hx (fun _ => hy)

/-! ### sequences of renders -/

/-- the environment of one render: the style / style transformation (interned hash `key`) and the colour
    depth `app.color_depth` may change from one render to the next -/
def envFor (e : Env) (key depth : Nat) : Env := { e with key := key, depth := depth }

@[simp] theorem envFor_w (e : Env) (k d : Nat) : (envFor e k d).w = e.w := rfl
@[simp] theorem envFor_h (e : Env) (k d : Nat) : (envFor e k d).h = e.h := rfl
@[simp] theorem envFor_fs (e : Env) (k d : Nat) : (envFor e k d).fullScreen = e.fullScreen := rfl

/-- the operations of a renderer at a fixed terminal size; every render has its own style key and
    colour depth -/
inductive ROp
  /-- `render(app, layout)` where the layout produces `s` -/
  | render (s : Screen) (mouse : Bool) (key depth shape : Nat)
  /-- `render(app, layout, is_done=True)`; the next prompt starts on the cursor line -/
  | finish (s : Screen) (mouse : Bool) (key depth shape : Nat)
  /-- `erase(leave_alternate_screen)` -/
  | erase (leaveAlt : Bool)
  /-- `clear()`: erase, then erase the whole display and home the cursor -/
  | clear

/-- one operation: new renderer state, and the terminal after executing the emitted calls
    (after a `done` render the origin moves to the cursor row: `Term.rebase`) -/
def stepR (e : Env) (R : RState) (T : Term) : ROp → RState × Term
  | .render s m k d sh =>
    ((R.render (envFor e k d) s false m k sh).1, exec cw T (R.render (envFor e k d) s false m k sh).2)
  | .finish s m k d sh =>
    ((R.render (envFor e k d) s true m k sh).1, (exec cw T (R.render (envFor e k d) s true m k sh).2).rebase)
  | .erase la => ((R.erase la).1, exec cw T (R.erase la).2)
  | .clear => (R.clear.1, exec cw T R.clear.2)

def runR (e : Env) : RState → Term → List ROp → RState × Term
  | R, T, [] => (R, T)
  | R, T, op :: ops => runR e (stepR cw e R T op).1 (stepR cw e R T op).2 ops

/-- what the layout must guarantee for an operation in the current state: width-1 cells, no row
    written below `height`, cursor inside the terminal, the drawn rows fit below the origin -/
def OpOk (e : Env) (R : RState) (T : Term) : ROp → Prop
  | .render s _ _ _ _ => Narrow cw s ∧ WF s ∧ s.cursor.x < e.w ∧ s.cursor.y < T.h ∧
      min (max s.height (prevHeight R.lastScreen)) e.h ≤ T.h
  | .finish s _ _ _ _ => Narrow cw s ∧ WF s ∧ min s.height e.h < T.h ∧
      min (max s.height (prevHeight R.lastScreen)) e.h ≤ T.h
  | .erase _ => True
  | .clear => True

def RunOk (e : Env) : RState → Term → List ROp → Prop
  | _, _, [] => True
  | R, T, op :: ops => OpOk cw e R T op ∧ RunOk e (stepR cw e R T op).1 (stepR cw e R T op).2 ops

/-- the renderer's state agrees with the terminal: the terminal shows `_last_screen` as displayed under the
    style and at the colour depth of the last render, its cursor is at `_cursor_pos`, attributes are reset -/
structure RInv (e : Env) (R : RState) (T : Term) : Prop where
  w : T.w = e.w
  wpos : 0 < e.w
  row : T.row = R.pos.y
  col : T.col = R.pos.x
  posx : R.pos.x < e.w
  rowlt : T.row < T.h
  /-- the rows above the origin plus the owned rows are the terminal's rows (at most `size.rows`) -/
  tot : T.top + T.h ≤ e.h
  sgr : T.sgr = Attrs.dflt
  last : R.lastStyle = none
  aw : e.fullScreen = true → R.lastScreen.isSome = true → T.autowrap = false
  shown : ∀ ps, R.lastScreen = some ps → ∃ k d, R.styleKey = some k ∧ R.lastDepth = some d ∧
    Shows (envFor e k d) T ps ∧ NoCont T ∧ WF ps ∧ R.lastSize = some (e.h, e.w)

/-- calls without effect on the terminal model -/
def Cmd.inert : Cmd → Bool
  | .writeRaw _ | .enterAlt | .quitAlt | .enableMouse | .disableMouse | .enablePaste | .disablePaste
  | .resetCkm | .resetCursorShape | .setCursorShape _ | .scrollToPrompt | .flush | .askCpr => true
  | _ => false

theorem exec_inert (T : Term) : ∀ cs : List Cmd, (∀ c ∈ cs, c.inert = true) → exec cw T cs = T := by
  intro cs
  induction cs with
  | nil => intro _; rfl
  | cons c cs ih =>
    intro h
    have hc := h c (by simp)
    rw [exec_cons]
    have : execCmd cw T c = T := by cases c <;> simp [Cmd.inert] at hc <;> rfl
    rw [this]
    exact ih (fun c' hc' => h c' (by simp [hc']))

/-- the calls of `Renderer.reset` only make the cursor visible -/
theorem exec_reset (R : RState) (sc la : Bool) (T : Term) :
    exec cw T (R.reset sc la).2 = { T with visible := true } := by
  unfold RState.reset
  simp only []
  rw [exec_append, exec_append, exec_append, exec_append]
  rw [exec_inert cw T _ (by intro c hc; split at hc <;> simp at hc; subst hc; rfl)]
  rw [exec_inert cw T _ (by intro c hc; split at hc <;> simp at hc; subst hc; rfl)]
  rw [exec_inert cw T _ (by intro c hc; split at hc <;> simp at hc; subst hc; rfl)]
  rw [exec_inert cw T _ (by intro c hc; split at hc <;> simp at hc; subst hc; rfl)]
  rfl

theorem prevFor_cases (e : Env) (R : RState) (key : Nat) :
    R.prevFor e key = none ∨ R.prevFor e key = R.lastScreen := by
  unfold RState.prevFor; split
  · exact Or.inl rfl
  · split
    · exact Or.inl rfl
    · exact Or.inr rfl

theorem render_cmds (e : Env) (R : RState) (s : Screen) (isDone m : Bool) (k sh : Nat) :
    ∃ a b : List Cmd, (∀ c ∈ a, c.inert = true) ∧ (∀ c ∈ b, c.inert = true) ∧
      (R.render e s isDone m k sh).2 =
        a ++ ((diff e s R.pos (R.prevFor e k) R.lastStyle isDone R.prevWidth).cmds ++
          (b ++ if isDone then
            ((R.rendered e s m k sh (diff e s R.pos (R.prevFor e k) R.lastStyle isDone R.prevWidth)).reset
              false true).2 else [])) := by
  refine ⟨(if e.fullScreen && !R.inAlt then [Cmd.enterAlt] else []) ++
      ((if !R.paste then [Cmd.enablePaste] else []) ++
      ((if !R.ckm then [Cmd.resetCkm] else []) ++
      (if m && !R.mouse then [Cmd.enableMouse] else if !m && R.mouse then [Cmd.disableMouse] else []))),
    (if R.shape != some sh then [Cmd.setCursorShape sh] else []) ++ [Cmd.flush], ?_, ?_, ?_⟩
  · intro c hc
    simp only [List.mem_append] at hc
    rcases hc with hc | hc | hc | hc
    · split at hc <;> simp at hc; subst hc; rfl
    · split at hc <;> simp at hc; subst hc; rfl
    · split at hc <;> simp at hc; subst hc; rfl
    · split at hc
      · simp at hc; subst hc; rfl
      · split at hc <;> simp at hc; subst hc; rfl
  · intro c hc
    simp only [List.mem_append] at hc
    rcases hc with hc | hc
    · split at hc <;> simp at hc; subst hc; rfl
    · simp at hc; subst hc; rfl
  · unfold RState.render
    cases isDone <;> simp [List.append_assoc]

theorem prevHeight_prevFor (e : Env) (R : RState) (k : Nat) :
    prevHeight (R.prevFor e k) ≤ prevHeight R.lastScreen := by
  rcases prevFor_cases e R k with h | h <;> rw [h] <;> simp [prevHeight]

/-- the renderer invariant provides the differ's preconditions -/
theorem prevFor_some (e : Env) (R : RState) (key : Nat) (ps : Screen) (h : R.prevFor e key = some ps) :
    R.lastScreen = some ps ∧ R.styleKey = some key ∧ R.lastDepth = some e.depth := by
  unfold RState.prevFor at h
  split at h
  · cases h
  · rename_i hk
    split at h
    · cases h
    · simp only [Bool.or_eq_true, bne_iff_ne, ne_eq, not_or, Decidable.not_not] at hk
      exact ⟨h, hk.1, hk.2⟩

/-- the renderer invariant provides the differ's preconditions for a render under style `k` at depth `d` -/
theorem diffOk_of_inv (e : Env) (R : RState) (T : Term) (s : Screen) (isDone : Bool) (k d : Nat)
    (h1 : cw ' ' = 1) (hdef : EnvOk (envFor e k d)) (inv : RInv e R T)
    (hn : Narrow cw s) (wfs : WF s)
    (hfit : min (max s.height (prevHeight R.lastScreen)) e.h ≤ T.h)
    (htgt : (if isDone then min s.height e.h else s.cursor.y) < T.h) :
    DiffOk cw (envFor e k d) s R.pos (R.prevFor (envFor e k d) k) R.lastStyle isDone R.prevWidth T := by
  refine ⟨h1, hdef, hn, wfs, ⟨inv.w, inv.wpos, inv.row, ?_, inv.rowlt, ?_, ?_⟩, ?_, ?_,
    (by have := inv.tot; exact Nat.le_trans (Nat.le_add_left _ _) this), htgt⟩
  · show T.col = min R.pos.x (e.w - 1)
    rw [inv.col]; have := inv.posx; omega
  · intro hf hs
    apply inv.aw hf
    rcases prevFor_cases (envFor e k d) R k with h | h
    · rw [h] at hs; cases hs
    · rw [h] at hs; exact hs
  · rw [inv.last]; exact inv.sgr
  · intro ps hps _
    obtain ⟨hl, hk, hd⟩ := prevFor_some (envFor e k d) R k ps hps
    obtain ⟨k', d', hk', hd', a, b, c, _⟩ := inv.shown ps hl
    rw [hk] at hk'; rw [hd] at hd'
    cases hk'; cases hd'
    exact ⟨a, b, c⟩
  · have := prevHeight_prevFor (envFor e k d) R k
    show min (max s.height (prevHeight (R.prevFor (envFor e k d) k))) e.h ≤ T.h
    omega

theorem render_step (e : Env) (R : RState) (T : Term) (s : Screen) (m : Bool) (k d sh : Nat)
    (h1 : cw ' ' = 1) (hdef : EnvOk (envFor e k d))
    (inv : RInv e R T) (ok : OpOk cw e R T (.render s m k d sh)) :
    RInv e (stepR cw e R T (.render s m k d sh)).1 (stepR cw e R T (.render s m k d sh)).2 ∧
    Rendered (envFor e k d) (stepR cw e R T (.render s m k d sh)).2 s := by
  obtain ⟨hn, wfs, hcx, hcy, hfit⟩ := ok
  have dok := diffOk_of_inv cw e R T s false k d h1 hdef inv hn wfs hfit (by simpa using hcy)
  obtain ⟨rd, hpos, hlast⟩ := diff_correct cw (envFor e k d) s R.pos (R.prevFor (envFor e k d) k) R.lastStyle R.prevWidth T dok
  have hsame := no_scroll cw (envFor e k d) s R.pos (R.prevFor (envFor e k d) k) R.lastStyle false R.prevWidth T dok
  obtain ⟨a, b, ha, hb, hc⟩ := render_cmds (envFor e k d) R s false m k sh
  have hT : (stepR cw e R T (.render s m k d sh)).2 =
      exec cw T (diff (envFor e k d) s R.pos (R.prevFor (envFor e k d) k) R.lastStyle false R.prevWidth).cmds := by
    simp only [stepR, hc, Bool.false_eq_true, if_false, List.append_nil]
    rw [exec_append, exec_inert cw T a ha, exec_append, exec_inert cw _ b hb]
  have hR : (stepR cw e R T (.render s m k d sh)).1 =
      R.rendered (envFor e k d) s m k sh (diff (envFor e k d) s R.pos (R.prevFor (envFor e k d) k) R.lastStyle false R.prevWidth) := by
    simp [stepR, RState.render]
  rw [hT, hR]
  simp only [RState.rendered]
  refine ⟨⟨rd.w, inv.wpos, ?_, ?_, ?_, ?_, ?_, rd.sgr, hlast, ?_, ?_⟩, rd⟩
  · simp only [hpos]; exact rd.row
  · simp only [hpos]; rw [rd.col, envFor_w]; omega
  · simp only [hpos]; exact hcx
  · rw [rd.row, hsame.2.2.1]; exact hcy
  · rw [hsame.2.2.1, hsame.2.2.2]; exact inv.tot
  · intro hf _; rw [rd.autowrap, envFor_fs, hf]; rfl
  · intro ps hps
    simp only [Option.some.injEq] at hps
    subst hps
    exact ⟨k, d, rfl, rfl, rd.shows, rd.nocont, wfs, rfl⟩

theorem reset_state (R : RState) (sc la : Bool) :
    (R.reset sc la).1.pos = ⟨0, 0⟩ ∧ (R.reset sc la).1.lastScreen = none ∧
    (R.reset sc la).1.lastStyle = none := by
  simp [RState.reset]

theorem finish_step (e : Env) (R : RState) (T : Term) (s : Screen) (m : Bool) (k d sh : Nat)
    (h1 : cw ' ' = 1) (hdef : EnvOk (envFor e k d))
    (inv : RInv e R T) (ok : OpOk cw e R T (.finish s m k d sh)) :
    RInv e (stepR cw e R T (.finish s m k d sh)).1 (stepR cw e R T (.finish s m k d sh)).2 ∧
    (stepR cw e R T (.finish s m k d sh)).2.visible = true ∧
    (stepR cw e R T (.finish s m k d sh)).2.autowrap = true ∧
    (∀ y x, (stepR cw e R T (.finish s m k d sh)).2.cells y x = TCell.blank) := by
  obtain ⟨hn, wfs, hcy, hfit⟩ := ok
  have dok := diffOk_of_inv cw e R T s true k d h1 hdef inv hn wfs hfit (by simpa using hcy)
  obtain ⟨_, d2, d3, d4, d5, d6⟩ := diff_done cw (envFor e k d) s R.pos (R.prevFor (envFor e k d) k) R.lastStyle R.prevWidth T dok
  simp only [envFor_h] at d2 d3
  have hsame := no_scroll cw (envFor e k d) s R.pos (R.prevFor (envFor e k d) k) R.lastStyle true R.prevWidth T dok
  have hw := (diff_master cw (envFor e k d) s R.pos (R.prevFor (envFor e k d) k) R.lastStyle true R.prevWidth T dok.space dok.hdef
    dok.narrow dok.wf dok.pre dok.shown dok.fit dok.rows dok.tgt).1.2.2.2.2.1
  obtain ⟨a, b, ha, hb, hc⟩ := render_cmds (envFor e k d) R s true m k sh
  have hT : (stepR cw e R T (.finish s m k d sh)).2 =
      ({ exec cw T (diff (envFor e k d) s R.pos (R.prevFor (envFor e k d) k) R.lastStyle true R.prevWidth).cmds with
          visible := true } : Term).rebase := by
    simp only [stepR, hc, if_true]
    rw [exec_append, exec_inert cw T a ha, exec_append, exec_append, exec_inert cw _ b hb, exec_reset]
  have hR : (stepR cw e R T (.finish s m k d sh)).1 =
      ((R.rendered (envFor e k d) s m k sh (diff (envFor e k d) s R.pos (R.prevFor (envFor e k d) k) R.lastStyle true R.prevWidth)).reset
        false true).1 := by
    simp [stepR, RState.render]
  rw [hT, hR]
  generalize exec cw T (diff (envFor e k d) s R.pos (R.prevFor (envFor e k d) k) R.lastStyle true R.prevWidth).cmds = Td at *
  generalize R.rendered (envFor e k d) s m k sh (diff (envFor e k d) s R.pos (R.prevFor (envFor e k d) k) R.lastStyle true R.prevWidth) = R1 at *
  obtain ⟨p1, p2, p3⟩ := reset_state R1 false true
  refine ⟨⟨?_, inv.wpos, ?_, ?_, ?_, ?_, ?_, ?_, p3, ?_, ?_⟩, rfl, ?_, ?_⟩
  · simpa [Term.rebase, envFor_w] using hw
  · rw [p1]; rfl
  · rw [p1]; simpa [Term.rebase] using d4
  · rw [p1]; exact inv.wpos
  · simp only [Term.rebase]; rw [d3, hsame.2.2.1]; omega
  · simp only [Term.rebase]; rw [hsame.2.2.1, hsame.2.2.2, d3]; have := inv.tot; omega
  · simpa [Term.rebase] using d5
  · intro _ h; rw [p2] at h; cases h
  · intro ps h; rw [p2] at h; cases h
  · simpa [Term.rebase] using d6
  · intro y x
    simp only [Term.rebase]
    rw [d3]
    exact d2 _ _ (by omega)

/-- what the calls of `Renderer.erase` do to a terminal that agrees with the renderer -/
theorem exec_erase (e : Env) (R : RState) (T : Term) (la : Bool) (inv : RInv e R T) :
    exec cw T (R.erase la).2 =
      { T with row := 0, col := 0, sgr := Attrs.dflt, autowrap := true, visible := true,
               cells := fun _ _ => TCell.blank } := by
  simp only [RState.erase]
  rw [exec_append, exec_reset]
  simp only [exec_cons, exec_nil, execCmd]
  rw [eraseFrom_eq _ _ (Or.inr (by simp [inv.col]))]
  have hr : T.row - R.pos.y = 0 := by rw [inv.row]; omega
  have hcl : T.col - R.pos.x = 0 := by rw [inv.col]; omega
  have ho1 : ¬ T.col < R.pos.x := by rw [inv.col]; omega
  have ho2 : ¬ T.row < R.pos.y := by rw [inv.row]; omega
  simp only [hr, hcl, ho1, ho2, decide_false, Bool.or_false, inv.sgr, erased_dflt]
  congr 1
  funext y x
  have : y = 0 ∨ 0 < y := by omega
  simp [this]

theorem erase_step (e : Env) (R : RState) (T : Term) (la : Bool) (inv : RInv e R T) :
    RInv e (stepR cw e R T (.erase la)).1 (stepR cw e R T (.erase la)).2 ∧
    (∀ y x, (stepR cw e R T (.erase la)).2.cells y x = TCell.blank) ∧
    (stepR cw e R T (.erase la)).2.autowrap = true ∧
    (stepR cw e R T (.erase la)).2.scrolled = T.scrolled ∧
    (stepR cw e R T (.erase la)).2.oob = T.oob := by
  obtain ⟨p1, p2, p3⟩ := reset_state R false la
  have he : (stepR cw e R T (.erase la)).1 = (R.reset false la).1 := rfl
  have hT : (stepR cw e R T (.erase la)).2 =
      { T with row := 0, col := 0, sgr := Attrs.dflt, autowrap := true, visible := true,
               cells := fun _ _ => TCell.blank } := exec_erase cw e R T la inv
  rw [hT]
  refine ⟨⟨inv.w, inv.wpos, ?_, ?_, ?_, ?_, inv.tot, rfl, ?_, ?_, ?_⟩, fun _ _ => rfl, rfl, rfl, rfl⟩
  · rw [he, p1]
  · rw [he, p1]
  · rw [he, p1]; exact inv.wpos
  · have := inv.rowlt; simp only; omega
  · rw [he]; exact p3
  · intro _ h; rw [he, p2] at h; cases h
  · intro ps h; rw [he, p2] at h; cases h

/-- `clear()`: the whole display is blank, the origin is the top of the terminal, the cursor is home -/
theorem clear_step (e : Env) (R : RState) (T : Term) (inv : RInv e R T) :
    RInv e (stepR cw e R T .clear).1 (stepR cw e R T .clear).2 ∧
    (∀ y x, (stepR cw e R T .clear).2.cells y x = TCell.blank) ∧
    (stepR cw e R T .clear).2.top = 0 ∧ (stepR cw e R T .clear).2.h = T.top + T.h := by
  obtain ⟨p1, p2, p3⟩ := reset_state R false true
  have he : (stepR cw e R T .clear).1 = (R.reset false true).1 := rfl
  have hT : (stepR cw e R T .clear).2 =
      { T with row := 0, col := 0, sgr := Attrs.dflt, autowrap := true, visible := true,
               h := T.top + T.h, top := 0, cells := fun _ _ => TCell.blank } := by
    simp only [stepR, RState.clear]
    rw [exec_append, exec_erase cw e R T true inv]
    simp only [exec_cons, exec_nil, execCmd, erased_dflt]
    congr 1
    · funext y x; split <;> rfl
  rw [hT]
  refine ⟨⟨inv.w, inv.wpos, ?_, ?_, ?_, ?_, ?_, rfl, ?_, ?_, ?_⟩, fun _ _ => rfl, rfl, rfl⟩
  · rw [he, p1]
  · rw [he, p1]
  · rw [he, p1]; exact inv.wpos
  · have := inv.rowlt; simp only; omega
  · simp only; have := inv.tot; omega
  · rw [he]; exact p3
  · intro _ h; rw [he, p2] at h; cases h
  · intro ps h; rw [he, p2] at h; cases h

theorem stepR_inv (e : Env) (h1 : cw ' ' = 1) (hdef : ∀ k d, EnvOk (envFor e k d))
    (R : RState) (T : Term) (op : ROp) (inv : RInv e R T) (ok : OpOk cw e R T op) :
    RInv e (stepR cw e R T op).1 (stepR cw e R T op).2 := by
  cases op with
  | render s m k d sh => exact (render_step cw e R T s m k d sh h1 (hdef k d) inv ok).1
  | finish s m k d sh => exact (finish_step cw e R T s m k d sh h1 (hdef k d) inv ok).1
  | erase la => exact (erase_step cw e R T la inv).1
  | clear => exact (clear_step cw e R T inv).1

/-- **render_seq** — the invariant "the terminal shows `_last_screen` (as displayed under the style and at the
    colour depth of the last render), the cursor is at `_cursor_pos`, attributes are reset" is carried over
    every finite sequence of renders, done-renders, erases and clears, where EVERY render may use another
    style / style transformation (`key`) and another colour depth. -/
theorem render_seq (e : Env) (h1 : cw ' ' = 1) (hdef : ∀ k d, EnvOk (envFor e k d)) :
    ∀ (ops : List ROp) (R : RState) (T : Term), RInv e R T → RunOk cw e R T ops →
      RInv e (runR cw e R T ops).1 (runR cw e R T ops).2 := by
  intro ops
  induction ops with
  | nil => intro R T inv _; exact inv
  | cons op ops ih =>
    intro R T inv ok
    exact ih _ _ (stepR_inv cw e h1 hdef R T op inv ok.1) ok.2

theorem runR_append (e : Env) : ∀ (a b : List ROp) (R : RState) (T : Term),
    runR cw e R T (a ++ b) = runR cw e (runR cw e R T a).1 (runR cw e R T a).2 b := by
  intro a
  induction a with
  | nil => intro b R T; rfl
  | cons op a ih => intro b R T; exact ih b _ _

theorem runOk_append (e : Env) : ∀ (a b : List ROp) (R : RState) (T : Term),
    RunOk cw e R T (a ++ b) → RunOk cw e R T a ∧ RunOk cw e (runR cw e R T a).1 (runR cw e R T a).2 b := by
  intro a
  induction a with
  | nil => intro b R T h; exact ⟨trivial, h⟩
  | cons op a ih =>
    intro b R T h
    obtain ⟨h1, h2⟩ := h
    obtain ⟨i1, i2⟩ := ih b _ _ h2
    exact ⟨⟨h1, i1⟩, i2⟩

/-- after any sequence of operations that ends with a render of `s`, the terminal shows `s`, the cursor
    is on `s.cursor`, attributes are reset, the cursor is visible iff `s.showCursor` -/
theorem render_seq_last (e : Env) (h1 : cw ' ' = 1) (hdef : ∀ k d, EnvOk (envFor e k d))
    (ops : List ROp) (R : RState) (T : Term) (s : Screen) (m : Bool) (k d sh : Nat)
    (inv : RInv e R T) (ok : RunOk cw e R T (ops ++ [.render s m k d sh])) :
    Rendered (envFor e k d) (runR cw e R T (ops ++ [.render s m k d sh])).2 s := by
  obtain ⟨o1, o2⟩ := runOk_append cw e ops _ R T ok
  have inv' := render_seq cw e h1 hdef ops R T inv o1
  rw [runR_append]
  exact (render_step cw e _ _ s m k d sh h1 (hdef k d) inv' o2.1).2

/-- **incremental_eq_scratch** — the terminal after any sequence of operations (styles and colour depths
    changing at will between the renders) ending with a render of `s` under style `k` at depth `d` is visibly
    identical (cells of the owned rows, cursor position, cursor visibility, SGR state,
    autowrap) to a terminal of the same geometry with arbitrary previous contents on which `s` is drawn
    from scratch (first render: `previous_screen = None`, cursor on the origin). -/
theorem incremental_eq_scratch (e : Env) (h1 : cw ' ' = 1) (hdef : ∀ k d, EnvOk (envFor e k d))
    (ops : List ROp) (R : RState) (T : Term) (s : Screen) (m : Bool) (k d sh : Nat)
    (inv : RInv e R T) (ok : RunOk cw e R T (ops ++ [.render s m k d sh]))
    (junk : Nat → Nat → TCell) :
    (∀ y x, y < (runR cw e R T (ops ++ [.render s m k d sh])).2.h → x < e.w →
      ((runR cw e R T (ops ++ [.render s m k d sh])).2.cells y x).norm =
      ((exec cw (Term.fresh e.w (runR cw e R T (ops ++ [.render s m k d sh])).2.h 0 junk)
          (diff (envFor e k d) s ⟨0, 0⟩ none none false 0).cmds).cells y x).norm) ∧
    (runR cw e R T (ops ++ [.render s m k d sh])).2.row =
      (exec cw (Term.fresh e.w (runR cw e R T (ops ++ [.render s m k d sh])).2.h 0 junk)
          (diff (envFor e k d) s ⟨0, 0⟩ none none false 0).cmds).row ∧
    (runR cw e R T (ops ++ [.render s m k d sh])).2.col =
      (exec cw (Term.fresh e.w (runR cw e R T (ops ++ [.render s m k d sh])).2.h 0 junk)
          (diff (envFor e k d) s ⟨0, 0⟩ none none false 0).cmds).col ∧
    (runR cw e R T (ops ++ [.render s m k d sh])).2.visible =
      (exec cw (Term.fresh e.w (runR cw e R T (ops ++ [.render s m k d sh])).2.h 0 junk)
          (diff (envFor e k d) s ⟨0, 0⟩ none none false 0).cmds).visible ∧
    (runR cw e R T (ops ++ [.render s m k d sh])).2.sgr =
      (exec cw (Term.fresh e.w (runR cw e R T (ops ++ [.render s m k d sh])).2.h 0 junk)
          (diff (envFor e k d) s ⟨0, 0⟩ none none false 0).cmds).sgr ∧
    (runR cw e R T (ops ++ [.render s m k d sh])).2.autowrap =
      (exec cw (Term.fresh e.w (runR cw e R T (ops ++ [.render s m k d sh])).2.h 0 junk)
          (diff (envFor e k d) s ⟨0, 0⟩ none none false 0).cmds).autowrap := by
  have rd := render_seq_last cw e h1 hdef ops R T s m k d sh inv ok
  obtain ⟨o1, o2⟩ := runOk_append cw e ops _ R T ok
  have inv' := render_seq cw e h1 hdef ops R T inv o1
  have invF := render_seq cw e h1 hdef _ R T inv ok
  obtain ⟨hn, wfs, hcx, hcy, hfit⟩ := o2.1
  -- the geometry is not changed by the last render
  have hh : (runR cw e R T (ops ++ [.render s m k d sh])).2.h = (runR cw e R T ops).2.h := by
    rw [runR_append]
    have dok := diffOk_of_inv cw e _ _ s false k d h1 (hdef k d) inv' hn wfs hfit (by simpa using hcy)
    have hs := no_scroll cw (envFor e k d) s _ _ _ false _ _ dok
    obtain ⟨a, b, ha, hb, hc⟩ := render_cmds (envFor e k d) (runR cw e R T ops).1 s false m k sh
    show (exec cw _ ((runR cw e R T ops).1.render (envFor e k d) s false m k sh).2).h = _
    rw [hc]
    simp only [Bool.false_eq_true, if_false, List.append_nil]
    rw [exec_append, exec_inert cw _ a ha, exec_append, exec_inert cw _ b hb]
    exact hs.2.2.1
  generalize (runR cw e R T (ops ++ [.render s m k d sh])).2 = Ti at *
  have dok0 : DiffOk cw (envFor e k d) s ⟨0, 0⟩ none none false 0 (Term.fresh e.w Ti.h 0 junk) := by
    refine ⟨h1, hdef k d, hn, wfs, ⟨rfl, invF.wpos, rfl, by simp [Term.fresh], ?_, ?_, rfl⟩, ?_, ?_, ?_, ?_⟩
    · have := invF.rowlt; simp only [Term.fresh]; omega
    · intro _ h; cases h
    · intro ps h; cases h
    · simp only [Term.fresh, prevHeight, envFor_h]; rw [hh]
      have : prevHeight (runR cw e R T ops).1.lastScreen ≥ 0 := Nat.zero_le _
      omega
    · simp only [Term.fresh, envFor_h]; have := invF.tot; omega
    · simp only [Term.fresh, Bool.false_eq_true, if_false]; rw [hh]; exact hcy
  obtain ⟨rs, _, _⟩ := diff_correct cw (envFor e k d) s ⟨0, 0⟩ none none 0 _ dok0
  have hsame := no_scroll cw (envFor e k d) s ⟨0, 0⟩ none none false 0 _ dok0
  refine ⟨?_, ?_, ?_, ?_, ?_, ?_⟩
  · intro y x hy hx
    rw [rd.shows y x hy hx, rs.shows y x (by rw [hsame.2.2.1]; exact hy) hx]
  · rw [rd.row, rs.row]
  · rw [rd.col, rs.col]
  · rw [rd.visible, rs.visible]
  · rw [rd.sgr, rs.sgr]
  · rw [rd.autowrap, rs.autowrap]

/-! ### non-vacuity: the hypotheses hold on concrete, non-trivial states -/

section Examples

/-- every character one column wide -/
def cw1 : Char → Nat := fun _ => 1

def exAttrs : Nat → Attrs := fun i =>
  if i = 2 then { Attrs.dflt with bg := ['r', 'e', 'd'] } else Attrs.dflt

/-- an encoder that drops the colours at depth 1 (monochrome) and keeps everything otherwise -/
def exEnc : Nat → Attrs → Attrs := fun d a => if d = 1 then { a with fg := [], bg := [] } else a

/-- 3 columns, 3 rows, inline mode, 8-bit colours -/
def exEnv : Env := ⟨3, 3, false, fun _ => exAttrs, 0, 8, exEnc⟩

theorem exEnvOk : ∀ k d, EnvOk (envFor exEnv k d) := by
  intro k d
  refine ⟨rfl, ?_⟩
  intro a ha
  show (exEnc d a).hasStyle = false
  unfold exEnc
  split
  · simp only [Attrs.hasStyle, Bool.or_eq_false_iff] at ha ⊢
    simp [ha.1.1.1.2, ha.1.1.2, ha.1.2, ha.2]
  · exact ha
/-- `ab` on one row, cursor after it -/
def exS1 : Screen := ⟨[[⟨['a'], 0, 1⟩, ⟨['b'], 0, 1⟩]], [], 1, ⟨2, 0⟩, true⟩
/-- `a` / a red blank: the first row shrinks, a second row appears, the cursor moves down -/
def exS2 : Screen := ⟨[[⟨['a'], 0, 1⟩], [⟨[' '], 2, 1⟩]], [], 2, ⟨1, 1⟩, false⟩
/-- a terminal full of junk, cursor on the origin -/
def exT0 : Term := Term.fresh 3 3 0 (fun _ _ => ⟨['#'], Attrs.dflt⟩)
def exR0 : RState := RState.init.1

def narrowB (c : Cell) : Bool :=
  match c.txt with
  | [k] => decide (32 ≤ k.toNat) && decide (k.toNat ≠ 127) && decide (c.width = 1)
  | _ => false

theorem narrow_of_check (s : Screen) (h : (s.rows.all fun r => r.all narrowB) = true) :
    Narrow cw1 s := by
  intro row hr c hc
  have h1 := List.all_eq_true.mp h row hr
  have h2 := List.all_eq_true.mp h1 c hc
  unfold narrowB at h2
  split at h2
  · rename_i k hk
    simp only [Bool.and_eq_true, decide_eq_true_eq] at h2
    exact ⟨⟨k, hk, h2.1.1, h2.1.2, rfl⟩, h2.2⟩
  · cases h2

theorem exInv : RInv exEnv exR0 exT0 :=
  ⟨rfl, by decide, rfl, rfl, by decide, by decide, by decide, rfl, rfl,
   (fun h _ => by cases h), (fun ps h => by cases h)⟩

def exOps : List ROp := [.render exS1 false 0 8 0, .render exS2 false 0 8 0]

theorem exOk : RunOk cw1 exEnv exR0 exT0 (exOps ++ [.render exS1 false 0 8 0]) := by
  refine ⟨⟨narrow_of_check _ (by decide), by unfold WF; decide, by decide, by decide, by decide⟩,
    ⟨narrow_of_check _ (by decide), by unfold WF; decide, by decide, by decide, by decide⟩,
    ⟨narrow_of_check _ (by decide), by unfold WF; decide, by decide, by decide, by decide⟩, trivial⟩

/-- `render_seq` / `render_seq_last` / `diff_correct` are not vacuous: a first render on a junk
    terminal, an incremental render that shrinks one row and adds another, and a third one -/
example : Rendered exEnv (runR cw1 exEnv exR0 exT0 (exOps ++ [.render exS1 false 0 8 0])).2 exS1 :=
  render_seq_last cw1 exEnv rfl exEnvOk exOps exR0 exT0 exS1 false 0 8 0 exInv exOk

/-- … and the model really computes what the theorem says: after the second render the red blank is
    on row 1, the `b` of the first screen is gone, the junk is erased -/
example : (runR cw1 exEnv exR0 exT0 exOps).2.cells 1 0 = ⟨[' '], exAttrs 2⟩ ∧
    (runR cw1 exEnv exR0 exT0 exOps).2.cells 0 0 = ⟨['a'], Attrs.dflt⟩ ∧
    (runR cw1 exEnv exR0 exT0 exOps).2.cells 0 1 = TCell.blank ∧
    (runR cw1 exEnv exR0 exT0 exOps).2.cells 2 2 = TCell.blank ∧
    (runR cw1 exEnv exR0 exT0 exOps).2.row = 1 ∧ (runR cw1 exEnv exR0 exT0 exOps).2.col = 1 ∧
    (runR cw1 exEnv exR0 exT0 exOps).2.visible = false := by
  decide

/-- the second render is incremental (it does not erase the display) -/
example : Cmd.eraseDown ∉ ((exR0.render exEnv exS1 false false 0 0).1.render exEnv exS2 false false 0 0).2 ∧
    Cmd.eraseEol ∈ ((exR0.render exEnv exS1 false false 0 0).1.render exEnv exS2 false false 0 0).2 := by
  decide

/-- `finish_step` / `diff_done` are not vacuous: two renders and a done render (the output, 2 rows,
    leaves a free line below it on the 3-row terminal) -/
theorem exOkDone : RunOk cw1 exEnv exR0 exT0 (exOps ++ [.finish exS2 false 0 8 0]) := by
  refine ⟨⟨narrow_of_check _ (by decide), by unfold WF; decide, by decide, by decide, by decide⟩,
    ⟨narrow_of_check _ (by decide), by unfold WF; decide, by decide, by decide, by decide⟩,
    ⟨narrow_of_check _ (by decide), by unfold WF; decide, by decide, by decide⟩, trivial⟩

example : RInv exEnv (runR cw1 exEnv exR0 exT0 (exOps ++ [.finish exS2 false 0 8 0])).1
    (runR cw1 exEnv exR0 exT0 (exOps ++ [.finish exS2 false 0 8 0])).2 :=
  render_seq cw1 exEnv rfl exEnvOk _ exR0 exT0 exInv exOkDone

/-- after the done render the origin is the line below the output: one row is left, cursor on column 0 -/
example : (runR cw1 exEnv exR0 exT0 (exOps ++ [.finish exS2 false 0 8 0])).2.h = 1 ∧
    (runR cw1 exEnv exR0 exT0 (exOps ++ [.finish exS2 false 0 8 0])).2.top = 2 ∧
    (runR cw1 exEnv exR0 exT0 (exOps ++ [.finish exS2 false 0 8 0])).2.col = 0 ∧
    (runR cw1 exEnv exR0 exT0 (exOps ++ [.finish exS2 false 0 8 0])).2.autowrap = true ∧
    (runR cw1 exEnv exR0 exT0 (exOps ++ [.finish exS2 false 0 8 0])).2.scrolled = 0 := by
  decide

/-- a screen as high as the terminal -/
def exS3 : Screen := ⟨[[⟨['a'], 0, 1⟩], [], [⟨['c'], 0, 1⟩]], [], 3, ⟨0, 0⟩, true⟩

/-- **the stated exception**: when the output fills the terminal, the `done` render's newline below the
    last row scrolls the terminal by one line (hypothesis `tgt` of `diff_done` excludes exactly this) -/
theorem done_full_height_scrolls :
    (exec cw1 exT0 (diff exEnv exS3 ⟨0, 0⟩ none none true 0).cmds).scrolled = 1 ∧
    (exec cw1 exT0 (diff exEnv exS3 ⟨0, 0⟩ none none false 0).cmds).scrolled = 0 := by
  decide

/-- a screen with a written row at `height` (not `WF`) -/
def exBad : Screen := ⟨[[⟨['a'], 0, 1⟩], [⟨['z'], 0, 1⟩]], [], 1, ⟨0, 0⟩, true⟩
def exBad2 : Screen := { exBad with height := 2 }

/-- **`WF` is needed**: rows at or below `Screen.height` are not drawn by a from-scratch render but are
    compared by the next incremental one; with `z` hidden below `height = 1` and then `height = 2`, the
    incremental terminal lacks the `z` that the screen has (an artefact of ill-formed screens: layouts
    never produce them) -/
theorem wf_needed :
    ((exec cw1 (exec cw1 exT0 (diff exEnv exBad ⟨0, 0⟩ none none false 0).cmds)
        (diff exEnv exBad2 ⟨0, 0⟩ (some exBad) none false 3).cmds).cells 1 0).norm ≠
      (tcellOf exEnv.attrsOf (cellAt (exBad2.row 1) 0)).norm := by
  decide

/-- the colour depth changes between two renders of the same screen: 8 bit, then monochrome -/
def exOpsDepth : List ROp := [.render exS2 false 0 8 0]

theorem exOkDepth : RunOk cw1 exEnv exR0 exT0 (exOpsDepth ++ [.render exS2 false 0 1 0]) := by
  refine ⟨⟨narrow_of_check _ (by decide), by unfold WF; decide, by decide, by decide, by decide⟩,
    ⟨narrow_of_check _ (by decide), by unfold WF; decide, by decide, by decide, by decide⟩, trivial⟩

/-- `render_seq_last` across a depth change: the terminal shows the screen as displayed at the NEW depth -/
example : Rendered (envFor exEnv 0 1)
    (runR cw1 exEnv exR0 exT0 (exOpsDepth ++ [.render exS2 false 0 1 0])).2 exS2 :=
  render_seq_last cw1 exEnv rfl exEnvOk exOpsDepth exR0 exT0 exS2 false 0 1 0 exInv exOkDepth

/-- … the model computes it: the render at the new depth repaints (erase-down), the blank that was red at
    8 bit is shown without colour -/
example :
    (runR cw1 exEnv exR0 exT0 exOpsDepth).2.cells 1 0 = ⟨[' '], exAttrs 2⟩ ∧
    (runR cw1 exEnv exR0 exT0 (exOpsDepth ++ [.render exS2 false 0 1 0])).2.cells 1 0 = ⟨[' '], Attrs.dflt⟩ ∧
    Cmd.eraseDown ∈ ((exR0.render exEnv exS2 false false 0 0).1.render (envFor exEnv 0 1) exS2 false false 0 0).2 ∧
    Cmd.eraseDown ∉ ((exR0.render exEnv exS2 false false 0 0).1.render (envFor exEnv 0 8) exS2 false false 0 0).2 := by
  decide

/-- **the colour depth must be part of the repaint test**: if the renderer kept the previous screen across
    a depth change (the differ called with the old screen at the new depth), the unchanged red blank would
    keep its 8-bit colour, which a from-scratch draw at depth 1 does not show -/
theorem depth_needed :
    ((exec cw1 (exec cw1 exT0 (diff exEnv exS2 ⟨0, 0⟩ none none false 0).cmds)
        (diff (envFor exEnv 0 1) exS2 ⟨1, 1⟩ (some exS2) none false 3).cmds).cells 1 0).norm ≠
      (tcellOf (envFor exEnv 0 1).attrsOf (cellAt (exS2.row 1) 0)).norm := by
  decide
end Examples
end Ptk.C06
