/-
  C06 — theorems about the screen differ model (`Ptk.Model.C06`).
-/
import Ptk.Model.C06
namespace Ptk.C06
open Ptk.Py

theorem exec_append (cw : Char → Nat) (t : Term) (a b : List Cmd) :
    exec cw t (a ++ b) = exec cw (exec cw t a) b := by
  simp [exec, List.foldl_append]

end Ptk.C06
