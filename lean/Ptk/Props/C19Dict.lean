/-
  C19 — `Style.from_dict(..., priority)`: the `MOST_PRECISE` ordering is THE stable sort by the
  number of class-name elements, `DICT_KEY_ORDER` keeps the dict order; consequences for the
  cascade (within one class-name step the most precise applicable rule is applied last).
-/
import Ptk.Model.C19Dict
import Ptk.Props.C19Cascade
namespace Ptk.C19
open Ptk.Py

section sort
variable {α : Type}

theorem insertByKey_perm (key : α → Nat) (x : α) (l : List α) : (insertByKey key x l).Perm (x :: l) := by
  induction l with
  | nil => simp [insertByKey]
  | cons y ys ih =>
    simp only [insertByKey]
    split
    · exact List.Perm.refl _
    · exact (List.Perm.cons y ih).trans (List.Perm.swap x y ys)

theorem insertByKey_sorted (key : α → Nat) (x : α) (l : List α)
    (h : l.Pairwise fun a b => key a ≤ key b) :
    (insertByKey key x l).Pairwise fun a b => key a ≤ key b := by
  induction l with
  | nil => simp [insertByKey]
  | cons y ys ih =>
    rw [List.pairwise_cons] at h
    simp only [insertByKey]
    split
    · rename_i hlt
      rw [List.pairwise_cons]
      refine ⟨fun z hz => ?_, List.pairwise_cons.mpr h⟩
      rcases List.mem_cons.mp hz with rfl | hz
      · exact Nat.le_of_lt hlt
      · exact Nat.le_trans (Nat.le_of_lt hlt) (h.1 z hz)
    · rename_i hge
      rw [List.pairwise_cons]
      refine ⟨fun z hz => ?_, ih h.2⟩
      rcases List.mem_cons.mp ((insertByKey_perm key x ys).mem_iff.mp hz) with rfl | hz
      · exact Nat.le_of_not_lt hge
      · exact h.1 z hz

/-- on a sorted list the new element lands BEHIND the elements with the same key -/
theorem insertByKey_filter (key : α → Nat) (x : α) (l : List α) (k : Nat)
    (h : l.Pairwise fun a b => key a ≤ key b) :
    (insertByKey key x l).filter (fun a => key a == k) =
      l.filter (fun a => key a == k) ++ [x].filter (fun a => key a == k) := by
  induction l with
  | nil => simp [insertByKey]
  | cons y ys ih =>
    rw [List.pairwise_cons] at h
    simp only [insertByKey]
    split
    · rename_i hlt
      by_cases hk : key x = k
      · have hnone : (y :: ys).filter (fun a => key a == k) = [] := by
          rw [List.filter_eq_nil_iff]
          intro z hz
          have : key y ≤ key z := by
            rcases List.mem_cons.mp hz with rfl | hz
            · exact Nat.le_refl _
            · exact h.1 z hz
          simp only [beq_iff_eq]
          omega
        rw [List.filter_cons, hnone]
        simp [hk]
      · rw [List.filter_cons]
        simp [hk]
    · rw [List.filter_cons, ih h.2, List.filter_cons (x := y)]
      split <;> simp

theorem foldl_insert_spec (key : α → Nat) (l acc : List α)
    (h : acc.Pairwise fun a b => key a ≤ key b) :
    ((l.foldl (fun acc x => insertByKey key x acc) acc).Pairwise fun a b => key a ≤ key b) ∧
    (l.foldl (fun acc x => insertByKey key x acc) acc).Perm (acc ++ l) ∧
    ∀ k, (l.foldl (fun acc x => insertByKey key x acc) acc).filter (fun a => key a == k) =
      acc.filter (fun a => key a == k) ++ l.filter (fun a => key a == k) := by
  induction l generalizing acc with
  | nil => simp [h]
  | cons x xs ih =>
    obtain ⟨h1, h2, h3⟩ := ih (insertByKey key x acc) (insertByKey_sorted key x acc h)
    refine ⟨h1, ?_, fun k => ?_⟩
    · refine h2.trans ?_
      refine (List.Perm.append_right xs (insertByKey_perm key x acc)).trans ?_
      simpa using (List.perm_middle (a := x) (l₁ := acc) (l₂ := xs)).symm
    · rw [List.foldl_cons, h3 k, insertByKey_filter key x acc k h, List.filter_cons (x := x) (xs := xs)]
      simp only [List.filter_cons, List.filter_nil]
      split <;> simp

/-- `sorted(l, key)` is sorted by the key -/
theorem sortedByKey_sorted (key : α → Nat) (l : List α) :
    (sortedByKey key l).Pairwise fun a b => key a ≤ key b :=
  (foldl_insert_spec key l [] List.Pairwise.nil).1

/-- … is a permutation of `l` -/
theorem sortedByKey_perm (key : α → Nat) (l : List α) : (sortedByKey key l).Perm l := by
  simpa [sortedByKey] using (foldl_insert_spec key l [] List.Pairwise.nil).2.1

/-- … and stable: the elements of each key keep their relative order -/
theorem sortedByKey_stable (key : α → Nat) (l : List α) (k : Nat) :
    (sortedByKey key l).filter (fun a => key a == k) = l.filter (fun a => key a == k) := by
  simpa [sortedByKey] using (foldl_insert_spec key l [] List.Pairwise.nil).2.2 k

/-- two key-sorted lists with the same elements of every key in the same order are equal: the
    three properties above determine the result, so EVERY stable sort computes `sortedByKey` -/
theorem stable_sorted_unique (key : α → Nat) (l1 l2 : List α)
    (h1 : l1.Pairwise fun a b => key a ≤ key b) (h2 : l2.Pairwise fun a b => key a ≤ key b)
    (hf : ∀ k, l1.filter (fun a => key a == k) = l2.filter (fun a => key a == k)) : l1 = l2 := by
  induction l1 generalizing l2 with
  | nil =>
    cases l2 with
    | nil => rfl
    | cons b t2 =>
      have := hf (key b)
      simp at this
  | cons a t1 ih =>
    cases l2 with
    | nil =>
      have := hf (key a)
      simp at this
    | cons b t2 =>
      rw [List.pairwise_cons] at h1 h2
      have hab : key a ≤ key b := by
        have hb : b ∈ (a :: t1).filter (fun x => key x == key b) := by
          rw [hf (key b)]; simp
        have hb' := (List.mem_filter.mp hb)
        rcases List.mem_cons.mp hb'.1 with rfl | hm
        · exact Nat.le_refl _
        · exact h1.1 b hm
      have hba : key b ≤ key a := by
        have ha : a ∈ (b :: t2).filter (fun x => key x == key a) := by
          rw [← hf (key a)]; simp
        have ha' := (List.mem_filter.mp ha)
        rcases List.mem_cons.mp ha'.1 with rfl | hm
        · exact Nat.le_refl _
        · exact h2.1 a hm
      have hk : key a = key b := Nat.le_antisymm hab hba
      have hhead := hf (key a)
      rw [List.filter_cons, List.filter_cons (x := b)] at hhead
      simp only [beq_self_eq_true, if_true, hk] at hhead
      have hab' : a = b := (List.cons.inj hhead).1
      subst hab'
      congr 1
      apply ih t2 h1.2 h2.2
      intro k
      have := hf k
      rw [List.filter_cons, List.filter_cons (x := a) (xs := t2)] at this
      split at this
      · exact (List.cons.inj this).2
      · exact this

end sort

/-! ### `Style.from_dict` -/

/-- **C19-p (`Priority.MOST_PRECISE`).**  The rule list handed to `Style(...)` is a permutation of the
    dict's items, sorted by the number of class-name elements (`a.b c` counts 3), and items of equal
    precision keep the dict order — and it is the only list with these three properties. -/
theorem fromDict_most_precise (sp : Char → Bool) (items : List (Text × Text)) :
    let out := fromDictRules sp true items
    out.Perm items ∧
    (out.Pairwise fun a b => precisionKey sp a.1 ≤ precisionKey sp b.1) ∧
    (∀ k, out.filter (fun it => precisionKey sp it.1 == k) = items.filter (fun it => precisionKey sp it.1 == k)) ∧
    ∀ l, (l.Pairwise fun a b => precisionKey sp a.1 ≤ precisionKey sp b.1) →
      (∀ k, l.filter (fun it => precisionKey sp it.1 == k) = items.filter (fun it => precisionKey sp it.1 == k)) →
      l = out := by
  intro out
  have hs := sortedByKey_sorted (fun it : Text × Text => precisionKey sp it.1) items
  have hst := sortedByKey_stable (fun it : Text × Text => precisionKey sp it.1) items
  refine ⟨sortedByKey_perm _ items, hs, hst, fun l hl hf => ?_⟩
  exact stable_sorted_unique (fun it : Text × Text => precisionKey sp it.1) l _ hl hs
    (fun k => (hf k).trans (hst k).symm)

/-- `Priority.DICT_KEY_ORDER` (the default): the dict's items in insertion order -/
theorem fromDict_key_order (sp : Char → Bool) (items : List (Text × Text)) :
    fromDictRules sp false items = items := rfl

/-! ### consequences for the compiled rule table -/

/-- number of class-name elements of a compiled rule -/
def rulePrecision (r : Rule) : Nat := (r.names.map fun i => (splitOn '.' i).length).sum

/-- the regex `\s` has no upper-case ASCII letter -/
def NoUpperSpace (rsp : Char → Bool) : Prop := ∀ c : Char, 65 ≤ c.toNat → c.toNat ≤ 90 → rsp c = false

theorem lower_of_classNamesOk (rsp : Char → Bool) (hr : NoUpperSpace rsp) (t : Text)
    (h : classNamesOk rsp t = true) : lower t = t := by
  unfold lower
  induction t with
  | nil => rfl
  | cons c cs ih =>
    simp only [classNamesOk, List.all_cons, Bool.and_eq_true] at h
    rw [List.map_cons, ih (by simpa [classNamesOk] using h.2)]
    congr 1
    unfold lowerChar
    split
    · rename_i hu
      have hsp := hr c hu.1 hu.2
      have h1 := h.1
      simp only [hsp, Bool.or_false, Bool.or_eq_true, Bool.and_eq_true, decide_eq_true_eq, beq_iff_eq] at h1
      rcases h1 with (((⟨_, _⟩ | ⟨_, _⟩) | h1) | h1) | h1
      · omega
      · omega
      · subst h1; revert hu; decide
      · subst h1; revert hu; decide
      · subst h1; revert hu; decide
    · rfl

theorem compileRule_precision (T : Tables) (sp rsp : Char → Bool) (hr : NoUpperSpace rsp)
    (raw : Text × Text) (r : Rule) (h : compileRule T sp rsp raw = .ok r) :
    rulePrecision r = precisionKey sp raw.1 := by
  unfold compileRule at h
  split at h
  · cases h
  · rename_i hok
    split at h
    · cases h
      unfold rulePrecision precisionKey
      rw [lower_of_classNamesOk rsp hr raw.1 (by simpa using hok)]
    · cases h

theorem compile_cons_ok (T : Tables) (sp rsp : Char → Bool) (x : Text × Text) (xs : List (Text × Text))
    (rs : List Rule) (h : compile T sp rsp (x :: xs) = .ok rs) :
    ∃ r rs', compileRule T sp rsp x = .ok r ∧ compile T sp rsp xs = .ok rs' ∧ rs = r :: rs' := by
  simp only [compile] at h
  cases hx : compileRule T sp rsp x with
  | error e => simp [hx] at h
  | ok r =>
    cases hxs : compile T sp rsp xs with
    | error e => simp [hx, hxs] at h
    | ok rs' =>
      simp [hx, hxs] at h
      exact ⟨r, rs', rfl, rfl, h.symm⟩

theorem compile_mem (T : Tables) (sp rsp : Char → Bool) (l : List (Text × Text)) (rs : List Rule)
    (h : compile T sp rsp l = .ok rs) : ∀ r ∈ rs, ∃ raw ∈ l, compileRule T sp rsp raw = .ok r := by
  induction l generalizing rs with
  | nil => simp [compile] at h; cases h; simp
  | cons x xs ih =>
    obtain ⟨r0, rs', h0, hxs, rfl⟩ := compile_cons_ok T sp rsp x xs rs h
    intro r hr
    rcases List.mem_cons.mp hr with rfl | hr
    · exact ⟨x, by simp, h0⟩
    · obtain ⟨raw, hraw, hc⟩ := ih rs' hxs r hr
      exact ⟨raw, by simp [hraw], hc⟩

theorem compile_pairwise (T : Tables) (sp rsp : Char → Bool) (hr : NoUpperSpace rsp)
    (l : List (Text × Text)) (rs : List Rule) (h : compile T sp rsp l = .ok rs)
    (hp : l.Pairwise fun a b => precisionKey sp a.1 ≤ precisionKey sp b.1) :
    rs.Pairwise fun a b => rulePrecision a ≤ rulePrecision b := by
  induction l generalizing rs with
  | nil => simp [compile] at h; cases h; exact .nil
  | cons x xs ih =>
    obtain ⟨r0, rs', h0, hxs, rfl⟩ := compile_cons_ok T sp rsp x xs rs h
    rw [List.pairwise_cons] at hp ⊢
    refine ⟨fun c hc => ?_, ih rs' hxs hp.2⟩
    obtain ⟨raw, hraw, hcr⟩ := compile_mem T sp rsp xs rs' hxs c hc
    rw [compileRule_precision T sp rsp hr x r0 h0, compileRule_precision T sp rsp hr raw c hcr]
    exact hp.1 raw hraw

/-- **C19-p' (`MOST_PRECISE`, compiled).**  In the rule table of `Style.from_dict(d, MOST_PRECISE)` the
    rules are in non-decreasing order of precision. -/
theorem fromDict_rules_sorted (T : Tables) (sp rsp : Char → Bool) (hr : NoUpperSpace rsp)
    (items : List (Text × Text)) (rules : List Rule)
    (h : compile T sp rsp (fromDictRules sp true items) = .ok rules) :
    rules.Pairwise fun a b => rulePrecision a ≤ rulePrecision b :=
  compile_pairwise T sp rsp hr _ rules h (fromDict_most_precise sp items).2.1

theorem pairwise_le_getLast {β : Type} (f : β → Nat) (l : List β) (h : l.Pairwise fun a b => f a ≤ f b)
    (hne : l ≠ []) : ∀ x ∈ l, f x ≤ f (l.getLast hne) := by
  intro x hx
  obtain ⟨init, hl⟩ : ∃ init, l = init ++ [l.getLast hne] := ⟨l.dropLast, (List.dropLast_concat_getLast hne).symm⟩
  rw [hl] at hx h
  rw [List.pairwise_append] at h
  rcases List.mem_append.mp hx with hx | hx
  · exact h.2.2 x hx _ (by simp)
  · simp at hx; rw [hx]; exact Nat.le_refl _

/-- **C19-p'' (most precise applicable rule is applied last).**  With `MOST_PRECISE`, among the rules
    selected at one class-name step (or among the default rules) — for any selection predicate —
    the rule applied last, i.e. the one whose values win at that step, has the greatest precision. -/
theorem most_precise_applied_last (T : Tables) (sp rsp : Char → Bool) (hr : NoUpperSpace rsp)
    (items : List (Text × Text)) (rules : List Rule)
    (h : compile T sp rsp (fromDictRules sp true items) = .ok rules) (p : Rule → Bool)
    (hne : rules.filter p ≠ []) :
    ∀ r ∈ rules.filter p, rulePrecision r ≤ rulePrecision ((rules.filter p).getLast hne) :=
  pairwise_le_getLast rulePrecision _
    ((fromDict_rules_sorted T sp rsp hr items rules h).sublist List.filter_sublist) hne

end Ptk.C19
