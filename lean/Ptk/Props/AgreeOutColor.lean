/-
  Cross-model agreement, cluster "Output side" — pair (3), part C06 vs C19: the colour search and the SGR encoder of
  src/prompt_toolkit/output/vt100.py

      _get_closest_ansi_color            C06.closestAnsi / closestLoop     vs  C19.closest16 (argmin fold)
      _256ColorCache.__missing__         C06.closest256 / closest256Loop   vs  C19.closest256
      _16ColorCache.get_code / _get      inline lookup in C06.colorGet     vs  C19.code16
      _EscapeCodeCache._color_name_to_rgb  C06.colorToRgb (hex digits)     vs  C19.colorNameToRgb (CPython `int(s, 16)`)
      _EscapeCodeCache._colors_to_code(.get)  C06.colorGet / colorsToCode  vs  C19.colorCodes / colorsToCode
      _EscapeCodeCache.__missing__       C06.sgrParams / escapeCode        vs  C19.sgrCodes / escapeCode

  C06 (Model/C06Vt.lean) reads the tables `Gen.C06.*` directly and takes the colour depth as a number; C19
  (Model/C19Color.lean, canonical) is parametric in `Tables`, `isspace` (`sp`) and uses an enum `Depth`.  Translation:
  `TablesAgree T` (T's four colour tables are the lists C06 reads; proved for the regenerated `Gen.C19.tables`),
  `depthNat`, `attrsTo` (C06's plain `Attrs` fields as present fields of C19's).  Domain: C06 models `int(color, 16)`
  only for strings of hex digits, so the colour strings are `""`, ANSI names, or hex strings (`ColorOk`: what
  `parse_color` produces); `colorToRgb_outside_domain` is a witness of the excluded region (C19 follows Python there).
-/
import Ptk.Model.C06Vt
import Ptk.Model.C19Color
import Ptk.Gen.C19
namespace Ptk.AgreeOut.Color
open Ptk Ptk.Py

/-! ### tables -/

set_option maxRecDepth 100000 in
-- the colour tables regenerated for the two models are the same lists
theorem gen_tables_eq :
    Gen.C19.tables.fg = Gen.C06.fgAnsi ∧ Gen.C19.tables.bg = Gen.C06.bgAnsi ∧
    Gen.C19.tables.ansiRgb = Gen.C06.ansiRgb ∧ Gen.C19.tables.pal256 = Gen.C06.palette := by
  decide +kernel

/-- a `Tables` value whose four colour tables are the ones C06 reads -/
def TablesAgree (T : C19.Tables) : Prop :=
  T.fg = Gen.C06.fgAnsi ∧ T.bg = Gen.C06.bgAnsi ∧ T.ansiRgb = Gen.C06.ansiRgb ∧ T.pal256 = Gen.C06.palette

theorem gen_tablesAgree : TablesAgree Gen.C19.tables := gen_tables_eq

-- dict lookup: `Ptk.C06.lookupT2` vs `Ptk.C19.lookup`
theorem lookup_eq {α : Type} (l : List (Text × α)) (s : Text) : C06.lookupT2 l s = C19.lookup s l := by
  induction l with
  | nil => rfl
  | cons kv rest ih =>
    obtain ⟨k, v⟩ := kv
    simp only [C06.lookupT2, C19.lookup, ih]
    by_cases h : k = s <;> simp [h]

/-! ### distances -/

-- `(r - r2) ** 2 + …` — `Ptk.C06.dist2` vs `Ptk.C19.dist`
theorem dist_eq (r g b r2 g2 b2 : Nat) : C06.dist2 r g b r2 g2 b2 = C19.dist (r, g, b) (r2, g2, b2) := by
  simp only [C06.dist2, C19.dist, C06.absDiff, C19.sqDiff]
  split <;> split <;> split <;> rfl

theorem absDiff_eq (a b : Nat) : C06.absDiff a b = C19.absDiff a b := rfl

/-! ### `_get_closest_ansi_color` -/

/-- the candidates of the 16-colour search over a name → rgb table with the final exclusion list `ex` -/
def cands (kw : Text) (r g b : Nat) (ex : List Text) (l : List (Text × (Nat × Nat × Nat))) : List (Text × Nat) :=
  (l.filter fun np => np.1 != kw && !ex.contains np.1).map fun np => (np.1, C19.dist (r, g, b) np.2)

theorem closestLoop_eq (r g b : Nat) (ex : List Text) (l : List (Text × (Nat × Nat × Nat))) :
    ∀ (m : Text) (d : Nat),
    C06.closestLoop r g b ex l m d = (C19.argminLoop (cands C06.kwDefault r g b ex l) (m, d)).1 := by
  generalize hkw : C06.kwDefault = kw
  induction l with
  | nil => intro m d; rfl
  | cons np rest ih =>
    intro m d
    obtain ⟨name, r2, g2, b2⟩ := np
    simp only [C06.closestLoop, cands, List.filter_cons, hkw]
    by_cases h1 : name = kw
    · subst h1
      simp only [ne_eq, not_true_eq_false, false_and, if_false, bne_self_eq_false, Bool.false_and,
        Bool.false_eq_true]
      exact ih m d
    · have hne : (name != kw) = true := by simpa using h1
      by_cases h2 : ex.contains name = true
      · simp only [h2, hne, ne_eq, not_true_eq_false, and_false, if_false, Bool.not_true, Bool.and_false,
          Bool.false_eq_true]
        exact ih m d
      · simp only [Bool.not_eq_true] at h2
        simp only [h1, h2, hne, ne_eq, not_false_eq_true, Bool.false_eq_true, and_self, if_true, Bool.not_false,
          Bool.and_self, List.map_cons, C19.argminLoop, List.foldl_cons, dist_eq]
        by_cases h3 : C19.dist (r, g, b) (r2, g2, b2) < d
        · simp only [h3, if_true]; exact ih _ _
        · simp only [h3, if_false]; exact ih _ _

theorem exclude_eq (r g b : Nat) (exclude : List Text) :
    (if 30 < C06.absDiff r g + C06.absDiff g b + C06.absDiff b r then exclude ++ C06.grayish else exclude)
      = C19.exclude16 (r, g, b) exclude := rfl

-- output/vt100.py::_get_closest_ansi_color — `Ptk.C06.closestAnsi` (recursive loop over Gen.C06.ansiRgb) vs
-- `Ptk.C19.closest16` (argmin fold over filtered candidates of any table)
theorem closestAnsi_eq (r g b : Nat) (exclude : List Text) :
    C06.closestAnsi r g b exclude = C19.closest16 Gen.C06.ansiRgb (r, g, b) exclude := by
  unfold C06.closestAnsi
  simp only [exclude_eq, closestLoop_eq]
  rfl


/-! ### `_256ColorCache.__missing__` -/

theorem closest256Loop_eq (r g b : Nat) (l : List (Nat × Nat × Nat)) :
    ∀ (i m d : Nat),
    C06.closest256Loop r g b l i m d =
      (C19.argminLoop (((C19.enumFrom i l).filter fun ip => 16 ≤ ip.1).map fun ip => (ip.1, C19.dist (r, g, b) ip.2))
        (m, d)).1 := by
  induction l with
  | nil => intro i m d; rfl
  | cons p rest ih =>
    intro i m d
    obtain ⟨r2, g2, b2⟩ := p
    simp only [C06.closest256Loop, C19.enumFrom, List.filter_cons, dist_eq]
    by_cases h1 : 16 ≤ i
    · simp only [h1, true_and, decide_true, if_true, List.map_cons, C19.argminLoop, List.foldl_cons]
      by_cases h3 : C19.dist (r, g, b) (r2, g2, b2) < d
      · simp only [h3, if_true]; exact ih _ _ _
      · simp only [h3, if_false]; exact ih _ _ _
    · simp only [h1, false_and, decide_false, if_false, Bool.false_eq_true]
      exact ih _ _ _

-- output/vt100.py::_256ColorCache.__missing__ — `Ptk.C06.closest256` vs `Ptk.C19.closest256`
theorem closest256_eq (r g b : Nat) : C06.closest256 r g b = C19.closest256 Gen.C06.palette (r, g, b) := by
  unfold C06.closest256
  rw [closest256Loop_eq]
  rfl

/-! ### `int(color, 16)` / `_color_name_to_rgb` -/

/-- a non-blank string of hex digits (what `parse_color` leaves of `#rrggbb`) -/
def HexStr (sp : Char → Bool) (c : Text) : Prop := ∀ ch ∈ c, (C06.hexVal ch).isSome = true ∧ sp ch = false

theorem hexVal_eq (c : Char) : C06.hexVal c = C19.hexVal? c := rfl

theorem stripWs_id (sp : Char → Bool) (t : Text) (h : ∀ ch ∈ t, sp ch = false) : C19.stripWs sp t = t := by
  have h1 : ∀ l : Text, (∀ ch ∈ l, sp ch = false) → l.dropWhile sp = l := by
    intro l hl
    cases l with
    | nil => rfl
    | cons a as => simp [List.dropWhile, hl a (by simp)]
  unfold C19.stripWs
  rw [h1 t h, h1 t.reverse (by intro ch hch; exact h ch (by simpa using hch))]
  simp

theorem hexDigits_fold (t : Text) (h : ∀ ch ∈ t, (C06.hexVal ch).isSome = true) :
    ∀ (acc : Nat) (prev : Bool), (prev = true ∨ t ≠ []) →
    C19.hexDigits? prev acc t =
      t.foldl (fun acc c => match acc, C06.hexVal c with
        | some a, some v => some (a * 16 + v)
        | _, _ => none) (some acc) := by
  induction t with
  | nil => intro acc prev hp; simp_all [C19.hexDigits?]
  | cons c cs ih =>
    intro acc prev _
    have hc := h c (by simp)
    have hne : (c == '_') = false := by
      cases hu : (c == '_') with
      | false => rfl
      | true =>
        have : c = '_' := by simpa using hu
        subst this
        exact absurd hc (by decide)
    rw [C19.hexDigits?]
    simp only [hne, Bool.false_eq_true, if_false, List.foldl_cons]
    rw [← hexVal_eq]
    cases hv : C06.hexVal c with
    | none => simp [hv] at hc
    | some v =>
      simp only []
      exact ih (fun ch hch => h ch (by simp [hch])) _ true (Or.inl rfl)


theorem hex_not_special (ch : Char) (h : (C06.hexVal ch).isSome = true) :
    ch ≠ '-' ∧ ch ≠ '+' ∧ ch ≠ 'x' ∧ ch ≠ 'X' := by
  refine ⟨?_, ?_, ?_, ?_⟩ <;> (intro e; subst e; exact absurd h (by decide))

-- `int(color, 16)` — `Ptk.C06.parseHex` (hex digits only) vs `Ptk.C19.pyIntHex` (CPython's full grammar), on hex strings
theorem parseHex_eq (sp : Char → Bool) (c : Text) (h : HexStr sp c) :
    (C06.parseHex c).map Int.ofNat = C19.pyIntHex sp c := by
  unfold C19.pyIntHex
  rw [stripWs_id sp c (fun ch hch => (h ch hch).2)]
  cases c with
  | nil => rfl
  | cons a as =>
    have ha := hex_not_special a (h a (by simp)).1
    have hfold := hexDigits_fold (a :: as) (fun ch hch => (h ch hch).1) 0 false (Or.inr (by simp))
    unfold C19.pyIntHexCore
    have e1 : ((a :: as).head? == some '-') = false := by simp [ha.1]
    have e2 : ((a :: as).head? == some '+') = false := by simp [ha.2.1]
    simp only [e1, e2, Bool.or_self, Bool.false_eq_true, if_false]
    have e3 : ((a :: as)[1]? == some 'x' || (a :: as)[1]? == some 'X') = false := by
      cases as with
      | nil => rfl
      | cons b bs =>
        have hb := hex_not_special b (h b (by simp)).1
        simp [hb.2.2.1, hb.2.2.2]
    simp only [e3, Bool.and_false, Bool.false_eq_true, if_false, hfold]
    show Option.map Int.ofNat (List.foldl _ (some 0) (a :: as)) = _
    generalize List.foldl _ (some 0) (a :: as) = r
    cases r <;> rfl

-- output/vt100.py::_EscapeCodeCache._color_name_to_rgb — `Ptk.C06.colorToRgb` vs `Ptk.C19.colorNameToRgb`, on hex strings
theorem colorToRgb_eq (sp : Char → Bool) (c : Text) (h : HexStr sp c) :
    C06.colorToRgb c = C19.colorNameToRgb sp c := by
  unfold C06.colorToRgb C19.colorNameToRgb
  rw [← parseHex_eq sp c h]
  cases C06.parseHex c with
  | none => rfl
  | some n =>
    simp only [Option.map_some, Int.ofNat_eq_natCast]
    refine congrArg some (Prod.ext ?_ (Prod.ext ?_ ?_)) <;> simp only [] <;> omega

-- the excluded region: outside hex strings C06 does not model `int(color, 16)` (stated in Model/C06Vt.lean);
-- e.g. "-1": Python's `int("-1", 16) = -1`, `(-1 >> 16) & 0xFF = 255` — C19 follows it, C06 says "no colour"
theorem colorToRgb_outside_domain :
    C06.colorToRgb ['-', '1'] = none ∧ C19.colorNameToRgb (fun _ => false) ['-', '1'] = some (255, 255, 255) := by
  decide


/-! ### `_16ColorCache.get_code`, `_colors_to_code` -/

theorem argmin_mem {κ : Type} (cs : List (κ × Nat)) : ∀ (init : κ × Nat),
    (C19.argminLoop cs init).1 = init.1 ∨ (C19.argminLoop cs init).1 ∈ cs.map Prod.fst := by
  induction cs with
  | nil => intro init; exact Or.inl rfl
  | cons kd rest ih =>
    intro init
    simp only [C19.argminLoop, List.foldl_cons, List.map_cons, List.mem_cons]
    by_cases h : kd.2 < init.2
    · simp only [h, if_true]
      rcases ih kd with h1 | h1
      · exact Or.inr (Or.inl h1)
      · exact Or.inr (Or.inr h1)
    · simp only [h, if_false]
      rcases ih init with h1 | h1
      · exact Or.inl h1
      · exact Or.inr (Or.inr h1)

/-- every name the 16-colour search can return has a foreground and a background code (no `KeyError`) -/
def namesCoded : Bool :=
  (C06.kwDefault :: Gen.C06.ansiRgb.map Prod.fst).all fun n =>
    (C06.lookupT2 Gen.C06.fgAnsi n).isSome && (C06.lookupT2 Gen.C06.bgAnsi n).isSome

theorem namesCoded_ok : namesCoded = true := by decide

theorem closest16_coded (r g b : Nat) (ex : List Text) :
    (C06.lookupT2 Gen.C06.fgAnsi (C19.closest16 Gen.C06.ansiRgb (r, g, b) ex)).isSome = true ∧
    (C06.lookupT2 Gen.C06.bgAnsi (C19.closest16 Gen.C06.ansiRgb (r, g, b) ex)).isSome = true := by
  have hall := namesCoded_ok
  simp only [namesCoded, List.all_eq_true, Bool.and_eq_true] at hall
  apply hall
  unfold C19.closest16
  rcases argmin_mem (C19.cands16 Gen.C06.ansiRgb (r, g, b) ex) ("ansidefault".toList, C19.infinity) with h | h
  · rw [h]; exact List.mem_cons_self
  · refine List.mem_cons_of_mem _ ?_
    simp only [C19.cands16, List.map_map, List.mem_map, List.mem_filter] at h ⊢
    obtain ⟨a, ⟨ha, _⟩, he⟩ := h
    exact ⟨a, ha, he⟩

/-- `ColorDepth` as the number C06 uses -/
def depthNat : C19.Depth → Nat
  | .d1 => 1
  | .d4 => 4
  | .d8 => 8
  | .d24 => 24

/-- the colour strings `Attrs` carries after `parse_color`: `""`, an ANSI colour name, or hex digits -/
def ColorOk (sp : Char → Bool) (c : Text) : Prop :=
  c = [] ∨ ((C06.lookupT2 Gen.C06.fgAnsi c).isSome = true ∧ (C06.lookupT2 Gen.C06.bgAnsi c).isSome = true) ∨ HexStr sp c

-- output/vt100.py::_16ColorCache.get_code / _get — `Ptk.C19.code16` (Option: KeyError) vs the inline lookup of C06
theorem code16_eq (T : C19.Tables) (hT : TablesAgree T) (bg : Bool) (r g b : Nat) (ex : List Text) :
    C19.code16 T bg (r, g, b) ex =
      some ((C06.lookupT2 (if bg then Gen.C06.bgAnsi else Gen.C06.fgAnsi) (C06.closestAnsi r g b ex)).getD 0,
            C06.closestAnsi r g b ex) := by
  obtain ⟨h1, h2, h3, _⟩ := hT
  have hc := closest16_coded r g b ex
  simp only [C19.code16, h1, h2, h3, closestAnsi_eq, ← lookup_eq]
  cases bg
  · simp only [Bool.false_eq_true, if_false]
    cases hl : C06.lookupT2 Gen.C06.fgAnsi (C19.closest16 Gen.C06.ansiRgb (r, g, b) ex) with
    | none => simp [hl] at hc
    | some v => rfl
  · simp only [if_true]
    cases hl : C06.lookupT2 Gen.C06.bgAnsi (C19.closest16 Gen.C06.ansiRgb (r, g, b) ex) with
    | none => simp [hl] at hc
    | some v => rfl

-- output/vt100.py::_EscapeCodeCache._colors_to_code.get — `Ptk.C06.colorGet` vs `Ptk.C19.colorCodes`
theorem colorGet_eq (T : C19.Tables) (hT : TablesAgree T) (sp : Char → Bool) (d : C19.Depth)
    (fgColor bgColor fgAnsi color : Text) (bg : Bool) (hc : ColorOk sp color) :
    C06.colorGet (depthNat d) fgColor bgColor fgAnsi color bg
      = C19.colorCodes T sp d fgColor bgColor fgAnsi color bg := by
  have hT' := hT
  obtain ⟨h1, h2, h3, h4⟩ := hT
  unfold C06.colorGet C19.colorCodes
  by_cases h0 : color = [] ∨ depthNat d = 1
  · have : (color.isEmpty || d == C19.Depth.d1) = true := by
      rcases h0 with h0 | h0
      · simp [h0]
      · cases d <;> simp_all [depthNat]
    simp [h0, this]
  · have : (color.isEmpty || d == C19.Depth.d1) = false := by
      have a : color ≠ [] := fun e => h0 (Or.inl e)
      have b : d ≠ C19.Depth.d1 := fun e => h0 (Or.inr (by rw [e]; rfl))
      simp [a, b]
    simp only [h0, this, if_false, Bool.false_eq_true]
    have htab : C06.lookupT2 (if bg then Gen.C06.bgAnsi else Gen.C06.fgAnsi) color
        = C19.lookup color (if bg = true then T.bg else T.fg) := by
      rw [lookup_eq, h1, h2]
    rw [htab]
    cases hl : C19.lookup color (if bg = true then T.bg else T.fg) with
    | some code => rfl
    | none =>
      simp only []
      have hhex : HexStr sp color := by
        rcases hc with hc | hc | hc
        · exact absurd hc (fun e => h0 (Or.inl e))
        · rw [← htab] at hl
          cases bg <;> simp_all
        · exact hc
      rw [colorToRgb_eq sp color hhex]
      cases hrgb : C19.colorNameToRgb sp color with
      | none => rfl
      | some rgb =>
        obtain ⟨r, g, b⟩ := rgb
        cases d
        · exact absurd (Or.inr rfl) h0
        · -- 4 bit
          simp only [depthNat, if_true]
          cases bg
          · simp only [Bool.false_eq_true, if_false]
            rw [code16_eq T hT' false r g b []]
            rfl
          · simp only [if_true]
            rw [code16_eq T hT' true r g b _]
            simp only [if_true]
            by_cases hne : fgColor = bgColor <;> simp [hne]
        · -- 8 bit
          simp [depthNat, closest256_eq, h4]
        · -- 24 bit
          simp [depthNat]

-- output/vt100.py::_EscapeCodeCache._colors_to_code — `Ptk.C06.colorsToCode` vs `Ptk.C19.colorsToCode`
theorem colorsToCode_eq (T : C19.Tables) (hT : TablesAgree T) (sp : Char → Bool) (d : C19.Depth) (fg bg : Text)
    (hf : ColorOk sp fg) (hb : ColorOk sp bg) :
    C06.colorsToCode (depthNat d) fg bg = C19.colorsToCode T sp d fg bg := by
  simp only [C06.colorsToCode, C19.colorsToCode, colorGet_eq T hT sp d _ _ _ _ _ hf, colorGet_eq T hT sp d _ _ _ _ _ hb]


/-! ### `_EscapeCodeCache.__missing__` -/

/-- C06's `Attrs` (plain fields) as C19's (`None`-able fields): every field present -/
def attrsTo (a : C06.Attrs) : C19.Attrs :=
  ⟨some a.fg, some a.bg, some a.bold, some a.underline, some a.strike, some a.italic, some a.blink,
   some a.reverse, some a.hidden⟩

-- the flag part of `_EscapeCodeCache.__missing__` — `Ptk.C06.sgrParams` vs `Ptk.C19.sgrCodes`
theorem sgrParams_eq (T : C19.Tables) (hT : TablesAgree T) (sp : Char → Bool) (d : C19.Depth) (a : C06.Attrs)
    (hf : ColorOk sp a.fg) (hb : ColorOk sp a.bg) :
    C06.sgrParams (depthNat d) a = C19.sgrCodes T sp d (attrsTo a) := by
  simp only [C06.sgrParams, C19.sgrCodes, attrsTo, Option.getD_some, C19.truthy,
    colorsToCode_eq T hT sp d _ _ hf hb, List.append_assoc]
  rfl

theorem natToDecFuel_fuel : ∀ (f g n : Nat), n ≤ f → n ≤ g → C19.natToDecFuel f n = C19.natToDecFuel g n := by
  intro f
  induction f with
  | zero =>
    intro g n h _
    have : n = 0 := by omega
    subst this
    cases g <;> simp [C19.natToDecFuel]
  | succ f ih =>
    intro g n hf hg
    cases g with
    | zero =>
      have : n = 0 := by omega
      subst this
      simp [C19.natToDecFuel]
    | succ g =>
      simp only [C19.natToDecFuel]
      by_cases h : n < 10
      · simp [h]
      · simp only [h, if_false]
        rw [ih g (n / 10) (by omega) (by omega)]

theorem digitsAux_fuel : ∀ (f g n : Nat), n < f → n < g → C06.digitsAux f n = C06.digitsAux g n := by
  intro f
  induction f with
  | zero => intro g n h; omega
  | succ f ih =>
    intro g n hf hg
    cases g with
    | zero => omega
    | succ g =>
      simp only [C06.digitsAux]
      by_cases h : n < 10
      · simp [h]
      · simp only [h, if_false]
        rw [ih g (n / 10) (by omega) (by omega)]

-- `str(n)` — `Ptk.C06.digits` vs `Ptk.C19.natToDec`
theorem digits_eq_natToDec (n : Nat) : C06.digits n = C19.natToDec n := by
  induction n using Nat.strongRecOn with
  | _ n ih =>
    show C06.digitsAux (n + 1) n = C19.natToDecFuel n n
    by_cases h : n < 10
    · cases n with
      | zero => rfl
      | succ k => simp [C06.digitsAux, C19.natToDecFuel, h]; rfl
    · cases n with
      | zero => omega
      | succ k =>
        rw [C06.digitsAux, C19.natToDecFuel]
        simp only [h, if_false]
        rw [digitsAux_fuel (k + 1) ((k + 1) / 10 + 1) ((k + 1) / 10) (by omega) (by omega),
          natToDecFuel_fuel k ((k + 1) / 10) ((k + 1) / 10) (by omega) (by omega)]
        have := ih ((k + 1) / 10) (by omega)
        simp only [C06.digits, C19.natToDec] at this
        rw [this]; rfl

-- `";".join(parts)` — `Ptk.C06.joinSemi` vs `Ptk.Py.join [';']`
theorem joinSemi_eq (l : List Text) : C06.joinSemi l = join [';'] l := by
  induction l with
  | nil => rfl
  | cons t rest ih =>
    cases rest with
    | nil => rfl
    | cons u us => simp only [C06.joinSemi, join, ih, List.append_assoc, List.singleton_append]

-- output/vt100.py::_EscapeCodeCache.__missing__ — `Ptk.C06.escapeCode` vs `Ptk.C19.escapeCode`
theorem escapeCode_eq (T : C19.Tables) (hT : TablesAgree T) (sp : Char → Bool) (d : C19.Depth) (a : C06.Attrs)
    (hf : ColorOk sp a.fg) (hb : ColorOk sp a.bg) :
    C06.escapeCode (depthNat d) a = C19.escapeCode T sp d (attrsTo a) := by
  unfold C06.escapeCode C19.escapeCode C19.renderEscape
  rw [sgrParams_eq T hT sp d a hf hb]
  generalize C19.sgrCodes T sp d (attrsTo a) = codes
  have hmap : codes.map C06.digits = codes.map C19.natToDec := by
    apply List.map_congr_left; intro n _; exact digits_eq_natToDec n
  cases codes with
  | nil => rfl
  | cons c cs =>
    simp only [List.map_cons, joinSemi_eq, List.isEmpty_cons, Bool.false_eq_true, if_false] at hmap ⊢
    rw [List.cons.injEq] at hmap
    rw [hmap.1, hmap.2]
    rfl

-- on the regenerated tables of C19
theorem escapeCode_gen (sp : Char → Bool) (d : C19.Depth) (a : C06.Attrs)
    (hf : ColorOk sp a.fg) (hb : ColorOk sp a.bg) :
    C06.escapeCode (depthNat d) a = C19.escapeCode Gen.C19.tables sp d (attrsTo a) :=
  escapeCode_eq Gen.C19.tables gen_tablesAgree sp d a hf hb

/-- non-vacuity: a 6-digit hex colour and an ANSI name are in the domain -/
example : ColorOk (fun c => c = ' ') "ff8000".toList := Or.inr (Or.inr (by unfold HexStr; decide))
example : ColorOk (fun c => c = ' ') "ansired".toList := Or.inr (Or.inl (by decide))

end Ptk.AgreeOut.Color
