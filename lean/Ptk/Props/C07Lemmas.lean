/-
  C07 — helper lemmas for `Ptk/Props/C07.lean` (the property theorems live there).
-/
import Ptk.Props.C07Defs
namespace Ptk.C07
open Ptk.Py

/-! ## helper lemmas -/

theorem buf_eta (t : Buf) (b : Buf) (h : t.text = b.text) :
    ({ text := t.text, cur := b.cur } : Buf) = b := by
  cases b; cases t; simp_all

theorem saveToUndo_buf (c : Bool) (s : St) : (saveToUndo c s).buf = s.buf := by
  simp [saveToUndo]

theorem saveToUndo_redo (c : Bool) (s : St) :
    (saveToUndo c s).redo = if c then [] else s.redo := by
  simp [saveToUndo]

theorem saveToUndo_true_redo (s : St) : (saveToUndo true s).redo = [] := by
  simp [saveToUndo]

/-- after a save the top of the undo stack is exactly the current (text, cursor) -/
theorem saveToUndo_top (c : Bool) (s : St) :
    ∃ rest, (saveToUndo c s).undo = s.buf :: rest := by
  unfold saveToUndo
  cases hu : s.undo with
  | nil => exact ⟨[], by simp⟩
  | cons top rest =>
    by_cases h : top.text = s.buf.text
    · exact ⟨rest, by simp [h]⟩
    · exact ⟨top :: rest, by simp [h]⟩

theorem saveToUndo_sublist (c : Bool) (s : St) (log : List Buf)
    (h : s.undo.Sublist (s.buf :: log)) : (saveToUndo c s).undo.Sublist (s.buf :: log) := by
  unfold saveToUndo
  cases hu : s.undo with
  | nil => simp
  | cons top rest =>
    rw [hu] at h
    by_cases ht : top.text = s.buf.text
    · simp only [ht, if_true]
      show (s.buf :: rest).Sublist (s.buf :: log)
      apply List.Sublist.cons_cons
      rcases List.sublist_cons_iff.mp h with h1 | ⟨r, hr, h2⟩
      · exact (List.sublist_cons_self top rest).trans h1
      · cases hr; exact h2
    · simp only [ht, if_false]
      apply List.Sublist.cons_cons
      rcases List.sublist_cons_iff.mp h with h1 | ⟨r, hr, _⟩
      · exact h1
      · cases hr; exact absurd rfl ht

theorem undoLoop_some {b : Buf} {u : List Buf} {t : Buf} {rest : List Buf}
    (h : undoLoop b u = some (t, rest)) :
    ∃ pre, u = pre ++ t :: rest ∧ (∀ p ∈ pre, p.text = b.text) ∧ t.text ≠ b.text := by
  induction u with
  | nil => unfold undoLoop at h; cases h
  | cons x xs ih =>
    unfold undoLoop at h
    by_cases hx : x.text ≠ b.text
    · rw [if_pos hx] at h
      cases h
      exact ⟨[], by simp, by simp, hx⟩
    · rw [if_neg hx] at h
      obtain ⟨pre, h1, h2, h3⟩ := ih h
      refine ⟨x :: pre, by simp [h1], ?_, h3⟩
      intro p hp
      rcases List.mem_cons.mp hp with rfl | hp
      · simpa using hx
      · exact h2 p hp

theorem undoLoop_none {b : Buf} {u : List Buf} (h : undoLoop b u = none) :
    ∀ p ∈ u, p.text = b.text := by
  induction u with
  | nil => simp
  | cons x xs ih =>
    unfold undoLoop at h
    by_cases hx : x.text ≠ b.text
    · rw [if_pos hx] at h; cases h
    · rw [if_neg hx] at h
      intro p hp
      rcases List.mem_cons.mp hp with rfl | hp
      · simpa using hx
      · exact ih h p hp

theorem undoLoop_sublist {b : Buf} {u : List Buf} {t : Buf} {rest : List Buf}
    (h : undoLoop b u = some (t, rest)) : (t :: rest).Sublist u := by
  obtain ⟨pre, h1, _, _⟩ := undoLoop_some h
  rw [h1]; exact List.sublist_append_right pre (t :: rest)

theorem undo_some {s : St} {t : Buf} {rest : List Buf} (h : undoLoop s.buf s.undo = some (t, rest)) :
    undo s = { buf := t, undo := rest, redo := s.buf :: s.redo } := by
  simp [undo, h]

theorem undo_none {s : St} (h : undoLoop s.buf s.undo = none) :
    undo s = { buf := s.buf, undo := [], redo := s.redo } := by
  simp [undo, h]

theorem undoN_replicate (n : Nat) (s : St) :
    (List.replicate n Act.undo).foldl act s = undoN n s := by
  induction n generalizing s with
  | zero => rfl
  | succ n ih => simp [List.replicate_succ, act, undoN, ih]

theorem callHandler_eq (h : Nat) (rule : Bool → Bool) (body : List Act) (k : KSt) :
    callHandler h rule body k = { st := body.foldl act (boundary rule h k), prev := some h } := rfl

theorem boundary_buf (rule : Bool → Bool) (h : Nat) (k : KSt) : (boundary rule h k).buf = k.st.buf := by
  unfold boundary; split <;> simp [saveToUndo_buf]

theorem body_run (b : Body) (s : St) : b.acts.foldl act s = b.run s := by
  cases b with
  | edit f => rfl
  | undo n post => simp [Body.acts, Body.run, List.foldl_append, undoN_replicate, act]
  | redo post => simp [Body.acts, Body.run, act]
  | save c => rfl

theorem stepK_eq (rule : Nat → Bool → Bool) (k : KSt) (c : Cmd) :
    stepK rule k c = { st := c.body.run (boundary (rule c.h) c.h k), prev := some c.h } := by
  simp [stepK, callHandler_eq, body_run]

/-! ### the log invariant -/

theorem mid_undo {L : List Buf} {s : St} (h : Mid L s) : Mid L (undo s) := by
  obtain ⟨hU, hR, hB⟩ := h
  cases hl : undoLoop s.buf s.undo with
  | none =>
    rw [undo_none hl]
    exact ⟨by simp, hR, hB⟩
  | some p =>
    obtain ⟨t, rest⟩ := p
    rw [undo_some hl]
    have hs := undoLoop_sublist hl
    refine ⟨((List.sublist_cons_self t rest).trans hs).trans hU, ?_, ?_⟩
    · intro r hr
      rcases List.mem_cons.mp hr with rfl | hr
      · exact hB
      · exact hR r hr
    · exact hU.subset (hs.subset (by simp))

theorem mid_undoN {L : List Buf} (n : Nat) {s : St} (h : Mid L s) : Mid L (undoN n s) := by
  induction n generalizing s with
  | zero => exact h
  | succ n ih => exact ih (mid_undo h)

theorem boundary_mid (rule : Bool → Bool) (h : Nat) (g : G) (hI : Inv g) :
    let s1 := boundary rule h g.k
    s1.undo.Sublist (g.k.st.buf :: g.log) ∧ (∀ r ∈ s1.redo, r ∈ g.k.st.buf :: g.log) ∧
      s1.buf = g.k.st.buf := by
  obtain ⟨hU, hR⟩ := hI
  intro s1
  refine ⟨?_, ?_, boundary_buf rule h g.k⟩
  · show (boundary rule h g.k).undo.Sublist _
    unfold boundary; split
    · exact saveToUndo_sublist true g.k.st g.log (hU.trans (List.sublist_cons_self _ _))
    · exact hU.trans (List.sublist_cons_self _ _)
  · show ∀ r ∈ (boundary rule h g.k).redo, _
    unfold boundary; split
    · simp [saveToUndo_redo]
    · intro r hr; exact List.mem_cons_of_mem _ (hR r hr)

theorem inv_step (rule : Nat → Bool → Bool) (g : G) (c : Cmd) (hI : Inv g) : Inv (stepG rule g c) := by
  obtain ⟨h1, h2, h3⟩ := boundary_mid (rule c.h) c.h g hI
  unfold Inv stepG
  simp only [stepK_eq]
  generalize boundary (rule c.h) c.h g.k = s1 at h1 h2 h3
  cases hb : c.body with
  | edit f => exact ⟨h1, h2⟩
  | undo n post =>
    have hm : Mid (g.k.st.buf :: g.log) s1 := ⟨h1, h2, by rw [h3]; simp⟩
    have := mid_undoN n hm
    exact ⟨this.1, this.2.1⟩
  | redo post =>
    simp only [Body.run]
    unfold redo
    cases hr : s1.redo with
    | nil => exact ⟨h1, by simp [hr]⟩
    | cons r rest =>
      refine ⟨?_, ?_⟩
      · have := saveToUndo_sublist false s1 g.log (by rw [h3]; exact h1)
        rw [h3] at this; exact this
      · intro x hx; exact h2 x (by rw [hr]; exact List.mem_cons_of_mem _ hx)
  | save cl =>
    simp only [Body.run]
    refine ⟨?_, ?_⟩
    · have := saveToUndo_sublist cl s1 g.log (by rw [h3]; exact h1)
      rw [h3] at this; exact this
    · rw [saveToUndo_redo]; split
      · simp
      · exact h2

theorem inv_run (rule : Nat → Bool → Bool) (cmds : List Cmd) (g : G) (hI : Inv g) :
    Inv (runG rule cmds g) := by
  induction cmds generalizing g with
  | nil => exact hI
  | cons c cs ih => exact ih _ (inv_step rule g c hI)

theorem inv_init (b0 : Buf) : Inv (gInit b0) := by
  simp [Inv, gInit, kInit, reset]

theorem runG_k (rule : Nat → Bool → Bool) (cmds : List Cmd) (g : G) :
    (runG rule cmds g).k = runK rule cmds g.k := by
  induction cmds generalizing g with
  | nil => rfl
  | cons c cs ih => simp [runG, runK, List.foldl_cons] at *; exact ih _

theorem undoTrace_some {n : Nat} {s : St} {t : Buf} {rest : List Buf}
    (hl : undoLoop s.buf s.undo = some (t, rest)) :
    undoTrace (n + 1) s = t :: undoTrace n (undo s) := by
  simp [undoTrace, hl]

theorem undoTrace_none {n : Nat} {s : St} (hl : undoLoop s.buf s.undo = none) :
    undoTrace (n + 1) s = [] := by
  simp [undoTrace, hl]

/-- the (text, cursor) and redo stack after `redo` only depend on (text, cursor) and redo stack before -/
theorem redo_congr {x y : St} (hb : x.buf = y.buf) (hr : x.redo = y.redo) :
    (redo x).buf = (redo y).buf ∧ (redo x).redo = (redo y).redo := by
  unfold redo
  rw [hr]
  cases y.redo with
  | nil => simp [hb, hr]
  | cons r rest => simp

theorem undoChanges_text {s : St} (h : undoLoop s.buf s.undo ≠ none) :
    (undo s).buf.text ≠ s.buf.text := by
  cases hl : undoLoop s.buf s.undo with
  | none => exact absurd hl h
  | some p =>
    obtain ⟨t, rest⟩ := p
    obtain ⟨_, _, _, h3⟩ := undoLoop_some hl
    rw [undo_some hl]; exact h3

theorem botText_saveToUndo (c : Bool) (s : St) : botText (saveToUndo c s) = botText s := by
  unfold botText saveToUndo
  cases hu : s.undo with
  | nil => simp
  | cons top rest =>
    by_cases ht : top.text = s.buf.text
    · cases rest with
      | nil => simp [ht]
      | cons y ys => simp [ht, List.getLast?_cons_cons]
    · simp [ht, List.getLast?_cons_cons]

theorem botText_undo (s : St) : botText (undo s) = botText s := by
  cases hl : undoLoop s.buf s.undo with
  | none =>
    rw [undo_none hl]
    unfold botText
    cases hg : s.undo.getLast? with
    | none => simp
    | some b => simp; exact (undoLoop_none hl b (List.mem_of_getLast? hg)).symm
  | some p =>
    obtain ⟨t, rest⟩ := p
    obtain ⟨pre, h1, _, _⟩ := undoLoop_some hl
    rw [undo_some hl]
    unfold botText
    rw [h1]
    cases rest with
    | nil => simp
    | cons y ys =>
      cases hz : (y :: ys).getLast? with
      | none => simp at hz
      | some z => simp [List.getLast?_cons_cons, hz]

theorem botText_undoN (n : Nat) (s : St) : botText (undoN n s) = botText s := by
  induction n generalizing s with
  | zero => rfl
  | succ n ih => simp [undoN, ih, botText_undo]

theorem botText_setBuf (s : St) (b : Buf) (h : s.undo ≠ [] ∨ b.text = s.buf.text) :
    botText { s with buf := b } = botText s := by
  unfold botText
  cases hg : s.undo.getLast? with
  | some x => simp
  | none =>
    simp
    rcases h with h | h
    · exact absurd (List.getLast?_eq_none_iff.mp hg) h
    · exact h

theorem botText_redo (s : St) : botText (redo s) = botText s := by
  unfold redo
  cases hr : s.redo with
  | nil => rfl
  | cons r rest =>
    obtain ⟨rest', hrest⟩ := saveToUndo_top false s
    have h1 := botText_saveToUndo false s
    have h2 := botText_setBuf (saveToUndo false s) r (Or.inl (by rw [hrest]; simp))
    simp only [] at h2 ⊢
    unfold botText at h1 h2 ⊢
    simp only [saveToUndo_buf] at h1 h2
    rw [hrest] at h1 h2 ⊢
    simp at h1 h2 ⊢
    exact h1

theorem undo_length (s : St) : (undo s).undo.length ≤ s.undo.length - 1 := by
  cases hl : undoLoop s.buf s.undo with
  | none => rw [undo_none hl]; simp
  | some p =>
    obtain ⟨t, rest⟩ := p
    obtain ⟨pre, h1, _, _⟩ := undoLoop_some hl
    rw [undo_some hl, h1]; simp <;> omega

theorem botText_boundary (rule : Bool → Bool) (h : Nat) (k : KSt) :
    botText (boundary rule h k) = botText k.st := by
  unfold boundary; split
  · exact botText_saveToUndo true k.st
  · rfl

theorem sinv_step (rule : Nat → Bool → Bool) (isEditH : Nat → Bool) (t0 : Text) (k : KSt) (c : Cmd)
    (hsaves : ∀ h, isEditH h = true → rule h false = true)
    (hkind : c.body.isEdit = isEditH c.h) (hpost : c.body.PostKeepsText)
    (hI : SInv isEditH t0 k) : SInv isEditH t0 (stepK rule k c) := by
  obtain ⟨hb, hp⟩ := hI
  rw [stepK_eq]
  have hb1 : botText (boundary (rule c.h) c.h k) = t0 := by rw [botText_boundary]; exact hb
  cases hbody : c.body with
  | edit f =>
    have hE : isEditH c.h = true := by rw [← hkind, hbody]; rfl
    have hne : (boundary (rule c.h) c.h k).undo ≠ [] ∧ (boundary (rule c.h) c.h k).redo = [] := by
      unfold boundary
      by_cases hrep : k.prev = some c.h
      · split
        · obtain ⟨rest, hr⟩ := saveToUndo_top true k.st
          exact ⟨by rw [hr]; simp, saveToUndo_true_redo k.st⟩
        · exact hp c.h hrep hE
      · have : rule c.h (decide (k.prev = some c.h)) = true := by simp [hrep, hsaves c.h hE]
        rw [if_pos this]
        obtain ⟨rest, hr⟩ := saveToUndo_top true k.st
        exact ⟨by rw [hr]; simp, saveToUndo_true_redo k.st⟩
    refine ⟨?_, ?_⟩
    · simp only [Body.run]
      rw [botText_setBuf _ _ (Or.inl hne.1)]; exact hb1
    · intro h _ _; exact hne
  | undo n post =>
    have hE : isEditH c.h = false := by rw [← hkind, hbody]; rfl
    refine ⟨?_, ?_⟩
    · simp only [Body.run]
      rw [botText_setBuf _ _ (Or.inr (by rw [hbody] at hpost; exact hpost _)), botText_undoN]; exact hb1
    · intro h hh hh2; simp at hh; subst hh; rw [hE] at hh2; cases hh2
  | redo post =>
    have hE : isEditH c.h = false := by rw [← hkind, hbody]; rfl
    refine ⟨?_, ?_⟩
    · simp only [Body.run]
      rw [botText_setBuf _ _ (Or.inr (by rw [hbody] at hpost; exact hpost _)), botText_redo]; exact hb1
    · intro h hh hh2; simp at hh; subst hh; rw [hE] at hh2; cases hh2
  | save cl =>
    have hE : isEditH c.h = false := by rw [← hkind, hbody]; rfl
    refine ⟨?_, ?_⟩
    · simp only [Body.run]; rw [botText_saveToUndo]; exact hb1
    · intro h hh hh2; simp at hh; subst hh; rw [hE] at hh2; cases hh2

theorem sinv_run (rule : Nat → Bool → Bool) (isEditH : Nat → Bool) (t0 : Text) (cmds : List Cmd)
    (k : KSt) (hwf : WF rule isEditH cmds) (hI : SInv isEditH t0 k) :
    SInv isEditH t0 (runK rule cmds k) := by
  induction cmds generalizing k with
  | nil => exact hI
  | cons c cs ih =>
    have hwf' : WF rule isEditH cs :=
      ⟨hwf.saves, fun c' hc' => hwf.kind c' (List.mem_cons_of_mem _ hc'),
       fun c' hc' => hwf.post c' (List.mem_cons_of_mem _ hc')⟩
    exact ih _ hwf' (sinv_step rule isEditH t0 k c hwf.saves (hwf.kind c (by simp))
      (hwf.post c (by simp)) hI)

theorem sinv_init (isEditH : Nat → Bool) (b0 : Buf) : SInv isEditH b0.text (kInit b0) := by
  simp [SInv, kInit, reset, botText]

theorem repeat_step (h : Nat) (rule : Bool → Bool) (g : Buf → Buf) (k : KSt)
    (hp : k.prev = some h) (hr1 : rule true = false) :
    callHandler h rule [Act.edit g] k = { st := { k.st with buf := g k.st.buf }, prev := some h } := by
  simp [callHandler_eq, boundary, hp, hr1, act]

theorem runSame_repeat (h : Nat) (rule : Bool → Bool) (fs : List (Buf → Buf)) (k : KSt)
    (hp : k.prev = some h) (hr1 : rule true = false) :
    (runSame h rule fs k).st.undo = k.st.undo ∧ (runSame h rule fs k).st.redo = k.st.redo := by
  induction fs generalizing k with
  | nil => exact ⟨rfl, rfl⟩
  | cons f fs ih =>
    have := ih (callHandler h rule [Act.edit f] k) (by rw [repeat_step h rule f k hp hr1])
    simp only [runSame, List.foldl_cons] at this ⊢
    rw [repeat_step h rule f k hp hr1] at this ⊢
    exact this

theorem vinv_save (c : Bool) (s : St) (h : VInv s) : VInv (saveToUndo c s) := by
  obtain ⟨hb, hu, hr⟩ := h
  refine ⟨by rw [saveToUndo_buf]; exact hb, ?_, ?_⟩
  · unfold saveToUndo
    cases hs : s.undo with
    | nil => simpa using hb
    | cons top rest =>
      rw [hs] at hu
      by_cases ht : top.text = s.buf.text
      · simp only [ht, if_true]
        intro u hu'
        rcases List.mem_cons.mp hu' with rfl | hu'
        · exact hb
        · exact hu u (List.mem_cons_of_mem _ hu')
      · simp only [ht, if_false]
        intro u hu'
        rcases List.mem_cons.mp hu' with rfl | hu'
        · exact hb
        · exact hu u hu'
  · rw [saveToUndo_redo]; split
    · simp
    · exact hr

theorem vinv_undo (s : St) (h : VInv s) : VInv (undo s) := by
  obtain ⟨hb, hu, hr⟩ := h
  cases hl : undoLoop s.buf s.undo with
  | none => rw [undo_none hl]; exact ⟨hb, by simp, hr⟩
  | some p =>
    obtain ⟨t, rest⟩ := p
    have hs := undoLoop_sublist hl
    rw [undo_some hl]
    refine ⟨hu t (hs.subset (by simp)), fun u hu' => hu u (hs.subset (List.mem_cons_of_mem _ hu')), ?_⟩
    intro r hr'
    rcases List.mem_cons.mp hr' with rfl | hr'
    · exact hb
    · exact hr r hr'

theorem vinv_undoN (n : Nat) (s : St) (h : VInv s) : VInv (undoN n s) := by
  induction n generalizing s with
  | zero => exact h
  | succ n ih => exact ih _ (vinv_undo s h)

theorem vinv_redo (s : St) (h : VInv s) : VInv (redo s) := by
  unfold redo
  cases hr : s.redo with
  | nil => exact h
  | cons r rest =>
    have hs := vinv_save false s h
    obtain ⟨_, _, hr'⟩ := h
    rw [hr] at hr'
    exact ⟨hr' r (by simp), hs.2.1, fun x hx => hr' x (List.mem_cons_of_mem _ hx)⟩

theorem viFix_cases (b : Buf) :
    viFix b = b ∨ viFix b = { text := b.text, cur := b.cur - 1 } := by
  unfold viFix
  dsimp only
  split <;> (split <;> first | (right; rfl) | (left; rfl))

theorem adj_tail {a : Buf} {l : List Buf} (h : AdjDistinct (a :: l)) : AdjDistinct l := by
  cases l with
  | nil => trivial
  | cons b r => exact h.2

theorem adj_suffix {pre l : List Buf} (h : AdjDistinct (pre ++ l)) : AdjDistinct l := by
  induction pre with
  | nil => exact h
  | cons a pre ih => exact ih (adj_tail h)

theorem adj_saveToUndo (c : Bool) (s : St) (h : AdjDistinct s.undo) :
    AdjDistinct (saveToUndo c s).undo := by
  unfold saveToUndo
  cases hs : s.undo with
  | nil => trivial
  | cons top rest =>
    rw [hs] at h
    by_cases ht : top.text = s.buf.text
    · simp only [ht, if_true]
      cases rest with
      | nil => trivial
      | cons y ys => exact ⟨by rw [← ht]; exact h.1, h.2⟩
    · simp only [ht, if_false]
      exact ⟨fun e => ht e.symm, h⟩

theorem adj_undo (s : St) (h : AdjDistinct s.undo) : AdjDistinct (undo s).undo := by
  cases hl : undoLoop s.buf s.undo with
  | none => rw [undo_none hl]; trivial
  | some p =>
    obtain ⟨t, rest⟩ := p
    obtain ⟨pre, h1, _, _⟩ := undoLoop_some hl
    rw [undo_some hl]
    rw [h1] at h
    exact adj_tail (adj_suffix h)

theorem adj_redo (s : St) (h : AdjDistinct s.undo) : AdjDistinct (redo s).undo := by
  unfold redo
  cases s.redo with
  | nil => exact h
  | cons r rest => exact adj_saveToUndo false s h

end Ptk.C07
